import RigModel.Lemmas.C14e
namespace Rig.C14
open Rig.Gen.C14
set_option linter.unusedSimpArgs false
set_option linter.unusedVariables false

def Ascii (l : List Nat) : Prop := ∀ b ∈ l, b < 128 ∧ b ≠ 10

theorem ascii_any (l : List Nat) (h : Ascii l) : (l.any fun b => b ≥ 128 || b == 10) = false := by
  rw [List.any_eq_false]
  intro b hb
  have := h b hb
  simp only [Bool.or_eq_true, decide_eq_true_eq, beq_iff_eq, not_or]
  omega

theorem shr16 (v buf : Nat) (hb : buf < 65536) : (v * 65536 + buf) >>> 16 = v := by
  rw [Nat.shiftRight_eq_div_pow]; omega

/-- **sver, legacy encoding** -/
theorem sver_legacy_lem (major minor buf : Nat) (name : List Nat) (hmi : minor < 100)
    (hv : major * 100 + minor < 65535) (hb : buf < 65536) (hn : Ascii name) :
    unpackSver ((major * 100 + minor) * 65536 + buf) name =
      .ok { name := rstrip0 name, major := major, minor := minor, patch := 0, labels := [] } := by
  have h1 : (major * 100 + minor) / 100 = major := by omega
  have h2 : (major * 100 + minor) % 100 = minor := by omega
  have hne : ((major * 100 + minor) != 0xFFFF) = true := by
    simp only [bne_iff_ne, ne_eq]; omega
  simp only [unpackSver, ascii_any name hn, Bool.false_eq_true, if_false, shr16 _ _ hb, hne, if_true, h1, h2]

theorem span_digits (p : Nat → Bool) (a b : List Nat) (ha : ∀ x ∈ a, p x = true)
    (hb : ∀ c ∈ b.head?, p c = false) :
    (a ++ b).takeWhile p = a ∧ (a ++ b).dropWhile p = b := by
  induction a with
  | nil =>
    cases b with
    | nil => simp
    | cons c r =>
      have := hb c (by simp)
      simp [List.takeWhile, List.dropWhile, this]
  | cons x a ih =>
    have hx := ha x (by simp)
    have := ih (fun y hy => ha y (by simp [hy]))
    simp [List.takeWhile, List.dropWhile, hx, this.1, this.2]

theorem rstrip0_snoc (l : List Nat) : rstrip0 (l ++ [0]) = rstrip0 l := by
  simp [rstrip0, List.dropWhile]

theorem rstrip0_id (l : List Nat) (h : ∀ b ∈ l, b ≠ 0) : rstrip0 l = l := by
  unfold rstrip0
  have : l.reverse.dropWhile (· == 0) = l.reverse := by
    cases hr : l.reverse with
    | nil => rfl
    | cons c r =>
      have hc : c ∈ l := by
        have : c ∈ l.reverse := by rw [hr]; simp
        simpa using this
      have hc0 : (c == 0) = false := by simpa using h c hc
      simp only [List.dropWhile, hc0]
  rw [this, List.reverse_reverse]

def Digits (l : List Nat) : Prop := l ≠ [] ∧ ∀ d ∈ l, isDigit d = true

theorem isDigit_ne0 (d : Nat) (h : isDigit d = true) : d ≠ 0 := by
  simp only [isDigit, Bool.and_eq_true, decide_eq_true_eq] at h; omega

/-- **sver, string encoding** -/
theorem sver_string_lem (buf : Nat) (name ma mi pa labels : List Nat) (hb : buf < 65536)
    (hn : Ascii name) (hn0 : ∀ b ∈ name, b ≠ 0) (hma : Digits ma) (hmi : Digits mi) (hpa : Digits pa)
    (hl : Ascii labels) (hl0 : ∀ b ∈ labels, b ≠ 0) (hlh : ∀ c ∈ labels.head?, isDigit c = false) :
    unpackSver (65535 * 65536 + buf) (name ++ [0] ++ ma ++ [46] ++ mi ++ [46] ++ pa ++ labels ++ [0]) =
      .ok { name := name, major := digitsVal ma, minor := digitsVal mi, patch := digitsVal pa, labels := labels } := by
  have hascii : Ascii (name ++ [0] ++ ma ++ [46] ++ mi ++ [46] ++ pa ++ labels ++ [0]) := by
    intro b hb'
    simp only [List.mem_append, List.mem_singleton] at hb'
    have hd : ∀ l, Digits l → b ∈ l → b < 128 ∧ b ≠ 10 := by
      intro l hl' hm
      have := hl'.2 b hm
      simp only [isDigit, Bool.and_eq_true, decide_eq_true_eq] at this; omega
    rcases hb' with ((((((((h | h) | h) | h) | h) | h) | h) | h) | h)
    · exact hn b h
    · omega
    · exact hd ma hma h
    · omega
    · exact hd mi hmi h
    · omega
    · exact hd pa hpa h
    · exact hl b h
    · omega
  -- split at the first NUL
  have hsplit := span_digits (fun b => b != 0) name
    ([0] ++ ma ++ [46] ++ mi ++ [46] ++ pa ++ labels ++ [0])
    (fun x hx => by simpa using hn0 x hx) (fun c hc => by simp at hc; simp [← hc])
  have hassoc : name ++ [0] ++ ma ++ [46] ++ mi ++ [46] ++ pa ++ labels ++ [0] =
      name ++ ([0] ++ ma ++ [46] ++ mi ++ [46] ++ pa ++ labels ++ [0]) := by simp [List.append_assoc]
  have hver : rstrip0 (List.drop 1 ([0] ++ ma ++ [46] ++ mi ++ [46] ++ pa ++ labels ++ [0])) =
      ma ++ (46 :: (mi ++ (46 :: (pa ++ labels)))) := by
    have : List.drop 1 ([0] ++ ma ++ [46] ++ mi ++ [46] ++ pa ++ labels ++ [0]) =
        (ma ++ (46 :: (mi ++ (46 :: (pa ++ labels))))) ++ [0] := by simp [List.append_assoc]
    rw [this, rstrip0_snoc, rstrip0_id]
    intro b hb'
    simp only [List.mem_append, List.mem_cons] at hb'
    rcases hb' with h | h | h | h | h | h
    · exact isDigit_ne0 b (hma.2 b h)
    · omega
    · exact isDigit_ne0 b (hmi.2 b h)
    · omega
    · exact isDigit_ne0 b (hpa.2 b h)
    · exact hl0 b h
  have s1 := span_digits isDigit ma (46 :: (mi ++ (46 :: (pa ++ labels)))) hma.2 (fun c hc => by simp at hc; subst hc; decide)
  have s2 := span_digits isDigit mi (46 :: (pa ++ labels)) hmi.2 (fun c hc => by simp at hc; subst hc; decide)
  have s3 := span_digits isDigit pa labels hpa.2 hlh
  have e1 : ma.isEmpty = false := by cases ma with | nil => exact absurd rfl hma.1 | cons _ _ => rfl
  have e2 : mi.isEmpty = false := by cases mi with | nil => exact absurd rfl hmi.1 | cons _ _ => rfl
  have e3 : pa.isEmpty = false := by cases pa with | nil => exact absurd rfl hpa.1 | cons _ _ => rfl
  have hsh : (65535 * 65536 + buf) >>> 16 = 65535 := shr16 65535 buf hb
  have hmatch : matchVersion (ma ++ (46 :: (mi ++ (46 :: (pa ++ labels))))) =
      some (digitsVal ma, digitsVal mi, digitsVal pa, labels) := by
    simp only [matchVersion, s1.1, s1.2, s2.1, s2.2, s3.1, s3.2, e1, e2, e3, Bool.or_self, Bool.false_eq_true, if_false]
  simp only [unpackSver, ascii_any _ hascii, Bool.false_eq_true, if_false, hsh]
  rw [hassoc, hsplit.1, hsplit.2, hver, hmatch]
  simp [rstrip0_id name hn0]


theorem and_ffff (x : Nat) : x &&& 0xffff = x % 65536 := Nat.and_two_pow_sub_one_eq_mod x 16
theorem and_00ff (x : Nat) : x &&& 0x00ff = x % 256 := Nat.and_two_pow_sub_one_eq_mod x 8

theorem decodeSver_fields (x y pcpu vcpu v buf date : Nat) (data : List Nat) (ver : Version)
    (hx : x < 256) (hy : y < 256) (hp : pcpu < 256) (hv : vcpu < 256) (hb : buf < 65536)
    (hu : unpackSver (v * 65536 + buf) data = .ok ver) :
    decodeSver ((x * 256 + y) * 65536 + pcpu * 256 + vcpu) (v * 65536 + buf) date data =
      .ok { pos := (x, y), physCpu := pcpu, virtCpu := vcpu, version := ver, bufferSize := buf, buildDate := date } := by
  have e1 : (((x * 256 + y) * 65536 + pcpu * 256 + vcpu) >>> 16) >>> 8 = x := by
    simp only [Nat.shiftRight_eq_div_pow]; omega
  have e2 : (((x * 256 + y) * 65536 + pcpu * 256 + vcpu) >>> 16) &&& 0x00ff = y := by
    rw [and_00ff, Nat.shiftRight_eq_div_pow]; omega
  have e3 : (((x * 256 + y) * 65536 + pcpu * 256 + vcpu) >>> 8) &&& 0xff = pcpu := by
    rw [and_ff, Nat.shiftRight_eq_div_pow]; omega
  have e4 : ((x * 256 + y) * 65536 + pcpu * 256 + vcpu) &&& 0xff = vcpu := by
    rw [and_ff]; omega
  have e5 : (v * 65536 + buf) &&& 0xffff = buf := by rw [and_ffff]; omega
  simp only [decodeSver, hu, bind, Except.bind, pure, Except.pure, e1, e2, e3, e4, e5]

end Rig.C14
