/-
C08 helper lemmas: updates that keep positions (`__call__`, tag propagation) preserve the invariant.
-/
import RigModel.Lemmas.C08Assign
set_option linter.unusedSimpArgs false
set_option linter.unusedVariables false

namespace Rig.C08

/-- an update of the first matching field that keeps length and position, and keeps the value bound -/
theorem inv_modifyField_benign {st : State} {i : Ident} {fv : Reqs} {g : Field → Field}
    (hinv : Inv st) (hl : ∀ f, (g f).length = f.length) (hs : ∀ f, (g f).startAt = f.startAt)
    (hw : ∀ y ∈ st.entries, y.ident = i → y.enabled fv = true → ∀ l, y.field.length = some l →
      (g y.field).maxValue < 2 ^ l) :
    Inv { st with entries := modifyField st.entries i fv g } := by
  refine ⟨?_, ?_, ?_, ?_, ?_, ?_⟩
  · exact pairwise_modifyFirst hinv.unique (fun y hy hpy x hx => ⟨id, id⟩)
  · exact forall_modifyFirst hinv.selfc (fun y hy hpy => hinv.selfc y hy)
  · refine pairwise_modifyFirst hinv.disjoint ?_
    intro y hy hpy x hx
    constructor
    · intro h hc l s l' s' h1 h2 h3 h4
      simp only [upd_field, hl, hs] at h1 h2
      exact h hc l s l' s' h1 h2 h3 h4
    · intro h hc l s l' s' h1 h2 h3 h4
      simp only [upd_field, hl, hs] at h3 h4
      exact h hc l s l' s' h1 h2 h3 h4
  · refine forall_modifyFirst hinv.inRange ?_
    intro y hy hpy l s h1 h2
    simp only [upd_field, hl, hs] at h1 h2
    exact hinv.inRange y hy l s h1 h2
  · refine forall_modifyFirst hinv.wide ?_
    intro y hy hpy l h1
    simp only [upd_field, hl] at h1
    simp only [Bool.and_eq_true, beq_iff_eq] at hpy
    simpa using hw y hy hpy.1 hpy.2 l h1
  · refine forall_modifyFirst hinv.lenPos ?_
    intro y hy hpy l h1
    simp only [upd_field, hl] at h1
    exact hinv.lenPos y hy l h1

/-- what the checking loop of `__call__` establishes -/
theorem call_check_none {st : State} {all : Reqs} : ∀ {l : List (Ident × Int)}, call.check st all l = none →
    ∀ iv ∈ l, ∃ e, getField st.entries iv.1 all = some e ∧ 0 ≤ iv.2 ∧
      ∀ len, e.field.length = some len → iv.2.toNat < 2 ^ len := by
  intro l
  induction l with
  | nil => intro _ iv h; simp at h
  | cons x xs ih =>
    intro h iv hiv
    obtain ⟨i, v⟩ := x
    unfold call.check at h
    cases hg : getField st.entries i all with
    | none => simp [hg] at h
    | some e =>
      simp only [hg] at h
      by_cases hv : v < 0
      · simp [hv] at h
      · simp only [hv, if_false] at h
        cases hlen : e.field.length with
        | none =>
          simp only [hlen] at h
          rcases List.mem_cons.mp hiv with rfl | hin
          · exact ⟨e, hg, by omega, by simp [hlen]⟩
          · exact ih (by simpa using h) iv hin
        | some len0 =>
          simp only [hlen, Nat.one_shiftLeft] at h
          by_cases hbig : v.toNat ≥ 2 ^ len0
          · simp [hbig] at h
          · rcases List.mem_cons.mp hiv with rfl | hin
            · refine ⟨e, hg, by omega, ?_⟩
              intro len hl
              rw [hlen] at hl; cases hl
              exact Nat.lt_of_not_ge hbig
            · exact ih (by simpa [hbig] using h) iv hin

/-- all the `max_value` updates of a successful `__call__` -/
theorem inv_fold_max {all : Reqs} : ∀ (kvs : Reqs) (st : State), Inv st →
    (∀ y ∈ st.entries, ∀ iv ∈ kvs, y.ident = iv.1 → y.enabled all = true → ∀ l, y.field.length = some l → iv.2 < 2 ^ l) →
    Inv { st with entries := kvs.foldl (fun es iv => modifyField es iv.1 all fun f => { f with maxValue := max f.maxValue iv.2 }) st.entries } := by
  intro kvs
  induction kvs with
  | nil => intro st h _; exact h
  | cons kv kvs ih =>
    intro st hinv hq
    simp only [List.foldl_cons]
    have h1 : Inv { st with entries := modifyField st.entries kv.1 all fun f => { f with maxValue := max f.maxValue kv.2 } } := by
      refine inv_modifyField_benign hinv (fun _ => rfl) (fun _ => rfl) ?_
      intro y hy hid hen l hl
      have a := hinv.wide y hy l hl
      have b := hq y hy kv List.mem_cons_self hid hen l hl
      simp only
      omega
    refine ih _ h1 ?_
    intro y hy iv hiv hid hen l hl
    rcases mem_modifyFirst hy with hy' | ⟨z, hz, _, rfl⟩
    · exact hq y hy' iv (List.mem_cons_of_mem _ hiv) hid hen l hl
    · exact hq z hz iv (List.mem_cons_of_mem _ hiv) hid hen l hl

/-- two fields of one name enabled by the same values are the same field -/
theorem eq_of_enabled_same_ident {es : List Entry} (hu : SpecUnique es) {y e : Entry} {fv : Reqs}
    (hy : y ∈ es) (he : e ∈ es) (hid : y.ident = e.ident) (h1 : y.enabled fv = true) (h2 : e.enabled fv = true) :
    y = e := by
  rcases pairwise_mem hu hy he with h | h | h
  · exact h
  · exact absurd hid (h (compatible_of_enabled h1 h2))
  · exact absurd hid.symm (h (compatible_of_enabled h2 h1))

theorem call_ok {st st' : State} {fv fv' : Reqs} {kw : List (Ident × Int)} (h : call st fv kw = .ok (st', fv')) :
    fv' = (kw.filterMap fun iv => if iv.2 < 0 then none else some (iv.1, iv.2.toNat)) ++ fv ∧
    call.check st fv' (kw ++ fv.map fun iv => (iv.1, (iv.2 : Int))) = none ∧
    st' = { st with entries := fv'.foldl (fun es iv => modifyField es iv.1 fv' fun f => { f with maxValue := max f.maxValue iv.2 }) st.entries } := by
  unfold call at h
  split at h
  · simp at h
  · simp only at h
    split at h
    · simp at h
    · rename_i hc
      simp only [Except.ok.injEq, Prod.mk.injEq] at h
      obtain ⟨h1, h2⟩ := h
      subst h2
      exact ⟨rfl, hc, h1.symm⟩

/-- every value of the new instance was checked against the field it addresses -/
theorem call_values_checked {st st' : State} {fv fv' : Reqs} {kw : List (Ident × Int)}
    (h : call st fv kw = .ok (st', fv')) :
    ∀ iv ∈ fv', ∃ e, getField st.entries iv.1 fv' = some e ∧ ∀ len, e.field.length = some len → iv.2 < 2 ^ len := by
  obtain ⟨hfv, hc, _⟩ := call_ok h
  intro iv hiv
  have hmem : (iv.1, (iv.2 : Int)) ∈ kw ++ fv.map fun iv => (iv.1, (iv.2 : Int)) := by
    rw [hfv] at hiv
    rcases List.mem_append.mp hiv with h1 | h1
    · apply List.mem_append_left
      simp only [List.mem_filterMap] at h1
      obtain ⟨a, ha, hae⟩ := h1
      split at hae
      · simp at hae
      · rename_i hneg
        simp only [Option.some.injEq] at hae
        subst hae
        have : ((a.2.toNat : Nat) : Int) = a.2 := Int.toNat_of_nonneg (by omega)
        simp only [this]
        exact ha
    · apply List.mem_append_right
      exact List.mem_map.mpr ⟨iv, h1, rfl⟩
  obtain ⟨e, hg, _, hlt⟩ := call_check_none hc _ hmem
  exact ⟨e, hg, fun len hl => by simpa using hlt len hl⟩

theorem call_inv {st st' : State} {fv fv' : Reqs} {kw : List (Ident × Int)} (hinv : Inv st)
    (h : call st fv kw = .ok (st', fv')) : Inv st' ∧ st'.length = st.length := by
  have hchk := call_values_checked h
  obtain ⟨_, _, hst⟩ := call_ok h
  subst hst
  refine ⟨inv_fold_max fv' st hinv ?_, rfl⟩
  intro y hy iv hiv hid hen l hl
  obtain ⟨e, hg, hlt⟩ := hchk iv hiv
  obtain ⟨he, hei, hee⟩ := getField_some hg
  have := eq_of_enabled_same_ident hinv.unique hy he (hid.trans hei.symm) hen hee
  subst this
  exact hlt l hl

end Rig.C08
