/-
C03 - `ner_net` builds a tree: the invariant of the destination loop (one node per chip, one parent per
node, insertion order = topological order, every hop a labelled step of the (un)wrapped hexagonal grid, all
chips inside the machine, everything below the source) and its preservation by one destination, using the
geodesic theorems of Props/Cross03_11.lean (the C11 model) for "the walked route visits no chip twice".
-/
import RigModel.Model.C03
import RigModel.Lemmas.C03Ner
import RigModel.Lemmas.C03Forest
import RigModel.Props.Cross03_11
set_option linter.unusedSimpArgs false
set_option linter.unusedVariables false
namespace Rig.C03.L
open Rig.C03 Rig.Gen.C03Links Rig

/-- `some w` on a torus, `none` on a mesh -/
def optW (wrap : Bool) (w : Nat) : Option Int := if wrap then some (w : Int) else none

abbrev InBox := Cross.InBox

/-! ### forest surgery -/

theorem has_iff (f : Forest) (c : Chip) : f.has c = true ↔ c ∈ f.keys := by
  simp only [Forest.has, Forest.keys, List.any_eq_true, List.mem_map, beq_iff_eq]

theorem keys_insertNew (f : Forest) (c : Chip) : (f.insertNew c).keys = f.keys ++ [c] := by
  simp [Forest.insertNew, Forest.keys]

theorem keys_addChild (f : Forest) (p : Chip) (e : Nat × Chip) : (f.addChild p e).keys = f.keys := by
  simp only [Forest.addChild, Forest.keys, List.map_map]
  apply List.map_congr_left
  intro n _
  simp only [Function.comp]
  split <;> rfl

theorem length_attach (f : Forest) (c p : Chip) (e : Nat × Chip) :
    ((f.insertNew c).addChild p e).length = f.length + 1 := by
  simp [Forest.insertNew, Forest.addChild]

/-- the forest after hanging the new chip `c` below `p` -/
abbrev attach1 (f : Forest) (p : Chip) (l : Nat) (c : Chip) : Forest := (f.insertNew c).addChild p (l, c)

theorem keys_attach1 (f : Forest) (p : Chip) (l : Nat) (c : Chip) : (attach1 f p l c).keys = f.keys ++ [c] := by
  rw [keys_addChild, keys_insertNew]

theorem attach1_kid {f : Forest} {p c : Chip} {l : Nat} (hpc : p ≠ c) {n' : Chip × List (Nat × Chip)}
    {k : Nat × Chip} (hn : n' ∈ attach1 f p l c) (hk : k ∈ n'.2) :
    (∃ n, n ∈ f ∧ n.1 = n'.1 ∧ k ∈ n.2) ∨ (n'.1 = p ∧ k = (l, c)) := by
  simp only [Forest.addChild, Forest.insertNew, List.mem_map, List.mem_append, List.mem_singleton] at hn
  obtain ⟨n, hn, rfl⟩ := hn
  have hfst : (if (n.1 == p) = true then (n.1, n.2 ++ [(l, c)]) else n).1 = n.1 := by split <;> rfl
  rcases hn with hn | rfl
  · split at hk
    · rename_i heq
      simp only [List.mem_append, List.mem_singleton] at hk
      rw [if_pos heq]
      rcases hk with hk | rfl
      · exact Or.inl ⟨n, hn, rfl, hk⟩
      · exact Or.inr ⟨by simpa using heq, rfl⟩
    · rename_i heq
      rw [if_neg heq]
      exact Or.inl ⟨n, hn, rfl, hk⟩
  · split at hk
    · rename_i heq
      exact absurd (by simpa using heq : c = p) (fun h => hpc h.symm)
    · simp at hk

theorem attach1_node {f : Forest} {p c : Chip} {l : Nat} (hpc : p ≠ c) {n' : Chip × List (Nat × Chip)}
    (hn : n' ∈ attach1 f p l c) :
    (∃ n, n ∈ f ∧ n.1 = n'.1 ∧ (n'.2 = n.2 ∨ (n.1 = p ∧ n'.2 = n.2 ++ [(l, c)]))) ∨ n' = (c, []) := by
  simp only [Forest.addChild, Forest.insertNew, List.mem_map, List.mem_append, List.mem_singleton] at hn
  obtain ⟨n, hn, rfl⟩ := hn
  rcases hn with hn | rfl
  · left
    split
    · rename_i heq
      exact ⟨n, hn, rfl, Or.inr ⟨by simpa using heq, rfl⟩⟩
    · exact ⟨n, hn, rfl, Or.inl rfl⟩
  · right
    split
    · rename_i heq
      exact absurd (by simpa using heq : c = p) (fun h => hpc h.symm)
    · rfl

theorem attach1_edge_old {f : Forest} {p c : Chip} {l : Nat} {q : Chip} {k : Nat × Chip} (h : Edge f q k) :
    Edge (attach1 f p l c) q k := by
  obtain ⟨n, hn, rfl, hk⟩ := h
  refine ⟨if n.1 == p then (n.1, n.2 ++ [(l, c)]) else n, ?_, ?_, ?_⟩
  · simp only [Forest.addChild, Forest.insertNew, List.mem_map, List.mem_append]
    exact ⟨n, Or.inl hn, rfl⟩
  · split <;> rfl
  · split
    · simp [hk]
    · exact hk

theorem attach1_edge_new {f : Forest} {p c : Chip} {l : Nat} (hp : p ∈ f.keys) :
    Edge (attach1 f p l c) p (l, c) := by
  simp only [Forest.keys, List.mem_map] at hp
  obtain ⟨n, hn, rfl⟩ := hp
  refine ⟨(n.1, n.2 ++ [(l, c)]), ?_, rfl, by simp⟩
  simp only [Forest.addChild, Forest.insertNew, List.mem_map, List.mem_append]
  exact ⟨n, Or.inl hn, by simp⟩

theorem below_mono {f g : Forest} (h : ∀ q k, Edge f q k → Edge g q k) {a x : Chip} (hb : Below f a x) :
    Below g a x := by
  induction hb with
  | refl => exact Below.refl
  | step _ he ih => exact Below.step ih (h _ _ he)

/-! ### the invariant of the destination loop -/

structure NerInv (src : Chip) (w h : Nat) (wrap : Bool) (f : Forest) (rank : Chip → Nat) : Prop where
  srcKey : src ∈ f.keys
  keys : f.keys.Nodup
  inbox : ∀ c, c ∈ f.keys → InBox w h c
  kidsKeys : ∀ n k, n ∈ f → k ∈ n.2 → k.2 ∈ f.keys
  kidsNodup : ∀ n, n ∈ f → (n.2.map (·.2)).Nodup
  oneParent : ∀ n n' k k', n ∈ f → n' ∈ f → k ∈ n.2 → k' ∈ n'.2 → k.2 = k'.2 → n.1 = n'.1
  rankLt : ∀ n k, n ∈ f → k ∈ n.2 → rank k.2 < rank n.1
  bound : ∀ c, c ∈ f.keys → rank c ≤ f.length
  hop : ∀ n k, n ∈ f → k ∈ n.2 →
    ∃ d, C11.specVec k.1 = some d ∧ k.2 = C11.stepTo (optW wrap w) (optW wrap h) n.1 d
  conn : ∀ c, c ∈ f.keys → Below f src c

theorem NerInv.wf {src : Chip} {w h : Nat} {wrap : Bool} {f : Forest} {rank : Chip → Nat}
    (hi : NerInv src w h wrap f rank) : WF f rank :=
  ⟨hi.keys, hi.kidsNodup, hi.oneParent, hi.rankLt⟩

theorem mem_keys_of_mem {f : Forest} {n : Chip × List (Nat × Chip)} (h : n ∈ f) : n.1 ∈ f.keys :=
  List.mem_map_of_mem h

theorem nerInv_init (src : Chip) (w h : Nat) (wrap : Bool) (hs : InBox w h src) :
    NerInv src w h wrap [(src, [])] (fun _ => 0) := by
  refine ⟨by simp [Forest.keys], by simp [Forest.keys], ?_, ?_, ?_, ?_, ?_, ?_, ?_, ?_⟩
  · intro c hc; simp [Forest.keys] at hc; subst hc; exact hs
  · intro n k hn hk; simp at hn; subst hn; simp at hk
  · intro n hn; simp at hn; subst hn; simp
  · intro n n' k k' hn _ hk; simp at hn; subst hn; simp at hk
  · intro n k hn hk; simp at hn; subst hn; simp at hk
  · intro c _; simp
  · intro n k hn hk; simp at hn; subst hn; simp at hk
  · intro c hc; simp [Forest.keys] at hc; subst hc; exact Below.refl

/-- hanging one new chip below an existing node keeps the invariant -/
theorem nerInv_attach1 {src : Chip} {w h : Nat} {wrap : Bool} {f : Forest} {rank : Chip → Nat}
    (hi : NerInv src w h wrap f rank) {p c : Chip} {l : Nat} (hp : p ∈ f.keys) (hc : c ∉ f.keys)
    (hbox : InBox w h c)
    (hhop : ∃ d, C11.specVec l = some d ∧ c = C11.stepTo (optW wrap w) (optW wrap h) p d) :
    NerInv src w h wrap (attach1 f p l c) (fun x => if x = c then 0 else rank x + 1) := by
  have hpc : p ≠ c := fun h => hc (h ▸ hp)
  have hk1 : ∀ x, x ∈ (attach1 f p l c).keys ↔ x ∈ f.keys ∨ x = c := by
    intro x; rw [keys_attach1]; simp
  refine ⟨(hk1 _).2 (Or.inl hi.srcKey), ?_, ?_, ?_, ?_, ?_, ?_, ?_, ?_, ?_⟩
  · rw [keys_attach1, List.nodup_append]
    refine ⟨hi.keys, by simp, ?_⟩
    intro a ha b hb hab
    simp at hb; subst hb; subst hab; exact hc ha
  · intro x hx
    rcases (hk1 x).1 hx with hx | rfl
    · exact hi.inbox x hx
    · exact hbox
  · intro n' k hn hk
    rcases attach1_kid hpc hn hk with ⟨n, hn0, _, hk0⟩ | ⟨_, rfl⟩
    · exact (hk1 _).2 (Or.inl (hi.kidsKeys n k hn0 hk0))
    · exact (hk1 _).2 (Or.inr rfl)
  · intro n' hn
    rcases attach1_node hpc hn with ⟨n, hn0, _, h2 | ⟨_, h2⟩⟩ | rfl
    · rw [h2]; exact hi.kidsNodup n hn0
    · rw [h2, List.map_append, List.nodup_append]
      refine ⟨hi.kidsNodup n hn0, by simp, ?_⟩
      intro a ha b hb hab
      simp at hb; subst hb; subst hab
      simp only [List.mem_map] at ha
      obtain ⟨k, hk, rfl⟩ := ha
      exact hc (hi.kidsKeys n k hn0 hk)
    · simp
  · intro n1 n2 k1 k2 hn1 hn2 hk1' hk2' hkk
    rcases attach1_kid hpc hn1 hk1' with ⟨m1, hm1, e1, hkm1⟩ | ⟨e1, rfl⟩ <;>
      rcases attach1_kid hpc hn2 hk2' with ⟨m2, hm2, e2, hkm2⟩ | ⟨e2, rfl⟩
    · rw [← e1, ← e2]; exact hi.oneParent m1 m2 k1 k2 hm1 hm2 hkm1 hkm2 hkk
    · exact absurd (hi.kidsKeys m1 k1 hm1 hkm1) (by rw [hkk]; exact hc)
    · exact absurd (hi.kidsKeys m2 k2 hm2 hkm2) (by rw [← hkk]; exact hc)
    · rw [e1, e2]
  · intro n' k hn hk
    rcases attach1_kid hpc hn hk with ⟨n, hn0, e1, hk0⟩ | ⟨e1, rfl⟩
    · have h1 : k.2 ≠ c := fun h => hc (h ▸ hi.kidsKeys n k hn0 hk0)
      have h2 : n'.1 ≠ c := fun h => hc (h ▸ e1 ▸ mem_keys_of_mem hn0)
      simp only [h1, h2, if_false]
      have := hi.rankLt n k hn0 hk0
      rw [e1] at this
      omega
    · have h2 : n'.1 ≠ c := fun h => hpc (e1 ▸ h)
      simp only [h2, if_false, if_true]
      omega
  · intro x hx
    rw [length_attach]
    rcases (hk1 x).1 hx with hx | rfl
    · have h1 : x ≠ c := fun h => hc (h ▸ hx)
      simp only [h1, if_false]
      have := hi.bound x hx
      omega
    · simp
  · intro n' k hn hk
    rcases attach1_kid hpc hn hk with ⟨n, hn0, e1, hk0⟩ | ⟨e1, rfl⟩
    · rw [← e1]; exact hi.hop n k hn0 hk0
    · rw [e1]; exact hhop
  · intro x hx
    have hmono : ∀ q k, Edge f q k → Edge (attach1 f p l c) q k := fun q k he => attach1_edge_old he
    rcases (hk1 x).1 hx with hx | rfl
    · exact below_mono hmono (hi.conn x hx)
    · exact Below.step (below_mono hmono (hi.conn p hp)) (attach1_edge_new hp)

/-- hanging a whole labelled walk of fresh, pairwise distinct chips below an existing node -/
theorem nerInv_attachChain {src : Chip} {w h : Nat} {wrap : Bool} :
    ∀ (path : List (Nat × Chip)) (f : Forest) (rank : Chip → Nat) (last : Chip),
    NerInv src w h wrap f rank → last ∈ f.keys →
    C11.walkOk (optW wrap w) (optW wrap h) last path = true → (path.map (·.2)).Nodup →
    (∀ c, c ∈ path.map (·.2) → c ∉ f.keys ∧ InBox w h c) →
    ∃ f' rank', attachChain path f last = .ok f' ∧ NerInv src w h wrap f' rank' ∧
      ∀ c, c ∈ f'.keys ↔ c ∈ f.keys ∨ c ∈ path.map (·.2) := by
  intro path
  induction path with
  | nil =>
    intro f rank last hi _ _ _ _
    exact ⟨f, rank, rfl, hi, by simp⟩
  | cons e rest ih =>
    intro f rank last hi hlast hok hnd hfresh
    obtain ⟨l, q⟩ := e
    obtain ⟨d, hs, hd, hq, hrest⟩ := Cross.walkOk_cons hok
    simp only [List.map_cons, List.nodup_cons] at hnd
    have hq' := hfresh q (by simp)
    have hnot : f.has q = false := by
      cases hh : f.has q with
      | false => rfl
      | true => exact absurd ((has_iff f q).1 hh) hq'.1
    have hi' := nerInv_attach1 hi hlast hq'.1 hq'.2 ⟨d, hs, hq⟩
    have hk1 : ∀ x, x ∈ (attach1 f last l q).keys ↔ x ∈ f.keys ∨ x = q := by
      intro x; rw [keys_attach1]; simp
    obtain ⟨f', rank', h1, h2, h3⟩ := ih (attach1 f last l q) _ q hi' ((hk1 q).2 (Or.inr rfl)) hrest hnd.2
      (by
        intro c hc
        have := hfresh c (by simp [hc])
        refine ⟨?_, this.2⟩
        intro hmem
        rcases (hk1 c).1 hmem with hmem | rfl
        · exact this.1 hmem
        · exact hnd.1 hc)
    refine ⟨f', rank', ?_, h2, ?_⟩
    · simp only [attachChain, hnot, Bool.false_eq_true, if_false]
      exact h1
    · intro c
      rw [h3 c, hk1 c]
      simp only [List.map_cons, List.mem_cons]
      constructor
      · rintro ((h | h) | h)
        · exact Or.inl h
        · exact Or.inr (Or.inl h)
        · exact Or.inr (Or.inr h)
      · rintro (h | h | h)
        · exact Or.inl (Or.inl h)
        · exact Or.inl (Or.inr h)
        · exact Or.inr h


/-! ### one destination -/

theorem searchHex_mem {route : Forest} {hexes : List Chip} {dest : Chip} {w h : Nat} {wrap : Bool} {c : Chip}
    (hs : searchHex route hexes dest w h wrap = some c) : c ∈ route.keys := by
  unfold searchHex at hs
  obtain ⟨p, _, hp⟩ := List.exists_of_findSome?_eq_some hs
  have key : ∀ c' : Chip, (if route.has c' = true then some c' else none) = some c → c ∈ route.keys := by
    intro c' h
    split at h
    · rename_i hh
      simp only [Option.some.injEq] at h
      subst h
      exact (has_iff _ _).1 hh
    · simp at h
  exact key _ hp

theorem searchScan_mem {route : Forest} {dest : Chip} {w h : Nat} {wrap : Bool} {radius : Nat} {c : Chip}
    (hs : searchScan route dest w h wrap radius = some c) : c ∈ route.keys := by
  unfold searchScan at hs
  have aux : ∀ (l : List Chip) (best : Option (Chip × Int)),
      (∀ b, best = some b → b.1 ∈ route.keys) → (∀ x, x ∈ l → x ∈ route.keys) →
      ∀ b, l.foldl (fun (best : Option (Chip × Int)) cand =>
        let d := dist wrap w h cand dest
        if d ≤ (radius : Int) && (match best with | none => true | some b => decide (d < b.2)) then some (cand, d)
        else best) best = some b → b.1 ∈ route.keys := by
    intro l
    induction l with
    | nil => intro best hb _ b h; exact hb b h
    | cons x r ih =>
      intro best hb hl b h
      simp only [List.foldl_cons] at h
      refine ih _ ?_ (fun y hy => hl y (by simp [hy])) b h
      intro b' hb'
      have key : ∀ (cnd : Bool) (d : Int), (if cnd = true then some (x, d) else best) = some b' →
          b'.1 ∈ route.keys := by
        intro cnd d h
        cases cnd
        · simp only [Bool.false_eq_true, if_false] at h; exact hb b' h
        · simp only [if_true, Option.some.injEq] at h; subst h; exact hl x (by simp)
      exact key _ _ hb'
  simp only [Option.map_eq_some_iff] at hs
  obtain ⟨b, hb, rfl⟩ := hs
  exact aux _ none (by simp) (fun x hx => hx) b hb

theorem walkOk_torus_inbox (w h : Nat) (hw : 1 ≤ w) (hh : 1 ≤ h) : ∀ (path : List (Nat × Chip)) (p : Chip),
    C11.walkOk (some (w : Int)) (some (h : Int)) p path = true → ∀ c, c ∈ path.map (·.2) → InBox w h c := by
  intro path
  induction path with
  | nil => intro p _ c hc; simp at hc
  | cons e rest ih =>
    intro p hok c hc
    obtain ⟨l, q⟩ := e
    obtain ⟨d, hs, hd, hq, hrest⟩ := Cross.walkOk_cons hok
    simp only [List.map_cons, List.mem_cons] at hc
    rcases hc with rfl | hc
    · rw [hq, C11.stepTo_some (by omega) (by omega)]
      have h1 := Int.emod_nonneg (p.1 + d.1) (show (w : Int) ≠ 0 by omega)
      have h2 := Int.emod_lt_of_pos (p.1 + d.1) (show (0 : Int) < w by omega)
      have h3 := Int.emod_nonneg (p.2 + d.2) (show (h : Int) ≠ 0 by omega)
      have h4 := Int.emod_lt_of_pos (p.2 + d.2) (show (0 : Int) < h by omega)
      exact ⟨h1, h2, h3, h4⟩
    · exact ih q hrest c hc

theorem walkOk_suffix {W H : Option Int} : ∀ (pre : List (Nat × Chip)) (p : Chip) (d : Nat) (q : Chip)
    (rest : List (Nat × Chip)), C11.walkOk W H p (pre ++ (d, q) :: rest) = true → C11.walkOk W H q rest = true := by
  intro pre
  induction pre with
  | nil =>
    intro p d q rest hok
    obtain ⟨_, _, _, _, hrest⟩ := Cross.walkOk_cons hok
    exact hrest
  | cons e pre ih =>
    intro p d q rest hok
    obtain ⟨l, x⟩ := e
    obtain ⟨_, _, _, _, hrest⟩ := Cross.walkOk_cons hok
    exact ih x d q rest hrest

theorem lastPos_append_cons (p : Chip) : ∀ (pre : List (Nat × Chip)) (e : Nat × Chip) (rest : List (Nat × Chip)),
    C11.lastPos p (pre ++ e :: rest) = C11.lastPos e.2 rest := by
  intro pre
  induction pre generalizing p with
  | nil => intro e rest; exact C11.lastPos_cons p e rest
  | cons a pre ih => intro e rest; rw [List.cons_append, C11.lastPos_cons]; exact ih a.2 e rest

theorem lastPos_mem (p : Chip) : ∀ (path : List (Nat × Chip)),
    C11.lastPos p path = p ∨ C11.lastPos p path ∈ path.map (·.2) := by
  intro path
  induction path generalizing p with
  | nil => left; rfl
  | cons e rest ih =>
    rw [C11.lastPos_cons]
    right
    rcases ih e.2 with h | h
    · rw [h]; simp
    · simp [h]

theorem truncate_none {route : Forest} : ∀ (path : List (Nat × Chip)),
    truncateLdf route path = none → ∀ e, e ∈ path → route.has e.2 = false := by
  intro path
  induction path with
  | nil => intro _ e he; simp at he
  | cons a r ih =>
    intro h e he
    simp only [truncateLdf] at h
    split at h
    · simp at h
    · rename_i hr
      split at h
      · simp at h
      · rename_i hh
        simp only [List.mem_cons] at he
        rcases he with rfl | he
        · simpa using hh
        · exact ih hr e he

theorem truncate_some {route : Forest} : ∀ (path : List (Nat × Chip)) (nb : Chip) (rest : List (Nat × Chip)),
    truncateLdf route path = some (nb, rest) →
    ∃ pre d, path = pre ++ (d, nb) :: rest ∧ route.has nb = true ∧ ∀ e, e ∈ rest → route.has e.2 = false := by
  intro path
  induction path with
  | nil => intro nb rest h; simp [truncateLdf] at h
  | cons a r ih =>
    intro nb rest h
    simp only [truncateLdf] at h
    split at h
    · rename_i res hr
      simp only [Option.some.injEq] at h
      subst h
      obtain ⟨pre, d, h1, h2, h3⟩ := ih nb rest hr
      exact ⟨a :: pre, d, by rw [h1]; rfl, h2, h3⟩
    · rename_i hr
      split at h
      · rename_i hh
        simp only [Option.some.injEq, Prod.mk.injEq] at h
        obtain ⟨rfl, rfl⟩ := h
        exact ⟨[], a.1, rfl, hh, truncate_none r hr⟩
      · simp at h

/-- the second half of the loop body, given that the walked route is a duplicate-free labelled walk: the
truncated route is hung below the tree without creating a second node for any chip -/
theorem nerInv_truncAttach_ex {src : Chip} {w h : Nat} {wrap : Bool} {route : Forest} {rank : Chip → Nat}
    (hi : NerInv src w h wrap route rank) {nb : Chip} (hnb : nb ∈ route.keys) {path : List (Nat × Chip)}
    (hok : C11.walkOk (optW wrap w) (optW wrap h) nb path = true) (hnd : (path.map (·.2)).Nodup)
    (hbox : ∀ c, c ∈ path.map (·.2) → InBox w h c) :
    ∃ route' rank', attachChain ((truncateLdf route path).getD (nb, path)).2 route
        ((truncateLdf route path).getD (nb, path)).1 = .ok route' ∧
      NerInv src w h wrap route' rank' ∧ (∀ c, c ∈ route.keys → c ∈ route'.keys) ∧
      C11.lastPos nb path ∈ route'.keys := by
  cases htr : truncateLdf route path with
  | none =>
    simp only [Option.getD]
    have hfresh : ∀ c, c ∈ path.map (·.2) → c ∉ route.keys ∧ InBox w h c := by
      intro c hc
      refine ⟨?_, hbox c hc⟩
      simp only [List.mem_map] at hc
      obtain ⟨e, he, rfl⟩ := hc
      intro hmem
      have := truncate_none path htr e he
      rw [(has_iff _ _).2 hmem] at this
      simp at this
    obtain ⟨f', rank', h1, h2, h3⟩ := nerInv_attachChain path route rank nb hi hnb hok hnd hfresh
    refine ⟨f', rank', h1, h2, fun c hc => (h3 c).2 (Or.inl hc), ?_⟩
    rcases lastPos_mem nb path with h | h
    · rw [h]; exact (h3 nb).2 (Or.inl hnb)
    · exact (h3 _).2 (Or.inr h)
  | some res =>
    obtain ⟨nb', rest⟩ := res
    simp only [Option.getD]
    obtain ⟨pre, d, hp, hh, hr⟩ := truncate_some path nb' rest htr
    subst hp
    have hnb' : nb' ∈ route.keys := (has_iff _ _).1 hh
    have hok' := walkOk_suffix pre nb d nb' rest hok
    have hnd' : (rest.map (·.2)).Nodup := by
      simp only [List.map_append, List.map_cons] at hnd
      exact ((List.nodup_append.1 hnd).2.1 |> List.nodup_cons.1).2
    have hfresh : ∀ c, c ∈ rest.map (·.2) → c ∉ route.keys ∧ InBox w h c := by
      intro c hc
      refine ⟨?_, hbox c (by simp only [List.map_append, List.map_cons, List.mem_append, List.mem_cons]; exact Or.inr (Or.inr hc))⟩
      simp only [List.mem_map] at hc
      obtain ⟨e, he, rfl⟩ := hc
      intro hmem
      have := hr e he
      rw [(has_iff _ _).2 hmem] at this
      simp at this
    obtain ⟨f', rank', h1, h2, h3⟩ := nerInv_attachChain rest route rank nb' hi hnb' hok' hnd' hfresh
    refine ⟨f', rank', h1, h2, fun c hc => (h3 c).2 (Or.inl hc), ?_⟩
    rw [lastPos_append_cons]
    rcases lastPos_mem nb' rest with h | h
    · rw [h]; exact (h3 nb').2 (Or.inl hnb')
    · exact (h3 _).2 (Or.inr h)

theorem nerInv_truncAttach {src : Chip} {w h : Nat} {wrap : Bool} {route route' : Forest} {rank : Chip → Nat}
    (hi : NerInv src w h wrap route rank) {nb : Chip} (hnb : nb ∈ route.keys) {path : List (Nat × Chip)}
    (hok : C11.walkOk (optW wrap w) (optW wrap h) nb path = true) (hnd : (path.map (·.2)).Nodup)
    (hbox : ∀ c, c ∈ path.map (·.2) → InBox w h c)
    (hat : attachChain ((truncateLdf route path).getD (nb, path)).2 route
      ((truncateLdf route path).getD (nb, path)).1 = .ok route') :
    ∃ rank', NerInv src w h wrap route' rank' ∧ (∀ c, c ∈ route.keys → c ∈ route'.keys) ∧
      C11.lastPos nb path ∈ route'.keys := by
  obtain ⟨r', rank', h1, h2, h3, h4⟩ := nerInv_truncAttach_ex hi hnb hok hnd hbox
  rw [h1] at hat
  simp only [Except.ok.injEq] at hat
  subst hat
  exact ⟨rank', h2, h3, h4⟩

theorem nerAttach_inv {src : Chip} {w h : Nat} {wrap : Bool} {route : Forest} {rank : Chip → Nat}
    (hi : NerInv src w h wrap route rank) {nb dest : Chip} (hnb : nb ∈ route.keys) {v : V3} {t : Tape}
    {st' : Forest × Tape}
    (hroute : ∀ path t2, ldf v nb w h t = .ok (path, t2) →
      C11.walkOk (optW wrap w) (optW wrap h) nb path = true ∧ C11.lastPos nb path = dest ∧
      (∀ c, c ∈ path.map (·.2) → InBox w h c) ∧ (nb :: path.map (·.2)).Nodup)
    (hat : nerAttach route w h nb v t = .ok st') :
    ∃ rank', NerInv src w h wrap st'.1 rank' ∧ (∀ c, c ∈ route.keys → c ∈ st'.1.keys) ∧ dest ∈ st'.1.keys := by
  unfold nerAttach at hat
  simp only [bind, Except.bind] at hat
  split at hat
  · simp at hat
  rename_i pt hldf
  obtain ⟨path, t2⟩ := pt
  obtain ⟨r1, r2, r3, r4⟩ := hroute path t2 hldf
  simp only at hat
  split at hat
  · simp at hat
  rename_i route' hatt
  simp only [pure, Except.pure, Except.ok.injEq] at hat
  subst hat
  simp only
  rw [← r2]
  exact nerInv_truncAttach hi hnb r1 (List.nodup_cons.1 r4).2 r3 hatt

theorem nerDest_inv {src : Chip} {w h : Nat} (hw : 1 ≤ w) (hh : 1 ≤ h) {wrap : Bool} {radius : Nat}
    {hexes : List Chip} {st st' : Forest × Tape} {rank : Chip → Nat}
    (hi : NerInv src w h wrap st.1 rank) {dest : Chip} (hd : InBox w h dest)
    (hstep : nerDest src w h wrap radius hexes st dest = .ok st') :
    ∃ rank', NerInv src w h wrap st'.1 rank' ∧ (∀ c, c ∈ st.1.keys → c ∈ st'.1.keys) ∧ dest ∈ st'.1.keys := by
  unfold nerDest at hstep
  simp only at hstep
  generalize hnbdef : ((if 3 * hexes.length < st.1.length then searchHex st.1 hexes dest w h wrap
      else searchScan st.1 dest w h wrap radius).getD src) = nb at hstep
  have hnb : nb ∈ st.1.keys := by
    rw [← hnbdef]
    split
    · cases hs : searchHex st.1 hexes dest w h wrap with
      | none => exact hi.srcKey
      | some c => exact searchHex_mem hs
    · cases hs : searchScan st.1 dest w h wrap radius with
      | none => exact hi.srcKey
      | some c => exact searchScan_mem hs
  have hnbox := hi.inbox nb hnb
  cases wrap with
  | false =>
    simp only [Bool.false_eq_true, if_false, bind, Except.bind, pure, Except.pure] at hstep
    refine nerAttach_inv hi hnb ?_ hstep
    intro path t2 hldf
    obtain ⟨a1, a2, a3, a4, a5⟩ := Cross.mesh_route nb dest w h hw hh hnbox hd _ t2 path hldf
    exact ⟨a1, a2, a4, a5⟩
  | true =>
    simp only [if_true, bind, Except.bind] at hstep
    split at hstep
    · simp at hstep
    rename_i vt htp
    obtain ⟨v, t1⟩ := vt
    refine nerAttach_inv hi hnb ?_ hstep
    intro path t2 hldf
    obtain ⟨n1, n2, n3, n4⟩ := hnbox
    obtain ⟨d1, d2, d3, d4⟩ := hd
    obtain ⟨a1, a2, a3, a4, a5⟩ :=
      Cross.torus_route nb dest w h hw hh n1 n2 n3 n4 d1 d2 d3 d4 _ t1 t2 v path htp hldf
    exact ⟨a1, a2, walkOk_torus_inbox w h hw hh path nb a1, a5⟩

/-- an oracle error: the tape is too short or a draw is outside its legal range -/
def Err.isOracle (e : Err) : Prop := e = .tape ∨ e = .badDraw

theorem draw_err {t : Tape} {e : Err} (h : draw t = .error e) : Err.isOracle e := by
  cases t with
  | nil => simp only [draw, Except.error.injEq] at h; exact Or.inl h.symm
  | cons a t =>
    simp only [draw] at h
    by_cases hc : 0 ≤ a ∧ a < SCALE
    · rw [if_pos hc] at h; simp at h
    · rw [if_neg hc] at h; simp only [Except.error.injEq] at h; exact Or.inr h.symm

theorem drawInt_err {lo hi : Int} {t : Tape} {e : Err} (h : drawInt lo hi t = .error e) : Err.isOracle e := by
  cases t with
  | nil => simp only [drawInt, Except.error.injEq] at h; exact Or.inl h.symm
  | cons a t =>
    simp only [drawInt] at h
    by_cases hc : lo ≤ a ∧ a ≤ hi
    · rw [if_pos hc] at h; simp at h
    · rw [if_neg hc] at h; simp only [Except.error.injEq] at h; exact Or.inr h.symm

theorem spiral03_err {v : V3} {w h : Nat} {t : Tape} {e : Err} (he : Cross.spiral03 v w h t = .error e) :
    Err.isOracle e := by
  simp only [Cross.spiral03, bind, Except.bind, pure, Except.pure] at he
  split at he
  · split at he
    · rename_i e' hd; simp only [Except.error.injEq] at he; subst he; exact drawInt_err hd
    · simp at he
  · split at he
    · split at he
      · rename_i e' hd; simp only [Except.error.injEq] at he; subst he; exact drawInt_err hd
      · simp at he
    · simp at he

theorem torusPath_err {a b : Chip} {w h : Nat} {t : Tape} {e : Err} (he : torusPath a b w h t = .error e) :
    Err.isOracle e := by
  rw [Cross.torusPath_decomp] at he
  simp only [bind, Except.bind] at he
  split at he
  · rename_i e' hd; simp only [Except.error.injEq] at he; subst he; exact draw_err hd
  split at he
  · rename_i e' hd; simp only [Except.error.injEq] at he; subst he; exact draw_err hd
  split at he
  · rename_i e' hd; simp only [Except.error.injEq] at he; subst he; exact draw_err hd
  split at he
  · rename_i e' hd; simp only [Except.error.injEq] at he; subst he; exact draw_err hd
  exact spiral03_err he

theorem ldfGo_total (w h : Nat) : ∀ (items : List (Nat × Int)) (pos : Chip), ∃ out, ldfGo w h items pos = .ok out := by
  intro items
  induction items with
  | nil => intro pos; exact ⟨[], rfl⟩
  | cons it rest ih =>
    intro pos
    obtain ⟨dim, mag⟩ := it
    simp only [ldfGo]
    by_cases hm : (mag == 0) = true
    · rw [if_pos hm]; exact ⟨[], rfl⟩
    · rw [if_neg hm]
      have hsome : ∃ dir, fromVec (dimDelta dim mag) = some dir := by
        rw [Cross.fromVec_unit_eq, Cross.dimDelta_eq]
        exact ⟨_, (C11.lab_ok dim mag).1⟩
      obtain ⟨dir, hdir⟩ := hsome
      rw [hdir]
      obtain ⟨r, hr⟩ := ih (walkEnd w h (dimDelta dim mag).1 (dimDelta dim mag).2 mag.natAbs pos)
      simp only [hr, bind, Except.bind, pure, Except.pure]
      exact ⟨_, rfl⟩

theorem ldf_err {v : V3} {start : Chip} {w h : Nat} {t : Tape} {e : Err} (he : ldf v start w h t = .error e) :
    Err.isOracle e := by
  unfold ldf at he
  simp only [bind, Except.bind] at he
  split at he
  · rename_i e' hd; simp only [Except.error.injEq] at he; subst he; exact draw_err hd
  split at he
  · rename_i e' hd; simp only [Except.error.injEq] at he; subst he; exact draw_err hd
  split at he
  · rename_i e' hd; simp only [Except.error.injEq] at he; subst he; exact draw_err hd
  split at he
  · rename_i e' hd
    obtain ⟨out, ho⟩ := ldfGo_total w h _ start
    rw [ho] at hd
    simp at hd
  · simp [pure, Except.pure] at he


theorem nerAttach_err {src : Chip} {w h : Nat} {wrap : Bool} {route : Forest} {rank : Chip → Nat}
    (hi : NerInv src w h wrap route rank) {nb dest : Chip} (hnb : nb ∈ route.keys) {v : V3} {t : Tape} {e : Err}
    (hroute : ∀ path t2, ldf v nb w h t = .ok (path, t2) →
      C11.walkOk (optW wrap w) (optW wrap h) nb path = true ∧ C11.lastPos nb path = dest ∧
      (∀ c, c ∈ path.map (·.2) → InBox w h c) ∧ (nb :: path.map (·.2)).Nodup)
    (hat : nerAttach route w h nb v t = .error e) : Err.isOracle e := by
  unfold nerAttach at hat
  simp only [bind, Except.bind] at hat
  split at hat
  · rename_i e' hd; simp only [Except.error.injEq] at hat; subst hat; exact ldf_err hd
  rename_i pt hldf
  obtain ⟨path, t2⟩ := pt
  obtain ⟨r1, r2, r3, r4⟩ := hroute path t2 hldf
  obtain ⟨r', rank', h1, _⟩ := nerInv_truncAttach_ex hi hnb r1 (List.nodup_cons.1 r4).2 r3
  simp only at hat
  split at hat
  · rename_i e' hd
    rw [h1] at hd
    simp at hd
  · simp [pure, Except.pure] at hat

theorem nerDest_err {src : Chip} {w h : Nat} (hw : 1 ≤ w) (hh : 1 ≤ h) {wrap : Bool} {radius : Nat}
    {hexes : List Chip} {st : Forest × Tape} {rank : Chip → Nat}
    (hi : NerInv src w h wrap st.1 rank) {dest : Chip} (hd : InBox w h dest) {e : Err}
    (hstep : nerDest src w h wrap radius hexes st dest = .error e) : Err.isOracle e := by
  unfold nerDest at hstep
  simp only at hstep
  generalize hnbdef : ((if 3 * hexes.length < st.1.length then searchHex st.1 hexes dest w h wrap
      else searchScan st.1 dest w h wrap radius).getD src) = nb at hstep
  have hnb : nb ∈ st.1.keys := by
    rw [← hnbdef]
    split
    · cases hs : searchHex st.1 hexes dest w h wrap with
      | none => exact hi.srcKey
      | some c => exact searchHex_mem hs
    · cases hs : searchScan st.1 dest w h wrap radius with
      | none => exact hi.srcKey
      | some c => exact searchScan_mem hs
  have hnbox := hi.inbox nb hnb
  cases wrap with
  | false =>
    simp only [Bool.false_eq_true, if_false, bind, Except.bind, pure, Except.pure] at hstep
    refine nerAttach_err hi hnb (dest := dest) ?_ hstep
    intro path t2 hldf
    obtain ⟨a1, a2, a3, a4, a5⟩ := Cross.mesh_route nb dest w h hw hh hnbox hd _ t2 path hldf
    exact ⟨a1, a2, a4, a5⟩
  | true =>
    simp only [if_true, bind, Except.bind] at hstep
    split at hstep
    · rename_i e' htp; simp only [Except.error.injEq] at hstep; subst hstep; exact torusPath_err htp
    rename_i vt htp
    obtain ⟨v, t1⟩ := vt
    refine nerAttach_err hi hnb (dest := dest) ?_ hstep
    intro path t2 hldf
    obtain ⟨n1, n2, n3, n4⟩ := hnbox
    obtain ⟨d1, d2, d3, d4⟩ := hd
    obtain ⟨a1, a2, a3, a4, a5⟩ :=
      Cross.torus_route nb dest w h hw hh n1 n2 n3 n4 d1 d2 d3 d4 _ t1 t2 v path htp hldf
    exact ⟨a1, a2, walkOk_torus_inbox w h hw hh path nb a1, a5⟩

theorem mem_insertAsc {α : Type} (k : α → Int) (x y : α) : ∀ (l : List α), y ∈ insertAsc k x l ↔ y = x ∨ y ∈ l := by
  intro l
  induction l with
  | nil => simp [insertAsc]
  | cons a r ih =>
    simp only [insertAsc]
    split
    · simp
    · simp only [List.mem_cons, ih]
      constructor
      · rintro (h | h | h)
        · exact Or.inr (Or.inl h)
        · exact Or.inl h
        · exact Or.inr (Or.inr h)
      · rintro (h | h | h)
        · exact Or.inr (Or.inl h)
        · exact Or.inl h
        · exact Or.inr (Or.inr h)

theorem mem_sortAsc {α : Type} (k : α → Int) (y : α) (l : List α) : y ∈ sortAsc k l ↔ y ∈ l := by
  unfold sortAsc
  have aux : ∀ (l acc : List α), y ∈ l.foldl (fun acc x => insertAsc k x acc) acc ↔ y ∈ acc ∨ y ∈ l := by
    intro l
    induction l with
    | nil => intro acc; simp
    | cons a r ih =>
      intro acc
      simp only [List.foldl_cons, ih, mem_insertAsc, List.mem_cons]
      constructor
      · rintro ((h | h) | h)
        · exact Or.inr (Or.inl h)
        · exact Or.inl h
        · exact Or.inr (Or.inr h)
      · rintro (h | h | h)
        · exact Or.inl (Or.inr h)
        · exact Or.inl (Or.inl h)
        · exact Or.inr h
  simpa using aux l []

/-- **The forest `ner_net` returns satisfies the loop invariant and contains every destination.** -/
theorem nerNet_inv {src : Chip} {w h : Nat} (hw : 1 ≤ w) (hh : 1 ≤ h) {wrap : Bool} {radius : Nat}
    {dests : List Chip} {t t' : Tape} {f : Forest} (hs : InBox w h src) (hd : ∀ d, d ∈ dests → InBox w h d)
    (hn : nerNet src dests w h wrap radius t = .ok (f, t')) :
    ∃ rank, NerInv src w h wrap f rank ∧ ∀ d, d ∈ dests → d ∈ f.keys := by
  unfold nerNet at hn
  have aux : ∀ (l : List Chip) (st st' : Forest × Tape), (∀ d, d ∈ l → InBox w h d) →
      (∃ rank, NerInv src w h wrap st.1 rank) →
      l.foldlM (nerDest src w h wrap radius (concentricHexagons radius)) st = .ok st' →
      (∃ rank, NerInv src w h wrap st'.1 rank) ∧ (∀ c, c ∈ st.1.keys → c ∈ st'.1.keys) ∧
        ∀ d, d ∈ l → d ∈ st'.1.keys := by
    intro l
    induction l with
    | nil =>
      intro st st' _ hi h
      simp only [List.foldlM, pure, Except.pure, Except.ok.injEq] at h
      subst h
      exact ⟨hi, fun c hc => hc, by simp⟩
    | cons a r ih =>
      intro st st' hbox hi h
      simp only [List.foldlM, bind, Except.bind] at h
      split at h
      · simp at h
      rename_i s1 h1
      obtain ⟨rank, hi⟩ := hi
      obtain ⟨rank1, i1, m1, d1⟩ := nerDest_inv hw hh hi (hbox a (by simp)) h1
      obtain ⟨i2, m2, d2⟩ := ih s1 st' (fun d hd => hbox d (by simp [hd])) ⟨rank1, i1⟩ h
      refine ⟨i2, fun c hc => m2 c (m1 c hc), ?_⟩
      intro d hd
      simp only [List.mem_cons] at hd
      rcases hd with rfl | hd
      · exact m2 d d1
      · exact d2 d hd
  obtain ⟨⟨rank, hi⟩, _, hall⟩ := aux _ _ _ (fun d hd' => hd d ((mem_sortAsc _ d dests).1 hd'))
    ⟨_, nerInv_init src w h wrap hs⟩ hn
  exact ⟨rank, hi, fun d hd' => hall d ((mem_sortAsc _ d dests).2 hd')⟩


/-- **`ner_net` never fails on a machine-shaped input**: the only errors of the model are oracle errors (tape
too short / draw out of range); in particular never `dupNode` (the code never overwrites a node of the tree),
`keyError` (`Links.from_vector` of a unit step) or `fuel`. -/
theorem nerNet_err {src : Chip} {w h : Nat} (hw : 1 ≤ w) (hh : 1 ≤ h) {wrap : Bool} {radius : Nat}
    {dests : List Chip} {t : Tape} {e : Err} (hs : InBox w h src) (hd : ∀ d, d ∈ dests → InBox w h d)
    (hn : nerNet src dests w h wrap radius t = .error e) : Err.isOracle e := by
  unfold nerNet at hn
  have aux : ∀ (l : List Chip) (st : Forest × Tape), (∀ d, d ∈ l → InBox w h d) →
      (∃ rank, NerInv src w h wrap st.1 rank) →
      l.foldlM (nerDest src w h wrap radius (concentricHexagons radius)) st = .error e → Err.isOracle e := by
    intro l
    induction l with
    | nil => intro st _ _ h; simp [List.foldlM, pure, Except.pure] at h
    | cons a r ih =>
      intro st hbox hi h
      obtain ⟨rank, hi⟩ := hi
      simp only [List.foldlM, bind, Except.bind] at h
      split at h
      · rename_i e' h1
        simp only [Except.error.injEq] at h
        subst h
        exact nerDest_err hw hh hi (hbox a (by simp)) h1
      rename_i s1 h1
      obtain ⟨rank1, i1, _, _⟩ := nerDest_inv hw hh hi (hbox a (by simp)) h1
      exact ih s1 (fun d hd => hbox d (by simp [hd])) ⟨rank1, i1⟩ h
  exact aux _ _ (fun d hd' => hd d ((mem_sortAsc _ d dests).1 hd')) ⟨_, nerInv_init src w h wrap hs⟩ hn

/-! ### the result is a valid routing tree on the fault-free machine -/

/-- fault-free machine for a net routed with / without wrap-around: no dead chip; a link may be dead only if
the net is routed without wrap-around and the link leaves the `w × h` rectangle (a wrap-around link) -/
def FaultFree (m : Machine) (wrap : Bool) : Prop :=
  m.deadChips = [] ∧
  ∀ c l, (c, l) ∈ m.deadLinks → wrap = false ∧ ¬ InBox m.w m.h (c.1 + (vec l).1, c.2 + (vec l).2)

theorem chipOk_of_inbox {m : Machine} {wrap : Bool} (hff : FaultFree m wrap) {c : Chip} (hc : InBox m.w m.h c) :
    chipOk m c = true := by
  obtain ⟨c1, c2, c3, c4⟩ := hc
  simp [chipOk, hff.1, c1, c2, c3, c4]

/-- every node of the forest `ner_net` builds on a fault-free machine is a working chip and every edge a
working link to the adjacent working chip -/
theorem nerNet_live (m : Machine) (wrap : Bool) (hff : FaultFree m wrap) (src : Chip) {f : Forest}
    {rank : Chip → Nat} (hw : 1 ≤ m.w) (hh : 1 ≤ m.h) (hi : NerInv src m.w m.h wrap f rank) : ForestLive m f := by
  intro n hn0
  have hcbox : InBox m.w m.h n.1 := hi.inbox _ (mem_keys_of_mem hn0)
  refine ⟨chipOk_of_inbox hff hcbox, ?_⟩
  intro k hn2
  obtain ⟨l, c'⟩ := k
  obtain ⟨d, hsv, hstep⟩ := hi.hop n (l, c') hn0 hn2
  simp only at hsv hstep
  have hl6 : l < 6 := by
    match l, hsv with
    | 0, _ | 1, _ | 2, _ | 3, _ | 4, _ | 5, _ => omega
    | (k + 6), h => simp [C11.specVec] at h
  have hdv : d = vec l := by
    have := Cross.specVec_vec l hl6
    rw [hsv] at this
    exact Option.some.inj this
  subst hdv
  have hc'box : InBox m.w m.h c' := hi.inbox _ (hi.kidsKeys n (l, c') hn0 hn2)
  have hstep' : c' = step m n.1 l := by
    rw [Cross.step_eq m hw hh]
    cases wrap with
    | true => exact hstep
    | false =>
      have : optW false m.w = none ∧ optW false m.h = none := ⟨rfl, rfl⟩
      rw [this.1, this.2] at hstep
      rw [Cross.stepTo_inbox m.w m.h n.1 (vec l) (by rw [← hstep]; exact hc'box)]
      exact hstep
  refine ⟨hl6, ?_, chipOk_of_inbox hff hc'box, hstep'⟩
  simp only [linkOk, chipOk_of_inbox hff hcbox, Bool.true_and, Bool.not_eq_true', List.contains_eq_mem,
    decide_eq_false_iff_not]
  intro hdead
  obtain ⟨hwf, hout⟩ := hff.2 n.1 l hdead
  subst hwf
  have : optW false m.w = none ∧ optW false m.h = none := ⟨rfl, rfl⟩
  rw [this.1, this.2] at hstep
  apply hout
  have : c' = (n.1.1 + (vec l).1, n.1.2 + (vec l).2) := hstep
  rw [← this]
  exact hc'box

/-- a forest satisfying the loop invariant unfolds to a valid routing tree -/
theorem nerInv_valid (m : Machine) (wrap : Bool) (hff : FaultFree m wrap) (src : Chip) (f : Forest)
    (rank : Chip → Nat) (sinks : List Sink) (hw : 1 ≤ m.w) (hh : 1 ≤ m.h)
    (hi : NerInv src m.w m.h wrap f rank) (hsk : ∀ s, s ∈ sinks → s.chip ∈ f.keys) :
    ∃ tr, toTree f (expectedLeaves sinks) (f.length + 1) src = some tr ∧ ValidTree m src sinks tr := by
  have hr : rank src < f.length + 1 := by have := hi.bound src hi.srcKey; omega
  obtain ⟨tr, htr, hu⟩ := toTree_unfolds hi.wf (expectedLeaves sinks) (f.length + 1) src hr
  have hlive := nerNet_live m wrap hff src hw hh hi
  refine ⟨tr, htr, hu.chip, hu.nodup, ?_, ?_, ?_⟩
  · intro c l c' he
    obtain ⟨n, hn0, hn1, hn2⟩ := toTree_edges _ _ _ htr _ he
    simp only at hn1 hn2
    have := (hlive n hn0).2 (l, c') hn2
    rw [hn1] at this
    exact this
  · intro lf hlf
    exact toTree_leaves _ _ _ htr lf hlf
  · intro lf hlf
    apply hu.leavesAll lf hlf
    apply hu.cover
    apply hi.conn
    simp only [expectedLeaves, List.mem_flatMap, Sink.leaves, List.mem_map] at hlf
    obtain ⟨s, hs', r, _, rfl⟩ := hlf
    exact hsk s hs'

theorem nerNet_valid (m : Machine) (wrap : Bool) (hff : FaultFree m wrap) (src : Chip) (dests : List Chip)
    (radius : Nat) (t t' : Tape) (f : Forest) (sinks : List Sink)
    (hs : InRange m src) (hd : ∀ d, d ∈ dests → InRange m d)
    (hsk : ∀ s, s ∈ sinks → s.chip = src ∨ s.chip ∈ dests)
    (hn : nerNet src dests m.w m.h wrap radius t = .ok (f, t')) :
    ∃ tr, toTree f (expectedLeaves sinks) (f.length + 1) src = some tr ∧ ValidTree m src sinks tr := by
  have hw : 1 ≤ m.w := by have := hs.1; have := hs.2.1; omega
  have hh : 1 ≤ m.h := by have := hs.2.2.1; have := hs.2.2.2; omega
  obtain ⟨rank, hi, hall⟩ := nerNet_inv hw hh (wrap := wrap) hs hd hn
  refine nerInv_valid m wrap hff src f rank sinks hw hh hi ?_
  intro s hs'
  rcases hsk s hs' with h | h
  · rw [h]; exact hi.srcKey
  · exact hall _ h


/-! ### `route()` on the fault-free machine -/

theorem attachSinks_ok {f : Forest} : ∀ (sinks : List Sink), (∀ s, s ∈ sinks → s.chip ∈ f.keys) →
    attachSinks f sinks = .ok (expectedLeaves sinks) := by
  intro sinks
  induction sinks with
  | nil => intro _; rfl
  | cons s r ih =>
    intro hk
    have h1 : f.has s.chip = true := (has_iff _ _).2 (hk s (by simp))
    simp only [attachSinks, h1, if_true, ih (fun s' hs' => hk s' (by simp [hs'])), bind, Except.bind, pure,
      Except.pure]
    simp [expectedLeaves]

theorem noDeadLinks_of_live {m : Machine} {f : Forest} (hl : ForestLive m f) : routeHasDeadLinks f m = false := by
  simp only [routeHasDeadLinks]
  rw [Bool.eq_false_iff]
  intro h
  simp only [List.any_eq_true, Bool.not_eq_true'] at h
  obtain ⟨n, hn, k, hk, hdead⟩ := h
  have := ((hl n hn).2 k hk).2.1
  simp only at this
  rw [this] at hdead
  simp at hdead

/-- the model of the loop body of `route()` on a fault-free machine: the repair is not entered, the only
errors are oracle errors, and the result is a valid routing tree -/
theorem routeNet_faultfree (m : Machine) (hff : FaultFree m (hasWrap m)) (src : Chip) (dests : List Chip)
    (radius : Nat) (t : Tape) (order : List (Chip × Chip)) (sinks : List Sink) (legacy : Bool)
    (hs : InRange m src) (hd : ∀ d, d ∈ dests → InRange m d)
    (hsk : ∀ s, s ∈ sinks → s.chip = src ∨ s.chip ∈ dests) :
    (∀ r, routeNet m src dests radius t order sinks legacy = .ok r →
      r.repaired = false ∧ r.root = src ∧
      ∃ tr, toTree r.forest r.leaves (r.forest.length + 1) r.root = some tr ∧ ValidTree m src sinks tr) ∧
    (∀ e, routeNet m src dests radius t order sinks legacy = .error e → Err.isOracle e) := by
  have hw : 1 ≤ m.w := by have := hs.1; have := hs.2.1; omega
  have hh : 1 ≤ m.h := by have := hs.2.2.1; have := hs.2.2.2; omega
  unfold routeNet
  simp only [bind, Except.bind]
  cases hner : nerNet src dests m.w m.h (hasWrap m) radius t with
  | error e0 =>
    simp only
    refine ⟨fun r h => by simp at h, fun e h => ?_⟩
    simp only [Except.error.injEq] at h
    subst h
    exact nerNet_err hw hh hs hd hner
  | ok ft =>
    obtain ⟨f0, t0⟩ := ft
    simp only
    obtain ⟨rank, hi, hall⟩ := nerNet_inv hw hh hs hd hner
    have hlive := nerNet_live m (hasWrap m) hff src hw hh hi
    have hkeys : ∀ s, s ∈ sinks → s.chip ∈ f0.keys := by
      intro s hs'
      rcases hsk s hs' with h | h
      · rw [h]; exact hi.srcKey
      · exact hall _ h
    rw [noDeadLinks_of_live hlive]
    simp only [Bool.false_eq_true, if_false, attachSinks_ok sinks hkeys, pure, Except.pure]
    refine ⟨fun r h => ?_, fun e h => by simp at h⟩
    simp only [Except.ok.injEq] at h
    subst h
    exact ⟨rfl, rfl, nerInv_valid m (hasWrap m) hff src f0 rank sinks hw hh hi hkeys⟩

end Rig.C03.L
