/-
C02 (companion) - sets as lists, the oracle check, and the breadth-first vertex order:
the order is a permutation of the vertices, the loop stops within its fuel.
-/
import RigModel.Model.C02Orders
set_option linter.unusedSimpArgs false
set_option linter.unusedVariables false

namespace Rig.C02Orders
open Rig.C02 (aget aset keys)

section generic
variable {α : Type} [DecidableEq α]

theorem mem_dedupL (l : List α) (a : α) : a ∈ dedupL l ↔ a ∈ l := by
  induction l with
  | nil => simp [dedupL]
  | cons b t ih =>
    simp only [dedupL]
    split
    · rename_i h
      rw [ih]; simp only [List.mem_cons]
      constructor
      · exact Or.inr
      · rintro (rfl | h') <;> assumption
    · simp [ih]

theorem nodup_dedupL (l : List α) : (dedupL l).Nodup := by
  induction l with
  | nil => simp [dedupL]
  | cons b t ih =>
    simp only [dedupL]
    split
    · exact ih
    · rename_i h
      exact List.nodup_cons.2 ⟨fun hb => h ((mem_dedupL t b).1 hb), ih⟩

theorem dedupL_of_nodup (l : List α) (h : l.Nodup) : dedupL l = l := by
  induction l with
  | nil => rfl
  | cons b t ih =>
    have := List.nodup_cons.1 h
    simp [dedupL, this.1, ih this.2]

theorem isOrderOf_iff (it s : List α) :
    isOrderOf it s = true ↔ it.Nodup ∧ ∀ a, a ∈ it ↔ a ∈ s := by
  simp only [isOrderOf, Bool.and_eq_true, decide_eq_true_eq, List.all_eq_true]
  constructor
  · rintro ⟨⟨h1, h2⟩, h3⟩
    exact ⟨h1, fun a => ⟨h2 a, h3 a⟩⟩
  · rintro ⟨h1, h2⟩
    exact ⟨⟨h1, fun a ha => (h2 a).1 ha⟩, fun a ha => (h2 a).2 ha⟩

theorem takeIter_ok {s : List α} {iters : List (List α)} {it : List α} {rest : List (List α)}
    (h : takeIter s iters = .ok (it, rest)) :
    iters = it :: rest ∧ it.Nodup ∧ ∀ a, a ∈ it ↔ a ∈ s := by
  cases iters with
  | nil => simp [takeIter] at h
  | cons i r =>
    simp only [takeIter] at h
    split at h
    · rename_i ho
      injection h with h; injection h with h1 h2
      subst h1; subst h2
      exact ⟨rfl, (isOrderOf_iff _ _).1 ho⟩
    · simp at h

theorem isPermOf_iff' (order vs : List α) :
    isPermOf order vs = true ↔ order.Nodup ∧ ∀ a, a ∈ order ↔ a ∈ vs := isOrderOf_iff order vs

/-- the elements an iteration of the set `nb` moves from the set `u` to the queue, followed by
what is left of `u`, is a rearrangement of `u` -/
theorem split_perm (it nb u : List α) (hit : it.Nodup) (hu : u.Nodup) (hm : ∀ a, a ∈ it ↔ a ∈ nb) :
    (it.filter (fun a => decide (a ∈ u)) ++ u.filter (fun a => !decide (a ∈ nb))).Perm u := by
  have h1 : (u.filter (fun a => decide (a ∈ nb)) ++ u.filter (fun a => !decide (a ∈ nb))).Perm u :=
    List.filter_append_perm _ u
  have h2 : (it.filter (fun a => decide (a ∈ u))).Perm (u.filter (fun a => decide (a ∈ nb))) := by
    rw [List.perm_ext_iff_of_nodup (hit.filter _) (hu.filter _)]
    intro a
    simp only [List.mem_filter, decide_eq_true_eq]
    rw [hm a]
    exact And.comm
  exact (h2.append_right _).trans h1

/-! ### breadth_first_vertex_order -/

/-- what has been yielded, what is queued and what is unplaced together are the vertices -/
def BfsInv (vs0 : List α) (s : BfsSt α) : Prop := (s.out ++ (s.queue ++ s.unplaced)).Perm vs0

theorem bfsStep_inv (vn : List (α × List α)) (vs0 : List α) (hvs : vs0.Nodup) (s s' : BfsSt α)
    (I : BfsInv vs0 s) (h : bfsStep vn s = .ok s') :
    BfsInv vs0 s' ∧ s'.queue.length + s'.unplaced.length + 1 = s.queue.length + s.unplaced.length := by
  have hnd : (s.out ++ (s.queue ++ s.unplaced)).Nodup := I.nodup_iff.2 hvs
  have hndu : s.unplaced.Nodup := (List.nodup_append.1 (List.nodup_append.1 hnd).2.1).2.1
  unfold bfsStep at h
  -- both ways of choosing the vertex lead to the same shape
  have key : ∀ (v : α) (q' u' : List α) (pops' : List α),
      (s.out ++ ([v] ++ (q' ++ u'))).Perm vs0 → u'.Nodup →
      (match takeIter ((aget vn v).getD []) s.iters with
        | .error e => (.error e : M (BfsSt α))
        | .ok (it, iters') =>
          .ok { queue := q' ++ it.filter (fun a => decide (a ∈ u')),
                unplaced := u'.filter (fun a => !decide (a ∈ (aget vn v).getD [])),
                pops := pops', iters := iters', out := s.out ++ [v] }) = .ok s' →
      BfsInv vs0 s' ∧ s'.queue.length + s'.unplaced.length + 1 = q'.length + u'.length + 1 := by
    intro v q' u' pops' hp hu' hk
    split at hk
    · simp at hk
    · rename_i it iters' ht
      obtain ⟨_, hit, hm⟩ := takeIter_ok ht
      injection hk with hk; subst hk
      have sp := split_perm it ((aget vn v).getD []) u' hit hu' hm
      refine ⟨?_, ?_⟩
      · unfold BfsInv
        simp only
        refine List.Perm.trans ?_ hp
        rw [List.append_assoc s.out [v], List.append_assoc q']
        exact List.Perm.append_left _ (List.Perm.append_left _ (List.Perm.append_left _ sp))
      · simp only [List.length_append]
        have := sp.length_eq
        simp only [List.length_append] at this
        omega
  cases hq : s.queue with
  | cons v q' =>
    simp only [hq] at h
    have := key v q' s.unplaced s.pops (by simpa [BfsInv, hq] using I) hndu h
    refine ⟨this.1, ?_⟩
    have h2 := this.2
    simp only [List.length_cons]
    omega
  | nil =>
    simp only [hq] at h
    cases hp : s.pops with
    | nil => simp [hp] at h
    | cons p ps =>
      simp only [hp] at h
      by_cases hmem : p ∈ s.unplaced
      · simp only [hmem, if_true] at h
        have hpe : (p :: s.unplaced.erase p).Perm s.unplaced := (List.perm_cons_erase hmem).symm
        have := key p [] (s.unplaced.erase p) ps
          (by
            have : (s.out ++ ([p] ++ ([] ++ s.unplaced.erase p))).Perm (s.out ++ (s.queue ++ s.unplaced)) := by
              rw [hq]; simpa using List.Perm.append_left s.out hpe
            exact this.trans I)
          (hndu.sublist List.erase_sublist) h
        have hl := hpe.length_eq
        refine ⟨this.1, ?_⟩
        have h2 := this.2
        simp only [List.length_cons, List.length_nil] at h2 hl ⊢
        omega
      · simp [hmem] at h

theorem takeIter_ne_fuel (s : List α) (iters : List (List α)) : takeIter s iters ≠ .error .fuel := by
  cases iters with
  | nil => simp [takeIter]
  | cons i r => simp only [takeIter]; split <;> simp

theorem bfsStep_ne_fuel (vn : List (α × List α)) (s : BfsSt α) : bfsStep vn s ≠ .error .fuel := by
  have key : ∀ (v : α) (q' u' pops' : List α),
      (match takeIter ((aget vn v).getD []) s.iters with
        | .error e => (.error e : M (BfsSt α))
        | .ok (it, iters') =>
          .ok { queue := q' ++ it.filter (fun a => decide (a ∈ u')),
                unplaced := u'.filter (fun a => !decide (a ∈ (aget vn v).getD [])),
                pops := pops', iters := iters', out := s.out ++ [v] }) ≠ .error .fuel := by
    intro v q' u' pops'
    split
    · rename_i e ht
      intro h; injection h with h; subst h
      exact takeIter_ne_fuel _ _ ht
    · simp
  unfold bfsStep
  cases hq : s.queue with
  | cons v q' => exact key v q' _ _
  | nil =>
    cases hp : s.pops with
    | nil => simp
    | cons p ps =>
      by_cases hmem : p ∈ s.unplaced
      · simp only [hmem, if_true]; exact key p [] _ _
      · simp [hmem]

theorem bfsLoop_perm (vn : List (α × List α)) (vs0 : List α) (hvs : vs0.Nodup) :
    ∀ (fuel : Nat) (s : BfsSt α) (r : List α), BfsInv vs0 s → bfsLoop vn fuel s = .ok r → r.Perm vs0 := by
  have fin : ∀ (s : BfsSt α) (r : List α), BfsInv vs0 s →
      (s.queue.isEmpty && s.unplaced.isEmpty) = true →
      (if (s.pops.isEmpty && s.iters.isEmpty) = true then (.ok s.out : M (List α)) else .error .badOracle) = .ok r →
      r.Perm vs0 := by
    intro s r I he h
    split at h
    · injection h with h; subst h
      simp only [Bool.and_eq_true, List.isEmpty_iff] at he
      simpa [BfsInv, he.1, he.2] using I
    · simp at h
  intro fuel
  induction fuel with
  | zero =>
    intro s r I h
    simp only [bfsLoop] at h
    split at h
    · rename_i he; exact fin s r I he h
    · simp at h
  | succ n ih =>
    intro s r I h
    simp only [bfsLoop] at h
    split at h
    · rename_i he; exact fin s r I he h
    · cases hs : bfsStep vn s with
      | error e => simp [hs] at h
      | ok s' =>
        simp only [hs] at h
        exact ih s' r (bfsStep_inv vn vs0 hvs s s' I hs).1 h

theorem bfsLoop_no_fuel (vn : List (α × List α)) (vs0 : List α) (hvs : vs0.Nodup) :
    ∀ (fuel : Nat) (s : BfsSt α), BfsInv vs0 s → s.queue.length + s.unplaced.length ≤ fuel →
      bfsLoop vn fuel s ≠ .error .fuel := by
  have fin : ∀ (s : BfsSt α),
      (if (s.pops.isEmpty && s.iters.isEmpty) = true then (.ok s.out : M (List α)) else .error .badOracle)
        ≠ .error .fuel := by
    intro s; split <;> simp
  intro fuel
  induction fuel with
  | zero =>
    intro s I hl
    simp only [bfsLoop]
    split
    · exact fin s
    · rename_i he
      exfalso; apply he
      have h1 : s.queue = [] := List.eq_nil_of_length_eq_zero (by omega)
      have h2 : s.unplaced = [] := List.eq_nil_of_length_eq_zero (by omega)
      simp [h1, h2]
  | succ n ih =>
    intro s I hl
    simp only [bfsLoop]
    split
    · exact fin s
    · cases hs : bfsStep vn s with
      | error e =>
        simp only
        intro h; injection h with h; subst h
        exact bfsStep_ne_fuel vn s hs
      | ok s' =>
        simp only
        have := bfsStep_inv vn vs0 hvs s s' I hs
        exact ih s' this.1 (by omega)

end generic
end Rig.C02Orders
