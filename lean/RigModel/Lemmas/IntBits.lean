/-
Bit-level facts about Mathlib's two's-complement `Int.land/lor/xor/lnot` used by the translator-tie
modules (Props/CxxGen.lean): the translator maps Python's `& | ^ ~ << >>` on unbounded ints to these.
-/
import Mathlib.Data.Int.Bitwise
import Mathlib.Data.Nat.Bitwise

namespace Rig.IntBits

theorem testBit_natCast (n i : Nat) : (n : Int).testBit i = n.testBit i := rfl

theorem land_natCast (a b : Nat) : Int.land (a : Int) (b : Int) = ((a &&& b : Nat) : Int) := rfl
theorem lor_natCast (a b : Nat) : Int.lor (a : Int) (b : Int) = ((a ||| b : Nat) : Int) := rfl
theorem xor_natCast (a b : Nat) : Int.xor (a : Int) (b : Int) = ((a ^^^ b : Nat) : Int) := rfl

/-- two integers with the same bits are equal -/
theorem eq_of_testBit_eq {a b : Int} (h : ∀ i, a.testBit i = b.testBit i) : a = b := by
  have big : ∀ m n : Nat, ∃ i, m.testBit i = false ∧ n.testBit i = false := fun m n =>
    ⟨m + n, Nat.testBit_eq_false_of_lt (Nat.lt_of_le_of_lt (Nat.le_add_right m n) Nat.lt_two_pow_self),
      Nat.testBit_eq_false_of_lt (Nat.lt_of_le_of_lt (Nat.le_add_left n m) Nat.lt_two_pow_self)⟩
  cases a with
  | ofNat m =>
    cases b with
    | ofNat n => exact congrArg _ (Nat.eq_of_testBit_eq h)
    | negSucc n =>
      obtain ⟨i, h1, h2⟩ := big m n
      have := h i
      simp [Int.testBit, h1, h2] at this
  | negSucc m =>
    cases b with
    | ofNat n =>
      obtain ⟨i, h1, h2⟩ := big m n
      have := h i
      simp [Int.testBit, h1, h2] at this
    | negSucc n =>
      refine congrArg _ (Nat.eq_of_testBit_eq fun i => ?_)
      have := h i
      simpa [Int.testBit] using this

theorem testBit_zero' (i : Nat) : (0 : Int).testBit i = false := by
  show Nat.testBit 0 i = false
  simp

theorem testBit_one_shiftLeft (i j : Nat) : ((1 : Int) <<< i).testBit j = decide (i = j) := by
  have : ((1 : Int) <<< i) = ((2 ^ i : Nat) : Int) := by
    rw [Int.shiftLeft_eq]; simp
  rw [this, testBit_natCast, Nat.testBit_two_pow]

/-- `z & (1 << i)` is non-zero iff bit `i` of `z` is set (any sign of `z`) -/
theorem land_one_shiftLeft_ne_zero (z : Int) (i : Nat) :
    Int.land z ((1 : Int) <<< i) ≠ 0 ↔ z.testBit i = true := by
  constructor
  · intro h
    by_contra hb
    apply h
    apply eq_of_testBit_eq
    intro j
    rw [Int.testBit_land, testBit_one_shiftLeft, testBit_zero']
    by_cases hij : i = j
    · subst hij; simpa using hb
    · simp [hij]
  · intro h e
    have := congrArg (fun t => Int.testBit t i) e
    simp [Int.testBit_land, testBit_one_shiftLeft, testBit_zero', h] at this

/-! ### pulling `Nat` casts out of Python-int expressions on non-negative values
(`simp (disch := decide) only [natCastOut...]` turns a generated `Int` expression over casts of naturals
into the cast of the same `Nat` expression) -/

theorem shl_natCast (a k : Nat) : (a : Int) <<< k = ((a <<< k : Nat) : Int) := (Int.natCast_shiftLeft a k).symm
theorem shr_natCast (a k : Nat) : (a : Int) >>> k = ((a >>> k : Nat) : Int) := rfl
theorem lit_natCast (n : Nat) [n.AtLeastTwo] : (OfNat.ofNat n : Int) = ((OfNat.ofNat n : Nat) : Int) := rfl
theorem zero_natCast : (0 : Int) = ((0 : Nat) : Int) := rfl
theorem one_natCast : (1 : Int) = ((1 : Nat) : Int) := rfl
theorem sub_natCast (a b : Nat) (h : b ≤ a) : (a : Int) - (b : Int) = ((a - b : Nat) : Int) := by omega
theorem add_natCast (a b : Nat) : (a : Int) + (b : Int) = ((a + b : Nat) : Int) := by omega
theorem mul_natCast (a b : Nat) : (a : Int) * (b : Int) = ((a * b : Nat) : Int) := by simp

end Rig.IntBits
