/-
C02 - the resource invariant of the constraint loop and of the placement loops
(problem after same-chip merging: "flat" problem).
-/
import RigModel.Lemmas.C02Basic
set_option linter.unusedSimpArgs false
set_option linter.unusedVariables false

namespace Rig.C02

/-- documented precondition: resource requirements are non-negative -/
def NonNegVR (vr : VR) : Prop := ∀ v d, (v, d) ∈ vr → ∀ i, 0 ≤ dem d i
/-- documented precondition: chip resources are non-negative -/
def NonNegCap (m : Machine) : Prop := ∀ c, m.ok c = true → ∀ i, 0 ≤ dem (cap m c) i

/-! ### load -/

theorem load_aset_notin (vr : VR) (p : Placement) (v : Vtx) (c0 c : Chip) (i : Nat)
    (h : v ∉ keys vr) : load vr (aset p v c0) c i = load vr p c i := by
  induction vr with
  | nil => rfl
  | cons hd t ih =>
    obtain ⟨u, du⟩ := hd
    simp only [keys, List.map_cons, List.mem_cons, not_or] at h
    have hne : v ≠ u := h.1
    simp only [load, aget_aset_ne p c0 hne]
    rw [ih (by simpa [keys] using h.2)]

theorem load_aset_le (vr : VR) (p : Placement) (v : Vtx) (c0 c : Chip) (d : Res) (i : Nat)
    (hn : (keys vr).Nodup) (hv : aget vr v = some d) (hd : 0 ≤ dem d i) :
    load vr (aset p v c0) c i ≤ load vr p c i + (if c = c0 then dem d i else 0) := by
  induction vr with
  | nil => simp [aget] at hv
  | cons hd' t ih =>
    obtain ⟨u, du⟩ := hd'
    simp only [keys, List.map_cons, List.nodup_cons] at hn
    by_cases hu : u = v
    · subst hu
      simp [aget] at hv; subst hv
      simp only [load, aget_aset_self]
      rw [load_aset_notin t p u c0 c i (by simpa [keys] using hn.1)]
      by_cases hc : c = c0
      · subst hc; simp; split <;> omega
      · have : ¬ c0 = c := fun h => hc h.symm
        simp [hc, this]; split <;> omega
    · simp only [aget, hu, if_false] at hv
      have hne : v ≠ u := fun h => hu h.symm
      simp only [load, aget_aset_ne p c0 hne]
      have := ih hn.2 hv
      omega

/-- a vertex not placed contributes nothing: placing it adds exactly its demand (upper bound
is all that is needed) -/
theorem load_nil (vr : VR) (c : Chip) (i : Nat) : load vr [] c i = 0 := by
  induction vr with
  | nil => rfl
  | cons hd t ih => obtain ⟨u, du⟩ := hd; simp [load, aget, ih]

/-! ### the invariant -/

structure Inv (vr : VR) (m0 : Machine) (rsv : Chip → Nat → Int) (m : Machine) (p : Placement) : Prop where
  w : m.w = m0.w
  h : m.h = m0.h
  dead : m.dead = m0.dead
  len : ∀ c, m0.ok c = true → (cap m c).length = (cap m0 c).length
  nonneg : ∀ c, m0.ok c = true → ∀ i, 0 ≤ dem (cap m c) i
  bound : ∀ c, m0.ok c = true → ∀ i, i < (cap m0 c).length →
    load vr p c i + rsv c i + dem (cap m c) i ≤ dem (cap m0 c) i
  pok : ∀ v c, aget p v = some c → m0.ok c = true
  pvr : ∀ v, v ∈ keys p → v ∈ keys vr
  pnodup : (keys p).Nodup

theorem Inv.ok_eq {vr m0 rsv m p} (I : Inv vr m0 rsv m p) (c : Chip) : m.ok c = m0.ok c :=
  Machine.ok_congr I.w I.h I.dead c

theorem Inv.init (vr : VR) (m0 : Machine) (h : NonNegCap m0) : Inv vr m0 (fun _ _ => 0) m0 [] where
  w := rfl
  h := rfl
  dead := rfl
  len := fun _ _ => rfl
  nonneg := h
  bound := fun c _ i _ => by simp [load_nil]
  pok := fun v c h => by simp [aget] at h
  pvr := fun v h => by simp [keys] at h
  pnodup := by simp [keys]

theorem dem_nonneg_of_over {r : Res} (h : over r = false) (i : Nat) : 0 ≤ dem r i := by
  by_cases hi : i < r.length
  · exact (over_false_iff r).1 h i hi
  · rw [dem_ge_length r i (by omega)]; omega

/-- placing vertex `v` (demand `d`) on chip `c0` when it fits -/
theorem Inv.place {vr m0 rsv m p} (I : Inv vr m0 rsv m p) (hn : (keys vr).Nodup) (hnn : NonNegVR vr)
    {v : Vtx} {d : Res} {c0 : Chip} {cur : Res} {m' : Machine}
    (hv : aget vr v = some d) (hg : m.get c0 = some cur) (ho : over (sub cur d) = false)
    (hs : m.set c0 (sub cur d) = some m') : Inv vr m0 rsv m' (aset p v c0) := by
  obtain ⟨hok, hcur⟩ := Machine.get_some hg
  obtain ⟨_, hw, hh, hdd, hres, hcap⟩ := Machine.set_some hs
  have hok0 : m0.ok c0 = true := by rw [← I.ok_eq]; exact hok
  have hdnn : ∀ i, 0 ≤ dem d i := hnn v d (aget_some_mem hv)
  refine ⟨hw.trans I.w, hh.trans I.h, hdd.trans I.dead, ?_, ?_, ?_, ?_, ?_, nodup_keys_aset _ _ _ I.pnodup⟩
  · intro c hc
    rw [hcap c]; split
    · rename_i e; subst e; rw [sub_length, hcur]; exact I.len _ hc
    · exact I.len c hc
  · intro c hc i
    rw [hcap c]; split
    · exact dem_nonneg_of_over ho i
    · exact I.nonneg c hc i
  · intro c hc i hi
    have hb := I.bound c hc i hi
    have hl := load_aset_le vr p v c0 c d i hn hv (hdnn i)
    rw [hcap c]
    by_cases e : c0 = c
    · subst e
      have hlen : i < cur.length := by rw [hcur, I.len _ hc]; exact hi
      rw [if_pos rfl, dem_sub cur d i hlen]
      rw [if_pos rfl] at hl
      rw [hcur]; omega
    · have e' : ¬ c = c0 := fun h => e h.symm
      rw [if_neg e]; rw [if_neg e'] at hl; omega
  · intro u c hu
    rw [aget_aset] at hu
    split at hu
    · simp at hu; subst hu; exact hok0
    · exact I.pok u c hu
  · intro u hu
    rw [mem_keys_aset] at hu
    rcases hu with rfl | hu
    · exact (aget_isSome_iff vr _).1 (by simp [hv])
    · exact I.pvr u hu

/-! ### reservations -/

def resvTerm (r : Nat) (amt : Int) (at_ : Option Chip) (c : Chip) (i : Nat) : Int :=
  if r = i ∧ (at_ = none ∨ at_ = some c) then amt else 0

inductive ExcRel (m : Machine) (r : Nat) (amt : Int) : List (Chip × Res) → List (Chip × Res) → Prop where
  | nil : ExcRel m r amt [] []
  | cons {a b : Chip × Res} {l l' : List (Chip × Res)} :
      (b.1 = a.1 ∧ decr a.2 r amt = some b.2 ∧ (m.ok b.1 = true → over b.2 = false)) → ExcRel m r amt l l' →
      ExcRel m r amt (a :: l) (b :: l')

theorem reserveExc_spec (m : Machine) (r : Nat) (amt : Int) :
    ∀ (rest done out : List (Chip × Res)), reserveExc m r amt done rest = .ok out →
      ∃ rest', out = done ++ rest' ∧
        ExcRel m r amt rest rest' := by
  intro rest
  induction rest with
  | nil => intro done out h; simp [reserveExc] at h; exact ⟨[], by simp [h], ExcRel.nil⟩
  | cons hd t ih =>
    obtain ⟨c, res⟩ := hd
    intro done out h
    simp only [reserveExc] at h
    split at h
    · simp at h
    · rename_i res' hd
      split at h
      · simp at h
      · rename_i ho
        obtain ⟨rest', e, f⟩ := ih _ _ h
        refine ⟨(c, res') :: rest', by simp [e], ExcRel.cons ⟨rfl, hd, fun hk => ?_⟩ f⟩
        simp only at hk
        simpa [hk] using ho

theorem aget_forall2 {m : Machine} {r : Nat} {amt : Int} {l l' : List (Chip × Res)}
    (f : ExcRel m r amt l l') (c : Chip) :
    (aget l c = none ∧ aget l' c = none) ∨
    (∃ e e', aget l c = some e ∧ aget l' c = some e' ∧ decr e r amt = some e' ∧
      (m.ok c = true → over e' = false)) := by
  induction f with
  | nil => left; simp [aget]
  | @cons a b l1 l2 hab _ ih =>
    obtain ⟨ka, va⟩ := a
    obtain ⟨kb, vb⟩ := b
    obtain ⟨h1, h2, h3⟩ := hab
    simp at h1 h2 h3; subst h1
    by_cases hk : kb = c
    · subst hk; right; exact ⟨va, vb, by simp [aget], by simp [aget], h2, h3⟩
    · simpa [aget, hk] using ih

theorem Inv.reserve {vr m0 rsv m p} (I : Inv vr m0 rsv m p) {r : Nat} {amt : Int} {at_ : Option Chip}
    {m' : Machine} (h : applyReserve m r amt at_ = .ok m') :
    Inv vr m0 (fun c i => rsv c i + resvTerm r amt at_ c i) m' p := by
  cases at_ with
  | none =>
    simp only [applyReserve] at h
    split at h
    · simp at h
    · rename_i res' hres
      split at h
      · simp at h
      · rename_i hover
        simp only [bind, Except.bind, pure, Except.pure] at h
        split at h
        · simp at h
        · rename_i exc' hexc
          simp at h; subst h
          obtain ⟨rest', e, f⟩ := reserveExc_spec m r amt _ _ _ hexc
          simp at e; subst e
          -- capacity of every chip is decremented
          have key : ∀ c, ∃ e', decr (cap m c) r amt = some e' ∧ (m.ok c = true → over e' = false) ∧
              cap { m with res := res', exc := exc' } c = e' := by
            intro c
            rcases aget_forall2 f c with ⟨h1, h2⟩ | ⟨e, e', h1, h2, h3, h4⟩
            · exact ⟨res', by simp [cap, h1, hres], fun _ => by simpa using hover, by simp [cap, h2]⟩
            · exact ⟨e', by simp [cap, h1, h3], h4, by simp [cap, h2]⟩
          refine ⟨I.w, I.h, I.dead, ?_, ?_, ?_, I.pok, I.pvr, I.pnodup⟩
          · intro c hc
            obtain ⟨e', h1, h2, h3⟩ := key c
            rw [h3, (decr_some h1).1]; exact I.len c hc
          · intro c hc i
            obtain ⟨e', h1, h2, h3⟩ := key c
            rw [h3]; exact dem_nonneg_of_over (h2 (by rw [I.ok_eq]; exact hc)) i
          · intro c hc i hi
            obtain ⟨e', h1, h2, h3⟩ := key c
            have hb := I.bound c hc i hi
            rw [h3, (decr_some h1).2 i]
            simp only [resvTerm, true_or, and_true]
            split <;> omega
  | some c0 =>
    simp only [applyReserve] at h
    split at h
    · simp at h
    · rename_i cur hg
      split at h
      · simp at h
      · rename_i res' hd
        split at h
        · simp at h
        · rename_i m1 hs
          split at h
          · simp at h
          · rename_i hover
            simp at h; subst h
            obtain ⟨hok, hcur⟩ := Machine.get_some hg
            obtain ⟨_, hw, hh, hdd, hres, hcap⟩ := Machine.set_some hs
            refine ⟨hw.trans I.w, hh.trans I.h, hdd.trans I.dead, ?_, ?_, ?_, I.pok, I.pvr, I.pnodup⟩
            · intro c hc
              rw [hcap c]; split
              · rename_i e; subst e; rw [(decr_some hd).1, hcur]; exact I.len _ hc
              · exact I.len c hc
            · intro c hc i
              rw [hcap c]; split
              · exact dem_nonneg_of_over (by simpa using hover) i
              · exact I.nonneg c hc i
            · intro c hc i hi
              have hb := I.bound c hc i hi
              rw [hcap c]
              by_cases e : c0 = c
              · subst e
                rw [if_pos rfl, (decr_some hd).2 i, hcur]
                simp only [resvTerm]
                split <;> split <;> simp_all <;> omega
              · rw [if_neg e]
                have : resvTerm r amt (some c0) c i = 0 := by
                  simp [resvTerm, e]
                omega

/-! ### the constraint loop -/

theorem reserved_cons_reserve (r : Nat) (amt : Int) (at_ : Option Chip) (cs : List Constraint) (c : Chip) (i : Nat) :
    reserved (.reserve r amt at_ :: cs) c i = resvTerm r amt at_ c i + reserved cs c i := rfl

theorem Inv.prepare {vr m0} (hn : (keys vr).Nodup) (hnn : NonNegVR vr) :
    ∀ (cs : List Constraint) (rsv : Chip → Nat → Int) (m : Machine) (p : Placement) (m' : Machine) (p' : Placement),
      Inv vr m0 rsv m p → prepareLoop vr cs m p = .ok (m', p') →
      Inv vr m0 (fun c i => rsv c i + reserved cs c i) m' p' := by
  intro cs
  induction cs with
  | nil =>
    intro rsv m p m' p' I h
    simp [prepareLoop] at h; obtain ⟨rfl, rfl⟩ := h
    simpa [reserved] using I
  | cons k cs ih =>
    intro rsv m p m' p' I h
    cases k with
    | loc v c =>
      simp only [prepareLoop] at h
      split at h
      · simp at h
      · split at h
        · simp at h
        · rename_i d hv
          split at h
          · simp at h
          · rename_i cur hg
            split at h
            · simp at h
            · rename_i m1 hs
              split at h
              · simp at h
              · rename_i ho
                have I1 := I.place hn hnn hv hg (by simpa using ho) hs
                have := ih rsv m1 _ m' p' I1 h
                simpa [reserved] using this
    | reserve r amt at_ =>
      simp only [prepareLoop, bind, Except.bind] at h
      split at h
      · simp at h
      · rename_i m1 hr
        have I1 := I.reserve hr
        have := ih _ m1 p m' p' I1 h
        refine cast ?_ this
        congr 1
        funext c i
        rw [reserved_cons_reserve]; omega
    | same vs => simp only [prepareLoop] at h; simpa [reserved] using ih rsv m p m' p' I h
    | endpoint v => simp only [prepareLoop] at h; simpa [reserved] using ih rsv m p m' p' I h
    | other => simp only [prepareLoop] at h; simpa [reserved] using ih rsv m p m' p' I h

end Rig.C02
