/-
C08 helper lemmas: `add_field` preserves the invariant.
-/
import RigModel.Lemmas.C08Call
set_option linter.unusedSimpArgs false
set_option linter.unusedVariables false

namespace Rig.C08
open Rig.Gen.BitfieldConsts

theorem lookup_filter_key (q : Ident → Bool) (l : Reqs) (i : Ident) :
    (l.filter fun iv => q iv.1).lookup i = if q i then l.lookup i else none := by
  induction l with
  | nil => simp [List.lookup]
  | cons x xs ih =>
    obtain ⟨k, w⟩ := x
    by_cases hq : q k
    · simp only [List.filter_cons, hq, if_true, List.lookup]
      by_cases hik : i = k
      · subst hik; simp [hq]
      · have : (i == k) = false := by simpa using hik
        simp only [this, ih]
    · simp only [List.filter_cons, hq, Bool.false_eq_true, if_false, List.lookup, ih]
      by_cases hik : i = k
      · subst hik; simp [hq]
      · have : (i == k) = false := by simpa using hik
        simp only [this]

/-- facts about the path that the descent of `_Tree.add_field` returns -/
theorem descend_spec {es : List Entry} {ident : Ident} {fv : Reqs} : ∀ (fuel : Nat) (p : Path) (rem : Reqs) (q : Path),
    descend es ident fuel p rem = .ok q →
    (∀ iv ∈ p.flatten, fv.lookup iv.1 = some iv.2) →
    (∀ i w, fv.lookup i = some w → (i, w) ∈ p.flatten ∨ rem.lookup i = some w) →
    (∀ i w, rem.lookup i = some w → fv.lookup i = some w) →
    (∀ iv ∈ q.flatten, fv.lookup iv.1 = some iv.2) ∧ (∀ i w, fv.lookup i = some w → (i, w) ∈ q.flatten) := by
  intro fuel
  induction fuel with
  | zero => intro p rem q h; simp [descend] at h
  | succ n ih =>
    intro p rem q h h1 h2 h3
    unfold descend at h
    split at h
    · simp at h
    · split at h
      · rename_i hemp
        simp only [Except.ok.injEq] at h
        subst h
        have : rem = [] := by simpa using hemp
        subst this
        refine ⟨h1, fun i w hw => ?_⟩
        rcases h2 i w hw with h | h
        · exact h
        · simp [List.lookup] at h
      · simp only at h
        split at h
        · simp at h
        · -- one level down
          generalize hmeet : ((nodeIdents es p).filterMap fun i => (rem.lookup i).map fun v => (i, v)) = meet at h
          have hmeet_mem : ∀ iv ∈ meet, rem.lookup iv.1 = some iv.2 := by
            intro iv hiv
            rw [← hmeet] at hiv
            simp only [List.mem_filterMap, Option.map_eq_some_iff] at hiv
            obtain ⟨i, _, v, hv, rfl⟩ := hiv
            exact hv
          refine ih (p ++ [meet]) _ q h ?_ ?_ ?_
          · intro iv hiv
            simp only [List.flatten_append, List.flatten_cons, List.flatten_nil, List.append_nil,
              List.mem_append] at hiv
            rcases hiv with hiv | hiv
            · exact h1 iv hiv
            · exact h3 _ _ (hmeet_mem iv hiv)
          · intro i w hw
            simp only [List.flatten_append, List.flatten_cons, List.flatten_nil, List.append_nil,
              List.mem_append]
            rcases h2 i w hw with h | h
            · exact Or.inl (Or.inl h)
            · by_cases hin : meet.any (fun x => x.1 == i) = true
              · left; right
                simp only [List.any_eq_true, beq_iff_eq] at hin
                obtain ⟨x, hx, hxi⟩ := hin
                have := hmeet_mem x hx
                rw [hxi, h] at this
                have : x = (i, w) := by
                  obtain ⟨a, b⟩ := x
                  simp only at hxi this
                  simp [hxi, Option.some.inj this]
                exact this ▸ hx
              · right
                rw [lookup_filter_key (fun k => !(meet.any fun x => x.1 == k)) rem i]
                simp [hin, h]
          · intro i w hw
            rw [lookup_filter_key (fun k => !(meet.any fun x => x.1 == k)) rem i] at hw
            split at hw
            · exact h3 i w hw
            · simp at hw

theorem descend_unique {es : List Entry} {ident : Ident} {fv : Reqs} {n : Nat} {q : Path}
    (h : descend es ident (n + 1) [] fv = .ok q) : ∀ x ∈ es, x.potential fv = true → x.ident ≠ ident := by
  unfold descend at h
  split at h
  · simp at h
  · rename_i hany
    intro x hx hp hid
    apply hany
    simp only [List.any_eq_true, beq_iff_eq]
    refine ⟨x, ?_, hid⟩
    simp only [subtreePotential, List.mem_filter, List.length_nil, List.drop_zero]
    refine ⟨hx, ?_⟩
    simp only [Entry.potential] at hp
    simp [List.isPrefixOf, hp]

/-- the invariant does not depend on the order of the listing -/
theorem inv_perm {L : Nat} {es es' : List Entry} (hp : es.Perm es') (h : Inv ⟨L, es⟩) : Inv ⟨L, es'⟩ := by
  refine ⟨?_, ?_, ?_, ?_, ?_, ?_⟩
  · refine (hp.pairwise_iff ?_).mp h.unique
    intro x y hxy hc; exact (hxy (compatible_symm hc)).symm
  · intro e he; exact h.selfc e (hp.mem_iff.mpr he)
  · refine (hp.pairwise_iff ?_).mp h.disjoint
    intro x y hxy hc l s l' s' h1 h2 h3 h4
    exact (hxy (compatible_symm hc) l' s' l s h3 h4 h1 h2).symm
  · intro e he; exact h.inRange e (hp.mem_iff.mpr he)
  · intro e he; exact h.wide e (hp.mem_iff.mpr he)
  · intro e he; exact h.lenPos e (hp.mem_iff.mpr he)

theorem insertAfterLast_perm (pred : Entry → Bool) (e : Entry) (es : List Entry) :
    (insertAfterLast pred e es).Perm (e :: es) := by
  unfold insertAfterLast
  refine List.perm_middle.trans ?_
  rw [List.take_append_drop]

theorem insertEntry_perm (es : List Entry) (e : Entry) : (insertEntry es e).Perm (e :: es) := by
  unfold insertEntry
  split <;> exact insertAfterLast_perm _ _ _

theorem inv_addTags {fv : Reqs} {tags : List String} : ∀ (parents : List Ident) (L : Nat) (es : List Entry),
    Inv ⟨L, es⟩ → Inv ⟨L, addTags fv tags parents es⟩ := by
  intro parents
  induction parents with
  | nil => intro L es h; exact h
  | cons pi ps ih =>
    intro L es hinv
    simp only [addTags, List.foldl_cons]
    have h1 : Inv ⟨L, modifyField es pi fv fun f => { f with tags := tagUnion f.tags tags }⟩ :=
      inv_modifyField_benign (st := ⟨L, es⟩) hinv (fun _ => rfl) (fun _ => rfl)
        (fun y hy _ _ l hl => hinv.wide y hy l hl)
    exact ih L _ h1

theorem overlaps_false {s l s' l' : Nat} (h : overlaps s l s' l' = false) : Disjoint s l s' l' := by
  simp only [overlaps, Bool.and_eq_false_iff, decide_eq_false_iff_not] at h
  unfold Disjoint; omega

/-- `add_field` preserves the invariant (whatever values the instance holds) -/
theorem addField_inv {st st' : State} {fv : Reqs} {ident : Ident} {length : Option Int} {startAt : Option Nat}
    {tags : List String} (hmax : MAX_VALUE_DEFAULT = 1) (hinv : Inv st)
    (h : addField st fv ident length startAt tags = .ok st') : Inv st' ∧ st'.length = st.length := by
  unfold addField at h
  simp only at h
  split at h
  · simp at h
  rename_i hlenpos
  split at h
  · simp at h
  rename_i hfit
  split at h
  · simp at h
  rename_i hover
  cases hd : descend st.entries ident (fv.length + 1) [] fv with
  | error e => simp [hd] at h
  | ok p =>
    simp only [hd] at h
    obtain ⟨hD1, hD2⟩ := descend_spec (fv := fv) _ _ _ _ hd (by simp) (fun i w hw => Or.inr hw) (fun i w hw => hw)
    have hD3 := descend_unique hd
    generalize hnew : newEntry p ident (length.map Int.toNat) startAt (tagNorm tags) = newE at h
    have hreq : newE.reqs = p.flatten := by rw [← hnew]; rfl
    have hpot : ∀ x ∈ st.entries, compatible newE.reqs x.reqs → x.potential fv = true := by
      intro x hx hc
      refine potential_of_compatible (r := newE.reqs) (fun i w hw => ?_) hc
      rw [hreq]; exact hD2 i w hw
    -- a given length is positive
    have hlen : ∀ l, newE.field.length = some l → 1 ≤ l := by
      intro l hl
      rw [← hnew] at hl
      cases hlen : length with
      | none => simp [newEntry, hlen] at hl
      | some li =>
        simp only [newEntry, hlen, Option.map_some, Option.some.injEq] at hl
        simp only [badLength, hlen, decide_eq_true_eq] at hlenpos
        omega
    -- the invariant with the new field in front
    have hcons : Inv ⟨st.length, newE :: st.entries⟩ := by
      refine ⟨?_, ?_, ?_, ?_, ?_, ?_⟩
      · refine List.pairwise_cons.mpr ⟨?_, hinv.unique⟩
        intro x hx hc hid
        exact hD3 x hx (hpot x hx hc) (by rw [← hid, ← hnew]; rfl)
      · intro e he
        rcases List.mem_cons.mp he with rfl | he
        · intro i v v' hv hv'
          rw [hreq] at hv hv'
          have a := hD1 (i, v) hv
          have b := hD1 (i, v') hv'
          simp only at a b
          rw [a] at b; exact Option.some.inj b
        · exact hinv.selfc e he
      · refine List.pairwise_cons.mpr ⟨?_, hinv.disjoint⟩
        intro x hx hc l s l' s' hl hs hl' hs'
        have hl0 := hl
        rw [← hnew] at hl hs
        simp only [newEntry] at hl hs
        subst hs
        simp only [overlapsExisting, Bool.not_eq_true, List.any_eq_false] at hover
        have := hover x (by simp [potentialFields, List.mem_filter, hx, hpot x hx hc])
        simp only [hs', hl, hl', orOne, Bool.not_eq_true] at this
        exact overlaps_false this
      · intro e he l s hl hs
        rcases List.mem_cons.mp he with rfl | he
        · have h1 := hlen l hl
          rw [← hnew] at hl hs
          simp only [newEntry] at hl hs
          subst hs
          simp only [doesNotFit, hl, orOne, Bool.or_eq_true, decide_eq_true_eq, not_or] at hfit
          show 1 ≤ l ∧ s + l ≤ st.length
          omega
        · exact hinv.inRange e he l s hl hs
      · intro e he l hl
        rcases List.mem_cons.mp he with rfl | he
        · have h1 := hlen l hl
          have : e.field.maxValue = 1 := by rw [← hnew]; exact hmax
          rw [this]
          exact Nat.one_lt_two_pow (by omega)
        · exact hinv.wide e he l hl
      · intro e he l hl
        rcases List.mem_cons.mp he with rfl | he
        · exact hlen l hl
        · exact hinv.lenPos e he l hl
    have hins : Inv ⟨st.length, insertEntry st.entries newE⟩ := inv_perm (insertEntry_perm _ _).symm hcons
    split at h
    · simp at h
    · split at h
      · simp at h
      · simp only [Except.ok.injEq] at h
        subst h
        exact ⟨inv_addTags _ _ _ hins, rfl⟩

end Rig.C08
