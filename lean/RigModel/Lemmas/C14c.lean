
import RigModel.Lemmas.C14b
namespace Rig.C14
open Rig.Gen.C14
set_option linter.unusedSimpArgs false

/-- a description is well formed when its keys are distinct (it is a dict) and lie inside its extent -/
def SysInfo.WF (si : SysInfo) : Prop :=
  (si.chips.map (·.1)).Nodup ∧ ∀ xy ci, (xy, ci) ∈ si.chips → xy.1 < si.width ∧ xy.2 < si.height

theorem chips_unique (l : List ((Nat × Nat) × ChipInfo)) (hnd : (l.map (·.1)).Nodup) (xy : Nat × Nat) (a b : ChipInfo)
    (ha : (xy, a) ∈ l) (hb : (xy, b) ∈ l) : a = b := by
  induction l with
  | nil => cases ha
  | cons e t ih =>
    simp only [List.map_cons, List.nodup_cons] at hnd
    simp only [List.mem_cons] at ha hb
    rcases ha with ha | ha <;> rcases hb with hb | hb
    · rw [← ha] at hb; exact (Prod.mk.inj hb).2.symm
    · exact absurd (List.mem_map.2 ⟨_, hb, by rw [← ha]⟩) hnd.1
    · exact absurd (List.mem_map.2 ⟨_, ha, by rw [← hb]⟩) hnd.1
    · exact ih hnd.2 ha hb

theorem buildMachine_chip (si : SysInfo) (hwf : si.WF) (x y : Nat) :
    (buildMachine si).chipOk (x, y) = true ↔ ∃ ci, ((x, y), ci) ∈ si.chips := by
  have hd := mem_deadChips si x y
  have e : (buildMachine si).chipOk (x, y) =
      (decide (x < si.width) && decide (y < si.height) && !decide ((x, y) ∈ si.deadChips)) := by
    simp [PMachine.chipOk, buildMachine]
  rw [e]
  simp only [Bool.and_eq_true, decide_eq_true_eq, Bool.not_eq_true', decide_eq_false_iff_not]
  constructor
  · rintro ⟨⟨hx, hy⟩, hn⟩
    rw [hd] at hn
    apply Classical.byContradiction
    intro h
    exact hn ⟨hx, hy, h⟩
  · rintro ⟨ci, hci⟩
    have := hwf.2 _ _ hci
    refine ⟨⟨this.1, this.2⟩, ?_⟩
    rw [hd]
    intro h
    exact h.2.2 ⟨ci, hci⟩

theorem buildMachine_link (si : SysInfo) (hwf : si.WF) (x y l : Nat) (hl : l < 6) :
    (buildMachine si).linkOk x y l = true ↔ ∃ ci, ((x, y), ci) ∈ si.chips ∧ l ∈ ci.links := by
  have hd := mem_deadLinks si x y l
  unfold PMachine.linkOk
  rw [Bool.and_eq_true, buildMachine_chip si hwf]
  simp only [buildMachine, Bool.not_eq_true', List.contains_eq_mem, decide_eq_false_iff_not]
  rw [hd]
  constructor
  · rintro ⟨⟨ci, hci⟩, hn⟩
    refine ⟨ci, hci, ?_⟩
    apply Classical.byContradiction
    intro h
    exact hn ⟨ci, hci, hl, h⟩
  · rintro ⟨ci, hci, hl'⟩
    refine ⟨⟨ci, hci⟩, ?_⟩
    rintro ⟨ci', hci', _, hn⟩
    rw [chips_unique si.chips hwf.1 (x, y) ci' ci hci' hci] at hn
    exact hn hl'

theorem lookup_exceptions_none (cond : ChipInfo → Bool) (xy : Nat × Nat)
    (t : List ((Nat × Nat) × ChipInfo)) (ht : ∀ e ∈ t, e.1 ≠ xy) :
    (t.filterMap fun (e : (Nat × Nat) × ChipInfo) =>
      if cond e.2 then some (e.1, (e.2.numCores, e.2.sdram, e.2.sram)) else none).lookup xy = none := by
  induction t with
  | nil => rfl
  | cons e' t' ih =>
    have hne := ht e' (by simp)
    have ht' := ih (fun e he => ht e (by simp [he]))
    have hb : (xy == e'.1) = false := by simpa using (Ne.symm hne)
    cases hc : cond e'.2
    · simp only [List.filterMap_cons, hc, Bool.false_eq_true, if_false]; exact ht'
    · simp only [List.filterMap_cons, hc, if_true, List.lookup, hb]; exact ht'

theorem lookup_exceptions (l : List ((Nat × Nat) × ChipInfo)) (hnd : (l.map (·.1)).Nodup)
    (cond : ChipInfo → Bool) (xy : Nat × Nat) (ci : ChipInfo) (h : (xy, ci) ∈ l) :
    (l.filterMap fun (e : (Nat × Nat) × ChipInfo) =>
        if cond e.2 then some (e.1, (e.2.numCores, e.2.sdram, e.2.sram)) else none).lookup xy =
      if cond ci then some (ci.numCores, ci.sdram, ci.sram) else none := by
  induction l with
  | nil => cases h
  | cons e t ih =>
    obtain ⟨k, v⟩ := e
    simp only [List.map_cons, List.nodup_cons] at hnd
    simp only [List.mem_cons, Prod.mk.injEq] at h
    rcases h with ⟨rfl, rfl⟩ | h
    · cases hc : cond ci
      · simp only [List.filterMap_cons, hc, Bool.false_eq_true, if_false]
        apply lookup_exceptions_none
        intro e he heq
        exact hnd.1 (List.mem_map.2 ⟨e, he, heq⟩)
      · simp [List.filterMap_cons, hc, List.lookup]
    · have hne : k ≠ xy := by
        intro heq
        exact hnd.1 (List.mem_map.2 ⟨(xy, ci), h, heq.symm⟩)
      have hbeq : (xy == k) = false := by simpa using (Ne.symm hne)
      cases hc : cond v
      · simp only [List.filterMap_cons, hc, Bool.false_eq_true, if_false]; exact ih hnd.2 h
      · simp only [List.filterMap_cons, hc, if_true, List.lookup, hbeq]; exact ih hnd.2 h

theorem buildMachine_resources (si : SysInfo) (hwf : si.WF) (xy : Nat × Nat) (ci : ChipInfo)
    (h : (xy, ci) ∈ si.chips) :
    (buildMachine si).resources xy = (ci.numCores, ci.sdram, ci.sram) := by
  unfold PMachine.resources
  simp only [buildMachine]
  have := lookup_exceptions si.chips hwf.1
    (fun ci => ci.numCores != maxList (si.chips.map (·.2.numCores)) || ci.sdram != maxList (si.chips.map (·.2.sdram))
      || ci.sram != maxList (si.chips.map (·.2.sram))) xy ci h
  rw [this]
  split
  · rfl
  · rename_i hc
    simp only [Bool.or_eq_true, bne_iff_ne, ne_eq, not_or, Decidable.not_not] at hc
    simp only [Option.getD_none, hc.1.1, hc.1.2, hc.2]

end Rig.C14
