/-
C08 helper lemmas: the model-only step `markSpare` (recording where the implementation's floating-point length
has a spare bit) preserves every invariant - it changes nothing but the `spare` flag.
-/
import RigModel.Lemmas.C08Complete
set_option linter.unusedSimpArgs false
set_option linter.unusedVariables false

namespace Rig.C08

section mapUpd
variable {f : Field → Field} (hl : ∀ fld, (f fld).length = fld.length) (hs : ∀ fld, (f fld).startAt = fld.startAt)
  (ht : ∀ fld, (f fld).tags = fld.tags) (hm : ∀ fld, (f fld).maxValue = fld.maxValue)

theorem mem_map_upd {es : List Entry} {x : Entry} (h : x ∈ es.map (Entry.upd f)) : ∃ y ∈ es, x = y.upd f := by
  obtain ⟨y, hy, rfl⟩ := List.mem_map.mp h
  exact ⟨y, hy, rfl⟩

include hl hs hm in
theorem inv_map_upd {st : State} (hinv : Inv st) : Inv { st with entries := st.entries.map (Entry.upd f) } := by
  refine ⟨?_, ?_, ?_, ?_, ?_, ?_⟩
  · exact List.pairwise_map.mpr (hinv.unique.imp fun h => h)
  · intro e he; obtain ⟨y, hy, rfl⟩ := mem_map_upd he; exact hinv.selfc y hy
  · refine List.pairwise_map.mpr (hinv.disjoint.imp ?_)
    intro a b hab hc l s l' s' h1 h2 h3 h4
    simp only [upd_field, hl, hs] at h1 h2 h3 h4
    exact hab hc l s l' s' h1 h2 h3 h4
  · intro e he l s h1 h2
    obtain ⟨y, hy, rfl⟩ := mem_map_upd he
    simp only [upd_field, hl, hs] at h1 h2
    exact hinv.inRange y hy l s h1 h2
  · intro e he l h1
    obtain ⟨y, hy, rfl⟩ := mem_map_upd he
    simp only [upd_field, hl, hm] at h1 ⊢
    exact hinv.wide y hy l h1
  · intro e he l h1
    obtain ⟨y, hy, rfl⟩ := mem_map_upd he
    simp only [upd_field, hl] at h1
    exact hinv.lenPos y hy l h1

theorem shape_map_upd (es : List Entry) : shape (es.map (Entry.upd f)) = shape es := by
  simp [shape, List.map_map, Function.comp]

include ht in
theorem inv2_map_upd {st : State} (h : Inv2 st) : Inv2 { st with entries := st.entries.map (Entry.upd f) } := by
  refine ⟨struct_of_shape_eq (shape_map_upd _) h.struct, ?_⟩
  intro e he p hp hv hen t htag
  obtain ⟨e0, he0, rfl⟩ := mem_map_upd he
  obtain ⟨p0, hp0, rfl⟩ := mem_map_upd hp
  simp only [upd_field, ht, upd_ident, upd_reqs, upd_enabled] at hv hen htag ⊢
  exact h.tagClosed e0 he0 p0 hp0 hv hen t htag

include hm in
theorem instOK_map_upd {es : List Entry} {fv : Reqs} (h : InstOK es fv) : InstOK (es.map (Entry.upd f)) fv := by
  intro iv hiv
  obtain ⟨e, he, h1, h2, h3⟩ := h iv hiv
  exact ⟨e.upd f, List.mem_map.mpr ⟨e, he, rfl⟩, h1, h2, by simp only [upd_field, hm]; exact h3⟩

end mapUpd

theorem markSpare_eq (g : Nat → Bool) (es : List Entry) :
    markSpare g es = es.map (Entry.upd fun f => { f with spare := g f.maxValue }) := rfl

theorem inv_markSpare {st : State} (g : Nat → Bool) (h : Inv st) :
    Inv { st with entries := markSpare g st.entries } := by
  rw [markSpare_eq]; exact inv_map_upd (f := fun f => { f with spare := g f.maxValue }) (fun _ => rfl) (fun _ => rfl) (fun _ => rfl) h

theorem inv2_markSpare {st : State} (g : Nat → Bool) (h : Inv2 st) :
    Inv2 { st with entries := markSpare g st.entries } := by
  rw [markSpare_eq]; exact inv2_map_upd (f := fun f => { f with spare := g f.maxValue }) (fun _ => rfl) h

theorem instOK_markSpare {es : List Entry} (g : Nat → Bool) {fv : Reqs} (h : InstOK es fv) :
    InstOK (markSpare g es) fv := by
  rw [markSpare_eq]; exact instOK_map_upd (f := fun f => { f with spare := g f.maxValue }) (fun _ => rfl) h

end Rig.C08
