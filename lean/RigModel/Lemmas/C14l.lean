/-
C14 - the `reservations_ok` oracle decides the full (all core numbers) partition property by a finite
check, and accepts the model's `build_core_constraints`.
-/
import RigModel.Lemmas.C14k
namespace Rig.C14
open Rig.Gen.C14
set_option linter.unusedSimpArgs false
set_option linter.unusedVariables false

theorem coverCount_beyond (rs : List Reservation) (xy : Nat × Nat) (p : Nat)
    (hp : maxList (rs.map (·.stop)) ≤ p) : coverCount rs xy p = 0 := by
  unfold coverCount
  rw [List.length_eq_zero_iff, List.filter_eq_nil_iff]
  intro r hr
  have := maxList_ge (rs.map (·.stop)) r.stop (List.mem_map.2 ⟨r, hr, rfl⟩)
  simp only [Bool.and_eq_true, decide_eq_true_eq, not_and]
  intro _ _
  omega

theorem busy_beyond (ci : ChipInfo) (p : Nat) (hp : ci.coreStates.length ≤ p) : busy ci p = false := by
  unfold busy
  rw [List.getElem?_eq_none hp]

theorem reservationsOk_iff (si : SysInfo) (rs : List Reservation)
    (h18 : ∀ xy ci, (xy, ci) ∈ si.chips → ci.coreStates.length ≤ 18) :
    reservationsOk si rs = true ↔
      (∀ r ∈ rs, ∀ c, r.chip = some c → si.has c = true) ∧
      (∀ xy ci, (xy, ci) ∈ si.chips → ∀ p, coverCount rs xy p = if busy ci p = true then 1 else 0) := by
  unfold reservationsOk
  simp only [Bool.and_eq_true, List.all_eq_true, List.mem_range, beq_iff_eq]
  constructor
  · rintro ⟨h1, h2⟩
    refine ⟨?_, ?_⟩
    · intro r hr c hc
      have := h1 r hr
      rw [hc] at this
      exact this
    · intro xy ci hmem p
      by_cases hp : p < maxList (rs.map (·.stop)) + 19
      · exact h2 (xy, ci) hmem p hp
      · have hlen := h18 xy ci hmem
        rw [coverCount_beyond rs xy p (by omega), busy_beyond ci p (by omega)]
        rfl
  · rintro ⟨h1, h2⟩
    refine ⟨?_, ?_⟩
    · intro r hr
      cases hc : r.chip with
      | none => rfl
      | some c => exact h1 r hr c hc
    · intro e he p _
      exact h2 e.1 e.2 he p

/-- the oracle accepts the model's reservations -/
theorem reservationsOk_sound (si : SysInfo) (hnd : (si.chips.map (·.1)).Nodup)
    (h18 : ∀ xy ci, (xy, ci) ∈ si.chips → ci.coreStates.length ≤ 18) :
    reservationsOk si (coreConstraints si) = true := by
  rw [reservationsOk_iff si _ h18]
  refine ⟨?_, fun xy ci h p => reservations_partition_lem si hnd h18 xy ci h p⟩
  intro r hr c hc
  exact (has_iff si c).2 (coreConstraints_chip si r hr c hc)

end Rig.C14
