/-
C03 - completeness of the strong-connectivity computation: the breadth-first closure with fuel `w*h + 1`
terminates with an empty frontier (every chip enters the frontier at most once), so its result is closed
under the successor function; hence if `stronglyConnected m` evaluates to false some pair of working chips
really is unreachable.
-/
import RigModel.Model.C03
import RigModel.Lemmas.C03Strong
set_option linter.unusedSimpArgs false
set_option linter.unusedVariables false
namespace Rig.C03.L
open Rig.C03 Rig.Gen.C03Links

theorem nodup_eraseDups : ∀ (n : Nat) (l : List Chip), l.length ≤ n → l.eraseDups.Nodup := by
  intro n
  induction n with
  | zero =>
    intro l hl
    have : l = [] := List.eq_nil_of_length_eq_zero (by omega)
    subst this; simp
  | succ n ih =>
    intro l hl
    cases l with
    | nil => simp
    | cons a as =>
      rw [List.eraseDups_cons, List.nodup_cons]
      refine ⟨?_, ih _ ?_⟩
      · intro hm
        rw [List.mem_eraseDups, List.mem_filter] at hm
        simp at hm
      · have := List.length_filter_le (fun b => !b == a) as
        simp only [List.length_cons] at hl
        omega

/-- **The closure computation is complete**: started with `front ⊆ seen`, all of `seen` either still in the
frontier or already expanded, and enough fuel, the result contains `seen` and is closed under `next`. -/
theorem closure_closed (next : Chip → List Chip) (m : Machine) (hr : ∀ c x, x ∈ next c → InRange m x) :
    ∀ (fuel : Nat) (front seen : List Chip), seen.Nodup → (∀ c, c ∈ seen → InRange m c) →
      (∀ c, c ∈ front → c ∈ seen) → (∀ c, c ∈ seen → c ∈ front ∨ ∀ x, x ∈ next c → x ∈ seen) →
      m.w * m.h + 1 + front.length ≤ fuel + seen.length →
      (∀ c, c ∈ seen → c ∈ closure next fuel front seen) ∧
      (∀ c, c ∈ closure next fuel front seen → ∀ x, x ∈ next c → x ∈ closure next fuel front seen) := by
  intro fuel
  induction fuel with
  | zero =>
    intro front seen hnd hin hfs hcl hf
    have hcard := inRange_card (m := m) seen hnd hin
    have : front = [] := List.eq_nil_of_length_eq_zero (by omega)
    subst this
    simp only [closure]
    refine ⟨fun c hc => hc, fun c hc x hx => ?_⟩
    rcases hcl c hc with h | h
    · simp at h
    · exact h x hx
  | succ n ih =>
    intro front seen hnd hin hfs hcl hf
    cases front with
    | nil =>
      simp only [closure]
      refine ⟨fun c hc => hc, fun c hc x hx => ?_⟩
      rcases hcl c hc with h | h
      · simp at h
      · exact h x hx
    | cons a fr =>
      simp only [closure]
      have hnew : ∀ x, x ∈ ((next a).eraseDups.filter fun n => !seen.contains n) ↔ x ∈ next a ∧ x ∉ seen := by
        intro x
        simp only [List.mem_filter, List.mem_eraseDups, Bool.not_eq_true', List.contains_eq_mem,
          decide_eq_false_iff_not]
      have h := ih (fr ++ ((next a).eraseDups.filter fun n => !seen.contains n))
        (seen ++ ((next a).eraseDups.filter fun n => !seen.contains n)) ?_ ?_ ?_ ?_ ?_
      · exact ⟨fun c hc => h.1 c (by simp [hc]), h.2⟩
      · rw [List.nodup_append]
        refine ⟨hnd, List.Nodup.filter _ (nodup_eraseDups _ _ (Nat.le_refl _)), ?_⟩
        intro x hx y hy hxy
        subst hxy
        exact ((hnew x).1 hy).2 hx
      · intro c hc
        simp only [List.mem_append] at hc
        rcases hc with hc | hc
        · exact hin c hc
        · exact hr a c ((hnew c).1 hc).1
      · intro c hc
        simp only [List.mem_append] at hc ⊢
        rcases hc with hc | hc
        · exact Or.inl (hfs c (by simp [hc]))
        · exact Or.inr hc
      · intro c hc
        simp only [List.mem_append] at hc
        rcases hc with hc | hc
        · rcases hcl c hc with h | h
          · simp only [List.mem_cons] at h
            rcases h with rfl | h
            · right
              intro x hx
              by_cases hxs : x ∈ seen
              · simp [hxs]
              · simp only [List.mem_append]; exact Or.inr ((hnew x).2 ⟨hx, hxs⟩)
            · left; simp [h]
          · right
            intro x hx
            exact List.mem_append.2 (Or.inl (h x hx))
        · exact Or.inl (List.mem_append.2 (Or.inr hc))
      · simp only [List.length_append, List.length_cons] at hf ⊢
        omega

theorem liveChips_ok {m : Machine} {c : Chip} (hc : c ∈ liveChips m) : chipOk m c = true := by
  simp only [liveChips, List.mem_flatMap, List.mem_range, List.mem_filterMap] at hc
  obtain ⟨x, _, y, _, h⟩ := hc
  split at h
  · rename_i hok
    simp only [Option.some.injEq] at h
    rw [← h]; exact hok
  · simp at h

theorem linkOrder_mem : ∀ l, l < 6 → l ∈ linkOrder := by decide

theorem succs_inRange {m : Machine} (c x : Chip) (hx : x ∈ succs m c) : InRange m x := by
  simp only [succs, List.mem_filterMap] at hx
  obtain ⟨l, _, hx⟩ := hx
  split at hx
  · rename_i hc
    simp only [Option.some.injEq] at hx
    subst hx
    simp only [Bool.and_eq_true] at hc
    exact chipOk_inRange hc.2
  · simp at hx

theorem preds_inRange {m : Machine} (c x : Chip) (hx : x ∈ preds m c) : InRange m x := by
  simp only [preds, List.mem_filterMap] at hx
  obtain ⟨l, _, hx⟩ := hx
  split at hx
  · rename_i hc
    simp only [Option.some.injEq] at hx
    subst hx
    simp only [Bool.and_eq_true] at hc
    exact chipOk_inRange (linkOk_chipOk hc.1.1)
  · simp at hx

/-- **The strong-connectivity oracle is complete**: if it evaluates to false, some working chip does not reach
some working chip over working links between working chips. -/
theorem stronglyConnected_complete (m : Machine) (hs : stronglyConnected m = false) :
    ∃ a b, chipOk m a = true ∧ chipOk m b = true ∧ ¬ Reach m a b := by
  unfold stronglyConnected at hs
  split at hs
  · simp at hs
  · rename_i c0 rest hlive
    have hc0 : chipOk m c0 = true := liveChips_ok (by rw [hlive]; simp)
    have hin0 := chipOk_inRange hc0
    have hfwd := closure_closed (succs m) m succs_inRange (m.w * m.h + 1) [c0] [c0] (by simp)
      (by intro c hc; simp at hc; subst hc; exact hin0) (fun c hc => hc) (fun c hc => Or.inl hc) (by simp)
    have hbwd := closure_closed (preds m) m preds_inRange (m.w * m.h + 1) [c0] [c0] (by simp)
      (by intro c hc; simp at hc; subst hc; exact hin0) (fun c hc => hc) (fun c hc => Or.inl hc) (by simp)
    -- everything reachable from c0 is in the forward closure
    have hF : ∀ x, Reach m c0 x → x ∈ closure (succs m) (m.w * m.h + 1) [c0] [c0] := by
      intro x hx
      induction hx with
      | refl => exact hfwd.1 c0 (by simp)
      | hop l hab hl hlk hck ih =>
        refine hfwd.2 _ ih _ ?_
        simp only [succs, List.mem_filterMap]
        exact ⟨l, linkOrder_mem l hl, by simp [hlk, hck]⟩
    -- everything that reaches a chip of the backward closure is in it
    have hB : ∀ x b, Reach m x b → b ∈ closure (preds m) (m.w * m.h + 1) [c0] [c0] →
        x ∈ closure (preds m) (m.w * m.h + 1) [c0] [c0] := by
      intro x b hx
      induction hx with
      | refl => exact fun h => h
      | hop l hab hl hlk hck ih =>
        rename_i b
        intro hb
        apply ih
        refine hbwd.2 _ hb _ ?_
        simp only [preds, List.mem_filterMap]
        have hback : step m (step m b l) (opp l) = b := by
          have := step_back m b (opp l) (opp_opp l hl).2 (chipOk_inRange (linkOk_chipOk hlk))
          rw [(opp_opp l hl).1] at this
          exact this
        exact ⟨l, linkOrder_mem l hl, by simp [hback, hlk, hck]⟩
    rw [Bool.eq_false_iff] at hs
    simp only [ne_eq, List.all_eq_true, Bool.and_eq_true, List.contains_iff_mem, not_forall] at hs
    obtain ⟨c, hc, hnot⟩ := hs
    have hcl : chipOk m c = true := liveChips_ok (by rw [hlive]; exact hc)
    by_cases h1 : c ∈ closure (succs m) (m.w * m.h + 1) [c0] [c0]
    · refine ⟨c, c0, hcl, hc0, ?_⟩
      intro hr
      exact hnot ⟨h1, hB c c0 hr (hbwd.1 c0 (by simp))⟩
    · exact ⟨c0, c, hc0, hcl, fun hr => h1 (hF c hr)⟩

end Rig.C03.L
