/-
C09 helper lemmas, part 3: the retry loop of `load_application` against the machine specification.
-/
import RigModel.Lemmas.C09Machine
import Mathlib.Data.List.Nodup
import Mathlib.Data.List.Perm.Subperm
set_option linter.unusedSimpArgs false
set_option linter.unusedVariables false

namespace Rig.C09
open Rig.Gen.Load Rig.Gen.Scp

/-- `u` is a part of the request for binary `a`: same file, a subset of its cores -/
def SubApp (u a : App) : Prop :=
  u.name = a.name ∧ u.image = a.image ∧ ∀ x y p, wants u x y p = true → wants a x y p = true

def SubList (unl apps : List App) : Prop := ∀ u ∈ unl, ∃ a ∈ apps, SubApp u a

/-- contract of `compress_flood_fill_regions` (property C12) on the maps the loop can produce:
core masks fit 18 bits and, on the chips of the machine, the pairs select exactly the targets -/
def CompressOK (mc : MCfg) (c : Ctl) (apps : List App) : Prop :=
  ∀ t, (∃ a ∈ apps, ∀ x y p, wantsT t x y p = true → wants a x y p = true) →
    (∀ rm ∈ c.compress t, rm.2 < 262144) ∧
    ∀ x y p, (x, y) ∈ mc.chips → p < 18 → selectsCore (c.compress t) x y p = wantsT t x y p

/-- documented domain of `load_application` -/
structure Valid (mc : MCfg) (c : Ctl) (apps : List App) : Prop where
  hb : 4 ≤ c.buf
  hb4 : 4 ∣ c.buf
  hbmax : c.buf ≤ 1024
  happ : c.appId < 256
  hv : ∀ x y, mc.vcpuBase x y < 4294967296
  himg : ∀ a ∈ apps, 4 ∣ a.image.length ∧ a.image.length ≤ 255 * c.buf
  hchips : mc.chips.Nodup
  hin : ∀ a ∈ apps, ∀ x y p, wants a x y p = true → (x, y) ∈ mc.chips ∧ p < 18
  hdisj : ∀ a ∈ apps, ∀ b ∈ apps, ∀ x y p, wants a x y p = true → wants b x y p = true → a = b
  hcomp : CompressOK mc c apps

/-- no core waits under this app id and no requested core waits at all -/
def PreClean (m0 : MState) (apps : List App) (appId : Nat) : Prop :=
  ∀ x y p, (m0.core x y p).state = stWait →
    (m0.core x y p).app ≠ appId ∧ ∀ a ∈ apps, wants a x y p = false

def ld (appId : Nat) (a : App) : Core := ⟨stWait, appId, a.image⟩

theorem nextNn_lt (n : Nat) : nextNn n * 2 < 256 := by unfold nextNn; split <;> omega

theorem blocks_lt (len buf : Nat) (hb : 0 < buf) (h : len ≤ 255 * buf) : (len + buf - 1) / buf < 256 := by
  rw [Nat.div_lt_iff_lt_mul hb]; omega

/-- effect of one flood fill on the cores -/
theorem floodFillOne_effect (mc : MCfg) (c : Ctl) (apps : List App) (hv : Valid mc c apps)
    (u a : App) (ha : a ∈ apps) (hu : SubApp u a) (s : Sim) :
    (floodFillOne mc c flagWait s u).m.fills = s.m.fills + 1 ∧
    ∀ x y p, (floodFillOne mc c flagWait s u).m.core x y p =
      if (!mc.missed s.m.fills x y && wants u x y p) = true then ld c.appId a else s.m.core x y p := by
  have hb0 : 0 < c.buf := by have := hv.hb; omega
  obtain ⟨hi4, hilen⟩ := hv.himg a ha
  rw [← hu.2.1] at hi4 hilen
  have hsub : ∃ a ∈ apps, ∀ x y p, wantsT u.targets x y p = true → wants a x y p = true :=
    ⟨a, ha, fun x y p h => hu.2.2 x y p h⟩
  obtain ⟨hmask, hsel⟩ := hv.hcomp u.targets hsub
  have hpid := nextNn_lt s.nn
  -- the requests decode to the packets of a well-formed fill
  have hhead : (fillHead c (nextNn s.nn * 2) u).map decode =
      .ffs (nextNn s.nn * 2) ((u.image.length + c.buf - 1) / c.buf) ::
        (c.compress u.targets).map (fun rm => Pkt.ffcs rm.1 rm.2) := by
    simp only [fillHead, List.map_cons, List.map_map]
    rw [decode_ffs _ _ hpid (blocks_lt _ _ hb0 hilen)]
    congr 1
    apply List.map_congr_left
    intro rm hrm
    exact decode_ffcs rm (hmask rm hrm)
  have htail : ∀ base, (fillTail c (nextNn s.nn * 2) base flagWait u).map decode =
      ffdPkts (nextNn s.nn * 2) c.buf u.image.length 0 base u.image ++ [.ffe (nextNn s.nn * 2) c.appId flagWait] := by
    intro base
    simp only [fillTail, List.map_append, List.map_cons, List.map_nil]
    rw [ffdReqs_decode _ _ hpid hv.hbmax _ 0 base u.image 255 rfl hilen,
      decode_ffe _ _ _ hpid hv.happ (by decide)]
  -- run them
  simp only [floodFillOne]
  have h1 := sendAll_m mc (fillHead c (nextNn s.nn * 2) u) { s with nn := nextNn s.nn }
  have h2 := readMem_m mc c.buf (sendAll mc { s with nn := nextNn s.nn } (fillHead c (nextNn s.nn * 2) u)) 255 255
    (svBase + offSdramSys) 4
  have h3 := sendAll_m mc (fillTail c (nextNn s.nn * 2)
    (leVal (readMem mc c.buf (sendAll mc { s with nn := nextNn s.nn } (fillHead c (nextNn s.nn * 2) u)) 255 255
      (svBase + offSdramSys) 4).2) flagWait u)
    (readMem mc c.buf (sendAll mc { s with nn := nextNn s.nn } (fillHead c (nextNn s.nn * 2) u)) 255 255
      (svBase + offSdramSys) 4).1
  rw [h3.1, h2.1, h1.1, hhead, htail, ← runP_append]
  have hrun := run_fill mc c.buf (nextNn s.nn * 2)
    (leVal (readMem mc c.buf (sendAll mc { s with nn := nextNn s.nn } (fillHead c (nextNn s.nn * 2) u)) 255 255
      (svBase + offSdramSys) 4).2) c.appId flagWait (c.compress u.targets) u.image hb0 hv.hb4 hi4 s.m []
    (fun m' => rfl)
  simp only [List.append_nil] at hrun
  refine ⟨hrun.1, fun x y p => ?_⟩
  rw [hrun.2 x y p]
  have hst : (if flagWait % 2 = 1 then stWait else stRun) = stWait := by decide
  rw [hst]
  by_cases hw : wants u x y p = true
  · obtain ⟨hc, hp⟩ := hv.hin a ha x y p (hu.2.2 x y p hw)
    have hcont : mc.chips.contains (x, y) = true := by simpa using hc
    rw [hsel x y p hc hp, ← wants_eq, hw, hcont]
    simp [hp, ld, hu.2.1]
  · have hw' : wants u x y p = false := by simpa using hw
    by_cases hc : (x, y) ∈ mc.chips ∧ p < 18
    · rw [hsel x y p hc.1 hc.2, ← wants_eq, hw']; simp
    · rw [hw']
      have h3 : (mc.chips.contains (x, y) && !mc.missed s.m.fills x y && decide (p < 18)) = false := by
        by_cases h1 : (x, y) ∈ mc.chips
        · have : ¬ p < 18 := fun h2 => hc ⟨h1, h2⟩
          simp [this]
        · simp [h1]
      have h4 : (mc.chips.contains (x, y) && !mc.missed s.m.fills x y && decide (p < 18) &&
          selectsCore (c.compress u.targets) x y p) = false := by rw [h3]; rfl
      rw [h4]; simp

/-- one step of the history of the machine during a load: every core is unchanged or is a
requested core that now holds its binary -/
def FillStep (apps : List App) (appId : Nat) (m m' : MState) : Prop :=
  ∀ x y p, m'.core x y p = m.core x y p ∨ ∃ a ∈ apps, wants a x y p = true ∧ m'.core x y p = ld appId a

theorem FillStep.refl (apps : List App) (appId : Nat) (m : MState) : FillStep apps appId m m :=
  fun _ _ _ => Or.inl rfl

theorem FillStep.trans {apps : List App} {appId : Nat} {m1 m2 m3 : MState}
    (h1 : FillStep apps appId m1 m2) (h2 : FillStep apps appId m2 m3) : FillStep apps appId m1 m3 := by
  intro x y p
  rcases h2 x y p with h | h
  · rw [h]; exact h1 x y p
  · exact Or.inr h

theorem floodFill_step (mc : MCfg) (c : Ctl) (apps : List App) (hv : Valid mc c apps) :
    ∀ (unl : List App), SubList unl apps → ∀ s : Sim,
      FillStep apps c.appId s.m (floodFill mc c true s unl).m := by
  intro unl
  induction unl with
  | nil => intro _ s; exact FillStep.refl _ _ _
  | cons u us ih =>
    intro hsub s
    obtain ⟨a, ha, hu⟩ := hsub u (by simp)
    have hstep : FillStep apps c.appId s.m (floodFillOne mc c flagWait s u).m := by
      intro x y p
      rw [(floodFillOne_effect mc c apps hv u a ha hu s).2 x y p]
      split
      · rename_i h
        simp only [Bool.and_eq_true] at h
        exact Or.inr ⟨a, ha, hu.2.2 x y p h.2, rfl⟩
      · exact Or.inl rfl
    have := ih (fun u' hu' => hsub u' (by simp [hu'])) (floodFillOne mc c flagWait s u)
    simp only [floodFill, List.foldl_cons, if_true] at this ⊢
    exact hstep.trans this

/-- invariant of the machine during a load that started in `m0` -/
def Inv (apps : List App) (appId : Nat) (m0 m : MState) : Prop :=
  (∀ x y p, (∀ a ∈ apps, wants a x y p = false) → m.core x y p = m0.core x y p) ∧
  (∀ a ∈ apps, ∀ x y p, wants a x y p = true → m.core x y p = ld appId a ∨ m.core x y p = m0.core x y p)

theorem Inv.step {mc : MCfg} {c : Ctl} {apps : List App} (hv : Valid mc c apps) {m0 m m' : MState}
    (hi : Inv apps c.appId m0 m) (hs : FillStep apps c.appId m m') : Inv apps c.appId m0 m' := by
  refine ⟨fun x y p hn => ?_, fun a ha x y p hw => ?_⟩
  · rcases hs x y p with h | ⟨a, ha, hw, _⟩
    · rw [h]; exact hi.1 x y p hn
    · rw [hn a ha] at hw; exact absurd hw (by simp)
  · rcases hs x y p with h | ⟨b, hb, hwb, h⟩
    · rw [h]; exact hi.2 a ha x y p hw
    · have := hv.hdisj a ha b hb x y p hw hwb
      subst this; exact Or.inl h

/-- loaded cores stay loaded -/
theorem FillStep.mono {mc : MCfg} {c : Ctl} {apps : List App} (hv : Valid mc c apps) {m m' : MState}
    (hs : FillStep apps c.appId m m') (a : App) (ha : a ∈ apps) (x y p : Nat) (hw : wants a x y p = true)
    (hl : m.core x y p = ld c.appId a) : m'.core x y p = ld c.appId a := by
  rcases hs x y p with h | ⟨b, hb, hwb, h⟩
  · rw [h]; exact hl
  · have := hv.hdisj a ha b hb x y p hw hwb
    subst this; exact h

/-- the unloaded map names exactly the requested cores that do not hold their binary -/
def Tracks (apps : List App) (appId : Nat) (m : MState) (unl : List App) : Prop :=
  ∀ a ∈ apps, ∀ x y p, wants a x y p = true →
    (m.core x y p ≠ ld appId a ↔ ∃ u ∈ unl, SubApp u a ∧ wants u x y p = true)

theorem mem_filtApps (core : Nat → Nat → Nat → Core) : ∀ (l : List App) (u' : App),
    u' ∈ filtApps core l ↔ ∃ u ∈ l, u' = { u with targets := filtTargets core u.targets } ∧
      (filtTargets core u.targets).length > 0 := by
  intro l
  induction l with
  | nil => intro u'; simp [filtApps]
  | cons a as ih =>
    intro u'
    simp only [filtApps]
    split
    · rename_i h
      simp only [List.mem_cons, ih]
      constructor
      · rintro (rfl | ⟨u, hu, h1, h2⟩)
        · exact ⟨a, Or.inl rfl, rfl, h⟩
        · exact ⟨u, Or.inr hu, h1, h2⟩
      · rintro ⟨u, (rfl | hu), h1, h2⟩
        · exact Or.inl h1
        · exact Or.inr ⟨u, hu, h1, h2⟩
    · rename_i h
      simp only [List.mem_cons, ih]
      constructor
      · rintro ⟨u, hu, h1, h2⟩; exact ⟨u, Or.inr hu, h1, h2⟩
      · rintro ⟨u, (rfl | hu), h1, h2⟩
        · exact absurd h2 h
        · exact ⟨u, hu, h1, h2⟩

theorem wantsT_nonempty (ts : List (Nat × Nat × List Nat)) (x y p : Nat) (h : wantsT ts x y p = true) :
    ts.length > 0 := by
  cases ts with
  | nil => simp [wantsT] at h
  | cons _ _ => simp

/-- the read-back pass re-establishes `Tracks` -/
theorem tracks_filt {mc : MCfg} {c : Ctl} {apps : List App} (hv : Valid mc c apps) {m0 m m' : MState}
    (hpre : PreClean m0 apps c.appId) (hi : Inv apps c.appId m0 m')
    (hs : FillStep apps c.appId m m') {unl : List App} (hsub : SubList unl apps)
    (ht : Tracks apps c.appId m unl) :
    SubList (filtApps m'.core unl) apps ∧ Tracks apps c.appId m' (filtApps m'.core unl) := by
  have hnw : ∀ a ∈ apps, ∀ x y p, wants a x y p = true →
      (m'.core x y p ≠ ld c.appId a ↔ notWaiting m'.core x y p = true) := by
    intro a ha x y p hw
    simp only [notWaiting, decide_eq_true_eq]
    rcases hi.2 a ha x y p hw with h | h
    · rw [h]; simp [ld]
    · rw [h]
      constructor
      · intro _ hst
        have := (hpre x y p hst).2 a ha
        rw [hw] at this; exact absurd this (by simp)
      · intro hst heq
        rw [heq] at hst; exact hst rfl
  constructor
  · intro u' hu'
    obtain ⟨u, hu, rfl, _⟩ := (mem_filtApps _ _ _).mp hu'
    obtain ⟨a, ha, hua⟩ := hsub u hu
    refine ⟨a, ha, hua.1, hua.2.1, fun x y p hw => hua.2.2 x y p ?_⟩
    rw [wants_eq] at hw ⊢
    simp only [wantsT_filt, Bool.and_eq_true] at hw
    exact hw.1
  · intro a ha x y p hw
    rw [hnw a ha x y p hw]
    constructor
    · intro hn
      have hne : m.core x y p ≠ ld c.appId a := by
        intro hl
        have := hs.mono hv a ha x y p hw hl
        exact ((hnw a ha x y p hw).mpr hn) this
      obtain ⟨u, hu, hua, hwu⟩ := (ht a ha x y p hw).mp hne
      have hw' : wantsT (filtTargets m'.core u.targets) x y p = true := by
        rw [wantsT_filt, ← wants_eq, hwu, hn]; rfl
      refine ⟨{ u with targets := filtTargets m'.core u.targets }, ?_, ⟨hua.1, hua.2.1, ?_⟩, hw'⟩
      · exact (mem_filtApps _ _ _).mpr ⟨u, hu, rfl, wantsT_nonempty _ _ _ _ hw'⟩
      · intro x' y' p' h
        apply hua.2.2
        rw [wants_eq] at h ⊢
        simp only [wantsT_filt, Bool.and_eq_true] at h
        exact h.1
    · rintro ⟨u', hu', _, hwu'⟩
      obtain ⟨u, hu, rfl, _⟩ := (mem_filtApps _ _ _).mp hu'
      rw [wants_eq] at hwu'
      simp only [wantsT_filt, Bool.and_eq_true] at hwu'
      exact hwu'.2

/-! ### the count shortcut -/

theorem mem_allCores (chips : List (Nat × Nat)) (x y p : Nat) :
    (x, y, p) ∈ allCores chips ↔ (x, y) ∈ chips ∧ p < 18 := by
  simp only [allCores, List.mem_flatMap, List.mem_map, List.mem_range, Prod.mk.injEq]
  constructor
  · rintro ⟨c, hc, q, hq, rfl, rfl, rfl⟩; exact ⟨hc, hq⟩
  · rintro ⟨hc, hp⟩; exact ⟨(x, y), hc, p, hp, rfl, rfl, rfl⟩

theorem allCores_nodup (chips : List (Nat × Nat)) (h : chips.Nodup) : (allCores chips).Nodup := by
  unfold allCores
  rw [List.nodup_flatMap]
  constructor
  · intro c _
    apply List.Nodup.map _ List.nodup_range
    intro p q hpq
    simp only [Prod.mk.injEq] at hpq
    exact hpq.2.2
  · refine List.Pairwise.imp ?_ h
    intro c d hcd
    simp only [Function.onFun]
    intro e he1 he2
    simp only [List.mem_map, List.mem_range] at he1 he2
    obtain ⟨p, _, rfl⟩ := he1
    obtain ⟨q, _, hq⟩ := he2
    simp only [Prod.mk.injEq] at hq
    exact hcd (Prod.ext hq.1.symm hq.2.1.symm)

def reqCores (apps : List App) : List (Nat × Nat × Nat) :=
  apps.flatMap fun a => a.targets.flatMap fun t => t.2.2.map fun p => (t.1, t.2.1, p)

theorem coreCount_eq (apps : List App) : coreCount apps = (reqCores apps).length := by
  simp only [coreCount, reqCores, List.length_flatMap, List.length_map]

theorem mem_reqCores (apps : List App) (x y p : Nat) :
    (x, y, p) ∈ reqCores apps ↔ ∃ a ∈ apps, wants a x y p = true := by
  simp only [reqCores, List.mem_flatMap, List.mem_map, Prod.mk.injEq, wants, List.any_eq_true,
    Bool.and_eq_true, beq_iff_eq, List.contains_iff_mem]
  constructor
  · rintro ⟨a, ha, t, ht, q, hq, rfl, rfl, rfl⟩; exact ⟨a, ha, t, ht, ⟨rfl, rfl⟩, hq⟩
  · rintro ⟨a, ha, t, ht, ⟨rfl, rfl⟩, hq⟩; exact ⟨a, ha, t, ht, p, hq, rfl, rfl, rfl⟩

/-- if as many cores wait under the app id as were requested, every requested core is loaded -/
theorem count_full {mc : MCfg} {c : Ctl} {apps : List App} (hv : Valid mc c apps) {m0 m : MState}
    (hpre : PreClean m0 apps c.appId) (hi : Inv apps c.appId m0 m)
    (hcnt : coreCount apps = (allCores mc.chips).countP
      fun k => matchesApp (m.core k.1 k.2.1 k.2.2) stWait c.appId) :
    ∀ a ∈ apps, ∀ x y p, wants a x y p = true → m.core x y p = ld c.appId a := by
  let P : Nat × Nat × Nat → Bool := fun k => matchesApp (m.core k.1 k.2.1 k.2.2) stWait c.appId
  have hsubset : (allCores mc.chips).filter P ⊆ (reqCores apps).filter P := by
    intro k hk
    obtain ⟨x, y, p⟩ := k
    rw [List.mem_filter] at hk ⊢
    refine ⟨?_, hk.2⟩
    rw [mem_reqCores]
    by_cases hex : ∃ a ∈ apps, wants a x y p = true
    · exact hex
    · exfalso
      have hn : ∀ a ∈ apps, wants a x y p = false := by
        intro a ha
        cases hw : wants a x y p with
        | false => rfl
        | true => exact absurd ⟨a, ha, hw⟩ hex
      have he := hi.1 x y p hn
      have hP : matchesApp (m.core x y p) stWait c.appId = true := hk.2
      rw [he] at hP
      simp only [matchesApp, Bool.and_eq_true, beq_iff_eq] at hP
      exact (hpre x y p hP.1).1 hP.2
  have hnd : ((allCores mc.chips).filter P).Nodup := (allCores_nodup _ hv.hchips).filter _
  have hle := (hnd.subperm hsubset).length_le
  have hcnt' : (reqCores apps).length = ((allCores mc.chips).filter P).length := by
    rw [← coreCount_eq, hcnt, List.countP_eq_length_filter]
  have hall : ((reqCores apps).filter P).length = (reqCores apps).length := by
    have := List.length_filter_le P (reqCores apps)
    omega
  rw [List.length_filter_eq_length_iff] at hall
  intro a ha x y p hw
  have hP : matchesApp (m.core x y p) stWait c.appId = true :=
    hall (x, y, p) ((mem_reqCores _ _ _ _).mpr ⟨a, ha, hw⟩)
  rcases hi.2 a ha x y p hw with h | h
  · exact h
  · exfalso
    rw [h] at hP
    simp only [matchesApp, Bool.and_eq_true, beq_iff_eq] at hP
    exact (hpre x y p hP.1).1 hP.2

end Rig.C09
