/-
C08 helper lemmas for the completeness clause (nested scopes, nothing positioned explicitly):
heights of sub-trees, the first-fit scan, one `_assign_fields` loop.
-/
import RigModel.Lemmas.C08Fixed
set_option linter.unusedSimpArgs false
set_option linter.unusedVariables false

namespace Rig.C08
open Rig.Gen.BitfieldConsts

/-! ### maxima and sums over filters -/

def lmax (l : List Nat) : Nat := l.foldl max 0

theorem foldl_max_spec (l : List Nat) : ∀ (m : Nat), m ≤ l.foldl max m ∧ (∀ x ∈ l, x ≤ l.foldl max m) ∧
    ∀ B, m ≤ B → (∀ x ∈ l, x ≤ B) → l.foldl max m ≤ B := by
  induction l with
  | nil => intro m; simp
  | cons y ys ih =>
    intro m
    simp only [List.foldl_cons]
    obtain ⟨h1, h2, h3⟩ := ih (max m y)
    refine ⟨by omega, ?_, ?_⟩
    · intro x hx
      rcases List.mem_cons.mp hx with rfl | hx
      · omega
      · exact h2 x hx
    · intro B hm hB
      exact h3 B (by have := hB y List.mem_cons_self; omega) (fun x hx => hB x (List.mem_cons_of_mem _ hx))

theorem le_lmax {l : List Nat} {x : Nat} (h : x ∈ l) : x ≤ lmax l := (foldl_max_spec l 0).2.1 x h

theorem lmax_le {l : List Nat} {B : Nat} (h : ∀ x ∈ l, x ≤ B) : lmax l ≤ B :=
  (foldl_max_spec l 0).2.2 B (Nat.zero_le _) h

theorem lmax_add_le {l : List Nat} {c B : Nat} (hc : c ≤ B) (h : ∀ x ∈ l, x + c ≤ B) : lmax l + c ≤ B := by
  have : lmax l ≤ B - c := lmax_le fun x hx => by have := h x hx; omega
  omega

theorem sum_filter_split {α : Type} (w : α → Nat) (A B C : α → Bool) (l : List α)
    (hA : ∀ x ∈ l, A x = true → C x = true) (hB : ∀ x ∈ l, B x = true → C x = true)
    (hAB : ∀ x ∈ l, ¬ (A x = true ∧ B x = true)) :
    ((l.filter A).map w).sum + ((l.filter B).map w).sum ≤ ((l.filter C).map w).sum := by
  induction l with
  | nil => simp
  | cons x xs ih =>
    have ih' := ih (fun y hy => hA y (List.mem_cons_of_mem _ hy)) (fun y hy => hB y (List.mem_cons_of_mem _ hy))
      (fun y hy => hAB y (List.mem_cons_of_mem _ hy))
    have a := hA x List.mem_cons_self
    have b := hB x List.mem_cons_self
    have c := hAB x List.mem_cons_self
    simp only [List.filter_cons]
    cases hAx : A x <;> cases hBx : B x <;> cases hCx : C x <;> simp_all <;> omega

theorem sum_filter_mono {α : Type} (w : α → Nat) (A C : α → Bool) (l : List α)
    (hA : ∀ x ∈ l, A x = true → C x = true) : ((l.filter A).map w).sum ≤ ((l.filter C).map w).sum := by
  have := sum_filter_split w A (fun _ => false) C l hA (by simp) (by simp)
  have hnil : (l.filter fun _ => false) = [] := List.filter_eq_nil_iff.mpr (by simp)
  rw [hnil] at this
  simpa using this

/-! ### heights: how many bits the leaf-first pass may use for a sub-tree -/

/-- (path, width) of every field -/
def skel (es : List Entry) : List (Path × Nat) := es.map fun e => (e.path, e.width)

/-- total width of the fields on the nodes from `p` down to `q` -/
def segSum (sk : List (Path × Nat)) (p q : Path) : Nat :=
  ((sk.filter fun x => p.isPrefixOf x.1 && x.1.isPrefixOf q).map (·.2)).sum

/-- the widest chain from node `p` to a node below it -/
def hgt (sk : List (Path × Nat)) (p : Path) : Nat :=
  lmax ((sk.filter fun x => p.isPrefixOf x.1).map fun x => segSum sk p x.1)

/-- the tallest sub-tree strictly below `p` -/
def below (sk : List (Path × Nat)) (p : Path) : Nat :=
  lmax ((sk.filter fun x => p.isPrefixOf x.1 && x.1 != p).map fun x => hgt sk x.1)

theorem isPrefixOf_iff {p q : Path} : p.isPrefixOf q = true ↔ p <+: q := List.isPrefixOf_iff_prefix

theorem hgt_le_below {sk : List (Path × Nat)} {p : Path} {x : Path × Nat} (hx : x ∈ sk) (h1 : p <+: x.1)
    (h2 : x.1 ≠ p) : hgt sk x.1 ≤ below sk p := by
  unfold below
  refine le_lmax (List.mem_map.mpr ⟨x, List.mem_filter.mpr ⟨hx, ?_⟩, rfl⟩)
  simp [isPrefixOf_iff.mpr h1, h2]

theorem segSum_le_hgt {sk : List (Path × Nat)} {p : Path} {x : Path × Nat} (hx : x ∈ sk) (h1 : p <+: x.1) :
    segSum sk p x.1 ≤ hgt sk p := by
  unfold hgt
  exact le_lmax (List.mem_map.mpr ⟨x, List.mem_filter.mpr ⟨hx, isPrefixOf_iff.mpr h1⟩, rfl⟩)

theorem below_add_node_le_hgt {sk : List (Path × Nat)} {p : Path} (hne : ∃ x ∈ sk, x.1 = p) :
    below sk p + segSum sk p p ≤ hgt sk p := by
  obtain ⟨x0, hx0, hx0p⟩ := hne
  have hc : segSum sk p p ≤ hgt sk p := by
    have := segSum_le_hgt (p := p) hx0 (by rw [hx0p]; exact List.prefix_refl _)
    rwa [hx0p] at this
  unfold below
  refine lmax_add_le hc ?_
  intro v hv
  simp only [List.mem_map, List.mem_filter, Bool.and_eq_true, bne_iff_ne, ne_eq] at hv
  obtain ⟨d, ⟨hd, hpd, hdne⟩, rfl⟩ := hv
  have hpd' := isPrefixOf_iff.mp hpd
  unfold hgt
  refine lmax_add_le hc ?_
  intro v hv
  simp only [List.mem_map, List.mem_filter] at hv
  obtain ⟨y, ⟨hy, hdy⟩, rfl⟩ := hv
  have hdy' := isPrefixOf_iff.mp hdy
  refine Nat.le_trans ?_ (segSum_le_hgt hy (hpd'.trans hdy'))
  unfold segSum
  refine sum_filter_split (·.2) _ _ _ sk ?_ ?_ ?_
  · intro x _ hA
    simp only [Bool.and_eq_true, isPrefixOf_iff] at hA ⊢
    exact ⟨hpd'.trans hA.1, hA.2⟩
  · intro x _ hB
    simp only [Bool.and_eq_true, isPrefixOf_iff] at hB ⊢
    exact ⟨hB.1, hB.2.trans (hpd'.trans hdy')⟩
  · intro x _ ⟨hA, hB⟩
    simp only [Bool.and_eq_true, isPrefixOf_iff] at hA hB
    have h1 : x.1 = p := hB.2.eq_of_length (Nat.le_antisymm hB.2.length_le hB.1.length_le)
    have h2 : d.1 = p := by
      have := hA.1; rw [h1] at this
      exact this.eq_of_length (Nat.le_antisymm this.length_le hpd'.length_le)
    exact hdne h2

theorem hgt_le_of_chains {sk : List (Path × Nat)} {L : Nat} (hc : ∀ x ∈ sk, segSum sk [] x.1 ≤ L) (p : Path) :
    hgt sk p ≤ L := by
  unfold hgt
  refine lmax_le ?_
  intro v hv
  simp only [List.mem_map, List.mem_filter] at hv
  obtain ⟨y, ⟨hy, _⟩, rfl⟩ := hv
  refine Nat.le_trans ?_ (hc y hy)
  unfold segSum
  refine sum_filter_mono (·.2) _ _ sk ?_
  intro x _ hA
  simp only [Bool.and_eq_true, isPrefixOf_iff] at hA ⊢
  exact ⟨List.nil_prefix, hA.2⟩

/-! ### the first-fit scan -/

/-- every set bit of `a` is below `m` -/
def Bounded (a m : Nat) : Prop := ∀ i, a.testBit i = true → i < m

theorem bounded_or {a m len b : Nat} (h : Bounded a m) (hb : b ≤ m) : Bounded (a ||| rangeMask len b) (m + len) := by
  intro i hi
  rw [Nat.testBit_or, Bool.or_eq_true] at hi
  rcases hi with hi | hi
  · have := h i hi; omega
  · rw [testBit_rangeMask] at hi
    simp only [Bool.and_eq_true, decide_eq_true_eq] at hi
    omega

/-- with the repaired scan bound, the scan finds a position at or below any bound of the used bits that leaves room -/
theorem firstFit_bounded (hs : SCAN_SLACK = 1) {L len a m : Nat} (h : Bounded a m) (hfit : m + len ≤ L) :
    ∃ b, firstFit L len a = some b ∧ b ≤ m := by
  have hfree : (a &&& rangeMask len m == 0) = true := by
    rw [beq_iff_eq, and_eq_zero_iff]
    intro i ⟨h1, h2⟩
    rw [testBit_rangeMask] at h2
    simp only [Bool.and_eq_true, decide_eq_true_eq] at h2
    have := h i h1; omega
  unfold firstFit
  rw [hs]
  rw [if_neg (by omega)]
  cases hf : (List.range (L + 1 - len)).find? fun b => a &&& rangeMask len b == 0 with
  | none =>
    rw [List.find?_eq_none] at hf
    exact absurd hfree (hf m (List.mem_range.mpr (by omega)))
  | some b =>
    refine ⟨b, rfl, ?_⟩
    have := (List.find?_range_eq_some.mp hf).2.2
    apply Nat.le_of_not_lt
    intro hlt
    have := this m hlt
    simp [hfree] at this

/-! ### one `_assign_fields` loop with positions -/

/-- width of the field that `get_field(i, fv)` returns -/
def wOf (es : List Entry) (fv : Reqs) (i : Ident) : Nat :=
  match getField es i fv with
  | some e => e.field.chosenLen
  | none => 0

theorem chosenLen_setPos (f : Field) (s : Nat) : (setPos f.chosenLen s f).chosenLen = f.chosenLen := rfl

theorem getField_modifyFirst_fwd {pm : Entry → Bool} {f : Field → Field} {j : Ident} {fv : Reqs} :
    ∀ {es : List Entry} {y : Entry}, getField es j fv = some y →
    ∃ y', getField (modifyFirst pm f es) j fv = some y' ∧ (y' = y ∨ (pm y = true ∧ y' = y.upd f)) := by
  intro es
  induction es with
  | nil => intro y h; simp [getField] at h
  | cons e es ih =>
    intro y h
    rw [modifyFirst_cons]
    unfold getField at h ih ⊢
    cases hm : (e.ident == j && e.enabled fv) with
    | true =>
      have hfind : List.find? (fun e => e.ident == j && e.enabled fv) (e :: es) = some e := by
        simp [List.find?_cons, hm]
      rw [hfind] at h; cases h
      split
      · rename_i hpe
        refine ⟨e.upd f, ?_, Or.inr ⟨hpe, rfl⟩⟩
        simp [List.find?_cons, hm]
      · exact ⟨e, by simp [List.find?_cons, hm], Or.inl rfl⟩
    | false =>
      have hfind : List.find? (fun e => e.ident == j && e.enabled fv) (e :: es) =
          List.find? (fun e => e.ident == j && e.enabled fv) es := by
        simp [List.find?_cons, hm]
      rw [hfind] at h
      split
      · exact ⟨y, by simp [List.find?_cons, hm, h], Or.inl rfl⟩
      · obtain ⟨y', hy', r⟩ := ih h
        exact ⟨y', by simp only [List.find?_cons, hm]; exact hy', r⟩

theorem modifyFirst_congr {pm : Entry → Bool} {f g : Field → Field} : ∀ {es : List Entry} {e : Entry},
    es.find? pm = some e → f e.field = g e.field → modifyFirst pm f es = modifyFirst pm g es := by
  intro es
  induction es with
  | nil => intro e h; simp at h
  | cons x xs ih =>
    intro e h hfg
    rw [modifyFirst_cons, modifyFirst_cons]
    cases hm : pm x with
    | true =>
      simp only [List.find?_cons, hm, Option.some.injEq] at h
      subst h
      simp only [if_true, Entry.upd, hfg]
    | false =>
      simp only [List.find?_cons, hm] at h
      simp only [Bool.false_eq_true, if_false, ih h hfg]

/-- an assignment keeps the width of every field -/
theorem wOf_modifyField (es : List Entry) (i : Ident) (fv : Reqs) (s : Nat) {e : Entry}
    (hg : getField es i fv = some e) (j : Ident) (fv' : Reqs) :
    wOf (modifyField es i fv (setPos e.field.chosenLen s)) fv' j = wOf es fv' j := by
  have hcongr : modifyField es i fv (setPos e.field.chosenLen s) =
      modifyField es i fv (fun fld => setPos fld.chosenLen s fld) :=
    modifyFirst_congr (g := fun fld => setPos fld.chosenLen s fld) hg rfl
  rw [hcongr]
  unfold wOf
  cases hj : getField es j fv' with
  | none =>
    cases hj' : getField (modifyField es i fv (fun fld => setPos fld.chosenLen s fld)) j fv' with
    | none => rfl
    | some y' =>
      obtain ⟨y, hy, _⟩ := getField_modifyFirst hj'
      rw [hj] at hy; cases hy
  | some y =>
    obtain ⟨y', hy', r⟩ := getField_modifyFirst_fwd (pm := fun e => e.ident == i && e.enabled fv)
      (f := fun fld => setPos fld.chosenLen s fld) hj
    unfold modifyField
    rw [hy']
    rcases r with rfl | ⟨_, rfl⟩ <;> rfl

/-- **one loop of the leaf-first pass succeeds** when the bits in use are below `m` and `m` plus the widths of the
node's fields fits; every field it positions ends at or below that sum -/
theorem loop_fits (hs : SCAN_SLACK = 1) {p : Path} : ∀ (ids : List Ident) (st : State) (a m : Nat),
    Inv st → Covers st.entries a p.flatten → (∀ i ∈ ids, HasNodeField st.entries p i) →
    Bounded a m → m + (ids.map (wOf st.entries p.flatten)).sum ≤ st.length →
    (∀ i ∈ ids, ∃ e, getField st.entries i p.flatten = some e ∧ (e.field.isFixed = true ∨ e.field.startAt = none)) →
    (assignLoopP true p.flatten ids st a).2 = none ∧
    ∀ e' ∈ (assignLoopP true p.flatten ids st a).1.entries, e' ∈ st.entries ∨
      (e'.path = p ∧ ∃ l s, e'.field.length = some l ∧ e'.field.startAt = some s ∧
        s + l ≤ m + (ids.map (wOf st.entries p.flatten)).sum) := by
  intro ids
  induction ids with
  | nil => intro st a m _ _ _ _ _ _; exact ⟨rfl, fun e' he' => Or.inl he'⟩
  | cons i is ih =>
    intro st a m hinv hcov hnodes hb hsum hpre
    obtain ⟨e, hg, hstate⟩ := hpre i List.mem_cons_self
    have hw : wOf st.entries p.flatten i = e.field.chosenLen := by simp [wOf, hg]
    simp only [List.map_cons, List.sum_cons, hw] at hsum ⊢
    have hrest_nodes : ∀ j ∈ is, HasNodeField st.entries p j := fun j hj => hnodes j (List.mem_cons_of_mem _ hj)
    have hrest_pre : ∀ j ∈ is, ∃ e, getField st.entries j p.flatten = some e ∧
        (e.field.isFixed = true ∨ e.field.startAt = none) := fun j hj => hpre j (List.mem_cons_of_mem _ hj)
    unfold assignLoopP
    simp only [hg]
    by_cases hfix : e.field.isFixed = true
    · simp only [hfix, if_true]
      obtain ⟨h1, h2⟩ := ih st a m hinv hcov hrest_nodes hb (by omega) hrest_pre
      refine ⟨h1, fun e' he' => ?_⟩
      rcases h2 e' he' with h | ⟨hp', l, s, hl, hs', hle⟩
      · exact Or.inl h
      · exact Or.inr ⟨hp', l, s, hl, hs', by omega⟩
    · have hnone : e.field.startAt = none := hstate.resolve_left hfix
      simp only [hfix, Bool.true_or, if_true, Bool.false_eq_true, if_false]
      obtain ⟨b, hff, hbm⟩ := firstFit_bounded hs hb (by omega : m + e.field.chosenLen ≤ st.length)
      have hasg : assignField st a i p.flatten =
          .ok ({ st with entries := modifyField st.entries i p.flatten (setPos e.field.chosenLen b) },
            a ||| rangeMask e.field.chosenLen b) := by
        unfold assignField
        simp only [hg, hnone, hff]
        rw [if_pos (by omega)]
        rfl
      simp only [hasg]
      obtain ⟨hinv', hcov', hlen', hshape⟩ := assignField_spec hinv hcov (hnodes i List.mem_cons_self) hasg
      have hmap : is.map (wOf (modifyField st.entries i p.flatten (setPos e.field.chosenLen b)) p.flatten) =
          is.map (wOf st.entries p.flatten) :=
        List.map_congr_left (fun j _ => wOf_modifyField _ _ _ _ hg j _)
      have hpre' : ∀ j ∈ is, ∃ e'', getField (modifyField st.entries i p.flatten (setPos e.field.chosenLen b)) j p.flatten
          = some e'' ∧ (e''.field.isFixed = true ∨ e''.field.startAt = none) := by
        intro j hj
        obtain ⟨ej, hgj, hsj⟩ := hrest_pre j hj
        obtain ⟨y', hy', r⟩ := getField_modifyFirst_fwd (pm := fun e => e.ident == i && e.enabled p.flatten)
          (f := setPos e.field.chosenLen b) hgj
        refine ⟨y', hy', ?_⟩
        rcases r with rfl | ⟨_, rfl⟩
        · exact hsj
        · exact Or.inl rfl
      obtain ⟨h1, h2⟩ := ih _ (a ||| rangeMask e.field.chosenLen b) (m + e.field.chosenLen) hinv' hcov'
        (fun j hj => hshape p j (hrest_nodes j hj)) (bounded_or hb hbm)
        (by rw [hmap]; show _ ≤ st.length; omega) hpre'
      refine ⟨h1, fun e' he' => ?_⟩
      rcases h2 e' he' with h | ⟨hp', l, s, hl, hs', hle⟩
      · rcases mem_modifyFirst h with h0 | ⟨y, hy, hpy, rfl⟩
        · exact Or.inl h0
        · right
          obtain ⟨y0, hy0, hy0p, hy0i⟩ := hnodes i List.mem_cons_self
          simp only [Bool.and_eq_true, beq_iff_eq] at hpy
          have hreq0 : y0.reqs = p.flatten := by simp [Entry.reqs, hy0p]
          have : y = y0 := reqs_of_enabled_same_ident hinv.unique hy hy0 (hinv.selfc y0 hy0)
            (hpy.1.trans hy0i.symm) (hreq0 ▸ hpy.2)
          exact ⟨by rw [upd_path, this, hy0p], e.field.chosenLen, b, rfl, rfl, by omega⟩
      · exact Or.inr ⟨hp', l, s, hl, hs', by rw [hmap] at hle; omega⟩

end Rig.C08
