/-
C16 - lemmas about the rounding functions of the model (`rne`, `bitLen`, `round53`): the
round-to-nearest-even specification of `rne`, its uniqueness, symmetry and monotonicity, the binade
facts of `bitLen` that make `round53` "nearest with 53 significant bits", and the value of
`float(2^n - 1)` for every n (the float bound of the deprecated converters).
-/
import Mathlib.Tactic.Linarith
import Mathlib.Tactic.Positivity
import Mathlib.Tactic.Ring
import Mathlib.Algebra.Order.Field.Power
import RigModel.Model.C16
set_option linter.unusedSimpArgs false
set_option linter.unusedVariables false

namespace Rig.C16

theorem rne_zero (k : Int) : rne k 0 = k := by
  unfold rne; simp

/-! ### `rne`: nearest multiple of `2^s`, ties to even -/

/-- `q` is `n / d` rounded to the nearest integer, ties to even (relational form, `d > 0`) -/
def IsRne (n d q : Int) : Prop :=
  -d ≤ 2 * (n - q * d) ∧ 2 * (n - q * d) ≤ d ∧
    ((2 * (n - q * d) = d ∨ 2 * (n - q * d) = -d) → q % 2 = 0)

theorem rne_isRne (n : Int) (s : Nat) : IsRne n (2 ^ s) (rne n s) := by
  have hd : (0 : Int) < 2 ^ s := by positivity
  unfold rne IsRne
  simp only
  generalize (2 : Int) ^ s = d at hd ⊢
  have h := Int.ediv_mul_add_emod n d
  have h0 := Int.emod_nonneg n (show d ≠ 0 by omega)
  have h1 := Int.emod_lt_of_pos n hd
  generalize n / d = q at h ⊢
  generalize n % d = r at h h0 h1 ⊢
  have e1 : (q + 1) * d = q * d + d := by ring
  split
  · refine ⟨by omega, by omega, ?_⟩
    intro hh; omega
  · split
    · rw [e1]
      refine ⟨by omega, by omega, ?_⟩
      intro hh; omega
    · split
      · rename_i he
        refine ⟨by omega, by omega, fun _ => he⟩
      · rename_i he
        rw [e1]
        refine ⟨by omega, by omega, fun _ => by omega⟩

/-- the specification determines the result -/
theorem isRne_unique {n d q q' : Int} (hd : 0 < d) (h : IsRne n d q) (h' : IsRne n d q') : q = q' := by
  obtain ⟨a1, a2, a3⟩ := h
  obtain ⟨b1, b2, b3⟩ := h'
  rcases lt_trichotomy q q' with hlt | heq | hgt
  · exfalso
    have : (q + 1) * d ≤ q' * d := Int.mul_le_mul_of_nonneg_right (by omega) (by omega)
    have e1 : (q + 1) * d = q * d + d := by ring
    have t1 : 2 * (n - q * d) = d := by omega
    have t2 : 2 * (n - q' * d) = -d := by omega
    have := a3 (Or.inl t1)
    have := b3 (Or.inr t2)
    have : q' * d = (q + 1) * d := by omega
    have : q' = q + 1 := Int.eq_of_mul_eq_mul_right (by omega) this
    omega
  · exact heq
  · exfalso
    have : (q' + 1) * d ≤ q * d := Int.mul_le_mul_of_nonneg_right (by omega) (by omega)
    have e1 : (q' + 1) * d = q' * d + d := by ring
    have t1 : 2 * (n - q' * d) = d := by omega
    have t2 : 2 * (n - q * d) = -d := by omega
    have := b3 (Or.inl t1)
    have := a3 (Or.inr t2)
    have : q * d = (q' + 1) * d := by omega
    have : q = q' + 1 := Int.eq_of_mul_eq_mul_right (by omega) this
    omega

/-- rounding is monotone (same spacing) -/
theorem isRne_mono {n n' d q q' : Int} (hd : 0 < d) (hn : n ≤ n') (h : IsRne n d q) (h' : IsRne n' d q') :
    q ≤ q' := by
  obtain ⟨a1, a2, a3⟩ := h
  obtain ⟨b1, b2, b3⟩ := h'
  by_contra hc
  have : (q' + 1) * d ≤ q * d := Int.mul_le_mul_of_nonneg_right (by omega) (by omega)
  have e1 : (q' + 1) * d = q' * d + d := by ring
  have t1 : 2 * (n' - q' * d) = d := by omega
  have t2 : 2 * (n - q * d) = -d := by omega
  have := b3 (Or.inl t1)
  have := a3 (Or.inr t2)
  have : q * d = (q' + 1) * d := by omega
  have : q = q' + 1 := Int.eq_of_mul_eq_mul_right (by omega) this
  omega

theorem isRne_neg {n d q : Int} (h : IsRne n d q) : IsRne (-n) d (-q) := by
  obtain ⟨a1, a2, a3⟩ := h
  have e : -q * d = -(q * d) := by ring
  unfold IsRne
  rw [e]
  refine ⟨by omega, by omega, ?_⟩
  intro hh
  have := a3 (by omega)
  omega

/-- a multiple of the spacing is its own rounding -/
theorem isRne_grid (t d : Int) (hd : 0 < d) : IsRne (t * d) d t := by
  unfold IsRne
  refine ⟨by omega, by omega, ?_⟩
  intro hh; omega

theorem rne_neg (n : Int) (s : Nat) : rne (-n) s = -rne n s :=
  isRne_unique (by positivity) (rne_isRne (-n) s) (isRne_neg (rne_isRne n s))

theorem rne_mono (n n' : Int) (s : Nat) (h : n ≤ n') : rne n s ≤ rne n' s :=
  isRne_mono (by positivity) h (rne_isRne n s) (rne_isRne n' s)

theorem rne_grid (t : Int) (s : Nat) : rne (t * 2 ^ s) s = t :=
  isRne_unique (by positivity) (rne_isRne _ s) (isRne_grid t _ (by positivity))

/-- **nearest:** no multiple of the spacing is closer -/
theorem isRne_nearest {n d q : Int} (hd : 0 < d) (h : IsRne n d q) (t : Int) :
    |n - q * d| ≤ |n - t * d| := by
  obtain ⟨a1, a2, _⟩ := h
  rcases lt_trichotomy t q with hlt | heq | hgt
  · have : (t + 1) * d ≤ q * d := Int.mul_le_mul_of_nonneg_right (by omega) (by omega)
    have e1 : (t + 1) * d = t * d + d := by ring
    rw [abs_le]; constructor
    · have := le_abs_self (n - t * d); omega
    · have := le_abs_self (n - t * d); omega
  · rw [heq]
  · have : (q + 1) * d ≤ t * d := Int.mul_le_mul_of_nonneg_right (by omega) (by omega)
    have e1 : (q + 1) * d = q * d + d := by ring
    rw [abs_le]; constructor
    · have := neg_abs_le (n - t * d); omega
    · have := neg_abs_le (n - t * d); omega

/-- **ties to even:** another multiple at the same distance means the chosen one is even -/
theorem isRne_tie {n d q : Int} (hd : 0 < d) (h : IsRne n d q) (t : Int) (ht : t ≠ q)
    (heq : |n - t * d| = |n - q * d|) : q % 2 = 0 := by
  obtain ⟨a1, a2, a3⟩ := h
  apply a3
  rcases lt_or_gt_of_ne ht with hlt | hgt
  · have : (t + 1) * d ≤ q * d := Int.mul_le_mul_of_nonneg_right (by omega) (by omega)
    have e1 : (t + 1) * d = t * d + d := by ring
    have h1 : |n - t * d| = n - t * d := abs_of_nonneg (by omega)
    rcases abs_cases (n - q * d) with ⟨h2, _⟩ | ⟨h2, _⟩ <;> omega
  · have : (q + 1) * d ≤ t * d := Int.mul_le_mul_of_nonneg_right (by omega) (by omega)
    have e1 : (q + 1) * d = q * d + d := by ring
    have h1 : |n - t * d| = -(n - t * d) := abs_of_nonpos (by omega)
    rcases abs_cases (n - q * d) with ⟨h2, _⟩ | ⟨h2, _⟩ <;> omega

/-! ### `bitLen` -/

theorem lt_pow_bitLen (n : Nat) : n < 2 ^ bitLen n := by
  unfold bitLen
  split
  · omega
  · exact Nat.lt_log2_self

theorem pow_bitLen_le (n : Nat) (h : n ≠ 0) : 2 ^ (bitLen n - 1) ≤ n := by
  unfold bitLen
  rw [if_neg h]
  exact Nat.log2_self_le h

/-- `bitLen n` is the least `b` with `n < 2^b` -/
theorem bitLen_le_of_lt_pow {n b : Nat} (h : n < 2 ^ b) : bitLen n ≤ b := by
  unfold bitLen
  split
  · omega
  · rename_i h0
    have := (Nat.log2_lt h0).mpr h
    omega

theorem bitLen_mono {a b : Nat} (h : a ≤ b) : bitLen a ≤ bitLen b :=
  bitLen_le_of_lt_pow (Nat.lt_of_le_of_lt h (lt_pow_bitLen b))

/-! ### `round53` -/

/-- the exponent `round53` chooses: `bitLen |k| - 53` (0 up to 53 bits) -/
def ulpExp (k : Int) : Nat := bitLen k.natAbs - 53

theorem round53_m (k : Int) : (round53 k).m = rne k (ulpExp k) := rfl
theorem round53_e (k : Int) : (round53 k).e = (ulpExp k : Int) := rfl

theorem round53Val_eq (k : Int) : round53Val k = rne k (ulpExp k) * 2 ^ ulpExp k := by
  unfold round53Val
  rw [round53_m, round53_e, Int.toNat_natCast]

theorem ulpExp_neg (k : Int) : ulpExp (-k) = ulpExp k := by
  unfold ulpExp; rw [Int.natAbs_neg]

theorem round53Val_neg (k : Int) : round53Val (-k) = -round53Val k := by
  rw [round53Val_eq, round53Val_eq, ulpExp_neg, rne_neg]; ring

theorem rne_zero_left (s : Nat) : rne 0 s = 0 := by
  have := rne_grid 0 s
  simpa using this

theorem round53Val_nonneg {k : Int} (h : 0 ≤ k) : 0 ≤ round53Val k := by
  rw [round53Val_eq]
  have := rne_mono 0 k (ulpExp k) h
  rw [rne_zero_left] at this
  positivity

/-- grid sandwich: a multiple of the spacing below `n` stays below the rounding -/
theorem rne_ge_of_grid_le {n t : Int} {s : Nat} (h : t * 2 ^ s ≤ n) : t ≤ rne n s := by
  have := rne_mono _ _ s h
  rwa [rne_grid] at this

theorem rne_le_of_grid_ge {n t : Int} {s : Nat} (h : n ≤ t * 2 ^ s) : rne n s ≤ t := by
  have := rne_mono _ _ s h
  rwa [rne_grid] at this

theorem natAbs_lt_pow (k : Int) : |k| < 2 ^ bitLen k.natAbs := by
  have := lt_pow_bitLen k.natAbs
  rw [Int.abs_eq_natAbs]
  exact_mod_cast this

theorem pow_le_natAbs (k : Int) (h : k ≠ 0) : (2 : Int) ^ (bitLen k.natAbs - 1) ≤ |k| := by
  have := pow_bitLen_le k.natAbs (by omega)
  rw [Int.abs_eq_natAbs]
  exact_mod_cast this

/-- when rounding happens (`ulpExp k > 0`) the binade of `k` is `[2^(s+52), 2^(s+53))` -/
theorem binade (k : Int) (hs : 0 < ulpExp k) :
    (2 : Int) ^ 52 * 2 ^ ulpExp k ≤ |k| ∧ |k| < 2 ^ 53 * 2 ^ ulpExp k := by
  have hL : bitLen k.natAbs = ulpExp k + 53 := by unfold ulpExp at hs ⊢; omega
  have hk : k ≠ 0 := by
    rintro rfl
    unfold ulpExp bitLen at hs; simp at hs
  have h1 := pow_le_natAbs k hk
  have h2 := natAbs_lt_pow k
  rw [hL] at h1 h2
  have e1 : ulpExp k + 53 - 1 = 52 + ulpExp k := by omega
  rw [e1, pow_add] at h1
  rw [show ulpExp k + 53 = 53 + ulpExp k by omega, pow_add] at h2
  exact ⟨h1, h2⟩

theorem small_of_ulpExp_zero (k : Int) (hs : ulpExp k = 0) : |k| < 2 ^ 53 := by
  have h2 := natAbs_lt_pow k
  have : bitLen k.natAbs ≤ 53 := by unfold ulpExp at hs; omega
  calc |k| < 2 ^ bitLen k.natAbs := h2
    _ ≤ 2 ^ 53 := pow_le_pow_right₀ (by norm_num) this

/-- the significand `round53` produces has at most 53 bits (`2^53` only by carry) -/
theorem round53_m_le (k : Int) : |(round53 k).m| ≤ 2 ^ 53 := by
  rw [round53_m]
  rcases Nat.eq_zero_or_pos (ulpExp k) with hs | hs
  · rw [hs, rne_zero]
    exact le_of_lt (small_of_ulpExp_zero k hs)
  · obtain ⟨_, h2⟩ := binade k hs
    have ha := abs_lt.mp h2
    rw [abs_le]; constructor
    · apply rne_ge_of_grid_le
      have : -(2:Int) ^ 53 * 2 ^ ulpExp k = -(2 ^ 53 * 2 ^ ulpExp k) := by ring
      omega
    · apply rne_le_of_grid_ge; omega

/-- ... and at least 53 bits when rounding happens: `2^ulpExp k` is the ulp of `k`'s binade -/
theorem round53_m_ge (k : Int) (hs : 0 < ulpExp k) : 2 ^ 52 ≤ |(round53 k).m| := by
  rw [round53_m]
  obtain ⟨h1, _⟩ := binade k hs
  rcases le_or_gt 0 k with hk | hk
  · rw [abs_of_nonneg hk] at h1
    have := rne_ge_of_grid_le h1
    rw [abs_of_nonneg (by omega)]; exact this
  · rw [abs_of_neg hk] at h1
    have : rne k (ulpExp k) ≤ -2 ^ 52 := by
      apply rne_le_of_grid_ge
      have : -(2:Int) ^ 52 * 2 ^ ulpExp k = -(2 ^ 52 * 2 ^ ulpExp k) := by ring
      omega
    rw [abs_of_nonpos (by omega)]; omega

/-- a multiple of the ulp is exact -/
theorem round53Val_of_dvd (k : Int) (h : (2 : Int) ^ ulpExp k ∣ k) : round53Val k = k := by
  obtain ⟨t, ht⟩ := h
  rw [round53Val_eq]
  generalize ulpExp k = s at *
  have : k = t * 2 ^ s := by rw [ht]; ring
  rw [this, rne_grid]


/-! ### `float(2^n - 1)`, for every n -/

theorem bitLen_eq {m n : Nat} (hn : 0 < n) (h1 : 2 ^ (n - 1) ≤ m) (h2 : m < 2 ^ n) : bitLen m = n := by
  apply Nat.le_antisymm (bitLen_le_of_lt_pow h2)
  have : 2 ^ (n - 1) < 2 ^ bitLen m := Nat.lt_of_le_of_lt h1 (lt_pow_bitLen m)
  have := (Nat.pow_lt_pow_iff_right (by norm_num : 1 < 2)).mp this
  omega

theorem ulpExp_pow_pred (n : Nat) : ulpExp (2 ^ n - 1) = n - 53 := by
  unfold ulpExp
  have hp : (1 : Nat) ≤ 2 ^ n := Nat.one_le_two_pow
  have e : ((2 : Int) ^ n - 1).natAbs = 2 ^ n - 1 := by
    have : ((2 : Int) ^ n - 1) = ((2 ^ n - 1 : Nat) : Int) := by
      rw [Nat.cast_sub hp]; simp
    rw [this, Int.natAbs_natCast]
  rw [e]
  rcases Nat.eq_zero_or_pos n with h0 | h0
  · subst h0; simp [bitLen]
  · rw [bitLen_eq h0 _ (by omega)]
    have : 2 ^ n = 2 * 2 ^ (n - 1) := by
      rw [← Nat.pow_succ']; congr 1; omega
    omega

/-- up to 53 bits `2^n - 1` is exact; beyond, it rounds up to `2^n` -/
theorem round53Val_pow_pred (n : Nat) :
    round53Val (2 ^ n - 1) = if n ≤ 53 then 2 ^ n - 1 else 2 ^ n := by
  split
  · rename_i h
    apply round53Val_of_dvd
    rw [ulpExp_pow_pred, show n - 53 = 0 by omega]; simp
  · rename_i h
    rw [round53Val_eq, ulpExp_pow_pred]
    have hs : 1 ≤ n - 53 := by omega
    have e2 : (2 : Int) ^ n = 2 ^ 53 * 2 ^ (n - 53) := by rw [← pow_add]; congr 1; omega
    have hd : (2 : Int) ≤ 2 ^ (n - 53) := by
      calc (2 : Int) = 2 ^ 1 := by norm_num
        _ ≤ 2 ^ (n - 53) := pow_le_pow_right₀ (by norm_num) hs
    have : rne (2 ^ n - 1) (n - 53) = 2 ^ 53 := by
      apply isRne_unique (by positivity) (rne_isRne _ _)
      unfold IsRne
      rw [e2]
      refine ⟨by omega, by omega, fun _ => by norm_num⟩
    rw [this, e2]

end Rig.C16
