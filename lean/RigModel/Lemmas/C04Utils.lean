/-
C04 (deepening) - `utils.table_is_subset_of` / `expand_entries` / `get_common_xs` versus the
first-match semantics.
-/
import RigModel.Model.C04U
import RigModel.Lemmas.C04Top
import RigModel.Lemmas.C04Brute
set_option linter.unusedSimpArgs false
set_option linter.unusedVariables false

namespace Rig.C04

/-! ### bits -/

theorem bitW_get (b i : Nat) (hi : i < 32) : (bitW b).getLsbD i = decide (i = b) := by
  rw [bitW, getLsbD_bit]; simp [hi]

theorem xsOf_bit (I : W) (e : Entry) (i : Nat) :
    (xsOf I e).getLsbD i = (decide (i < 32) && !e.key.getLsbD i && !e.mask.getLsbD i && !I.getLsbD i) := by
  simp only [xsOf, BitVec.getLsbD_and, BitVec.getLsbD_not]
  by_cases hi : i < 32 <;> simp [hi]

theorem getLsbD_ge (x : W) (i : Nat) (hi : ¬ i < 32) : x.getLsbD i = false :=
  BitVec.getLsbD_of_ge x i (by omega)

/-- an entry that matches a key matches its own key (it is well formed) -/
theorem matches_key {e : Entry} {k : W} (h : e.matches k = true) : e.matches e.key = true := by
  rw [matches_iff] at h ⊢
  rw [← h, BitVec.and_assoc, BitVec.and_self]

theorem wf_matches_key {e : Entry} (h : e.key &&& ~~~e.mask = 0) : e.matches e.key = true := by
  rw [matches_iff]
  apply BitVec.eq_of_getLsbD_eq
  intro i hi
  have := congrArg (fun x => x.getLsbD i) h
  simp only [BitVec.getLsbD_and, BitVec.getLsbD_not, hi, decide_true, Bool.true_and, BitVec.getLsbD_zero] at this ⊢
  cases hk : e.key.getLsbD i <;> cases hm : e.mask.getLsbD i <;> simp [hk, hm] at this ⊢

/-! ### get_common_xs -/

theorem commonXs_bit (T : List Entry) (i : Nat) (hi : i < 32) :
    (commonXs T).getLsbD i = !(T.any (fun e => e.key.getLsbD i) || T.any (fun e => e.mask.getLsbD i)) := by
  simp only [commonXs, BitVec.getLsbD_not, BitVec.getLsbD_or, foldl_or_key_bit, foldl_or_mask_bit, hi,
    decide_true, Bool.true_and]
  simp

/-- an entry of the table has neither key nor mask bits at a common-X position -/
theorem commonXs_mask {T : List Entry} {o : Entry} (ho : o ∈ T) (i : Nat) (hi : i < 32)
    (h : (commonXs T).getLsbD i = true) : o.mask.getLsbD i = false ∧ o.key.getLsbD i = false := by
  rw [commonXs_bit T i hi] at h
  simp only [Bool.not_eq_true', Bool.or_eq_false_iff, List.any_eq_false] at h
  exact ⟨by simpa using h.2 o ho, by simpa using h.1 o ho⟩

/-! ### expand_entry -/

theorem expandGo_fields (I : W) (bs : List Nat) (e ee : Entry) (h : ee ∈ expandGo I bs e) :
    ee.route = e.route ∧ ee.sources = e.sources := by
  induction bs generalizing e with
  | nil => simp only [expandGo, List.mem_singleton] at h; subst h; exact ⟨rfl, rfl⟩
  | cons i rest ih =>
    simp only [expandGo] at h
    split at h
    · rcases List.mem_append.mp h with h | h
      · have := ih _ h; exact this
      · have := ih _ h; exact this
    · exact ih _ h

/-- key and mask bits only grow -/
theorem expandGo_mono (I : W) (bs : List Nat) (e ee : Entry) (h : ee ∈ expandGo I bs e) (j : Nat) :
    (e.key.getLsbD j = true → ee.key.getLsbD j = true) ∧
    (e.mask.getLsbD j = true → ee.mask.getLsbD j = true) := by
  induction bs generalizing e with
  | nil => simp only [expandGo, List.mem_singleton] at h; subst h; exact ⟨id, id⟩
  | cons i rest ih =>
    simp only [expandGo] at h
    split at h
    · rcases List.mem_append.mp h with h | h
      · have := ih _ h
        simp only [BitVec.getLsbD_or] at this
        exact ⟨this.1, fun hm => this.2 (by simp [hm])⟩
      · have := ih _ h
        simp only [BitVec.getLsbD_or] at this
        exact ⟨fun hk => this.1 (by simp [hk]), fun hm => this.2 (by simp [hm])⟩
    · exact ih _ h

/-- every position that was visited is no longer an expandable X -/
theorem expandGo_done (I : W) (bs : List Nat) (e ee : Entry) (h : ee ∈ expandGo I bs e) :
    ∀ j ∈ bs, (xsOf I ee).getLsbD j = false := by
  induction bs generalizing e with
  | nil => intro j hj; cases hj
  | cons i rest ih =>
    intro j hj
    simp only [expandGo] at h
    by_cases hi32 : i < 32
    · split at h
      · rcases List.mem_append.mp h with h | h
        · rcases List.mem_cons.mp hj with rfl | hj
          · have := (expandGo_mono I rest _ ee h j).2 (by simp [BitVec.getLsbD_or, bitW_get _ _ hi32])
            rw [xsOf_bit]; simp [this]
          · exact ih _ h j hj
        · rcases List.mem_cons.mp hj with rfl | hj
          · have := (expandGo_mono I rest _ ee h j).2 (by simp [BitVec.getLsbD_or, bitW_get _ _ hi32])
            rw [xsOf_bit]; simp [this]
          · exact ih _ h j hj
      · rename_i hx
        rcases List.mem_cons.mp hj with rfl | hj
        · have hm := expandGo_mono I rest e ee h j
          rw [xsOf_bit] at hx ⊢
          cases hk : e.key.getLsbD j with
          | true => simp [hm.1 hk]
          | false =>
            cases hmk : e.mask.getLsbD j with
            | true => simp [hm.2 hmk]
            | false =>
              simp only [hk, hmk, hi32, decide_true, Bool.not_false, Bool.true_and, Bool.and_true,
                Bool.not_eq_true, Bool.not_eq_false'] at hx
              simp [hx]
        · exact ih _ h j hj
    · -- positions ≥ 32 do not exist
      rcases List.mem_cons.mp hj with rfl | hj
      · rw [xsOf_bit]; simp [hi32]
      · have hx : (xsOf I e).getLsbD i = false := by rw [xsOf_bit]; simp [hi32]
        rw [hx] at h
        exact ih _ h j hj

theorem mem_bitsDown (j : Nat) (hj : j < 32) : j ∈ bitsDown := by
  simp [bitsDown, hj]

/-- after `expand_entry` no X outside `ignore_xs` is left -/
theorem expandEntry_noX (I : W) (e ee : Entry) (h : ee ∈ expandEntry I e) : xsOf I ee = 0 := by
  apply BitVec.eq_of_getLsbD_eq
  intro j hj
  rw [expandGo_done I bitsDown e ee h j (mem_bitsDown j hj)]
  simp

/-- splitting an X position: the two halves match exactly the keys of the entry -/
theorem split_matches (e : Entry) (i : Nat) (hi : i < 32) (hk : e.key.getLsbD i = false)
    (hm : e.mask.getLsbD i = false) (k : W) :
    (({ e with mask := e.mask ||| bitW i } : Entry).matches k =
      (e.matches k && !k.getLsbD i)) ∧
    (({ e with key := e.key ||| bitW i, mask := e.mask ||| bitW i } : Entry).matches k =
      (e.matches k && k.getLsbD i)) := by
  have key : ∀ (kb : Bool), (k &&& (e.mask ||| bitW i) = (if kb then e.key ||| bitW i else e.key)) ↔
      (k &&& e.mask = e.key ∧ k.getLsbD i = kb) := by
    intro kb
    constructor
    · intro h
      constructor
      · apply BitVec.eq_of_getLsbD_eq
        intro j hj
        have := congrArg (fun x => x.getLsbD j) h
        simp only [BitVec.getLsbD_and, BitVec.getLsbD_or, bitW_get _ _ hj] at this
        by_cases hji : j = i
        · subst hji; simp [hk, hm]
        · cases kb <;> simpa [hji, BitVec.getLsbD_or, bitW_get _ _ hj] using this
      · have := congrArg (fun x => x.getLsbD i) h
        simp only [BitVec.getLsbD_and, BitVec.getLsbD_or, bitW_get _ _ hi, hm] at this
        cases kb <;> simpa [hk, BitVec.getLsbD_or, bitW_get _ _ hi] using this
    · intro ⟨h1, h2⟩
      apply BitVec.eq_of_getLsbD_eq
      intro j hj
      have := congrArg (fun x => x.getLsbD j) h1
      simp only [BitVec.getLsbD_and] at this
      by_cases hji : j = i
      · subst hji
        cases kb <;> simp [h2, hk, hm, BitVec.getLsbD_or, bitW_get _ _ hj]
      · cases kb <;> simp [hji, BitVec.getLsbD_or, bitW_get _ _ hj, BitVec.getLsbD_and, this]
  constructor
  · have := key false
    simp only [Bool.false_eq_true, if_false] at this
    simp only [Entry.matches]
    rw [Bool.eq_iff_iff]
    simp only [beq_iff_eq, Bool.and_eq_true, Bool.not_eq_true']
    exact this
  · have := key true
    simp only [if_true] at this
    simp only [Entry.matches]
    rw [Bool.eq_iff_iff]
    simp only [beq_iff_eq, Bool.and_eq_true]
    exact this

theorem xsOf_true {I : W} {e : Entry} {i : Nat} (h : (xsOf I e).getLsbD i = true) :
    i < 32 ∧ e.key.getLsbD i = false ∧ e.mask.getLsbD i = false := by
  rw [xsOf_bit] at h
  simp only [Bool.and_eq_true, decide_eq_true_eq, Bool.not_eq_true'] at h
  exact ⟨h.1.1.1, h.1.1.2, h.1.2⟩

/-- an expanded entry matches only keys of the entry it came from -/
theorem expandGo_refines (I : W) (bs : List Nat) (e ee : Entry) (h : ee ∈ expandGo I bs e) (k : W)
    (hm : ee.matches k = true) : e.matches k = true := by
  induction bs generalizing e with
  | nil => simp only [expandGo, List.mem_singleton] at h; subst h; exact hm
  | cons i rest ih =>
    simp only [expandGo] at h
    split at h
    · rename_i hx
      obtain ⟨hi, hk, hmk⟩ := xsOf_true hx
      have hs := split_matches e i hi hk hmk k
      rcases List.mem_append.mp h with h | h
      · have := ih _ h; rw [hs.1] at this; simp only [Bool.and_eq_true] at this; exact this.1
      · have := ih _ h; rw [hs.2] at this; simp only [Bool.and_eq_true] at this; exact this.1
    · exact ih _ h

/-- every key of the entry is matched by one of its expansions -/
theorem expandGo_covers (I : W) (bs : List Nat) (e : Entry) (k : W) (hm : e.matches k = true) :
    ∃ ee ∈ expandGo I bs e, ee.matches k = true := by
  induction bs generalizing e with
  | nil => exact ⟨e, by simp [expandGo], hm⟩
  | cons i rest ih =>
    simp only [expandGo]
    split
    · rename_i hx
      obtain ⟨hi, hk, hmk⟩ := xsOf_true hx
      have hs := split_matches e i hi hk hmk k
      cases hb : k.getLsbD i with
      | false =>
        obtain ⟨ee, h1, h2⟩ := ih _ (by rw [hs.1, hm, hb]; rfl)
        exact ⟨ee, List.mem_append_left _ h1, h2⟩
      | true =>
        obtain ⟨ee, h1, h2⟩ := ih _ (by rw [hs.2, hm, hb]; rfl)
        exact ⟨ee, List.mem_append_right _ h1, h2⟩
    · exact ih _ hm

/-- expansions of a well-formed entry are well formed -/
theorem expandGo_wf (I : W) (bs : List Nat) (e ee : Entry) (h : ee ∈ expandGo I bs e)
    (hw : e.key &&& ~~~e.mask = 0) : ee.key &&& ~~~ee.mask = 0 := by
  induction bs generalizing e with
  | nil => simp only [expandGo, List.mem_singleton] at h; subst h; exact hw
  | cons i rest ih =>
    simp only [expandGo] at h
    have hbit : ∀ j, j < 32 → (e.key.getLsbD j && !e.mask.getLsbD j) = false := by
      intro j hj
      have := congrArg (fun x => x.getLsbD j) hw
      simpa [hj] using this
    split at h
    · rename_i hx
      obtain ⟨hi, hk, hmk⟩ := xsOf_true hx
      rcases List.mem_append.mp h with h | h
      · apply ih _ h
        apply BitVec.eq_of_getLsbD_eq
        intro j hj
        have := hbit j hj
        simp only [BitVec.getLsbD_and, BitVec.getLsbD_not, BitVec.getLsbD_or, bitW_get _ _ hj, hj, decide_true,
          Bool.true_and, BitVec.getLsbD_zero]
        cases h1 : e.key.getLsbD j <;> cases h2 : e.mask.getLsbD j <;> simp [h1, h2] at this ⊢
      · apply ih _ h
        apply BitVec.eq_of_getLsbD_eq
        intro j hj
        have := hbit j hj
        simp only [BitVec.getLsbD_and, BitVec.getLsbD_not, BitVec.getLsbD_or, bitW_get _ _ hj, hj, decide_true,
          Bool.true_and, BitVec.getLsbD_zero]
        by_cases hji : j = i
        · simp [hji]
        · cases h1 : e.key.getLsbD j <;> cases h2 : e.mask.getLsbD j <;> simp [h1, h2, hji] at this ⊢
    · exact ih _ h hw

/-! ### the `seen_keys` filter -/

theorem dedupKeys_subset (L : List Entry) (seen : List W) : ∀ e ∈ dedupKeys L seen, e ∈ L := by
  induction L generalizing seen with
  | nil => intro e he; cases he
  | cons x r ih =>
    intro e he
    simp only [dedupKeys] at he
    split at he
    · exact List.mem_cons_of_mem _ (ih _ e he)
    · rcases List.mem_cons.mp he with rfl | he
      · simp
      · exact List.mem_cons_of_mem _ (ih _ e he)

/-- every key of the list survives (through its first occurrence) unless it was seen before -/
theorem dedupKeys_keeps (L : List Entry) (seen : List W) (e : Entry) (he : e ∈ L) :
    e.key ∈ seen ∨ ∃ e' ∈ dedupKeys L seen, e'.key = e.key := by
  induction L generalizing seen with
  | nil => cases he
  | cons x r ih =>
    simp only [dedupKeys]
    rcases List.mem_cons.mp he with rfl | her
    · by_cases hs : seen.contains e.key = true
      · left; simpa using hs
      · right; rw [if_neg hs]; exact ⟨e, by simp, rfl⟩
    · by_cases hs : seen.contains x.key = true
      · rw [if_pos hs]; exact ih seen her
      · rw [if_neg hs]
        rcases ih (x.key :: seen) her with h | ⟨e', h1, h2⟩
        · rcases List.mem_cons.mp h with h | h
          · right; exact ⟨x, by simp, h.symm⟩
          · left; exact h
        · right; exact ⟨e', List.mem_cons_of_mem _ h1, h2⟩

/-! ### the inner loop is a first-match lookup of the representative key -/

theorem subsetDefaultRouted_iff (e : Entry) : subsetDefaultRouted e = true ↔ DefaultRouted e := by
  constructor
  · intro h
    simp only [subsetDefaultRouted] at h
    split at h
    · rename_i sink source hr hs
      simp only [Bool.and_eq_true, decide_eq_true_eq, beq_iff_eq, bne_iff_ne] at h
      obtain ⟨⟨_, h1⟩, h2⟩ := h
      refine ⟨source, by omega, (single_some hs).1, ?_⟩
      rw [(single_some hr).1]
      congr 1
      omega
    · cases h
  · intro ⟨l, hl, hs, hr⟩
    simp only [subsetDefaultRouted, hs, hr]
    have : l = 0 ∨ l = 1 ∨ l = 2 ∨ l = 3 ∨ l = 4 ∨ l = 5 := by omega
    rcases this with rfl | rfl | rfl | rfl | rfl | rfl <;> decide

theorem subsetDefaultRouted_congr {e e' : Entry} (h1 : e'.route = e.route) (h2 : e'.sources = e.sources) :
    subsetDefaultRouted e' = subsetDefaultRouted e := by
  simp only [subsetDefaultRouted, h1, h2]

/-- what the inner loop establishes for one expanded entry: the table `b` gives the entry's
representative key (its own `key`) the entry's route, or does not match it and the entry is
default-routable -/
def RepOk (b : List Entry) (ee : Entry) : Prop :=
  (∃ o, lookup b ee.key = some o ∧ o.route = ee.route) ∨ (lookup b ee.key = none ∧ DefaultRouted ee)

theorem subsetCheckOne_iff (ee : Entry) (b : List Entry) : subsetCheckOne ee b = true ↔ RepOk b ee := by
  induction b with
  | nil =>
    simp only [subsetCheckOne, RepOk, subsetDefaultRouted_iff]
    have hl : lookup [] ee.key = none := rfl
    constructor
    · intro h; exact Or.inr ⟨hl, h⟩
    · intro h
      rcases h with ⟨o, h, _⟩ | ⟨_, h⟩
      · rw [hl] at h; cases h
      · exact h
  | cons o rest ih =>
    have hm : (o.mask &&& ee.key == o.key) = o.matches ee.key := by
      simp only [Entry.matches, BitVec.and_comm]
    simp only [subsetCheckOne, hm, RepOk, lookup_cons]
    by_cases h : o.matches ee.key = true
    · simp only [h, if_true, beq_iff_eq]
      constructor
      · intro hr; exact Or.inl ⟨o, rfl, hr⟩
      · intro hr
        rcases hr with ⟨o', h1, h2⟩ | ⟨h1, _⟩
        · cases h1; exact h2
        · cases h1
    · simp only [h, if_false, Bool.false_eq_true]
      exact ih

/-! ### membership in `expand_entries` -/

theorem mem_expandEntries {a : List Entry} {I : W} {ee : Entry} (h : ee ∈ expandEntries a (some I)) :
    ∃ e ∈ a, ee ∈ expandEntry I e := by
  simp only [expandEntries] at h
  have := dedupKeys_subset _ _ ee h
  simpa [List.mem_flatMap] using this

theorem orthogonal_unique {T : List Entry} (ho : Orthogonal T) {k : W} {e e' : Entry}
    (he : e ∈ T) (he' : e' ∈ T) (hm : e.matches k = true) (hm' : e'.matches k = true) : e = e' := by
  have h1 := orthogonal_lookup_mem ho he hm
  have h2 := orthogonal_lookup_mem ho he' hm'
  rw [h1] at h2
  exact Option.some.inj h2

/-- the keys matched by a fully expanded entry are routed by `b` like the entry's own key: the
only positions where they can differ are common Xs of `b` -/
theorem lookup_rep {b : List Entry} {ee : Entry} {k : W} (hx : xsOf (commonXs b) ee = 0)
    (hm : ee.matches k = true) : lookup b ee.key = lookup b k := by
  apply lookup_congr
  intro o ho
  rw [matches_iff] at hm
  have : ee.key &&& o.mask = k &&& o.mask := by
    apply BitVec.eq_of_getLsbD_eq
    intro j hj
    have hxj := congrArg (fun x => x.getLsbD j) hx
    simp only [xsOf_bit, hj, decide_true, Bool.true_and, BitVec.getLsbD_zero] at hxj
    have hkj := congrArg (fun x => x.getLsbD j) hm
    simp only [BitVec.getLsbD_and] at hkj ⊢
    cases hom : o.mask.getLsbD j with
    | false => simp
    | true =>
      have hI : (commonXs b).getLsbD j = false := by
        cases hc : (commonXs b).getLsbD j with
        | false => rfl
        | true => rw [(commonXs_mask ho j hj hc).1] at hom; cases hom
      rw [hI] at hxj
      cases h1 : ee.key.getLsbD j <;> cases h2 : ee.mask.getLsbD j <;> cases h3 : k.getLsbD j <;>
        simp [h1, h2, h3] at hxj hkj ⊢
  simp only [Entry.matches, this]

/-! ### soundness and completeness on well-formed orthogonal tables -/

theorem subset_sound {a b : List Entry} (hw : WellFormed a) (ho : Orthogonal a)
    (h : tableIsSubsetOf a b = true) : RouteSame a b := by
  intro k e hl
  obtain ⟨hm, he⟩ := lookup_some_matches hl
  obtain ⟨ee, hee, hmk⟩ := expandGo_covers (commonXs b) bitsDown e k hm
  have hflat : ee ∈ a.flatMap (expandEntry (commonXs b)) := List.mem_flatMap.mpr ⟨e, he, hee⟩
  rcases dedupKeys_keeps _ [] ee hflat with hs | ⟨ee', hk1, hk2⟩
  · cases hs
  · have hk1' : ee' ∈ expandEntries a (some (commonXs b)) := hk1
    obtain ⟨e', he', hee'⟩ := mem_expandEntries hk1'
    -- both parents match the representative key
    have h1 : e.matches ee.key = true := expandGo_refines _ _ _ _ hee _ (matches_key hmk)
    have h2 : e'.matches ee.key = true := by
      rw [← hk2]
      exact expandGo_refines _ _ _ _ hee' _ (wf_matches_key (expandGo_wf _ _ _ _ hee' (hw e' he')))
    have heq : e = e' := orthogonal_unique ho he he' h1 h2
    subst heq
    have hchk : subsetCheckOne ee' b = true := by
      simp only [tableIsSubsetOf, List.all_eq_true] at h
      exact h ee' hk1'
    obtain ⟨hr, hsrc⟩ := expandGo_fields _ _ _ _ hee'
    have hrep := lookup_rep (expandEntry_noX _ _ _ hee) hmk
    rcases (subsetCheckOne_iff ee' b).mp hchk with ⟨o, h3, h4⟩ | ⟨h3, h4⟩
    · left; exact ⟨o, by rw [← hrep, ← hk2]; exact h3, by rw [h4, hr]⟩
    · right
      refine ⟨by rw [← hrep, ← hk2]; exact h3, ?_⟩
      obtain ⟨l, hl1, hl2, hl3⟩ := h4
      exact ⟨l, hl1, by rw [← hsrc]; exact hl2, by rw [← hr]; exact hl3⟩

theorem subset_complete {a b : List Entry} (hw : WellFormed a) (ho : Orthogonal a)
    (h : RouteSame a b) : tableIsSubsetOf a b = true := by
  simp only [tableIsSubsetOf, List.all_eq_true]
  intro ee hee
  obtain ⟨e, he, hex⟩ := mem_expandEntries hee
  have hm : e.matches ee.key = true :=
    expandGo_refines _ _ _ _ hex _ (wf_matches_key (expandGo_wf _ _ _ _ hex (hw e he)))
  have hl := orthogonal_lookup_mem ho he hm
  obtain ⟨hr, hsrc⟩ := expandGo_fields _ _ _ _ hex
  rw [subsetCheckOne_iff]
  rcases h ee.key e hl with ⟨o, h1, h2⟩ | ⟨h1, l, hl1, hl2, hl3⟩
  · exact Or.inl ⟨o, h1, by rw [h2, hr]⟩
  · exact Or.inr ⟨h1, l, hl1, by rw [hsrc]; exact hl2, by rw [hr]; exact hl3⟩

theorem routeEquiv_routeSame {T T' : List Entry} (h : RouteEquiv T T') : RouteSame T T' := by
  intro k e he
  rcases h k e he with ⟨e', h1, h2, _⟩ | h
  · exact Or.inl ⟨e', h1, h2⟩
  · exact Or.inr h

/-- a `False` answer on tables that do route identically: some surviving expanded entry is
*shadowed at its representative key* by another entry of `a` with a different outcome -/
theorem subset_false_shadow {a b : List Entry} (hw : WellFormed a) (hs : RouteSame a b)
    (h : tableIsSubsetOf a b = false) :
    ∃ ee ∈ expandEntries a (some (commonXs b)), ∃ e ∈ a, ee ∈ expandEntry (commonXs b) e ∧
      ∃ e0 ∈ a, lookup a ee.key = some e0 ∧ e0 ≠ e ∧ e.matches ee.key = true ∧
        (e0.route ≠ e.route ∨ (DefaultRouted e0 ∧ ¬ DefaultRouted e)) := by
  simp only [tableIsSubsetOf, List.all_eq_false] at h
  obtain ⟨ee, hee, hchk⟩ := h
  obtain ⟨e, he, hex⟩ := mem_expandEntries hee
  have hm : e.matches ee.key = true :=
    expandGo_refines _ _ _ _ hex _ (wf_matches_key (expandGo_wf _ _ _ _ hex (hw e he)))
  obtain ⟨hr, hsrc⟩ := expandGo_fields _ _ _ _ hex
  have hdr : DefaultRouted ee ↔ DefaultRouted e := by
    simp only [DefaultRouted, hr, hsrc]
  rw [subsetCheckOne_iff] at hchk
  cases hl : lookup a ee.key with
  | none => rw [lookup_none_iff] at hl; rw [hl e he] at hm; cases hm
  | some e0 =>
    refine ⟨ee, hee, e, he, hex, e0, (lookup_some_matches hl).2, hl, ?_, hm, ?_⟩
    · intro h0
      subst h0
      apply hchk
      rcases hs ee.key e0 hl with ⟨o, h1, h2⟩ | ⟨h1, h2⟩
      · exact Or.inl ⟨o, h1, by rw [h2, hr]⟩
      · exact Or.inr ⟨h1, hdr.mpr h2⟩
    · rcases hs ee.key e0 hl with ⟨o, h1, h2⟩ | ⟨h1, h2⟩
      · left
        intro hre
        exact hchk (Or.inl ⟨o, h1, by rw [h2, hre, hr]⟩)
      · by_cases hre : e0.route = e.route
        · right
          refine ⟨h2, fun hd => hchk (Or.inr ⟨h1, hdr.mpr hd⟩)⟩
        · left; exact hre

/-! ### `RouteSame` through the `RouteEquiv` oracle -/

def fullSources (b : List Entry) : List Entry := b.map (fun e => { e with sources := 2 ^ 25 - 1 })

theorem lookup_fullSources (b : List Entry) (k : W) :
    lookup (fullSources b) k = (lookup b k).map (fun e => { e with sources := 2 ^ 25 - 1 }) := by
  induction b with
  | nil => rfl
  | cons x r ih =>
    have hx : ({ x with sources := 2 ^ 25 - 1 } : Entry).matches k = x.matches k := rfl
    simp only [fullSources, List.map_cons] at ih ⊢
    rw [lookup_cons, lookup_cons, hx]
    by_cases h : x.matches k = true
    · simp [h]
    · simp [h]; exact ih

theorem bitSubset_full {s : Nat} (h : s < 2 ^ 25) : bitSubset s (2 ^ 25 - 1) = true := by
  simp only [bitSubset, beq_iff_eq]
  rw [Nat.and_two_pow_sub_one_eq_mod]
  exact Nat.mod_eq_of_lt h

theorem routeSame_iff_fullSources (a b : List Entry) (h : ∀ e ∈ a, e.sources < 2 ^ 25) :
    RouteSame a b ↔ RouteEquiv a (fullSources b) := by
  constructor
  · intro hs k e he
    rcases hs k e he with ⟨e', h1, h2⟩ | ⟨h1, h2⟩
    · left
      refine ⟨{ e' with sources := 2 ^ 25 - 1 }, by rw [lookup_fullSources, h1]; rfl, h2, ?_⟩
      exact bitSubset_full (h e (lookup_some_matches he).2)
    · right; exact ⟨by rw [lookup_fullSources, h1]; rfl, h2⟩
  · intro hs k e he
    rcases hs k e he with ⟨e', h1, h2, _⟩ | ⟨h1, h2⟩
    · rw [lookup_fullSources] at h1
      cases hl : lookup b k with
      | none => rw [hl] at h1; cases h1
      | some o =>
        rw [hl] at h1
        simp only [Option.map_some, Option.some.injEq] at h1
        subst h1
        exact Or.inl ⟨o, rfl, h2⟩
    · rw [lookup_fullSources] at h1
      cases hl : lookup b k with
      | none => exact Or.inr ⟨rfl, h2⟩
      | some o => rw [hl] at h1; cases h1

end Rig.C04
