/-
C03 - helper lemmas and proofs (trees and the decision procedure).  Core Lean only.
-/
import RigModel.Model.C03
set_option linter.unusedSimpArgs false
set_option linter.unusedVariables false
namespace Rig.C03.L
open Rig.C03 Rig.Gen.C03Links

theorem nodupB_iff (l : List Chip) : nodupB l = true ↔ l.Nodup := by
  induction l with
  | nil => simp [nodupB]
  | cons c r ih => simp [nodupB, ih, List.nodup_cons]

theorem edgeOk_iff (m : Machine) (e : Chip × Nat × Chip) : edgeOk m e = true ↔ HopOk m e := by
  simp [edgeOk, HopOk, and_assoc]

theorem reach_trans {m : Machine} {a b c : Chip} (h1 : Reach m a b) (h2 : Reach m b c) : Reach m a c := by
  induction h2 with
  | refl => exact h1
  | hop l _ hl hk hc ih => exact Reach.hop l ih hl hk hc

mutual
theorem leaf_chip_mem : (t : Tree) → ∀ lf, lf ∈ t.leafList → lf.1 ∈ t.chips
  | .node c subs lv, lf, h => by
    simp only [Tree.leafList, List.mem_append, List.mem_map] at h
    simp only [Tree.chips, List.mem_cons]
    rcases h with ⟨p, _, rfl⟩ | h
    · exact Or.inl rfl
    · exact Or.inr (leaf_chip_memL subs lf h)
theorem leaf_chip_memL : (s : List (Nat × Tree)) → ∀ lf, lf ∈ leafL s → lf.1 ∈ chipsL s
  | [], lf, h => by simp [leafL] at h
  | (_, t) :: r, lf, h => by
    simp only [leafL, List.mem_append] at h
    simp only [chipsL, List.mem_append]
    rcases h with h | h
    · exact Or.inl (leaf_chip_mem t lf h)
    · exact Or.inr (leaf_chip_memL r lf h)
end

mutual
theorem reach_of_mem (m : Machine) : (t : Tree) → (∀ e, e ∈ t.edges → HopOk m e) →
    ∀ c, c ∈ t.chips → Reach m t.chip c
  | .node c0 subs lv, h, c, hc => by
    simp only [Tree.chips, List.mem_cons] at hc
    simp only [Tree.chip]
    rcases hc with rfl | hc
    · exact Reach.refl _
    · exact reach_of_memL m c0 subs (by simpa [Tree.edges] using h) c hc
theorem reach_of_memL (m : Machine) (c0 : Chip) : (s : List (Nat × Tree)) →
    (∀ e, e ∈ edgesL c0 s → HopOk m e) → ∀ c, c ∈ chipsL s → Reach m c0 c
  | [], _, c, hc => by simp [chipsL] at hc
  | (l, t) :: r, h, c, hc => by
    simp only [chipsL, List.mem_append] at hc
    simp only [edgesL, List.mem_cons, List.mem_append] at h
    rcases hc with hc | hc
    · have h0 := h (c0, l, t.chip) (Or.inl rfl)
      obtain ⟨hl, hk, hck, heq⟩ := h0
      simp only at hl hk hck heq
      have r1 : Reach m c0 t.chip := by
        rw [heq]; rw [heq] at hck
        exact Reach.hop l (Reach.refl c0) hl hk hck
      exact reach_trans r1 (reach_of_mem m t (fun e he => h e (Or.inr (Or.inl he))) c hc)
    · exact reach_of_memL m c0 r (fun e he => h e (Or.inr (Or.inr he))) c hc
end

theorem validTree_iff (m : Machine) (src : Chip) (sinks : List Sink) (t : Tree) :
    validTree m src sinks t = true ↔ ValidTree m src sinks t := by
  constructor
  · intro h
    simp only [validTree, Bool.and_eq_true, beq_iff_eq, nodupB_iff, List.all_eq_true,
      List.contains_iff_mem] at h
    obtain ⟨⟨⟨⟨h1, h2⟩, h3⟩, h4⟩, h5⟩ := h
    refine ⟨h1, h2, ?_, h4, h5⟩
    intro c l c' he
    exact (edgeOk_iff m _).1 (h3 _ he)
  · intro h
    simp only [validTree, Bool.and_eq_true, beq_iff_eq, nodupB_iff, List.all_eq_true,
      List.contains_iff_mem]
    refine ⟨⟨⟨⟨h.rooted, h.distinct⟩, ?_⟩, h.leaves_sound⟩, h.leaves_complete⟩
    intro e he
    exact (edgeOk_iff m e).2 (h.hops e.1 e.2.1 e.2.2 he)

theorem validTree_connects (m : Machine) (src : Chip) (sinks : List Sink) (t : Tree)
    (h : ValidTree m src sinks t) :
    ∀ s, s ∈ sinks → s.routes ≠ [] → Reach m src s.chip := by
  intro s hs hne
  obtain ⟨r, rest, hr⟩ : ∃ r rest, s.routes = r :: rest := by
    cases hh : s.routes with
    | nil => exact absurd hh hne
    | cons r rest => exact ⟨r, rest, rfl⟩
  have hlf : (s.chip, r, s.v) ∈ expectedLeaves sinks := by
    simp only [expectedLeaves, List.mem_flatMap]
    exact ⟨s, hs, by simp [Sink.leaves, hr]⟩
  have h1 := leaf_chip_mem t _ (h.leaves_complete _ hlf)
  have h2 := reach_of_mem m t (fun e he => h.hops e.1 e.2.1 e.2.2 he) _ h1
  rw [h.rooted] at h2
  exact h2
end Rig.C03.L
