import RigModel.Lemmas.C14c
namespace Rig.C14
open Rig.Gen.C14
set_option linter.unusedSimpArgs false

/-- number of reservations of a list (all for one location) that contain core `p` -/
def cnt (rs : List Reservation) (p : Nat) : Nat :=
  (rs.filter fun r => decide (r.start ≤ p) && decide (p < r.stop)).length

theorem cnt_nil (p : Nat) : cnt [] p = 0 := rfl

theorem cnt_cons (r : Reservation) (rs : List Reservation) (p : Nat) :
    cnt (r :: rs) p = (if r.start ≤ p ∧ p < r.stop then 1 else 0) + cnt rs p := by
  unfold cnt
  rw [List.filter_cons]
  by_cases h : r.start ≤ p ∧ p < r.stop
  · have hb : (decide (r.start ≤ p) && decide (p < r.stop)) = true := by simp [h.1, h.2]
    rw [if_pos hb, if_pos h, List.length_cons]; omega
  · have hb : ¬ (decide (r.start ≤ p) && decide (p < r.stop)) = true := by
      intro hb
      simp only [Bool.and_eq_true, decide_eq_true_eq] at hb
      exact h hb
    rw [if_neg hb, if_neg h]; omega

theorem minimalRes_chip (chip : Option (Nat × Nat)) (cs : List Nat) (st : Option (Nat × Nat)) :
    ∀ r ∈ minimalRes chip cs st, r.chip = chip := by
  induction cs generalizing st with
  | nil =>
    cases st with
    | none => simp [minimalRes]
    | some se => obtain ⟨s, e⟩ := se; simp [minimalRes]
  | cons c cs ih =>
    cases st with
    | none => simp only [minimalRes]; exact ih _
    | some se =>
      obtain ⟨s, e⟩ := se
      simp only [minimalRes]
      split
      · exact ih _
      · intro r hr
        simp only [List.mem_cons] at hr
        rcases hr with rfl | hr
        · rfl
        · exact ih _ r hr

theorem minimalRes_cnt_some (chip : Option (Nat × Nat)) (cs : List Nat) (s e p : Nat)
    (hse : s < e) (hpw : cs.Pairwise (· < ·)) (hge : ∀ x ∈ cs, e ≤ x) :
    cnt (minimalRes chip cs (some (s, e))) p = if (s ≤ p ∧ p < e) ∨ p ∈ cs then 1 else 0 := by
  induction cs generalizing s e with
  | nil => simp [minimalRes, cnt_cons, cnt_nil]
  | cons c cs ih =>
    simp only [List.pairwise_cons] at hpw
    have hec := hge c (by simp)
    have hcs : ∀ x ∈ cs, c + 1 ≤ x := fun x hx => hpw.1 x hx
    simp only [minimalRes]
    split
    · rename_i heq
      rw [ih s (c + 1) (by omega) hpw.2 hcs]
      simp only [List.mem_cons]
      by_cases hm : p ∈ cs
      · simp [hm]
      · by_cases hpc : p = c
        · subst hpc; simp [hm]; omega
        · have : (s ≤ p ∧ p < c + 1) ↔ (s ≤ p ∧ p < e) := by omega
          simp [hm, hpc, this]
    · rename_i hne
      rw [cnt_cons, ih c (c + 1) (by omega) hpw.2 hcs]
      simp only [List.mem_cons]
      by_cases hm : p ∈ cs
      · have := hcs p hm
        have h1 : ¬ (s ≤ p ∧ p < e) := by omega
        simp [hm, h1]
      · by_cases hpc : p = c
        · subst hpc
          have h1 : ¬ (s ≤ p ∧ p < e) := by omega
          simp [hm, h1]
        · have h2 : ¬ (c ≤ p ∧ p < c + 1) := by omega
          simp [hm, hpc, h2]

theorem minimalRes_cnt (chip : Option (Nat × Nat)) (cs : List Nat) (p : Nat)
    (hpw : cs.Pairwise (· < ·)) :
    cnt (minimalRes chip cs none) p = if p ∈ cs then 1 else 0 := by
  cases cs with
  | nil => simp [minimalRes, cnt_nil]
  | cons c cs =>
    simp only [List.pairwise_cons] at hpw
    simp only [minimalRes]
    rw [minimalRes_cnt_some chip cs c (c + 1) p (by omega) hpw.2 (fun x hx => hpw.1 x hx)]
    simp only [List.mem_cons]
    have : (c ≤ p ∧ p < c + 1) ↔ p = c := by omega
    simp [this]


/-! ### bit masks -/

def maskBits : List Nat → Nat
  | [] => 0
  | s :: l => (if s != APPSTATE_IDLE then 1 else 0) + 2 * maskBits l

theorem reservedMask_eq (i : Nat) (l : List Nat) : reservedMask i l = 2 ^ i * maskBits l := by
  induction l generalizing i with
  | nil => simp [reservedMask, maskBits]
  | cons s l ih =>
    simp only [reservedMask, maskBits, ih (i + 1), Nat.one_shiftLeft, Nat.pow_succ]
    split
    · rw [Nat.mul_add, Nat.mul_one, Nat.mul_assoc]
    · rw [Nat.zero_add, Nat.zero_add, Nat.mul_assoc]

def busyAt (states : List Nat) (p : Nat) : Bool :=
  match states[p]? with
  | some s => s != APPSTATE_IDLE
  | none => false

theorem testBit_maskBits (l : List Nat) (p : Nat) : (maskBits l).testBit p = busyAt l p := by
  induction l generalizing p with
  | nil => simp [maskBits, busyAt]
  | cons s l ih =>
    have hb : (if s != APPSTATE_IDLE then 1 else 0) ≤ 1 := by split <;> omega
    cases p with
    | zero =>
      simp only [maskBits, busyAt, Nat.testBit_zero, List.getElem?_cons_zero]
      by_cases h : (s != APPSTATE_IDLE) = true
      · simp only [h, if_true]
        have : (1 + 2 * maskBits l) % 2 = 1 := by omega
        simp [this]
      · simp only [h, Bool.false_eq_true, if_false]
        have : (0 + 2 * maskBits l) % 2 = 0 := by omega
        simp [this, h]
    | succ p =>
      rw [Nat.testBit_succ]
      have : maskBits (s :: l) / 2 = maskBits l := by
        simp only [maskBits]; omega
      rw [this, ih p]
      simp [busyAt]

theorem testBit_reservedMask (l : List Nat) (p : Nat) : (reservedMask 0 l).testBit p = busyAt l p := by
  rw [reservedMask_eq, Nat.pow_zero, Nat.one_mul, testBit_maskBits]

theorem busy_eq (ci : ChipInfo) (p : Nat) : busy ci p = busyAt ci.coreStates p := rfl

theorem testBit_globalMask_some (chips : List ((Nat × Nat) × ChipInfo)) (g p : Nat) :
    (globalMask chips (some g)).testBit p = (g.testBit p && chips.all fun e => busy e.2 p) := by
  induction chips generalizing g with
  | nil => simp [globalMask]
  | cons e rest ih =>
    obtain ⟨xy, ci⟩ := e
    simp only [globalMask, ih, Nat.testBit_and, testBit_reservedMask, List.all_cons, busy_eq, Bool.and_assoc]

theorem testBit_globalMask (chips : List ((Nat × Nat) × ChipInfo)) (p : Nat) :
    (globalMask chips none).testBit p = (!chips.isEmpty && chips.all fun e => busy e.2 p) := by
  cases chips with
  | nil => simp [globalMask]
  | cons e rest =>
    obtain ⟨xy, ci⟩ := e
    simp only [globalMask, testBit_globalMask_some, testBit_reservedMask, List.all_cons, busy_eq,
      List.isEmpty_cons, Bool.not_false, Bool.true_and]

theorem shl_and_ne (g core : Nat) : ((1 <<< core) &&& g != 0) = g.testBit core := by
  rw [Nat.one_shiftLeft, Nat.and_comm, and_pow_ne_zero]

theorem and_shl_ne (g core : Nat) : ((g &&& (1 <<< core)) != 0) = g.testBit core := by
  rw [Nat.one_shiftLeft, and_pow_ne_zero]

/-- the globally reserved core list -/
def globalCores (g : Nat) : List Nat := (List.range 18).filter fun core => (1 <<< core) &&& g != 0

/-- the chip-specific core list -/
def localCores (g : Nat) (ci : ChipInfo) : List Nat :=
  (ci.coreStates.zipIdx.filter fun (s, core) => s != APPSTATE_IDLE && !((g &&& (1 <<< core)) != 0)).map (·.2)

theorem globalCores_pw (g : Nat) : (globalCores g).Pairwise (· < ·) :=
  List.Pairwise.filter _ List.pairwise_lt_range

theorem mem_globalCores (g p : Nat) : p ∈ globalCores g ↔ p < 18 ∧ g.testBit p = true := by
  simp only [globalCores, List.mem_filter, List.mem_range, shl_and_ne]

theorem localCores_pw (g : Nat) (ci : ChipInfo) : (localCores g ci).Pairwise (· < ·) := by
  have hs : (localCores g ci).Sublist (ci.coreStates.zipIdx.map (·.2)) :=
    List.Sublist.map _ List.filter_sublist
  rw [List.zipIdx_map_snd] at hs
  exact List.Pairwise.sublist hs (List.pairwise_lt_range' 1)

theorem mem_localCores (g : Nat) (ci : ChipInfo) (p : Nat) :
    p ∈ localCores g ci ↔ busy ci p = true ∧ g.testBit p = false := by
  simp only [localCores, List.mem_map, List.mem_filter, List.mem_zipIdx_iff_getElem?, and_shl_ne,
    Bool.and_eq_true, Bool.not_eq_true', busy, busyAt]
  constructor
  · rintro ⟨⟨s, q⟩, ⟨hget, hs, hg⟩, rfl⟩
    simp only at hget hs hg ⊢
    rw [hget]; exact ⟨hs, hg⟩
  · rintro ⟨hb, hg⟩
    cases hget : ci.coreStates[p]? with
    | none => simp [hget] at hb
    | some s =>
      simp only [hget] at hb
      exact ⟨(s, p), ⟨hget, hb, hg⟩, rfl⟩


/-! ### cover counts -/

theorem coverCount_nil (xy : Nat × Nat) (p : Nat) : coverCount [] xy p = 0 := rfl

theorem coverCount_append (a b : List Reservation) (xy : Nat × Nat) (p : Nat) :
    coverCount (a ++ b) xy p = coverCount a xy p + coverCount b xy p := by
  simp [coverCount, List.filter_append]

theorem coverCount_of_chip (rs : List Reservation) (chip : Option (Nat × Nat)) (xy : Nat × Nat) (p : Nat)
    (h : ∀ r ∈ rs, r.chip = chip) :
    coverCount rs xy p = if chip = none ∨ chip = some xy then cnt rs p else 0 := by
  induction rs with
  | nil => simp [coverCount_nil, cnt_nil]
  | cons r rs ih =>
    have hr := h r (by simp)
    have ih' := ih (fun r' hr' => h r' (by simp [hr']))
    have hc : coverCount (r :: rs) xy p =
        (if r.appliesTo xy = true ∧ r.start ≤ p ∧ p < r.stop then 1 else 0) + coverCount rs xy p := by
      unfold coverCount
      rw [List.filter_cons]
      by_cases hh : r.appliesTo xy = true ∧ r.start ≤ p ∧ p < r.stop
      · have hb : (r.appliesTo xy && decide (r.start ≤ p) && decide (p < r.stop)) = true := by
          simp [hh.1, hh.2.1, hh.2.2]
        rw [if_pos hb, if_pos hh, List.length_cons]; omega
      · have hb : ¬ (r.appliesTo xy && decide (r.start ≤ p) && decide (p < r.stop)) = true := by
          intro hb
          simp only [Bool.and_eq_true, decide_eq_true_eq] at hb
          exact hh ⟨hb.1.1, hb.1.2, hb.2⟩
        rw [if_neg hb, if_neg hh]; omega
    rw [hc, ih', cnt_cons]
    have happ : r.appliesTo xy = true ↔ (chip = none ∨ chip = some xy) := by
      unfold Reservation.appliesTo
      rw [hr]
      cases chip with
      | none => simp
      | some c =>
        simp only [beq_iff_eq, reduceCtorEq, Option.some.injEq, false_or]
    by_cases hq : chip = none ∨ chip = some xy
    · have := happ.2 hq
      simp only [this, true_and, hq, if_true]
    · have : ¬ r.appliesTo xy = true := fun h' => hq (happ.1 h')
      simp [this, hq]

theorem coverCount_flatMap (g : Nat) (l : List ((Nat × Nat) × ChipInfo)) (hnd : (l.map (·.1)).Nodup)
    (xy : Nat × Nat) (ci : ChipInfo) (h : (xy, ci) ∈ l) (p : Nat) :
    coverCount (l.flatMap fun (e : (Nat × Nat) × ChipInfo) => minimalRes (some e.1) (localCores g e.2) none) xy p =
      cnt (minimalRes (some xy) (localCores g ci) none) p := by
  have hother : ∀ (t : List ((Nat × Nat) × ChipInfo)), (∀ e ∈ t, e.1 ≠ xy) →
      coverCount (t.flatMap fun (e : (Nat × Nat) × ChipInfo) => minimalRes (some e.1) (localCores g e.2) none) xy p = 0 := by
    intro t ht
    induction t with
    | nil => rfl
    | cons e t ih =>
      rw [List.flatMap_cons, coverCount_append, ih (fun e' he' => ht e' (by simp [he'])),
        coverCount_of_chip _ (some e.1) xy p (minimalRes_chip _ _ _)]
      have : e.1 ≠ xy := ht e (by simp)
      simp [this]
  induction l with
  | nil => cases h
  | cons e t ih =>
    simp only [List.map_cons, List.nodup_cons] at hnd
    rw [List.flatMap_cons, coverCount_append, coverCount_of_chip _ (some e.1) xy p (minimalRes_chip _ _ _)]
    simp only [List.mem_cons] at h
    rcases h with h | h
    · subst h
      rw [hother t (fun e' he' heq => hnd.1 (List.mem_map.2 ⟨e', he', heq⟩))]
      simp
    · have hne : e.1 ≠ xy := fun heq => hnd.1 (List.mem_map.2 ⟨(xy, ci), h, heq.symm⟩)
      rw [ih hnd.2 h]
      simp [hne]

theorem coreConstraints_eq (si : SysInfo) :
    coreConstraints si =
      minimalRes none (globalCores (globalMask si.chips none)) none ++
      si.chips.flatMap fun (e : (Nat × Nat) × ChipInfo) =>
        minimalRes (some e.1) (localCores (globalMask si.chips none) e.2) none := rfl

/-- **Reservations partition.** -/
theorem reservations_partition_lem (si : SysInfo) (hnd : (si.chips.map (·.1)).Nodup)
    (h18 : ∀ xy ci, (xy, ci) ∈ si.chips → ci.coreStates.length ≤ 18)
    (xy : Nat × Nat) (ci : ChipInfo) (h : (xy, ci) ∈ si.chips) (p : Nat) :
    coverCount (coreConstraints si) xy p = if busy ci p = true then 1 else 0 := by
  rw [coreConstraints_eq, coverCount_append, coverCount_flatMap _ _ hnd xy ci h,
    coverCount_of_chip _ none xy p (minimalRes_chip _ _ _),
    minimalRes_cnt _ _ _ (globalCores_pw _), minimalRes_cnt _ _ _ (localCores_pw _ _)]
  simp only [true_or, if_true, mem_globalCores, mem_localCores]
  have hg := testBit_globalMask si.chips p
  have hall : (si.chips.all fun e => busy e.2 p) = true → busy ci p = true := by
    intro ha
    rw [List.all_eq_true] at ha
    exact ha (xy, ci) h
  have hlen := h18 xy ci h
  cases hb : busy ci p
  · have : (globalMask si.chips none).testBit p = false := by
      rw [hg]
      cases hall' : (si.chips.all fun e => busy e.2 p)
      · simp
      · rw [hall hall'] at hb; cases hb
    simp [this]
  · have hp18 : p < 18 := by
      simp only [busy] at hb
      cases hget : ci.coreStates[p]? with
      | none => simp [hget] at hb
      | some s =>
        have := (List.getElem?_eq_some_iff.1 hget).1
        omega
    cases hgb : (globalMask si.chips none).testBit p
    · simp [hp18]
    · simp [hp18]

end Rig.C14
