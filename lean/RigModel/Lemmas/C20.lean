/-
C20 - helper lemmas: byte swap, block loop, transmit, splice.
-/
import RigModel.Model.C20
set_option linter.unusedSimpArgs false
set_option linter.unusedVariables false

namespace Rig.C20
open Rig.Gen.C20Boot

/-! ### byte swap -/

theorem swapWords_length (l : List Nat) : (swapWords l).length = l.length := by
  fun_induction swapWords l with
  | case1 a b c d rest ih => simp [ih]
  | case2 rest h => rfl

theorem swapWords_swapWords (l : List Nat) : swapWords (swapWords l) = l := by
  fun_induction swapWords l with
  | case1 a b c d rest ih => simp [swapWords, ih]
  | case2 rest h =>
    match rest, h with
    | [], _ => rfl
    | [_], _ => rfl
    | [_, _], _ => rfl
    | [_, _, _], _ => rfl
    | a :: b :: c :: d :: r, h => exact absurd rfl (h a b c d r)

theorem swapWords_append (a b : List Nat) (h : a.length % 4 = 0) :
    swapWords (a ++ b) = swapWords a ++ swapWords b := by
  fun_induction swapWords a with
  | case1 x y z w rest ih =>
    have : rest.length % 4 = 0 := by simp at h; omega
    simp [swapWords, ih this]
  | case2 rest hne =>
    match rest, hne, h with
    | [], _, _ => simp [swapWords]
    | [_], _, h => simp at h
    | [_, _], _, h => simp at h
    | [_, _, _], _, h => simp at h
    | a :: b :: c :: d :: r, hne, _ => exact absurd rfl (hne a b c d r)

theorem headerV_length (v c a1 a2 a3 : Nat) : (headerV v c a1 a2 a3).length = 18 := by
  simp [headerV, be16, be32]

theorem header_eq (c a1 a2 a3 : Nat) : header c a1 a2 a3 = headerV 1 c a1 a2 a3 := rfl

theorem or_block : ∀ b, b < 256 → ((BOOT_WORD_SIZE - 1) <<< 8) ||| b = 255 * 256 + b := by
  decide +kernel

theorem or_block' : ∀ b, b < 256 → 65280 ||| b = 65280 + b := by
  decide +kernel

/-! ### the block loop -/

theorem sendBlocks_sends (fuel : Nat) : ∀ (data : List Nat) (b : Nat), data.length ≤ fuel →
    data.length % 4 = 0 → b + (data.length + 1023) / 1024 ≤ 256 →
    (sendBlocks fuel data b).2 = none ∧
    sends (sendBlocks fuel data b).1 = (List.range ((data.length + 1023) / 1024)).map (blockDg data b) := by
  induction fuel with
  | zero =>
    intro data b hf h4 hb
    have : data = [] := List.eq_nil_of_length_eq_zero (by omega)
    subst this
    simp [sendBlocks, sends]
  | succ fuel ih =>
    intro data b hf h4 hb
    by_cases hd : data = []
    · subst hd; simp [sendBlocks, sends]
    · have hpos : 0 < data.length := List.length_pos_iff.mpr hd
      have htake : (data.take 1024).length % 4 = 0 := by
        rw [List.length_take]; omega
      have hn : (data.length + 1023) / 1024 = ((data.drop 1024).length + 1023) / 1024 + 1 := by
        rw [List.length_drop]; omega
      have hb' : b < 256 := by omega
      obtain ⟨e1, e2⟩ := ih (data.drop 1024) (b + 1) (by rw [List.length_drop]; omega)
        (by rw [List.length_drop]; omega) (by omega)
      simp only [sendBlocks, hd, if_false, bootPacket, htake, if_true, e1, sends, e2]
      refine ⟨trivial, ?_⟩
      rw [hn, List.range_succ_eq_map, List.map_cons, List.map_map]
      congr 1
      · simp [blockDg, payload, header_eq, or_block' b hb']
      · apply List.map_congr_left
        intro i _
        simp only [blockDg, payload, Function.comp, List.drop_drop]
        have e3 : 1024 + 1024 * i = 1024 * (i + 1) := by omega
        have e4 : b + 1 + i = b + (i + 1) := by omega
        rw [e3, e4]

theorem sends_append (a b : List Event) : sends (a ++ b) = sends a ++ sends b := by
  induction a with
  | nil => rfl
  | cons e r ih => cases e <;> simp [sends, ih]

theorem transmit_ok (host : String) (port : Nat) (buf : List Nat)
    (h4 : buf.length % 4 = 0) (hlen : buf.length < 32768) :
    (transmit host port buf).2 = none ∧ sends (transmit host port buf).1 = bootDatagrams buf ∧
    (transmit host port buf).1.head? = some (.connect host port) := by
  obtain ⟨e1, e2⟩ := sendBlocks_sends buf.length buf 0 (Nat.le_refl _) h4 (by omega)
  have hn : nBlocks buf = (buf.length + 1023) / 1024 := by simp [nBlocks]
  simp only [transmit, bootPacket, List.length_nil, Nat.zero_mod, if_true, swapWords, List.append_nil]
  rcases hsb : sendBlocks buf.length buf 0 with ⟨evs, e⟩
  rw [hsb] at e1 e2
  simp only at e1 e2
  subst e1
  simp only [sends, sends_append, e2, hn, bootDatagrams, header_eq, List.head?_cons, and_self, and_true,
    true_and]
  simp [sends]

/-! ### configuration splice -/

theorem bootImage_eq (image packed : List Nat) :
    bootImage image packed = image.take 384 ++ packed.take 128 ++ image.drop 512 := by
  simp [bootImage, splice, BOOT_DATA_OFFSET, BOOT_DATA_LENGTH]

theorem bootImage_length (image packed : List Nat) (hi : 512 ≤ image.length) (hp : 128 ≤ packed.length) :
    (bootImage image packed).length = image.length := by
  simp [bootImage_eq, List.length_take, List.length_drop]; omega

theorem bootImage_take (image packed : List Nat) (hi : 512 ≤ image.length) :
    (bootImage image packed).take 384 = image.take 384 := by
  rw [bootImage_eq, List.append_assoc]
  exact List.take_left' (by rw [List.length_take]; omega)

theorem bootImage_config (image packed : List Nat) (hi : 512 ≤ image.length) (hp : 128 ≤ packed.length) :
    ((bootImage image packed).drop 384).take 128 = packed.take 128 := by
  rw [bootImage_eq, List.append_assoc, List.drop_left' (by rw [List.length_take]; omega)]
  exact List.take_left' (by rw [List.length_take]; omega)

theorem bootImage_drop (image packed : List Nat) (hi : 512 ≤ image.length) (hp : 128 ≤ packed.length) :
    (bootImage image packed).drop 512 = image.drop 512 := by
  rw [bootImage_eq]
  exact List.drop_left' (by simp [List.length_take]; omega)

/-! ### reassembly -/

theorem flatten_payloads : ∀ (n : Nat) (buf : List Nat), buf.length ≤ 1024 * n →
    ((List.range n).map (payload buf)).flatten = buf := by
  intro n
  induction n with
  | zero => intro buf h; have : buf = [] := List.eq_nil_of_length_eq_zero (by omega); simp [this]
  | succ n ih =>
    intro buf h
    rw [List.range_succ_eq_map, List.map_cons, List.map_map, List.flatten_cons]
    have e : (payload buf ∘ Nat.succ) = payload (buf.drop 1024) := by
      funext i
      simp only [Function.comp, payload, List.drop_drop]
      have : 1024 + 1024 * i = 1024 * i.succ := by omega
      rw [this]
    rw [e, ih (buf.drop 1024) (by rw [List.length_drop]; omega)]
    simp [payload]

theorem reassemble_bootDatagrams (buf : List Nat) : reassemble (bootDatagrams buf) = buf := by
  simp only [reassemble, bootDatagrams, List.drop_succ_cons, List.drop_zero, List.dropLast_concat,
    List.map_map]
  have e : ((fun b => swapWords (List.drop 18 b)) ∘ blockDg buf 0) = payload buf := by
    funext i
    simp only [Function.comp, blockDg]
    rw [List.drop_left' (headerV_length _ _ _ _ _), swapWords_swapWords]
  rw [e]
  exact flatten_payloads _ buf (by omega)

theorem payload_length (buf : List Nat) (i : Nat) : (payload buf i).length ≤ 1024 := by
  simp [payload, List.length_take]; omega

theorem payload_length_mod (buf : List Nat) (i : Nat) (h : buf.length % 4 = 0) :
    (payload buf i).length % 4 = 0 := by
  simp only [payload, List.length_take, List.length_drop]; omega

theorem shapeOK_bootDatagrams (buf : List Nat) (h4 : buf.length % 4 = 0) (hpos : 0 < buf.length) :
    shapeOK (bootDatagrams buf) = true := by
  have hn : 1 ≤ (buf.length + 1023) / 1024 := by omega
  simp only [shapeOK, bootDatagrams, List.getLast?_concat, List.dropLast_concat, List.length_map,
    List.length_range, Bool.and_eq_true, decide_eq_true_eq, beq_self_eq_true, List.all_eq_true,
    List.mem_range, and_true, true_and]
  refine ⟨hn, ?_⟩
  intro i hi
  have : ((List.range ((buf.length + 1023) / 1024)).map (blockDg buf 0)).getD i [] = blockDg buf 0 i := by
    simp [List.getD_eq_getElem?_getD, List.getElem?_map, List.getElem?_range hi]
  rw [this]
  have hl := payload_length buf i
  have hm := payload_length_mod buf i h4
  simp only [blockDg, Nat.zero_add, List.take_left' (headerV_length _ _ _ _ _), beq_self_eq_true,
    List.length_append, headerV_length, swapWords_length, true_and]
  omega

/-! ### the body of `boot` -/

theorem bootCore_ok (c : Call) (opts : Dict) (hd : c.ImageDomain) (fs : List Field) (packed : List Nat)
    (hf : finalFields c opts = .ok fs) (hp : structPack c.svSize fs = .ok packed)
    (hl : 128 ≤ packed.length) :
    (bootCore c opts).result = .ok fs ∧
    sends (bootCore c opts).events = bootDatagrams (bootImage c.image packed) ∧
    (bootCore c opts).events.head? = some (.connect c.host c.port) := by
  obtain ⟨h4, h512, hlt⟩ := hd
  have hlen := bootImage_length c.image packed h512 hl
  obtain ⟨t1, t2, t3⟩ := transmit_ok c.host c.port (bootImage c.image packed) (by omega) (by omega)
  have n1 : ¬ packed.length < 128 := by omega
  have n2 : (bootImage c.image packed).length < DTCM_SIZE := by simp only [DTCM_SIZE]; omega
  rcases ht : transmit c.host c.port (bootImage c.image packed) with ⟨evs, e⟩
  rw [ht] at t1 t2 t3
  simp only at t1 t2 t3
  subst t1
  simp only [bootCore, hf, hp, n1, n2, if_false, not_true_eq_false, ht]
  exact ⟨by first | rfl | trivial, t2, t3⟩

theorem bootCore_result_ok (c : Call) (opts : Dict) (fs : List Field)
    (h : (bootCore c opts).result = .ok fs) :
    finalFields c opts = .ok fs ∧ ∃ packed, structPack c.svSize fs = .ok packed ∧ 128 ≤ packed.length := by
  unfold bootCore at h
  split at h
  · cases h
  · rename_i fs' hf
    split at h
    · cases h
    · rename_i packed hp
      split at h
      · cases h
      · rename_i hl
        dsimp only at h
        split at h
        · cases h
        · split at h
          · cases h
          · cases h
            exact ⟨hf, packed, hp, by omega⟩

end Rig.C20
