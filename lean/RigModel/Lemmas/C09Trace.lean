/-
C09 helper lemmas, part 6: which requests `load_application` puts on the wire - no signal packet
before the final start signal.
-/
import RigModel.Lemmas.C09Loop
set_option linter.unusedSimpArgs false
set_option linter.unusedVariables false

namespace Rig.C09
open Rig.Gen.Load Rig.Gen.Scp

theorem notSig_of_cmd (r : Req) (h : r.cmd ≠ cmdSignal) : isSignalPkt r = false := by
  unfold isSignalPkt decode
  by_cases h1 : r.cmd = cmdNnp
  · rw [if_pos h1]
    by_cases a1 : r.arg1 / 16777216 % 256 = nnFfs
    · simp only [if_pos a1]
    · by_cases a2 : r.arg1 / 16777216 % 256 = nnFfcs
      · simp only [if_neg a1, if_pos a2]
      · by_cases a3 : r.arg1 / 16777216 % 256 = nnFfe
        · simp only [if_neg a1, if_neg a2, if_pos a3]
        · simp only [if_neg a1, if_neg a2, if_neg a3]
  · rw [if_neg h1]
    by_cases h2 : r.cmd = cmdFfd
    · rw [if_pos h2]
    · rw [if_neg h2, if_neg h]
      by_cases h3 : r.cmd = cmdRead
      · rw [if_pos h3]
      · rw [if_neg h3]

theorem notSig_count (st appId : Nat) : isSignalPkt (countReq st appId) = false := by
  unfold isSignalPkt decode
  have h1 : (countReq st appId).cmd = cmdSignal := rfl
  have h2 : (countReq st appId).arg1 = diagCountType := rfl
  have n1 : ¬ cmdSignal = cmdNnp := by decide
  have n2 : ¬ cmdSignal = cmdFfd := by decide
  have n3 : ¬ diagCountType = sigStartType := by decide
  simp only [h1, h2, n1, n2, n3, if_false, if_true, true_and]
  by_cases hc : (countReq st appId).arg2 / 1048576 % 4 = diagCount ∧ (countReq st appId).arg2 / 4194304 % 4 = 1
  · simp only [hc, and_self, if_true]
  · simp only [hc, if_false]

/-- `s'` extends the request log of `s` by entries that are not signal packets -/
def ExtNoSig (s s' : Sim) : Prop :=
  ∃ added : List (Req × Reply), s'.trace = added ++ s.trace ∧ ∀ e ∈ added, isSignalPkt e.1 = false

theorem ExtNoSig.refl (s : Sim) : ExtNoSig s s := ⟨[], rfl, fun _ h => absurd h (by simp)⟩

theorem ExtNoSig.of_trace_eq {s s' : Sim} (h : s'.trace = s.trace) : ExtNoSig s s' :=
  ⟨[], by simpa using h, fun _ h => absurd h (by simp)⟩

theorem ExtNoSig.trans {s1 s2 s3 : Sim} (h1 : ExtNoSig s1 s2) (h2 : ExtNoSig s2 s3) : ExtNoSig s1 s3 := by
  obtain ⟨a1, e1, p1⟩ := h1
  obtain ⟨a2, e2, p2⟩ := h2
  refine ⟨a2 ++ a1, by rw [e2, e1, List.append_assoc], fun e he => ?_⟩
  rcases List.mem_append.mp he with h | h
  · exact p2 e h
  · exact p1 e h

theorem ext_send (mc : MCfg) (s : Sim) (r : Req) (h : isSignalPkt r = false) : ExtNoSig s (s.send mc r).1 :=
  ⟨[(r, (step mc s.m r).2)], rfl, fun e he => by simp only [List.mem_singleton] at he; subst he; exact h⟩

theorem ext_sendAll (mc : MCfg) : ∀ (rs : List Req) (s : Sim), (∀ r ∈ rs, isSignalPkt r = false) →
    ExtNoSig s (sendAll mc s rs) := by
  intro rs
  induction rs with
  | nil => intro s _; exact ExtNoSig.refl s
  | cons r rs ih =>
    intro s h
    have h1 := ext_send mc s r (h r (by simp))
    have h2 := ih (s.send mc r).1 (fun r' hr' => h r' (by simp [hr']))
    simp only [sendAll, List.foldl_cons] at h2 ⊢
    exact h1.trans h2

theorem ext_readMem (mc : MCfg) (buf : Nat) (s : Sim) (x y addr len : Nat) :
    ExtNoSig s (readMem mc buf s x y addr len).1 := by
  rw [readMem_eq]
  suffices h : ∀ (cs : List C07.Chunk) (acc : Sim × List Nat), ExtNoSig acc.1 (cs.foldl (readStep mc x y) acc).1 from
    h _ (s, [])
  intro cs
  induction cs with
  | nil => intro acc; exact ExtNoSig.refl _
  | cons c cs ih =>
    intro acc
    simp only [List.foldl_cons]
    refine ExtNoSig.trans ?_ (ih (readStep mc x y acc c))
    exact ext_send mc acc.1 _ (notSig_of_cmd _ (by show cmdRead ≠ cmdSignal; decide))

theorem ffdReqs_cmd (pid buf : Nat) : ∀ (fuel block addr : Nat) (data : List Nat),
    ∀ r ∈ ffdReqs pid buf fuel block addr data, r.cmd = cmdFfd := by
  intro fuel
  induction fuel with
  | zero => intro _ _ _ r h; simp [ffdReqs] at h
  | succ fuel ih =>
    intro block addr data r h
    unfold ffdReqs at h
    split at h
    · simp only [List.mem_cons] at h
      rcases h with rfl | h
      · rfl
      · exact ih _ _ _ r h
    · simp at h

theorem ext_floodFillOne (mc : MCfg) (c : Ctl) (flags : Nat) (s : Sim) (a : App) :
    ExtNoSig s (floodFillOne mc c flags s a) := by
  simp only [floodFillOne]
  have h0 : ExtNoSig s { s with nn := nextNn s.nn } := ExtNoSig.of_trace_eq rfl
  refine h0.trans ((ext_sendAll mc _ _ ?_).trans ((ext_readMem mc c.buf _ 255 255 _ 4).trans (ext_sendAll mc _ _ ?_)))
  · intro r hr
    apply notSig_of_cmd
    simp only [fillHead, List.mem_cons, List.mem_map] at hr
    rcases hr with rfl | ⟨rm, _, rfl⟩ <;> (show cmdNnp ≠ cmdSignal; decide)
  · intro r hr
    apply notSig_of_cmd
    simp only [fillTail, List.mem_append, List.mem_singleton] at hr
    rcases hr with h | rfl
    · rw [ffdReqs_cmd _ _ _ _ _ _ r h]; decide
    · show cmdNnp ≠ cmdSignal; decide

theorem ext_floodFill (mc : MCfg) (c : Ctl) (wait : Bool) : ∀ (apps : List App) (s : Sim),
    ExtNoSig s (floodFill mc c wait s apps) := by
  intro apps
  induction apps with
  | nil => intro s; exact ExtNoSig.refl s
  | cons a as ih =>
    intro s
    simp only [floodFill, List.foldl_cons] at ih ⊢
    exact (ext_floodFillOne mc c _ s a).trans (ih _)

theorem ext_readCpuState (mc : MCfg) (buf : Nat) (s : Sim) (x y p : Nat) :
    ExtNoSig s (readCpuState mc buf s x y p).1 := by
  simp only [readCpuState]
  exact (ext_readMem mc buf s x y _ 4).trans (ext_readMem mc buf _ x y _ 1)

theorem ext_checkCores (mc : MCfg) (buf x y : Nat) : ∀ (ps : List Nat) (s : Sim),
    ExtNoSig s (checkCores mc buf x y s ps).1 := by
  intro ps
  induction ps with
  | nil => intro s; exact ExtNoSig.refl s
  | cons p ps ih =>
    intro s
    simp only [checkCores]
    exact (ext_readCpuState mc buf s x y p).trans (ih _)

theorem ext_checkTargets (mc : MCfg) (buf : Nat) : ∀ (ts : List (Nat × Nat × List Nat)) (s : Sim),
    ExtNoSig s (checkTargets mc buf s ts).1 := by
  intro ts
  induction ts with
  | nil => intro s; exact ExtNoSig.refl s
  | cons t ts ih =>
    intro s
    obtain ⟨x, y, cs⟩ := t
    simp only [checkTargets]
    exact (ext_checkCores mc buf x y cs s).trans (ih _)

theorem ext_checkApps (mc : MCfg) (buf : Nat) : ∀ (as : List App) (s : Sim),
    ExtNoSig s (checkApps mc buf s as).1 := by
  intro as
  induction as with
  | nil => intro s; exact ExtNoSig.refl s
  | cons a as ih =>
    intro s
    simp only [checkApps]
    exact (ext_checkTargets mc buf a.targets s).trans (ih _)

/-- the retry loop sends no signal packet, whatever the machine does -/
theorem ext_loadLoop (mc : MCfg) (c : Ctl) (total : Nat) : ∀ (fuel : Nat) (s : Sim) (tries : Nat) (unl : List App)
    (sent : List (List App)), ExtNoSig s (loadLoop mc c total fuel s tries unl sent).1 := by
  intro fuel
  induction fuel with
  | zero => intro s _ _ _; exact ExtNoSig.refl s
  | succ fuel ih =>
    intro s tries unl sent
    rw [loadLoop]
    by_cases hcond : unl ≠ [] ∧ tries ≤ c.nTries
    · rw [if_pos hcond]
      have hf := ext_floodFill mc c true unl s
      have hc := ext_send mc (floodFill mc c true s unl) (countReq stWait c.appId) (notSig_count _ _)
      by_cases hu : c.useCount = true
      · simp only [hu, if_true]
        generalize hsend : (floodFill mc c true s unl).send mc (countReq stWait c.appId) = o at hc
        obtain ⟨s', rp⟩ := o
        have hc' : ExtNoSig (floodFill mc c true s unl) s' := hc
        cases rp with
        | count n =>
          simp only []
          split
          · exact hf.trans (hc'.trans (ih _ _ _ _))
          · exact hf.trans (hc'.trans ((ext_checkApps mc c.buf unl _).trans (ih _ _ _ _)))
        | ok => exact hf.trans (hc'.trans ((ext_checkApps mc c.buf unl _).trans (ih _ _ _ _)))
        | data b => exact hf.trans (hc'.trans ((ext_checkApps mc c.buf unl _).trans (ih _ _ _ _)))
        | unmodelled => exact hf.trans (hc'.trans ((ext_checkApps mc c.buf unl _).trans (ih _ _ _ _)))
      · have hu' : c.useCount = false := by simpa using hu
        simp only [hu', Bool.false_eq_true, if_false]
        exact hf.trans ((ext_checkApps mc c.buf unl _).trans (ih _ _ _ _))
    · rw [if_neg hcond]
      exact ExtNoSig.refl s

end Rig.C09
