/-
Facts about the dict support of the translated Python functions (`Gen/PyFun.lean`: `pyDictGet`, `pyDictGetD`,
`pyDictSet`, `pyDictMod` on association lists), used by Props/C05Gen.lean.
-/
import RigModel.Gen.PyFun

namespace Rig.PyDict
open Rig.Gen.PyFun

variable {κ α : Type} [BEq κ] [LawfulBEq κ]

theorem lookup_pyDictSet (d : List (κ × α)) (k k' : κ) (v : α) :
    (pyDictSet d k v).lookup k' = if k' == k then some v else d.lookup k' := by
  induction d with
  | nil =>
    simp only [pyDictSet, List.lookup]
    cases h : (k' == k) <;> simp
  | cons a t ih =>
    obtain ⟨a1, a2⟩ := a
    simp only [pyDictSet]
    by_cases h1 : (a1 == k) = true
    · have e1 : a1 = k := eq_of_beq h1
      subst e1
      simp only [h1, if_true, List.lookup]
      cases h : (k' == a1) <;> simp
    · simp only [h1, Bool.false_eq_true, if_false, List.lookup, ih]
      cases h : (k' == a1)
      · simp
      · have e2 : k' = a1 := eq_of_beq h
        subst e2
        have : (k' == k) = false := by simpa using h1
        simp [this]

theorem lookup_pyDictSet_self (d : List (κ × α)) (k : κ) (v : α) : (pyDictSet d k v).lookup k = some v := by
  simp [lookup_pyDictSet]

theorem lookup_pyDictSet_ne (d : List (κ × α)) {k k' : κ} (v : α) (h : k' ≠ k) :
    (pyDictSet d k v).lookup k' = d.lookup k' := by
  have : (k' == k) = false := by simpa using h
  simp [lookup_pyDictSet, this]

/-- a new key goes to the end -/
theorem pyDictSet_of_lookup_none (d : List (κ × α)) (k : κ) (v : α) (h : d.lookup k = none) :
    pyDictSet d k v = d ++ [(k, v)] := by
  induction d with
  | nil => rfl
  | cons a t ih =>
    obtain ⟨a1, a2⟩ := a
    simp only [List.lookup] at h
    cases hk : (k == a1)
    · rw [hk] at h
      have : (a1 == k) = false := by rw [BEq.comm]; exact hk
      simp only [pyDictSet, this, Bool.false_eq_true, if_false, ih h, List.cons_append]
    · rw [hk] at h; simp at h

theorem lookup_pyDictMod (d : List (κ × α)) (k k' : κ) (dflt : α) (f : α → α) :
    (pyDictMod d k dflt f).lookup k' = if k' == k then some (f ((d.lookup k).getD dflt)) else d.lookup k' := by
  simp [pyDictMod, pyDictGetD, lookup_pyDictSet]

theorem pyDictGet_eq (d : List (κ × α)) (k : κ) :
    pyDictGet d k = match d.lookup k with | some v => Except.ok v | none => Except.error "KeyError" := rfl

end Rig.PyDict
