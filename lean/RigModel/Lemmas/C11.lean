/-
C11 - helper lemmas: hexagonal norm, walks in the mesh, lifting torus walks.
-/
import RigModel.Model.C11
set_option linter.unusedSimpArgs false
set_option linter.unusedVariables false

namespace Rig.C11

theorem mem_hexSteps {d : P2} (h : d ∈ hexSteps) :
    d = (1, 0) ∨ d = (1, 1) ∨ d = (0, 1) ∨ d = (-1, 0) ∨ d = (-1, -1) ∨ d = (0, -1) := by
  simpa [hexSteps] using h

/-- the hexagonal norm changes by at most one over each of the six unit steps -/
theorem hexLen_lipschitz (x y : Int) {d : P2} (h : d ∈ hexSteps) :
    hexLen (x + d.1) (y + d.2) ≤ hexLen x y + 1 ∧ hexLen x y ≤ hexLen (x + d.1) (y + d.2) + 1 := by
  rcases mem_hexSteps h with rfl | rfl | rfl | rfl | rfl | rfl <;> simp only [hexLen] <;> omega

theorem hexLen_nonneg (x y : Int) : 0 ≤ hexLen x y := by simp only [hexLen]; omega

@[simp] theorem stepTo_none (p d : P2) : stepTo none none p d = (p.1 + d.1, p.2 + d.2) := rfl

/-- lower bound: a mesh walk of n hops covers hexagonal norm at most n -/
theorem reach_mesh_lower {n : Nat} {a b : P2} (h : Reach none none n a b) :
    hexLen (b.1 - a.1) (b.2 - a.2) ≤ n := by
  induction h with
  | refl a => simp [hexLen]
  | @step n a b d hr hd ih =>
    simp only [stepTo_none]
    have e1 : b.1 + d.1 - a.1 = b.1 - a.1 + d.1 := by omega
    have e2 : b.2 + d.2 - a.2 = b.2 - a.2 + d.2 := by omega
    rw [e1, e2]
    have := (hexLen_lipschitz (b.1 - a.1) (b.2 - a.2) hd).1
    omega

/-- k further hops along one direction -/
theorem reach_line {w h : Option Int} {n : Nat} {a b : P2} (hr : Reach w h n a b) {d : P2} (hd : d ∈ hexSteps) :
    ∀ k : Nat, Reach w h (n + k) a (posAfter w h d k b) := by
  intro k
  induction k generalizing n b with
  | zero => exact hr
  | succ k ih =>
    have := ih (Reach.step d hr hd)
    simpa [posAfter, Nat.add_assoc, Nat.add_comm 1 k] using this

theorem posAfter_none (d : P2) (k : Nat) (b : P2) :
    posAfter none none d k b = (b.1 + k * d.1, b.2 + k * d.2) := by
  induction k generalizing b with
  | zero => simp [posAfter]
  | succ k ih =>
    simp only [posAfter, ih, stepTo_none]
    have : ((k + 1 : Nat) : Int) = (k : Int) + 1 := by omega
    rw [this, Int.add_mul, Int.add_mul]
    ext <;> simp <;> omega

/-- two straight segments -/
theorem reach_two (a : P2) {d1 d2 : P2} (h1 : d1 ∈ hexSteps) (h2 : d2 ∈ hexSteps) (k1 k2 : Nat) :
    Reach none none (k1 + k2) a (a.1 + k1 * d1.1 + k2 * d2.1, a.2 + k1 * d1.2 + k2 * d2.2) := by
  have r1 := reach_line (Reach.refl (w := none) (h := none) a) h1 k1
  have r2 := reach_line r1 h2 k2
  simpa [posAfter_none] using r2

/-- upper bound: the explicit walk of `hexLen x y` hops -/
theorem reach_mesh_upper (a : P2) (x y : Int) :
    Reach none none (hexLen x y).toNat a (a.1 + x, a.2 + y) := by
  have conv : ∀ {n m : Nat} {p q : P2}, Reach none none n a p → n = m → p = q → Reach none none m a q := by
    intro n m p q h e1 e2; subst e1; subst e2; exact h
  by_cases hx : 0 ≤ x <;> by_cases hy : 0 ≤ y
  · by_cases hxy : y ≤ x
    · refine conv (reach_two a (d1 := (1, 1)) (d2 := (1, 0)) (by decide) (by decide) y.toNat (x - y).toNat) ?_ ?_
      · simp only [hexLen]; omega
      · ext <;> simp <;> omega
    · refine conv (reach_two a (d1 := (1, 1)) (d2 := (0, 1)) (by decide) (by decide) x.toNat (y - x).toNat) ?_ ?_
      · simp only [hexLen]; omega
      · ext <;> simp <;> omega
  · refine conv (reach_two a (d1 := (1, 0)) (d2 := (0, -1)) (by decide) (by decide) x.toNat (-y).toNat) ?_ ?_
    · simp only [hexLen]; omega
    · ext <;> simp <;> omega
  · refine conv (reach_two a (d1 := (-1, 0)) (d2 := (0, 1)) (by decide) (by decide) (-x).toNat y.toNat) ?_ ?_
    · simp only [hexLen]; omega
    · ext <;> simp <;> omega
  · by_cases hxy : y ≤ x
    · refine conv (reach_two a (d1 := (-1, -1)) (d2 := (0, -1)) (by decide) (by decide) (-x).toNat (x - y).toNat) ?_ ?_
      · simp only [hexLen]; omega
      · ext <;> simp <;> omega
    · refine conv (reach_two a (d1 := (-1, -1)) (d2 := (-1, 0)) (by decide) (by decide) (-y).toNat (y - x).toNat) ?_ ?_
      · simp only [hexLen]; omega
      · ext <;> simp <;> omega

/-! ### torus -/

theorem wrap_some_pos {m : Int} (hm : 0 < m) (c : Int) : wrap c (some m) = c % m := by
  simp [wrap, pyMod, Int.fmod_eq_emod_of_nonneg _ (Int.le_of_lt hm)]

theorem stepTo_some {w h : Int} (hw : 0 < w) (hh : 0 < h) (p d : P2) :
    stepTo (some w) (some h) p d = ((p.1 + d.1) % w, (p.2 + d.2) % h) := by
  simp [stepTo, wrap_some_pos hw, wrap_some_pos hh]

/-- projection: a mesh walk wraps to a torus walk -/
theorem reach_project {w h : Int} (hw : 0 < w) (hh : 0 < h) {n : Nat} {a b : P2}
    (r : Reach none none n a b) :
    Reach (some w) (some h) n (a.1 % w, a.2 % h) (b.1 % w, b.2 % h) := by
  induction r with
  | refl a => exact Reach.refl _
  | @step n a b d hr hd ih =>
    have := Reach.step d ih hd
    rw [stepTo_some hw hh] at this
    simpa [Int.emod_add_emod] using this

/-- lifting: a torus walk is the image of a mesh walk of the same number of hops -/
theorem reach_lift {w h : Int} (hw : 0 < w) (hh : 0 < h) {n : Nat} {a b : P2}
    (r : Reach (some w) (some h) n a b) :
    ∃ k l : Int, Reach none none n a (b.1 + w * k, b.2 + h * l) := by
  induction r with
  | refl a => exact ⟨0, 0, by simpa using Reach.refl a⟩
  | @step n a b d hr hd ih =>
    obtain ⟨k, l, ih⟩ := ih
    refine ⟨k + (b.1 + d.1) / w, l + (b.2 + d.2) / h, ?_⟩
    have := Reach.step d ih hd
    rw [stepTo_some hw hh]
    simp only [stepTo_none] at this
    have e1 : (b.1 + d.1) % w + w * (k + (b.1 + d.1) / w) = b.1 + w * k + d.1 := by
      rw [Int.emod_def, Int.mul_add]; omega
    have e2 : (b.2 + d.2) % h + h * (l + (b.2 + d.2) / h) = b.2 + h * l + d.2 := by
      rw [Int.emod_def, Int.mul_add]; omega
    simp only [e1, e2]
    exact this

theorem mul_cases (w k : Int) (hw : 0 < w) : w * k = 0 ∨ w * k = -w ∨ w ≤ w * k ∨ w * k ≤ -2 * w := by
  have : k = 0 ∨ k = -1 ∨ 1 ≤ k ∨ k ≤ -2 := by omega
  rcases this with rfl | rfl | h | h
  · simp
  · right; left; omega
  · right; right; left
    have := Int.mul_le_mul_of_nonneg_left h (Int.le_of_lt hw)
    omega
  · right; right; right
    have := Int.mul_le_mul_of_nonneg_left h (Int.le_of_lt hw)
    omega

/-- the closed form computed by `shortest_torus_path_length` on the reduced displacement -/
def torusF (x y w h : Int) : Int :=
  let length := if x > y then x else y
  let wrapX := w - x + y
  let length := if wrapX < length then wrapX else length
  let wrapY := x + h - y
  let length := if wrapY < length then wrapY else length
  let dx := w - x
  let dy := h - y
  let wrapXY := if dx > dy then dx else dy
  if wrapXY < length then wrapXY else length

theorem torusF_eq (x y w h : Int) :
    torusF x y w h = min (min (max x y) (w - x + y)) (min (x + h - y) (max (w - x) (h - y))) := by
  simp only [torusF]
  repeat' split
  all_goals omega

/-- every lift of the displacement is at least as long as the closed form -/
theorem lift_ge (x y w h : Int) (hx : 0 ≤ x) (hxw : x < w) (hy : 0 ≤ y) (hyh : y < h) (k l : Int) :
    torusF x y w h ≤ hexLen (x + w * k) (y + h * l) := by
  rw [torusF_eq]
  have hk := mul_cases w k (by omega)
  have hl := mul_cases h l (by omega)
  generalize w * k = K at hk
  generalize h * l = L at hl
  simp only [hexLen]
  rcases hk with hk | hk | hk | hk <;> rcases hl with hl | hl | hl | hl <;> omega

/-- the closed form is the hexagonal norm of one of the four nearest lifts -/
theorem torusF_is_lift (x y w h : Int) (hx : 0 ≤ x) (hxw : x < w) (hy : 0 ≤ y) (hyh : y < h) :
    ∃ e f : Int, (e = 0 ∨ e = 1) ∧ (f = 0 ∨ f = 1) ∧ torusF x y w h = hexLen (x - e * w) (y - f * h) := by
  rw [torusF_eq]
  by_cases h1 : min (min (max x y) (w - x + y)) (min (x + h - y) (max (w - x) (h - y))) = max x y
  · exact ⟨0, 0, .inl rfl, .inl rfl, by simp only [hexLen]; omega⟩
  by_cases h2 : min (min (max x y) (w - x + y)) (min (x + h - y) (max (w - x) (h - y))) = w - x + y
  · exact ⟨1, 0, .inr rfl, .inl rfl, by simp only [hexLen]; omega⟩
  by_cases h3 : min (min (max x y) (w - x + y)) (min (x + h - y) (max (w - x) (h - y))) = x + h - y
  · exact ⟨0, 1, .inl rfl, .inr rfl, by simp only [hexLen]; omega⟩
  · exact ⟨1, 1, .inr rfl, .inr rfl, by simp only [hexLen]; omega⟩

theorem emod_sub_cong (P Q w : Int) : ∃ j, P % w - Q % w = (P - Q) % w + w * j :=
  ⟨(P - Q) / w - P / w + Q / w, by
    simp only [Int.emod_def, Int.mul_add, Int.mul_sub]; omega⟩

theorem sub_self_emod (t w : Int) : (t - w) % w = t % w := by
  exact Int.sub_emod_right t w

theorem torusLenCore_eq (s d : V3) (w h : Int) (hw : 0 < w) (hh : 0 < h) :
    torusLenCore s d w h = torusF (((proj d).1 - (proj s).1) % w) (((proj d).2 - (proj s).2) % h) w h := by
  have e1 : d.x - s.x - (d.z - s.z) = (proj d).1 - (proj s).1 := by simp only [proj]; omega
  have e2 : d.y - s.y - (d.z - s.z) = (proj d).2 - (proj s).2 := by simp only [proj]; omega
  simp only [torusLenCore, torusF, pyMod, Int.fmod_eq_emod_of_nonneg _ (Int.le_of_lt hw),
    Int.fmod_eq_emod_of_nonneg _ (Int.le_of_lt hh), e1, e2]

theorem torus_dist (A D : P2) (w h : Int) (hw : 0 < w) (hh : 0 < h) :
    0 ≤ torusF ((D.1 - A.1) % w) ((D.2 - A.2) % h) w h ∧
    IsDist (some w) (some h) (A.1 % w, A.2 % h) (D.1 % w, D.2 % h)
      (torusF ((D.1 - A.1) % w) ((D.2 - A.2) % h) w h).toNat := by
  have hx0 := Int.emod_nonneg (D.1 - A.1) (Int.ne_of_gt hw)
  have hx1 := Int.emod_lt_of_pos (D.1 - A.1) hw
  have hy0 := Int.emod_nonneg (D.2 - A.2) (Int.ne_of_gt hh)
  have hy1 := Int.emod_lt_of_pos (D.2 - A.2) hh
  generalize hx : (D.1 - A.1) % w = x at *
  generalize hy : (D.2 - A.2) % h = y at *
  have hnn : 0 ≤ torusF x y w h := by
    have := lift_ge x y w h hx0 hx1 hy0 hy1 0 0
    rw [torusF_eq]; omega
  refine ⟨hnn, ?_, ?_⟩
  · obtain ⟨e, f, he, hf, hF⟩ := torusF_is_lift x y w h hx0 hx1 hy0 hy1
    rw [hF]
    have r := reach_project hw hh (reach_mesh_upper A (x - e * w) (y - f * h))
    have ex : (A.1 + (x - e * w)) % w = D.1 % w := by
      rcases he with rfl | rfl
      · simp only [Int.zero_mul, Int.sub_zero, ← hx, Int.add_emod_emod]; congr 1; omega
      · simp only [Int.one_mul, ← hx]
        rw [show A.1 + ((D.1 - A.1) % w - w) = (A.1 + (D.1 - A.1) % w) - w by omega, sub_self_emod,
          Int.add_emod_emod]; congr 1; omega
    have ey : (A.2 + (y - f * h)) % h = D.2 % h := by
      rcases hf with rfl | rfl
      · simp only [Int.zero_mul, Int.sub_zero, ← hy, Int.add_emod_emod]; congr 1; omega
      · simp only [Int.one_mul, ← hy]
        rw [show A.2 + ((D.2 - A.2) % h - h) = (A.2 + (D.2 - A.2) % h) - h by omega, sub_self_emod,
          Int.add_emod_emod]; congr 1; omega
    simpa only [ex, ey] using r
  · intro m r
    obtain ⟨k, l, rm⟩ := reach_lift hw hh r
    have lb := reach_mesh_lower rm
    simp only at lb
    obtain ⟨j1, h1⟩ := emod_sub_cong D.1 A.1 w
    obtain ⟨j2, h2⟩ := emod_sub_cong D.2 A.2 h
    rw [hx] at h1; rw [hy] at h2
    have e1 : D.1 % w + w * k - A.1 % w = x + w * (j1 + k) := by rw [Int.mul_add]; omega
    have e2 : D.2 % h + h * l - A.2 % h = y + h * (j2 + l) := by rw [Int.mul_add]; omega
    rw [e1, e2] at lb
    have := lift_ge x y w h hx0 hx1 hy0 hy1 (j1 + k) (j2 + l)
    omega

/-! ### vectors -/

/-- minimal form: the median component is zero -/
def Minimal (v : V3) : Prop := max (min v.x v.y) (min (max v.x v.y) v.z) = 0

theorem minimise_spec (v : V3) :
    proj (minimiseXyz v) = proj v ∧ Minimal (minimiseXyz v) ∧
    absSum (minimiseXyz v) = hexLen (proj v).1 (proj v).2 := by
  simp only [minimiseXyz, proj, Minimal, absSum, hexLen]
  refine ⟨by ext <;> simp <;> omega, by omega, by omega⟩

theorem randint_range (lo hi : Int) (t : Nat) (h : lo ≤ hi) :
    lo ≤ randint lo hi t ∧ randint lo hi t ≤ hi := by
  have h1 := Int.emod_nonneg (t : Int) (b := hi - lo + 1) (by omega)
  have h2 := Int.emod_lt_of_pos (t : Int) (b := hi - lo + 1) (by omega)
  simp only [randint]; omega

/-- spiral counts: `r * m` lies between 0 and x -/
theorem spiral_bound (x m : Int) (hm : 0 < m) (t : Nat) :
    let ms := pyDiv (if x < 0 then x + m - 1 else x) m
    let d := randint (min 0 ms) (max 0 ms) t * m
    (0 ≤ x → 0 ≤ d ∧ d ≤ x) ∧ (x < 0 → x ≤ d ∧ d ≤ 0) ∧ ∃ r : Int, d = m * r := by
  intro ms d
  have hr := randint_range (min 0 ms) (max 0 ms) t (by omega)
  generalize hrr : randint (min 0 ms) (max 0 ms) t = r at *
  have hd : d = r * m := by simp only [d, hrr]
  refine ⟨?_, ?_, r, by rw [hd, Int.mul_comm]⟩
  · intro hx
    have hms : ms = x / m := by
      simp only [ms, pyDiv, show ¬ x < 0 by omega, if_false]
      exact Int.fdiv_eq_ediv_of_nonneg _ (Int.le_of_lt hm)
    have h1 : 0 ≤ x / m := Int.ediv_nonneg hx (Int.le_of_lt hm)
    have h2 : x / m * m ≤ x := Int.ediv_mul_le x (Int.ne_of_gt hm)
    have h3 : r * m ≤ x / m * m := Int.mul_le_mul_of_nonneg_right (by omega) (Int.le_of_lt hm)
    have h4 : 0 ≤ r * m := Int.mul_nonneg (by omega) (Int.le_of_lt hm)
    omega
  · intro hx
    have hms : ms = (x + m - 1) / m := by
      simp only [ms, pyDiv, hx, if_true]
      exact Int.fdiv_eq_ediv_of_nonneg _ (Int.le_of_lt hm)
    have h0 := Int.emod_nonneg (x + m - 1) (Int.ne_of_gt hm)
    have h0' := Int.emod_lt_of_pos (x + m - 1) hm
    have h2 : (x + m - 1) / m * m = (x + m - 1) - (x + m - 1) % m := by
      rw [Int.emod_def, Int.mul_comm]; omega
    have h1 : (x + m - 1) / m ≤ 0 := by
      have : (x + m - 1) / m < 1 := Int.ediv_lt_of_lt_mul hm (by omega)
      omega
    have h3 : (x + m - 1) / m * m ≤ r * m := Int.mul_le_mul_of_nonneg_right (by omega) (Int.le_of_lt hm)
    have h4 : r * m ≤ 0 := Int.mul_nonpos_of_nonpos_of_nonneg (by omega) (Int.le_of_lt hm)
    omega

theorem spiral_ok (v : V3) (w h : Int) (hw : 0 < w) (hh : 0 < h) (hv : Minimal v) (t : Nat) :
    absSum (spiral v w h t) = absSum v ∧
    ∃ i j : Int, (proj (spiral v w h t)).1 = (proj v).1 + w * i ∧
      (proj (spiral v w h t)).2 = (proj v).2 + h * j := by
  simp only [spiral]
  split
  · have := spiral_bound v.x h hh t
    simp only at this
    obtain ⟨b1, b2, r, hr⟩ := this
    generalize randint _ _ t * h = d at *
    simp only [Minimal] at hv
    refine ⟨?_, 0, r, ?_, ?_⟩
    · simp only [absSum]; omega
    · simp only [proj]; omega
    · simp only [proj]; omega
  · split
    · have := spiral_bound v.y w hw t
      simp only at this
      obtain ⟨b1, b2, r, hr⟩ := this
      generalize randint _ _ t * w = d at *
      simp only [Minimal] at hv
      refine ⟨?_, r, 0, ?_, ?_⟩
      · simp only [absSum]; omega
      · simp only [proj]; omega
      · simp only [proj]; omega
    · exact ⟨rfl, 0, 0, by simp, by simp⟩

theorem minByKey4 (a0 a1 a2 a3 : Int × V3) :
    let b := minByKey a0 [a1, a2, a3]
    (b = a0 ∨ b = a1 ∨ b = a2 ∨ b = a3) ∧ b.1 ≤ a0.1 ∧ b.1 ≤ a1.1 ∧ b.1 ≤ a2.1 ∧ b.1 ≤ a3.1 := by
  simp only [minByKey, List.foldl]
  repeat' split
  all_goals (refine ⟨by simp, ?_, ?_, ?_, ?_⟩ <;> omega)

theorem key_le (a b : Int) (den ka kb : Nat) (hka : ka < den) (hkb : kb < den)
    (h : a * den + ka ≤ b * den + kb) : a ≤ b := by
  by_cases hab : a ≤ b
  · exact hab
  · exfalso
    have h1 : (b + 1) * (den : Int) ≤ a * den := Int.mul_le_mul_of_nonneg_right (by omega) (by omega)
    rw [Int.add_mul] at h1
    omega

theorem choose_ok (x y w h : Int) (hx : 0 ≤ x) (hxw : x < w) (hy : 0 ≤ y) (hyh : y < h)
    (den k0 k1 k2 k3 : Nat) (h0 : k0 < den) (h1 : k1 < den) (h2 : k2 < den) (h3 : k3 < den) :
    let key (a : Int × V3) (k : Nat) : Int × V3 := (a.1 * den + k, a.2)
    let best := minByKey (key (max x y, ⟨x, y, 0⟩) k0)
      [key (w - x + y, ⟨-(w - x), y, 0⟩) k1, key (x + h - y, ⟨x, -(h - y), 0⟩) k2,
       key (max (w - x) (h - y), ⟨-(w - x), -(h - y), 0⟩) k3]
    ∃ e f : Int, best.2.x = x - w * e ∧ best.2.y = y - h * f ∧ best.2.z = 0 ∧
      hexLen (x - w * e) (y - h * f) = torusF x y w h := by
  intro key best
  obtain ⟨hb, l0, l1, l2, l3⟩ := minByKey4 (key (max x y, ⟨x, y, 0⟩) k0)
      (key (w - x + y, ⟨-(w - x), y, 0⟩) k1) (key (x + h - y, ⟨x, -(h - y), 0⟩) k2)
       (key (max (w - x) (h - y), ⟨-(w - x), -(h - y), 0⟩) k3)
  rw [torusF_eq]
  rcases hb with hb | hb | hb | hb
  · simp only [best, hb, key] at l0 l1 l2 l3 ⊢
    have := key_le _ _ _ _ _ h0 h1 l1
    have := key_le _ _ _ _ _ h0 h2 l2
    have := key_le _ _ _ _ _ h0 h3 l3
    exact ⟨0, 0, by simp, by simp, trivial, by simp only [hexLen]; omega⟩
  · simp only [best, hb, key] at l0 l1 l2 l3 ⊢
    have := key_le _ _ _ _ _ h1 h0 l0
    have := key_le _ _ _ _ _ h1 h2 l2
    have := key_le _ _ _ _ _ h1 h3 l3
    exact ⟨1, 0, by simp; omega, by simp, trivial, by simp only [hexLen]; omega⟩
  · simp only [best, hb, key] at l0 l1 l2 l3 ⊢
    have := key_le _ _ _ _ _ h2 h0 l0
    have := key_le _ _ _ _ _ h2 h1 l1
    have := key_le _ _ _ _ _ h2 h3 l3
    exact ⟨0, 1, by simp, by simp; omega, trivial, by simp only [hexLen]; omega⟩
  · simp only [best, hb, key] at l0 l1 l2 l3 ⊢
    have := key_le _ _ _ _ _ h3 h0 l0
    have := key_le _ _ _ _ _ h3 h1 l1
    have := key_le _ _ _ _ _ h3 h2 l2
    exact ⟨1, 1, by simp; omega, by simp; omega, trivial, by simp only [hexLen]; omega⟩

theorem torusPathCore_ok (s d : V3) (w h : Int) (hw : 0 < w) (hh : 0 < h) (den k0 k1 k2 k3 t : Nat)
    (h0 : k0 < den) (h1 : k1 < den) (h2 : k2 < den) (h3 : k3 < den) :
    let v := torusPathCore s d w h den k0 k1 k2 k3 t
    absSum v = torusLenCore s d w h ∧
    ((proj s).1 + (proj v).1 - (proj d).1) % w = 0 ∧ ((proj s).2 + (proj v).2 - (proj d).2) % h = 0 := by
  intro v
  rw [torusLenCore_eq s d w h hw hh]
  have e1 : d.x - d.z - (s.x - s.z) = (proj d).1 - (proj s).1 := by simp only [proj]
  have e2 : d.y - d.z - (s.y - s.z) = (proj d).2 - (proj s).2 := by simp only [proj]
  have hx0 := Int.emod_nonneg ((proj d).1 - (proj s).1) (Int.ne_of_gt hw)
  have hx1 := Int.emod_lt_of_pos ((proj d).1 - (proj s).1) hw
  have hy0 := Int.emod_nonneg ((proj d).2 - (proj s).2) (Int.ne_of_gt hh)
  have hy1 := Int.emod_lt_of_pos ((proj d).2 - (proj s).2) hh
  have hxd := Int.emod_def ((proj d).1 - (proj s).1) w
  have hyd := Int.emod_def ((proj d).2 - (proj s).2) h
  have hv : v = torusPathCore s d w h den k0 k1 k2 k3 t := rfl
  simp only [torusPathCore, approaches, pyMod, Int.fmod_eq_emod_of_nonneg _ (Int.le_of_lt hw),
    Int.fmod_eq_emod_of_nonneg _ (Int.le_of_lt hh), e1, e2] at hv
  generalize ((proj d).1 - (proj s).1) % w = x at *
  generalize ((proj d).2 - (proj s).2) % h = y at *
  obtain ⟨e, f, bx, by', bz, hl⟩ := choose_ok x y w h hx0 hx1 hy0 hy1 den k0 k1 k2 k3 h0 h1 h2 h3
  simp only at bx by' bz hl
  generalize minByKey _ _ = best at *
  obtain ⟨mp, mm, ms⟩ := minimise_spec best.2
  obtain ⟨sa, i, j, sx, sy⟩ := spiral_ok (minimiseXyz best.2) w h hw hh mm t
  rw [← hv] at sa sx sy
  have pb : proj best.2 = (x - w * e, y - h * f) := by
    simp only [proj, bx, by', bz]; ext <;> simp
  rw [mp, pb] at sx sy
  rw [pb] at ms
  simp only at sx sy ms
  refine ⟨by rw [sa, ms, hl], ?_, ?_⟩
  · have : (proj s).1 + (proj v).1 - (proj d).1 = w * (i - e - ((proj d).1 - (proj s).1) / w) := by
      rw [Int.mul_sub, Int.mul_sub]; omega
    rw [this]; exact Int.mul_emod_right _ _
  · have : (proj s).2 + (proj v).2 - (proj d).2 = h * (j - f - ((proj d).2 - (proj s).2) / h) := by
      rw [Int.mul_sub, Int.mul_sub]; omega
    rw [this]; exact Int.mul_emod_right _ _

end Rig.C11
