/-
C11 - helper lemmas: hexagonal norm, walks in the mesh, lifting torus walks.
-/
import RigModel.Model.C11
set_option linter.unusedSimpArgs false
set_option linter.unusedVariables false

namespace Rig.C11
open Rig.Gen.Links

theorem mem_hexSteps {d : P2} (h : d ∈ hexSteps) :
    d = (1, 0) ∨ d = (1, 1) ∨ d = (0, 1) ∨ d = (-1, 0) ∨ d = (-1, -1) ∨ d = (0, -1) := by
  simpa [hexSteps] using h

/-- the hexagonal norm changes by at most one over each of the six unit steps -/
theorem hexLen_lipschitz (x y : Int) {d : P2} (h : d ∈ hexSteps) :
    hexLen (x + d.1) (y + d.2) ≤ hexLen x y + 1 ∧ hexLen x y ≤ hexLen (x + d.1) (y + d.2) + 1 := by
  rcases mem_hexSteps h with rfl | rfl | rfl | rfl | rfl | rfl <;> simp only [hexLen] <;> omega

theorem hexLen_nonneg (x y : Int) : 0 ≤ hexLen x y := by simp only [hexLen]; omega

@[simp] theorem stepTo_none (p d : P2) : stepTo none none p d = (p.1 + d.1, p.2 + d.2) := rfl

/-- lower bound: a mesh walk of n hops covers hexagonal norm at most n -/
theorem reach_mesh_lower {n : Nat} {a b : P2} (h : Reach none none n a b) :
    hexLen (b.1 - a.1) (b.2 - a.2) ≤ n := by
  induction h with
  | refl a => simp [hexLen]
  | @step n a b d hr hd ih =>
    simp only [stepTo_none]
    have e1 : b.1 + d.1 - a.1 = b.1 - a.1 + d.1 := by omega
    have e2 : b.2 + d.2 - a.2 = b.2 - a.2 + d.2 := by omega
    rw [e1, e2]
    have := (hexLen_lipschitz (b.1 - a.1) (b.2 - a.2) hd).1
    omega

/-- k further hops along one direction -/
theorem reach_line {w h : Option Int} {n : Nat} {a b : P2} (hr : Reach w h n a b) {d : P2} (hd : d ∈ hexSteps) :
    ∀ k : Nat, Reach w h (n + k) a (posAfter w h d k b) := by
  intro k
  induction k generalizing n b with
  | zero => exact hr
  | succ k ih =>
    have := ih (Reach.step d hr hd)
    simpa [posAfter, Nat.add_assoc, Nat.add_comm 1 k] using this

theorem posAfter_none (d : P2) (k : Nat) (b : P2) :
    posAfter none none d k b = (b.1 + k * d.1, b.2 + k * d.2) := by
  induction k generalizing b with
  | zero => simp [posAfter]
  | succ k ih =>
    simp only [posAfter, ih, stepTo_none]
    have : ((k + 1 : Nat) : Int) = (k : Int) + 1 := by omega
    rw [this, Int.add_mul, Int.add_mul]
    ext <;> simp <;> omega

/-- two straight segments -/
theorem reach_two (a : P2) {d1 d2 : P2} (h1 : d1 ∈ hexSteps) (h2 : d2 ∈ hexSteps) (k1 k2 : Nat) :
    Reach none none (k1 + k2) a (a.1 + k1 * d1.1 + k2 * d2.1, a.2 + k1 * d1.2 + k2 * d2.2) := by
  have r1 := reach_line (Reach.refl (w := none) (h := none) a) h1 k1
  have r2 := reach_line r1 h2 k2
  simpa [posAfter_none] using r2

/-- upper bound: the explicit walk of `hexLen x y` hops -/
theorem reach_mesh_upper (a : P2) (x y : Int) :
    Reach none none (hexLen x y).toNat a (a.1 + x, a.2 + y) := by
  have conv : ∀ {n m : Nat} {p q : P2}, Reach none none n a p → n = m → p = q → Reach none none m a q := by
    intro n m p q h e1 e2; subst e1; subst e2; exact h
  by_cases hx : 0 ≤ x <;> by_cases hy : 0 ≤ y
  · by_cases hxy : y ≤ x
    · refine conv (reach_two a (d1 := (1, 1)) (d2 := (1, 0)) (by decide) (by decide) y.toNat (x - y).toNat) ?_ ?_
      · simp only [hexLen]; omega
      · ext <;> simp <;> omega
    · refine conv (reach_two a (d1 := (1, 1)) (d2 := (0, 1)) (by decide) (by decide) x.toNat (y - x).toNat) ?_ ?_
      · simp only [hexLen]; omega
      · ext <;> simp <;> omega
  · refine conv (reach_two a (d1 := (1, 0)) (d2 := (0, -1)) (by decide) (by decide) x.toNat (-y).toNat) ?_ ?_
    · simp only [hexLen]; omega
    · ext <;> simp <;> omega
  · refine conv (reach_two a (d1 := (-1, 0)) (d2 := (0, 1)) (by decide) (by decide) (-x).toNat y.toNat) ?_ ?_
    · simp only [hexLen]; omega
    · ext <;> simp <;> omega
  · by_cases hxy : y ≤ x
    · refine conv (reach_two a (d1 := (-1, -1)) (d2 := (0, -1)) (by decide) (by decide) (-x).toNat (x - y).toNat) ?_ ?_
      · simp only [hexLen]; omega
      · ext <;> simp <;> omega
    · refine conv (reach_two a (d1 := (-1, -1)) (d2 := (-1, 0)) (by decide) (by decide) (-y).toNat (y - x).toNat) ?_ ?_
      · simp only [hexLen]; omega
      · ext <;> simp <;> omega

/-! ### torus -/

theorem wrap_some_pos {m : Int} (hm : 0 < m) (c : Int) : wrap c (some m) = c % m := by
  simp [wrap, pyMod, Int.fmod_eq_emod_of_nonneg _ (Int.le_of_lt hm)]

theorem stepTo_some {w h : Int} (hw : 0 < w) (hh : 0 < h) (p d : P2) :
    stepTo (some w) (some h) p d = ((p.1 + d.1) % w, (p.2 + d.2) % h) := by
  simp [stepTo, wrap_some_pos hw, wrap_some_pos hh]

/-- projection: a mesh walk wraps to a torus walk -/
theorem reach_project {w h : Int} (hw : 0 < w) (hh : 0 < h) {n : Nat} {a b : P2}
    (r : Reach none none n a b) :
    Reach (some w) (some h) n (a.1 % w, a.2 % h) (b.1 % w, b.2 % h) := by
  induction r with
  | refl a => exact Reach.refl _
  | @step n a b d hr hd ih =>
    have := Reach.step d ih hd
    rw [stepTo_some hw hh] at this
    simpa [Int.emod_add_emod] using this

/-- lifting: a torus walk is the image of a mesh walk of the same number of hops -/
theorem reach_lift {w h : Int} (hw : 0 < w) (hh : 0 < h) {n : Nat} {a b : P2}
    (r : Reach (some w) (some h) n a b) :
    ∃ k l : Int, Reach none none n a (b.1 + w * k, b.2 + h * l) := by
  induction r with
  | refl a => exact ⟨0, 0, by simpa using Reach.refl a⟩
  | @step n a b d hr hd ih =>
    obtain ⟨k, l, ih⟩ := ih
    refine ⟨k + (b.1 + d.1) / w, l + (b.2 + d.2) / h, ?_⟩
    have := Reach.step d ih hd
    rw [stepTo_some hw hh]
    simp only [stepTo_none] at this
    have e1 : (b.1 + d.1) % w + w * (k + (b.1 + d.1) / w) = b.1 + w * k + d.1 := by
      rw [Int.emod_def, Int.mul_add]; omega
    have e2 : (b.2 + d.2) % h + h * (l + (b.2 + d.2) / h) = b.2 + h * l + d.2 := by
      rw [Int.emod_def, Int.mul_add]; omega
    simp only [e1, e2]
    exact this

theorem mul_cases (w k : Int) (hw : 0 < w) : w * k = 0 ∨ w * k = -w ∨ w ≤ w * k ∨ w * k ≤ -2 * w := by
  have : k = 0 ∨ k = -1 ∨ 1 ≤ k ∨ k ≤ -2 := by omega
  rcases this with rfl | rfl | h | h
  · simp
  · right; left; omega
  · right; right; left
    have := Int.mul_le_mul_of_nonneg_left h (Int.le_of_lt hw)
    omega
  · right; right; right
    have := Int.mul_le_mul_of_nonneg_left h (Int.le_of_lt hw)
    omega

/-- the closed form computed by `shortest_torus_path_length` on the reduced displacement -/
def torusF (x y w h : Int) : Int :=
  let length := if x > y then x else y
  let wrapX := w - x + y
  let length := if wrapX < length then wrapX else length
  let wrapY := x + h - y
  let length := if wrapY < length then wrapY else length
  let dx := w - x
  let dy := h - y
  let wrapXY := if dx > dy then dx else dy
  if wrapXY < length then wrapXY else length

theorem torusF_eq (x y w h : Int) :
    torusF x y w h = min (min (max x y) (w - x + y)) (min (x + h - y) (max (w - x) (h - y))) := by
  simp only [torusF]
  repeat' split
  all_goals omega

/-- every lift of the displacement is at least as long as the closed form -/
theorem lift_ge (x y w h : Int) (hx : 0 ≤ x) (hxw : x < w) (hy : 0 ≤ y) (hyh : y < h) (k l : Int) :
    torusF x y w h ≤ hexLen (x + w * k) (y + h * l) := by
  rw [torusF_eq]
  have hk := mul_cases w k (by omega)
  have hl := mul_cases h l (by omega)
  generalize w * k = K at hk
  generalize h * l = L at hl
  simp only [hexLen]
  rcases hk with hk | hk | hk | hk <;> rcases hl with hl | hl | hl | hl <;> omega

/-- the closed form is the hexagonal norm of one of the four nearest lifts -/
theorem torusF_is_lift (x y w h : Int) (hx : 0 ≤ x) (hxw : x < w) (hy : 0 ≤ y) (hyh : y < h) :
    ∃ e f : Int, (e = 0 ∨ e = 1) ∧ (f = 0 ∨ f = 1) ∧ torusF x y w h = hexLen (x - e * w) (y - f * h) := by
  rw [torusF_eq]
  by_cases h1 : min (min (max x y) (w - x + y)) (min (x + h - y) (max (w - x) (h - y))) = max x y
  · exact ⟨0, 0, .inl rfl, .inl rfl, by simp only [hexLen]; omega⟩
  by_cases h2 : min (min (max x y) (w - x + y)) (min (x + h - y) (max (w - x) (h - y))) = w - x + y
  · exact ⟨1, 0, .inr rfl, .inl rfl, by simp only [hexLen]; omega⟩
  by_cases h3 : min (min (max x y) (w - x + y)) (min (x + h - y) (max (w - x) (h - y))) = x + h - y
  · exact ⟨0, 1, .inl rfl, .inr rfl, by simp only [hexLen]; omega⟩
  · exact ⟨1, 1, .inr rfl, .inr rfl, by simp only [hexLen]; omega⟩

theorem emod_sub_cong (P Q w : Int) : ∃ j, P % w - Q % w = (P - Q) % w + w * j :=
  ⟨(P - Q) / w - P / w + Q / w, by
    simp only [Int.emod_def, Int.mul_add, Int.mul_sub]; omega⟩

theorem sub_self_emod (t w : Int) : (t - w) % w = t % w := by
  exact Int.sub_emod_right t w

theorem torusLenCore_eq (s d : V3) (w h : Int) (hw : 0 < w) (hh : 0 < h) :
    torusLenCore s d w h = torusF (((proj d).1 - (proj s).1) % w) (((proj d).2 - (proj s).2) % h) w h := by
  have e1 : d.x - s.x - (d.z - s.z) = (proj d).1 - (proj s).1 := by simp only [proj]; omega
  have e2 : d.y - s.y - (d.z - s.z) = (proj d).2 - (proj s).2 := by simp only [proj]; omega
  simp only [torusLenCore, torusF, pyMod, Int.fmod_eq_emod_of_nonneg _ (Int.le_of_lt hw),
    Int.fmod_eq_emod_of_nonneg _ (Int.le_of_lt hh), e1, e2]

theorem torus_dist (A D : P2) (w h : Int) (hw : 0 < w) (hh : 0 < h) :
    0 ≤ torusF ((D.1 - A.1) % w) ((D.2 - A.2) % h) w h ∧
    IsDist (some w) (some h) (A.1 % w, A.2 % h) (D.1 % w, D.2 % h)
      (torusF ((D.1 - A.1) % w) ((D.2 - A.2) % h) w h).toNat := by
  have hx0 := Int.emod_nonneg (D.1 - A.1) (Int.ne_of_gt hw)
  have hx1 := Int.emod_lt_of_pos (D.1 - A.1) hw
  have hy0 := Int.emod_nonneg (D.2 - A.2) (Int.ne_of_gt hh)
  have hy1 := Int.emod_lt_of_pos (D.2 - A.2) hh
  generalize hx : (D.1 - A.1) % w = x at *
  generalize hy : (D.2 - A.2) % h = y at *
  have hnn : 0 ≤ torusF x y w h := by
    have := lift_ge x y w h hx0 hx1 hy0 hy1 0 0
    rw [torusF_eq]; omega
  refine ⟨hnn, ?_, ?_⟩
  · obtain ⟨e, f, he, hf, hF⟩ := torusF_is_lift x y w h hx0 hx1 hy0 hy1
    rw [hF]
    have r := reach_project hw hh (reach_mesh_upper A (x - e * w) (y - f * h))
    have ex : (A.1 + (x - e * w)) % w = D.1 % w := by
      rcases he with rfl | rfl
      · simp only [Int.zero_mul, Int.sub_zero, ← hx, Int.add_emod_emod]; congr 1; omega
      · simp only [Int.one_mul, ← hx]
        rw [show A.1 + ((D.1 - A.1) % w - w) = (A.1 + (D.1 - A.1) % w) - w by omega, sub_self_emod,
          Int.add_emod_emod]; congr 1; omega
    have ey : (A.2 + (y - f * h)) % h = D.2 % h := by
      rcases hf with rfl | rfl
      · simp only [Int.zero_mul, Int.sub_zero, ← hy, Int.add_emod_emod]; congr 1; omega
      · simp only [Int.one_mul, ← hy]
        rw [show A.2 + ((D.2 - A.2) % h - h) = (A.2 + (D.2 - A.2) % h) - h by omega, sub_self_emod,
          Int.add_emod_emod]; congr 1; omega
    simpa only [ex, ey] using r
  · intro m r
    obtain ⟨k, l, rm⟩ := reach_lift hw hh r
    have lb := reach_mesh_lower rm
    simp only at lb
    obtain ⟨j1, h1⟩ := emod_sub_cong D.1 A.1 w
    obtain ⟨j2, h2⟩ := emod_sub_cong D.2 A.2 h
    rw [hx] at h1; rw [hy] at h2
    have e1 : D.1 % w + w * k - A.1 % w = x + w * (j1 + k) := by rw [Int.mul_add]; omega
    have e2 : D.2 % h + h * l - A.2 % h = y + h * (j2 + l) := by rw [Int.mul_add]; omega
    rw [e1, e2] at lb
    have := lift_ge x y w h hx0 hx1 hy0 hy1 (j1 + k) (j2 + l)
    omega

/-! ### vectors -/

/-- minimal form: the median component is zero -/
def Minimal (v : V3) : Prop := max (min v.x v.y) (min (max v.x v.y) v.z) = 0

theorem minimise_spec (v : V3) :
    proj (minimiseXyz v) = proj v ∧ Minimal (minimiseXyz v) ∧
    absSum (minimiseXyz v) = hexLen (proj v).1 (proj v).2 := by
  simp only [minimiseXyz, proj, Minimal, absSum, hexLen]
  refine ⟨by ext <;> simp <;> omega, by omega, by omega⟩

theorem randint_range (lo hi : Int) (t : Nat) (h : lo ≤ hi) :
    lo ≤ randint lo hi t ∧ randint lo hi t ≤ hi := by
  have h1 := Int.emod_nonneg (t : Int) (b := hi - lo + 1) (by omega)
  have h2 := Int.emod_lt_of_pos (t : Int) (b := hi - lo + 1) (by omega)
  simp only [randint]; omega

/-- spiral counts: `r * m` lies between 0 and x -/
theorem spiral_bound (x m : Int) (hm : 0 < m) (t : Nat) :
    let ms := pyDiv (if x < 0 then x + m - 1 else x) m
    let d := randint (min 0 ms) (max 0 ms) t * m
    (0 ≤ x → 0 ≤ d ∧ d ≤ x) ∧ (x < 0 → x ≤ d ∧ d ≤ 0) ∧ ∃ r : Int, d = m * r := by
  intro ms d
  have hr := randint_range (min 0 ms) (max 0 ms) t (by omega)
  generalize hrr : randint (min 0 ms) (max 0 ms) t = r at *
  have hd : d = r * m := by simp only [d, hrr]
  refine ⟨?_, ?_, r, by rw [hd, Int.mul_comm]⟩
  · intro hx
    have hms : ms = x / m := by
      simp only [ms, pyDiv, show ¬ x < 0 by omega, if_false]
      exact Int.fdiv_eq_ediv_of_nonneg _ (Int.le_of_lt hm)
    have h1 : 0 ≤ x / m := Int.ediv_nonneg hx (Int.le_of_lt hm)
    have h2 : x / m * m ≤ x := Int.ediv_mul_le x (Int.ne_of_gt hm)
    have h3 : r * m ≤ x / m * m := Int.mul_le_mul_of_nonneg_right (by omega) (Int.le_of_lt hm)
    have h4 : 0 ≤ r * m := Int.mul_nonneg (by omega) (Int.le_of_lt hm)
    omega
  · intro hx
    have hms : ms = (x + m - 1) / m := by
      simp only [ms, pyDiv, hx, if_true]
      exact Int.fdiv_eq_ediv_of_nonneg _ (Int.le_of_lt hm)
    have h0 := Int.emod_nonneg (x + m - 1) (Int.ne_of_gt hm)
    have h0' := Int.emod_lt_of_pos (x + m - 1) hm
    have h2 : (x + m - 1) / m * m = (x + m - 1) - (x + m - 1) % m := by
      rw [Int.emod_def, Int.mul_comm]; omega
    have h1 : (x + m - 1) / m ≤ 0 := by
      have : (x + m - 1) / m < 1 := Int.ediv_lt_of_lt_mul hm (by omega)
      omega
    have h3 : (x + m - 1) / m * m ≤ r * m := Int.mul_le_mul_of_nonneg_right (by omega) (Int.le_of_lt hm)
    have h4 : r * m ≤ 0 := Int.mul_nonpos_of_nonpos_of_nonneg (by omega) (Int.le_of_lt hm)
    omega

theorem spiral_ok (v : V3) (w h : Int) (hw : 0 < w) (hh : 0 < h) (hv : Minimal v) (t : Nat) :
    absSum (spiral v w h t) = absSum v ∧
    ∃ i j : Int, (proj (spiral v w h t)).1 = (proj v).1 + w * i ∧
      (proj (spiral v w h t)).2 = (proj v).2 + h * j := by
  simp only [spiral]
  split
  · have := spiral_bound v.x h hh t
    simp only at this
    obtain ⟨b1, b2, r, hr⟩ := this
    generalize randint _ _ t * h = d at *
    simp only [Minimal] at hv
    refine ⟨?_, 0, r, ?_, ?_⟩
    · simp only [absSum]; omega
    · simp only [proj]; omega
    · simp only [proj]; omega
  · split
    · have := spiral_bound v.y w hw t
      simp only at this
      obtain ⟨b1, b2, r, hr⟩ := this
      generalize randint _ _ t * w = d at *
      simp only [Minimal] at hv
      refine ⟨?_, r, 0, ?_, ?_⟩
      · simp only [absSum]; omega
      · simp only [proj]; omega
      · simp only [proj]; omega
    · exact ⟨rfl, 0, 0, by simp, by simp⟩

theorem minByKey4 (a0 a1 a2 a3 : Int × V3) :
    let b := minByKey a0 [a1, a2, a3]
    (b = a0 ∨ b = a1 ∨ b = a2 ∨ b = a3) ∧ b.1 ≤ a0.1 ∧ b.1 ≤ a1.1 ∧ b.1 ≤ a2.1 ∧ b.1 ≤ a3.1 := by
  simp only [minByKey, List.foldl]
  repeat' split
  all_goals (refine ⟨by simp, ?_, ?_, ?_, ?_⟩ <;> omega)

theorem key_le (a b : Int) (den ka kb : Nat) (hka : ka < den) (hkb : kb < den)
    (h : a * den + ka ≤ b * den + kb) : a ≤ b := by
  by_cases hab : a ≤ b
  · exact hab
  · exfalso
    have h1 : (b + 1) * (den : Int) ≤ a * den := Int.mul_le_mul_of_nonneg_right (by omega) (by omega)
    rw [Int.add_mul] at h1
    omega

theorem choose_ok (x y w h : Int) (hx : 0 ≤ x) (hxw : x < w) (hy : 0 ≤ y) (hyh : y < h)
    (den k0 k1 k2 k3 : Nat) (h0 : k0 < den) (h1 : k1 < den) (h2 : k2 < den) (h3 : k3 < den) :
    let key (a : Int × V3) (k : Nat) : Int × V3 := (a.1 * den + k, a.2)
    let best := minByKey (key (max x y, ⟨x, y, 0⟩) k0)
      [key (w - x + y, ⟨-(w - x), y, 0⟩) k1, key (x + h - y, ⟨x, -(h - y), 0⟩) k2,
       key (max (w - x) (h - y), ⟨-(w - x), -(h - y), 0⟩) k3]
    ∃ e f : Int, best.2.x = x - w * e ∧ best.2.y = y - h * f ∧ best.2.z = 0 ∧
      hexLen (x - w * e) (y - h * f) = torusF x y w h := by
  intro key best
  obtain ⟨hb, l0, l1, l2, l3⟩ := minByKey4 (key (max x y, ⟨x, y, 0⟩) k0)
      (key (w - x + y, ⟨-(w - x), y, 0⟩) k1) (key (x + h - y, ⟨x, -(h - y), 0⟩) k2)
       (key (max (w - x) (h - y), ⟨-(w - x), -(h - y), 0⟩) k3)
  rw [torusF_eq]
  rcases hb with hb | hb | hb | hb
  · simp only [best, hb, key] at l0 l1 l2 l3 ⊢
    have := key_le _ _ _ _ _ h0 h1 l1
    have := key_le _ _ _ _ _ h0 h2 l2
    have := key_le _ _ _ _ _ h0 h3 l3
    exact ⟨0, 0, by simp, by simp, trivial, by simp only [hexLen]; omega⟩
  · simp only [best, hb, key] at l0 l1 l2 l3 ⊢
    have := key_le _ _ _ _ _ h1 h0 l0
    have := key_le _ _ _ _ _ h1 h2 l2
    have := key_le _ _ _ _ _ h1 h3 l3
    exact ⟨1, 0, by simp; omega, by simp, trivial, by simp only [hexLen]; omega⟩
  · simp only [best, hb, key] at l0 l1 l2 l3 ⊢
    have := key_le _ _ _ _ _ h2 h0 l0
    have := key_le _ _ _ _ _ h2 h1 l1
    have := key_le _ _ _ _ _ h2 h3 l3
    exact ⟨0, 1, by simp, by simp; omega, trivial, by simp only [hexLen]; omega⟩
  · simp only [best, hb, key] at l0 l1 l2 l3 ⊢
    have := key_le _ _ _ _ _ h3 h0 l0
    have := key_le _ _ _ _ _ h3 h1 l1
    have := key_le _ _ _ _ _ h3 h2 l2
    exact ⟨1, 1, by simp; omega, by simp; omega, trivial, by simp only [hexLen]; omega⟩

theorem torusPathCore_ok (s d : V3) (w h : Int) (hw : 0 < w) (hh : 0 < h) (den k0 k1 k2 k3 t : Nat)
    (h0 : k0 < den) (h1 : k1 < den) (h2 : k2 < den) (h3 : k3 < den) :
    let v := torusPathCore s d w h den k0 k1 k2 k3 t
    absSum v = torusLenCore s d w h ∧
    ((proj s).1 + (proj v).1 - (proj d).1) % w = 0 ∧ ((proj s).2 + (proj v).2 - (proj d).2) % h = 0 := by
  intro v
  rw [torusLenCore_eq s d w h hw hh]
  have e1 : d.x - d.z - (s.x - s.z) = (proj d).1 - (proj s).1 := by simp only [proj]
  have e2 : d.y - d.z - (s.y - s.z) = (proj d).2 - (proj s).2 := by simp only [proj]
  have hx0 := Int.emod_nonneg ((proj d).1 - (proj s).1) (Int.ne_of_gt hw)
  have hx1 := Int.emod_lt_of_pos ((proj d).1 - (proj s).1) hw
  have hy0 := Int.emod_nonneg ((proj d).2 - (proj s).2) (Int.ne_of_gt hh)
  have hy1 := Int.emod_lt_of_pos ((proj d).2 - (proj s).2) hh
  have hxd := Int.emod_def ((proj d).1 - (proj s).1) w
  have hyd := Int.emod_def ((proj d).2 - (proj s).2) h
  have hv : v = torusPathCore s d w h den k0 k1 k2 k3 t := rfl
  simp only [torusPathCore, approaches, pyMod, Int.fmod_eq_emod_of_nonneg _ (Int.le_of_lt hw),
    Int.fmod_eq_emod_of_nonneg _ (Int.le_of_lt hh), e1, e2] at hv
  generalize ((proj d).1 - (proj s).1) % w = x at *
  generalize ((proj d).2 - (proj s).2) % h = y at *
  obtain ⟨e, f, bx, by', bz, hl⟩ := choose_ok x y w h hx0 hx1 hy0 hy1 den k0 k1 k2 k3 h0 h1 h2 h3
  simp only at bx by' bz hl
  generalize minByKey _ _ = best at *
  obtain ⟨mp, mm, ms⟩ := minimise_spec best.2
  obtain ⟨sa, i, j, sx, sy⟩ := spiral_ok (minimiseXyz best.2) w h hw hh mm t
  rw [← hv] at sa sx sy
  have pb : proj best.2 = (x - w * e, y - h * f) := by
    simp only [proj, bx, by', bz]; ext <;> simp
  rw [mp, pb] at sx sy
  rw [pb] at ms
  simp only at sx sy ms
  refine ⟨by rw [sa, ms, hl], ?_, ?_⟩
  · have : (proj s).1 + (proj v).1 - (proj d).1 = w * (i - e - ((proj d).1 - (proj s).1) / w) := by
      rw [Int.mul_sub, Int.mul_sub]; omega
    rw [this]; exact Int.mul_emod_right _ _
  · have : (proj s).2 + (proj v).2 - (proj d).2 = h * (j - f - ((proj d).2 - (proj s).2) / h) := by
      rw [Int.mul_sub, Int.mul_sub]; omega
    rw [this]; exact Int.mul_emod_right _ _

/-! ### longest dimension first -/

def segP (w h : Option Int) (l : Nat) (dv : P2) : Nat → P2 → List (Nat × P2)
  | 0, _ => []
  | n + 1, p => let q := stepTo w h p dv; (l, q) :: segP w h l dv n q

theorem walkDim_eq (w h : Option Int) (l : Nat) (dv : P2) (n : Nat) (p : P2) :
    walkDim w h dv (some l) n p = (segP w h l dv n p).map (fun e => (some e.1, e.2)) := by
  induction n generalizing p with
  | zero => rfl
  | succ n ih => simp [walkDim, segP, ih]

theorem segP_length (w h : Option Int) (l : Nat) (dv : P2) (n : Nat) (p : P2) :
    (segP w h l dv n p).length = n := by
  induction n generalizing p with
  | zero => rfl
  | succ n ih => simp [segP, ih]

theorem lastPos_cons (p : P2) (e : Nat × P2) (rest : List (Nat × P2)) :
    lastPos p (e :: rest) = lastPos e.2 rest := by
  cases rest with
  | nil => simp [lastPos]
  | cons a t =>
    rw [lastPos, lastPos, List.getLast?_cons_cons]
    cases hh : (a :: t).getLast? with
    | none => simp at hh
    | some x => rfl

theorem segP_walk (w h : Option Int) (l : Nat) (dv : P2) (hl : specVec l = some dv) (n : Nat) (p : P2)
    (rest : List (Nat × P2)) :
    walkOk w h p (segP w h l dv n p ++ rest) = walkOk w h (posAfter w h dv n p) rest ∧
    lastPos p (segP w h l dv n p ++ rest) = lastPos (posAfter w h dv n p) rest := by
  induction n generalizing p with
  | zero => simp [segP, posAfter]
  | succ n ih =>
    obtain ⟨i1, i2⟩ := ih (stepTo w h p dv)
    simp only [segP, posAfter, List.cons_append, walkOk, hl, lastPos_cons, i1, i2]
    simp

def modOf : Option Int → Int
  | none => 0
  | some m => m

theorem wrap_cong (c : Int) (w : Option Int) : ∃ q, wrap c w = c + modOf w * q := by
  cases w with
  | none => exact ⟨0, by simp [wrap, modOf]⟩
  | some m => exact ⟨-(c.fdiv m), by simp only [wrap, pyMod, modOf, Int.fmod_def, Int.mul_neg]; omega⟩

theorem posAfter_cong (w h : Option Int) (dv : P2) (n : Nat) (p : P2) :
    ∃ i j, posAfter w h dv n p = (p.1 + n * dv.1 + modOf w * i, p.2 + n * dv.2 + modOf h * j) := by
  induction n generalizing p with
  | zero => exact ⟨0, 0, by simp [posAfter]⟩
  | succ n ih =>
    obtain ⟨i, j, e⟩ := ih (stepTo w h p dv)
    obtain ⟨q1, e1⟩ := wrap_cong (p.1 + dv.1) w
    obtain ⟨q2, e2⟩ := wrap_cong (p.2 + dv.2) h
    refine ⟨i + q1, j + q2, ?_⟩
    rw [posAfter, e]
    simp only [stepTo, e1, e2]
    have : ((n + 1 : Nat) : Int) = (n : Int) + 1 := by omega
    rw [this, Int.add_mul, Int.add_mul, Int.mul_add, Int.mul_add]
    ext <;> simp <;> omega

theorem congr_of (a b : Int) (w : Option Int) (i : Int) (h : a = b + modOf w * i) : congr? a b w = true := by
  cases w with
  | none => simp [congr?, modOf] at *; exact h
  | some m =>
    simp only [congr?, modOf] at *
    have : a - b = m * i := by omega
    rw [this, Int.mul_emod_right]; rfl

/-- the link label the code looks up for one unit step of a dimension -/
def labOf (dim : Nat) (mag : Int) : Nat :=
  if dim = 0 then (if mag > 0 then 0 else 3)
  else if dim = 1 then (if mag > 0 then 2 else 5)
  else (if mag > 0 then 4 else 1)

def dvOf (dim : Nat) (mag : Int) : P2 := unitOf dim (if mag > 0 then 1 else -1)

theorem lab_ok (dim : Nat) (mag : Int) :
    fromVector (dvOf dim mag).1 (dvOf dim mag).2 = some (labOf dim mag) ∧
    specVec (labOf dim mag) = some (dvOf dim mag) := by
  simp only [dvOf, labOf, unitOf]
  repeat' split
  all_goals decide

def itemPath (w h : Option Int) (it : Nat × Int × Int) (p : P2) : List (Nat × P2) :=
  segP w h (labOf it.1 it.2.1) (dvOf it.1 it.2.1) it.2.1.natAbs p

def itemEnd (w h : Option Int) (it : Nat × Int × Int) (p : P2) : P2 :=
  posAfter w h (dvOf it.1 it.2.1) it.2.1.natAbs p

def some1 (e : Nat × P2) : Option Nat × P2 := (some e.1, e.2)

theorem itemPath_zero (w h : Option Int) (it : Nat × Int × Int) (p : P2) (hz : it.2.1 = 0) :
    itemPath w h it p = [] ∧ itemEnd w h it p = p := by
  simp [itemPath, itemEnd, hz, segP, posAfter]

/-- with zero magnitudes last, `break` loses nothing: the loop output is the three segments -/
theorem ldfLoop3 (w h : Option Int) (a b c : Nat × Int × Int) (p : P2)
    (hab : a.2.1 = 0 → b.2.1 = 0) (hbc : b.2.1 = 0 → c.2.1 = 0) :
    ldfLoop w h [a, b, c] p =
      (itemPath w h a p ++ itemPath w h b (itemEnd w h a p) ++
        itemPath w h c (itemEnd w h b (itemEnd w h a p))).map some1 := by
  obtain ⟨da, ma, ka⟩ := a
  obtain ⟨db, mb, kb⟩ := b
  obtain ⟨dc, mc, kc⟩ := c
  simp only at hab hbc
  have step : ∀ (d : Nat) (m : Int) (q : P2), m ≠ 0 →
      walkDim w h (unitOf d (if m > 0 then 1 else -1))
        (fromVector (unitOf d (if m > 0 then 1 else -1)).1 (unitOf d (if m > 0 then 1 else -1)).2) m.natAbs q
        = (itemPath w h (d, m, 0) q).map some1 := by
    intro d m q _
    have := (lab_ok d m).1
    simp only [dvOf] at this
    rw [this, walkDim_eq]; rfl
  by_cases ha : ma = 0
  · have hb := hab ha
    have hc := hbc hb
    subst ha; subst hb; subst hc
    simp [ldfLoop, itemPath, segP]
  · by_cases hb : mb = 0
    · have hc := hbc hb
      subst hb; subst hc
      simp only [ldfLoop, ha, if_false, if_true, List.append_nil, step da ma p ha]
      simp [itemPath, segP]
    · by_cases hc : mc = 0
      · subst hc
        simp only [ldfLoop, ha, hb, if_false, if_true, List.append_nil, step da ma p ha, step db mb _ hb]
        simp [itemPath, segP, itemEnd, dvOf]
      · simp only [ldfLoop, ha, hb, hc, if_false, List.append_nil, step da ma p ha, step db mb _ hb,
          step dc mc _ hc]
        simp [itemPath, itemEnd, dvOf]

theorem zero_chain (ma mb : Int) (den ka kb : Nat) (hka : ka < den) (hkb : kb < den)
    (hle : (mb.natAbs : Int) * den + kb ≤ (ma.natAbs : Int) * den + ka) : ma = 0 → mb = 0 := by
  intro hz
  subst hz
  simp only [Int.natAbs_zero, Int.natCast_zero, Int.zero_mul, Int.zero_add] at hle
  by_cases hb : mb = 0
  · exact hb
  · exfalso
    have h1 : (1 : Int) * den ≤ (mb.natAbs : Int) * den :=
      Int.mul_le_mul_of_nonneg_right (by omega) (by omega)
    omega

theorem dv_sum (dim : Nat) (m : Int) :
    (m.natAbs : Int) * (dvOf dim m).1 = (if dim = 0 then m else if dim = 1 then 0 else -m) ∧
    (m.natAbs : Int) * (dvOf dim m).2 = (if dim = 0 then 0 else if dim = 1 then m else -m) := by
  simp only [dvOf, unitOf]
  repeat' split
  all_goals (constructor <;> simp <;> omega)

theorem order_ok (v : V3) (den k0 k1 k2 : Nat) (h0 : k0 < den) (h1 : k1 < den) (h2 : k2 < den) :
    ∃ a b c : Nat × Int × Int, ldfOrder v den k0 k1 k2 = [a, b, c] ∧
      (a.2.1 = 0 → b.2.1 = 0) ∧ (b.2.1 = 0 → c.2.1 = 0) ∧
      ((a.2.1.natAbs : Int) + b.2.1.natAbs + c.2.1.natAbs = absSum v) ∧
      ((a.2.1.natAbs : Int) * (dvOf a.1 a.2.1).1 + (b.2.1.natAbs : Int) * (dvOf b.1 b.2.1).1 +
        (c.2.1.natAbs : Int) * (dvOf c.1 c.2.1).1 = v.x - v.z) ∧
      ((a.2.1.natAbs : Int) * (dvOf a.1 a.2.1).2 + (b.2.1.natAbs : Int) * (dvOf b.1 b.2.1).2 +
        (c.2.1.natAbs : Int) * (dvOf c.1 c.2.1).2 = v.y - v.z) := by
  have zc := fun ma mb ka kb hka hkb hle => zero_chain ma mb den ka kb hka hkb hle
  simp only [ldfOrder, insertDesc]
  split <;> simp only [insertDesc] <;> repeat' split
  all_goals
    refine ⟨_, _, _, rfl, ?_, ?_, ?_, ?_, ?_⟩
    · dsimp only
      first
        | exact zc _ _ k0 k1 h0 h1 (by omega) | exact zc _ _ k0 k2 h0 h2 (by omega)
        | exact zc _ _ k1 k0 h1 h0 (by omega) | exact zc _ _ k1 k2 h1 h2 (by omega)
        | exact zc _ _ k2 k0 h2 h0 (by omega) | exact zc _ _ k2 k1 h2 h1 (by omega)
    · dsimp only
      first
        | exact zc _ _ k0 k1 h0 h1 (by omega) | exact zc _ _ k0 k2 h0 h2 (by omega)
        | exact zc _ _ k1 k0 h1 h0 (by omega) | exact zc _ _ k1 k2 h1 h2 (by omega)
        | exact zc _ _ k2 k0 h2 h0 (by omega) | exact zc _ _ k2 k1 h2 h1 (by omega)
    · simp only [absSum] <;> omega
    · simp only [dv_sum] <;> simp <;> omega
    · simp only [dv_sum] <;> simp <;> omega

theorem mapM_some1 (path : List (Nat × P2)) :
    (path.map some1).mapM (fun e : Option Nat × P2 =>
      match e.1 with
      | some l => (Except.ok (l, e.2) : Except Err (Nat × P2))
      | none => .error .keyError) = .ok path := by
  induction path with
  | nil => rfl
  | cons a t ih =>
    simp only [List.map_cons, List.mapM_cons, some1, ih]
    rfl

theorem three_ok (w h : Option Int) (a b c : Nat × Int × Int) (p : P2) :
    let path := itemPath w h a p ++ itemPath w h b (itemEnd w h a p) ++
        itemPath w h c (itemEnd w h b (itemEnd w h a p))
    walkOk w h p path = true ∧
    (path.length : Int) = (a.2.1.natAbs : Int) + b.2.1.natAbs + c.2.1.natAbs ∧
    ∃ i j, lastPos p path =
      (p.1 + ((a.2.1.natAbs : Int) * (dvOf a.1 a.2.1).1 + (b.2.1.natAbs : Int) * (dvOf b.1 b.2.1).1 +
        (c.2.1.natAbs : Int) * (dvOf c.1 c.2.1).1) + modOf w * i,
       p.2 + ((a.2.1.natAbs : Int) * (dvOf a.1 a.2.1).2 + (b.2.1.natAbs : Int) * (dvOf b.1 b.2.1).2 +
        (c.2.1.natAbs : Int) * (dvOf c.1 c.2.1).2) + modOf h * j) := by
  intro path
  have sa := fun rest => segP_walk w h _ _ (lab_ok a.1 a.2.1).2 a.2.1.natAbs p rest
  have sb := fun rest => segP_walk w h _ _ (lab_ok b.1 b.2.1).2 b.2.1.natAbs (itemEnd w h a p) rest
  have sc := fun rest => segP_walk w h _ _ (lab_ok c.1 c.2.1).2 c.2.1.natAbs (itemEnd w h b (itemEnd w h a p)) rest
  have hpath : path = itemPath w h a p ++ (itemPath w h b (itemEnd w h a p) ++
        (itemPath w h c (itemEnd w h b (itemEnd w h a p)) ++ [])) := by simp [path]
  refine ⟨?_, ?_, ?_⟩
  · rw [hpath]
    simp only [itemPath, itemEnd] at *
    rw [(sa _).1, (sb _).1, (sc _).1]; rfl
  · simp only [path, List.length_append, itemPath, segP_length]; omega
  · obtain ⟨i1, j1, e1⟩ := posAfter_cong w h (dvOf a.1 a.2.1) a.2.1.natAbs p
    obtain ⟨i2, j2, e2⟩ := posAfter_cong w h (dvOf b.1 b.2.1) b.2.1.natAbs (itemEnd w h a p)
    obtain ⟨i3, j3, e3⟩ := posAfter_cong w h (dvOf c.1 c.2.1) c.2.1.natAbs (itemEnd w h b (itemEnd w h a p))
    refine ⟨i1 + i2 + i3, j1 + j2 + j3, ?_⟩
    rw [hpath]
    simp only [itemPath, itemEnd] at *
    rw [(sa _).2, (sb _).2, (sc _).2]
    simp only [lastPos, List.getLast?_nil]
    rw [e3, e2, e1]
    simp only [Int.mul_add]
    ext <;> simp <;> omega

theorem ldf_ok (v : V3) (start : P2) (w h : Option Int) (den k0 k1 k2 : Nat)
    (h0 : k0 < den) (h1 : k1 < den) (h2 : k2 < den) :
    ∃ path, ldf v start w h den k0 k1 k2 = .ok path ∧ ldfOk v start w h path = true := by
  obtain ⟨a, b, c, ho, hab, hbc, hs, hx, hy⟩ := order_ok v den k0 k1 k2 h0 h1 h2
  obtain ⟨hw, hl, i, j, he⟩ := three_ok w h a b c start
  refine ⟨itemPath w h a start ++ itemPath w h b (itemEnd w h a start) ++
        itemPath w h c (itemEnd w h b (itemEnd w h a start)), ?_, ?_⟩
  · simp only [ldf, ldfRaw, ho, ldfLoop3 w h a b c start hab hbc]
    exact mapM_some1 _
  · simp only [ldfOk, hw, Bool.true_and, Bool.and_eq_true, beq_iff_eq]
    refine ⟨⟨by rw [hl, hs], ?_⟩, ?_⟩
    · apply congr_of _ _ w i; rw [he, hx]; simp; omega
    · apply congr_of _ _ h j; rw [he, hy]; simp; omega


theorem specVec_mem {l : Nat} {d : P2} (h : specVec l = some d) : d ∈ hexSteps := by
  match l, h with
  | 0, h | 1, h | 2, h | 3, h | 4, h | 5, h => simp [specVec] at h; subst h; decide
  | (n + 6), h => simp [specVec] at h

theorem reach_cons {w h : Option Int} {n : Nat} {p q b : P2} {d : P2} (hd : d ∈ hexSteps)
    (hq : q = stepTo w h p d) (r : Reach w h n q b) : Reach w h (n + 1) p b := by
  induction r with
  | refl a => subst hq; exact Reach.step d (Reach.refl p) hd
  | step d' hr hd' ih => exact Reach.step d' (ih hq) hd'

/-- a labelled walk accepted by `walkOk` is a walk of the graph -/
theorem walkOk_reach (w h : Option Int) (p : P2) (path : List (Nat × P2)) (hok : walkOk w h p path = true) :
    Reach w h path.length p (lastPos p path) := by
  induction path generalizing p with
  | nil => exact Reach.refl p
  | cons e rest ih =>
    obtain ⟨l, q⟩ := e
    simp only [walkOk, Bool.and_eq_true] at hok
    obtain ⟨h1, h2⟩ := hok
    rw [lastPos_cons]
    cases hs : specVec l with
    | none => simp [hs] at h1
    | some d =>
      simp only [hs, beq_iff_eq] at h1
      exact reach_cons (specVec_mem hs) h1.symm (ih q h2)

/-! ### concentric hexagons -/

theorem mem_walkSide (d : P2) (n : Nat) (q p : P2) :
    p ∈ walkSide d n q ↔ ∃ i : Nat, i < n ∧ p = (q.1 + i * d.1, q.2 + i * d.2) := by
  induction n generalizing q with
  | zero => simp [walkSide]
  | succ n ih =>
    simp only [walkSide, List.mem_cons, ih]
    constructor
    · rintro (h | ⟨i, hi, h⟩)
      · exact ⟨0, by omega, by simp [h]⟩
      · refine ⟨i + 1, by omega, ?_⟩
        rw [h]
        have : ((i + 1 : Nat) : Int) = (i : Int) + 1 := by omega
        rw [this, Int.add_mul, Int.add_mul]; ext <;> simp <;> omega
    · rintro ⟨i, hi, h⟩
      cases i with
      | zero => left; simp [h]
      | succ i =>
        right
        refine ⟨i, by omega, ?_⟩
        rw [h]
        have : ((i + 1 : Nat) : Int) = (i : Int) + 1 := by omega
        rw [this, Int.add_mul, Int.add_mul]; ext <;> simp <;> omega

theorem walkSide_length (d : P2) (n : Nat) (q : P2) : (walkSide d n q).length = n := by
  induction n generalizing q with
  | zero => rfl
  | succ n ih => simp [walkSide, ih]

theorem ringEnd_hexDirs (r : Nat) (p : P2) : ringEnd r hexDirs p = p := by
  simp only [ringEnd, hexDirs, sideEnd]
  ext <;> simp <;> omega

theorem walkRing_length (r : Nat) (p : P2) : (walkRing r hexDirs p).length = 6 * r := by
  simp only [walkRing, hexDirs, List.length_append, walkSide_length, List.length_nil]; omega

/-- the six sides of ring `r` around `c`, explicitly -/
def onRing (c : P2) (r : Nat) (p : P2) : Prop :=
  ∃ i : Nat, i < r ∧
    (p = (c.1 + i, c.2 - r + i) ∨ p = (c.1 + r, c.2 + i) ∨ p = (c.1 + r - i, c.2 + r) ∨
     p = (c.1 - i, c.2 + r - i) ∨ p = (c.1 - r, c.2 - i) ∨ p = (c.1 - r + i, c.2 - r))

theorem mem_ring (c : P2) (r : Nat) (p : P2) :
    p ∈ walkRing r hexDirs (c.1, c.2 - r) ↔ onRing c r p := by
  simp only [walkRing, hexDirs, sideEnd, List.mem_append, mem_walkSide, List.not_mem_nil, or_false, onRing]
  constructor
  · rintro (⟨i, hi, h⟩ | ⟨i, hi, h⟩ | ⟨i, hi, h⟩ | ⟨i, hi, h⟩ | ⟨i, hi, h⟩ | ⟨i, hi, h⟩) <;>
      refine ⟨i, hi, ?_⟩ <;> subst h
    · left; ext <;> simp <;> omega
    · right; left; ext <;> simp <;> omega
    · right; right; left; ext <;> simp <;> omega
    · right; right; right; left; ext <;> simp <;> omega
    · right; right; right; right; left; ext <;> simp <;> omega
    · right; right; right; right; right; ext <;> simp <;> omega
  · rintro ⟨i, hi, h | h | h | h | h | h⟩ <;> subst h
    · left; exact ⟨i, hi, by ext <;> simp <;> omega⟩
    · right; left; exact ⟨i, hi, by ext <;> simp <;> omega⟩
    · right; right; left; exact ⟨i, hi, by ext <;> simp <;> omega⟩
    · right; right; right; left; exact ⟨i, hi, by ext <;> simp <;> omega⟩
    · right; right; right; right; left; exact ⟨i, hi, by ext <;> simp <;> omega⟩
    · right; right; right; right; right; exact ⟨i, hi, by ext <;> simp <;> omega⟩

theorem ring_witness' (x y M m : Int) (r : Nat) (hr : 1 ≤ r)
    (hM : (M = x ∨ M = y) ∧ x ≤ M ∧ y ≤ M) (hm : (m = x ∨ m = y) ∧ m ≤ x ∧ m ≤ y)
    (hd : max M 0 - min m 0 = r) :
    ∃ i : Nat, i < r ∧ ((x = i ∧ y = -r + i) ∨ (x = r ∧ y = i) ∨ (x = r - i ∧ y = r) ∨
      (x = -i ∧ y = r - i) ∨ (x = -r ∧ y = -i) ∨ (x = -r + i ∧ y = -r)) := by
  by_cases h1 : 0 ≤ x ∧ y < 0
  · obtain ⟨i, hi⟩ := Int.eq_ofNat_of_zero_le (show 0 ≤ x by omega)
    exact ⟨i, by omega, Or.inl ⟨by omega, by omega⟩⟩
  by_cases h2 : x = r ∧ 0 ≤ y ∧ y < r
  · obtain ⟨i, hi⟩ := Int.eq_ofNat_of_zero_le (show 0 ≤ y by omega)
    exact ⟨i, by omega, Or.inr (Or.inl ⟨by omega, by omega⟩)⟩
  by_cases h3 : y = r ∧ 0 < x
  · obtain ⟨i, hi⟩ := Int.eq_ofNat_of_zero_le (show 0 ≤ (r : Int) - x by omega)
    exact ⟨i, by omega, Or.inr (Or.inr (Or.inl ⟨by omega, by omega⟩))⟩
  by_cases h4 : x ≤ 0 ∧ 0 < y
  · obtain ⟨i, hi⟩ := Int.eq_ofNat_of_zero_le (show 0 ≤ -x by omega)
    exact ⟨i, by omega, Or.inr (Or.inr (Or.inr (Or.inl ⟨by omega, by omega⟩)))⟩
  by_cases h5 : x = -r ∧ -r < y ∧ y ≤ 0
  · obtain ⟨i, hi⟩ := Int.eq_ofNat_of_zero_le (show 0 ≤ -y by omega)
    exact ⟨i, by omega, Or.inr (Or.inr (Or.inr (Or.inr (Or.inl ⟨by omega, by omega⟩))))⟩
  · obtain ⟨i, hi⟩ := Int.eq_ofNat_of_zero_le (show 0 ≤ x + r by omega)
    exact ⟨i, by omega, Or.inr (Or.inr (Or.inr (Or.inr (Or.inr ⟨by omega, by omega⟩))))⟩

theorem ring_witness (x y : Int) (r : Nat) (hr : 1 ≤ r) (hd : hexLen x y = r) :
    ∃ i : Nat, i < r ∧ ((x = i ∧ y = -r + i) ∨ (x = r ∧ y = i) ∨ (x = r - i ∧ y = r) ∨
      (x = -i ∧ y = r - i) ∨ (x = -r ∧ y = -i) ∨ (x = -r + i ∧ y = -r)) := by
  refine ring_witness' x y (max x y) (min x y) r hr ⟨?_, Int.le_max_left _ _, Int.le_max_right _ _⟩
    ⟨?_, Int.min_le_left _ _, Int.min_le_right _ _⟩ hd
  · rcases Int.le_total x y with h | h
    · right; exact Int.max_eq_right h
    · left; exact Int.max_eq_left h
  · rcases Int.le_total x y with h | h
    · left; exact Int.min_eq_left h
    · right; exact Int.min_eq_right h

theorem onRing_dist (c : P2) (r : Nat) (p : P2) : onRing c r p ↔ (1 ≤ r ∧ hexDist c p = r) := by
  constructor
  · rintro ⟨i, hi, h | h | h | h | h | h⟩ <;> subst h <;> unfold hexDist hexLen <;>
      (constructor <;> (try dsimp only) <;> omega)
  · rintro ⟨hr, hd⟩
    obtain ⟨i, hi, h⟩ := ring_witness (p.1 - c.1) (p.2 - c.2) r hr hd
    refine ⟨i, hi, ?_⟩
    rcases h with ⟨a, b⟩ | ⟨a, b⟩ | ⟨a, b⟩ | ⟨a, b⟩ | ⟨a, b⟩ | ⟨a, b⟩
    · left; ext <;> simp <;> omega
    · right; left; ext <;> simp <;> omega
    · right; right; left; ext <;> simp <;> omega
    · right; right; right; left; ext <;> simp <;> omega
    · right; right; right; right; left; ext <;> simp <;> omega
    · right; right; right; right; right; ext <;> simp <;> omega

theorem walkSide_nodup (d : P2) (hd : d ∈ hexDirs) (n : Nat) (q : P2) : (walkSide d n q).Nodup := by
  induction n generalizing q with
  | zero => simp [walkSide]
  | succ n ih =>
    simp only [walkSide, List.nodup_cons, ih, and_true, mem_walkSide]
    rintro ⟨i, hi, h⟩
    have h1 := congrArg Prod.fst h
    have h2 := congrArg Prod.snd h
    simp only [hexDirs, List.mem_cons, List.not_mem_nil, or_false] at hd
    rcases hd with rfl | rfl | rfl | rfl | rfl | rfl <;> simp at h1 h2 <;> omega

theorem ring_nodup (c : P2) (r : Nat) : (walkRing r hexDirs (c.1, c.2 - r)).Nodup := by
  have hs : ∀ d ∈ hexDirs, ∀ q, (walkSide d r q).Nodup := fun d hd q => walkSide_nodup d hd r q
  simp only [walkRing, hexDirs, sideEnd, List.append_nil]
  simp only [List.nodup_append]
  refine ⟨hs _ (by decide) _, ⟨hs _ (by decide) _, ⟨hs _ (by decide) _, ⟨hs _ (by decide) _,
    ⟨hs _ (by decide) _, hs _ (by decide) _, ?_⟩, ?_⟩, ?_⟩, ?_⟩, ?_⟩
  all_goals
    intro a ha b hb hab
    subst hab
    simp only [List.mem_append, mem_walkSide] at ha hb
    obtain ⟨i, hi, ha⟩ := ha
  · obtain ⟨j, hj, hb⟩ := hb
    rw [ha] at hb
    have h1 := congrArg Prod.fst hb
    have h2 := congrArg Prod.snd hb
    simp at h1 h2; omega
  · rcases hb with ⟨j, hj, hb⟩ | ⟨j, hj, hb⟩ <;>
    · rw [ha] at hb
      have h1 := congrArg Prod.fst hb
      have h2 := congrArg Prod.snd hb
      simp at h1 h2; omega
  · rcases hb with ⟨j, hj, hb⟩ | ⟨j, hj, hb⟩ | ⟨j, hj, hb⟩ <;>
    · rw [ha] at hb
      have h1 := congrArg Prod.fst hb
      have h2 := congrArg Prod.snd hb
      simp at h1 h2; omega
  · rcases hb with ⟨j, hj, hb⟩ | ⟨j, hj, hb⟩ | ⟨j, hj, hb⟩ | ⟨j, hj, hb⟩ <;>
    · rw [ha] at hb
      have h1 := congrArg Prod.fst hb
      have h2 := congrArg Prod.snd hb
      simp at h1 h2; omega
  · rcases hb with ⟨j, hj, hb⟩ | ⟨j, hj, hb⟩ | ⟨j, hj, hb⟩ | ⟨j, hj, hb⟩ | ⟨j, hj, hb⟩ <;>
    · rw [ha] at hb
      have h1 := congrArg Prod.fst hb
      have h2 := congrArg Prod.snd hb
      simp at h1 h2; omega

def sumRings : Nat → Nat → Nat
  | 0, _ => 0
  | n + 1, r => 6 * r + sumRings n (r + 1)

theorem sumRings_closed (n r : Nat) : sumRings n r + 3 * n = 6 * (n * r) + 3 * (n * n) := by
  induction n generalizing r with
  | zero => simp [sumRings]
  | succ n ih =>
    have := ih (r + 1)
    simp only [sumRings, Nat.add_mul, Nat.mul_add, Nat.one_mul, Nat.mul_one] at *
    omega

theorem hexDist_nonneg (c p : P2) : 0 ≤ hexDist c p := hexLen_nonneg _ _

theorem rings_spec (c : P2) (n : Nat) : ∀ (r0 : Nat) (p : P2), 1 ≤ r0 → p = (c.1, c.2 - r0 + 1) →
    (∀ q, q ∈ rings n r0 p ↔ ∃ r : Nat, r0 ≤ r ∧ r < r0 + n ∧ hexDist c q = r) ∧
    (rings n r0 p).Nodup ∧ (rings n r0 p).Pairwise (fun a b => hexDist c a ≤ hexDist c b) ∧
    (rings n r0 p).length = sumRings n r0 := by
  induction n with
  | zero =>
    intro r0 p _ _
    refine ⟨fun q => ?_, by simp [rings], by simp [rings], by simp [rings, sumRings]⟩
    simp only [rings, List.not_mem_nil, false_iff]
    rintro ⟨r, h1, h2, _⟩; omega
  | succ n ih =>
    intro r0 p hr0 hp
    have hp' : (p.1, p.2 - 1) = (c.1, c.2 - (r0 : Int)) := by rw [hp]; ext <;> simp <;> omega
    obtain ⟨im, ind, ipw, il⟩ := ih (r0 + 1) (c.1, c.2 - (r0 : Int)) (by omega) (by ext <;> simp <;> omega)
    have hm : ∀ q, q ∈ walkRing r0 hexDirs (c.1, c.2 - (r0 : Int)) ↔ hexDist c q = r0 := by
      intro q; rw [mem_ring, onRing_dist]; simp [hr0]
    simp only [rings, hp', ringEnd_hexDirs]
    refine ⟨fun q => ?_, ?_, ?_, ?_⟩
    · rw [List.mem_append, hm, im]
      constructor
      · rintro (h | ⟨r, h1, h2, h3⟩)
        · exact ⟨r0, by omega, by omega, h⟩
        · exact ⟨r, by omega, by omega, h3⟩
      · rintro ⟨r, h1, h2, h3⟩
        by_cases hr : r = r0
        · left; rw [h3, hr]
        · right; exact ⟨r, by omega, by omega, h3⟩
    · rw [List.nodup_append]
      refine ⟨ring_nodup c r0, ind, ?_⟩
      intro a ha b hb hab
      subst hab
      rw [hm] at ha
      obtain ⟨r, h1, _, h3⟩ := (im a).1 hb
      omega
    · rw [List.pairwise_append]
      refine ⟨?_, ipw, ?_⟩
      · refine List.Pairwise.imp_of_mem ?_ (ring_nodup c r0)
        intro a b ha hb _
        rw [(hm a).1 ha, (hm b).1 hb]; omega
      · intro a ha b hb
        obtain ⟨r, h1, _, h3⟩ := (im b).1 hb
        rw [(hm a).1 ha, h3]; omega
    · rw [List.length_append, walkRing_length, il]; rfl


theorem hexDist_self (c : P2) : hexDist c c = 0 := by simp [hexDist, hexLen]

theorem hexDist_eq_zero (c p : P2) (h : hexDist c p = 0) : p = c := by
  unfold hexDist hexLen at h
  ext <;> omega

/-! ### the executable graph search is the graph distance -/

theorem mem_insertAll (acc l : List P2) (p : P2) : p ∈ insertAll acc l ↔ p ∈ acc ∨ p ∈ l := by
  induction l generalizing acc with
  | nil => simp [insertAll]
  | cons q t ih =>
    simp only [insertAll]
    split
    · rename_i hq
      rw [ih]
      have : q ∈ acc := by simpa using hq
      constructor
      · rintro (h | h)
        · exact .inl h
        · exact .inr (List.mem_cons_of_mem _ h)
      · rintro (h | h)
        · exact .inl h
        · rcases List.mem_cons.1 h with rfl | h
          · exact .inl this
          · exact .inr h
    · rw [ih]
      simp only [List.mem_append, List.mem_singleton, List.mem_cons, List.not_mem_nil, or_false]
      constructor
      · rintro ((h | h) | h)
        · exact .inl h
        · exact .inr (.inl h)
        · exact .inr (.inr h)
      · rintro (h | h | h)
        · exact .inl (.inl h)
        · exact .inl (.inr h)
        · exact .inr h

theorem mem_expand (w h : Option Int) (l : List P2) (q : P2) :
    q ∈ expand w h l ↔ ∃ p, p ∈ l ∧ ∃ d, d ∈ hexSteps ∧ q = stepTo w h p d := by
  simp only [expand, List.mem_flatMap, List.mem_map]
  constructor
  · rintro ⟨p, hp, d, hd, rfl⟩; exact ⟨p, hp, d, hd, rfl⟩
  · rintro ⟨p, hp, d, hd, rfl⟩; exact ⟨p, hp, d, hd, rfl⟩

theorem mem_ballLe (w h : Option Int) (a b : P2) (n : Nat) :
    b ∈ ballLe w h a n ↔ ∃ m, m ≤ n ∧ Reach w h m a b := by
  induction n generalizing b with
  | zero =>
    simp only [ballLe, List.mem_singleton]
    constructor
    · rintro rfl; exact ⟨0, Nat.le_refl 0, Reach.refl _⟩
    · rintro ⟨m, hm, r⟩
      have : m = 0 := by omega
      subst this
      cases r; rfl
  | succ n ih =>
    simp only [ballLe, grow, mem_insertAll, mem_expand]
    constructor
    · rintro (hb | ⟨p, hp, d, hd, rfl⟩)
      · obtain ⟨m, hm, r⟩ := (ih b).1 hb
        exact ⟨m, by omega, r⟩
      · obtain ⟨m, hm, r⟩ := (ih p).1 hp
        exact ⟨m + 1, by omega, Reach.step d r hd⟩
    · rintro ⟨m, hm, r⟩
      by_cases hmn : m ≤ n
      · exact .inl ((ih b).2 ⟨m, hmn, r⟩)
      · have : m = n + 1 := by omega
        subst this
        cases r with
        | step d r' hd => exact .inr ⟨_, (ih _).2 ⟨n, Nat.le_refl n, r'⟩, d, hd, rfl⟩

/-- the decidable distance test used as oracle is exactly `IsDist` -/
theorem distIs_iff (w h : Option Int) (a b : P2) (n : Nat) :
    distIs w h a b n = true ↔ IsDist w h a b n := by
  simp only [distIs, Bool.and_eq_true, Bool.or_eq_true, List.contains_iff_mem, beq_iff_eq,
    Bool.not_eq_true', IsDist]
  have hc : ∀ k, (ballLe w h a k).contains b = false ↔ ¬ b ∈ ballLe w h a k := by
    intro k; rw [← List.contains_iff_mem]; simp
  rw [hc, mem_ballLe, mem_ballLe]
  constructor
  · rintro ⟨⟨m, hm, r⟩, hmin⟩
    have hlow : ∀ m', Reach w h m' a b → n ≤ m' := by
      intro m' r'
      rcases hmin with h0 | hnot
      · omega
      · by_cases hh : n ≤ m'
        · exact hh
        · exact absurd ⟨m', by omega, r'⟩ hnot
    have : m = n := by have := hlow m r; omega
    subst this
    exact ⟨r, hlow⟩
  · rintro ⟨r, hlow⟩
    refine ⟨⟨n, Nat.le_refl n, r⟩, ?_⟩
    by_cases h0 : n = 0
    · exact .inl h0
    · right
      rintro ⟨m, hm, r'⟩
      have := hlow m r'
      omega

theorem ballsFrom_levelOf (w h : Option Int) (a p : P2) (n : Nat) : ∀ (k i r : Nat),
    levelOf p (ballsFrom w h n (ballLe w h a k)) i = some r →
    ∃ j, r = i + j ∧ p ∈ ballLe w h a (k + j) ∧ ∀ j', j' < j → ¬ p ∈ ballLe w h a (k + j') := by
  induction n with
  | zero =>
    intro k i r hr
    simp only [ballsFrom, levelOf] at hr
    split at hr
    · rename_i hc
      cases hr
      exact ⟨0, rfl, by simpa using hc, by intro j' hj; omega⟩
    · cases hr
  | succ n ih =>
    intro k i r hr
    simp only [ballsFrom, levelOf] at hr
    split at hr
    · rename_i hc
      cases hr
      exact ⟨0, rfl, by simpa using hc, by intro j' hj; omega⟩
    · rename_i hc
      have hg : grow w h (ballLe w h a k) = ballLe w h a (k + 1) := rfl
      rw [hg] at hr
      obtain ⟨j, hj1, hj2, hj3⟩ := ih (k + 1) (i + 1) r hr
      refine ⟨j + 1, by omega, by rw [show k + (j + 1) = k + 1 + j by omega]; exact hj2, ?_⟩
      intro j' hj'
      cases j' with
      | zero => simpa using hc
      | succ j' =>
        rw [show k + (j' + 1) = k + 1 + j' by omega]
        exact hj3 j' (by omega)

/-- **Oracle soundness.** Whatever the graph search of the driver (`spec_dists`) reports for a chip
is its graph distance. -/
theorem levelOf_isDist (w h : Option Int) (a p : P2) (n r : Nat)
    (hr : levelOf p (ballsFrom w h n [a]) 0 = some r) : IsDist w h a p r := by
  obtain ⟨j, hj1, hj2, hj3⟩ := ballsFrom_levelOf w h a p n 0 0 r hr
  have : r = j := by omega
  subst this
  rw [← distIs_iff]
  simp only [distIs, Bool.and_eq_true, Bool.or_eq_true, beq_iff_eq, Bool.not_eq_true']
  refine ⟨by simpa using hj2, ?_⟩
  by_cases h0 : r = 0
  · exact .inl h0
  · right
    have := hj3 (r - 1) (by omega)
    simpa using this

/-! ### links -/

def normWrap (x : Int) : Int := if x.natAbs > 1 then (if x > 0 then -1 else 1) else x

theorem fromVector_norm (x y : Int) : fromVector x y = lookupDir (normWrap x, normWrap y) := rfl

theorem normWrap_step (a d w : Int) (ha : 0 ≤ a) (haw : a < w) (hw : 3 ≤ w) (hd : d = -1 ∨ d = 0 ∨ d = 1) :
    normWrap ((a + d) % w - a) = d := by
  rcases hd with rfl | rfl | rfl
  · by_cases h0 : a = 0
    · subst h0
      have : (0 + -1) % w = w - 1 := by
        have := Int.add_mul_emod_self_left (-1) w 1
        rw [Int.mul_one] at this
        rw [show (0 : Int) + -1 = -1 by rfl, ← this, Int.emod_eq_of_lt (by omega) (by omega)]; omega
      rw [this]; simp only [normWrap]; split <;> (try split) <;> omega
    · rw [Int.emod_eq_of_lt (by omega) (by omega)]
      simp only [normWrap]; split <;> (try split) <;> omega
  · rw [Int.add_zero, Int.emod_eq_of_lt ha haw]
    simp [normWrap]
  · by_cases h0 : a + 1 = w
    · rw [h0, Int.emod_self]
      simp only [normWrap]; split <;> (try split) <;> omega
    · rw [Int.emod_eq_of_lt (by omega) (by omega)]
      simp only [normWrap]; split <;> (try split) <;> omega

theorem specVec_range {l : Nat} {d : P2} (h : specVec l = some d) :
    (d.1 = -1 ∨ d.1 = 0 ∨ d.1 = 1) ∧ (d.2 = -1 ∨ d.2 = 0 ∨ d.2 = 1) ∧ lookupDir d = some l := by
  match l, h with
  | 0, h | 1, h | 2, h | 3, h | 4, h | 5, h => simp [specVec] at h; subst h; decide
  | (n + 6), h => simp [specVec] at h

theorem allLinks_eq : allLinks = [0, 1, 2, 3, 4, 5] := by decide

theorem toVector_spec : ∀ l ∈ [0, 1, 2, 3, 4, 5], toVector l = specVec l ∧ (specVec l).isSome = true := by decide

def lbFilter (a b : P2) (m : Mach) (l : Nat) : Bool :=
  match specVec l with
  | some d => (stepTo (some m.w) (some m.h) a d == b) && m.hasLink a l
  | none => false

theorem lb_foldr (a b : P2) (m : Mach) (ls : List Nat)
    (hall : ∀ l ∈ ls, toVector l = specVec l ∧ (specVec l).isSome = true) :
    ls.foldr (fun l acc =>
      match toVector l, acc with
      | some d, some acc =>
        if pyMod (a.1 + d.1) m.w = b.1 ∧ pyMod (a.2 + d.2) m.h = b.2 ∧ m.hasLink a l = true
        then some (l :: acc) else some acc
      | _, _ => none) (some []) = some (ls.filter (lbFilter a b m)) := by
  induction ls with
  | nil => rfl
  | cons l t ih =>
    have ht := ih (fun l hl => hall l (List.mem_cons_of_mem _ hl))
    obtain ⟨h1, h2⟩ := hall l (List.mem_cons_self ..)
    rw [List.foldr_cons, ht, h1]
    cases hs : specVec l with
    | none => simp [hs] at h2
    | some d =>
      simp only [List.filter_cons, lbFilter, hs, stepTo, wrap]
      obtain ⟨bx, by'⟩ := b
      by_cases c1 : pyMod (a.1 + d.1) m.w = bx <;> by_cases c2 : pyMod (a.2 + d.2) m.h = by' <;>
        cases hh : m.hasLink a l <;> simp [c1, c2, hh]

theorem linksBetween_spec (a b : P2) (m : Mach) :
    linksBetween a b m = some (specLinksBetween a b m) := by
  have := lb_foldr a b m [0, 1, 2, 3, 4, 5] toVector_spec
  unfold linksBetween specLinksBetween
  rw [allLinks_eq]
  exact this

/-! ### composition -/

theorem walkOk_last_range (w h : Int) (hw : 0 < w) (hh : 0 < h) (p : P2) (path : List (Nat × P2))
    (hok : walkOk (some w) (some h) p path = true) (hne : path ≠ []) :
    (0 ≤ (lastPos p path).1 ∧ (lastPos p path).1 < w) ∧ (0 ≤ (lastPos p path).2 ∧ (lastPos p path).2 < h) := by
  induction path generalizing p with
  | nil => exact absurd rfl hne
  | cons e rest ih =>
    obtain ⟨l, q⟩ := e
    simp only [walkOk, Bool.and_eq_true] at hok
    obtain ⟨h1, h2⟩ := hok
    rw [lastPos_cons]
    cases rest with
    | cons e' rest' => exact ih q h2 (by simp)
    | nil =>
      cases hs : specVec l with
      | none => simp [hs] at h1
      | some d =>
        simp only [hs, beq_iff_eq, stepTo_some hw hh] at h1
        simp only [lastPos, List.getLast?_nil, ← h1]
        exact ⟨⟨Int.emod_nonneg _ (Int.ne_of_gt hw), Int.emod_lt_of_pos _ hw⟩,
          ⟨Int.emod_nonneg _ (Int.ne_of_gt hh), Int.emod_lt_of_pos _ hh⟩⟩

theorem cong_unique (x y w : Int) (hw : 0 < w) (hx : 0 ≤ x ∧ x < w) (hc : (x - y) % w = 0) : x = y % w := by
  have := (Int.emod_eq_emod_iff_emod_sub_eq_zero (m := x) (n := w) (k := y)).2 hc
  rw [Int.emod_eq_of_lt hx.1 hx.2] at this
  exact this

theorem absSum_zero (v : V3) (h : absSum v = 0) : v.x = 0 ∧ v.y = 0 ∧ v.z = 0 := by
  simp only [absSum] at h; omega

theorem torus_walk_compose (s d : V3) (w h : Int) (hw : 1 ≤ w) (hh : 1 ≤ h)
    (den k0 k1 k2 k3 t : Nat) (h0 : k0 < den) (h1 : k1 < den) (h2 : k2 < den) (h3 : k3 < den)
    (den' j0 j1 j2 : Nat) (g0 : j0 < den') (g1 : j1 < den') (g2 : j2 < den') :
    ∃ v path, torusPath s d w h den k0 k1 k2 k3 t = .ok v ∧
      ldf v (projT s w h) (some w) (some h) den' j0 j1 j2 = .ok path ∧
      torusLen s d w h = .ok (path.length : Int) ∧
      walkOk (some w) (some h) (projT s w h) path = true ∧
      lastPos (projT s w h) path = projT d w h := by
  have hw' : 0 < w := by omega
  have hh' : 0 < h := by omega
  have hz : ¬ (w = 0 ∨ h = 0) := by omega
  obtain ⟨hlen, hcx, hcy⟩ := torusPathCore_ok s d w h hw' hh' den k0 k1 k2 k3 t h0 h1 h2 h3
  generalize hv : torusPathCore s d w h den k0 k1 k2 k3 t = v at *
  obtain ⟨path, hp, hok⟩ := ldf_ok v (projT s w h) (some w) (some h) den' j0 j1 j2 g0 g1 g2
  refine ⟨v, path, by simp only [torusPath, hz, if_false, hv], hp, ?_⟩
  simp only [ldfOk, Bool.and_eq_true, beq_iff_eq, congr?] at hok
  obtain ⟨⟨⟨hwalk, hl⟩, hx⟩, hy⟩ := hok
  refine ⟨by simp only [torusLen, hz, if_false, hl, hlen], hwalk, ?_⟩
  -- the end of the walk is congruent to the destination
  have ex : ((lastPos (projT s w h) path).1 - (proj d).1) % w = 0 := by
    have e1 := Int.emod_def ((proj s).1) w
    obtain ⟨q1, hq1⟩ := Int.dvd_of_emod_eq_zero hx
    obtain ⟨q2, hq2⟩ := Int.dvd_of_emod_eq_zero hcx
    simp only [projT, proj] at *
    have : (lastPos ((s.x - s.z) % w, (s.y - s.z) % h) path).1 - (d.x - d.z) =
        w * (q1 + q2 - (s.x - s.z) / w) := by
      rw [Int.mul_sub, Int.mul_add]; omega
    rw [this]; exact Int.mul_emod_right _ _
  have ey : ((lastPos (projT s w h) path).2 - (proj d).2) % h = 0 := by
    have e1 := Int.emod_def ((proj s).2) h
    obtain ⟨q1, hq1⟩ := Int.dvd_of_emod_eq_zero hy
    obtain ⟨q2, hq2⟩ := Int.dvd_of_emod_eq_zero hcy
    simp only [projT, proj] at *
    have : (lastPos ((s.x - s.z) % w, (s.y - s.z) % h) path).2 - (d.y - d.z) =
        h * (q1 + q2 - (s.y - s.z) / h) := by
      rw [Int.mul_sub, Int.mul_add]; omega
    rw [this]; exact Int.mul_emod_right _ _
  -- and it is in range
  have hr : (0 ≤ (lastPos (projT s w h) path).1 ∧ (lastPos (projT s w h) path).1 < w) ∧
      (0 ≤ (lastPos (projT s w h) path).2 ∧ (lastPos (projT s w h) path).2 < h) := by
    by_cases hne : path = []
    · subst hne
      simp only [lastPos, List.getLast?_nil, projT]
      exact ⟨⟨Int.emod_nonneg _ (Int.ne_of_gt hw'), Int.emod_lt_of_pos _ hw'⟩,
        ⟨Int.emod_nonneg _ (Int.ne_of_gt hh'), Int.emod_lt_of_pos _ hh'⟩⟩
    · exact walkOk_last_range w h hw' hh' _ path hwalk hne
  have fx := cong_unique _ _ w hw' hr.1 ex
  have fy := cong_unique _ _ h hh' hr.2 ey
  ext
  · rw [fx]; rfl
  · rw [fy]; rfl
end Rig.C11
