/-
C12 - histories on ONE `RegionCoreTree` object: `add_core` calls interleaved with read-outs
(`runHistory`).  Core Lean only.
-/
import RigModel.Lemmas.C12
set_option linter.unusedSimpArgs false
set_option linter.unusedVariables false

namespace Rig.C12

/-- the cores added by a history, in order -/
def addsOf : List HOp → List (Int × Int × Int)
  | [] => []
  | .add x y p :: r => (x, y, p) :: addsOf r
  | .read :: r => addsOf r

/-- every call of a history paired with the cores added BEFORE it (`pre` = added before the history) -/
def annot (pre : List (Int × Int × Int)) : List HOp → List (List (Int × Int × Int) × HOp)
  | [] => []
  | .add x y p :: r => (pre, .add x y p) :: annot (pre ++ [(x, y, p)]) r
  | .read :: r => (pre, .read) :: annot pre r

/-- the result a call must have: the root's `add_core` returns `False`; a read-out selects exactly
the cores added so far, each once -/
def ResOK (a : List (Int × Int × Int) × HOp) (res : HRes) : Prop :=
  match a.2, res with
  | .add _ _ _, .added b => b = false
  | .read, .pairs l => Exact (a.1.map toNat3) l
  | _, _ => False

/-- call by call: as many results as calls, each as `ResOK` demands -/
def AllOK : List (List (Int × Int × Int) × HOp) → List HRes → Prop
  | [], [] => True
  | a :: as, r :: rs => ResOK a r ∧ AllOK as rs
  | _, _ => False

theorem hist_spec : ∀ (ops : List HOp) (t0 : RTree) (rs0 : List HRes) (pre0 : List (Int × Int × Int)),
    RootOK t0 → (∀ x y p, holds 4 t0 x y p ↔ (x, y, p) ∈ pre0.map toNat3) →
    (∀ c, c ∈ addsOf ops → InRange c) →
    ∃ t rs, ops.foldlM (histStep 4) (t0, rs0) = .ok (t, rs0 ++ rs) ∧ RootOK t ∧
      (∀ x y p, holds 4 t x y p ↔ (x, y, p) ∈ (pre0 ++ addsOf ops).map toNat3) ∧
      AllOK (annot pre0 ops) rs ∧
      (addsOf ops).foldlM (fun t c => addRoot t c.1 c.2.1 c.2.2) t0 = .ok t
  | [], t0, rs0, pre0, h0, hh, _ =>
    ⟨t0, [], by rw [List.foldlM_nil, List.append_nil]; rfl, h0, by simpa [addsOf] using hh,
      by simp [annot, AllOK], rfl⟩
  | .read :: ops, t0, rs0, pre0, h0, hh, hr => by
    obtain ⟨t, rs, e, ht, hht, hf, hb⟩ :=
      hist_spec ops t0 (rs0 ++ [.pairs (emit 4 t0)]) pre0 h0 hh (by simpa [addsOf] using hr)
    refine ⟨t, .pairs (emit 4 t0) :: rs, ?_, ht, by simpa [addsOf] using hht, ?_, by simpa [addsOf] using hb⟩
    · rw [List.foldlM_cons]
      have : histStep 4 (t0, rs0) .read = .ok (t0, rs0 ++ [.pairs (emit 4 t0)]) := rfl
      rw [this]
      simp only [List.append_assoc, List.singleton_append] at e
      exact e
    · simp only [annot, AllOK]
      refine ⟨?_, hf⟩
      show Exact (pre0.map toNat3) (emit 4 t0)
      intro x y p
      have hc := emit_count 4 t0 h0.1 x y p
      by_cases hm : (x, y, p) ∈ pre0.map toNat3
      · rw [if_pos hm]; exact hc.1 ((hh x y p).2 hm)
      · rw [if_neg hm]; exact hc.2 (fun h => hm ((hh x y p).1 h))
  | .add cx cy cp :: ops, t0, rs0, pre0, h0, hh, hr => by
    have hc : InRange (cx, cy, cp) := hr _ (by simp [addsOf])
    obtain ⟨t1, e1, h1, hh1⟩ := addRoot_spec t0 (cx, cy, cp) h0 hc
    have hneg : ¬ (cx < 0 ∨ cy < 0 ∨ cp < 0) := by
      simp only [InRange] at hc; omega
    -- the same `addCore` call inside `addRoot`
    have hcore : ∃ b, addCore 4 t0 cx.toNat cy.toNat cp.toNat = .ok (t1, b) := by
      simp only [addRoot, if_neg hneg] at e1
      cases hq : addCore 4 t0 cx.toNat cy.toNat cp.toNat with
      | error e => rw [hq] at e1; cases e1
      | ok v =>
        obtain ⟨t', b⟩ := v
        rw [hq] at e1
        cases e1
        exact ⟨b, rfl⟩
    obtain ⟨b, hcore⟩ := hcore
    have hb : b = false := by
      obtain ⟨hI, h0x, h0y, h0l⟩ := h0
      have hin : inSq t0.x0 t0.y0 t0.lv cx.toNat cy.toNat := by
        rw [h0x, h0y, h0l]; simp only [inSq, scale, InRange] at hc ⊢; omega
      obtain ⟨t', full, heq, _, _, _, _, hfull, _, _⟩ :=
        addCore_spec 4 t0 cx.toNat cy.toNat cp.toNat hI hin (by simp only [InRange] at hc; omega)
      rw [hcore] at heq
      cases heq
      exact hfull h0l
    subst hb
    have hh1' : ∀ x y p, holds 4 t1 x y p ↔ (x, y, p) ∈ (pre0 ++ [(cx, cy, cp)]).map toNat3 := by
      intro x y p
      rw [hh1, hh]
      simp only [List.map_append, List.mem_append, List.map_cons, List.map_nil, List.mem_singleton]
    obtain ⟨t, rs, e, ht, hht, hf, hbt⟩ :=
      hist_spec ops t1 (rs0 ++ [.added false]) (pre0 ++ [(cx, cy, cp)]) h1 hh1'
        (fun c hc' => hr c (by simp [addsOf, hc']))
    refine ⟨t, .added false :: rs, ?_, ht, ?_, ?_, ?_⟩
    · rw [List.foldlM_cons]
      have : histStep 4 (t0, rs0) (.add cx cy cp) = .ok (t1, rs0 ++ [.added false]) := by
        simp only [histStep, if_neg hneg, hcore]
      rw [this]
      simp only [List.append_assoc, List.singleton_append] at e
      exact e
    · intro x y p
      rw [hht]
      simp only [addsOf, List.append_assoc, List.singleton_append]
    · simp only [annot, AllOK]
      exact ⟨rfl, hf⟩
    · simp only [addsOf, List.foldlM_cons]
      rw [e1]
      exact hbt

theorem allOK_get : ∀ (a : List HOp) (op : HOp) (b : List HOp) (pre : List (Int × Int × Int)) (rs : List HRes),
    AllOK (annot pre (a ++ op :: b)) rs → ∃ r, rs[a.length]? = some r ∧ ResOK (pre ++ addsOf a, op) r
  | [], op, b, pre, rs, h => by
    cases op <;> cases rs <;> simp only [List.nil_append, annot, AllOK] at h
    · exact ⟨_, rfl, by simpa [addsOf] using h.1⟩
    · exact ⟨_, rfl, by simpa [addsOf] using h.1⟩
  | .read :: a, op, b, pre, rs, h => by
    cases rs with
    | nil => simp only [List.cons_append, annot, AllOK] at h
    | cons r rs =>
      simp only [List.cons_append, annot, AllOK] at h
      obtain ⟨r', h1, h2⟩ := allOK_get a op b pre rs h.2
      exact ⟨r', by simpa using h1, by simpa [addsOf] using h2⟩
  | .add x y p :: a, op, b, pre, rs, h => by
    cases rs with
    | nil => simp only [List.cons_append, annot, AllOK] at h
    | cons r rs =>
      simp only [List.cons_append, annot, AllOK] at h
      obtain ⟨r', h1, h2⟩ := allOK_get a op b (pre ++ [(x, y, p)]) rs h.2
      exact ⟨r', by simpa using h1, by simpa [addsOf] using h2⟩

/-! ### histories in which calls may fail and the object is used on -/

instance (c : Int × Int × Int) : Decidable (InRange c) := by unfold InRange; exact inferInstance

/-- the adds of a history that are in range (the others raise and change nothing) -/
def goodAdds : List HOp → List (Int × Int × Int)
  | [] => []
  | .add x y p :: r => if InRange (x, y, p) then (x, y, p) :: goodAdds r else goodAdds r
  | .read :: r => goodAdds r

/-- every call paired with the in-range cores added before it -/
def annotF (pre : List (Int × Int × Int)) : List HOp → List (List (Int × Int × Int) × HOp)
  | [] => []
  | .add x y p :: r =>
    (pre, .add x y p) :: annotF (if InRange (x, y, p) then pre ++ [(x, y, p)] else pre) r
  | .read :: r => (pre, .read) :: annotF pre r

/-- the result a call must have, failing calls included: an in-range `add_core` returns `False`, any
other raises `ValueError`; a read-out selects exactly the in-range cores added so far, each once -/
def ResOKF (a : List (Int × Int × Int) × HOp) (res : HRes) : Prop :=
  match a.2, res with
  | .add x y p, .added b => InRange (x, y, p) ∧ b = false
  | .add x y p, .raised e => ¬ InRange (x, y, p) ∧ e = .valueError
  | .read, .pairs l => Exact (a.1.map toNat3) l
  | _, _ => False

def AllOKF : List (List (Int × Int × Int) × HOp) → List HRes → Prop
  | [], [] => True
  | a :: as, r :: rs => ResOKF a r ∧ AllOKF as rs
  | _, _ => False

theorem histStep_bad (t0 : RTree) (rs0 : List HRes) (cx cy cp : Int) (h0 : RootOK t0)
    (hc : ¬ InRange (cx, cy, cp)) :
    histStep 4 (t0, rs0) (.add cx cy cp) = .ok (t0, rs0 ++ [.raised .valueError]) := by
  by_cases hneg : cx < 0 ∨ cy < 0 ∨ cp < 0
  · simp only [histStep, if_pos hneg]
  · have he := addRoot_err t0 (cx, cy, cp) h0 hc
    simp only [addRoot, if_neg hneg] at he
    simp only [histStep, if_neg hneg]
    cases hq : addCore 4 t0 cx.toNat cy.toNat cp.toNat with
    | error e => rw [hq] at he; cases he; rfl
    | ok v => rw [hq] at he; cases he

theorem histStep_good (t0 : RTree) (rs0 : List HRes) (pre0 : List (Int × Int × Int)) (cx cy cp : Int)
    (h0 : RootOK t0) (hh : ∀ x y p, holds 4 t0 x y p ↔ (x, y, p) ∈ pre0.map toNat3)
    (hc : InRange (cx, cy, cp)) :
    ∃ t1, histStep 4 (t0, rs0) (.add cx cy cp) = .ok (t1, rs0 ++ [.added false]) ∧ RootOK t1 ∧
      addRoot t0 cx cy cp = .ok t1 ∧
      ∀ x y p, holds 4 t1 x y p ↔ (x, y, p) ∈ (pre0 ++ [(cx, cy, cp)]).map toNat3 := by
  obtain ⟨t1, e1, h1, hh1⟩ := addRoot_spec t0 (cx, cy, cp) h0 hc
  have hneg : ¬ (cx < 0 ∨ cy < 0 ∨ cp < 0) := by
    simp only [InRange] at hc; omega
  have hcore : ∃ b, addCore 4 t0 cx.toNat cy.toNat cp.toNat = .ok (t1, b) := by
    simp only [addRoot, if_neg hneg] at e1
    cases hq : addCore 4 t0 cx.toNat cy.toNat cp.toNat with
    | error e => rw [hq] at e1; cases e1
    | ok v =>
      obtain ⟨t', b⟩ := v
      rw [hq] at e1
      cases e1
      exact ⟨b, rfl⟩
  obtain ⟨b, hcore⟩ := hcore
  have hb : b = false := by
    obtain ⟨hI, h0x, h0y, h0l⟩ := h0
    have hin : inSq t0.x0 t0.y0 t0.lv cx.toNat cy.toNat := by
      rw [h0x, h0y, h0l]; simp only [inSq, scale, InRange] at hc ⊢; omega
    obtain ⟨t', full, heq, _, _, _, _, hfull, _, _⟩ :=
      addCore_spec 4 t0 cx.toNat cy.toNat cp.toNat hI hin (by simp only [InRange] at hc; omega)
    rw [hcore] at heq
    cases heq
    exact hfull h0l
  subst hb
  refine ⟨t1, by simp only [histStep, if_neg hneg, hcore], h1, e1, ?_⟩
  intro x y p
  rw [hh1, hh]
  simp only [List.map_append, List.mem_append, List.map_cons, List.map_nil, List.mem_singleton]

theorem hist_specF : ∀ (ops : List HOp) (t0 : RTree) (rs0 : List HRes) (pre0 : List (Int × Int × Int)),
    RootOK t0 → (∀ x y p, holds 4 t0 x y p ↔ (x, y, p) ∈ pre0.map toNat3) →
    ∃ t rs, ops.foldlM (histStep 4) (t0, rs0) = .ok (t, rs0 ++ rs) ∧ RootOK t ∧
      (∀ x y p, holds 4 t x y p ↔ (x, y, p) ∈ (pre0 ++ goodAdds ops).map toNat3) ∧
      AllOKF (annotF pre0 ops) rs ∧
      (goodAdds ops).foldlM (fun t c => addRoot t c.1 c.2.1 c.2.2) t0 = .ok t
  | [], t0, rs0, pre0, h0, hh =>
    ⟨t0, [], by rw [List.foldlM_nil, List.append_nil]; rfl, h0, by simpa [goodAdds] using hh,
      by simp [annotF, AllOKF], rfl⟩
  | .read :: ops, t0, rs0, pre0, h0, hh => by
    obtain ⟨t, rs, e, ht, hht, hf, hb⟩ :=
      hist_specF ops t0 (rs0 ++ [.pairs (emit 4 t0)]) pre0 h0 hh
    refine ⟨t, .pairs (emit 4 t0) :: rs, ?_, ht, by simpa [goodAdds] using hht, ?_, by simpa [goodAdds] using hb⟩
    · rw [List.foldlM_cons]
      have : histStep 4 (t0, rs0) .read = .ok (t0, rs0 ++ [.pairs (emit 4 t0)]) := rfl
      rw [this]
      simp only [List.append_assoc, List.singleton_append] at e
      exact e
    · simp only [annotF, AllOKF]
      refine ⟨?_, hf⟩
      show Exact (pre0.map toNat3) (emit 4 t0)
      intro x y p
      have hc := emit_count 4 t0 h0.1 x y p
      by_cases hm : (x, y, p) ∈ pre0.map toNat3
      · rw [if_pos hm]; exact hc.1 ((hh x y p).2 hm)
      · rw [if_neg hm]; exact hc.2 (fun h => hm ((hh x y p).1 h))
  | .add cx cy cp :: ops, t0, rs0, pre0, h0, hh => by
    by_cases hc : InRange (cx, cy, cp)
    · obtain ⟨t1, hs, h1, e1, hh1⟩ := histStep_good t0 rs0 pre0 cx cy cp h0 hh hc
      obtain ⟨t, rs, e, ht, hht, hf, hbt⟩ :=
        hist_specF ops t1 (rs0 ++ [.added false]) (pre0 ++ [(cx, cy, cp)]) h1 hh1
      refine ⟨t, .added false :: rs, ?_, ht, ?_, ?_, ?_⟩
      · rw [List.foldlM_cons, hs]
        simp only [List.append_assoc, List.singleton_append] at e
        exact e
      · intro x y p
        rw [hht]
        simp only [goodAdds, if_pos hc, List.append_assoc, List.singleton_append]
      · simp only [annotF, AllOKF, if_pos hc]
        exact ⟨⟨hc, rfl⟩, hf⟩
      · simp only [goodAdds, if_pos hc, List.foldlM_cons]
        rw [e1]
        exact hbt
    · have hs := histStep_bad t0 rs0 cx cy cp h0 hc
      obtain ⟨t, rs, e, ht, hht, hf, hbt⟩ :=
        hist_specF ops t0 (rs0 ++ [.raised .valueError]) pre0 h0 hh
      refine ⟨t, .raised .valueError :: rs, ?_, ht, ?_, ?_, ?_⟩
      · rw [List.foldlM_cons, hs]
        simp only [List.append_assoc, List.singleton_append] at e
        exact e
      · intro x y p
        rw [hht]
        simp only [goodAdds, if_neg hc]
      · simp only [annotF, AllOKF, if_neg hc]
        exact ⟨⟨hc, rfl⟩, hf⟩
      · simp only [goodAdds, if_neg hc]
        exact hbt

theorem allOKF_get : ∀ (a : List HOp) (op : HOp) (b : List HOp) (pre : List (Int × Int × Int)) (rs : List HRes),
    AllOKF (annotF pre (a ++ op :: b)) rs → ∃ r, rs[a.length]? = some r ∧ ResOKF (pre ++ goodAdds a, op) r
  | [], op, b, pre, rs, h => by
    cases op <;> cases rs <;> simp only [List.nil_append, annotF, AllOKF] at h
    · exact ⟨_, rfl, by simpa [goodAdds] using h.1⟩
    · exact ⟨_, rfl, by simpa [goodAdds] using h.1⟩
  | .read :: a, op, b, pre, rs, h => by
    cases rs with
    | nil => simp only [List.cons_append, annotF, AllOKF] at h
    | cons r rs =>
      simp only [List.cons_append, annotF, AllOKF] at h
      obtain ⟨r', h1, h2⟩ := allOKF_get a op b pre rs h.2
      exact ⟨r', by simpa using h1, by simpa [goodAdds] using h2⟩
  | .add x y p :: a, op, b, pre, rs, h => by
    cases rs with
    | nil => simp only [List.cons_append, annotF, AllOKF] at h
    | cons r rs =>
      simp only [List.cons_append, annotF, AllOKF] at h
      obtain ⟨r', h1, h2⟩ := allOKF_get a op b _ rs h.2
      refine ⟨r', by simpa using h1, ?_⟩
      by_cases hc : InRange (x, y, p)
      · simpa [goodAdds, hc] using h2
      · simpa [goodAdds, hc] using h2

end Rig.C12
