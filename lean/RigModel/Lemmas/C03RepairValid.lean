/-
C03 - `avoid_dead_links` yields a valid routing tree (fixed code).
* the disconnecting copy establishes the forest invariant `RInv lookup (root :: heads of the broken links)`;
* the repair loop (Lemmas/C03RepairInv.lean) reduces the component roots to the tree root alone;
* a forest satisfying `RInv f [root]` unfolds, with the fuel the driver uses, to a tree with pairwise distinct
  chips that covers every entry of the forest; hence all five clauses of `ValidTree`.
-/
import RigModel.Model.C03
import RigModel.Lemmas.C03Repair
import RigModel.Lemmas.C03Forest
import RigModel.Lemmas.C03RepairInv
set_option linter.unusedSimpArgs false
set_option linter.unusedVariables false
namespace Rig.C03.L
open Rig.C03 Rig.Gen.C03Links

/-! ### invariant-preserving insertions of the copy -/

theorem rinv_attachLeaf {f : Forest} {R : List Chip} (hi : RInv f R) {p c : Chip} (d : Nat)
    (hc : c ∉ f.keys) (hp : p ∈ f.keys) : RInv ((f.insertNew c).addChild p (d, c)) R := by
  obtain ⟨rank, hw⟩ := hi.wf
  have hkeys : ((f.insertNew c).addChild p (d, c)).keys = f.keys ++ [c] := by
    rw [keys_addChild, keys_insertNew]
  have hnp : NoParent (f.insertNew c) c := by
    intro q k he hk
    exact hc (by rw [← hk]; exact hi.closed _ _ (edge_insertNew.1 he))
  have hnb : ¬ Below (f.insertNew c) c p := by
    intro hb
    rcases below_head (below_insertNew.1 hb) with heq | ⟨k, hk, _⟩
    · exact hc (by rw [heq]; exact hp)
    · exact hc (edge_key hk)
  have hedge : Edge ((f.insertNew c).addChild p (d, c)) p (d, c) :=
    edge_addChild_new (by rw [keys_insertNew]; simp [hp])
  have hmono : ∀ a x, Below f a x → Below ((f.insertNew c).addChild p (d, c)) a x :=
    fun a x h => below_addChild_mono (below_insertNew.2 h)
  refine ⟨wf_addEdge (wf_insertNew hw hc) d hnp hnb, ?_, hi.rootsNodup, ?_, ?_⟩
  · intro q k he
    rw [hkeys]
    rcases edge_addChild_inv he with he | ⟨rfl, rfl⟩
    · simp [hi.closed _ _ (edge_insertNew.1 he)]
    · simp
  · intro r hr
    refine ⟨by rw [hkeys]; simp [(hi.roots r hr).1], ?_⟩
    intro q k he hk
    rcases edge_addChild_inv he with he | ⟨rfl, rfl⟩
    · exact (hi.roots r hr).2 _ _ (edge_insertNew.1 he) hk
    · subst hk; exact hc (hi.roots _ hr).1
  · intro x hx
    rw [hkeys] at hx
    simp only [List.mem_append, List.mem_singleton] at hx
    rcases hx with hx | rfl
    · obtain ⟨r, hr, hb⟩ := hi.conn x hx
      exact ⟨r, hr, hmono _ _ hb⟩
    · obtain ⟨r, hr, hb⟩ := hi.conn p hp
      exact ⟨r, hr, Below.step (hmono _ _ hb) hedge⟩

theorem rinv_newRoot {f : Forest} {R : List Chip} (hi : RInv f R) {c : Chip} (hc : c ∉ f.keys) :
    RInv (f.insertNew c) (R ++ [c]) := by
  obtain ⟨rank, hw⟩ := hi.wf
  have hnp : NoParent (f.insertNew c) c := by
    intro q k he hk
    exact hc (by rw [← hk]; exact hi.closed _ _ (edge_insertNew.1 he))
  refine ⟨⟨rank, wf_insertNew hw hc⟩, ?_, ?_, ?_, ?_⟩
  · intro q k he
    rw [keys_insertNew]
    simp [hi.closed _ _ (edge_insertNew.1 he)]
  · rw [List.nodup_append]
    refine ⟨hi.rootsNodup, by simp, ?_⟩
    intro a ha b hb hab
    simp only [List.mem_singleton] at hb
    subst hb; subst hab
    exact hc (hi.roots _ ha).1
  · intro r hr
    simp only [List.mem_append, List.mem_singleton] at hr
    rcases hr with hr | rfl
    · refine ⟨by rw [keys_insertNew]; simp [(hi.roots r hr).1], ?_⟩
      intro q k he hk
      exact (hi.roots r hr).2 _ _ (edge_insertNew.1 he) hk
    · exact ⟨by rw [keys_insertNew]; simp, hnp⟩
  · intro x hx
    rw [keys_insertNew] at hx
    simp only [List.mem_append, List.mem_singleton] at hx
    rcases hx with hx | rfl
    · obtain ⟨r, hr, hb⟩ := hi.conn x hx
      exact ⟨r, by simp [hr], below_insertNew.2 hb⟩
    · exact ⟨x, by simp, Below.refl⟩

/-! ### the disconnecting copy -/

structure CInv (root : Chip) (st : CopyState) : Prop where
  rootEq : st.root = some root
  inv : RInv st.lookup (root :: st.broken.map (·.2))

theorem visit_inv {m : Machine} {root : Chip} {st st' : CopyState} {p : Chip} {dir : Nat} {oldc nn : Chip}
    (hi : CInv root st) (hp : p ∈ st.lookup.keys) (h : st.visit m (some p) dir oldc = .ok (nn, st')) :
    CInv root st' ∧ nn ∈ st'.lookup.keys ∧ ∀ x, x ∈ st.lookup.keys → x ∈ st'.lookup.keys := by
  unfold CopyState.visit at h
  split at h
  · split at h
    · simp at h
    · rename_i hhas
      have hc : oldc ∉ st.lookup.keys := fun hk => hhas ((has_iff _ _).2 hk)
      simp only at h
      split at h
      · simp only [pure, Except.pure, Except.ok.injEq, Prod.mk.injEq] at h
        obtain ⟨rfl, rfl⟩ := h
        refine ⟨⟨hi.rootEq, rinv_attachLeaf hi.inv dir hc hp⟩, ?_, ?_⟩
        · simp only; rw [keys_addChild, keys_insertNew]; simp
        · intro x hx; simp only; rw [keys_addChild, keys_insertNew]; simp [hx]
      · simp only [pure, Except.pure, Except.ok.injEq, Prod.mk.injEq] at h
        obtain ⟨rfl, rfl⟩ := h
        have hnb : (p, oldc) ∉ st.broken := by
          intro hb
          exact hc (hi.inv.roots oldc (by
            simp only [List.mem_cons, List.mem_map]; exact Or.inr ⟨(p, oldc), hb, rfl⟩)).1
        refine ⟨⟨hi.rootEq, ?_⟩, ?_, ?_⟩
        · have := rinv_newRoot hi.inv hc
          simpa [hnb] using this
        · simp only; rw [keys_insertNew]; simp
        · intro x hx; simp only; rw [keys_insertNew]; simp [hx]
  · simp only [pure, Except.pure, Except.ok.injEq, Prod.mk.injEq] at h
    obtain ⟨rfl, rfl⟩ := h
    exact ⟨hi, hp, fun x hx => hx⟩

theorem copyLoop_inv {old : Forest} {m : Machine} {root : Chip} :
    ∀ (fuel : Nat) (q : List (Option Chip × Nat × Chip)) (st st' : CopyState), CInv root st →
      (∀ e, e ∈ q → ∃ p, e.1 = some p ∧ p ∈ st.lookup.keys) →
      copyLoop old m fuel q st = .ok st' → CInv root st' := by
  intro fuel
  induction fuel with
  | zero =>
    intro q st st' hi _ h
    cases q with
    | nil => simp only [copyLoop, pure, Except.pure, Except.ok.injEq] at h; subst h; exact hi
    | cons a q => simp [copyLoop] at h
  | succ fuel ih =>
    intro q st st' hi hq h
    cases q with
    | nil => simp only [copyLoop, pure, Except.pure, Except.ok.injEq] at h; subst h; exact hi
    | cons a q =>
      obtain ⟨np, dir, oldc⟩ := a
      obtain ⟨p, hnp, hp⟩ := hq (np, dir, oldc) (by simp)
      simp only at hnp
      subst hnp
      simp only [copyLoop, bind, Except.bind] at h
      split at h
      · simp at h
      · rename_i res hvis
        obtain ⟨nn, st1⟩ := res
        obtain ⟨h1, h2, h3⟩ := visit_inv hi hp hvis
        refine ih _ _ _ h1 ?_ h
        intro e he
        simp only [List.mem_append, List.mem_map] at he
        rcases he with he | ⟨k, _, rfl⟩
        · obtain ⟨p', hp', hk'⟩ := hq e (by simp [he])
          exact ⟨p', hp', h3 _ hk'⟩
        · exact ⟨nn, rfl, h2⟩

/-- **What the disconnecting copy delivers**: the root is the net's source chip (a working chip), and the
lookup is a well-formed closed forest whose parentless component roots are the source and the (pairwise
distinct) heads of the broken links, every node below one of them. -/
theorem copyAndDisconnect_inv (old : Forest) (src : Chip) (m : Machine) (cs : CopyState)
    (h : copyAndDisconnect old src m = .ok cs) :
    cs.root = some src ∧ RInv cs.lookup (src :: cs.broken.map (·.2)) := by
  unfold copyAndDisconnect at h
  simp only [copyLoop, bind, Except.bind] at h
  split at h
  · simp at h
  · rename_i res hvis
    obtain ⟨nn, st1⟩ := res
    unfold CopyState.visit at hvis
    split at hvis
    · simp only [Forest.has, List.any_nil, Bool.false_eq_true, if_false, pure, Except.pure, Except.ok.injEq,
        Prod.mk.injEq] at hvis
      obtain ⟨rfl, rfl⟩ := hvis
      have h0 : CInv src { lookup := Forest.insertNew [] src, broken := [], root := some src } := by
        refine ⟨rfl, ?_⟩
        have hw : WF (Forest.insertNew [] src) (fun _ => 0) := by
          refine WF.ofEdges (by simp [Forest.insertNew, Forest.keys]) ?_ ?_ ?_
          · intro n hn; simp [Forest.insertNew] at hn; subst hn; simp
          · intro p p' k k' he; obtain ⟨n, hn, _, hk⟩ := he; simp [Forest.insertNew] at hn; subst hn; simp at hk
          · intro p k he; obtain ⟨n, hn, _, hk⟩ := he; simp [Forest.insertNew] at hn; subst hn; simp at hk
        have hne : ∀ p k, ¬ Edge (Forest.insertNew [] src) p k := by
          intro p k he; obtain ⟨n, hn, _, hk⟩ := he; simp [Forest.insertNew] at hn; subst hn; simp at hk
        refine ⟨⟨_, hw⟩, fun p k he => absurd he (hne p k), by simp, ?_, ?_⟩
        · intro r hr
          simp only [List.map_nil, List.mem_singleton] at hr
          subst hr
          exact ⟨by simp [Forest.insertNew, Forest.keys], fun p k he => absurd he (hne p k)⟩
        · intro x hx
          simp only [Forest.insertNew, Forest.keys, List.nil_append, List.map_cons, List.map_nil,
            List.mem_singleton] at hx
          subst hx
          exact ⟨x, by simp, Below.refl⟩
      have := copyLoop_inv _ _ _ _ h0 ?_ h
      · exact ⟨this.rootEq, this.inv⟩
      · intro e he
        simp only [List.nil_append, List.mem_map] at he
        obtain ⟨k, _, rfl⟩ := he
        exact ⟨src, rfl, by simp [Forest.insertNew, Forest.keys]⟩
    · simp at hvis

/-! ### the driver's fuel suffices -/

mutual
def depthT : Tree → Nat
  | .node _ subs _ => 1 + depthL subs
def depthL : List (Nat × Tree) → Nat
  | [] => 0
  | (_, t) :: r => max (depthT t) (depthL r)
end

mutual
theorem depth_le_chips : (t : Tree) → depthT t ≤ t.chips.length
  | .node c subs lv => by
    have := depthL_le_chips subs
    simp only [depthT, Tree.chips, List.length_cons]; omega
theorem depthL_le_chips : (s : List (Nat × Tree)) → depthL s ≤ (chipsL s).length
  | [] => by simp [depthL, chipsL]
  | (_, t) :: r => by
    have := depth_le_chips t
    have := depthL_le_chips r
    simp only [depthL, chipsL, List.length_append]; omega
end

/-- `toTree` returns the same tree with any fuel that is at least the depth of that tree -/
theorem toTree_fuel {f : Forest} {leaves : List Leaf} : ∀ (n : Nat) (c : Chip) (t : Tree),
    toTree f leaves n c = some t → ∀ n', depthT t ≤ n' → toTree f leaves n' c = some t := by
  intro n
  induction n with
  | zero => intro c t h; simp [toTree] at h
  | succ n ih =>
    intro c t h n' hn'
    simp only [toTree, bind, Option.bind] at h
    split at h
    · simp at h
    · rename_i subs hsubs
      simp only [pure, Option.some.injEq] at h
      subst h
      simp only [depthT] at hn'
      obtain ⟨k', rfl⟩ : ∃ k', n' = k' + 1 := ⟨n' - 1, by omega⟩
      have aux : ∀ (ks : List (Nat × Chip)) (subs : List (Nat × Tree)),
          ks.mapM (fun e => (toTree f leaves n e.2).map fun t => (e.1, t)) = some subs → depthL subs ≤ k' →
          ks.mapM (fun e => (toTree f leaves k' e.2).map fun t => (e.1, t)) = some subs := by
        intro ks
        induction ks with
        | nil => intro subs hm _; simpa using hm
        | cons k ks ihk =>
          intro subs hm hd
          simp only [List.mapM_cons, bind, Option.bind] at hm
          split at hm
          · simp at hm
          · rename_i b hb
            simp only at hm
            split at hm
            · simp at hm
            · rename_i bs hbs
              simp only [pure, Option.some.injEq] at hm
              subst hm
              simp only [Option.map_eq_some_iff] at hb
              obtain ⟨t', ht', rfl⟩ := hb
              simp only [depthL] at hd
              have h1 := ih _ _ ht' k' (by omega)
              have h2 := ihk bs hbs (by omega)
              simp only [List.mapM_cons, h1, h2, Option.map_some, bind, Option.bind, pure]
      simp only [toTree, aux _ _ hsubs (by omega), bind, Option.bind, pure]

/-- **From the repaired forest to the tree.**  If every node of a well-formed closed forest is below `root`,
then `toTree` with fuel `length + 1` (what the driver and the oracle use) returns a tree whose chips are exactly
the entries of the forest, each once. -/
theorem rinv_unfolds {f : Forest} {root : Chip} (hi : RInv f [root]) (leaves : List Leaf) :
    ∃ t, toTree f leaves (f.length + 1) root = some t ∧ Unfolds f leaves root t ∧
      ∀ x, x ∈ f.keys → x ∈ t.chips := by
  obtain ⟨rank, hw⟩ := hi.wf
  obtain ⟨t, ht, hu⟩ := toTree_unfolds hw leaves (rank root + 1) root (by omega)
  have hrk := (hi.roots root (by simp)).1
  have hsub : ∀ x, x ∈ t.chips → x ∈ f.keys := fun x hx => below_key hi.closed hrk (hu.below x hx)
  have hlen : t.chips.length ≤ f.length := by
    have := (List.Nodup.subperm hu.nodup hsub).length_le
    simpa [Forest.keys] using this
  have hd := depth_le_chips t
  refine ⟨t, toTree_fuel _ _ _ ht _ (by omega), hu, ?_⟩
  intro x hx
  obtain ⟨r, hr, hb⟩ := hi.conn x hx
  simp only [List.mem_singleton] at hr
  subst hr
  exact hu.cover x hb

theorem attachSinks_keys {f : Forest} : ∀ (sinks : List Sink) (lv : List Leaf),
    attachSinks f sinks = .ok lv → ∀ s, s ∈ sinks → s.chip ∈ f.keys := by
  intro sinks
  induction sinks with
  | nil => intro lv _ s hs; simp at hs
  | cons s0 r ih =>
    intro lv h s hs
    simp only [attachSinks] at h
    split at h
    · rename_i hhas
      simp only [bind, Except.bind] at h
      split at h
      · simp at h
      · rename_i rest hrest
        simp only [List.mem_cons] at hs
        rcases hs with rfl | hs
        · exact (has_iff _ _).1 hhas
        · exact ih rest hrest s hs
    · simp at h

theorem isOrdering_perm {order broken : List (Chip × Chip)} (hb : (broken.map (·.2)).Nodup)
    (h : isOrderingOf order broken = true) : (order.map (·.2)).Nodup ∧ ∀ x, x ∈ order ↔ x ∈ broken := by
  simp only [isOrderingOf, Bool.and_eq_true, List.all_eq_true, List.contains_iff_mem, beq_iff_eq] at h
  obtain ⟨⟨hlen, h1⟩, h2⟩ := h
  have hbn : broken.Nodup := List.Nodup.of_map _ hb
  have hp : broken.Perm order :=
    (List.Nodup.subperm hbn (fun x hx => h2 x hx)).perm_of_length_le (by omega)
  exact ⟨(List.Perm.nodup_iff (hp.map _)).1 hb, fun x => ⟨h1 x, h2 x⟩⟩

/-- the forest invariant at the end of a repaired `routeNet` (fixed code) -/
theorem routeNet_repaired_inv (m : Machine) (src : Chip) (dests : List Chip) (radius : Nat) (t : Tape)
    (order : List (Chip × Chip)) (sinks : List Sink) (r : Result)
    (h : routeNet m src dests radius t order sinks false = .ok r) (hr : r.repaired = true) :
    r.root = src ∧ RInv r.forest [src] ∧ ∀ s, s ∈ sinks → s.chip ∈ r.forest.keys := by
  unfold routeNet at h
  simp only [bind, Except.bind] at h
  split at h
  · simp at h
  · rename_i ft hner
    obtain ⟨f0, t0⟩ := ft
    simp only at h
    split at h
    · split at h
      · simp at h
      · rename_i cs hcs
        split at h
        · rename_i root hroot
          simp only [pure, Except.pure] at h
          split at h
          · simp at h
          · rename_i hord
            split at h
            · simp at h
            · rename_i fp hrep
              obtain ⟨f, paths⟩ := fp
              simp only at h
              split at h
              · simp at h
              · rename_i lv hlv
                simp only [Except.ok.injEq] at h
                subst h
                simp only
                obtain ⟨hcr, hci⟩ := copyAndDisconnect_inv _ _ _ _ hcs
                have hrs : root = src := by
                  rw [hcr] at hroot
                  exact (Option.some.inj hroot).symm
                have hbr : BrokenAlive m cs := by
                  unfold copyAndDisconnect at hcs
                  exact copyLoop_broken _ _ _ _ (by intro pc hpc; simp at hpc) hcs
                have hord' : isOrderingOf order cs.broken = true := by simpa using hord
                have hnd := hci.rootsNodup
                simp only [List.nodup_cons] at hnd
                obtain ⟨o1, o2⟩ := isOrdering_perm hnd.2 hord'
                have hmem : ∀ x, x ∈ order.map (·.2) ↔ x ∈ cs.broken.map (·.2) := by
                  intro x
                  simp only [List.mem_map]
                  constructor
                  · rintro ⟨e, he, rfl⟩; exact ⟨e, (o2 e).1 he, rfl⟩
                  · rintro ⟨e, he, rfl⟩; exact ⟨e, (o2 e).2 he, rfl⟩
                have hi0 : RInv cs.lookup (src :: order.map (·.2)) := by
                  refine ⟨hci.wf, hci.closed, ?_, ?_, ?_⟩
                  · simp only [List.nodup_cons]
                    exact ⟨fun hm => hnd.1 ((hmem _).1 hm), o1⟩
                  · intro r hr
                    exact hci.roots r (by
                      simp only [List.mem_cons] at hr ⊢
                      rcases hr with hr | hr
                      · exact Or.inl hr
                      · exact Or.inr ((hmem _).1 hr))
                  · intro x hx
                    obtain ⟨r, hr, hb⟩ := hci.conn x hx
                    refine ⟨r, ?_, hb⟩
                    simp only [List.mem_cons] at hr ⊢
                    rcases hr with hr | hr
                    · exact Or.inl hr
                    · exact Or.inr ((hmem _).2 hr)
                have hfin := repairAll_inv (m := m) (wrap := hasWrap m) src order cs.lookup [] f paths hi0
                  (fun pc hpc => hbr pc ((o2 pc).1 hpc)) hrep
                exact ⟨hrs, hfin, attachSinks_keys _ _ hlv⟩
        · simp at h
    · split at h
      · simp at h
      · simp only [pure, Except.pure, Except.ok.injEq] at h
        subst h
        simp at hr

end Rig.C03.L
