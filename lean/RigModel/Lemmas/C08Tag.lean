/-
C08 helper lemmas: the second invariant of the field tree - structure (child keys name fields of the parent
node) and tag closure - is preserved by `add_field`, `__call__` and `assign_fields`.
-/
import RigModel.Lemmas.C08Struct
set_option linter.unusedSimpArgs false
set_option linter.unusedVariables false

namespace Rig.C08
open Rig.Gen.BitfieldConsts

structure Inv2 (st : State) : Prop where
  /-- child keys are non-empty and name fields of the parent node -/
  struct : Struct st.entries
  /-- a tagged field's required parents carry the tag -/
  tagClosed : SpecTagClosed st.entries

/-! ### updates that keep the tags -/

theorem mem_modifyFirst_keep {pm : Entry → Bool} {f : Field → Field} {es : List Entry} {x' : Entry}
    (h : x' ∈ modifyFirst pm f es) :
    ∃ x ∈ es, x'.path = x.path ∧ x'.ident = x.ident ∧ (x'.field = x.field ∨ x'.field = f x.field) := by
  rcases mem_modifyFirst h with h1 | ⟨y, hy, _, rfl⟩
  · exact ⟨x', h1, rfl, rfl, Or.inl rfl⟩
  · exact ⟨y, hy, rfl, rfl, Or.inr rfl⟩

theorem enabled_congr_path {e e' : Entry} (h : e'.path = e.path) (fv : Reqs) : e'.enabled fv = e.enabled fv := by
  simp only [Entry.enabled, h]

theorem reqs_congr_path {e e' : Entry} (h : e'.path = e.path) : e'.reqs = e.reqs := by
  simp only [Entry.reqs, h]

theorem tagClosed_modifyFirst {pm : Entry → Bool} {f : Field → Field} {es : List Entry}
    (hf : ∀ fld, (f fld).tags = fld.tags) (h : SpecTagClosed es) : SpecTagClosed (modifyFirst pm f es) := by
  intro e' he' p' hp' ⟨v, hv⟩ hen t ht
  obtain ⟨e, he, h1, h2, h3⟩ := mem_modifyFirst_keep he'
  obtain ⟨p, hp, g1, g2, g3⟩ := mem_modifyFirst_keep hp'
  have te : e'.field.tags = e.field.tags := by rcases h3 with h3 | h3 <;> simp [h3, hf]
  have tp : p'.field.tags = p.field.tags := by rcases g3 with g3 | g3 <;> simp [g3, hf]
  rw [tp]
  refine h e he p hp ⟨v, ?_⟩ ?_ t (te ▸ ht)
  · rw [← g2, ← reqs_congr_path h1]; exact hv
  · rw [← enabled_congr_path g1, ← reqs_congr_path h1]; exact hen

theorem inv2_modifyField {st : State} {i : Ident} {fv : Reqs} {f : Field → Field}
    (hf : ∀ fld, (f fld).tags = fld.tags) (h : Inv2 st) :
    Inv2 { st with entries := modifyField st.entries i fv f } :=
  ⟨struct_of_shape_eq (shape_modifyField _ _ _ _) h.struct, tagClosed_modifyFirst hf h.tagClosed⟩

/-! ### `__call__` -/

theorem inv2_fold_max {all : Reqs} : ∀ (kvs : Reqs) (st : State), Inv2 st →
    Inv2 { st with entries := kvs.foldl (fun es iv => modifyField es iv.1 all fun f => { f with maxValue := max f.maxValue iv.2 }) st.entries } := by
  intro kvs
  induction kvs with
  | nil => intro st h; exact h
  | cons kv kvs ih =>
    intro st h
    simp only [List.foldl_cons]
    exact ih _ (inv2_modifyField (st := st) (i := kv.1) (fv := all)
      (f := fun f => { f with maxValue := max f.maxValue kv.2 }) (fun _ => rfl) h)

theorem call_inv2 {st st' : State} {fv fv' : Reqs} {kw : List (Ident × Int)} (hinv : Inv2 st)
    (h : call st fv kw = .ok (st', fv')) : Inv2 st' := by
  obtain ⟨_, _, hst⟩ := call_ok h
  subst hst
  exact inv2_fold_max fv' st hinv

/-! ### `assign_fields`: anything that an update of length and position preserves -/

theorem assignField_ok {st st' : State} {a a' : Nat} {i : Ident} {fv : Reqs}
    (h : assignField st a i fv = .ok (st', a')) :
    ∃ e start, getField st.entries i fv = some e ∧
      st' = { st with entries := modifyField st.entries i fv (setPos e.field.chosenLen start) } ∧
      a' = a ||| rangeMask e.field.chosenLen start ∧ start + e.field.chosenLen ≤ st.length := by
  unfold assignField at h
  cases hg : getField st.entries i fv with
  | none => simp [hg] at h
  | some e =>
    simp only [hg] at h
    cases hst : e.field.startAt with
    | none =>
      simp only [hst] at h
      cases hff : firstFit st.length e.field.chosenLen a with
      | none => simp [hff] at h
      | some b =>
        simp only [hff] at h
        split at h
        · rename_i hfit
          simp only [Except.ok.injEq, Prod.mk.injEq] at h
          exact ⟨e, b, rfl, h.1.symm, h.2.symm, hfit⟩
        · simp at h
    | some s =>
      simp only [hst] at h
      split at h
      · simp at h
      · split at h
        · rename_i hfit
          simp only [Except.ok.injEq, Prod.mk.injEq] at h
          exact ⟨e, s, rfl, h.1.symm, h.2.symm, hfit⟩
        · simp at h

section preserved
variable {P : List Entry → Prop}
  (hP : ∀ (es : List Entry) (i : Ident) (fv : Reqs) (len start : Nat), P es → P (modifyField es i fv (setPos len start)))
include hP

theorem assignLoopP_preserves (ap : Bool) (fv : Reqs) : ∀ (ids : List Ident) (st : State) (a : Nat),
    P st.entries → P (assignLoopP ap fv ids st a).1.entries := by
  intro ids
  induction ids with
  | nil => intro st a h; exact h
  | cons i is ih =>
    intro st a h
    unfold assignLoopP
    cases hg : getField st.entries i fv with
    | none => exact h
    | some e =>
      simp only
      split
      · exact ih st a h
      · split
        · cases hasg : assignField st a i fv with
          | error err => exact h
          | ok r =>
            obtain ⟨st', a'⟩ := r
            obtain ⟨e', start, _, rfl, _, _⟩ := assignField_ok hasg
            exact ih _ a' (hP _ _ _ _ _ h)
        · exact ih st a h

theorem assignRunP_preserves : ∀ (items : List (Bool × Path)) (st : State),
    P st.entries → P (assignRunP items st).1.entries := by
  intro items
  induction items with
  | nil => intro st h; exact h
  | cons it rest ih =>
    intro st h
    obtain ⟨ap, p⟩ := it
    unfold assignRunP
    have hl := assignLoopP_preserves hP ap p.flatten (nodeIdents st.entries p) st (potentialMask st.entries p.flatten) h
    generalize assignLoopP ap p.flatten (nodeIdents st.entries p) st (potentialMask st.entries p.flatten) = r at hl
    obtain ⟨st', oe⟩ := r
    cases oe with
    | some e => exact hl
    | none => exact ih st' hl

theorem assignFieldsP_preserves (st : State) (h : P st.entries) : P (assignFieldsP st).1.entries :=
  assignRunP_preserves hP _ st h

end preserved

theorem assignFieldsP_inv2 {st : State} (h : Inv2 st) : Inv2 (assignFieldsP st).1 := by
  have := assignFieldsP_preserves (P := fun es => Struct es ∧ SpecTagClosed es)
    (fun es i fv len start ⟨h1, h2⟩ =>
      ⟨struct_of_shape_eq (shape_modifyField _ _ _ _) h1, tagClosed_modifyFirst (fun _ => rfl) h2⟩)
    st ⟨h.struct, h.tagClosed⟩
  exact ⟨this.1, this.2⟩

/-! ### `add_field` -/

theorem addField_ok {st st' : State} {fv : Reqs} {ident : Ident} {length : Option Int} {startAt : Option Nat}
    {tags : List String} (h : addField st fv ident length startAt tags = .ok st') :
    ∃ q e, descend st.entries ident (fv.length + 1) [] fv = .ok q ∧
      getField (insertEntry st.entries (newEntry q ident (length.map Int.toNat) startAt (tagNorm tags))) ident fv = some e ∧
      st'.entries = addTags fv (tagNorm tags) (e.path.flatten.map (·.1))
        (insertEntry st.entries (newEntry q ident (length.map Int.toNat) startAt (tagNorm tags))) ∧
      st'.length = st.length := by
  unfold addField at h
  simp only at h
  split at h
  · simp at h
  split at h
  · simp at h
  split at h
  · simp at h
  cases hd : descend st.entries ident (fv.length + 1) [] fv with
  | error e => simp [hd] at h
  | ok q =>
    simp only [hd] at h
    split at h
    · simp at h
    · rename_i e hg
      split at h
      · simp at h
      · simp only [Except.ok.injEq] at h
        subst h
        exact ⟨q, e, rfl, hg, rfl, rfl⟩

theorem shape_addTags {fv : Reqs} {T : List String} : ∀ (parents : List Ident) (es : List Entry),
    shape (addTags fv T parents es) = shape es := by
  intro parents
  induction parents with
  | nil => intro es; rfl
  | cons pi ps ih =>
    intro es
    simp only [addTags, List.foldl_cons]
    exact (ih _).trans (shape_modifyField _ _ _ _)

/-- what tag propagation does: exactly the fields named by `parents` and present in the instance gain `T` -/
theorem addTags_spec {fv : Reqs} {T : List String} : ∀ (parents : List Ident) (es : List Entry), SpecUnique es →
    ∀ x' ∈ addTags fv T parents es, ∃ x ∈ es, x'.path = x.path ∧ x'.ident = x.ident ∧
      ∀ t, t ∈ x'.field.tags ↔ (t ∈ x.field.tags ∨ (t ∈ T ∧ x.ident ∈ parents ∧ x.enabled fv = true)) := by
  intro parents
  induction parents with
  | nil =>
    intro es _ x' hx'
    exact ⟨x', hx', rfl, rfl, fun t => by simp⟩
  | cons pi ps ih =>
    intro es hu x' hx'
    simp only [addTags, List.foldl_cons] at hx'
    have hu1 : SpecUnique (modifyField es pi fv fun f => { f with tags := tagUnion f.tags T }) :=
      pairwise_modifyFirst hu (fun y hy hpy x hx => ⟨id, id⟩)
    obtain ⟨x1, hx1, h1, h2, h3⟩ := ih _ hu1 x' hx'
    obtain ⟨x, hx, hr⟩ := mem_modifyFirst_exact (unique_pairwise_match hu pi fv) hx1
    rcases hr with ⟨hpm, rfl⟩ | ⟨hpm, rfl⟩
    · refine ⟨x, hx, h1, h2, fun t => ?_⟩
      simp only [Bool.and_eq_true, beq_iff_eq] at hpm
      rw [h3 t]
      simp only [upd_field, upd_ident, upd_enabled, mem_tagUnion, List.mem_cons, hpm.1, hpm.2]
      constructor
      · rintro ((h | h) | ⟨h, _⟩)
        · exact Or.inl h
        · exact Or.inr ⟨h, Or.inl trivial, trivial⟩
        · exact Or.inr ⟨h, Or.inl trivial, trivial⟩
      · rintro (h | ⟨h, _⟩)
        · exact Or.inl (Or.inl h)
        · exact Or.inl (Or.inr h)
    · refine ⟨x1, hx, h1, h2, fun t => ?_⟩
      rw [h3 t]
      have hne : ¬ (x1.ident = pi ∧ x1.enabled fv = true) := by
        intro hh; simp [hh.1, hh.2] at hpm
      simp only [List.mem_cons]
      constructor
      · rintro (h | ⟨h, h', h''⟩)
        · exact Or.inl h
        · exact Or.inr ⟨h, Or.inr h', h''⟩
      · rintro (h | ⟨h, h' | h', h''⟩)
        · exact Or.inl h
        · exact absurd ⟨h', h''⟩ hne
        · exact Or.inr ⟨h, h', h''⟩

theorem enabled_congr_lookup {fv fv' : Reqs} (h : ∀ i, fv.lookup i = fv'.lookup i) (e : Entry) :
    e.enabled fv = e.enabled fv' := by
  have : satisfied fv = satisfied fv' := by funext r; simp only [satisfied, h]
  simp only [Entry.enabled, this]

theorem specUnique_perm {es es' : List Entry} (hp : es.Perm es') (h : SpecUnique es) : SpecUnique es' := by
  refine (hp.pairwise_iff ?_).mp h
  intro x y hxy hc; exact (hxy (compatible_symm hc)).symm

/-- `add_field` preserves the second invariant (whatever values the instance holds) -/
theorem addField_inv2 {st st' : State} {fv : Reqs} {ident : Ident} {length : Option Int} {startAt : Option Nat}
    {tags : List String} (hinv : Inv st) (hinv2 : Inv2 st)
    (h : addField st fv ident length startAt tags = .ok st') : Inv2 st' := by
  obtain ⟨q, e, hd, hg, hst', _⟩ := addField_ok h
  suffices hh : Struct st'.entries ∧ SpecTagClosed st'.entries from ⟨hh.1, hh.2⟩
  rw [hst']
  obtain ⟨hD1, hD2⟩ := descend_spec (fv := fv) _ _ _ _ hd (by simp) (fun i w hw => Or.inr hw) (fun i w hw => hw)
  have hD3 := descend_unique hd
  generalize hnew : newEntry q ident (length.map Int.toNat) startAt (tagNorm tags) = newE at hg ⊢
  have hreq : newE.reqs = q.flatten := by rw [← hnew]; rfl
  have hpath : newE.path = q := by rw [← hnew]; rfl
  have hid : newE.ident = ident := by rw [← hnew]; rfl
  have htags : newE.field.tags = tagNorm tags := by rw [← hnew]; rfl
  -- the requirements of the new field and the instance's values are the same dict
  have hselfq : compatible newE.reqs newE.reqs := by
    intro i v v' hv hv'
    rw [hreq] at hv hv'
    have a := hD1 (i, v) hv
    have b := hD1 (i, v') hv'
    simp only at a b
    rw [a] at b; exact Option.some.inj b
  have hlk : ∀ i, newE.reqs.lookup i = fv.lookup i := by
    intro i
    cases hf : fv.lookup i with
    | some w => exact lookup_of_mem_selfCompat hselfq (hreq ▸ hD2 i w hf)
    | none =>
      cases hn : newE.reqs.lookup i with
      | none => rfl
      | some w =>
        have := hD1 (i, w) (hreq ▸ lookup_mem hn)
        simp only [hf] at this
        exact absurd this (by simp)
  have hen : ∀ x : Entry, x.enabled newE.reqs = x.enabled fv := enabled_congr_lookup hlk
  have hnew_en : newE.enabled fv = true := by rw [← hen]; exact enabled_self hselfq
  -- uniqueness with the new field
  have hpot : ∀ x ∈ st.entries, compatible newE.reqs x.reqs → x.potential fv = true := by
    intro x hx hc
    refine potential_of_compatible (r := newE.reqs) (fun i w hw => ?_) hc
    rw [hreq]; exact hD2 i w hw
  have hfresh : ∀ x ∈ st.entries, compatible newE.reqs x.reqs → x.ident ≠ ident :=
    fun x hx hc => hD3 x hx (hpot x hx hc)
  have hucons : SpecUnique (newE :: st.entries) := by
    refine List.pairwise_cons.mpr ⟨?_, hinv.unique⟩
    intro x hx hc hid'
    exact hfresh x hx hc (hid'.symm.trans hid)
  have hperm := insertEntry_perm st.entries newE
  have hu1 : SpecUnique (insertEntry st.entries newE) := specUnique_perm hperm.symm hucons
  have hmem1 : ∀ x, x ∈ insertEntry st.entries newE ↔ x = newE ∨ x ∈ st.entries := by
    intro x; rw [hperm.mem_iff, List.mem_cons]
  -- the field that get_field finds is the new one
  have he : e = newE := by
    obtain ⟨h1, h2, h3⟩ := getField_some hg
    exact eq_of_enabled_same_ident hu1 h1 ((hmem1 _).mpr (Or.inl rfl)) (h2.trans hid.symm) h3 hnew_en
  subst he
  -- structure
  have hs1 : Struct (insertEntry st.entries e) := by
    have hc : Struct (e :: st.entries) :=
      struct_cons hinv2.struct (hpath ▸ descend_pathOK _ _ _ _ hd (fun n hn => by simp at hn))
    refine struct_of_mem_iff (fun x => ?_) hc
    exact (hperm.map fun e => (e.path, e.ident)).mem_iff
  refine ⟨struct_of_shape_eq (shape_addTags _ _) hs1, ?_⟩
  -- tag closure
  intro e' he' p' hp' ⟨v, hv⟩ hpen t ht
  obtain ⟨e0, he0, h1, h2, h3⟩ := addTags_spec _ _ hu1 e' he'
  obtain ⟨p0, hp0, g1, g2, g3⟩ := addTags_spec _ _ hu1 p' hp'
  have hv0 : (p0.ident, v) ∈ e0.reqs := by rw [← g2, ← reqs_congr_path h1]; exact hv
  have hpen0 : p0.enabled e0.reqs = true := by rw [← enabled_congr_path g1, ← reqs_congr_path h1]; exact hpen
  have hparents : ∀ i w, (i, w) ∈ e.reqs → i ∈ e.path.flatten.map (·.1) :=
    fun i w hw => List.mem_map.mpr ⟨(i, w), hw, rfl⟩
  rw [g3 t]
  rcases (h3 t).mp ht with ht0 | ⟨htT, heid, heen⟩
  · rcases (hmem1 e0).mp he0 with rfl | he0old
    · -- the new field itself: its parents are exactly the fields that receive the tags
      right
      refine ⟨htags ▸ ht0, hparents _ _ hv0, ?_⟩
      rw [← hen]; exact hpen0
    · rcases (hmem1 p0).mp hp0 with rfl | hp0old
      · -- an old field cannot require the new field: that name was taken in its scope
        exfalso
        obtain ⟨y, hy, hyi, hye⟩ := parent_exists hinv2.struct hinv.selfc he0old hv0
        exact hfresh y hy (compatible_of_enabled hpen0 hye) (hyi.trans hid)
      · exact Or.inl (hinv2.tagClosed e0 he0old p0 hp0old ⟨v, hv0⟩ hpen0 t ht0)
  · -- e0 received the tags: so does every field it requires
    right
    have hfv : ∀ iv ∈ e0.reqs, fv.lookup iv.1 = some iv.2 := (enabled_iff fv e0).mp heen
    refine ⟨htT, ?_, ?_⟩
    · have := hfv _ hv0
      exact hparents _ v (hreq ▸ hD2 _ _ this)
    · rw [enabled_iff]
      intro jw hjw
      have := (enabled_iff _ _).mp hpen0 jw hjw
      exact hfv jw (lookup_mem this)

end Rig.C08
