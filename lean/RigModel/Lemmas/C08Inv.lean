/-
C08 helper lemmas: requirements, lookups, `modifyFirst`, the tree invariant.
-/
import RigModel.Lemmas.C08Bits
set_option linter.unusedSimpArgs false
set_option linter.unusedVariables false

namespace Rig.C08

/-! ### association lists -/

theorem lookup_mem {l : Reqs} {i : Ident} {v : Nat} (h : l.lookup i = some v) : (i, v) ∈ l := by
  induction l with
  | nil => simp [List.lookup] at h
  | cons x xs ih =>
    obtain ⟨k, w⟩ := x
    simp only [List.lookup] at h
    split at h
    · rename_i heq
      have : i = k := by simpa using heq
      simp at h; subst h; subst this; simp
    · exact List.mem_cons_of_mem _ (ih h)

theorem mem_lookup {l : Reqs} {i : Ident} {v : Nat} (h : (i, v) ∈ l) : ∃ w, l.lookup i = some w := by
  induction l with
  | nil => simp at h
  | cons x xs ih =>
    obtain ⟨k, w⟩ := x
    simp only [List.lookup]
    split
    · exact ⟨w, rfl⟩
    · rename_i hne
      rcases List.mem_cons.mp h with h | h
      · have : i = k := by simpa using (congrArg Prod.fst h)
        subst this; simp at hne
      · exact ih h

theorem lookup_of_mem_selfCompat {r : Reqs} (hs : compatible r r) {i : Ident} {v : Nat} (h : (i, v) ∈ r) :
    r.lookup i = some v := by
  obtain ⟨w, hw⟩ := mem_lookup h
  rw [hw, hs i w v (lookup_mem hw) h]

/-! ### enabled / potential -/

theorem satisfied_iff (fv r : Reqs) : satisfied fv r = true ↔ ∀ iv ∈ r, fv.lookup iv.1 = some iv.2 := by
  simp [satisfied, List.all_eq_true]

theorem noConflict_iff (fv r : Reqs) :
    noConflict fv r = true ↔ ∀ iv ∈ r, ∀ w, fv.lookup iv.1 = some w → w = iv.2 := by
  simp only [noConflict, List.all_eq_true]
  constructor
  · intro h iv hiv w hw
    have := h iv hiv
    rw [hw] at this
    simpa using this
  · intro h iv hiv
    cases hw : fv.lookup iv.1 with
    | none => rfl
    | some w => simpa using h iv hiv w hw

theorem enabled_iff (fv : Reqs) (e : Entry) :
    e.enabled fv = true ↔ ∀ iv ∈ e.reqs, fv.lookup iv.1 = some iv.2 := by
  simp only [Entry.enabled, Entry.reqs, List.all_eq_true, satisfied_iff, List.mem_flatten]
  constructor
  · rintro h iv ⟨k, hk, hiv⟩; exact h k hk iv hiv
  · intro h k hk iv hiv; exact h iv ⟨k, hk, hiv⟩

theorem potential_iff (fv : Reqs) (e : Entry) :
    e.potential fv = true ↔ ∀ iv ∈ e.reqs, ∀ w, fv.lookup iv.1 = some w → w = iv.2 := by
  simp only [Entry.potential, Entry.reqs, List.all_eq_true, noConflict_iff, List.mem_flatten]
  constructor
  · rintro h iv ⟨k, hk, hiv⟩; exact h k hk iv hiv
  · intro h k hk iv hiv; exact h iv ⟨k, hk, hiv⟩

theorem compatible_symm {r r' : Reqs} (h : compatible r r') : compatible r' r :=
  fun i v v' h1 h2 => (h i v' v h2 h1).symm

theorem enabled_self {e : Entry} (hs : compatible e.reqs e.reqs) : e.enabled e.reqs = true := by
  rw [enabled_iff]; intro iv hiv; exact lookup_of_mem_selfCompat hs hiv

/-- two fields enabled by the same values can be present together -/
theorem compatible_of_enabled {fv : Reqs} {e e' : Entry} (h : e.enabled fv = true) (h' : e'.enabled fv = true) :
    compatible e.reqs e'.reqs := by
  rw [enabled_iff] at h h'
  intro i v v' hv hv'
  have a := h (i, v) hv
  have b := h' (i, v') hv'
  simp only at a b
  rw [a] at b; exact Option.some.inj b

/-- a field that can be present together with `r` is potential w.r.t. any dict whose entries all lie in `r` -/
theorem potential_of_compatible {fv r : Reqs} {e : Entry} (hfv : ∀ i w, fv.lookup i = some w → (i, w) ∈ r)
    (h : compatible r e.reqs) : e.potential fv = true := by
  rw [potential_iff]
  intro iv hiv w hw
  exact h iv.1 w iv.2 (hfv _ _ hw) hiv

theorem enabled_imp_potential {fv : Reqs} {e : Entry} (h : e.enabled fv = true) : e.potential fv = true := by
  rw [enabled_iff] at h; rw [potential_iff]
  intro iv hiv w hw
  rw [h iv hiv] at hw; exact (Option.some.inj hw).symm

/-! ### `getField`, `modifyFirst` -/

theorem getField_some {es : List Entry} {i : Ident} {fv : Reqs} {e : Entry} (h : getField es i fv = some e) :
    e ∈ es ∧ e.ident = i ∧ e.enabled fv = true := by
  unfold getField at h
  have h1 := List.mem_of_find?_eq_some h
  have h2 := List.find?_some h
  simp only [Bool.and_eq_true, beq_iff_eq] at h2
  exact ⟨h1, h2.1, h2.2⟩

def Entry.upd (f : Field → Field) (e : Entry) : Entry := { e with field := f e.field }

@[simp] theorem upd_path (f : Field → Field) (e : Entry) : (e.upd f).path = e.path := rfl
@[simp] theorem upd_ident (f : Field → Field) (e : Entry) : (e.upd f).ident = e.ident := rfl
@[simp] theorem upd_reqs (f : Field → Field) (e : Entry) : (e.upd f).reqs = e.reqs := rfl
@[simp] theorem upd_field (f : Field → Field) (e : Entry) : (e.upd f).field = f e.field := rfl
@[simp] theorem upd_enabled (f : Field → Field) (e : Entry) (fv : Reqs) : (e.upd f).enabled fv = e.enabled fv := rfl
@[simp] theorem upd_potential (f : Field → Field) (e : Entry) (fv : Reqs) : (e.upd f).potential fv = e.potential fv := rfl

theorem modifyFirst_cons (p : Entry → Bool) (f : Field → Field) (e : Entry) (es : List Entry) :
    modifyFirst p f (e :: es) = if p e then e.upd f :: es else e :: modifyFirst p f es := rfl

theorem mem_modifyFirst {p : Entry → Bool} {f : Field → Field} {es : List Entry} {x : Entry}
    (h : x ∈ modifyFirst p f es) : x ∈ es ∨ ∃ y ∈ es, p y = true ∧ x = y.upd f := by
  induction es with
  | nil => simp [modifyFirst] at h
  | cons e es ih =>
    rw [modifyFirst_cons] at h
    split at h
    · rename_i hp
      rcases List.mem_cons.mp h with h | h
      · exact Or.inr ⟨e, List.mem_cons_self, hp, h⟩
      · exact Or.inl (List.mem_cons_of_mem _ h)
    · rcases List.mem_cons.mp h with h | h
      · exact Or.inl (h ▸ List.mem_cons_self)
      · rcases ih h with h | ⟨y, hy, hpy, hx⟩
        · exact Or.inl (List.mem_cons_of_mem _ h)
        · exact Or.inr ⟨y, List.mem_cons_of_mem _ hy, hpy, hx⟩

theorem forall_modifyFirst {P : Entry → Prop} {p : Entry → Bool} {f : Field → Field} {es : List Entry}
    (h : ∀ e ∈ es, P e) (hu : ∀ y ∈ es, p y = true → P (y.upd f)) : ∀ e ∈ modifyFirst p f es, P e := by
  intro e he
  rcases mem_modifyFirst he with h1 | ⟨y, hy, hpy, rfl⟩
  · exact h e h1
  · exact hu y hy hpy

theorem pairwise_modifyFirst {R : Entry → Entry → Prop} {p : Entry → Bool} {f : Field → Field} {es : List Entry}
    (hp : es.Pairwise R)
    (h : ∀ y ∈ es, p y = true → ∀ x ∈ es, (R y x → R (y.upd f) x) ∧ (R x y → R x (y.upd f))) :
    (modifyFirst p f es).Pairwise R := by
  induction es with
  | nil => simp [modifyFirst]
  | cons e es ih =>
    rw [List.pairwise_cons] at hp
    rw [modifyFirst_cons]
    split
    · rename_i hpe
      rw [List.pairwise_cons]
      refine ⟨fun x hx => (h e List.mem_cons_self hpe x (List.mem_cons_of_mem _ hx)).1 (hp.1 x hx), hp.2⟩
    · rw [List.pairwise_cons]
      refine ⟨?_, ih hp.2 (fun y hy hpy x hx => h y (List.mem_cons_of_mem _ hy) hpy x (List.mem_cons_of_mem _ hx))⟩
      intro x hx
      rcases mem_modifyFirst hx with h1 | ⟨y, hy, hpy, rfl⟩
      · exact hp.1 x h1
      · exact (h y (List.mem_cons_of_mem _ hy) hpy e List.mem_cons_self).2 (hp.1 y hy)

/-- elements at two positions of a pairwise list are equal or related -/
theorem pairwise_mem {R : Entry → Entry → Prop} {es : List Entry} (hp : es.Pairwise R) {a b : Entry}
    (ha : a ∈ es) (hb : b ∈ es) : a = b ∨ R a b ∨ R b a := by
  induction es with
  | nil => simp at ha
  | cons e es ih =>
    rw [List.pairwise_cons] at hp
    rcases List.mem_cons.mp ha with ha | ha <;> rcases List.mem_cons.mp hb with hb | hb
    · exact Or.inl (ha.trans hb.symm)
    · exact Or.inr (Or.inl (ha ▸ hp.1 b hb))
    · exact Or.inr (Or.inr (hb ▸ hp.1 a ha))
    · exact ih hp.2 ha hb

/-! ### the invariant of the field tree -/

structure Inv (st : State) : Prop where
  /-- identifiers are unique among fields that can be present together -/
  unique : SpecUnique st.entries
  /-- a node's accumulated requirements never demand two values of one field -/
  selfc : ∀ e ∈ st.entries, compatible e.reqs e.reqs
  /-- positioned fields that can be present together are disjoint -/
  disjoint : SpecDisjoint st.entries
  /-- positioned fields are non-empty and inside the bit field -/
  inRange : SpecInRange st.length st.entries
  /-- a length covers the largest value ever given -/
  wide : SpecWide st.entries
  /-- lengths are positive (also before a position is known) -/
  lenPos : ∀ e ∈ st.entries, ∀ l, e.field.length = some l → 1 ≤ l

/-- under the invariant, the field that `get_field` returns for a node's own identifier and the node's own
requirements has exactly those requirements -/
theorem reqs_of_enabled_same_ident {es : List Entry} (hu : SpecUnique es) {y y0 : Entry}
    (hy : y ∈ es) (hy0 : y0 ∈ es) (hs0 : compatible y0.reqs y0.reqs)
    (hid : y.ident = y0.ident) (hen : y.enabled y0.reqs = true) : y = y0 := by
  rcases pairwise_mem hu hy hy0 with h | h | h
  · exact h
  · exfalso
    refine h ?_ hid
    rw [enabled_iff] at hen
    intro i v v' hv hv'
    exact hs0 i v v' (lookup_mem (hen (i, v) hv)) hv'
  · exfalso
    refine h ?_ hid.symm
    rw [enabled_iff] at hen
    intro i v v' hv hv'
    exact hs0 i v v' hv (lookup_mem (hen (i, v') hv'))

end Rig.C08
