/-
C03 - forest surgery of the dead-link repair (`avoid_dead_links`): how the edge relation, the descendant
relation and well-formedness (one entry per chip, one parent per node, no cycle) change under
`insertNew` (a new childless node), `addChild` (a new edge to a parentless node that is not an ancestor of
the new parent) and `detachIn` (removal of the parent edge of a node).  Core Lean only.
-/
import RigModel.Model.C03
import RigModel.Lemmas.C03Forest
import RigModel.Lemmas.C03NerValid
set_option linter.unusedSimpArgs false
set_option linter.unusedVariables false
namespace Rig.C03.L
open Rig.C03 Rig.Gen.C03Links

/-- no edge of the forest arrives at chip `c` -/
def NoParent (f : Forest) (c : Chip) : Prop := ∀ p k, Edge f p k → k.2 ≠ c

/-- every edge arrives at a chip that has an entry -/
def ClosedF (f : Forest) : Prop := ∀ p k, Edge f p k → k.2 ∈ f.keys

theorem edge_key {f : Forest} {p : Chip} {k : Nat × Chip} (h : Edge f p k) : p ∈ f.keys := by
  obtain ⟨n, hn, rfl, _⟩ := h
  exact mem_keys_of_mem hn

theorem WF.ofEdges {f : Forest} {rank : Chip → Nat} (hk : f.keys.Nodup)
    (hkn : ∀ n, n ∈ f → (n.2.map (·.2)).Nodup)
    (h1 : ∀ p p' k k', Edge f p k → Edge f p' k' → k.2 = k'.2 → p = p')
    (hr : ∀ p k, Edge f p k → rank k.2 < rank p) : WF f rank :=
  ⟨hk, hkn, fun n n' k k' hn hn' hk hk' he => h1 n.1 n'.1 k k' ⟨n, hn, rfl, hk⟩ ⟨n', hn', rfl, hk'⟩ he,
   fun n k hn hk => hr n.1 k ⟨n, hn, rfl, hk⟩⟩

/-! ### insertNew -/

theorem edge_insertNew {f : Forest} {c : Chip} {p : Chip} {k : Nat × Chip} :
    Edge (f.insertNew c) p k ↔ Edge f p k := by
  constructor
  · rintro ⟨n, hn, hp, hk⟩
    simp only [Forest.insertNew, List.mem_append, List.mem_singleton] at hn
    rcases hn with hn | rfl
    · exact ⟨n, hn, hp, hk⟩
    · simp at hk
  · rintro ⟨n, hn, hp, hk⟩
    exact ⟨n, by simp [Forest.insertNew, hn], hp, hk⟩

theorem below_insertNew {f : Forest} {c a x : Chip} : Below (f.insertNew c) a x ↔ Below f a x :=
  ⟨below_mono (fun _ _ h => edge_insertNew.1 h), below_mono (fun _ _ h => edge_insertNew.2 h)⟩

theorem wf_insertNew {f : Forest} {rank : Chip → Nat} (hw : WF f rank) {c : Chip} (hc : c ∉ f.keys) :
    WF (f.insertNew c) rank := by
  refine WF.ofEdges ?_ ?_ ?_ ?_
  · rw [keys_insertNew, List.nodup_append]
    refine ⟨hw.keys, by simp, ?_⟩
    intro a ha b hb hab
    simp only [List.mem_singleton] at hb
    subst hb; subst hab
    exact hc ha
  · intro n hn
    simp only [Forest.insertNew, List.mem_append, List.mem_singleton] at hn
    rcases hn with hn | rfl
    · exact hw.kidsNodup n hn
    · simp
  · intro p p' k k' h h' he
    exact parent_unique hw (edge_insertNew.1 h) (edge_insertNew.1 h') he
  · intro p k h
    exact rank_edge hw (edge_insertNew.1 h)

/-! ### addChild -/

theorem mem_addChild {f : Forest} {p : Chip} {e : Nat × Chip} {n' : Chip × List (Nat × Chip)} :
    n' ∈ f.addChild p e ↔ ∃ n, n ∈ f ∧ n' = if n.1 == p then (n.1, n.2 ++ [e]) else n := by
  simp only [Forest.addChild, List.mem_map]
  constructor
  · rintro ⟨n, hn, rfl⟩; exact ⟨n, hn, rfl⟩
  · rintro ⟨n, hn, rfl⟩; exact ⟨n, hn, rfl⟩

theorem edge_addChild_old {f : Forest} {p : Chip} {e : Nat × Chip} {q : Chip} {k : Nat × Chip}
    (h : Edge f q k) : Edge (f.addChild p e) q k := by
  obtain ⟨n, hn, rfl, hk⟩ := h
  refine ⟨if n.1 == p then (n.1, n.2 ++ [e]) else n, mem_addChild.2 ⟨n, hn, rfl⟩, ?_, ?_⟩
  · split <;> rfl
  · split
    · simp [hk]
    · exact hk

theorem edge_addChild_new {f : Forest} {p : Chip} {e : Nat × Chip} (hp : p ∈ f.keys) :
    Edge (f.addChild p e) p e := by
  simp only [Forest.keys, List.mem_map] at hp
  obtain ⟨n, hn, rfl⟩ := hp
  exact ⟨(n.1, n.2 ++ [e]), mem_addChild.2 ⟨n, hn, by simp⟩, rfl, by simp⟩

theorem edge_addChild_inv {f : Forest} {p : Chip} {e : Nat × Chip} {q : Chip} {k : Nat × Chip}
    (h : Edge (f.addChild p e) q k) : Edge f q k ∨ (q = p ∧ k = e) := by
  obtain ⟨n', hn', rfl, hk⟩ := h
  obtain ⟨n, hn, rfl⟩ := mem_addChild.1 hn'
  split at hk
  · rename_i heq
    simp only [List.mem_append, List.mem_singleton] at hk
    rw [if_pos heq]
    rcases hk with hk | rfl
    · exact Or.inl ⟨n, hn, rfl, hk⟩
    · exact Or.inr ⟨by simpa using heq, rfl⟩
  · rename_i heq
    rw [if_neg heq]
    exact Or.inl ⟨n, hn, rfl, hk⟩

open Classical in
/-- **Adding an edge to a parentless node that is not an ancestor of the new parent keeps the forest
well-formed** (the rank of everything outside the subtree of `c` is lifted above the rank of `c`). -/
theorem wf_addEdge {f : Forest} {rank : Chip → Nat} (hw : WF f rank) {p c : Chip} (d : Nat)
    (hnp : NoParent f c) (hnb : ¬ Below f c p) :
    ∃ rank', WF (f.addChild p (d, c)) rank' := by
  refine ⟨fun x => if Below f c x then rank x else rank x + rank c + 1, WF.ofEdges ?_ ?_ ?_ ?_⟩
  · rw [keys_addChild]; exact hw.keys
  · intro n' hn'
    obtain ⟨n, hn, rfl⟩ := mem_addChild.1 hn'
    split
    · simp only [List.map_append, List.map_cons, List.map_nil]
      rw [List.nodup_append]
      refine ⟨hw.kidsNodup n hn, by simp, ?_⟩
      intro a ha b hb hab
      simp only [List.mem_singleton] at hb
      subst hb; subst hab
      simp only [List.mem_map] at ha
      obtain ⟨k, hk, hkc⟩ := ha
      exact hnp n.1 k ⟨n, hn, rfl, hk⟩ hkc
    · exact hw.kidsNodup n hn
  · intro q q' k k' h h' he
    rcases edge_addChild_inv h with g | ⟨rfl, rfl⟩
    · rcases edge_addChild_inv h' with g' | ⟨rfl, rfl⟩
      · exact parent_unique hw g g' he
      · exact absurd he (hnp _ _ g)
    · rcases edge_addChild_inv h' with g' | ⟨rfl, rfl⟩
      · exact absurd he.symm (hnp _ _ g')
      · rfl
  · intro q k h
    rcases edge_addChild_inv h with g | ⟨rfl, rfl⟩
    · have h := g
      have hr := rank_edge hw h
      by_cases hb : Below f c k.2
      · have hq : Below f c q := by
          rcases below_tail hb with hck | ⟨p0, k0, hp0, hk0, hk0x⟩
          · exact absurd hck.symm (hnp _ _ h)
          · have : p0 = q := parent_unique hw hk0 h hk0x
            subst this; exact hp0
        simp only [if_pos hb, if_pos hq]; exact hr
      · have hq : ¬ Below f c q := fun hq => hb (Below.step hq h)
        simp only [if_neg hb, if_neg hq]; omega
    · simp only [if_pos (Below.refl : Below f c c), if_neg hnb]; omega

/-! ### detachIn -/

/-- the forest after removing the first child entry for chip `c` from the node(s) of chip `n` -/
def cut (f : Forest) (n c : Chip) : Forest :=
  f.map fun e => if e.1 == n then (e.1, removeChild c e.2) else e

theorem detachIn_cases (f : Forest) (c : Chip) : ∀ (order : List Chip),
    (detachIn f c order = f ∧ ∀ n, n ∈ order → (f.kids n).any (fun e => e.2 == c) = false) ∨
    ∃ n, (f.kids n).any (fun e => e.2 == c) = true ∧ detachIn f c order = cut f n c := by
  intro order
  induction order with
  | nil => exact Or.inl ⟨rfl, by simp⟩
  | cons x r ih =>
    simp only [detachIn]
    split
    · rename_i h
      exact Or.inr ⟨x, h, rfl⟩
    · rename_i h
      rcases ih with ⟨h1, h2⟩ | h
      · refine Or.inl ⟨h1, ?_⟩
        intro n hn
        simp only [List.mem_cons] at hn
        rcases hn with rfl | hn
        · exact Bool.eq_false_iff.2 h
        · exact h2 n hn
      · exact Or.inr h

theorem removeChild_keep (c : Chip) : ∀ (l : List (Nat × Chip)) k, k ∈ l → k.2 ≠ c → k ∈ removeChild c l := by
  intro l
  induction l with
  | nil => intro k hk; simp at hk
  | cons e r ih =>
    intro k hk hne
    simp only [removeChild]
    simp only [List.mem_cons] at hk
    split
    · rename_i heq
      rcases hk with rfl | hk
      · exact absurd (by simpa using heq) hne
      · exact hk
    · rcases hk with rfl | hk
      · simp
      · exact List.mem_cons_of_mem _ (ih k hk hne)

theorem removeChild_gone (c : Chip) : ∀ (l : List (Nat × Chip)), (l.map (·.2)).Nodup →
    ∀ k, k ∈ removeChild c l → k.2 ≠ c := by
  intro l
  induction l with
  | nil => intro _ k hk; simp [removeChild] at hk
  | cons e r ih =>
    intro hnd k hk
    simp only [List.map_cons, List.nodup_cons, List.mem_map, not_exists, not_and] at hnd
    simp only [removeChild] at hk
    split at hk
    · rename_i heq
      have : e.2 = c := by simpa using heq
      intro hkc
      exact hnd.1 k hk (by rw [hkc, this])
    · rename_i heq
      simp only [List.mem_cons] at hk
      rcases hk with rfl | hk
      · simpa using heq
      · exact ih hnd.2 k hk

theorem removeChild_nodup (c : Chip) : ∀ (l : List (Nat × Chip)), (l.map (·.2)).Nodup →
    ((removeChild c l).map (·.2)).Nodup := by
  intro l
  induction l with
  | nil => intro _; simp [removeChild]
  | cons e r ih =>
    intro hnd
    simp only [List.map_cons, List.nodup_cons, List.mem_map, not_exists, not_and] at hnd
    simp only [removeChild]
    split
    · exact hnd.2
    · simp only [List.map_cons, List.nodup_cons, List.mem_map, not_exists, not_and]
      exact ⟨fun k hk => hnd.1 k (removeChild_sub c r k hk), ih hnd.2⟩

theorem keys_cut (f : Forest) (n c : Chip) : (cut f n c).keys = f.keys := by
  simp only [cut, Forest.keys, List.map_map]
  apply List.map_congr_left
  intro e _
  simp only [Function.comp]
  split <;> rfl

theorem edge_cut_sub {f : Forest} {n c : Chip} {q : Chip} {k : Nat × Chip} (h : Edge (cut f n c) q k) :
    Edge f q k := by
  obtain ⟨e', he', rfl, hk⟩ := h
  simp only [cut, List.mem_map] at he'
  obtain ⟨e, he, rfl⟩ := he'
  split at hk
  · rename_i heq
    rw [if_pos heq]
    exact ⟨e, he, rfl, removeChild_sub c _ k hk⟩
  · rename_i heq
    rw [if_neg heq]
    exact ⟨e, he, rfl, hk⟩

theorem edge_cut_keep {f : Forest} {n c : Chip} {q : Chip} {k : Nat × Chip} (h : Edge f q k) (hne : k.2 ≠ c) :
    Edge (cut f n c) q k := by
  obtain ⟨e, he, rfl, hk⟩ := h
  refine ⟨if e.1 == n then (e.1, removeChild c e.2) else e, ?_, ?_, ?_⟩
  · simp only [cut, List.mem_map]; exact ⟨e, he, rfl⟩
  · split <;> rfl
  · split
    · exact removeChild_keep c _ k hk hne
    · exact hk

theorem wf_cut {f : Forest} {rank : Chip → Nat} (hw : WF f rank) (n c : Chip) : WF (cut f n c) rank := by
  refine WF.ofEdges ?_ ?_ ?_ ?_
  · rw [keys_cut]; exact hw.keys
  · intro e' he'
    simp only [cut, List.mem_map] at he'
    obtain ⟨e, he, rfl⟩ := he'
    split
    · exact removeChild_nodup c _ (hw.kidsNodup e he)
    · exact hw.kidsNodup e he
  · intro p p' k k' h h' he
    exact parent_unique hw (edge_cut_sub h) (edge_cut_sub h') he
  · intro p k h
    exact rank_edge hw (edge_cut_sub h)

theorem noParent_cut {f : Forest} {rank : Chip → Nat} (hw : WF f rank) {n c : Chip}
    (hn : (f.kids n).any (fun e => e.2 == c) = true) : NoParent (cut f n c) c := by
  intro q k h hkc
  simp only [List.any_eq_true, beq_iff_eq] at hn
  obtain ⟨k0, hk0, hk0c⟩ := hn
  have hq : q = n := parent_unique hw (edge_cut_sub h) (kids_edge hk0) (by rw [hkc, hk0c])
  subst hq
  obtain ⟨e', he', he1, hk⟩ := h
  simp only [cut, List.mem_map] at he'
  obtain ⟨e, he, rfl⟩ := he'
  split at hk
  · exact removeChild_gone c _ (hw.kidsNodup e he) k hk hkc
  · rename_i heq
    rw [if_neg heq] at he1
    exact heq (by simpa using he1)

/-- the three facts about `detachIn … lookup.keys` the repair uses -/
theorem detach_spec {f : Forest} {rank : Chip → Nat} (hw : WF f rank) (c : Chip) :
    WF (detachIn f c f.keys) rank ∧ NoParent (detachIn f c f.keys) c ∧
    (detachIn f c f.keys).keys = f.keys ∧
    (∀ q k, Edge (detachIn f c f.keys) q k → Edge f q k) ∧
    (∀ q k, Edge f q k → k.2 ≠ c → Edge (detachIn f c f.keys) q k) := by
  rcases detachIn_cases f c f.keys with ⟨h1, h2⟩ | ⟨n, hn, h1⟩
  · rw [h1]
    refine ⟨hw, ?_, rfl, fun _ _ h => h, fun _ _ h _ => h⟩
    intro q k h hkc
    have := h2 q (edge_key h)
    simp only [List.any_eq_false, beq_iff_eq] at this
    exact this k (edge_kids hw.keys h) hkc
  · rw [h1]
    exact ⟨wf_cut hw n c, noParent_cut hw hn, keys_cut f n c, fun _ _ h => edge_cut_sub h,
      fun _ _ h hne => edge_cut_keep h hne⟩

end Rig.C03.L
