/-
C01 - helper lemmas for the composition `pipeline_delivery`: from the stage predicates
(C03 `ValidTree`, C10 `TablesExact`, pairwise non-intersecting keys) to `Agrees` / `SrcListed`.
-/
import RigModel.Lemmas.C01
import RigModel.Lemmas.C10Bits
import RigModel.Lemmas.C03Tree
import RigModel.Props.C10
import Mathlib.Data.List.Pairwise
import Mathlib.Data.List.Perm.Subperm
set_option linter.unusedSimpArgs false
set_option linter.unusedVariables false

namespace Rig.C01.L
open Rig.C01
open Rig.C03 (Chip Machine chipOk linkOk step opp Tree chipsL leafL edgesL HopOk)

/-! ### induction over routing trees -/

theorem tree_ind {P : Tree → Prop}
    (h : ∀ c subs lv, (∀ sub ∈ subs, P sub.2) → P (.node c subs lv)) : ∀ t, P t := by
  have : ∀ n (t : Tree), t.chips.length ≤ n → P t := by
    intro n
    induction n with
    | zero => intro t ht; cases t; simp [Tree.chips] at ht
    | succ n ih =>
      intro t ht
      cases t with
      | node c subs lv =>
        apply h
        intro sub hs
        apply ih
        simp only [Tree.chips, List.length_cons] at ht
        have := chips_sub_length hs
        omega
  exact fun t => this _ t (Nat.le_refl _)

theorem edges_sub {c : Chip} : ∀ {s : List (Nat × Tree)} {sub : Nat × Tree}, sub ∈ s →
    (c, sub.1, sub.2.chip) ∈ edgesL c s ∧ ∀ e ∈ sub.2.edges, e ∈ edgesL c s
  | [], _, h => by simp at h
  | (d, t) :: r, sub, h => by
    simp only [edgesL, List.mem_cons, List.mem_append]
    rcases List.mem_cons.1 h with rfl | h
    · exact ⟨Or.inl rfl, fun e he => Or.inr (Or.inl he)⟩
    · have := edges_sub (c := c) h
      exact ⟨Or.inr (Or.inr this.1), fun e he => Or.inr (Or.inr (this.2 e he))⟩

theorem leaf_sub : ∀ {s : List (Nat × Tree)} {sub : Nat × Tree}, sub ∈ s → ∀ lf ∈ sub.2.leafList, lf ∈ leafL s
  | [], _, h, _, _ => by simp at h
  | (d, t) :: r, sub, h, lf, hlf => by
    simp only [leafL, List.mem_append]
    rcases List.mem_cons.1 h with rfl | h
    · exact Or.inl hlf
    · exact Or.inr (leaf_sub h lf hlf)

theorem mem_leafL : ∀ {s : List (Nat × Tree)} {lf : Rig.C03.Leaf}, lf ∈ leafL s ↔ ∃ sub ∈ s, lf ∈ sub.2.leafList
  | [], lf => by simp [leafL]
  | (d, t) :: r, lf => by
    simp only [leafL, List.mem_append, List.mem_cons, exists_eq_or_imp, mem_leafL (s := r)]

theorem agreesL_of_forall {m : Machine} {dev T k path c} :
    ∀ {s : List (Nat × Tree)}, (∀ sub ∈ s,
      sub.1 < 6 ∧ linkOk m c sub.1 = true ∧ chipOk m sub.2.chip = true ∧ sub.2.chip = step m c sub.1 ∧
      (c, sub.1) ∉ dev ∧ Agrees m dev T k path sub.2) → AgreesL m dev T k path c s
  | [], _ => by simp [AgreesL]
  | (d, t) :: r, h => by
    simp only [AgreesL]
    exact ⟨h (d, t) (by simp), agreesL_of_forall (fun sub hs => h sub (List.mem_cons_of_mem _ hs))⟩

theorem srcListedL_of_forall {T : Chip → List Entry} {k : W} :
    ∀ {s : List (Nat × Tree)}, (∀ sub ∈ s, SrcListed T k (some (opp sub.1)) sub.2) → SrcListedL T k s
  | [], _ => by simp [SrcListedL]
  | (d, t) :: r, h => by
    simp only [SrcListedL]
    exact ⟨h (d, t) (by simp), srcListedL_of_forall (fun sub hs => h sub (List.mem_cons_of_mem _ hs))⟩

/-- the events of a tree are its leaves with a route -/
theorem treeEvs_leafList : ∀ (t : Tree) (ev : Ev),
    ev ∈ treeEvs t ↔ ∃ lf ∈ t.leafList, ∃ r, lf.2.1 = some r ∧ ev = leafEv lf.1 r := by
  intro t
  induction t using tree_ind with
  | h c subs lv ih =>
    intro ev
    simp only [treeEvs, Tree.leafList, List.mem_append, List.mem_map, List.mem_filterMap, mem_treeEvsL, mem_leafL]
    constructor
    · rintro (⟨r, ⟨p, hp, hr⟩, rfl⟩ | ⟨sub, hs, h⟩)
      · exact ⟨(c, p.1, p.2), Or.inl ⟨p, hp, rfl⟩, r, hr, rfl⟩
      · obtain ⟨lf, hlf, r, hr, he⟩ := (ih sub hs ev).1 h
        exact ⟨lf, Or.inr ⟨sub, hs, hlf⟩, r, hr, he⟩
    · rintro ⟨lf, (⟨p, hp, rfl⟩ | ⟨sub, hs, hlf⟩), r, hr, he⟩
      · exact Or.inl ⟨r, ⟨p, hp, hr⟩, he.symm⟩
      · exact Or.inr ⟨sub, hs, (ih sub hs ev).2 ⟨lf, hlf, r, hr, he⟩⟩

/-! ### the C10 view of a C03 tree -/

theorem occs_leafKids (lv : List (Option Nat × Nat)) (K : Rig.C10.Kids) : (leafKids lv K).occs = K.occs := by
  induction lv with
  | nil => rfl
  | cons p rest ih => obtain ⟨r, v⟩ := p; simp [leafKids, Rig.C10.Kids.occs, ih]

theorem mem_outDirs_leafKids (lv : List (Option Nat × Nat)) (K : Rig.C10.Kids) (r : Nat) :
    r ∈ Rig.C10.outDirs (leafKids lv K) ↔ r ∈ lv.filterMap (·.1) ∨ r ∈ Rig.C10.outDirs K := by
  induction lv with
  | nil => simp [leafKids]
  | cons p rest ih =>
    obtain ⟨o, v⟩ := p
    cases o with
    | none => simp [leafKids, Rig.C10.outDirs, ih]
    | some x => simp [leafKids, Rig.C10.outDirs, ih, or_assoc]

theorem outDirs_toC10L : ∀ (s : List (Nat × Tree)), Rig.C10.outDirs (toC10L s) = s.map (·.1)
  | [] => by simp [toC10L, Rig.C10.outDirs]
  | (d, t) :: r => by simp [toC10L, Rig.C10.outDirs, outDirs_toC10L r]

theorem mem_occs_toC10L : ∀ {s : List (Nat × Tree)} {v : Rig.C10.Visit},
    v ∈ (toC10L s).occs ↔ ∃ sub ∈ s, v ∈ (toC10 sub.2).occs (some sub.1)
  | [], v => by simp [toC10L, Rig.C10.Kids.occs]
  | (d, t) :: r, v => by
    simp only [toC10L, Rig.C10.Kids.occs, List.mem_append, List.mem_cons, exists_eq_or_imp, mem_occs_toC10L (s := r)]

/-- the out-set of the C10 node is the out-set of the C03 node -/
theorem mem_outs_node (subs : List (Nat × Tree)) (lv : List (Option Nat × Nat)) (r : Nat) :
    r ∈ Rig.C10.outDirs (leafKids lv (toC10L subs)) ↔ r ∈ nodeOuts subs lv := by
  rw [mem_outDirs_leafKids, outDirs_toC10L]
  simp only [nodeOuts, List.mem_append]
  exact Or.comm

theorem occs_node (c : Chip) (subs : List (Nat × Tree)) (lv : List (Option Nat × Nat)) (d : Option Nat) :
    (toC10 (.node c subs lv)).occs d =
      { dir := d, chip := chipN c, outs := Rig.C10.outDirs (leafKids lv (toC10L subs)) } :: (toC10L subs).occs := by
  simp [toC10, Rig.C10.Tree.occs, occs_leafKids]

theorem occsL_chips : ∀ (s : List (Nat × Tree)),
    (∀ sub ∈ s, ∀ d, ((toC10 sub.2).occs d).map (·.chip) = sub.2.chips.map chipN) →
    ((toC10L s).occs).map (·.chip) = (chipsL s).map chipN
  | [], _ => by simp [toC10L, Rig.C10.Kids.occs, chipsL]
  | (d, t) :: r, h => by
    simp only [toC10L, Rig.C10.Kids.occs, chipsL, List.map_append]
    rw [h (d, t) (by simp) (some d), occsL_chips r (fun sub hs => h sub (List.mem_cons_of_mem _ hs))]

/-- the chips of the occurrences are the chips of the tree, in order -/
theorem occs_chips : ∀ (t : Tree) (d : Option Nat), ((toC10 t).occs d).map (·.chip) = t.chips.map chipN := by
  intro t
  induction t using tree_ind with
  | h c subs lv ih =>
    intro d
    rw [occs_node]
    simp only [List.map_cons, Tree.chips]
    rw [occsL_chips subs ih]

theorem chipZ_chipN {c : Chip} (h1 : 0 ≤ c.1) (h2 : 0 ≤ c.2) : chipZ (chipN c) = c := by
  obtain ⟨x, y⟩ := c
  simp only [chipZ, chipN] at *
  rw [Int.toNat_of_nonneg h1, Int.toNat_of_nonneg h2]

theorem chipN_inj {a b : Chip} (ha1 : 0 ≤ a.1) (ha2 : 0 ≤ a.2) (hb1 : 0 ≤ b.1) (hb2 : 0 ≤ b.2)
    (h : chipN a = chipN b) : a = b := by
  rw [← chipZ_chipN ha1 ha2, ← chipZ_chipN hb1 hb2, h]

/-- in a tree with distinct non-negative chips, two occurrences on the same chip are the same -/
theorem occs_unique (t : Tree) (d : Option Nat) (hn : t.chips.Nodup) (hpos : ∀ x ∈ t.chips, 0 ≤ x.1 ∧ 0 ≤ x.2)
    {v w : Rig.C10.Visit} (hv : v ∈ (toC10 t).occs d) (hw : w ∈ (toC10 t).occs d) (h : v.chip = w.chip) : v = w := by
  have hnd : (((toC10 t).occs d).map (·.chip)).Nodup := by
    rw [occs_chips]
    exact List.Nodup.map_on (fun a ha b hb hab => chipN_inj (hpos a ha).1 (hpos a ha).2 (hpos b hb).1 (hpos b hb).2 hab) hn
  exact List.inj_on_of_nodup_map hnd hv hw h

/-- sub-trees are entered by link directions when every hop is one -/
theorem toC10_wf : ∀ (t : Tree), (∀ e ∈ t.edges, e.2.1 < 6) → (toC10 t).WF := by
  intro t
  induction t using tree_ind with
  | h c subs lv ih =>
    intro he
    simp only [toC10, Rig.C10.Tree.WF]
    have hl : ∀ (K : Rig.C10.Kids), K.WF → (leafKids lv K).WF := by
      intro K hK
      clear he
      induction lv with
      | nil => exact hK
      | cons p rest ihl => obtain ⟨r, v⟩ := p; simp only [leafKids, Rig.C10.Kids.WF]; exact ihl
    apply hl
    have : ∀ (s : List (Nat × Tree)), (∀ sub ∈ s, sub.1 < 6 ∧ (toC10 sub.2).WF) → (toC10L s).WF := by
      intro s
      induction s with
      | nil => intro _; simp [toC10L, Rig.C10.Kids.WF]
      | cons p rest ihs =>
        obtain ⟨d, t⟩ := p
        intro h
        simp only [toC10L, Rig.C10.Kids.WF]
        exact ⟨⟨d, rfl, (h (d, t) (by simp)).1⟩, (h (d, t) (by simp)).2,
          ihs (fun sub hs => h sub (List.mem_cons_of_mem _ hs))⟩
    apply this
    intro sub hs
    have hes := edges_sub (c := c) hs
    simp only [Tree.edges] at he
    exact ⟨he _ hes.1, ih sub hs (fun e hee => he e (hes.2 e hee))⟩

/-! ### from the flat C03 predicates and the per-occurrence table facts to `Agrees` / `SrcListed` -/

/-- what the tables do with key `k` at an occurrence (tree node seen by C10) -/
def OccOk (T : Chip → List Entry) (k : W) (v : Rig.C10.Visit) : Prop :=
  ∃ e, Rig.C04.lookup (T (chipZ v.chip)) k = some e ∧ (∀ b, e.route.testBit b = true ↔ b ∈ v.outs) ∧
    e.sources.testBit (srcBit (Rig.C10.srcOf v.dir)) = true

theorem agrees_of_valid {m : Machine} {dev T k} : ∀ (t : Tree) (path : List Chip) (d : Option Nat),
    t.chips.Nodup → (∀ x ∈ t.chips, x ∉ path ∧ 0 ≤ x.1 ∧ 0 ≤ x.2) →
    (∀ e ∈ t.edges, HopOk m e ∧ (e.1, e.2.1) ∉ dev) →
    (∀ lf ∈ t.leafList, ∀ r, lf.2.1 = some r → r < 24 ∧ (r < 6 → (lf.1, r) ∈ dev)) →
    (∀ v ∈ (toC10 t).occs d, OccOk T k v) →
    Agrees m dev T k path t ∧ SrcListed T k (Rig.C10.srcOf d) t := by
  intro t
  induction t using tree_ind with
  | h c subs lv ih =>
    intro path d hn hx he hl hocc
    rw [occs_node] at hocc
    simp only [Tree.chips, List.nodup_cons] at hn
    obtain ⟨hc, hnL⟩ := hn
    have hxc := hx c (by simp [Tree.chips])
    obtain ⟨e, hlk, hroute, hsrc⟩ := hocc _ (List.mem_cons_self ..)
    simp only [chipZ_chipN hxc.2.1 hxc.2.2] at hlk
    simp only [Tree.edges] at he
    have hsubs : ∀ sub ∈ subs,
        (sub.1 < 6 ∧ linkOk m c sub.1 = true ∧ chipOk m sub.2.chip = true ∧ sub.2.chip = step m c sub.1 ∧
          (c, sub.1) ∉ dev ∧ Agrees m dev T k (c :: path) sub.2) ∧ SrcListed T k (some (opp sub.1)) sub.2 := by
      intro sub hs
      have hes := edges_sub (c := c) hs
      obtain ⟨⟨h6, hlko, hcko, hst⟩, hnd⟩ := he _ hes.1
      simp only at h6 hlko hcko hst hnd
      have := ih sub hs (c :: path) (some sub.1) (chips_sub_nodup hs hnL)
        (fun x hxs => by
          have hxs' := chips_sub_subset hs x hxs
          have := hx x (by simp [Tree.chips, hxs'])
          refine ⟨?_, this.2⟩
          simp only [List.mem_cons, not_or]
          exact ⟨fun h => hc (h ▸ hxs'), this.1⟩)
        (fun e' he' => he e' (hes.2 e' he'))
        (fun lf hlf => hl lf (by simp only [Tree.leafList, List.mem_append]; exact Or.inr (leaf_sub hs lf hlf)))
        (fun v hv => hocc v (List.mem_cons_of_mem _ (mem_occs_toC10L.2 ⟨sub, hs, hv⟩)))
      refine ⟨⟨h6, hlko, hcko, hst, hnd, this.1⟩, ?_⟩
      have h2 := this.2
      simp only [Rig.C10.srcOf, Option.map_some] at h2
      rw [opp_eq h6]; exact h2
    refine ⟨?_, ?_⟩
    · simp only [Agrees]
      refine ⟨hxc.1, ⟨e, hlk, fun b _ => ?_⟩, ?_, agreesL_of_forall (fun sub hs => (hsubs sub hs).1)⟩
      · rw [hroute b]; exact mem_outs_node subs lv b
      · intro r hr
        obtain ⟨p, hp, hpr⟩ := List.mem_filterMap.1 hr
        exact hl (c, p.1, p.2) (by simp only [Tree.leafList, List.mem_append, List.mem_map]; exact Or.inl ⟨p, hp, rfl⟩) r hpr
    · simp only [SrcListed]
      refine ⟨fun e' he' => ?_, srcListedL_of_forall (fun sub hs => (hsubs sub hs).2)⟩
      rw [hlk] at he'; cases he'; exact hsrc

/-! ### table facts -/

theorem find?_unique {α : Type} {p : α → Bool} {l : List α} {x : α} (hx : x ∈ l) (hp : p x = true)
    (hu : ∀ y ∈ l, p y = true → y = x) : l.find? p = some x := by
  induction l with
  | nil => simp at hx
  | cons a r ih =>
    by_cases ha : p a = true
    · have := hu a (by simp) ha
      subst this
      simp [List.find?, ha]
    · have hxr : x ∈ r := by
        rcases List.mem_cons.1 hx with rfl | h
        · exact absurd hp ha
        · exact h
      simp only [List.find?, ha]
      exact ih hxr (fun y hy => hu y (List.mem_cons_of_mem _ hy))

theorem chipZ_inj {a b : Rig.C10.ChipXY} (h : chipZ a = chipZ b) : a = b := by
  obtain ⟨a1, a2⟩ := a
  obtain ⟨b1, b2⟩ := b
  simp only [chipZ, Prod.mk.injEq] at h
  ext <;> simp <;> omega

theorem tableAt_tables04 {T10 : Rig.C10.Tables} (hn : (T10.map (·.1)).Nodup) {ct : Rig.C10.ChipXY × List Rig.C10.Entry}
    (hct : ct ∈ T10) : tableAt (tables04 T10) (chipZ ct.1) = ct.2.map entry04 := by
  have : (tables04 T10).find? (fun p => p.1 == chipZ ct.1) = some (chipZ ct.1, ct.2.map entry04) := by
    apply find?_unique
    · simp only [tables04, List.mem_map]; exact ⟨ct, hct, rfl⟩
    · simp
    · intro y hy hp
      simp only [tables04, List.mem_map] at hy
      obtain ⟨q, hq, rfl⟩ := hy
      have h1 : q.1 = ct.1 := chipZ_inj (by simpa using hp)
      have := List.inj_on_of_nodup_map hn hq hct h1
      rw [this]
  simp [tableAt, this]

theorem srcBits_testBit (l : List (Option Nat)) (i : Nat) : (srcBits l).testBit i = true ↔ i ∈ l.map srcBit := by
  have : srcBits l = Rig.C10.routeWord (l.map srcBit) := by
    simp only [srcBits, Rig.C10.routeWord, List.foldl_map]
  rw [this, Rig.C10.routeWord_testBit]

theorem intersect_of_both {k ka ma kb mb : W} (h1 : k &&& ma = ka) (h2 : k &&& mb = kb) :
    Rig.C04.intersect ka ma kb mb = true := by
  subst h1; subst h2
  simp only [Rig.C04.intersect, beq_iff_eq]
  ext i
  simp [Bool.and_assoc, Bool.and_comm, Bool.and_left_comm]

theorem net_unique {nets : List PNet}
    (hk : nets.Pairwise (fun a b => Rig.C04.intersect a.key a.mask b.key b.mask = false))
    {a b : PNet} (ha : a ∈ nets) (hb : b ∈ nets) (hi : Rig.C04.intersect a.key a.mask b.key b.mask = true) : a = b := by
  by_contra hne
  haveI : Std.Symm (fun a b : PNet => Rig.C04.intersect a.key a.mask b.key b.mask = false) := ⟨by
    intro x y h
    simp only [Rig.C04.intersect, beq_eq_false_iff_ne, ne_eq] at h ⊢
    exact fun h' => h h'.symm⟩
  have := hk.forall ha hb hne
  rw [hi] at this
  exact Bool.noConfusion this

theorem mem_allOccs {nets : List PNet} {o : Rig.C10.Occ} :
    o ∈ Rig.C10.allOccs (nets.map PNet.net10) ↔
      ∃ n ∈ nets, ∃ v ∈ (toC10 n.tree).occs none, o = { key := n.key.toNat, mask := n.mask.toNat, v := v } := by
  simp only [Rig.C10.allOccs, Rig.C10.Net.occs, PNet.net10, List.mem_flatMap, List.mem_map]
  constructor
  · rintro ⟨_, ⟨n, hn, rfl⟩, v, hv, rfl⟩; exact ⟨n, hn, v, hv, rfl⟩
  · rintro ⟨n, hn, v, hv, rfl⟩; exact ⟨_, ⟨n, hn, rfl⟩, v, hv, rfl⟩

theorem ofNat_toNat32 (x : W) : BitVec.ofNat 32 x.toNat = x := by simp

/-- what the exact tables do with a matching key at every node of a net's tree -/
theorem occOk_of_tables {nets : List PNet} {T10 : Rig.C10.Tables}
    (hex : Rig.C10.TablesExact (Rig.C10.allOccs (nets.map PNet.net10)) T10)
    (hkeys : nets.Pairwise (fun a b => Rig.C04.intersect a.key a.mask b.key b.mask = false))
    (hnd : ∀ n ∈ nets, n.tree.chips.Nodup) (hpos : ∀ n ∈ nets, ∀ x ∈ n.tree.chips, 0 ≤ x.1 ∧ 0 ≤ x.2)
    {n : PNet} (hn : n ∈ nets) {k : W} (hk : k &&& n.mask = n.key)
    {v : Rig.C10.Visit} (hv : v ∈ (toC10 n.tree).occs none) :
    OccOk (tableAt (tables04 T10)) k v := by
  obtain ⟨hTn, hcover, hper⟩ := hex
  have ho0 : ({ key := n.key.toNat, mask := n.mask.toNat, v := v } : Rig.C10.Occ) ∈
      Rig.C10.allOccs (nets.map PNet.net10) := mem_allOccs.2 ⟨n, hn, v, hv, rfl⟩
  obtain ⟨ct, hct, hc⟩ := hcover _ ho0
  simp only at hc
  obtain ⟨hkmn, _, hexact, hall⟩ := hper ct hct
  obtain ⟨e10, he10, hek, hem⟩ := hall _ ho0 hc.symm
  simp only at hek hem
  -- uniqueness of the occurrence that a matching entry can stem from
  have huniq : ∀ o ∈ Rig.C10.allOccs (nets.map PNet.net10), o.v.chip = v.chip →
      k &&& BitVec.ofNat 32 o.mask = BitVec.ofNat 32 o.key →
      o = { key := n.key.toNat, mask := n.mask.toNat, v := v } := by
    intro o ho hoc hom
    obtain ⟨n2, hn2, w, hw, rfl⟩ := mem_allOccs.1 ho
    simp only [ofNat_toNat32] at hom
    have : n = n2 := net_unique hkeys hn hn2 (intersect_of_both hk hom)
    subst this
    have := occs_unique n.tree none (hnd n hn) (hpos n hn) hw hv hoc
    rw [this]
  have hmatch : k &&& BitVec.ofNat 32 e10.mask = BitVec.ofNat 32 e10.key := by
    rw [hek, hem, ofNat_toNat32, ofNat_toNat32]; exact hk
  have hat0 : ({ key := n.key.toNat, mask := n.mask.toNat, v := v } : Rig.C10.Occ).at ct.1 e10.key e10.mask :=
    ⟨hc.symm, hek.symm, hem.symm⟩
  refine ⟨entry04 e10, ?_, ?_, ?_⟩
  · rw [← hc, tableAt_tables04 hTn hct]
    apply find?_unique (List.mem_map_of_mem he10)
    · simp [Rig.C04.Entry.matches, entry04, hmatch]
    · intro y hy hp
      obtain ⟨e2, he2, rfl⟩ := List.mem_map.1 hy
      have hm2 : k &&& BitVec.ofNat 32 e2.mask = BitVec.ofNat 32 e2.key := by
        simpa [Rig.C04.Entry.matches, entry04] using hp
      obtain ⟨⟨o, ho, hat⟩, _⟩ := hexact e2 he2
      have := huniq o ho (hat.1.trans hc) (by rw [hat.2.1, hat.2.2]; exact hm2)
      subst this
      have hkm : (fun e : Rig.C10.Entry => (e.key, e.mask)) e2 = (fun e : Rig.C10.Entry => (e.key, e.mask)) e10 := by
        simp only [Prod.mk.injEq]
        exact ⟨hat.2.1.symm.trans hek.symm, hat.2.2.symm.trans hem.symm⟩
      rw [List.inj_on_of_nodup_map hkmn he2 he10 hkm]
  · intro b
    simp only [entry04, Rig.C10.routeWord_testBit]
    constructor
    · intro hb
      obtain ⟨o, ho, hat, hbo⟩ := (hexact e10 he10).2.1 b hb
      have := huniq o ho (hat.1.trans hc) (by rw [hat.2.1, hat.2.2]; exact hmatch)
      subst this
      exact hbo
    · intro hb
      exact (hexact e10 he10).2.2.1 _ ho0 hat0 b hb
  · simp only [entry04, srcBits_testBit]
    exact List.mem_map_of_mem ((hexact e10 he10).2.2.2.2 _ ho0 hat0)

/-! ### chips of a valid tree -/

theorem reach_chipOk {m : Machine} {a b : Chip} (h : Rig.C03.Reach m a b) (ha : chipOk m a = true) : chipOk m b = true := by
  induction h with
  | refl => exact ha
  | hop l _ _ _ hc _ => exact hc

theorem chipOk_bounds {m : Machine} {c : Chip} (h : chipOk m c = true) :
    0 ≤ c.1 ∧ c.1 < (m.w : Int) ∧ 0 ≤ c.2 ∧ c.2 < (m.h : Int) := by
  simp only [chipOk, Bool.and_eq_true, decide_eq_true_eq] at h
  exact ⟨h.1.1.1.1, h.1.1.1.2, h.1.1.2, h.1.2⟩

theorem chips_ok {m : Machine} (t : Tree) (hh : ∀ e ∈ t.edges, HopOk m e) (hr : chipOk m t.chip = true) :
    ∀ x ∈ t.chips, chipOk m x = true :=
  fun x hx => reach_chipOk (Rig.C03.L.reach_of_mem m t hh x hx) hr

def grid (w h : Nat) : List Chip :=
  (List.range w).flatMap fun (x : Nat) => (List.range h).map fun (y : Nat) => ((x : Int), (y : Int))

theorem grid_length (w h : Nat) : (grid w h).length = w * h := by
  simp [grid, List.length_flatMap]

theorem mem_grid {w h : Nat} {c : Chip} (h1 : 0 ≤ c.1) (h2 : c.1 < (w : Int)) (h3 : 0 ≤ c.2) (h4 : c.2 < (h : Int)) :
    c ∈ grid w h := by
  obtain ⟨x, y⟩ := c
  simp only at h1 h2 h3 h4
  have e1 := Int.toNat_of_nonneg h1
  have e3 := Int.toNat_of_nonneg h3
  have hx : x.toNat < w := by omega
  have hy : y.toNat < h := by omega
  unfold grid
  rw [List.mem_flatMap]
  refine ⟨x.toNat, List.mem_range.2 hx, ?_⟩
  rw [List.mem_map]
  exact ⟨y.toNat, List.mem_range.2 hy, by rw [e1, e3]⟩

/-- a tree with distinct working chips has at most width x height nodes -/
theorem chips_length_le {m : Machine} (t : Tree) (hn : t.chips.Nodup) (hok : ∀ x ∈ t.chips, chipOk m x = true) :
    t.chips.length ≤ m.w * m.h := by
  have hsub : t.chips ⊆ grid m.w m.h := by
    intro x hx
    have := chipOk_bounds (hok x hx)
    exact mem_grid this.1 this.2.1 this.2.2.1 this.2.2.2
  have := (hn.subperm hsub).length_le
  rwa [grid_length] at this

/-! ### the leaves of a valid tree are the allocated cores and endpoint links of the sinks -/

theorem mem_sink_routes (s : Rig.C03.Sink) (r : Nat) :
    some r ∈ s.routes ↔ (s.kind = 2 ∧ r = s.a) ∨ (s.kind = 1 ∧ ∃ i, i < s.b - s.a ∧ r = 6 + (s.a + i)) := by
  unfold Rig.C03.Sink.routes
  by_cases h2 : s.kind = 2
  · simp [h2, eq_comm]
  · by_cases h1 : s.kind = 1
    · simp [h1, Rig.Gen.C03Links.coreRouteBase, eq_comm]
    · simp [h1, h2]

theorem delivered_of_leaves {m : Machine} {src : Chip} {sinks : List Rig.C03.Sink} {t : Tree} {dev : List (Chip × Nat)}
    (hv : Rig.C03.ValidTree m src sinks t) (hk2 : ∀ s ∈ sinks, s.kind = 2 → s.a < 6)
    {evs : List Ev} (hn : evs.Nodup) (hm : ∀ ev, ev ∈ evs ↔ ev ∈ treeEvs t) :
    Delivered evs (sinkCores sinks) (sinkExits sinks) := by
  refine ⟨hn, fun ev => ?_⟩
  rw [hm, treeEvs_leafList]
  have hleaf : ∀ lf, lf ∈ t.leafList ↔ ∃ s ∈ sinks, ∃ r ∈ s.routes, lf = (s.chip, r, s.v) := by
    intro lf
    constructor
    · intro h
      have := hv.leaves_sound lf h
      simp only [Rig.C03.expectedLeaves, List.mem_flatMap, Rig.C03.Sink.leaves, List.mem_map] at this
      obtain ⟨s, hs, r, hr, rfl⟩ := this
      exact ⟨s, hs, r, hr, rfl⟩
    · rintro ⟨s, hs, r, hr, rfl⟩
      apply hv.leaves_complete
      simp only [Rig.C03.expectedLeaves, List.mem_flatMap, Rig.C03.Sink.leaves, List.mem_map]
      exact ⟨s, hs, r, hr, rfl⟩
  simp only [sinkCores, sinkExits, List.mem_flatMap, List.mem_filterMap]
  constructor
  · rintro ⟨lf, hlf, r, hr, rfl⟩
    obtain ⟨s, hs, r', hr', rfl⟩ := (hleaf lf).1 hlf
    simp only at hr
    subst hr
    rcases (mem_sink_routes s r).1 hr' with ⟨h2, rfl⟩ | ⟨h1, i, hi, rfl⟩
    · exact Or.inr ⟨(s.chip, s.a), ⟨s, hs, by simp [h2]⟩, by simp [leafEv, hk2 s hs h2]⟩
    · refine Or.inl ⟨(s.chip, s.a + i), ⟨s, hs, ?_⟩, by simp [leafEv]⟩
      simp only [h1, if_true, List.mem_map, List.mem_range]
      exact ⟨i, hi, rfl⟩
  · rintro (⟨x, ⟨s, hs, hx⟩, rfl⟩ | ⟨x, ⟨s, hs, hx⟩, rfl⟩)
    · by_cases h1 : s.kind = 1
      · simp only [h1, if_true, List.mem_map, List.mem_range] at hx
        obtain ⟨i, hi, rfl⟩ := hx
        refine ⟨(s.chip, some (6 + (s.a + i)), s.v), (hleaf _).2 ⟨s, hs, _, (mem_sink_routes s _).2 (Or.inr ⟨h1, i, hi, rfl⟩), rfl⟩,
          6 + (s.a + i), rfl, by simp [leafEv]⟩
      · simp [h1] at hx
    · by_cases h2 : s.kind = 2
      · simp only [h2, if_true, Option.some.injEq] at hx
        subst hx
        exact ⟨(s.chip, some s.a, s.v), (hleaf _).2 ⟨s, hs, _, (mem_sink_routes s _).2 (Or.inl ⟨h2, rfl⟩), rfl⟩,
          s.a, rfl, by simp [leafEv, hk2 s hs h2]⟩
      · simp [h2] at hx

end Rig.C01.L
