/-
C04 (deepening) - user-supplied alias dictionaries of `ordered_covering`: the exact
precondition (`Inv` on the sorted input table), its simplified form, and the exhaustive checker
run by the harness.
-/
import RigModel.Model.C04U
import RigModel.Lemmas.C04Top
import RigModel.Lemmas.C04Brute
set_option linter.unusedSimpArgs false
set_option linter.unusedVariables false

namespace Rig.C04

/-- **the reduction behind every exhaustive oracle of C04**: a key either is matched by no entry
of `Ts`, or some enumerated key (base key outside the varying positions) is matched by exactly
the same entries of `Ts` -/
theorem keysOver_reduce (Ts : List Entry) (k : W) :
    (∀ e ∈ Ts, e.matches k = false) ∨
    ∃ k' ∈ keysOver (baseKey Ts) (varyingBits Ts), ∀ e ∈ Ts, e.matches k = e.matches k' := by
  have bMA : ∀ i, i < 32 → (Ts.foldl (fun a e => a &&& e.mask) (0xffffffff : W)).getLsbD i = Ts.all (fun e => e.mask.getLsbD i) := by
    intro i hi; rw [foldl_and_mask_bit, ff_bit i hi, Bool.true_and]
  have bKA : ∀ i, i < 32 → (Ts.foldl (fun a e => a &&& e.key) (0xffffffff : W)).getLsbD i = Ts.all (fun e => e.key.getLsbD i) := by
    intro i hi; rw [foldl_and_key_bit, ff_bit i hi, Bool.true_and]
  have bMO : ∀ i, (Ts.foldl (fun a e => a ||| e.mask) (0 : W)).getLsbD i = Ts.any (fun e => e.mask.getLsbD i) := by
    intro i; rw [foldl_or_mask_bit]; simp
  have bKO : ∀ i, (Ts.foldl (fun a e => a ||| e.key) (0 : W)).getLsbD i = Ts.any (fun e => e.key.getLsbD i) := by
    intro i; rw [foldl_or_key_bit]; simp
  by_cases hfix : ∃ i, i < 32 ∧ Ts.all (fun e => e.mask.getLsbD i) = true ∧
      (Ts.all (fun e => e.key.getLsbD i) = Ts.any (fun e => e.key.getLsbD i)) ∧
      k.getLsbD i ≠ Ts.all (fun e => e.key.getLsbD i)
  · left
    obtain ⟨i, hi, hma, hka, hk⟩ := hfix
    intro e he
    cases hm : e.matches k with
    | false => rfl
    | true =>
      exfalso
      rw [matches_iff] at hm
      have hbit := congrArg (fun x => x.getLsbD i) hm
      simp only [BitVec.getLsbD_and, (List.all_eq_true.mp hma) e he, Bool.and_true] at hbit
      apply hk
      rw [hbit]
      cases hall : Ts.all (fun e => e.key.getLsbD i) with
      | true => exact (List.all_eq_true.mp hall) e he
      | false =>
        rw [hall] at hka
        cases hek : e.key.getLsbD i with
        | false => rfl
        | true =>
          have : Ts.any (fun e => e.key.getLsbD i) = true := List.any_eq_true.mpr ⟨e, he, hek⟩
          rw [this] at hka; cases hka
  · right
    let V : W := (Ts.foldl (fun a e => a ||| e.mask) (0 : W)) &&&
      ~~~((Ts.foldl (fun a e => a &&& e.mask) (0xffffffff : W)) &&&
        ~~~((Ts.foldl (fun a e => a &&& e.key) (0xffffffff : W)) ^^^ (Ts.foldl (fun a e => a ||| e.key) (0 : W))))
    let k' : W := (k &&& V) ||| (baseKey Ts &&& ~~~V)
    have hVbit : ∀ i, i < 32 → V.getLsbD i =
        (Ts.any (fun e => e.mask.getLsbD i) && !(Ts.all (fun e => e.mask.getLsbD i) &&
          (Ts.all (fun e => e.key.getLsbD i) == Ts.any (fun e => e.key.getLsbD i)))) := by
      intro i hi
      simp only [V, BitVec.getLsbD_and, BitVec.getLsbD_not, BitVec.getLsbD_xor, bMA i hi, bKA i hi, bMO, bKO,
        hi, decide_true, Bool.true_and]
      cases Ts.any (fun e => e.mask.getLsbD i) <;> cases Ts.all (fun e => e.mask.getLsbD i) <;>
        cases Ts.all (fun e => e.key.getLsbD i) <;> cases Ts.any (fun e => e.key.getLsbD i) <;> rfl
    have hmem : k' ∈ keysOver (baseKey Ts) (varyingBits Ts) := by
      apply mem_keysOver
      intro i hi hn
      have hV : V.getLsbD i = false := by
        rw [hVbit i hi]
        simp only [varyingBits, List.mem_filter, List.mem_range, not_and, Bool.not_eq_true] at hn
        have := hn hi
        rw [bMO, bMA i hi, bKA i hi, bKO] at this
        exact this
      simp only [k', BitVec.getLsbD_or, BitVec.getLsbD_and, BitVec.getLsbD_not, hV, hi, decide_true]
      simp
    have hagree : ∀ i, i < 32 → (Ts.any fun e => e.mask.getLsbD i) = true → k.getLsbD i = k'.getLsbD i := by
      intro i hi hany
      simp only [k', BitVec.getLsbD_or, BitVec.getLsbD_and, BitVec.getLsbD_not, hi, decide_true, Bool.true_and]
      cases hV : V.getLsbD i with
      | true => simp
      | false =>
        simp only [Bool.and_false, Bool.not_false, Bool.and_true, Bool.false_or]
        rw [hVbit i hi, hany, Bool.true_and] at hV
        simp only [Bool.not_eq_false', Bool.and_eq_true, beq_iff_eq] at hV
        have hne : Ts.isEmpty = false := by
          cases Ts with
          | nil => simp at hany
          | cons => rfl
        simp only [baseKey, hne, Bool.false_eq_true, if_false, BitVec.getLsbD_and, bMA i hi, bKA i hi, hV.1,
          Bool.true_and]
        by_cases hk : k.getLsbD i = Ts.all (fun e => e.key.getLsbD i)
        · exact hk
        · exact absurd ⟨i, hi, hV.1, hV.2, hk⟩ hfix
    exact ⟨k', hmem, fun e he => matches_congr hagree he⟩

/-! ### the precondition on a user alias dictionary -/

/-- **AliasCover**: every key whose first match in the table is `o` is matched by one of the
key/masks that the dictionary lists for `o` (`aliases.get(km(o), {km(o)})`) -/
def AliasCover (S : List Entry) (A : Aliases) : Prop :=
  ∀ k o, lookup S k = some o → ∃ a ∈ alOf A o, kmMatches a k = true

theorem inv_self_iff (S : List Entry) (A : Aliases) : Inv S S A ↔ AliasCover S A := by
  constructor
  · intro h k o ho
    obtain ⟨e, h1, _, _, h4⟩ := h k o ho
    rw [ho] at h1; cases h1
    exact h4
  · intro h k o ho
    exact ⟨o, ho, rfl, bitSubset_refl _, h k o ho⟩

theorem aliasKeyOkB_iff (S : List Entry) (A : Aliases) (k : W) :
    aliasKeyOkB S A k = true ↔ ∀ o, lookup S k = some o → ∃ a ∈ alOf A o, kmMatches a k = true := by
  simp only [aliasKeyOkB]
  cases h : lookup S k with
  | none => simp
  | some o =>
    simp only [List.any_eq_true, Option.some.injEq, forall_eq', kmMatches]

theorem alGet_mem {A : Aliases} {km : KM} {v : List KM} (h : alGet A km = some v) : (km, v) ∈ A := by
  simp only [alGet, Option.map_eq_some_iff] at h
  obtain ⟨p, hp, rfl⟩ := h
  have h1 := List.find?_some hp
  have h2 := List.mem_of_find?_eq_some hp
  simp only [beq_iff_eq] at h1
  obtain ⟨p1, p2⟩ := p
  simp only at h1
  subst h1
  exact h2

theorem alOf_cases (S : List Entry) (A : Aliases) (o : Entry) (ho : o ∈ S) (a : KM) (ha : a ∈ alOf A o) :
    kmEntry a ∈ S ++ aliasEntries A ∨ a = o.km := by
  simp only [alOf] at ha
  cases h : alGet A o.km with
  | none => rw [h] at ha; simp at ha; exact Or.inr ha
  | some v =>
    rw [h] at ha
    simp only [Option.getD_some] at ha
    left
    apply List.mem_append_right
    simp only [aliasEntries, List.mem_flatMap, List.mem_map]
    exact ⟨(o.km, v), alGet_mem h, a, ha, rfl⟩

theorem aliasKeyOkB_congr (S : List Entry) (A : Aliases) (k k' : W)
    (h : ∀ e ∈ S ++ aliasEntries A, e.matches k = e.matches k') :
    aliasKeyOkB S A k = aliasKeyOkB S A k' := by
  have hl : lookup S k = lookup S k' := lookup_congr (fun e he => h e (List.mem_append_left _ he))
  simp only [aliasKeyOkB, ← hl]
  cases hlk : lookup S k with
  | none => rfl
  | some o =>
    simp only
    have ho := (lookup_some_matches hlk).2
    have key : ∀ a ∈ alOf A o, (k &&& a.2 == a.1) = (k' &&& a.2 == a.1) := by
      intro a ha
      rcases alOf_cases S A o ho a ha with hm | rfl
      · exact h _ hm
      · exact h o (List.mem_append_left _ ho)
    rw [Bool.eq_iff_iff]
    simp only [List.any_eq_true]
    constructor
    · rintro ⟨a, ha, hm⟩; exact ⟨a, ha, by rw [← key a ha]; exact hm⟩
    · rintro ⟨a, ha, hm⟩; exact ⟨a, ha, by rw [key a ha]; exact hm⟩

theorem aliasOkBrute_none_iff' (S : List Entry) (A : Aliases) :
    aliasOkBrute S A = none ↔ AliasCover S A := by
  constructor
  · intro hb k o ho
    simp only [aliasOkBrute, List.find?_eq_none, Bool.not_eq_true, Bool.not_eq_false'] at hb
    rcases keysOver_reduce (S ++ aliasEntries A) k with hno | ⟨k', hk', hag⟩
    · have := hno o (List.mem_append_left _ (lookup_some_matches ho).2)
      rw [(lookup_some_matches ho).1] at this; cases this
    · have h1 : aliasKeyOkB S A k' = true := by simpa using hb k' hk'
      rw [← aliasKeyOkB_congr S A k k' hag] at h1
      exact (aliasKeyOkB_iff S A k).mp h1 o ho
  · intro h
    simp only [aliasOkBrute, List.find?_eq_none, Bool.not_eq_true, Bool.not_eq_false']
    intro k _
    simpa using (aliasKeyOkB_iff S A k).mpr (h k)

/-- a dictionary in which every listed key/mask of the table is among its own aliases is valid -/
theorem aliasCover_of_self (S : List Entry) (A : Aliases)
    (h : ∀ e ∈ S, ∀ v, alGet A e.km = some v → e.km ∈ v) : AliasCover S A := by
  intro k o ho
  obtain ⟨hm, hmem⟩ := lookup_some_matches ho
  refine ⟨o.km, ?_, by rw [kmMatches_km]; exact hm⟩
  simp only [alOf]
  cases hg : alGet A o.km with
  | none => simp
  | some v => simpa using h o hmem v hg

end Rig.C04
