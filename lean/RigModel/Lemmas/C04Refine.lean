/-
C04 - `_refine_merge`: a merge that survives refinement passes the up-check and the down-check.
-/
import RigModel.Lemmas.C04Ins
set_option linter.unusedSimpArgs false
set_option linter.unusedVariables false

namespace Rig.C04

/-! ### generality and insertion index shrink with the member set -/

theorem popcount_mono {x y : W} (h : ∀ i, i < 32 → x.getLsbD i = true → y.getLsbD i = true) :
    popcount x ≤ popcount y := by
  unfold popcount
  apply List.countP_mono_left
  intro i hi hx
  exact h i (by simpa using hi) hx

theorem gen_merged (ms : List Entry) :
    generality (mergedKey ms) (mergedMask ms) = popcount (~~~ mergedMask ms) := by
  unfold generality mergedKey
  congr 1
  apply BitVec.eq_of_getLsbD_eq
  intro i hi
  simp only [BitVec.getLsbD_and, BitVec.getLsbD_not, hi, decide_true, Bool.true_and]
  cases (mergedMask ms).getLsbD i <;> simp

theorem mergedMask_mono {ms ms' : List Entry} (hsub : ∀ e ∈ ms', e ∈ ms) (hne : ms' ≠ [])
    (i : Nat) (hi : i < 32) (h : (mergedMask ms).getLsbD i = true) :
    (mergedMask ms').getLsbD i = true := by
  have hff := ff_bit i hi
  have hz : BitVec.getLsbD (0 : W) i = false := by simp
  simp only [mergedMask, allOnes, allSelected, anyOnes, BitVec.getLsbD_and, BitVec.getLsbD_xor,
    BitVec.getLsbD_not, foldl_and_key_bit, foldl_and_mask_bit, foldl_or_key_bit, hi, decide_true,
    Bool.true_and, hff, hz, Bool.false_or] at h ⊢
  have hA : (ms.all fun e => e.mask.getLsbD i) = true → (ms'.all fun e => e.mask.getLsbD i) = true := by
    intro h; rw [List.all_eq_true] at *; exact fun e he => h e (hsub e he)
  have hB : (ms.all fun e => e.key.getLsbD i) = true → (ms'.all fun e => e.key.getLsbD i) = true := by
    intro h; rw [List.all_eq_true] at *; exact fun e he => h e (hsub e he)
  have hC : (ms'.any fun e => e.key.getLsbD i) = true → (ms.any fun e => e.key.getLsbD i) = true := by
    intro h; rw [List.any_eq_true] at *; obtain ⟨e, he, h⟩ := h; exact ⟨e, hsub e he, h⟩
  have hD : (ms'.all fun e => e.key.getLsbD i) = true → (ms'.any fun e => e.key.getLsbD i) = true := by
    intro h
    cases ms' with
    | nil => exact absurd rfl hne
    | cons x r =>
      rw [List.all_eq_true] at h; rw [List.any_eq_true]
      exact ⟨x, by simp, h x (by simp)⟩
  generalize (ms.all fun e => e.mask.getLsbD i) = A at *
  generalize (ms.all fun e => e.key.getLsbD i) = B at *
  generalize (ms.any fun e => e.key.getLsbD i) = C at *
  generalize (ms'.all fun e => e.mask.getLsbD i) = A' at *
  generalize (ms'.all fun e => e.key.getLsbD i) = B' at *
  generalize (ms'.any fun e => e.key.getLsbD i) = C' at *
  cases A <;> cases B <;> cases C <;> cases A' <;> cases B' <;> cases C' <;> simp_all

theorem members_subset {T : List Entry} {es es' : List Nat} (h : ∀ i ∈ es', i ∈ es) :
    ∀ e ∈ members T es', e ∈ members T es := by
  intro e he
  simp only [members, List.mem_filterMap] at *
  obtain ⟨i, hi, hT⟩ := he
  exact ⟨i, h i hi, hT⟩

theorem members_ne_nil {T : List Entry} {es : List Nat} (h : ∃ i ∈ es, i < T.length) :
    members T es ≠ [] := by
  obtain ⟨i, hi, hlt⟩ := h
  intro hnil
  have : T[i] ∈ members T es := mem_members (List.getElem?_eq_getElem hlt) hi
  rw [hnil] at this; cases this

theorem mkMerge_gen_eq (T : List Entry) (es : List Nat) :
    generality (mkMerge T es).key (mkMerge T es).mask = (mkMerge T es).gen := rfl

theorem mkMerge_ins_eq (T : List Entry) (es : List Nat) :
    (mkMerge T es).ins = insertionIndex T (mkMerge T es).gen := rfl

theorem mkMerge_gen_mono {T : List Entry} {es es' : List Nat} (hsub : ∀ i ∈ es', i ∈ es)
    (hne : ∃ i ∈ es', i < T.length) : (mkMerge T es').gen ≤ (mkMerge T es).gen := by
  show generality (mergedKey (members T es')) (mergedMask (members T es')) ≤
    generality (mergedKey (members T es)) (mergedMask (members T es))
  rw [gen_merged, gen_merged]
  apply popcount_mono
  intro i hi h
  simp only [BitVec.getLsbD_not, hi, decide_true, Bool.true_and, Bool.not_eq_true'] at h ⊢
  cases hc : (mergedMask (members T es)).getLsbD i with
  | false => rfl
  | true => rw [mergedMask_mono (members_subset hsub) (members_ne_nil hne) i hi hc] at h; cases h

theorem mkMerge_ins_mono {T : List Entry} {es es' : List Nat} (hs : SortedGen T)
    (hsub : ∀ i ∈ es', i ∈ es) (hne : ∃ i ∈ es', i < T.length) :
    (mkMerge T es').ins ≤ (mkMerge T es).ins := by
  rw [mkMerge_ins_eq, mkMerge_ins_eq]
  exact insertionIndex_mono T _ _ hs (mkMerge_gen_mono hsub hne)

/-! ### the up-check -/

/-- member `i` is not hidden by an entry between it and position `ins` -/
def UpOkAt (T : List Entry) (ins i : Nat) : Prop :=
  ∀ e, T[i]? = some e → ∀ o ∈ (T.take ins).drop (i + 1), e.meets o = false

theorem upOkAt_mono {T : List Entry} {ins ins' i : Nat} (h : ins' ≤ ins) (hu : UpOkAt T ins i) :
    UpOkAt T ins' i := by
  intro e he o ho
  apply hu e he o
  have : ((T.take ins').drop (i + 1)).Sublist ((T.take ins).drop (i + 1)) := by
    apply List.Sublist.drop
    have : T.take ins' = (T.take ins).take ins' := by rw [List.take_take, Nat.min_eq_left h]
    rw [this]
    exact List.take_sublist _ _
  exact this.subset ho

theorem upOk_iff (T : List Entry) (m : Merge) : UpOk T m ↔ ∀ i ∈ m.entries, UpOkAt T m.ins i := Iff.rfl

theorem mkMerge_entries (T : List Entry) (es : List Nat) : (mkMerge T es).entries = es := rfl
theorem mkMerge_goodness (T : List Entry) (es : List Nat) :
    (mkMerge T es).goodness = (es.length : Int) - 1 := rfl

/-- more than one valid member when the goodness is positive -/
theorem exists_valid_of_goodness {T : List Entry} {es : List Nat} {minG : Int}
    (hv : ∀ i ∈ es, i < T.length) (h0 : 0 ≤ minG) (hg : (mkMerge T es).goodness > minG) :
    ∃ i ∈ es, i < T.length := by
  rw [mkMerge_goodness] at hg
  cases es with
  | nil => simp at hg; omega
  | cons i r => exact ⟨i, by simp, hv i (by simp)⟩

theorem upLoop_spec (T : List Entry) (minG : Int) (hs : SortedGen T) (h0 : 0 ≤ minG)
    (is : List Nat) (es : List Nat) (ch : Bool)
    (hv : ∀ i ∈ es, i < T.length)
    (hP : ∀ i ∈ es, i ∉ is → UpOkAt T (mkMerge T es).ins i) :
    ∃ es', upLoop T minG is (mkMerge T es) ch = (mkMerge T es', (upLoop T minG is (mkMerge T es) ch).2) ∧
      (∀ i ∈ es', i ∈ es) ∧
      ((mkMerge T es').goodness > minG → ∀ i ∈ es', UpOkAt T (mkMerge T es').ins i) ∧
      ((upLoop T minG is (mkMerge T es) ch).2 = false → es' = es) ∧ (es.Nodup → es'.Nodup) := by
  induction is generalizing es ch with
  | nil =>
    exact ⟨es, rfl, fun i h => h, fun _ i hi => hP i hi (by simp), fun _ => rfl, fun h => h⟩
  | cons i rest ih =>
    simp only [upLoop]
    split
    · -- invalid index: nothing at position i
      rename_i hn
      apply ih es ch hv
      intro j hj hjr
      by_cases hji : j = i
      · subst hji; intro e he; rw [hn] at he; cases he
      · exact hP j hj (by simp [hji, hjr])
    · rename_i e he
      split
      · -- member i is removed
        rename_i hany
        split
        · exact ⟨[], rfl, by simp, by
            intro h; rw [mkMerge_goodness] at h; simp at h; omega, by simp, fun _ => List.nodup_nil⟩
        · rename_i hg
          simp only [mkMerge_entries] at hg ⊢
          have hsub : ∀ j ∈ es.filter (· != i), j ∈ es := fun j hj => (List.mem_filter.mp hj).1
          have hv' : ∀ j ∈ es.filter (· != i), j < T.length := fun j hj => hv j (hsub j hj)
          have hne := exists_valid_of_goodness hv' h0 (by omega)
          have hmono := mkMerge_ins_mono hs hsub hne
          obtain ⟨es', h1, h2, h3, h4, h5⟩ := ih (es.filter (· != i)) true hv' (by
            intro j hj hjr
            have hj' := List.mem_filter.mp hj
            have hji : j ≠ i := by simpa using hj'.2
            exact upOkAt_mono hmono (hP j hj'.1 (by simp [hji, hjr])))
          refine ⟨es', h1, fun j hj => hsub j (h2 j hj), h3, ?_,
            fun hn => h5 (hn.sublist List.filter_sublist)⟩
          intro hf
          -- the changed flag is true once a member was removed
          exfalso
          have : ∀ (is : List Nat) (m : Merge), (upLoop T minG is m true).2 = true := by
            intro is
            induction is with
            | nil => intro m; rfl
            | cons x r ihr =>
              intro m
              simp only [upLoop]
              split
              · exact ihr m
              · split
                · split
                  · rfl
                  · exact ihr _
                · exact ihr m
          rw [this] at hf; cases hf
      · -- member i stays: it is not covered up to the current insertion index
        rename_i hany
        apply ih es ch hv
        intro j hj hjr
        by_cases hji : j = i
        · subst hji
          intro e' he' o ho
          rw [he] at he'; cases he'
          have : ¬ ((T.take (mkMerge T es).ins).drop (j + 1)).any (fun o => e.meets o) = true := hany
          simp only [List.any_eq_true, not_exists, not_and, Bool.not_eq_true] at this
          exact this o ho
        · exact hP j hj (by simp [hji, hjr])

theorem upcheck_spec (T : List Entry) (minG : Int) (hs : SortedGen T) (h0 : 0 ≤ minG)
    (es : List Nat) (hv : ∀ i ∈ es, i < T.length) :
    ∃ es', upcheck T (mkMerge T es) minG = (mkMerge T es', (upcheck T (mkMerge T es) minG).2) ∧
      (∀ i ∈ es', i ∈ es) ∧
      ((mkMerge T es').goodness > minG → UpOk T (mkMerge T es')) ∧
      ((upcheck T (mkMerge T es) minG).2 = false → es' = es) ∧ (es.Nodup → es'.Nodup) := by
  simp only [upcheck, mkMerge_entries]
  exact upLoop_spec T minG hs h0 es.reverse es false hv (fun i hi hn => absurd (List.mem_reverse.mpr hi) hn)

/-! ### the down-check -/

theorem downLoop_spec (T : List Entry) (A : Aliases) (minG : Int) (h0 : 0 ≤ minG)
    (fuel : Nat) (es : List Nat) (m' : Merge)
    (h : downLoop T A minG fuel (mkMerge T es) = some m') :
    ∃ es', m' = mkMerge T es' ∧ (∀ i ∈ es', i ∈ es) ∧ (m'.goodness > minG → DownOk T A m') ∧
      (es.Nodup → es'.Nodup) := by
  induction fuel generalizing es with
  | zero => simp [downLoop] at h
  | succ fuel ih =>
    simp only [downLoop] at h
    split at h
    · split at h
      · rename_i hc
        cases h
        exact ⟨es, rfl, fun i hi => hi, fun _ => by simpa [DownOk] using hc, fun h => h⟩
      · split at h
        · cases h
          exact ⟨[], rfl, by simp, by intro hg; rw [mkMerge_goodness] at hg; simp at hg; omega,
            fun _ => List.nodup_nil⟩
        · obtain ⟨es', h1, h2, h3, h4⟩ := ih _ h
          exact ⟨es', h1, fun i hi => (List.mem_filter.mp (h2 i hi)).1, h3,
            fun hn => h4 (hn.sublist List.filter_sublist)⟩
    · cases h
      exact ⟨[], rfl, by simp, by intro hg; rw [mkMerge_goodness] at hg; simp at hg; omega,
        fun _ => List.nodup_nil⟩

theorem downcheck_spec (T : List Entry) (A : Aliases) (minG : Int) (h0 : 0 ≤ minG)
    (es : List Nat) (m' : Merge) (h : downcheck T A (mkMerge T es) minG = some m') :
    ∃ es', m' = mkMerge T es' ∧ (∀ i ∈ es', i ∈ es) ∧ (m'.goodness > minG → DownOk T A m') ∧
      (es.Nodup → es'.Nodup) :=
  downLoop_spec T A minG h0 _ es m' h

/-! ### `_refine_merge` -/

theorem upOk_mono {T : List Entry} {es es' : List Nat} (hs : SortedGen T) (hsub : ∀ i ∈ es', i ∈ es)
    (hne : ∃ i ∈ es', i < T.length) (h : UpOk T (mkMerge T es)) : UpOk T (mkMerge T es') := by
  intro i hi
  exact upOkAt_mono (mkMerge_ins_mono hs hsub hne) (h i (hsub i hi))

/-- **refine_ok.** On a generality-sorted table, a merge returned by `_refine_merge` whose
goodness still exceeds `min_goodness` consists of members of the initial merge and passes both
the up-check and the down-check (for the alias dictionary it was refined against). -/
theorem refineMerge_spec (T : List Entry) (A : Aliases) (minG : Int) (hs : SortedGen T)
    (h0 : 0 ≤ minG) (es : List Nat) (hv : ∀ i ∈ es, i < T.length) (m' : Merge)
    (h : refineMerge T A (mkMerge T es) minG = some m') :
    ∃ es', m' = mkMerge T es' ∧ (∀ i ∈ es', i ∈ es) ∧
      (m'.goodness > minG → UpOk T m' ∧ DownOk T A m') ∧ (es.Nodup → es'.Nodup) := by
  simp only [refineMerge] at h
  split at h
  · cases h
  · rename_i m1 hd1
    obtain ⟨es1, rfl, hsub1, hdown1, hnd1⟩ := downcheck_spec T A minG h0 es m1 hd1
    have hv1 : ∀ i ∈ es1, i < T.length := fun i hi => hv i (hsub1 i hi)
    split at h
    · rename_i hg1
      obtain ⟨es2, hu, hsub2, hup2, hch2, hnd2⟩ := upcheck_spec T minG hs h0 es1 hv1
      have hv2 : ∀ i ∈ es2, i < T.length := fun i hi => hv1 i (hsub2 i hi)
      have hfst : (upcheck T (mkMerge T es1) minG).1 = mkMerge T es2 := by rw [hu]
      split at h
      · rename_i hc
        rw [hfst] at h
        obtain ⟨es3, rfl, hsub3, hdown3, hnd3⟩ := downcheck_spec T A minG h0 es2 m' h
        refine ⟨es3, rfl, fun i hi => hsub1 i (hsub2 i (hsub3 i hi)), ?_, fun hn => hnd3 (hnd2 (hnd1 hn))⟩
        intro hg3
        have hv3 : ∀ i ∈ es3, i < T.length := fun i hi => hv2 i (hsub3 i hi)
        simp only [Bool.and_eq_true, decide_eq_true_eq, hfst] at hc
        exact ⟨upOk_mono hs hsub3 (exists_valid_of_goodness hv3 h0 hg3) (hup2 hc.2), hdown3 hg3⟩
      · rename_i hc
        cases h
        rw [hfst]
        refine ⟨es2, rfl, fun i hi => hsub1 i (hsub2 i hi), ?_, fun hn => hnd2 (hnd1 hn)⟩
        intro hg2
        have hchf : (upcheck T (mkMerge T es1) minG).2 = false := by
          cases hb : (upcheck T (mkMerge T es1) minG).2 with
          | false => rfl
          | true =>
            exfalso; apply hc
            simp only [Bool.and_eq_true, decide_eq_true_eq, hfst]
            exact ⟨hb, hg2⟩
        have : es2 = es1 := hch2 hchf
        subst this
        exact ⟨hup2 hg2, hdown1 hg2⟩
    · rename_i hg1
      cases h
      exact ⟨es1, rfl, hsub1, fun hg => absurd hg hg1, hnd1⟩

/-! ### `_get_all_merges`, `_get_best_merge` -/

theorem allMergesGo_nodup (T : List Entry) (is considered : List Nat) (hn : is.Nodup) :
    ∀ es ∈ allMergesGo T is considered, es.Nodup := by
  induction is generalizing considered with
  | nil => intro es h; simp [allMergesGo] at h
  | cons i rest ih =>
    obtain ⟨hi, hr⟩ := List.nodup_cons.mp hn
    intro es h
    simp only [allMergesGo] at h
    split at h
    · exact ih _ hr es h
    · split at h
      · exact ih _ hr es h
      · split at h
        · rcases List.mem_cons.mp h with rfl | h
          · exact List.nodup_cons.mpr ⟨fun hm => hi (List.mem_filter.mp hm).1, hr.sublist List.filter_sublist⟩
          · exact ih _ hr es h
        · exact ih _ hr es h

theorem allMerges_nodup (T : List Entry) : ∀ es ∈ allMerges T, es.Nodup :=
  allMergesGo_nodup T _ _ List.nodup_range

theorem allMergesGo_spec (T : List Entry) (is considered : List Nat) (hv : ∀ i ∈ is, i < T.length) :
    ∀ es ∈ allMergesGo T is considered, (∀ i ∈ es, i < T.length) ∧ SameRoute T es := by
  induction is generalizing considered with
  | nil => intro es h; simp [allMergesGo] at h
  | cons i rest ih =>
    have hvr : ∀ j ∈ rest, j < T.length := fun j hj => hv j (by simp [hj])
    intro es h
    simp only [allMergesGo] at h
    split at h
    · exact ih _ hvr es h
    · split at h
      · exact ih _ hvr es h
      · rename_i e he
        split at h
        · rcases List.mem_cons.mp h with rfl | h
          · constructor
            · intro j hj
              rcases List.mem_cons.mp hj with rfl | hj
              · exact hv j (by simp)
              · exact hvr j (List.mem_filter.mp hj).1
            · have key : ∀ a ∈ members T (i :: rest.filter (fun j => match T[j]? with
                  | some o => e.route == o.route | none => false)), a.route = e.route := by
                intro a ha
                simp only [members, List.mem_filterMap] at ha
                obtain ⟨j, hj, hTj⟩ := ha
                rcases List.mem_cons.mp hj with rfl | hj
                · rw [he] at hTj; cases hTj; rfl
                · have := (List.mem_filter.mp hj).2
                  rw [hTj] at this
                  simp only [beq_iff_eq] at this
                  exact this.symm
              intro a ha b hb
              rw [key a ha, key b hb]
          · exact ih _ hvr es h
        · exact ih _ hvr es h

theorem allMerges_spec (T : List Entry) :
    ∀ es ∈ allMerges T, (∀ i ∈ es, i < T.length) ∧ SameRoute T es :=
  allMergesGo_spec T _ _ (fun i hi => by simpa using hi)

theorem sameRoute_mono {T : List Entry} {es es' : List Nat} (hsub : ∀ i ∈ es', i ∈ es)
    (h : SameRoute T es) : SameRoute T es' :=
  fun a ha b hb => h a (members_subset hsub a ha) b (members_subset hsub b hb)

/-- what `_get_best_merge` hands to `apply` -/
def GoodMerge (T : List Entry) (A : Aliases) (m : Merge) : Prop :=
  ∃ es, m = mkMerge T es ∧ (∀ i ∈ es, i < T.length) ∧ SameRoute T es ∧ UpOk T m ∧ DownOk T A m ∧ es.Nodup

theorem bestLoop_spec (T : List Entry) (A : Aliases) (hs : SortedGen T) (ms : List (List Nat))
    (hms : ∀ es ∈ ms, (∀ i ∈ es, i < T.length) ∧ SameRoute T es ∧ es.Nodup)
    (best : Merge) (bg : Int) (h0 : 0 ≤ bg) (hbest : best.goodness > 0 → GoodMerge T A best)
    (m : Merge) (h : bestLoop T A ms best bg = some m) : m.goodness > 0 → GoodMerge T A m := by
  induction ms generalizing best bg with
  | nil => simp only [bestLoop] at h; cases h; exact hbest
  | cons es rest ih =>
    have hrest : ∀ es ∈ rest, (∀ i ∈ es, i < T.length) ∧ SameRoute T es ∧ es.Nodup :=
      fun x hx => hms x (by simp [hx])
    simp only [bestLoop] at h
    split at h
    · exact ih hrest best bg h0 hbest h
    · split at h
      · cases h
      · rename_i m' hr
        obtain ⟨hv, hsr, hnd⟩ := hms es (by simp)
        obtain ⟨es', rfl, hsub, hok, hnd'⟩ := refineMerge_spec T A bg hs h0 es hv m' hr
        split at h
        · rename_i hg
          refine ih hrest _ _ (by omega) ?_ h
          intro _
          obtain ⟨hu, hd⟩ := hok hg
          exact ⟨es', rfl, fun i hi => hv i (hsub i hi), sameRoute_mono hsub hsr, hu, hd, hnd' hnd⟩
        · exact ih hrest best bg h0 hbest h

/-- **bestMerge_ok.** On a generality-sorted table the merge chosen by `_get_best_merge`, if its
goodness is positive (i.e. if it is going to be applied), passes the up- and down-check, has
valid members sharing one route. -/
theorem bestMerge_spec (T : List Entry) (A : Aliases) (hs : SortedGen T) (m : Merge)
    (h : bestMerge T A = some m) (hg : m.goodness > 0) : GoodMerge T A m := by
  refine bestLoop_spec T A hs _ (fun es he => ⟨(allMerges_spec T es he).1, (allMerges_spec T es he).2, allMerges_nodup T es he⟩) _ 0 (Int.le_refl _) ?_ m h hg
  intro h; rw [mkMerge_goodness] at h; simp at h

end Rig.C04
