/-
C03 - the forest invariant of the dead-link repair loop (`avoid_dead_links`, fixed code: the parent of an
overlapped node is searched in the whole lookup).  Core Lean only.

* `aStar_path_nodup`: an A* path visits no chip twice and does not contain the sink;
* `dfs_sound` / `dfs_cover`: the subtree enumeration is exactly the descendant relation;
* `RInv f R`: `f` is a well-formed forest (one entry per chip, one parent per node, no cycle), closed, whose
  parentless "component roots" include the pairwise distinct chips `R` and every node is below one of them;
* `repairOne_inv`: reconnecting one broken link (any A* outcome, detour through the orphaned subtree included)
  turns `RInv f R` into `RInv f' (R without the orphan)`; `repairAll_inv`: the whole loop, any order.
-/
import RigModel.Model.C03
import RigModel.Lemmas.C03Forest
import RigModel.Lemmas.C03NerValid
import RigModel.Lemmas.C03AStarTotal
import RigModel.Lemmas.C03Surgery
set_option linter.unusedSimpArgs false
set_option linter.unusedVariables false
namespace Rig.C03.L
open Rig.C03 Rig.Gen.C03Links

/-! ### A* paths are simple -/

theorem reconstruct_chips {sink : Chip} {v : Visited} (hv : VStruct sink v) :
    ∀ (c : Chip), v.has c = true → ∀ (fuel : Nat) (r : List (Nat × Chip)), reconstruct v sink fuel c = .ok r →
      (∀ e, e ∈ r → v.has e.2 = true ∧ e.2 ≠ c ∧ e.2 ≠ sink) ∧ (r.map (·.2)).Nodup := by
  induction hv with
  | base =>
    intro c hc fuel r h
    have hcs : sink = c := by simpa [Visited.has] using hc
    subst hcs
    cases fuel with
    | zero => simp [reconstruct] at h
    | succ f => simp [reconstruct, Visited.look, List.find?] at h
  | @cons v n l p hv' hp hn ih =>
    intro c hc fuel r h
    by_cases hnc : n = c
    · subst hnc
      cases fuel with
      | zero => simp [reconstruct] at h
      | succ f =>
        simp only [reconstruct, look_cons, beq_self_eq_true, if_true] at h
        by_cases hps : p = sink
        · simp only [hps, beq_self_eq_true, if_true, pure, Except.pure, Except.ok.injEq] at h
          subst h
          simp
        · have h1 : (p == sink) = false := by simpa using hps
          have hnp : (n == p) = false := by
            cases hh : (n == p) with
            | false => rfl
            | true => have : n = p := by simpa using hh
                      rw [this, hp] at hn; simp at hn
          obtain ⟨d, q, hl, _⟩ := vstruct_look hv' hp hps
          simp only [h1, Bool.false_eq_true, if_false, hnp, hl,
            reconstruct_cons hv' (n, some (l, p)) hn f p hp] at h
          cases hr : reconstruct v sink f p with
          | error e => simp [hr, bind, Except.bind] at h
          | ok r' =>
            simp only [hr, bind, Except.bind, pure, Except.pure, Except.ok.injEq] at h
            subst h
            obtain ⟨a1, a2⟩ := ih p hp f r' hr
            have hnp' : n ≠ p := by simpa using hnp
            refine ⟨?_, ?_⟩
            · intro e he
              simp only [List.mem_cons] at he
              rcases he with rfl | he
              · exact ⟨by rw [has_cons]; simp [hp], fun h => hnp' h.symm, hps⟩
              · obtain ⟨b1, b2, b3⟩ := a1 e he
                refine ⟨by rw [has_cons]; simp [b1], ?_, b3⟩
                intro heq
                rw [heq, hn] at b1; simp at b1
            · simp only [List.map_cons, List.nodup_cons, List.mem_map, not_exists, not_and]
              exact ⟨fun e he heq => (a1 e he).2.1 heq, a2⟩
    · rw [has_cons] at hc
      have h1 : (n == c) = false := by simpa using hnc
      simp only [h1, Bool.false_or] at hc
      rw [reconstruct_cons hv' (n, some (l, p)) hn fuel c hc] at h
      obtain ⟨a1, a2⟩ := ih c hc fuel r h
      refine ⟨?_, a2⟩
      intro e he
      obtain ⟨b1, b2, b3⟩ := a1 e he
      exact ⟨by rw [has_cons]; simp [b1], b2, b3⟩

/-- **An A\* path is simple**: no chip twice, and the sink itself is not on it. -/
theorem aStar_path_nodup (m : Machine) (sink hsrc : Chip) (sources : List Chip) (wrap : Bool)
    (path : List (Nat × Chip)) (hsink : InRange m sink) (hns : sources.contains sink = false)
    (h : aStar sink hsrc sources m wrap = .ok path) :
    (path.map (·.2)).Nodup ∧ sink ∉ path.map (·.2) := by
  unfold aStar at h
  simp only [bind, Except.bind] at h
  have hinit : SearchInv m sink [(sink, none)] [(dist wrap m.w m.h sink hsrc, sink)] := by
    refine ⟨VStruct.base, by simp, ?_, ?_⟩
    · intro c hc; simp at hc; subst hc; exact hsink
    · intro e he; simp at he; subst he; simp [Visited.has]
  obtain ⟨sel, v, hloop, hvs, hsel⟩ := aStarLoop_total (m := m) (sources := sources)
    (heur := fun n => dist wrap m.w m.h n hsrc) (m.w * m.h + 1) _ _ hinit (by simp)
  rw [hloop] at h
  simp only at h
  cases sel with
  | none => simp at h
  | some s =>
    obtain ⟨h1, h2⟩ := hsel s rfl
    have hne : s ≠ sink := by
      intro heq; rw [heq, hns] at h2; simp at h2
    simp only at h
    split at h
    · rename_i d x hl
      cases hr : reconstruct v sink v.length s with
      | error e => simp [hr] at h
      | ok r =>
        simp only [hr, pure, Except.pure, Except.ok.injEq] at h
        subst h
        obtain ⟨a1, a2⟩ := reconstruct_chips hvs s h1 _ r hr
        simp only [List.map_cons, List.nodup_cons, List.mem_cons, List.mem_map, not_exists, not_and, not_or]
        refine ⟨⟨fun e he heq => (a1 e he).2.1 heq, a2⟩, fun h => hne h.symm, fun e he heq => (a1 e he).2.2 heq⟩
    · simp at h
    · simp at h

/-! ### subtree enumeration -/

theorem mapM_ok_mem {α β : Type} {g : α → Except Err β} : ∀ (ks : List α) (ls : List β), ks.mapM g = .ok ls →
    (∀ l, l ∈ ls → ∃ k, k ∈ ks ∧ g k = .ok l) ∧ (∀ k, k ∈ ks → ∃ l, l ∈ ls ∧ g k = .ok l) := by
  intro ks
  induction ks with
  | nil =>
    intro ls h
    simp only [List.mapM_nil, pure, Except.pure, Except.ok.injEq] at h
    subst h
    simp
  | cons k ks ih =>
    intro ls h
    simp only [List.mapM_cons, bind, Except.bind] at h
    split at h
    · simp at h
    · rename_i b hb
      split at h
      · simp at h
      · rename_i bs hbs
        simp only [pure, Except.pure, Except.ok.injEq] at h
        subst h
        obtain ⟨i1, i2⟩ := ih bs hbs
        constructor
        · intro l hl
          simp only [List.mem_cons] at hl
          rcases hl with rfl | hl
          · exact ⟨k, by simp, hb⟩
          · obtain ⟨k', hk', hg⟩ := i1 l hl
            exact ⟨k', by simp [hk'], hg⟩
        · intro k' hk'
          simp only [List.mem_cons] at hk'
          rcases hk' with rfl | hk'
          · exact ⟨b, by simp, hb⟩
          · obtain ⟨l, hl, hg⟩ := i2 k' hk'
            exact ⟨l, by simp [hl], hg⟩

theorem dfs_sound {f : Forest} : ∀ (n : Nat) (c : Chip) (l : List Chip), dfs f n c = .ok l →
    ∀ x, x ∈ l → Below f c x := by
  intro n
  induction n with
  | zero => intro c l h; simp [dfs] at h
  | succ n ih =>
    intro c l h x hx
    simp only [dfs, bind, Except.bind] at h
    split at h
    · simp at h
    · rename_i subs hsubs
      simp only [pure, Except.pure, Except.ok.injEq] at h
      subst h
      simp only [List.mem_cons, List.mem_flatten] at hx
      rcases hx with rfl | ⟨l', hl', hx⟩
      · exact Below.refl
      · obtain ⟨k, hk, hg⟩ := (mapM_ok_mem _ _ hsubs).1 l' hl'
        exact below_trans (Below.step Below.refl (kids_edge hk)) (ih _ _ hg x hx)

theorem dfs_cover {f : Forest} (hkeys : f.keys.Nodup) : ∀ (n : Nat) (c : Chip) (l : List Chip),
    dfs f n c = .ok l → ∀ x, Below f c x → x ∈ l := by
  intro n
  induction n with
  | zero => intro c l h; simp [dfs] at h
  | succ n ih =>
    intro c l h x hx
    simp only [dfs, bind, Except.bind] at h
    split at h
    · simp at h
    · rename_i subs hsubs
      simp only [pure, Except.pure, Except.ok.injEq] at h
      subst h
      simp only [List.mem_cons, List.mem_flatten]
      rcases below_head hx with rfl | ⟨k, hk, hb⟩
      · exact Or.inl rfl
      · obtain ⟨l', hl', hg⟩ := (mapM_ok_mem _ _ hsubs).2 k (edge_kids hkeys hk)
        exact Or.inr ⟨l', hl', ih _ _ hg x hb⟩

/-! ### descendant relation under the surgery -/

theorem below_key {f : Forest} (hc : ClosedF f) {a x : Chip} (ha : a ∈ f.keys) (h : Below f a x) :
    x ∈ f.keys := by
  induction h with
  | refl => exact ha
  | step _ he _ => exact hc _ _ he

/-- a descent in the forest with the parent edge of `c` removed either survives or is a descent from `c` -/
theorem below_detach_split {f g : Forest} {c : Chip} (hkeep : ∀ q k, Edge f q k → k.2 ≠ c → Edge g q k)
    {r x : Chip} (h : Below f r x) : Below g r x ∨ Below g c x := by
  induction h with
  | refl => exact Or.inl Below.refl
  | @step p k _ he ih =>
    by_cases hkc : k.2 = c
    · rw [hkc]; exact Or.inr Below.refl
    · rcases ih with ih | ih
      · exact Or.inl (Below.step ih (hkeep _ _ he hkc))
      · exact Or.inr (Below.step ih (hkeep _ _ he hkc))

/-- a descent in the forest with the extra edge `p → c` either avoids it or goes down to `p` first -/
theorem below_addChild_split {g : Forest} {p : Chip} {e : Nat × Chip} {x y : Chip}
    (h : Below (g.addChild p e) x y) : Below g x y ∨ (Below g x p ∧ Below g e.2 y) := by
  induction h with
  | refl => exact Or.inl Below.refl
  | @step p0 k _ he ih =>
    rcases edge_addChild_inv he with he | ⟨rfl, rfl⟩
    · rcases ih with ih | ⟨i1, i2⟩
      · exact Or.inl (Below.step ih he)
      · exact Or.inr ⟨i1, Below.step i2 he⟩
    · rcases ih with ih | ⟨i1, i2⟩
      · exact Or.inr ⟨ih, Below.refl⟩
      · exact Or.inr ⟨i1, Below.refl⟩

theorem below_addChild_mono {g : Forest} {p : Chip} {e : Nat × Chip} {x y : Chip} (h : Below g x y) :
    Below (g.addChild p e) x y :=
  below_mono (fun _ _ he => edge_addChild_old he) h

/-! ### the invariants -/

/-- forest invariant of the repair loop; `R` = the tree root and the heads of the broken links not yet
reconnected -/
structure RInv (f : Forest) (R : List Chip) : Prop where
  wf : ∃ rank, WF f rank
  closed : ClosedF f
  rootsNodup : R.Nodup
  roots : ∀ r, r ∈ R → r ∈ f.keys ∧ NoParent f r
  conn : ∀ x, x ∈ f.keys → ∃ r, r ∈ R ∧ Below f r x

/-- invariant of the loop over the A* path (`rem` = the part of the path still to be merged) -/
structure SInv (R : List Chip) (child : Chip) (childChips : List Chip) (st : RepairState)
    (rem : List (Nat × Chip)) : Prop where
  wf : ∃ rank, WF st.f rank
  closed : ClosedF st.f
  roots : ∀ r, r ∈ R → r ∈ st.f.keys ∧ NoParent st.f r
  conn : ∀ x, x ∈ st.f.keys → ∃ r, r ∈ R ∧ Below st.f r x
  lastKey : st.last ∈ st.f.keys
  anc : ∀ x, Below st.f x st.last → x ≠ child ∧ x ∉ rem.map (·.2)
  memKeys : ∀ e, e ∈ rem → childChips.contains e.2 = true → e.2 ∈ st.f.keys
  fresh : ∀ e, e ∈ rem → childChips.contains e.2 = false → e.2 ∉ st.f.keys

theorem repairStep_fixed (child : Chip) (childChips : List Chip) (st : RepairState) (e : Nat × Chip) :
    repairStep false child childChips st e =
      if !childChips.contains e.2 then
        (if st.f.has e.2 then .error .assertFail
         else .ok { f := (st.f.insertNew e.2).addChild st.last (st.lastDir, e.2), last := e.2, lastDir := e.1 })
      else .ok { f := (detachIn st.f e.2 st.f.keys).addChild st.last (st.lastDir, e.2), last := e.2,
                 lastDir := e.1 } := by
  unfold repairStep
  simp only [bind, Except.bind, pure, Except.pure, Bool.false_eq_true, if_false]

/-- common part of the two branches: hanging the parentless chip `c` below `last` -/
theorem sinv_hang {R : List Chip} {child : Chip} {childChips : List Chip} {st : RepairState}
    {d : Nat} {c : Chip} {rest : List (Nat × Chip)} {g : Forest}
    (hs : SInv R child childChips st ((d, c) :: rest))
    (hnd : (((d, c) :: rest).map (·.2)).Nodup) (hR : c ∉ R) (hchild : child ∈ R)
    (gwf : ∃ rank, WF g rank) (gnp : NoParent g c) (gck : c ∈ g.keys)
    (gkeys : ∀ x, x ∈ st.f.keys → x ∈ g.keys) (gkeys' : ∀ x, x ∈ g.keys → x ∈ st.f.keys ∨ x = c)
    (gsub : ∀ q k, Edge g q k → Edge st.f q k)
    (gsplit : ∀ r x, Below st.f r x → Below g r x ∨ Below g c x) :
    SInv R child childChips { f := g.addChild st.last (st.lastDir, c), last := c, lastDir := d } rest := by
  have gbelow : ∀ a x, Below g a x → Below st.f a x := fun a x h => below_mono gsub h
  have hcrem : c ∈ ((d, c) :: rest).map (·.2) := by simp
  have hnb : ¬ Below g c st.last := fun h => (hs.anc c (gbelow _ _ h)).2 hcrem
  obtain ⟨rank, hw⟩ := gwf
  have hlastg : st.last ∈ g.keys := gkeys _ hs.lastKey
  -- `last` is below a root that is not the orphan
  obtain ⟨r0, hr0, hr0b⟩ := hs.conn _ hs.lastKey
  have hr0g : Below g r0 st.last := by
    rcases gsplit _ _ hr0b with h | h
    · exact h
    · exact absurd h hnb
  have hedge : Edge (g.addChild st.last (st.lastDir, c)) st.last (st.lastDir, c) := edge_addChild_new hlastg
  refine ⟨wf_addEdge hw st.lastDir gnp hnb, ?_, ?_, ?_, ?_, ?_, ?_, ?_⟩
  · intro q k he
    rw [keys_addChild]
    rcases edge_addChild_inv he with he | ⟨rfl, rfl⟩
    · exact gkeys _ (hs.closed _ _ (gsub _ _ he))
    · exact gck
  · intro r hr
    refine ⟨by rw [keys_addChild]; exact gkeys _ (hs.roots r hr).1, ?_⟩
    intro q k he hk
    rcases edge_addChild_inv he with he | ⟨rfl, rfl⟩
    · exact (hs.roots r hr).2 _ _ (gsub _ _ he) hk
    · exact hR (by rw [← hk] at hr; exact hr)
  · intro x hx
    rw [keys_addChild] at hx
    have hcb : Below (g.addChild st.last (st.lastDir, c)) r0 c :=
      Below.step (below_addChild_mono hr0g) hedge
    rcases gkeys' x hx with hx | rfl
    · obtain ⟨r, hr, hb⟩ := hs.conn x hx
      rcases gsplit _ _ hb with h | h
      · exact ⟨r, hr, below_addChild_mono h⟩
      · exact ⟨r0, hr0, below_trans hcb (below_addChild_mono h)⟩
    · exact ⟨r0, hr0, hcb⟩
  · show c ∈ (g.addChild st.last (st.lastDir, c)).keys
    rw [keys_addChild]; exact gck
  · intro x hx
    show x ≠ child ∧ x ∉ rest.map (·.2)
    simp only [List.map_cons, List.nodup_cons] at hnd
    have hlast : Below g x st.last → x ≠ child ∧ x ∉ rest.map (·.2) := by
      intro h
      have := hs.anc x (gbelow _ _ h)
      exact ⟨this.1, fun hm => this.2 (by simp only [List.map_cons, List.mem_cons]; exact Or.inr hm)⟩
    rcases below_tail hx with rfl | ⟨p0, k0, hp0, hk0, hk0c⟩
    · exact ⟨fun h => hR (by rw [h]; exact hchild), hnd.1⟩
    · rcases edge_addChild_inv hk0 with hk0 | ⟨rfl, rfl⟩
      · exact absurd hk0c (gnp _ _ hk0)
      · rcases below_addChild_split hp0 with h | ⟨h, _⟩
        · exact hlast h
        · exact hlast h
  · intro e he hc
    show e.2 ∈ (g.addChild st.last (st.lastDir, c)).keys
    rw [keys_addChild]
    exact gkeys _ (hs.memKeys e (by simp [he]) hc)
  · intro e he hc
    show e.2 ∉ (g.addChild st.last (st.lastDir, c)).keys
    rw [keys_addChild]
    intro hk
    simp only [List.map_cons, List.nodup_cons] at hnd
    rcases gkeys' _ hk with hk | hk
    · exact hs.fresh e (by simp [he]) hc hk
    · exact hnd.1 (by rw [← hk]; exact List.mem_map_of_mem he)

/-- **`repairStep` (fixed code) preserves the invariant**, whether the path chip is new ground or a node of
the orphaned subtree (which is then cut from its parent and re-hung on the detour). -/
theorem repairStep_inv {R : List Chip} {child : Chip} {childChips : List Chip} {st st' : RepairState}
    {d : Nat} {c : Chip} {rest : List (Nat × Chip)}
    (hs : SInv R child childChips st ((d, c) :: rest))
    (hnd : (((d, c) :: rest).map (·.2)).Nodup) (hR : c ∉ R) (hchild : child ∈ R)
    (h : repairStep false child childChips st (d, c) = .ok st') :
    SInv R child childChips st' rest := by
  rw [repairStep_fixed] at h
  obtain ⟨rank, hw⟩ := hs.wf
  split at h
  · -- new ground
    split at h
    · simp at h
    · rename_i hhas
      simp only [Except.ok.injEq] at h
      subst h
      have hck : c ∉ st.f.keys := by
        intro hk; exact hhas ((has_iff _ _).2 hk)
      refine sinv_hang (g := st.f.insertNew c) hs hnd hR hchild ⟨rank, wf_insertNew hw hck⟩ ?_ ?_ ?_ ?_ ?_ ?_
      · intro q k he hk
        exact hck (by rw [← hk]; exact hs.closed _ _ (edge_insertNew.1 he))
      · rw [keys_insertNew]; simp
      · intro x hx; rw [keys_insertNew]; simp [hx]
      · intro x hx; rw [keys_insertNew] at hx; simpa using hx
      · intro q k he; exact edge_insertNew.1 he
      · intro r x hb; exact Or.inl (below_insertNew.2 hb)
  · -- a node of the orphaned subtree
    rename_i hcc
    simp only [Except.ok.injEq] at h
    subst h
    have hcc' : childChips.contains c = true := by simpa using hcc
    obtain ⟨d1, d2, d3, d4, d5⟩ := detach_spec hw c
    have hck : c ∈ st.f.keys := hs.memKeys (d, c) (by simp) hcc'
    refine sinv_hang (g := detachIn st.f c st.f.keys) hs hnd hR hchild ⟨rank, d1⟩ d2 (by rw [d3]; exact hck)
      (by intro x hx; rw [d3]; exact hx) (by intro x hx; rw [d3] at hx; exact Or.inl hx) d4 ?_
    intro r x hb
    exact below_detach_split d5 hb

theorem repairFold_inv {R : List Chip} {child : Chip} {childChips : List Chip} (hchild : child ∈ R) :
    ∀ (rest : List (Nat × Chip)) (st st' : RepairState), SInv R child childChips st rest →
      (rest.map (·.2)).Nodup → (∀ e, e ∈ rest → e.2 ∉ R) →
      rest.foldlM (repairStep false child childChips) st = .ok st' → SInv R child childChips st' [] := by
  intro rest
  induction rest with
  | nil =>
    intro st st' hs _ _ h
    simp only [List.foldlM, pure, Except.pure, Except.ok.injEq] at h
    subst h; exact hs
  | cons e r ih =>
    intro st st' hs hnd hR h
    obtain ⟨d, c⟩ := e
    simp only [List.foldlM, bind, Except.bind] at h
    split at h
    · simp at h
    · rename_i st1 h1
      have hs1 := repairStep_inv hs hnd (hR (d, c) (by simp)) hchild h1
      simp only [List.map_cons, List.nodup_cons] at hnd
      exact ih st1 st' hs1 hnd.2 (fun e he => hR e (by simp [he])) h

/-- the A* sources of one repair = the entries outside the orphaned subtree -/
theorem sources_spec {f : Forest} {rank : Chip → Nat} (hw : WF f rank) {child : Chip} {cc : List Chip}
    (hcc : dfs f (f.length + 1) child = .ok cc) :
    (∀ x, x ∈ f.keys.filter (fun c => !cc.contains c) ↔ x ∈ f.keys ∧ ¬ Below f child x) ∧
    (f.keys.filter fun c => !cc.contains c).contains child = false := by
  have hsound := dfs_sound _ _ _ hcc
  have hcover := dfs_cover hw.keys _ _ _ hcc
  have hsrc : ∀ x, x ∈ f.keys.filter (fun c => !cc.contains c) ↔ x ∈ f.keys ∧ ¬ Below f child x := by
    intro x
    simp only [List.mem_filter, Bool.not_eq_true', List.contains_eq_mem, decide_eq_false_iff_not]
    constructor
    · rintro ⟨a, b⟩; exact ⟨a, fun hb => b (hcover x hb)⟩
    · rintro ⟨a, b⟩; exact ⟨a, fun hb => b (hsound x hb)⟩
  refine ⟨hsrc, ?_⟩
  rw [Bool.eq_false_iff]
  intro hc
  simp only [List.contains_iff_mem] at hc
  exact ((hsrc _).1 hc).2 Below.refl

/-- the state before the loop over the A* path satisfies the path-loop invariant -/
theorem repair_init {m : Machine} {wrap : Bool} {f : Forest} {pc : Chip × Chip} {R : List Chip}
    {cc : List Chip} {d0 : Nat} {c0 : Chip} {rest : List (Nat × Chip)}
    (hi : RInv f R) (hchild : pc.2 ∈ R) (hlive : chipOk m pc.2 = true)
    (hcc : dfs f (f.length + 1) pc.2 = .ok cc)
    (hp : aStar pc.2 pc.1 (f.keys.filter fun c => !cc.contains c) m wrap = .ok ((d0, c0) :: rest)) :
    SInv R pc.2 cc { f := f, last := c0, lastDir := d0 } rest ∧ (rest.map (·.2)).Nodup ∧
      ∀ e, e ∈ rest → e.2 ∉ R := by
  obtain ⟨rank, hw⟩ := hi.wf
  have hsound := dfs_sound _ _ _ hcc
  have hcover := dfs_cover hw.keys _ _ _ hcc
  obtain ⟨hsrc, hns⟩ := sources_spec hw hcc
  have hinr := chipOk_inRange hlive
  have hpok := aStar_path _ _ _ _ _ _ hinr hp
  obtain ⟨hpnd, hpsink⟩ := aStar_path_nodup _ _ _ _ _ _ hinr hns hp
  simp only [pathOk, Bool.and_eq_true] at hpok
  have hp2 := hpok.2
  simp only [Bool.and_eq_true, List.contains_iff_mem, List.all_eq_true, Bool.not_eq_true',
    Bool.eq_false_iff] at hp2
  obtain ⟨hc0, hrest⟩ := hp2
  have hc0' := (hsrc c0).1 hc0
  simp only [List.map_cons, List.nodup_cons, List.mem_cons, not_or] at hpnd hpsink
  -- chips of the rest of the path that have an entry are in the orphaned subtree
  have hrestB : ∀ e, e ∈ rest → e.2 ∈ f.keys → Below f pc.2 e.2 := by
    intro e he hk
    apply Classical.byContradiction
    intro hnb
    exact hrest e he (List.contains_iff_mem.2 ((hsrc e.2).2 ⟨hk, hnb⟩))
  have hrestR : ∀ e, e ∈ rest → e.2 ∉ R := by
    intro e he hr
    have hk := (hi.roots _ hr).1
    have hb := hrestB e he hk
    rcases below_tail hb with heq | ⟨p0, k0, _, hk0, hk0e⟩
    · exact hpsink.2 (by rw [heq]; exact List.mem_map_of_mem he)
    · exact (hi.roots _ hr).2 _ _ hk0 hk0e
  refine ⟨⟨⟨rank, hw⟩, hi.closed, hi.roots, hi.conn, hc0'.1, ?_, ?_, ?_⟩, hpnd.2, hrestR⟩
  · intro x hx
    simp only at hx
    refine ⟨?_, ?_⟩
    · intro heq; subst heq; exact hc0'.2 hx
    · intro hm
      simp only [List.mem_map] at hm
      obtain ⟨e, he, rfl⟩ := hm
      rcases below_head hx with heq | ⟨k, hk, _⟩
      · exact hpnd.1 (by rw [← heq]; exact List.mem_map_of_mem he)
      · exact hc0'.2 (below_trans (hrestB e he (edge_key hk)) hx)
  · intro e he hc
    simp only [List.contains_iff_mem] at hc
    exact below_key hi.closed (hi.roots _ hchild).1 (hsound _ hc)
  · intro e he hc hk
    have hb := hrestB e he hk
    have := hcover _ hb
    rw [← List.contains_iff_mem, hc] at this
    simp at this

/-- hanging the orphan below the end of the merged detour re-establishes the forest invariant -/
theorem repair_finish {R R' : List Chip} {child : Chip} {cc : List Chip} {st' : RepairState}
    (hchild : child ∈ R) (hR'n : R'.Nodup) (hR' : ∀ r, r ∈ R' ↔ r ∈ R ∧ r ≠ child)
    (hfin : SInv R child cc st' []) : RInv (st'.f.addChild st'.last (st'.lastDir, child)) R' := by
  obtain ⟨rank', hw'⟩ := hfin.wf
  have hnb : ¬ Below st'.f child st'.last := fun hb => (hfin.anc _ hb).1 rfl
  obtain ⟨r0, hr0, hr0b⟩ := hfin.conn _ hfin.lastKey
  have hr0ne : r0 ≠ child := (hfin.anc _ hr0b).1
  have hedge := edge_addChild_new (e := (st'.lastDir, child)) hfin.lastKey
  refine ⟨wf_addEdge hw' st'.lastDir (hfin.roots _ hchild).2 hnb, ?_, hR'n, ?_, ?_⟩
  · intro q k he
    rw [keys_addChild]
    rcases edge_addChild_inv he with he | ⟨rfl, rfl⟩
    · exact hfin.closed _ _ he
    · exact (hfin.roots _ hchild).1
  · intro r hr
    obtain ⟨hrR, hrne⟩ := (hR' r).1 hr
    refine ⟨by rw [keys_addChild]; exact (hfin.roots r hrR).1, ?_⟩
    intro q k he hk
    rcases edge_addChild_inv he with he | ⟨rfl, rfl⟩
    · exact (hfin.roots r hrR).2 _ _ he hk
    · exact hrne hk.symm
  · intro x hx
    rw [keys_addChild] at hx
    obtain ⟨r, hr, hb⟩ := hfin.conn x hx
    by_cases hrc : r = child
    · subst hrc
      exact ⟨r0, (hR' r0).2 ⟨hr0, hr0ne⟩,
        below_trans (Below.step (below_addChild_mono hr0b) hedge) (below_addChild_mono hb)⟩
    · exact ⟨r, (hR' r).2 ⟨hr, hrc⟩, below_addChild_mono hb⟩

/-- **One broken link.**  Reconnecting the orphan `pc.2` (a component root) keeps the forest invariant and
removes the orphan from the set of component roots - for every A* outcome. -/
theorem repairOne_inv {m : Machine} {wrap : Bool} {f f' : Forest} {pc : Chip × Chip}
    {path : List (Nat × Chip)} {R R' : List Chip} (hi : RInv f R) (hchild : pc.2 ∈ R)
    (hlive : chipOk m pc.2 = true) (hR'n : R'.Nodup) (hR' : ∀ r, r ∈ R' ↔ r ∈ R ∧ r ≠ pc.2)
    (h : repairOne m wrap false f pc = .ok (f', path)) : RInv f' R' := by
  unfold repairOne at h
  simp only [bind, Except.bind] at h
  split at h
  · simp at h
  · rename_i cc hcc
    split at h
    · simp at h
    · rename_i p hp
      split at h
      · simp at h
      · rename_i d0 c0 rest
        split at h
        · simp at h
        · rename_i st' hfold
          simp only [pure, Except.pure, Except.ok.injEq, Prod.mk.injEq] at h
          obtain ⟨rfl, _⟩ := h
          obtain ⟨hinit, hnd, hrestR⟩ := repair_init hi hchild hlive hcc hp
          exact repair_finish hchild hR'n hR' (repairFold_inv hchild rest _ st' hinit hnd hrestR hfold)

/-- **The whole repair loop**, for every processing order of the broken links and every A* outcome: from the
invariant with component roots `root :: heads of the broken links` to the invariant with the single root. -/
theorem repairAll_inv {m : Machine} {wrap : Bool} (root : Chip) :
    ∀ (order : List (Chip × Chip)) (f : Forest) (ps : List (List (Nat × Chip))) (f' : Forest)
      (ps' : List (List (Nat × Chip))), RInv f (root :: order.map (·.2)) →
      (∀ pc, pc ∈ order → chipOk m pc.2 = true) →
      repairAll m wrap false order f ps = .ok (f', ps') → RInv f' [root] := by
  intro order
  induction order with
  | nil =>
    intro f ps f' ps' hi _ h
    simp only [repairAll, pure, Except.pure, Except.ok.injEq, Prod.mk.injEq] at h
    obtain ⟨rfl, _⟩ := h
    exact hi
  | cons pc r ih =>
    intro f ps f' ps' hi ho h
    simp only [repairAll, bind, Except.bind] at h
    split at h
    · simp at h
    · rename_i res hres
      obtain ⟨f1, p1⟩ := res
      have hnd := hi.rootsNodup
      simp only [List.map_cons, List.nodup_cons, List.mem_cons, not_or] at hnd
      have h1 : RInv f1 (root :: r.map (·.2)) := by
        refine repairOne_inv hi (by simp) (ho pc (by simp)) ?_ ?_ hres
        · simp only [List.nodup_cons]; exact ⟨hnd.1.2, hnd.2.2⟩
        · intro x
          simp only [List.map_cons, List.mem_cons]
          constructor
          · rintro (rfl | hx)
            · exact ⟨Or.inl rfl, hnd.1.1⟩
            · exact ⟨Or.inr (Or.inr hx), fun heq => hnd.2.1 (by rw [← heq]; exact hx)⟩
          · rintro ⟨rfl | rfl | hx, hne⟩
            · exact Or.inl rfl
            · exact absurd rfl hne
            · exact Or.inr hx
      exact ih _ _ _ _ h1 (fun pc' h' => ho pc' (by simp [h'])) h

end Rig.C03.L
