/-
C02 - the chip scan of the sequential placer stops within one round of the chip cycle.
-/
import RigModel.Lemmas.C02Basic
set_option linter.unusedSimpArgs false
set_option linter.unusedVariables false

namespace Rig.C02

theorem scan_no_fuel (chips : List Chip) (m : Machine) (d : Res) (last : Chip) :
    ∀ (fuel pos : Nat), (∃ k, 1 ≤ k ∧ k ≤ fuel ∧ chipAt chips (pos + k) = last) →
      scan chips m d last fuel pos ≠ .failed .fuel := by
  intro fuel
  induction fuel with
  | zero => intro pos ⟨k, h1, h2, _⟩; omega
  | succ n ih =>
    intro pos ⟨k, h1, h2, h3⟩
    simp only [scan]
    split
    · simp
    · split
      · simp
      · split
        · simp
        · rename_i hne
          apply ih
          refine ⟨k - 1, ?_, by omega, ?_⟩
          · rcases Nat.lt_or_ge 1 k with h | h
            · omega
            · have : k = 1 := by omega
              subst this; exact absurd h3 hne
          · have : pos + 1 + (k - 1) = pos + k := by omega
            rw [this]; exact h3

theorem chipAt_add_length (chips : List Chip) (pos : Nat) :
    chipAt chips (pos + chips.length) = chipAt chips pos := by
  simp [chipAt]

theorem scan_terminates (chips : List Chip) (hne : chips ≠ []) (m : Machine) (d : Res) (pos : Nat) :
    scan chips m d (chipAt chips pos) chips.length pos ≠ .failed .fuel := by
  apply scan_no_fuel
  have : 0 < chips.length := List.length_pos_iff.2 hne
  exact ⟨chips.length, by omega, by omega, chipAt_add_length chips pos⟩

theorem seqLoop_no_fuel (vr : VR) (chips : List Chip) (hne : chips ≠ []) :
    ∀ (vs : List Vtx) (pos : Nat) (m : Machine) (p : Placement), seqLoop vr chips vs pos m p ≠ .error .fuel := by
  intro vs
  induction vs with
  | nil => intro pos m p; simp [seqLoop]
  | cons v vs ih =>
    intro pos m p
    simp only [seqLoop]
    split
    · exact ih _ _ _
    · split
      · simp
      · split
        · rename_i e hsc
          intro he; injection he with he; subst he
          exact scan_terminates chips hne m _ pos hsc
        · split
          · simp
          · exact ih _ _ _

/-! the other phases have no `fuel` outcome at all -/

theorem popAll_no_fuel : ∀ (l : List Vtx) (vr : VR) (tot : Res), popAll vr l tot ≠ .error .fuel := by
  intro l
  induction l with
  | nil => intro vr tot; simp [popAll]
  | cons v vs ih =>
    intro vr tot; simp only [popAll]; split
    · simp
    · exact ih _ _

theorem applySameLoop_no_fuel : ∀ (n i : Nat) (vr : VR) (cs : List Constraint) (subs : List (List Vtx)),
    applySameLoop n i vr cs subs ≠ .error .fuel := by
  intro n
  induction n with
  | zero => intro i vr cs subs; simp [applySameLoop]
  | succ n ih =>
    intro i vr cs subs
    simp only [applySameLoop]
    split
    · split
      · exact ih _ _ _ _
      · split
        · rename_i e he
          intro h; injection h with h; subst h
          exact popAll_no_fuel _ _ _ he
        · exact ih _ _ _ _
    · exact ih _ _ _ _

theorem reserveExc_no_fuel (m : Machine) (r : Nat) (amt : Int) :
    ∀ (rest done : List (Chip × Res)), reserveExc m r amt done rest ≠ .error .fuel := by
  intro rest
  induction rest with
  | nil => intro done; simp [reserveExc]
  | cons hd t ih =>
    obtain ⟨c, res⟩ := hd
    intro done
    simp only [reserveExc]
    split
    · simp
    · split
      · simp
      · exact ih _

theorem applyReserve_no_fuel (m : Machine) (r : Nat) (amt : Int) (at_ : Option Chip) :
    applyReserve m r amt at_ ≠ .error .fuel := by
  cases at_ with
  | none =>
    simp only [applyReserve]
    split
    · simp
    · split
      · simp
      · simp only [bind, Except.bind, pure, Except.pure]
        split
        · rename_i e he
          intro h; injection h with h; subst h
          exact reserveExc_no_fuel m r amt _ _ he
        · simp
  | some c =>
    simp only [applyReserve]
    split
    · simp
    · split
      · simp
      · split
        · simp
        · split <;> simp

theorem prepareLoop_no_fuel (vr : VR) : ∀ (cs : List Constraint) (m : Machine) (p : Placement),
    prepareLoop vr cs m p ≠ .error .fuel := by
  intro cs
  induction cs with
  | nil => intro m p; simp [prepareLoop]
  | cons k cs ih =>
    intro m p
    cases k with
    | loc v c =>
      simp only [prepareLoop]
      split
      · simp
      · split
        · simp
        · split
          · simp
          · split
            · simp
            · split
              · simp
              · exact ih _ _
    | reserve r amt at_ =>
      simp only [prepareLoop, bind, Except.bind]
      split
      · rename_i e he
        intro h; injection h with h; subst h
        exact applyReserve_no_fuel _ _ _ _ he
      · exact ih _ _
    | same vs => simp only [prepareLoop]; exact ih _ _
    | endpoint v => simp only [prepareLoop]; exact ih _ _
    | other => simp only [prepareLoop]; exact ih _ _

theorem removeRest_no_fuel : ∀ (tl vo removed : List Vtx), removeRest vo tl removed ≠ .error .fuel := by
  intro tl
  induction tl with
  | nil => intro vo removed; simp [removeRest]
  | cons v t ih =>
    intro vo removed
    simp only [removeRest]
    split
    · exact ih _ _
    · split
      · exact ih _ _
      · simp

theorem substOrder_no_fuel : ∀ (subs : List (List Vtx)) (k : Nat) (vo : List Vtx),
    substOrder k subs vo ≠ .error .fuel := by
  intro subs
  induction subs with
  | nil => intro k vo; simp [substOrder]
  | cons vs rest ih =>
    intro k vo
    simp only [substOrder]
    split
    · simp
    · split
      · simp
      · simp only [bind, Except.bind]
        split
        · rename_i e he
          intro h; injection h with h; subst h
          exact removeRest_no_fuel _ _ _ he
        · exact ih _ _

theorem finaliseFrom_no_fuel : ∀ (subs : List (List Vtx)) (base : Nat) (p : Placement),
    finaliseFrom base subs p ≠ .error .fuel := by
  intro subs
  induction subs with
  | nil => intro base p; simp [finaliseFrom]
  | cons vs rest ih =>
    intro base p
    simp only [finaliseFrom, bind, Except.bind]
    split
    · rename_i e he
      intro h; injection h with h; subst h
      exact ih _ _ he
    · simp only [expandOne]
      split <;> simp

end Rig.C02
