/-
C03 - `copy_and_disconnect_tree` on a well-formed tree never fails (no chip is visited twice, the loop ends
within `len + 1` iterations) and keeps every working chip of the tree.  Ghost state: the list of old chips
already taken from the queue.
-/
import RigModel.Model.C03
import RigModel.Lemmas.C03RepairValid
set_option linter.unusedSimpArgs false
set_option linter.unusedVariables false
namespace Rig.C03.L
open Rig.C03 Rig.Gen.C03Links

abbrev QE := Option Chip × Nat × Chip
def qchips (q : List QE) : List Chip := q.map (·.2.2)

theorem qchips_push (q : List QE) (nn : Chip) (ks : List (Nat × Chip)) :
    qchips (q ++ ks.map fun e => (some nn, e.1, e.2)) = qchips q ++ ks.map (·.2) := by
  simp [qchips, List.map_append, List.map_map, Function.comp_def]

structure GInv (old : Forest) (root : Chip) (m : Machine) (seen : List Chip) (q : List QE) (st : CopyState) :
    Prop where
  nd : (seen ++ qchips q).Nodup
  sub : ∀ x, x ∈ seen ++ qchips q → x ∈ old.keys
  par : ∀ x, x ∈ seen ++ qchips q → x = root ∨ ∃ p k, p ∈ seen ∧ Edge old p k ∧ k.2 = x
  keysSeen : ∀ x, x ∈ st.lookup.keys → x ∈ seen
  seenKeys : ∀ x, x ∈ seen → chipOk m x = true → x ∈ st.lookup.keys
  qsome : ∀ e, e ∈ q → ∃ p, e.1 = some p
  cover : ∀ x, Below old root x → x ∈ seen ∨ ∃ y, y ∈ qchips q ∧ Below old y x

theorem visit_some_total {m : Machine} {st : CopyState} {p : Chip} {dir : Nat} {c : Chip}
    (hc : c ∉ st.lookup.keys) :
    ∃ nn st1, st.visit m (some p) dir c = .ok (nn, st1) ∧
      ∀ x, x ∈ st1.lookup.keys ↔ x ∈ st.lookup.keys ∨ (x = c ∧ chipOk m c = true) := by
  have hh : st.lookup.has c = false := by
    rw [Bool.eq_false_iff]; intro h; exact hc ((has_iff _ _).1 h)
  unfold CopyState.visit
  cases hok : chipOk m c with
  | true =>
    simp only [if_true, hh, Bool.false_eq_true, if_false]
    split
    · refine ⟨_, _, rfl, ?_⟩
      intro x; simp only; rw [keys_addChild, keys_insertNew]; simp
    · refine ⟨_, _, rfl, ?_⟩
      intro x; simp only; rw [keys_insertNew]; simp
  | false =>
    simp only [Bool.false_eq_true, if_false]
    exact ⟨_, _, rfl, by intro x; simp⟩

theorem copyLoop_total {old : Forest} {rank : Chip → Nat} {root : Chip} {m : Machine} (hw : WF old rank)
    (hkk : ClosedF old) (hnp : NoParent old root) :
    ∀ (fuel : Nat) (seen : List Chip) (q : List QE) (st : CopyState), GInv old root m seen q st →
      old.length + 1 ≤ fuel + seen.length →
      ∃ st', copyLoop old m fuel q st = .ok st' ∧
        ∀ x, Below old root x → chipOk m x = true → x ∈ st'.lookup.keys := by
  intro fuel
  induction fuel with
  | zero =>
    intro seen q st hg hf
    cases q with
    | nil =>
      refine ⟨st, rfl, ?_⟩
      intro x hx hok
      rcases hg.cover x hx with h | ⟨y, hy, _⟩
      · exact hg.seenKeys x h hok
      · simp [qchips] at hy
    | cons e q =>
      exfalso
      have := (List.Nodup.subperm hg.nd hg.sub).length_le
      simp [qchips, Forest.keys] at this
      omega
  | succ fuel ih =>
    intro seen q st hg hf
    cases q with
    | nil =>
      refine ⟨st, rfl, ?_⟩
      intro x hx hok
      rcases hg.cover x hx with h | ⟨y, hy, _⟩
      · exact hg.seenKeys x h hok
      · simp [qchips] at hy
    | cons e q =>
      obtain ⟨np, dir, c⟩ := e
      obtain ⟨p, hp⟩ := hg.qsome (np, dir, c) (by simp)
      simp only at hp
      subst hp
      have hnd := hg.nd
      simp only [qchips, List.map_cons] at hnd
      rw [List.nodup_append] at hnd
      obtain ⟨n1, n2, n3⟩ := hnd
      simp only [List.nodup_cons] at n2
      have hcs : c ∉ seen := fun h => n3 c h c (by simp) rfl
      have hck : c ∉ st.lookup.keys := fun h => hcs (hg.keysSeen c h)
      obtain ⟨nn, st1, hvis, hkeys⟩ := visit_some_total (m := m) (p := p) (dir := dir) hck
      have hcold : c ∈ old.keys := hg.sub c (by simp [qchips])
      -- the new ghost state
      have hg' : GInv old root m (seen ++ [c]) (q ++ (old.kids c).map fun e => (some nn, e.1, e.2)) st1 := by
        have hkid : ∀ k, k ∈ old.kids c → Edge old c k := fun k hk => kids_edge hk
        have hfresh : ∀ k, k ∈ old.kids c → k.2 ∉ seen ++ c :: qchips q := by
          intro k hk hmem
          have hmem' : k.2 ∈ seen ++ qchips ((some p, dir, c) :: q) := by simpa [qchips] using hmem
          rcases hg.par _ hmem' with h | ⟨p', k', hp', he', hk'⟩
          · exact hnp _ _ (hkid k hk) h
          · have : p' = c := parent_unique hw he' (hkid k hk) hk'
            subst this
            exact hcs hp'
        refine ⟨?_, ?_, ?_, ?_, ?_, ?_, ?_⟩
        · rw [qchips_push]
          have e1 : seen ++ [c] ++ (qchips q ++ (old.kids c).map (·.2)) =
              (seen ++ c :: qchips q) ++ (old.kids c).map (·.2) := by simp [List.append_assoc]
          rw [e1, List.nodup_append]
          refine ⟨by simpa [qchips] using hg.nd, ?_, ?_⟩
          · rcases kids_eq old c with h | ⟨n, hn, _, h⟩
            · rw [h]; simp
            · rw [h]; exact hw.kidsNodup n hn
          · intro a ha b hb hab
            simp only [List.mem_map] at hb
            obtain ⟨k, hk, rfl⟩ := hb
            subst hab
            exact hfresh k hk ha
        · intro x hx
          rw [qchips_push] at hx
          simp only [List.mem_append, List.mem_singleton, List.mem_map] at hx
          rcases hx with (hx | hxc) | hx | ⟨k, hk, hxk⟩
          · exact hg.sub x (by simp [hx])
          · rw [hxc]; exact hcold
          · exact hg.sub x (by simp [qchips] at hx ⊢; exact Or.inr (Or.inr hx))
          · rw [← hxk]; exact hkk _ _ (hkid k hk)
        · intro x hx
          rw [qchips_push] at hx
          simp only [List.mem_append, List.mem_singleton, List.mem_map] at hx
          have lift : (x = root ∨ ∃ p k, p ∈ seen ∧ Edge old p k ∧ k.2 = x) →
              (x = root ∨ ∃ p k, p ∈ seen ++ [c] ∧ Edge old p k ∧ k.2 = x) := by
            rintro (h | ⟨p', k', h1, h2, h3⟩)
            · exact Or.inl h
            · exact Or.inr ⟨p', k', by simp [h1], h2, h3⟩
          rcases hx with (hx | hxc) | hx | ⟨k, hk, hxk⟩
          · exact lift (hg.par x (by simp [hx]))
          · exact lift (hg.par x (by simp [qchips, hxc]))
          · exact lift (hg.par x (by simp [qchips] at hx ⊢; exact Or.inr (Or.inr hx)))
          · exact Or.inr ⟨c, k, by simp, hkid k hk, hxk⟩
        · intro x hx
          rcases (hkeys x).1 hx with h | ⟨hxc, _⟩
          · simp [hg.keysSeen x h]
          · simp [hxc]
        · intro x hx hok
          simp only [List.mem_append, List.mem_singleton] at hx
          rcases hx with hx | hxc
          · exact (hkeys x).2 (Or.inl (hg.seenKeys x hx hok))
          · exact (hkeys x).2 (Or.inr ⟨hxc, by rw [← hxc]; exact hok⟩)
        · intro e he
          simp only [List.mem_append, List.mem_map] at he
          rcases he with he | ⟨k, _, rfl⟩
          · exact hg.qsome e (by simp [he])
          · exact ⟨nn, rfl⟩
        · intro x hx
          rw [qchips_push]
          rcases hg.cover x hx with h | ⟨y, hy, hb⟩
          · exact Or.inl (by simp [h])
          · simp only [qchips, List.map_cons, List.mem_cons] at hy
            rcases hy with rfl | hy
            · rcases below_head hb with rfl | ⟨k, hk, hb'⟩
              · exact Or.inl (by simp)
              · exact Or.inr ⟨k.2, by simp only [List.mem_append, List.mem_map]; exact Or.inr ⟨k, edge_kids hw.keys hk, rfl⟩, hb'⟩
            · exact Or.inr ⟨y, by simp only [List.mem_append]; exact Or.inl hy, hb⟩
      obtain ⟨st', h1, h2⟩ := ih _ _ _ hg' (by simp; omega)
      exact ⟨st', by simp only [copyLoop, hvis, bind, Except.bind]; exact h1, h2⟩

/-- **The disconnecting copy of a well-formed tree rooted at a working chip cannot fail**, and its lookup
contains every working chip of the tree. -/
theorem copyAndDisconnect_total {old : Forest} {rank : Chip → Nat} {root : Chip} {m : Machine} (hw : WF old rank)
    (hkk : ClosedF old) (hrk : root ∈ old.keys) (hnp : NoParent old root) (hlive : chipOk m root = true) :
    ∃ cs, copyAndDisconnect old root m = .ok cs ∧
      ∀ x, Below old root x → chipOk m x = true → x ∈ cs.lookup.keys := by
  unfold copyAndDisconnect
  have hvis : CopyState.visit m { lookup := [], broken := [], root := none } none 0 root =
      .ok (root, { lookup := Forest.insertNew [] root, broken := [], root := some root }) := by
    simp [CopyState.visit, hlive, Forest.has, pure, Except.pure]
  have hg : GInv old root m [root] ([] ++ (old.kids root).map fun e => (some root, e.1, e.2))
      { lookup := Forest.insertNew [] root, broken := [], root := some root } := by
    have hkid : ∀ k, k ∈ old.kids root → Edge old root k := fun k hk => kids_edge hk
    refine ⟨?_, ?_, ?_, ?_, ?_, ?_, ?_⟩
    · rw [qchips_push]
      simp only [qchips, List.map_nil, List.nil_append, List.singleton_append, List.nodup_cons, List.mem_map,
        not_exists, not_and]
      refine ⟨fun k hk hkr => hnp _ _ (hkid k hk) hkr, ?_⟩
      rcases kids_eq old root with h | ⟨n, hn, _, h⟩
      · rw [h]; simp
      · rw [h]; exact hw.kidsNodup n hn
    · intro x hx
      rw [qchips_push] at hx
      simp only [qchips, List.map_nil, List.nil_append, List.singleton_append, List.mem_cons, List.mem_map] at hx
      rcases hx with rfl | ⟨k, hk, rfl⟩
      · exact hrk
      · exact hkk _ _ (hkid k hk)
    · intro x hx
      rw [qchips_push] at hx
      simp only [qchips, List.map_nil, List.nil_append, List.singleton_append, List.mem_cons, List.mem_map] at hx
      rcases hx with rfl | ⟨k, hk, rfl⟩
      · exact Or.inl rfl
      · exact Or.inr ⟨root, k, by simp, hkid k hk, rfl⟩
    · intro x hx; simpa [Forest.insertNew, Forest.keys] using hx
    · intro x hx _; simpa [Forest.insertNew, Forest.keys] using hx
    · intro e he
      simp only [List.nil_append, List.mem_map] at he
      obtain ⟨k, _, rfl⟩ := he
      exact ⟨root, rfl⟩
    · intro x hx
      rw [qchips_push]
      rcases below_head hx with rfl | ⟨k, hk, hb⟩
      · exact Or.inl (by simp)
      · exact Or.inr ⟨k.2, by simp only [qchips, List.map_nil, List.nil_append, List.mem_map]; exact ⟨k, edge_kids hw.keys hk, rfl⟩, hb⟩
  obtain ⟨st', h1, h2⟩ := copyLoop_total hw hkk hnp old.length [root] _ _ hg (by simp)
  exact ⟨st', by simp only [copyLoop, hvis, bind, Except.bind]; exact h1, h2⟩

end Rig.C03.L
