/-
C03 - the repair loop raises nothing but the disconnected-machine error (fixed code): with the forest invariant
the subtree enumeration never runs out of fuel, the "Cycle created" assertion never fires, A* is the only
source of an error; on a strongly connected machine A* succeeds, so the loop succeeds.  Entries are never
removed (`repairAll_keys`).
-/
import RigModel.Model.C03
import RigModel.Lemmas.C03RepairValid
import RigModel.Lemmas.C03Strong
set_option linter.unusedSimpArgs false
set_option linter.unusedVariables false
namespace Rig.C03.L
open Rig.C03 Rig.Gen.C03Links

/-! ### the subtree enumeration terminates -/

theorem wf_unfolds_len {f : Forest} {rank : Chip → Nat} (hw : WF f rank) (hc : ClosedF f) (leaves : List Leaf)
    {c : Chip} (hk : c ∈ f.keys) :
    ∃ t, toTree f leaves (f.length + 1) c = some t ∧ Unfolds f leaves c t := by
  obtain ⟨t, ht, hu⟩ := toTree_unfolds hw leaves (rank c + 1) c (by omega)
  have hsub : ∀ x, x ∈ t.chips → x ∈ f.keys := fun x hx => below_key hc hk (hu.below x hx)
  have hlen : t.chips.length ≤ f.length := by
    have := (List.Nodup.subperm hu.nodup hsub).length_le
    simpa [Forest.keys] using this
  have hd := depth_le_chips t
  exact ⟨t, toTree_fuel _ _ _ ht _ (by omega), hu⟩

theorem chipsL_flatten : ∀ (subs : List (Nat × Tree)), chipsL subs = (subs.map fun s => s.2.chips).flatten := by
  intro subs
  induction subs with
  | nil => simp [chipsL]
  | cons s r ih => obtain ⟨d, t⟩ := s; simp [chipsL, ih]

theorem toTree_dfs {f : Forest} {leaves : List Leaf} : ∀ (n : Nat) (c : Chip) (t : Tree),
    toTree f leaves n c = some t → dfs f n c = .ok t.chips := by
  intro n
  induction n with
  | zero => intro c t h; simp [toTree] at h
  | succ n ih =>
    intro c t h
    simp only [toTree, bind, Option.bind] at h
    split at h
    · simp at h
    · rename_i subs hsubs
      simp only [pure, Option.some.injEq] at h
      subst h
      have aux : ∀ (ks : List (Nat × Chip)) (subs : List (Nat × Tree)),
          ks.mapM (fun e => (toTree f leaves n e.2).map fun t => (e.1, t)) = some subs →
          ks.mapM (fun e => dfs f n e.2) = .ok (subs.map fun s => s.2.chips) := by
        intro ks
        induction ks with
        | nil =>
          intro subs hm
          simp only [List.mapM_nil, pure, Option.some.injEq] at hm
          subst hm
          rfl
        | cons k ks ihk =>
          intro subs hm
          simp only [List.mapM_cons, bind, Option.bind] at hm
          split at hm
          · simp at hm
          · rename_i b hb
            simp only at hm
            split at hm
            · simp at hm
            · rename_i bs hbs
              simp only [pure, Option.some.injEq] at hm
              subst hm
              simp only [Option.map_eq_some_iff] at hb
              obtain ⟨t', ht', rfl⟩ := hb
              simp only [List.mapM_cons, ih _ _ ht', ihk bs hbs, bind, Except.bind, pure, Except.pure,
                List.map_cons]
      simp only [dfs, aux _ _ hsubs, bind, Except.bind, pure, Except.pure, Tree.chips, chipsL_flatten]

theorem dfs_total {f : Forest} {rank : Chip → Nat} (hw : WF f rank) (hc : ClosedF f) {c : Chip}
    (hk : c ∈ f.keys) : ∃ l, dfs f (f.length + 1) c = .ok l := by
  obtain ⟨t, ht, _⟩ := wf_unfolds_len hw hc [] hk
  exact ⟨_, toTree_dfs _ _ _ ht⟩

/-! ### the loop over the A* path never fails -/

theorem repairStep_total {R : List Chip} {child : Chip} {cc : List Chip} {st : RepairState}
    {d : Nat} {c : Chip} {rest : List (Nat × Chip)} (hs : SInv R child cc st ((d, c) :: rest)) :
    ∃ st', repairStep false child cc st (d, c) = .ok st' := by
  rw [repairStep_fixed]
  cases hcc : cc.contains c with
  | true => simp only [Bool.not_true, Bool.false_eq_true, if_false]; exact ⟨_, rfl⟩
  | false =>
    have hk := hs.fresh (d, c) (by simp) hcc
    have hh : st.f.has c = false := by
      rw [Bool.eq_false_iff]; intro h; exact hk ((has_iff _ _).1 h)
    simp only [Bool.not_false, if_true, hh, Bool.false_eq_true, if_false]; exact ⟨_, rfl⟩

theorem repairFold_total {R : List Chip} {child : Chip} {cc : List Chip} (hchild : child ∈ R) :
    ∀ (rest : List (Nat × Chip)) (st : RepairState), SInv R child cc st rest →
      (rest.map (·.2)).Nodup → (∀ e, e ∈ rest → e.2 ∉ R) →
      ∃ st', rest.foldlM (repairStep false child cc) st = .ok st' := by
  intro rest
  induction rest with
  | nil => intro st _ _ _; exact ⟨st, rfl⟩
  | cons e r ih =>
    intro st hs hnd hR
    obtain ⟨d, c⟩ := e
    obtain ⟨st1, h1⟩ := repairStep_total hs
    have hs1 := repairStep_inv hs hnd (hR (d, c) (by simp)) hchild h1
    simp only [List.map_cons, List.nodup_cons] at hnd
    obtain ⟨st', h'⟩ := ih st1 hs1 hnd.2 (fun e he => hR e (by simp [he]))
    exact ⟨st', by simp only [List.foldlM, h1, bind, Except.bind]; exact h'⟩

/-- **One broken link: the only possible failure is A\*'s `MachineHasDisconnectedSubregion`.**  With the forest
invariant, the subtree enumeration succeeds, the sources exclude the orphan and contain every other component
root, and then either the whole body succeeds or A* reported the machine disconnected. -/
theorem repairOne_cases {m : Machine} {wrap : Bool} {f : Forest} {pc : Chip × Chip} {R : List Chip}
    (hi : RInv f R) (hchild : pc.2 ∈ R) (hlive : chipOk m pc.2 = true) :
    ∃ sources, sources.contains pc.2 = false ∧ (∀ r, r ∈ R → r ≠ pc.2 → r ∈ sources) ∧
      ((∃ f' path, repairOne m wrap false f pc = .ok (f', path)) ∨
       (repairOne m wrap false f pc = .error .disconnected ∧
        aStar pc.2 pc.1 sources m wrap = .error .disconnected)) := by
  obtain ⟨rank, hw⟩ := hi.wf
  obtain ⟨cc, hcc⟩ := dfs_total hw hi.closed (hi.roots _ hchild).1
  obtain ⟨hsrc, hns⟩ := sources_spec hw hcc
  refine ⟨f.keys.filter fun c => !cc.contains c, hns, ?_, ?_⟩
  · intro r hr hne
    refine (hsrc r).2 ⟨(hi.roots r hr).1, ?_⟩
    intro hb
    rcases below_tail hb with heq | ⟨p0, k0, _, hk0, hk0e⟩
    · exact hne heq.symm
    · exact (hi.roots r hr).2 _ _ hk0 hk0e
  · have hinr := chipOk_inRange hlive
    cases hp : aStar pc.2 pc.1 (f.keys.filter fun c => !cc.contains c) m wrap with
    | error e =>
      have he := aStar_only_disconnected m _ _ _ wrap hinr hns e hp
      subst he
      refine Or.inr ⟨?_, rfl⟩
      unfold repairOne
      simp only [bind, Except.bind, hcc, hp]
    | ok p =>
      left
      cases p with
      | nil =>
        have := aStar_path _ _ _ _ _ _ hinr hp
        simp [pathOk, chainTo] at this
      | cons e0 rest =>
        obtain ⟨d0, c0⟩ := e0
        obtain ⟨hinit, hnd, hrestR⟩ := repair_init hi hchild hlive hcc hp
        obtain ⟨st', hfold⟩ := repairFold_total hchild rest _ hinit hnd hrestR
        refine ⟨st'.f.addChild st'.last (st'.lastDir, pc.2), (d0, c0) :: rest, ?_⟩
        unfold repairOne
        simp only [bind, Except.bind, hcc, hp, hfold, pure, Except.pure]

theorem forestLive_key {m : Machine} {f : Forest} (hl : ForestLive m f) {c : Chip} (hc : c ∈ f.keys) :
    chipOk m c = true := by
  simp only [Forest.keys, List.mem_map] at hc
  obtain ⟨n, hn, rfl⟩ := hc
  exact (hl n hn).1

/-- **The whole repair loop fails only with the disconnected-machine error, and not at all on a strongly
connected machine.** -/
theorem repairAll_err {m : Machine} {wrap : Bool} (root : Chip) :
    ∀ (order : List (Chip × Chip)) (f : Forest) (ps : List (List (Nat × Chip))) (e : Err),
      RInv f (root :: order.map (·.2)) → ForestLive m f → (∀ pc, pc ∈ order → chipOk m pc.2 = true) →
      repairAll m wrap false order f ps = .error e → e = .disconnected ∧ stronglyConnected m = false := by
  intro order
  induction order with
  | nil => intro f ps e _ _ _ h; simp [repairAll, pure, Except.pure] at h
  | cons pc r ih =>
    intro f ps e hi hl ho h
    have hnd := hi.rootsNodup
    simp only [List.map_cons, List.nodup_cons, List.mem_cons, not_or] at hnd
    obtain ⟨sources, hns, hsrc, hcase⟩ := repairOne_cases (m := m) (wrap := wrap) hi (pc := pc) (by simp)
      (ho pc (by simp))
    rcases hcase with ⟨f1, p1, hres⟩ | ⟨hres, hast⟩
    · have h1 : RInv f1 (root :: r.map (·.2)) := by
        refine repairOne_inv hi (by simp) (ho pc (by simp)) ?_ ?_ hres
        · simp only [List.nodup_cons]; exact ⟨hnd.1.2, hnd.2.2⟩
        · intro x
          simp only [List.map_cons, List.mem_cons]
          constructor
          · rintro (rfl | hx)
            · exact ⟨Or.inl rfl, hnd.1.1⟩
            · exact ⟨Or.inr (Or.inr hx), fun heq => hnd.2.1 (by rw [← heq]; exact hx)⟩
          · rintro ⟨rfl | rfl | hx, hne⟩
            · exact Or.inl rfl
            · exact absurd rfl hne
            · exact Or.inr hx
      simp only [repairAll, hres, bind, Except.bind] at h
      exact ih _ _ _ h1 (repairOne_live hl (ho pc (by simp)) hres) (fun pc' h' => ho pc' (by simp [h'])) h
    · simp only [repairAll, hres, bind, Except.bind, Except.error.injEq] at h
      refine ⟨h.symm, ?_⟩
      rw [Bool.eq_false_iff]
      intro hs
      have hroot : root ∈ sources := hsrc root (by simp) hnd.1.1
      have hrl : chipOk m root = true := forestLive_key hl (hi.roots root (by simp)).1
      obtain ⟨path, hpath⟩ := aStar_succeeds m hs pc.2 pc.1 sources wrap (ho pc (by simp)) hns ⟨root, hroot, hrl⟩
      rw [hpath] at hast
      simp at hast

/-! ### entries are never removed -/

theorem keys_detachIn (f : Forest) (c : Chip) (order : List Chip) : (detachIn f c order).keys = f.keys := by
  rcases detachIn_cases f c order with ⟨h, _⟩ | ⟨n, _, h⟩
  · rw [h]
  · rw [h, keys_cut]

theorem repairStep_keys {child : Chip} {cc : List Chip} {st st' : RepairState} {e : Nat × Chip}
    (h : repairStep false child cc st e = .ok st') : ∀ x, x ∈ st.f.keys → x ∈ st'.f.keys := by
  rw [repairStep_fixed] at h
  intro x hx
  split at h
  · split at h
    · simp at h
    · simp only [Except.ok.injEq] at h
      subst h
      simp only
      rw [keys_addChild, keys_insertNew]; simp [hx]
  · simp only [Except.ok.injEq] at h
    subst h
    simp only
    rw [keys_addChild, keys_detachIn]; exact hx

theorem repairFold_keys {child : Chip} {cc : List Chip} : ∀ (rest : List (Nat × Chip)) (st st' : RepairState),
    rest.foldlM (repairStep false child cc) st = .ok st' → ∀ x, x ∈ st.f.keys → x ∈ st'.f.keys := by
  intro rest
  induction rest with
  | nil =>
    intro st st' h x hx
    simp only [List.foldlM, pure, Except.pure, Except.ok.injEq] at h
    subst h; exact hx
  | cons e r ih =>
    intro st st' h x hx
    simp only [List.foldlM, bind, Except.bind] at h
    split at h
    · simp at h
    · rename_i st1 h1
      exact ih st1 st' h x (repairStep_keys h1 x hx)

theorem repairOne_keys {m : Machine} {wrap : Bool} {f f' : Forest} {pc : Chip × Chip}
    {path : List (Nat × Chip)} (h : repairOne m wrap false f pc = .ok (f', path)) :
    ∀ x, x ∈ f.keys → x ∈ f'.keys := by
  unfold repairOne at h
  simp only [bind, Except.bind] at h
  split at h
  · simp at h
  · split at h
    · simp at h
    · split at h
      · simp at h
      · split at h
        · simp at h
        · rename_i st' hfold
          simp only [pure, Except.pure, Except.ok.injEq, Prod.mk.injEq] at h
          obtain ⟨rfl, _⟩ := h
          intro x hx
          rw [keys_addChild]
          exact repairFold_keys _ _ _ hfold x hx

theorem repairAll_keys {m : Machine} {wrap : Bool} : ∀ (order : List (Chip × Chip)) (f : Forest)
    (ps : List (List (Nat × Chip))) (f' : Forest) (ps' : List (List (Nat × Chip))),
    repairAll m wrap false order f ps = .ok (f', ps') → ∀ x, x ∈ f.keys → x ∈ f'.keys := by
  intro order
  induction order with
  | nil =>
    intro f ps f' ps' h x hx
    simp only [repairAll, pure, Except.pure, Except.ok.injEq, Prod.mk.injEq] at h
    obtain ⟨rfl, _⟩ := h
    exact hx
  | cons pc r ih =>
    intro f ps f' ps' h x hx
    simp only [repairAll, bind, Except.bind] at h
    split at h
    · simp at h
    · rename_i res hres
      obtain ⟨f1, p1⟩ := res
      exact ih _ _ _ _ h x (repairOne_keys hres x hx)

end Rig.C03.L
