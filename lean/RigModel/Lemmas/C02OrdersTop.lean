/-
C02 (companion) - from the Hilbert curve to the chip order of a machine; order-independence of
the quantities in the completeness theorem of the sequential placer.
-/
import RigModel.Lemmas.C02OrdersHilbert
import RigModel.Lemmas.C02OrdersBfs
import RigModel.Lemmas.C02Complete
import Mathlib.Data.List.Nodup
set_option linter.unusedSimpArgs false
set_option linter.unusedVariables false

namespace Rig.C02Orders
open Rig.C02 (aget aset keys Chip Machine mem_chips_iff)

/-! ### the machine's own chip list has no duplicates -/

theorem nodup_flatMap_of_disjoint {α β : Type} (f : α → List β) :
    ∀ (l : List α), l.Nodup → (∀ x ∈ l, (f x).Nodup) →
      (∀ x ∈ l, ∀ y ∈ l, ∀ c, c ∈ f x → c ∈ f y → x = y) → (l.flatMap f).Nodup := by
  intro l
  induction l with
  | nil => intro _ _ _; simp
  | cons a t ih =>
    intro hnd hf hd
    have hnd' := List.nodup_cons.1 hnd
    simp only [List.flatMap_cons]
    refine List.nodup_append.2 ⟨hf a (by simp), ih hnd'.2 (fun x hx => hf x (by simp [hx]))
      (fun x hx y hy c h1 h2 => hd x (by simp [hx]) y (by simp [hy]) c h1 h2), ?_⟩
    intro p hp q hq e; subst e
    obtain ⟨y, hy, hpy⟩ := List.mem_flatMap.1 hq
    have := hd a (by simp) y (by simp [hy]) p hp hpy
    subst this
    exact hnd'.1 hy

theorem chips_nodup (m : Machine) : m.chips.Nodup := by
  unfold Machine.chips
  apply nodup_flatMap_of_disjoint _ _ List.nodup_range
  · intro x _
    apply List.Nodup.filterMap _ List.nodup_range
    intro y y' c h1 h2
    split at h1 <;> simp at h1
    split at h2 <;> simp at h2
    rw [← h1] at h2
    simp only [Prod.mk.injEq] at h2
    exact h2.2.symm
  · intro x _ x' _ c h1 h2
    simp only [List.mem_filterMap] at h1 h2
    obtain ⟨y, _, h1⟩ := h1
    obtain ⟨y', _, h2⟩ := h2
    split at h1 <;> simp at h1
    split at h2 <;> simp at h2
    rw [← h1] at h2
    simp only [Prod.mk.injEq] at h2
    exact h2.1.symm

/-- a duplicate-free list with the machine's working chips as members is a rearrangement of
`iter(machine)` -/
theorem perm_chips (m : Machine) (l : List Chip) (hnd : l.Nodup) (hm : ∀ c, c ∈ l ↔ m.ok c = true) :
    l.Perm m.chips := by
  rw [List.perm_ext_iff_of_nodup hnd (chips_nodup m)]
  intro c; rw [hm c, mem_chips_iff]

theorem chips_congr {m m' : Machine} (hw : m'.w = m.w) (hh : m'.h = m.h) (hd : m'.dead = m.dead) :
    m'.chips = m.chips := by
  have : m'.ok = m.ok := funext (Rig.C02.Machine.ok_congr hw hh hd)
  unfold Machine.chips
  rw [hw, hh, this]

/-! ### points to chips -/

theorem mem_toChips (l : List (Int × Int)) (c : Chip) : c ∈ toChips l ↔ ((c.1 : Int), (c.2 : Int)) ∈ l := by
  simp only [toChips, List.mem_filterMap]
  constructor
  · rintro ⟨p, hp, h⟩
    split at h
    · rename_i hn
      injection h with h; subst h
      simp only [Int.toNat_of_nonneg hn.1, Int.toNat_of_nonneg hn.2]
      exact hp
    · simp at h
  · intro h
    refine ⟨_, h, ?_⟩
    simp

theorem nodup_toChips (l : List (Int × Int)) (h : l.Nodup) : (toChips l).Nodup := by
  apply List.Nodup.filterMap _ h
  intro p p' c h1 h2
  split at h1 <;> simp at h1
  split at h2 <;> simp at h2
  rename_i hn hn'
  have e1 : p = ((c.1 : Int), (c.2 : Int)) := by
    rw [← h1]; simp [Int.toNat_of_nonneg hn.1, Int.toNat_of_nonneg hn.2]
  have e2 : p' = ((c.1 : Int), (c.2 : Int)) := by
    rw [← h2]; simp [Int.toNat_of_nonneg hn'.1, Int.toNat_of_nonneg hn'.2]
  rw [e1, e2]

/-! ### hilbert / hilbert_chip_order -/

theorem hilbert_nodup (k : Nat) : (hilbert k).Nodup :=
  (hil_spec k 1 { x := 0, y := 0, dx := 1, dy := 0 } (Or.inl rfl) (Or.inl ⟨rfl, rfl⟩)).nodup

theorem mem_hilbert (k : Nat) (q : Int × Int) :
    q ∈ hilbert k ↔ 0 ≤ q.1 ∧ q.1 < 2 ^ k ∧ 0 ≤ q.2 ∧ q.2 < 2 ^ k := by
  have := (hil_spec k 1 { x := 0, y := 0, dx := 1, dy := 0 } (Or.inl rfl) (Or.inl ⟨rfl, rfl⟩)).mem q
  have e : q ∈ hilbert k ↔ q ∈ (HState.pos { x := 0, y := 0, dx := 1, dy := 0 }) ::
      (hil k 1 { x := 0, y := 0, dx := 1, dy := 0 }).1 := Iff.rfl
  rw [e, this]
  generalize (2 : Int) ^ k = N
  simp only [inSq]
  omega

theorem le_two_pow_levels (n : Nat) : n ≤ 2 ^ levels n := by
  unfold levels
  split
  · rename_i h; simp; omega
  · have := Nat.lt_log2_self (n := n - 1)
    omega

theorem mem_hilbertChips (m : Machine) (c : Chip) (hc : m.ok c = true) :
    c ∈ toChips (hilbertChipOrder m.w m.h) := by
  rw [mem_toChips, hilbertChipOrder, mem_hilbert]
  simp only [Machine.ok, Bool.and_eq_true, decide_eq_true_eq] at hc
  have h1 := le_two_pow_levels (max m.w m.h)
  have hx : c.1 < 2 ^ levels (max m.w m.h) := by omega
  have hy : c.2 < 2 ^ levels (max m.w m.h) := by omega
  have hx' : ((c.1 : Nat) : Int) < ((2 ^ levels (max m.w m.h) : Nat) : Int) := Int.ofNat_lt.2 hx
  have hy' : ((c.2 : Nat) : Int) < ((2 ^ levels (max m.w m.h) : Nat) : Int) := Int.ofNat_lt.2 hy
  rw [Int.natCast_pow] at hx' hy'
  refine ⟨Int.natCast_nonneg _, hx', Int.natCast_nonneg _, hy'⟩

/-- the Hilbert chip order, restricted to the machine, is a rearrangement of the machine's chips -/
theorem hilbertChips_perm (m : Machine) :
    ((toChips (hilbertChipOrder m.w m.h)).filter m.ok).Perm m.chips := by
  apply perm_chips
  · exact (nodup_toChips _ (hilbert_nodup _)).filter _
  · intro c
    simp only [List.mem_filter]
    exact ⟨fun h => h.2, fun h => ⟨mem_hilbertChips m c h, h⟩⟩

/-! ### order-independence -/

theorem needOf_perm (fixed : Rig.C02.Placement) (vr : Rig.C02.VR) (r0 : Nat) {l l' : List Rig.C02.Vtx}
    (h : l.Perm l') : Rig.C02.needOf fixed vr r0 l = Rig.C02.needOf fixed vr r0 l' := by
  induction h with
  | nil => rfl
  | cons x _ ih => simp only [Rig.C02.needOf, ih]
  | swap x y l => simp only [Rig.C02.needOf]; omega
  | trans _ _ ih1 ih2 => exact ih1.trans ih2

theorem total_perm (m : Machine) (r0 : Nat) {l l' : List Chip} (h : l.Perm l') :
    Rig.C02.total m l r0 = Rig.C02.total m l' r0 := by
  unfold Rig.C02.total
  induction h with
  | nil => rfl
  | cons x _ ih => simp only [List.map_cons, List.sum_cons, ih]
  | swap x y l => simp only [List.map_cons, List.sum_cons]; omega
  | trans _ _ ih1 ih2 => exact ih1.trans ih2

end Rig.C02Orders
