/-
C08 helper lemmas for the completeness clause: the order of the leaf-first pass, and the whole of
`assign_fields` on a tree with nested scopes and no explicit positions.
-/
import RigModel.Lemmas.C08Float
set_option linter.unusedSimpArgs false
set_option linter.unusedVariables false

namespace Rig.C08
open Rig.Gen.BitfieldConsts

/-! ### the order of `recurse_assign_fields` -/

theorem nodup_eraseDups {α : Type} [BEq α] [LawfulBEq α] : ∀ (n : Nat) (l : List α), l.length ≤ n →
    l.eraseDups.Nodup := by
  intro n
  induction n with
  | zero =>
    intro l hl
    have : l = [] := List.length_eq_zero_iff.mp (by omega)
    subst this; simp
  | succ n ih =>
    intro l hl
    cases l with
    | nil => simp
    | cons a as =>
      rw [List.eraseDups_cons, List.nodup_cons]
      refine ⟨?_, ih _ ?_⟩
      · intro hmem
        rw [List.mem_eraseDups, List.mem_filter] at hmem
        simp at hmem
      · have := List.length_filter_le (fun b => !b == a) as
        simp only [List.length_cons] at hl
        omega

theorem nodePaths_nodup (es : List Entry) : (nodePaths es).Nodup := nodup_eraseDups _ _ (Nat.le_refl _)

theorem postOrder_prefix {ps : List Path} : ∀ (fuel : Nat) (p q : Path), q ∈ postOrder ps fuel p → p <+: q := by
  intro fuel
  induction fuel with
  | zero => intro p q h; simp [postOrder] at h; subst h; exact List.prefix_refl _
  | succ fuel ih =>
    intro p q h
    unfold postOrder at h
    rcases List.mem_append.mp h with h | h
    · obtain ⟨c, hc, hq⟩ := List.mem_flatMap.mp h
      simp only [List.mem_filter, Bool.and_eq_true, beq_iff_eq, isPrefixOf_iff] at hc
      exact hc.2.2.trans (ih c q hq)
    · simp at h; subst h; exact List.prefix_refl _

/-- in the leaf-first order a node is never preceded by itself or by one of its ancestors -/
theorem postOrder_pairwise {ps : List Path} (hnd : ps.Nodup) : ∀ (fuel : Nat) (p : Path),
    (postOrder ps fuel p).Pairwise fun q r => ¬ q <+: r := by
  intro fuel
  induction fuel with
  | zero => intro p; simp [postOrder]
  | succ fuel ih =>
    intro p
    unfold postOrder
    rw [List.pairwise_append]
    refine ⟨?_, by simp, ?_⟩
    · rw [List.pairwise_flatMap]
      refine ⟨fun c _ => ih c, ?_⟩
      have hnd' : (ps.filter fun q => q.length == p.length + 1 && p.isPrefixOf q).Pairwise (· ≠ ·) :=
        List.Pairwise.filter _ hnd
      refine List.Pairwise.imp_of_mem ?_ hnd'
      intro c c' hc hc' hne x hx y hy hxy
      simp only [List.mem_filter, Bool.and_eq_true, beq_iff_eq] at hc hc'
      have h1 : c <+: y := (postOrder_prefix fuel c x hx).trans hxy
      have h2 : c' <+: y := postOrder_prefix fuel c' y hy
      have := List.prefix_of_prefix_length_le h1 h2 (by omega)
      exact hne (this.eq_of_length (by omega))
    · intro q hq r hr hqr
      simp at hr; subst hr
      obtain ⟨c, hc, hqc⟩ := List.mem_flatMap.mp hq
      simp only [List.mem_filter, Bool.and_eq_true, beq_iff_eq] at hc
      have := (postOrder_prefix fuel c q hqc).length_le
      have := hqr.length_le
      omega

/-! ### pieces of the run -/

theorem assignRunP_cons (ap : Bool) (p : Path) (rest : List (Bool × Path)) (st : State) :
    assignRunP ((ap, p) :: rest) st =
      match assignLoopP ap p.flatten (nodeIdents st.entries p) st (potentialMask st.entries p.flatten) with
      | (st', some e) => (st', some e)
      | (st', none) => assignRunP rest st' := rfl

theorem assignRunP_append : ∀ (l1 l2 : List (Bool × Path)) (st st' : State), assignRunP l1 st = (st', none) →
    assignRunP (l1 ++ l2) st = assignRunP l2 st' := by
  intro l1
  induction l1 with
  | nil => intro l2 st st' h; simp [assignRunP] at h; subst h; rfl
  | cons it rest ih =>
    intro l2 st st' h
    obtain ⟨ap, p⟩ := it
    rw [List.cons_append]
    rw [assignRunP_cons] at h ⊢
    generalize assignLoopP ap p.flatten (nodeIdents st.entries p) st (potentialMask st.entries p.flatten) = r at h ⊢
    obtain ⟨s1, oe⟩ := r
    cases oe with
    | some e => simp at h
    | none => exact ih l2 s1 st' h

theorem getField_self {es : List Entry} (hu : SpecUnique es) (hsc : ∀ e ∈ es, compatible e.reqs e.reqs)
    {y : Entry} (hy : y ∈ es) : getField es y.ident y.reqs = some y := by
  cases hg : getField es y.ident y.reqs with
  | none =>
    unfold getField at hg
    rw [List.find?_eq_none] at hg
    have := hg y hy
    simp [enabled_self (hsc y hy)] at this
  | some e' =>
    obtain ⟨h1, h2, h3⟩ := getField_some hg
    rw [reqs_of_enabled_same_ident hu h1 hy (hsc y hy) h2 h3]

theorem getField_node {st : State} (hinv : Inv st) {y : Entry} (hy : y ∈ st.entries) :
    getField st.entries y.ident y.path.flatten = some y := getField_self hinv.unique hinv.selfc hy

/-- a loop of the breadth-first pass does nothing when no field has an explicit position -/
theorem loop_noop {st : State} {fv : Reqs} {a : Nat} : ∀ (ids : List Ident),
    (∀ i ∈ ids, ∃ e, getField st.entries i fv = some e ∧ e.field.startAt = none) →
    assignLoopP false fv ids st a = (st, none) := by
  intro ids
  induction ids with
  | nil => intro _; rfl
  | cons i is ih =>
    intro h
    obtain ⟨e, hg, hs⟩ := h i List.mem_cons_self
    unfold assignLoopP
    simp only [hg]
    have hfix : e.field.isFixed = false := by simp [Field.isFixed, hs]
    simp only [hfix, hs, Bool.false_eq_true, if_false, Option.isSome_none, Bool.or_self]
    exact ih (fun j hj => h j (List.mem_cons_of_mem _ hj))

theorem mem_nodeIdents {es : List Entry} {p : Path} {i : Ident} :
    i ∈ nodeIdents es p ↔ ∃ y ∈ es, y.path = p ∧ y.ident = i := by
  simp only [nodeIdents, List.mem_map, List.mem_filter, beq_iff_eq, and_assoc]

theorem run_noop {st : State} (hinv : Inv st) (hF : ∀ e ∈ st.entries, e.field.startAt = none) :
    ∀ (ps : List Path), assignRunP (ps.map fun p => (false, p)) st = (st, none) := by
  intro ps
  induction ps with
  | nil => rfl
  | cons p ps ih =>
    rw [List.map_cons, assignRunP_cons]
    rw [loop_noop]
    · exact ih
    · intro i hi
      obtain ⟨y, hy, hyp, hyi⟩ := mem_nodeIdents.mp hi
      have := getField_node hinv hy
      rw [hyp, hyi] at this
      exact ⟨y, this, hF y hy⟩

/-! ### widths -/

theorem skel_modifyFirst_keep {pm : Entry → Bool} {g : Field → Field} (hg : ∀ fld, (g fld).chosenLen = fld.chosenLen)
    (es : List Entry) : skel (modifyFirst pm g es) = skel es := by
  induction es with
  | nil => rfl
  | cons e es ih =>
    rw [modifyFirst_cons]
    split
    · simp [skel, Entry.width, hg]
    · simp only [skel, List.map_cons] at ih ⊢
      rw [ih]

theorem skel_modifyField {es : List Entry} {i : Ident} {fv : Reqs} {e : Entry} (hg : getField es i fv = some e)
    (s : Nat) : skel (modifyField es i fv (setPos e.field.chosenLen s)) = skel es := by
  have hcongr : modifyField es i fv (setPos e.field.chosenLen s) =
      modifyField es i fv (fun fld => setPos fld.chosenLen s fld) :=
    modifyFirst_congr (g := fun fld => setPos fld.chosenLen s fld) hg rfl
  rw [hcongr]
  exact skel_modifyFirst_keep (g := fun fld => setPos fld.chosenLen s fld) (fun _ => rfl) es

theorem assignLoopP_skel (ap : Bool) (fv : Reqs) : ∀ (ids : List Ident) (st : State) (a : Nat),
    skel (assignLoopP ap fv ids st a).1.entries = skel st.entries := by
  intro ids
  induction ids with
  | nil => intro st a; rfl
  | cons i is ih =>
    intro st a
    unfold assignLoopP
    cases hg : getField st.entries i fv with
    | none => rfl
    | some e =>
      simp only
      split
      · exact ih st a
      · split
        · cases hasg : assignField st a i fv with
          | error err => rfl
          | ok r =>
            obtain ⟨st', a'⟩ := r
            obtain ⟨e', start, hg', rfl, _, _⟩ := assignField_ok hasg
            exact (ih _ a').trans (skel_modifyField hg' start)
        · exact ih st a

theorem isPrefixOf_both (p q : Path) : (p.isPrefixOf q && q.isPrefixOf p) = (q == p) := by
  rw [Bool.eq_iff_iff]
  simp only [Bool.and_eq_true, isPrefixOf_iff, beq_iff_eq]
  constructor
  · rintro ⟨h1, h2⟩
    exact h2.eq_of_length (Nat.le_antisymm h2.length_le h1.length_le)
  · rintro rfl; exact ⟨List.prefix_refl _, List.prefix_refl _⟩

/-- the widths of a node's fields, looked up the way the loop does, sum to the node's part of every chain -/
theorem node_width_sum {st : State} (hinv : Inv st) (p : Path) :
    ((nodeIdents st.entries p).map (wOf st.entries p.flatten)).sum = segSum (skel st.entries) p p := by
  unfold nodeIdents segSum skel
  rw [List.map_map, List.filter_map, List.map_map]
  have h1 : (st.entries.filter ((fun x : Path × Nat => p.isPrefixOf x.1 && x.1.isPrefixOf p) ∘ fun e => (e.path, e.width)))
      = st.entries.filter (fun e => e.path == p) :=
    List.filter_congr (fun e _ => by simp only [Function.comp]; exact isPrefixOf_both p e.path)
  rw [h1]
  congr 1
  apply List.map_congr_left
  intro y hy
  obtain ⟨hy1, hy2⟩ := List.mem_filter.mp hy
  have hyp : y.path = p := by simpa using hy2
  have := getField_node hinv hy1
  simp only [Function.comp, wOf, ← hyp, this]
  rfl

/-! ### the leaf-first pass, node by node -/

/-- scopes are nested: fields that can be present together lie on one root-to-leaf chain of nodes -/
def Nested (es : List Entry) : Prop :=
  ∀ e ∈ es, ∀ e' ∈ es, compatible e.reqs e'.reqs → e.path <+: e'.path ∨ e'.path <+: e.path

theorem nested_of_shape_eq {es es' : List Entry} (h : shape es' = shape es) (hn : Nested es) : Nested es' := by
  intro e he e' he' hc
  obtain ⟨x, hx, hxp, _⟩ := exists_of_shape_eq h he
  obtain ⟨x', hx', hxp', _⟩ := exists_of_shape_eq h he'
  have := hn x hx x' hx' (by rw [reqs_congr_path hxp, reqs_congr_path hxp']; exact hc)
  rw [hxp, hxp'] at this
  exact this

/-- state of the leaf-first pass after the nodes `done` -/
structure Good (L : Nat) (sh : List (Path × Ident)) (sk : List (Path × Nat)) (st : State) (done : List Path) : Prop where
  inv : Inv st
  len : st.length = L
  shape_eq : shape st.entries = sh
  skel_eq : skel st.entries = sk
  fixed : ∀ e ∈ st.entries, e.path ∈ done → ∃ l s, e.field.length = some l ∧ e.field.startAt = some s ∧
    s + l ≤ hgt sk e.path
  floating : ∀ e ∈ st.entries, e.path ∉ done → e.field.startAt = none

theorem node_step (hs : SCAN_SLACK = 1) {L : Nat} {es0 : List Entry} {sk : List (Path × Nat)} (hn : Nested es0)
    (hchain : ∀ x ∈ sk, segSum sk [] x.1 ≤ L) {st : State} {done : List Path} {p : Path}
    (hgood : Good L (shape es0) sk st done) (hp : p ∉ done) (hanc : ∀ q ∈ done, ¬ q <+: p)
    (hdesc : ∀ d ∈ nodePaths es0, p <+: d → d ≠ p → d ∈ done) :
    (assignLoopP true p.flatten (nodeIdents st.entries p) st (potentialMask st.entries p.flatten)).2 = none ∧
    Good L (shape es0) sk
      (assignLoopP true p.flatten (nodeIdents st.entries p) st (potentialMask st.entries p.flatten)).1 (done ++ [p]) := by
  have hinv := hgood.inv
  have hnest : Nested st.entries := nested_of_shape_eq hgood.shape_eq hn
  by_cases hne : ∃ y0 ∈ st.entries, y0.path = p
  · obtain ⟨y0, hy0, hy0p⟩ := hne
    have hreq0 : y0.reqs = p.flatten := by simp [Entry.reqs, hy0p]
    have hskmem : ∀ x ∈ st.entries, (x.path, x.width) ∈ sk := by
      intro x hx; rw [← hgood.skel_eq]; exact List.mem_map.mpr ⟨x, hx, rfl⟩
    -- the bits in use belong to sub-trees strictly below p
    have hb : Bounded (potentialMask st.entries p.flatten) (below sk p) := by
      intro i hi
      unfold potentialMask at hi
      rw [testBit_foldl_or] at hi
      simp only [Nat.zero_testBit, Bool.false_or, List.any_eq_true] at hi
      obtain ⟨x, hx, hbit⟩ := hi
      obtain ⟨hx1, hx2⟩ := List.mem_filter.mp hx
      obtain ⟨l, s, hl, hst, h1, h2⟩ := (testBit_fieldBits _ _).mp hbit
      have hxd : x.path ∈ done := by
        apply Classical.byContradiction
        intro hnd
        have := hgood.floating x hx1 hnd
        rw [hst] at this; cases this
      obtain ⟨l', s', hl', hs', hle⟩ := hgood.fixed x hx1 hxd
      rw [hl] at hl'; rw [hst] at hs'; cases hl'; cases hs'
      have hcomp : compatible y0.reqs x.reqs := by
        intro j v v' hv hv'
        rw [hreq0] at hv
        have hlk := lookup_of_mem_selfCompat (hreq0 ▸ hinv.selfc y0 hy0) hv
        exact ((potential_iff _ _).mp hx2 (j, v') hv' v hlk)
      have hrel := hnest y0 hy0 x hx1 hcomp
      rw [hy0p] at hrel
      rcases hrel with hrel | hrel
      · have hne' : x.path ≠ p := fun h => hp (h ▸ hxd)
        have := hgt_le_below (sk := sk) (p := p) (hskmem x hx1) hrel hne'
        simp only at this
        omega
      · exact absurd hrel (hanc _ hxd)
    have hsum := node_width_sum hinv p
    rw [hgood.skel_eq] at hsum
    have hroom : below sk p + segSum sk p p ≤ hgt sk p :=
      below_add_node_le_hgt ⟨(y0.path, y0.width), hskmem y0 hy0, hy0p⟩
    have hL := hgt_le_of_chains hchain p
    have hpre : ∀ i ∈ nodeIdents st.entries p, ∃ e, getField st.entries i p.flatten = some e ∧
        (e.field.isFixed = true ∨ e.field.startAt = none) := by
      intro i hi
      obtain ⟨y, hy, hyp, hyi⟩ := mem_nodeIdents.mp hi
      have := getField_node hinv hy
      rw [hyp, hyi] at this
      exact ⟨y, this, Or.inr (hgood.floating y hy (hyp ▸ hp))⟩
    have hnodes : ∀ i ∈ nodeIdents st.entries p, HasNodeField st.entries p i :=
      fun i hi => hasNodeField_of_mem_nodeIdents hi
    obtain ⟨hnone, hchar⟩ := loop_fits hs (nodeIdents st.entries p) st (potentialMask st.entries p.flatten)
      (below sk p) hinv (covers_potentialMask _ _) hnodes hb (by rw [hsum, hgood.len]; omega) hpre
    obtain ⟨hinv1, hlen1, _⟩ := assignLoopP_inv true p (nodeIdents st.entries p) st
      (potentialMask st.entries p.flatten) hinv (covers_potentialMask _ _) hnodes
    have hshape1 := assignLoopP_shape true p.flatten (nodeIdents st.entries p) st (potentialMask st.entries p.flatten)
    have hskel1 := assignLoopP_skel true p.flatten (nodeIdents st.entries p) st (potentialMask st.entries p.flatten)
    have hfixes := assignLoopP_fixes p.flatten (nodeIdents st.entries p) st (potentialMask st.entries p.flatten) hnone
    generalize assignLoopP true p.flatten (nodeIdents st.entries p) st (potentialMask st.entries p.flatten) = r
      at hnone hchar hinv1 hlen1 hshape1 hskel1 hfixes ⊢
    refine ⟨hnone, ⟨hinv1, hlen1.trans hgood.len, hshape1.trans hgood.shape_eq, hskel1.trans hgood.skel_eq, ?_, ?_⟩⟩
    · intro e' he' hpath
      rcases hchar e' he' with hold | ⟨hp', l, s, hl, hst, hle⟩
      · rcases List.mem_append.mp hpath with hd | hd
        · exact hgood.fixed e' hold hd
        · -- an old field of node p would still be floating, but the loop has fixed every field of p
          exfalso
          simp at hd
          have hfl := hgood.floating e' hold (hd ▸ hp)
          obtain ⟨x, hx, hxp, hxi⟩ := exists_of_shape_eq hshape1 he'
          have hid : e'.ident ∈ nodeIdents st.entries p := mem_nodeIdents.mpr ⟨x, hx, hxp.trans hd, hxi⟩
          have hg := getField_node hinv1 he'
          rw [hd] at hg
          have := hfixes e'.ident hid e' hg
          simp [Field.isFixed, hfl] at this
      · exact ⟨l, s, hl, hst, by rw [hp']; rw [hsum] at hle; omega⟩
    · intro e' he' hpath
      rcases hchar e' he' with hold | ⟨hp', _⟩
      · exact hgood.floating e' hold (fun hd => hpath (List.mem_append_left _ hd))
      · exact absurd (List.mem_append_right _ (by simp [hp'])) hpath
  · -- a node without fields (only the root can be one)
    have hnil : nodeIdents st.entries p = [] := by
      unfold nodeIdents
      rw [List.map_eq_nil_iff, List.filter_eq_nil_iff]
      intro a ha hap
      exact hne ⟨a, ha, by simpa using hap⟩
    rw [hnil]
    refine ⟨rfl, ⟨hinv, hgood.len, hgood.shape_eq, hgood.skel_eq, ?_, ?_⟩⟩
    · intro e' he' hpath
      rcases List.mem_append.mp hpath with hd | hd
      · exact hgood.fixed e' he' hd
      · exact absurd ⟨e', he', by simpa using hd⟩ hne
    · intro e' he' hpath
      exact hgood.floating e' he' (fun hd => hpath (List.mem_append_left _ hd))

theorem run_post (hs : SCAN_SLACK = 1) {L : Nat} {es0 : List Entry} {sk : List (Path × Nat)} (hn : Nested es0)
    (hchain : ∀ x ∈ sk, segSum sk [] x.1 ≤ L) {po : List Path} (hpw : po.Pairwise fun q r => ¬ q <+: r)
    (hcov : ∀ d ∈ nodePaths es0, d ∈ po) : ∀ (rest done : List Path) (st : State), po = done ++ rest →
    Good L (shape es0) sk st done → (assignRunP (rest.map fun p => (true, p)) st).2 = none := by
  intro rest
  induction rest with
  | nil => intro done st _ _; rfl
  | cons p rest ih =>
    intro done st hpo hgood
    rw [hpo, List.pairwise_append] at hpw
    obtain ⟨_, hpw2, hpw3⟩ := hpw
    rw [List.pairwise_cons] at hpw2
    have hanc : ∀ q ∈ done, ¬ q <+: p := fun q hq => hpw3 q hq p List.mem_cons_self
    have hp : p ∉ done := fun h => hanc p h (List.prefix_refl _)
    have hdesc : ∀ d ∈ nodePaths es0, p <+: d → d ≠ p → d ∈ done := by
      intro d hd hpd hne
      have := hcov d hd
      rw [hpo] at this
      rcases List.mem_append.mp this with h | h
      · exact h
      · rcases List.mem_cons.mp h with h | h
        · exact absurd h hne
        · exact absurd hpd (hpw2.1 d h)
    obtain ⟨hnone, hgood'⟩ := node_step hs hn hchain hgood hp hanc hdesc
    rw [List.map_cons, assignRunP_cons]
    generalize assignLoopP true p.flatten (nodeIdents st.entries p) st (potentialMask st.entries p.flatten) = r
      at hnone hgood' ⊢
    obtain ⟨s1, oe⟩ := r
    simp only at hnone
    subst hnone
    exact ih (done ++ [p]) s1 (by rw [hpo]; simp) hgood'

/-- **completeness for nested scopes**: with the repaired scan bound, nothing positioned explicitly, nested scopes
and every root-to-leaf chain of widths within the bit field, `assign_fields` raises nothing -/
theorem complete_floating_lemma (hs : SCAN_SLACK = 1) {st : State} (hinv : Inv st) (hstruct : Struct st.entries)
    (hF : ∀ e ∈ st.entries, e.field.startAt = none) (hn : Nested st.entries)
    (hchain : ∀ x ∈ skel st.entries, segSum (skel st.entries) [] x.1 ≤ st.length) :
    (assignFieldsP st).2 = none := by
  unfold assignFieldsP assignItems
  rw [assignRunP_append _ _ st st (run_noop hinv hF _)]
  refine run_post hs hn hchain (postOrder_pairwise (nodePaths_nodup _) _ _) ?_ _ [] st rfl
    ⟨hinv, rfl, rfl, rfl, fun e _ h => by simp at h, fun e he _ => hF e he⟩
  intro d hd
  refine postOrder_covers (fun q hq n => nodePaths_prefixClosed hstruct hq n) _ [] d hd List.nil_prefix ?_
  have := le_maxDepth hd
  simp only [List.length_nil]; omega

end Rig.C08
