/-
C03 - soundness of the strong-connectivity computation used by the oracle for the error clause: if
`stronglyConnected m` evaluates to true then every working chip reaches every working chip over working
links; hence a_star cannot fail on such a machine.  Core Lean only (plus the a_star lemma files).
-/
import RigModel.Model.C03
import RigModel.Lemmas.C03Tree
import RigModel.Lemmas.C03AStar
import RigModel.Lemmas.C03AStarComplete
import RigModel.Lemmas.C03AStarTotal
set_option linter.unusedSimpArgs false
set_option linter.unusedVariables false
namespace Rig.C03.L
open Rig.C03 Rig.Gen.C03Links

/-- everything the closure computation collects satisfies an invariant that `next` preserves -/
theorem closure_inv (next : Chip → List Chip) (P : Chip → Prop) (hnext : ∀ c x, P c → x ∈ next c → P x) :
    ∀ (fuel : Nat) (front seen : List Chip), (∀ c, c ∈ front → P c) → (∀ c, c ∈ seen → P c) →
      ∀ c, c ∈ closure next fuel front seen → P c := by
  intro fuel
  induction fuel with
  | zero => intro front seen _ hs c hc; simp only [closure] at hc; exact hs c hc
  | succ n ih =>
    intro front seen hf hs c hc
    cases front with
    | nil => simp only [closure] at hc; exact hs c hc
    | cons a front =>
      simp only [closure] at hc
      have hnew : ∀ x, x ∈ ((next a).eraseDups.filter fun n => !seen.contains n) → P x := by
        intro x hx
        simp only [List.mem_filter, List.mem_eraseDups] at hx
        exact hnext a x (hf a (by simp)) hx.1
      refine ih _ _ ?_ ?_ c hc
      · intro x hx
        simp only [List.mem_append] at hx
        rcases hx with hx | hx
        · exact hf x (by simp [hx])
        · exact hnew x hx
      · intro x hx
        simp only [List.mem_append] at hx
        rcases hx with hx | hx
        · exact hs x hx
        · exact hnew x hx

theorem succs_reach {m : Machine} {a c x : Chip} (h : Reach m a c) (hx : x ∈ succs m c) : Reach m a x := by
  simp only [succs, List.mem_filterMap] at hx
  obtain ⟨l, hl, hx⟩ := hx
  split at hx
  · rename_i hc
    simp only [Option.some.injEq] at hx
    subst hx
    simp only [Bool.and_eq_true] at hc
    exact Reach.hop l h (linkOrder_lt l hl) hc.1 hc.2
  · simp at hx

theorem preds_reach {m : Machine} {a c x : Chip} (h : Reach m c a) (hx : x ∈ preds m c) : Reach m x a := by
  simp only [preds, List.mem_filterMap] at hx
  obtain ⟨l, hl, hx⟩ := hx
  split at hx
  · rename_i hc
    simp only [Option.some.injEq] at hx
    subst hx
    simp only [Bool.and_eq_true, beq_iff_eq] at hc
    obtain ⟨⟨h1, h2⟩, h3⟩ := hc
    have : Reach m (step m c (opp l)) (step m (step m c (opp l)) l) :=
      Reach.hop l (Reach.refl _) (linkOrder_lt l hl) h1 (by rw [h3]; exact h2)
    rw [h3] at this
    exact reach_trans this h
  · simp at hx

theorem mem_liveChips {m : Machine} {c : Chip} (hc : chipOk m c = true) : c ∈ liveChips m := by
  obtain ⟨h1, h2, h3, h4⟩ := chipOk_inRange hc
  simp only [liveChips, List.mem_flatMap, List.mem_range, List.mem_filterMap]
  have e : ((c.1.toNat : Int), (c.2.toNat : Int)) = c := by ext <;> simp <;> omega
  refine ⟨c.1.toNat, by omega, c.2.toNat, by omega, ?_⟩
  rw [e, if_pos hc]

/-- **The strong-connectivity oracle is sound**: if it evaluates to true, every working chip reaches every
working chip over working links between working chips. -/
theorem stronglyConnected_sound (m : Machine) (hs : stronglyConnected m = true) (a b : Chip)
    (ha : chipOk m a = true) (hb : chipOk m b = true) : Reach m a b := by
  unfold stronglyConnected at hs
  have hma := mem_liveChips ha
  have hmb := mem_liveChips hb
  split at hs
  · rename_i hnil; rw [hnil] at hma; simp at hma
  · rename_i c0 rest hlive
    rw [hlive] at hma hmb
    simp only [List.all_eq_true, Bool.and_eq_true, List.contains_iff_mem] at hs
    have hfwd : ∀ c, c ∈ closure (succs m) (m.w * m.h + 1) [c0] [c0] → Reach m c0 c :=
      closure_inv (succs m) (fun c => Reach m c0 c) (fun c x hc hx => succs_reach hc hx) _ _ _
        (by intro c hc; simp at hc; subst hc; exact Reach.refl _)
        (by intro c hc; simp at hc; subst hc; exact Reach.refl _)
    have hbwd : ∀ c, c ∈ closure (preds m) (m.w * m.h + 1) [c0] [c0] → Reach m c c0 :=
      closure_inv (preds m) (fun c => Reach m c c0) (fun c x hc hx => preds_reach hc hx) _ _ _
        (by intro c hc; simp at hc; subst hc; exact Reach.refl _)
        (by intro c hc; simp at hc; subst hc; exact Reach.refl _)
    exact reach_trans (hbwd a (hs a hma).2) (hfwd b (hs b hmb).1)

/-- **On a strongly connected machine `a_star` succeeds** whenever the sink is a working chip that is not a
source and at least one source is a working chip. -/
theorem aStar_succeeds (m : Machine) (hs : stronglyConnected m = true) (sink hsrc : Chip) (sources : List Chip)
    (wrap : Bool) (hsink : chipOk m sink = true) (hns : sources.contains sink = false)
    (hsrc' : ∃ s, s ∈ sources ∧ chipOk m s = true) : ∃ path, aStar sink hsrc sources m wrap = .ok path := by
  cases h : aStar sink hsrc sources m wrap with
  | ok path => exact ⟨path, rfl⟩
  | error e =>
    exfalso
    have he := aStar_only_disconnected m sink hsrc sources wrap (chipOk_inRange hsink) hns e h
    subst he
    obtain ⟨s, hs1, hs2⟩ := hsrc'
    exact aStar_complete m sink hsrc sources wrap (chipOk_inRange hsink) h s hs1
      (stronglyConnected_sound m hs s sink hs2 hsink)

end Rig.C03.L
