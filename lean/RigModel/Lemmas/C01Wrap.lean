/-
C01 (capstone, wrappers) - bridge lemmas between C14's machine / reservations and the stage models' types.
-/
import RigModel.Model.C01Wrap
import RigModel.Lemmas.C01Stage
import RigModel.Props.C14
import RigModel.Props.C05
set_option linter.unusedSimpArgs false
set_option linter.unusedVariables false

namespace Rig.C01Wrap.L
open Rig.C01 Rig.C01Pipe Rig.C01Wrap
open Rig.C03 (Chip chipOk linkOk)
open Rig.C14 (SysInfo ChipInfo PMachine Reservation buildMachine coreConstraints busy coverCount)
open Rig.Gen.C14 (APPSTATE_IDLE)

theorem chipZ_inj' {a b : Nat × Nat} (h : chipZ a = chipZ b) : a = b := Rig.C01.L.chipZ_inj h

theorem contains_map_chipZ (l : List (Nat × Nat)) (c : Nat × Nat) :
    (l.map chipZ).contains (chipZ c) = l.contains c := by
  rw [Bool.eq_iff_iff]
  simp only [List.contains_iff_mem, List.mem_map]
  constructor
  · rintro ⟨a, ha, he⟩; rw [← chipZ_inj' he]; exact ha
  · intro h; exact ⟨c, h, rfl⟩

theorem lookup_map_chipZ {α β : Type} (g : α → β) (c : Nat × Nat) :
    ∀ l : List ((Nat × Nat) × α), (l.map fun e => (chipZ e.1, g e.2)).lookup (chipZ c) = (l.lookup c).map g
  | [] => rfl
  | (k, v) :: t => by
    simp only [List.map_cons, List.lookup_cons]
    by_cases hk : c = k
    · subst hk; simp
    · have h1 : (c == k) = false := by simpa using hk
      have h2 : (chipZ c == chipZ k) = false := by
        simp only [beq_eq_false_iff_ne, ne_eq]
        intro h; exact hk (chipZ_inj' h)
      rw [h1, h2]
      exact lookup_map_chipZ g c t

theorem aget_map_snd {α β : Type} (g : α → β) (c : Nat × Nat) :
    ∀ l : List ((Nat × Nat) × α), Rig.C02.aget (l.map fun e => (e.1, g e.2)) c = (l.lookup c).map g
  | [] => rfl
  | (k, v) :: t => by
    simp only [List.map_cons, Rig.C02.aget, List.lookup_cons]
    by_cases hk : k = c
    · subst hk; simp
    · have h1 : (c == k) = false := by simpa using fun h : c = k => hk h.symm
      rw [if_neg hk, h1]
      exact aget_map_snd g c t

/-! ### chips and links -/

/-- **chips**: the router's / network's machine has exactly the chips of C14's machine -/
theorem chipOk_bridge (si : SysInfo) (wp : WProblem) (c : Nat × Nat) :
    chipOk (machine3 (problemOf si wp)) (chipZ c) = (buildMachine si).chipOk c := by
  simp only [chipOk, machine3, problemOf, machine02, PMachine.chipOk, contains_map_chipZ]
  simp only [chipZ]
  rw [Bool.eq_iff_iff]
  simp only [Bool.and_eq_true, decide_eq_true_eq, Bool.not_eq_true', Int.natCast_nonneg, true_and, and_true,
    Int.ofNat_lt]

/-- C14's machine contains a chip only if it has natural coordinates -/
theorem chipOk_nat {si : SysInfo} {wp : WProblem} {xy : Chip}
    (h : chipOk (machine3 (problemOf si wp)) xy = true) :
    ∃ c : Nat × Nat, xy = chipZ c ∧ (buildMachine si).chipOk c = true := by
  have hb := Rig.C01.L.chipOk_bounds h
  refine ⟨(xy.1.toNat, xy.2.toNat), ?_, ?_⟩
  · simp only [chipZ]
    apply Prod.ext
    · simp only; omega
    · simp only; omega
  · rw [← chipOk_bridge si wp]
    have : chipZ (xy.1.toNat, xy.2.toNat) = xy := by
      simp only [chipZ]
      apply Prod.ext
      · simp only; omega
      · simp only; omega
    rw [this]; exact h

theorem contains_deadLinks03 (m : PMachine) (c : Nat × Nat) (l : Nat) :
    (deadLinks03 m).contains (chipZ c, l) = m.deadLinks.contains (c.1, c.2, l) := by
  rw [Bool.eq_iff_iff]
  simp only [List.contains_iff_mem, deadLinks03, List.mem_map]
  constructor
  · rintro ⟨⟨x, y, l'⟩, ha, he⟩
    simp only [Prod.mk.injEq] at he
    have := chipZ_inj' he.1
    rw [← this, ← he.2]; exact ha
  · intro h; exact ⟨(c.1, c.2, l), h, rfl⟩

/-- **links**: ... and exactly its links -/
theorem linkOk_bridge (si : SysInfo) (wp : WProblem) (c : Nat × Nat) (l : Nat) :
    linkOk (machine3 (problemOf si wp)) (chipZ c) l = (buildMachine si).linkOk c.1 c.2 l := by
  unfold linkOk PMachine.linkOk
  rw [chipOk_bridge]
  have : (machine3 (problemOf si wp)).deadLinks = deadLinks03 (buildMachine si) := rfl
  rw [this, contains_deadLinks03]

/-- a link the SystemInfo does not report working is a dead link of the router's machine -/
theorem link_dead_of_not_reported {si : SysInfo} (hwf : si.WF) (wp : WProblem) {c : Nat × Nat} {l : Nat}
    (hl : l < 6) (h : si.hasLink c.1 c.2 l = false) :
    linkOk (machine3 (problemOf si wp)) (chipZ c) l = false := by
  rw [linkOk_bridge]
  cases hx : (buildMachine si).linkOk c.1 c.2 l with
  | false => rfl
  | true =>
    have := (Rig.C14.buildMachine_link si hwf c.1 c.2 l hl).1 hx
    have h2 := ((Rig.C14.contains_exact si hwf.1).2.1 c.1 c.2 l).2 this
    rw [h] at h2; cases h2

/-! ### the allocator's machine -/

theorem m5_contains (si : SysInfo) (wp : WProblem) (xy : Chip) :
    (m5 (problemOf si wp)).contains xy = chipOk (machine3 (problemOf si wp)) xy := by
  rw [Bool.eq_iff_iff]
  simp only [Rig.C05.Machine.contains, chipOk, Bool.and_eq_true, decide_eq_true_eq, Bool.not_eq_true']
  constructor
  · rintro ⟨⟨h1, h2, h3, h4⟩, h5⟩; exact ⟨⟨⟨⟨h1, h2⟩, h3⟩, h4⟩, h5⟩
  · rintro ⟨⟨⟨⟨h1, h2⟩, h3⟩, h4⟩, h5⟩; exact ⟨⟨h1, h2, h3, h4⟩, h5⟩

/-- **quantities**: the capacity of the core resource on a chip of the allocator's machine is the core count C14's
machine gives the chip -/
theorem capacity_cores (si : SysInfo) (wp : WProblem) (c : Nat × Nat) (k : Int)
    (h : Rig.C05.capacity (m5 (problemOf si wp)) (chipZ c) 0 = some k) :
    (buildMachine si).chipOk c = true ∧ k = (((buildMachine si).resources c).1 : Int) := by
  unfold Rig.C05.capacity Rig.C05.Machine.get at h
  rw [m5_contains, chipOk_bridge] at h
  cases hc : (buildMachine si).chipOk c with
  | false => simp [hc] at h
  | true =>
    refine ⟨rfl, ?_⟩
    simp only [hc, if_true, Option.bind_some] at h
    have e : (m5 (problemOf si wp)).exceptions =
        (buildMachine si).exceptions.map fun e => (chipZ e.1, resAssoc (vec3 e.2)) := by
      simp [m5, problemOf, machine02, List.map_map, Function.comp_def]
    rw [e, lookup_map_chipZ (fun q => resAssoc (vec3 q)) c] at h
    unfold PMachine.resources
    cases hl : (buildMachine si).exceptions.lookup c with
    | none =>
      rw [hl] at h
      simp only [Option.map_none, Option.getD_none] at h
      have : (m5 (problemOf si wp)).chipResources =
          resAssoc (vec3 ((buildMachine si).cores, (buildMachine si).sdram, (buildMachine si).sram)) := rfl
      rw [this] at h
      simp [resAssoc, vec3, List.zipIdx, List.lookup] at h
      simp [h]
    | some q =>
      rw [hl] at h
      simp only [Option.map_some, Option.getD_some] at h
      simp [resAssoc, vec3, List.zipIdx, List.lookup] at h
      simp [h]

/-- the capacity of the core resource anywhere is the core count of a described chip -/
theorem capacity_described {si : SysInfo} (hwf : si.WF) (wp : WProblem) {xy : Chip} {k : Int}
    (h : Rig.C05.capacity (m5 (problemOf si wp)) xy 0 = some k) :
    ∃ c ci, xy = chipZ c ∧ (c, ci) ∈ si.chips ∧ k = (ci.numCores : Int) := by
  have hcont : (m5 (problemOf si wp)).contains xy = true := by
    unfold Rig.C05.capacity Rig.C05.Machine.get at h
    cases hc : (m5 (problemOf si wp)).contains xy with
    | true => rfl
    | false => simp [hc] at h
  rw [m5_contains] at hcont
  obtain ⟨c, rfl, hok⟩ := chipOk_nat hcont
  obtain ⟨_, hk⟩ := capacity_cores si wp c k h
  obtain ⟨ci, hci⟩ := (Rig.C14.buildMachine_chip si hwf c.1 c.2).1 hok
  refine ⟨c, ci, rfl, hci, ?_⟩
  rw [hk, Rig.C14.buildMachine_resources si hwf c ci hci]

/-! ### non-negative chip resources -/

theorem dem_vec3_nonneg (q : Nat × Nat × Nat) (i : Nat) : 0 ≤ Rig.C02.dem (vec3 q) i := by
  unfold Rig.C02.dem vec3
  match i with
  | 0 => simp
  | 1 => simp
  | 2 => simp
  | i + 3 => simp

theorem nonnegCap (si : SysInfo) (wp : WProblem) : Rig.C02.NonNegCap (problemOf si wp).m2 := by
  intro c _ i
  unfold Rig.C02.cap
  have e : (problemOf si wp).m2.exc = (buildMachine si).exceptions.map fun e => (e.1, vec3 e.2) := rfl
  rw [e, aget_map_snd]
  cases (buildMachine si).exceptions.lookup c with
  | none => exact dem_vec3_nonneg _ i
  | some q => exact dem_vec3_nonneg _ i

/-! ### constraints -/

theorem mem_constraintsOf {si : SysInfo} {cs : List PC} {pc : PC} (h : pc ∈ constraintsOf si cs) :
    (∃ r ∈ coreConstraints si, pc = Reservation.toPC r) ∨ pc ∈ cs := by
  simp only [constraintsOf, List.mem_append, List.mem_map] at h
  rcases h with ⟨r, hr, rfl⟩ | h
  · exact Or.inl ⟨r, hr, rfl⟩
  · exact Or.inr h

/-- a reservation of `build_core_constraints` that applies to chip `c` is one of the reserved ranges the allocator
keeps clear of on that chip -/
theorem reservation_reserved {si : SysInfo} {cs : List PC} {r : Reservation} (hr : r ∈ coreConstraints si)
    {c : Nat × Nat} (ha : r.appliesTo c = true) :
    (⟨(r.start : Int), (r.stop : Int)⟩ : Rig.C05.Slice) ∈
      Rig.C05.reserved ((constraintsOf si cs).map PC.to05) (chipZ c) 0 := by
  have hm : PC.to05 (Reservation.toPC r) ∈ (constraintsOf si cs).map PC.to05 :=
    List.mem_map.2 ⟨_, List.mem_append_left _ (List.mem_map.2 ⟨r, hr, rfl⟩), rfl⟩
  simp only [Reservation.toPC, PC.to05] at hm
  unfold Rig.C05.reserved
  rw [List.mem_append]
  unfold Reservation.appliesTo at ha
  cases hc : r.chip with
  | none =>
    left
    rw [hc] at hm
    simp only [Rig.C05.globalRes, List.mem_filterMap]
    exact ⟨_, hm, by simp⟩
  | some c' =>
    right
    rw [hc] at hm ha
    simp only [beq_iff_eq] at ha
    subst ha
    simp only [Rig.C05.localRes, List.mem_filterMap]
    exact ⟨_, hm, by simp⟩

end Rig.C01Wrap.L
