/-
C14 - `SystemInfo.__contains__`, `links()`, `cores()` and `build_routing_table_target_lengths`
enumerate exactly the described chips / links / cores and report the probed router block.
-/
import RigModel.Lemmas.C14i
namespace Rig.C14
open Rig.Gen.C14
set_option linter.unusedSimpArgs false
set_option linter.unusedVariables false

theorem lookup_none_of_not_mem {β : Type} (l : List ((Nat × Nat) × β)) (k : Nat × Nat)
    (h : k ∉ l.map (·.1)) : l.lookup k = none := by
  induction l with
  | nil => rfl
  | cons e t ih =>
    obtain ⟨k', v'⟩ := e
    simp only [List.map_cons, List.mem_cons, not_or] at h
    have : (k == k') = false := by simpa using h.1
    simp only [List.lookup, this]
    exact ih h.2

/-- in an association list with distinct keys, `lookup` finds exactly the members -/
theorem lookup_iff_mem {β : Type} (l : List ((Nat × Nat) × β)) (hnd : (l.map (·.1)).Nodup) (k : Nat × Nat) (v : β) :
    l.lookup k = some v ↔ (k, v) ∈ l := by
  constructor
  · exact lookup_mem_snd l k v
  · intro hmem
    induction l with
    | nil => cases hmem
    | cons e t ih =>
      obtain ⟨k', v'⟩ := e
      simp only [List.map_cons, List.nodup_cons] at hnd
      simp only [List.mem_cons, Prod.mk.injEq] at hmem
      rcases hmem with ⟨rfl, rfl⟩ | hmem
      · simp [List.lookup]
      · have hne : k ≠ k' := by
          intro heq; subst heq
          exact hnd.1 (List.mem_map.2 ⟨(k, v), hmem, rfl⟩)
        have : (k == k') = false := by simpa using hne
        simp only [List.lookup, this]
        exact ih hnd.2 hmem

/-! ### `__contains__` -/

theorem hasLink_iff (si : SysInfo) (hnd : (si.chips.map (·.1)).Nodup) (x y l : Nat) :
    si.hasLink x y l = true ↔ ∃ ci, ((x, y), ci) ∈ si.chips ∧ l ∈ ci.links := by
  unfold SysInfo.hasLink
  cases hl : si.chips.lookup (x, y) with
  | none =>
    simp only [Bool.false_eq_true, false_iff]
    rintro ⟨ci, hmem, _⟩
    rw [(lookup_iff_mem si.chips hnd (x, y) ci).2 hmem] at hl
    cases hl
  | some ci =>
    have hmem := (lookup_iff_mem si.chips hnd (x, y) ci).1 hl
    simp only [List.contains_iff_mem]
    constructor
    · intro h; exact ⟨ci, hmem, h⟩
    · rintro ⟨ci', hmem', h⟩
      rw [chips_unique si.chips hnd (x, y) ci ci' hmem hmem']; exact h

theorem hasCore_iff (si : SysInfo) (hnd : (si.chips.map (·.1)).Nodup) (x y p : Nat) :
    si.hasCore x y p = true ↔ ∃ ci, ((x, y), ci) ∈ si.chips ∧ p < ci.numCores := by
  unfold SysInfo.hasCore
  cases hl : si.chips.lookup (x, y) with
  | none =>
    simp only [Bool.false_eq_true, false_iff]
    rintro ⟨ci, hmem, _⟩
    rw [(lookup_iff_mem si.chips hnd (x, y) ci).2 hmem] at hl
    cases hl
  | some ci =>
    have hmem := (lookup_iff_mem si.chips hnd (x, y) ci).1 hl
    simp only [decide_eq_true_eq]
    constructor
    · intro h; exact ⟨ci, hmem, h⟩
    · rintro ⟨ci', hmem', h⟩
      rw [chips_unique si.chips hnd (x, y) ci ci' hmem hmem']; exact h

theorem coreStateIs_iff (ci : ChipInfo) (p s : Nat) :
    ci.coreStateIs p s = .ok true ↔ p < ci.numCores ∧ ci.coreStates[p]? = some s := by
  unfold ChipInfo.coreStateIs
  by_cases hp : p < ci.numCores
  · simp only [hp, if_true, true_and]
    cases hg : ci.coreStates[p]? with
    | none => simp
    | some s' => simp
  · simp [hp]

theorem hasCoreState_iff (si : SysInfo) (hnd : (si.chips.map (·.1)).Nodup) (x y p s : Nat) :
    si.hasCoreState x y p s = .ok true ↔
      ∃ ci, ((x, y), ci) ∈ si.chips ∧ p < ci.numCores ∧ ci.coreStates[p]? = some s := by
  unfold SysInfo.hasCoreState
  cases hl : si.chips.lookup (x, y) with
  | none =>
    simp only [Except.ok.injEq, Bool.false_eq_true, false_iff]
    rintro ⟨ci, hmem, _⟩
    rw [(lookup_iff_mem si.chips hnd (x, y) ci).2 hmem] at hl
    cases hl
  | some ci =>
    have hmem := (lookup_iff_mem si.chips hnd (x, y) ci).1 hl
    simp only [coreStateIs_iff]
    constructor
    · intro h; exact ⟨ci, hmem, h⟩
    · rintro ⟨ci', hmem', h⟩
      rw [chips_unique si.chips hnd (x, y) ci ci' hmem hmem']; exact h

/-- `(x, y, p, state) in system_info` does not raise when every record has a state for each core -/
theorem hasCoreState_total (si : SysInfo) (hlen : ∀ xy ci, (xy, ci) ∈ si.chips → ci.numCores ≤ ci.coreStates.length)
    (x y p s : Nat) : ∃ b, si.hasCoreState x y p s = .ok b := by
  unfold SysInfo.hasCoreState
  cases hl : si.chips.lookup (x, y) with
  | none => exact ⟨false, rfl⟩
  | some ci =>
    have hmem := lookup_mem_snd si.chips (x, y) ci hl
    have := hlen _ _ hmem
    simp only [ChipInfo.coreStateIs]
    by_cases hp : p < ci.numCores
    · have hlt : p < ci.coreStates.length := by omega
      simp only [hp, if_true, List.getElem?_eq_getElem hlt]
      exact ⟨_, rfl⟩
    · simp only [hp, if_false]
      exact ⟨false, rfl⟩

/-! ### `links()`, `cores()`, target lengths -/

theorem mem_liveLinks (si : SysInfo) (x y l : Nat) :
    (x, y, l) ∈ si.liveLinks ↔ ∃ ci, ((x, y), ci) ∈ si.chips ∧ l ∈ ci.links := by
  simp only [SysInfo.liveLinks, List.mem_flatMap, List.mem_map, Prod.mk.injEq]
  constructor
  · rintro ⟨⟨⟨a, b⟩, ci⟩, hmem, l', hl', rfl, rfl, rfl⟩
    exact ⟨ci, hmem, hl'⟩
  · rintro ⟨ci, hmem, hl⟩
    exact ⟨((x, y), ci), hmem, l, hl, rfl, rfl, rfl⟩

theorem mem_cores (si : SysInfo) (x y p s : Nat) :
    (x, y, p, s) ∈ si.cores ↔ ∃ ci, ((x, y), ci) ∈ si.chips ∧ ci.coreStates[p]? = some s := by
  simp only [SysInfo.cores, List.mem_flatMap, List.mem_map, Prod.mk.injEq]
  constructor
  · rintro ⟨⟨⟨a, b⟩, ci⟩, hmem, ⟨s', p'⟩, hsp, rfl, rfl, rfl, rfl⟩
    rw [List.mem_zipIdx_iff_getElem?] at hsp
    exact ⟨ci, hmem, hsp⟩
  · rintro ⟨ci, hmem, hg⟩
    exact ⟨((x, y), ci), hmem, (s, p), List.mem_zipIdx_iff_getElem?.2 hg, rfl, rfl, rfl, rfl⟩

theorem targetLengths_keys (si : SysInfo) : (targetLengths si).map (·.1) = si.chips.map (·.1) := by
  simp only [targetLengths, List.map_map]
  rfl

theorem mem_targetLengths (si : SysInfo) (xy : Nat × Nat) (n : Nat) :
    (xy, n) ∈ targetLengths si ↔ ∃ ci, (xy, ci) ∈ si.chips ∧ n = ci.rtr := by
  simp only [targetLengths, List.mem_map, Prod.mk.injEq]
  constructor
  · rintro ⟨⟨xy', ci⟩, hmem, rfl, rfl⟩
    exact ⟨ci, hmem, rfl⟩
  · rintro ⟨ci, hmem, rfl⟩
    exact ⟨(xy, ci), hmem, rfl, rfl⟩

theorem targetLengths_lookup (si : SysInfo) (hnd : (si.chips.map (·.1)).Nodup) (xy : Nat × Nat) (n : Nat) :
    (targetLengths si).lookup xy = some n ↔ ∃ ci, (xy, ci) ∈ si.chips ∧ n = ci.rtr := by
  rw [lookup_iff_mem _ (by rw [targetLengths_keys]; exact hnd), mem_targetLengths]


/-! ### the views of the description returned by probing the machine specification -/

theorem chipView_states_get (st : ChipState) (p s : Nat) :
    (chipView st).coreStates[p]? = some s ↔ p < st.cores ∧ st.states[p]? = some s := by
  simp only [chipView, List.getElem?_take]
  by_cases hp : p < st.cores
  · simp [hp]
  · simp [hp]

/-- the statement of `probe_views_exact` about a description `si` -/
def MachineState.ViewsExact (m : MachineState) (si : SysInfo) : Prop :=
  (∀ xy, si.has xy = true ↔ m.listed xy = true ∧ (m.chips.lookup xy).isSome = true) ∧
  (∀ x y l, si.hasLink x y l = true ↔
    ∃ st, m.listed (x, y) = true ∧ m.chips.lookup (x, y) = some st ∧ l < 6 ∧ l ∈ st.links) ∧
  (∀ x y p, si.hasCore x y p = true ↔
    ∃ st, m.listed (x, y) = true ∧ m.chips.lookup (x, y) = some st ∧ p < st.cores) ∧
  (∀ x y p s, (∃ b, si.hasCoreState x y p s = .ok b) ∧ (si.hasCoreState x y p s = .ok true ↔
    ∃ st, m.listed (x, y) = true ∧ m.chips.lookup (x, y) = some st ∧ p < st.cores ∧ st.states[p]? = some s)) ∧
  (∀ x y l, (x, y, l) ∈ si.liveLinks ↔
    ∃ st, m.listed (x, y) = true ∧ m.chips.lookup (x, y) = some st ∧ l < 6 ∧ l ∈ st.links) ∧
  (∀ x y p s, (x, y, p, s) ∈ si.cores ↔
    ∃ st, m.listed (x, y) = true ∧ m.chips.lookup (x, y) = some st ∧ p < st.cores ∧ st.states[p]? = some s) ∧
  (∀ xy n, (targetLengths si).lookup xy = some n ↔
    ∃ st, m.listed xy = true ∧ m.chips.lookup xy = some st ∧ n = st.rtr)

theorem viewsExact_sysInfo (m : MachineState) (hwf : ∀ xy st, m.chips.lookup xy = some st → st.WF)
    (hl : ∃ xy, m.listed xy = true) : m.ViewsExact m.sysInfo := by
  have hWF := sysInfo_WF m hl
  have hnd := hWF.1
  -- transfer: a statement about a record of the description is a statement about the chip's state
  have tr : ∀ (xy : Nat × Nat) (P : ChipInfo → Prop),
      (∃ ci, (xy, ci) ∈ m.sysInfo.chips ∧ P ci) ↔
        ∃ st, m.listed xy = true ∧ m.chips.lookup xy = some st ∧ P (chipView st) := by
    intro xy P
    constructor
    · rintro ⟨ci, hmem, hP⟩
      obtain ⟨st, h1, h2, rfl⟩ := (mem_sysInfo m xy ci).1 hmem
      exact ⟨st, h1, h2, hP⟩
    · rintro ⟨st, h1, h2, hP⟩
      exact ⟨chipView st, (mem_sysInfo m xy _).2 ⟨st, h1, h2, rfl⟩, hP⟩
  have hlen : ∀ xy ci, (xy, ci) ∈ m.sysInfo.chips → ci.numCores ≤ ci.coreStates.length := by
    intro xy ci hmem
    obtain ⟨st, _, h2, rfl⟩ := (mem_sysInfo m xy ci).1 hmem
    obtain ⟨hc, hl18, _⟩ := hwf xy st h2
    simp only [chipView, List.length_take]; omega
  refine ⟨?_, ?_, ?_, ?_, ?_, ?_, ?_⟩
  · intro xy
    rw [has_iff]
    have := tr xy (fun _ => True)
    simp only [and_true] at this
    rw [this]
    constructor
    · rintro ⟨st, h1, h2⟩; exact ⟨h1, by rw [h2]; rfl⟩
    · rintro ⟨h1, h2⟩
      cases hst : m.chips.lookup xy with
      | none => rw [hst] at h2; cases h2
      | some st => exact ⟨st, h1, rfl⟩
  · intro x y l
    rw [hasLink_iff _ hnd, tr (x, y) (fun ci => l ∈ ci.links)]
    simp only [mem_chipView_links]
  · intro x y p
    rw [hasCore_iff _ hnd, tr (x, y) (fun ci => p < ci.numCores)]
    rfl
  · intro x y p s
    refine ⟨hasCoreState_total _ hlen x y p s, ?_⟩
    rw [hasCoreState_iff _ hnd, tr (x, y) (fun ci => p < ci.numCores ∧ ci.coreStates[p]? = some s)]
    simp only [chipView_states_get]
    constructor
    · rintro ⟨st, h1, h2, _, h3, h4⟩; exact ⟨st, h1, h2, h3, h4⟩
    · rintro ⟨st, h1, h2, h3, h4⟩; exact ⟨st, h1, h2, h3, h3, h4⟩
  · intro x y l
    rw [mem_liveLinks, tr (x, y) (fun ci => l ∈ ci.links)]
    simp only [mem_chipView_links]
  · intro x y p s
    rw [mem_cores, tr (x, y) (fun ci => ci.coreStates[p]? = some s)]
    simp only [chipView_states_get]
  · intro xy n
    rw [targetLengths_lookup _ hnd, tr xy (fun ci => n = ci.rtr)]
    rfl

end Rig.C14
