import RigModel.Lemmas.C14f
namespace Rig.C14
open Rig.Gen.C14
set_option linter.unusedSimpArgs false

theorem leVal_le16 (n : Nat) (h : n < 65536) : leVal (le16 n) = n := by
  simp only [le16, leVal]; omega

theorem leVal_one (b : Nat) : leVal [b] = b := by simp [leVal]

/-- unpacking the documented layout gives each field its value -/
theorem unpackFields_statusBytes (r0 r1 r2 r3 r4 r5 r6 r7 u0 u1 u2 u3 : Nat) (s : Status) (swTop : Nat)
    (name16 pad : List Nat) (hn : name16.length = 16) (hp : pad.length = 16)
    (hr : s.registers = [r0, r1, r2, r3, r4, r5, r6, r7]) (hu : s.userVars = [u0, u1, u2, u3]) :
    unpackFields (statusBytes s swTop name16 pad) VCPU_FIELDS = .ok
      [("r0", .int (leVal (le32 r0))), ("r1", .int (leVal (le32 r1))), ("r2", .int (leVal (le32 r2))),
       ("r3", .int (leVal (le32 r3))), ("r4", .int (leVal (le32 r4))), ("r5", .int (leVal (le32 r5))),
       ("r6", .int (leVal (le32 r6))), ("r7", .int (leVal (le32 r7))), ("psr", .int (leVal (le32 s.psr))),
       ("sp", .int (leVal (le32 s.sp))), ("lr", .int (leVal (le32 s.lr))), ("rt_code", .int (leVal [s.rtCode])),
       ("phys_cpu", .int (leVal [s.physCpu])), ("cpu_state", .int (leVal [s.cpuState])),
       ("app_id", .int (leVal [s.appId])), ("mbox_ap_msg", .int (leVal (le32 s.mboxApMsg))),
       ("mbox_mp_msg", .int (leVal (le32 s.mboxMpMsg))), ("mbox_ap_cmd", .int (leVal [s.mboxApCmd])),
       ("mbox_mp_cmd", .int (leVal [s.mboxMpCmd])), ("sw_count", .int (leVal (le16 s.swCount))),
       ("sw_file", .int (leVal (le32 s.swFile))), ("sw_line", .int (leVal (le32 s.swLine))),
       ("time", .int (leVal (le32 s.time))), ("app_name", .str name16), ("iobuf", .int (leVal (le32 s.iobuf))),
       ("sw_ver", .int (leVal [s.version.2.2, s.version.2.1, s.version.1, swTop])),
       ("__PAD", .int (leVal (pad.take 4))), ("user0", .int (leVal (le32 u0))), ("user1", .int (leVal (le32 u1))),
       ("user2", .int (leVal (le32 u2))), ("user3", .int (leVal (le32 u3)))] := by
  match name16, hn with
  | [n0, n1, n2, n3, n4, n5, n6, n7, n8, n9, n10, n11, n12, n13, n14, n15], _ =>
  match pad, hp with
  | [p0, p1, p2, p3, p4, p5, p6, p7, p8, p9, p10, p11, p12, p13, p14, p15], _ =>
  simp only [statusBytes, hr, hu, VCPU_FIELDS, unpackFields, le32, le16, List.flatMap_cons, List.flatMap_nil,
    List.cons_append, List.nil_append, List.append_nil, List.drop_succ_cons, List.drop_zero, List.take_succ_cons,
    List.take_zero, List.length_cons, List.length_nil, ne_eq, not_true, if_false, Nat.reduceAdd,
    Bool.false_eq_true, if_true]

end Rig.C14
