/-
C02 (companion) - the Hilbert L-system of hilbert.py: the curve of level n started in any frame
(position, axis direction, handedness) visits every point of the 2^n x 2^n square of that frame
exactly once and ends at the far end of the first side, heading as it started.  Induction on the
level; the arithmetic of the four sub-frames is isolated in `frame_*`.
-/
import RigModel.Model.C02Orders
set_option linter.unusedSimpArgs false
set_option linter.unusedVariables false

namespace Rig.C02Orders

/-- the heading is one of the four axis directions -/
def unitDir (s : HState) : Prop :=
  (s.dx = 1 ∧ s.dy = 0) ∨ (s.dx = 0 ∧ s.dy = 1) ∨ (s.dx = -1 ∧ s.dy = 0) ∨ (s.dx = 0 ∧ s.dy = -1)

/-- `q` lies in the square of side `N` that has the position of `s` as a corner, one side along
the heading of `s` and the other along the heading turned "left" for angle `a` -/
def inSq (s : HState) (a : Int) (N : Int) (q : Int × Int) : Prop :=
  0 ≤ (q.1 - s.x) * s.dx + (q.2 - s.y) * s.dy ∧ (q.1 - s.x) * s.dx + (q.2 - s.y) * s.dy < N ∧
  0 ≤ (q.1 - s.x) * (s.dy * -a) + (q.2 - s.y) * (s.dx * a) ∧
  (q.1 - s.x) * (s.dy * -a) + (q.2 - s.y) * (s.dx * a) < N

/-- where a curve over a square of side `N` ends -/
def endOf (s : HState) (N : Int) : HState :=
  { x := s.x + (N - 1) * s.dx, y := s.y + (N - 1) * s.dy, dx := s.dx, dy := s.dy }

def sub1 (s : HState) (a : Int) : HState := s.left a
def sub2 (s : HState) (a N : Int) : HState := ((endOf (sub1 s a) N).fwd).right a
def sub3 (s : HState) (a N : Int) : HState := (endOf (sub2 s a N) N).fwd
def sub4 (s : HState) (a N : Int) : HState := ((endOf (sub3 s a N) N).right a).fwd

theorem frame_unit (s : HState) (a N : Int) (hd : unitDir s) (ha : a = 1 ∨ a = -1) :
    unitDir (sub1 s a) ∧ unitDir (sub2 s a N) ∧ unitDir (sub3 s a N) ∧ unitDir (sub4 s a N) := by
  obtain ⟨x, y, dx, dy⟩ := s
  simp only [unitDir] at hd
  rcases hd with ⟨rfl, rfl⟩ | ⟨rfl, rfl⟩ | ⟨rfl, rfl⟩ | ⟨rfl, rfl⟩ <;> rcases ha with rfl | rfl <;>
    simp only [unitDir, sub1, sub2, sub3, sub4, endOf, HState.left, HState.right, HState.fwd] <;> omega

theorem frame_final (s : HState) (a N : Int) (hd : unitDir s) (ha : a = 1 ∨ a = -1) :
    (endOf (sub4 s a N) N).left a = endOf s (N * 2) := by
  obtain ⟨x, y, dx, dy⟩ := s
  simp only [unitDir] at hd
  rcases hd with ⟨rfl, rfl⟩ | ⟨rfl, rfl⟩ | ⟨rfl, rfl⟩ | ⟨rfl, rfl⟩ <;> rcases ha with rfl | rfl <;>
    simp only [sub1, sub2, sub3, sub4, endOf, HState.left, HState.right, HState.fwd, HState.mk.injEq] <;>
    omega

/-- the four sub-squares partition the square of twice the side -/
theorem frame_cases (s : HState) (a N : Int) (hd : unitDir s) (ha : a = 1 ∨ a = -1) (hN : 0 < N)
    (q : Int × Int) :
    (inSq s a (N * 2) q ↔
      inSq (sub1 s a) (-a) N q ∨ inSq (sub2 s a N) a N q ∨ inSq (sub3 s a N) a N q ∨
        inSq (sub4 s a N) (-a) N q) ∧
    ¬ (inSq (sub1 s a) (-a) N q ∧ inSq (sub2 s a N) a N q) ∧
    ¬ (inSq (sub1 s a) (-a) N q ∧ inSq (sub3 s a N) a N q) ∧
    ¬ (inSq (sub1 s a) (-a) N q ∧ inSq (sub4 s a N) (-a) N q) ∧
    ¬ (inSq (sub2 s a N) a N q ∧ inSq (sub3 s a N) a N q) ∧
    ¬ (inSq (sub2 s a N) a N q ∧ inSq (sub4 s a N) (-a) N q) ∧
    ¬ (inSq (sub3 s a N) a N q ∧ inSq (sub4 s a N) (-a) N q) := by
  obtain ⟨x, y, dx, dy⟩ := s
  obtain ⟨qx, qy⟩ := q
  simp only [unitDir] at hd
  rcases hd with ⟨rfl, rfl⟩ | ⟨rfl, rfl⟩ | ⟨rfl, rfl⟩ | ⟨rfl, rfl⟩ <;> rcases ha with rfl | rfl <;>
    simp only [inSq, sub1, sub2, sub3, sub4, endOf, HState.left, HState.right, HState.fwd] <;>
    omega

theorem frame_base (s : HState) (a : Int) (hd : unitDir s) (ha : a = 1 ∨ a = -1) (q : Int × Int) :
    q = s.pos ↔ inSq s a 1 q := by
  obtain ⟨x, y, dx, dy⟩ := s
  obtain ⟨qx, qy⟩ := q
  simp only [unitDir] at hd
  rcases hd with ⟨rfl, rfl⟩ | ⟨rfl, rfl⟩ | ⟨rfl, rfl⟩ | ⟨rfl, rfl⟩ <;> rcases ha with rfl | rfl <;>
    simp only [inSq, HState.pos, Prod.mk.injEq] <;>
    omega

theorem hil_succ (n : Nat) (a : Int) (s : HState) :
    hil (n + 1) a s =
      (let r1 := hil n (-a) (s.left a)
       let s2 := r1.2.fwd
       let r2 := hil n a (s2.right a)
       let s3 := r2.2.fwd
       let r3 := hil n a s3
       let s4 := (r3.2.right a).fwd
       let r4 := hil n (-a) s4
       (r1.1 ++ s2.pos :: (r2.1 ++ s3.pos :: (r3.1 ++ s4.pos :: r4.1)), r4.2.left a)) := rfl

structure HilSpec (n : Nat) (a : Int) (s : HState) : Prop where
  fin : (hil n a s).2 = endOf s (2 ^ n)
  nodup : (s.pos :: (hil n a s).1).Nodup
  mem : ∀ q, q ∈ s.pos :: (hil n a s).1 ↔ inSq s a (2 ^ n) q

/-- **The Hilbert curve of level n fills its square.** -/
theorem hil_spec : ∀ (n : Nat) (a : Int) (s : HState), (a = 1 ∨ a = -1) → unitDir s → HilSpec n a s := by
  intro n
  induction n with
  | zero =>
    intro a s ha hd
    refine ⟨?_, ?_, ?_⟩
    · simp [hil, endOf]
    · simp [hil]
    · intro q
      simp only [hil, List.mem_singleton, Int.pow_zero]
      exact frame_base s a hd ha q
  | succ n ih =>
    intro a s ha hd
    have hN : (0 : Int) < 2 ^ n := Int.pow_pos (by omega)
    have ha' : -a = 1 ∨ -a = -1 := by omega
    obtain ⟨u1, u2, u3, u4⟩ := frame_unit s a (2 ^ n) hd ha
    have A1 := ih (-a) (sub1 s a) ha' u1
    have A2 := ih a (sub2 s a (2 ^ n)) ha u2
    have A3 := ih a (sub3 s a (2 ^ n)) ha u3
    have A4 := ih (-a) (sub4 s a (2 ^ n)) ha' u4
    have e1 : (hil n (-a) (s.left a)).2 = endOf (sub1 s a) (2 ^ n) := A1.fin
    have e2 : (hil n a (((endOf (sub1 s a) (2 ^ n)).fwd).right a)).2 = endOf (sub2 s a (2 ^ n)) (2 ^ n) := A2.fin
    have e3 : (hil n a ((endOf (sub2 s a (2 ^ n)) (2 ^ n)).fwd)).2 = endOf (sub3 s a (2 ^ n)) (2 ^ n) := A3.fin
    have e4 : (hil n (-a) (((endOf (sub3 s a (2 ^ n)) (2 ^ n)).right a).fwd)).2 =
        endOf (sub4 s a (2 ^ n)) (2 ^ n) := A4.fin
    -- the result in terms of the four sub-frames
    have hres : hil (n + 1) a s =
        ((hil n (-a) (sub1 s a)).1 ++ (sub2 s a (2 ^ n)).pos :: ((hil n a (sub2 s a (2 ^ n))).1 ++
          (sub3 s a (2 ^ n)).pos :: ((hil n a (sub3 s a (2 ^ n))).1 ++
          (sub4 s a (2 ^ n)).pos :: (hil n (-a) (sub4 s a (2 ^ n))).1)),
         (endOf (sub4 s a (2 ^ n)) (2 ^ n)).left a) := by
      rw [hil_succ]
      simp only [e1, e2, e3, e4]
      rfl
    have hlist : s.pos :: (hil (n + 1) a s).1 =
        ((sub1 s a).pos :: (hil n (-a) (sub1 s a)).1) ++ (((sub2 s a (2 ^ n)).pos :: (hil n a (sub2 s a (2 ^ n))).1) ++
          (((sub3 s a (2 ^ n)).pos :: (hil n a (sub3 s a (2 ^ n))).1) ++
           ((sub4 s a (2 ^ n)).pos :: (hil n (-a) (sub4 s a (2 ^ n))).1))) := by
      rw [hres]; rfl
    have hpow : (2 : Int) ^ (n + 1) = 2 ^ n * 2 := Int.pow_succ 2 n
    refine ⟨?_, ?_, ?_⟩
    · rw [hres, hpow]
      exact frame_final s a (2 ^ n) hd ha
    · rw [hlist]
      have D := fun q => (frame_cases s a (2 ^ n) hd ha hN q).2
      refine List.nodup_append.2 ⟨A1.nodup, List.nodup_append.2 ⟨A2.nodup, List.nodup_append.2
        ⟨A3.nodup, A4.nodup, ?_⟩, ?_⟩, ?_⟩
      · intro p hp q hq e; subst e
        exact (D p).2.2.2.2.2 ⟨(A3.mem p).1 hp, (A4.mem p).1 hq⟩
      · intro p hp q hq e; subst e
        rcases List.mem_append.1 hq with h | h
        · exact (D p).2.2.2.1 ⟨(A2.mem p).1 hp, (A3.mem p).1 h⟩
        · exact (D p).2.2.2.2.1 ⟨(A2.mem p).1 hp, (A4.mem p).1 h⟩
      · intro p hp q hq e; subst e
        rcases List.mem_append.1 hq with h | h
        · exact (D p).1 ⟨(A1.mem p).1 hp, (A2.mem p).1 h⟩
        · rcases List.mem_append.1 h with h | h
          · exact (D p).2.1 ⟨(A1.mem p).1 hp, (A3.mem p).1 h⟩
          · exact (D p).2.2.1 ⟨(A1.mem p).1 hp, (A4.mem p).1 h⟩
    · intro q
      rw [hlist, hpow, (frame_cases s a (2 ^ n) hd ha hN q).1]
      simp only [List.mem_append]
      rw [A1.mem q, A2.mem q, A3.mem q, A4.mem q]

end Rig.C02Orders
