/-
C03 - completeness of a_star: when the search runs out of nodes, the visited set is closed under
"predecessor over a working link", so no chip outside it - in particular no source - reaches the sink.
Core Lean only.
-/
import RigModel.Model.C03
import RigModel.Lemmas.C03AStar
set_option linter.unusedSimpArgs false
set_option linter.unusedVariables false
namespace Rig.C03.L
open Rig.C03 Rig.Gen.C03Links

/-- `c` has been expanded: it is not a source and every chip with a working link to it is visited -/
def Expanded (m : Machine) (sources : List Chip) (v : Visited) (c : Chip) : Prop :=
  sources.contains c = false ∧
  ∀ l, l < 6 → linkOk m (step m c (opp l)) l = true → v.has (step m c (opp l)) = true

/-- search state: the heap holds visited in-range chips, the sink is visited, every visited chip is either
still on the heap or expanded -/
structure Closed (m : Machine) (sources : List Chip) (sink : Chip) (v : Visited) (hp : Heap) : Prop where
  heap : ∀ e, e ∈ hp → InRange m e.2 ∧ v.has e.2 = true
  sink : v.has sink = true
  done : ∀ c, v.has c = true → (∃ e, e ∈ hp ∧ e.2 = c) ∨ Expanded m sources v c

theorem has_cons (x : Chip × Option (Nat × Chip)) (v : Visited) (c : Chip) :
    Visited.has (x :: v) c = (x.1 == c || Visited.has v c) := by
  simp [Visited.has]

theorem expanded_mono {m : Machine} {sources : List Chip} {v v' : Visited}
    (hvv : ∀ c, v.has c = true → v'.has c = true) {c : Chip} (h : Expanded m sources v c) :
    Expanded m sources v' c :=
  ⟨h.1, fun l hl hk => hvv _ (h.2 l hl hk)⟩

/-- effect of expanding `node` over the links `ls` -/
theorem foldl_expand_closed {m : Machine} {heur : Chip → Int} {node : Chip} :
    ∀ (ls : List Nat) (st : Visited × Heap),
      (∀ e, e ∈ st.2 → InRange m e.2 ∧ st.1.has e.2 = true) →
      let st' := ls.foldl (expand m heur node) st
      (∀ c, st.1.has c = true → st'.1.has c = true) ∧
      (∀ e, e ∈ st.2 → e ∈ st'.2) ∧
      (∀ e, e ∈ st'.2 → InRange m e.2 ∧ st'.1.has e.2 = true) ∧
      (∀ c, st'.1.has c = true → st.1.has c = true ∨ ∃ e, e ∈ st'.2 ∧ e.2 = c) ∧
      (∀ l, l ∈ ls → linkOk m (step m node (opp l)) l = true → st'.1.has (step m node (opp l)) = true) := by
  intro ls
  induction ls with
  | nil =>
    intro st hh
    exact ⟨fun c h => h, fun e h => h, hh, fun c h => Or.inl h, by simp⟩
  | cons l r ih =>
    intro st hh
    simp only [List.foldl_cons]
    -- one expansion step
    have hstep : (∀ c, st.1.has c = true → (expand m heur node st l).1.has c = true) ∧
        (∀ e, e ∈ st.2 → e ∈ (expand m heur node st l).2) ∧
        (∀ e, e ∈ (expand m heur node st l).2 →
          InRange m e.2 ∧ (expand m heur node st l).1.has e.2 = true) ∧
        (∀ c, (expand m heur node st l).1.has c = true →
          st.1.has c = true ∨ ∃ e, e ∈ (expand m heur node st l).2 ∧ e.2 = c) ∧
        (linkOk m (step m node (opp l)) l = true →
          (expand m heur node st l).1.has (step m node (opp l)) = true) := by
      unfold expand
      dsimp only
      split
      · rename_i hk
        refine ⟨fun c h => h, fun e h => h, hh, fun c h => Or.inl h, ?_⟩
        intro hk'; rw [hk'] at hk; simp at hk
      · split
        · rename_i hv
          exact ⟨fun c h => h, fun e h => h, hh, fun c h => Or.inl h, fun _ => hv⟩
        · rename_i hk hv
          have hk' : linkOk m (step m node (opp l)) l = true := by simpa using hk
          refine ⟨?_, ?_, ?_, ?_, ?_⟩
          · intro c h; rw [has_cons]; simp [h]
          · intro e h; simp [h]
          · intro e he
            simp only [List.mem_cons] at he
            rcases he with rfl | he
            · exact ⟨chipOk_inRange (linkOk_chipOk hk'), by rw [has_cons]; simp⟩
            · exact ⟨(hh e he).1, by rw [has_cons]; simp [(hh e he).2]⟩
          · intro c h
            rw [has_cons] at h
            simp only [Bool.or_eq_true, beq_iff_eq] at h
            rcases h with rfl | h
            · exact Or.inr ⟨(heur (step m node (opp l)), step m node (opp l)), by simp, rfl⟩
            · exact Or.inl h
          · intro _; rw [has_cons]; simp
    obtain ⟨s1, s2, s3, s4, s5⟩ := hstep
    obtain ⟨i1, i2, i3, i4, i5⟩ := ih (expand m heur node st l) s3
    refine ⟨fun c h => i1 c (s1 c h), fun e h => i2 e (s2 e h), i3, ?_, ?_⟩
    · intro c h
      rcases i4 c h with h' | h'
      · rcases s4 c h' with h'' | ⟨e, he, hec⟩
        · exact Or.inl h''
        · exact Or.inr ⟨e, i2 e he, hec⟩
      · exact Or.inr h'
    · intro l' hl' hk
      simp only [List.mem_cons] at hl'
      rcases hl' with rfl | hl'
      · exact i1 _ (s5 hk)
      · exact i5 l' hl' hk

theorem popMin_none {hp : Heap} (h : popMin hp = none) : hp = [] := by
  cases hp with
  | nil => rfl
  | cons x r => simp [popMin] at h

theorem popMin_erase {hp hp' : Heap} {mn : Int × Chip} (h : popMin hp = some (mn, hp')) :
    mn ∈ hp ∧ hp' = hp.erase mn := by
  cases hp with
  | nil => simp [popMin] at h
  | cons x r =>
    simp only [popMin, Option.some.injEq, Prod.mk.injEq] at h
    obtain ⟨rfl, rfl⟩ := h
    exact ⟨(popMin_mem (hp := x :: r) (mn := heapMin x r) (hp' := (x :: r).erase (heapMin x r))
      (by simp [popMin])).1, rfl⟩

/-- when the loop gives up, every visited chip is expanded -/
theorem aStarLoop_closed {m : Machine} {sources : List Chip} {sink : Chip} {heur : Chip → Int} :
    ∀ (fuel : Nat) (v : Visited) (hp : Heap), Closed m sources sink v hp →
      ∀ v', aStarLoop m heur sources fuel v hp = .ok (none, v') → Closed m sources sink v' [] := by
  intro fuel
  induction fuel with
  | zero =>
    intro v hp hc v' h
    simp only [aStarLoop] at h
    split at h
    · rename_i he
      simp only [pure, Except.pure, Except.ok.injEq, Prod.mk.injEq, true_and] at h
      subst h
      have : hp = [] := by simpa using he
      subst this; exact hc
    · simp at h
  | succ fuel ih =>
    intro v hp hc v' h
    simp only [aStarLoop] at h
    split at h
    · rename_i hpop
      simp only [pure, Except.pure, Except.ok.injEq, Prod.mk.injEq, true_and] at h
      subst h
      have := popMin_none hpop
      subst this; exact hc
    · rename_i d node hp' hpop
      obtain ⟨hmem, herase⟩ := popMin_erase hpop
      split at h
      · simp [pure, Except.pure] at h
      · rename_i hsrc
        have hns : sources.contains node = false := by simpa using hsrc
        have hh' : ∀ e, e ∈ hp' → InRange m e.2 ∧ v.has e.2 = true := by
          intro e he; rw [herase] at he; exact hc.heap e (List.mem_of_mem_erase he)
        obtain ⟨f1, f2, f3, f4, f5⟩ := foldl_expand_closed (m := m) (heur := heur) (node := node) linkOrder
          (v, hp') hh'
        refine ih _ _ ⟨f3, f1 _ hc.sink, ?_⟩ v' h
        intro c hcv
        rcases f4 c hcv with hold | hnew
        · by_cases hcn : c = node
          · subst hcn
            right
            refine ⟨hns, fun l hl hk => f5 l ?_ hk⟩
            have : linkOrder = [0, 1, 2, 3, 4, 5] := by decide
            rw [this]; simp; omega
          · rcases hc.done c hold with ⟨e, he, hec⟩ | hex
            · left
              refine ⟨e, f2 e ?_, hec⟩
              rw [herase]
              apply (List.mem_erase_of_ne ?_).2 he
              intro heq; apply hcn; rw [← hec, heq]
            · right; exact expanded_mono f1 hex
        · exact Or.inl hnew

theorem opp_opp : ∀ l, l < 6 → opp (opp l) = l ∧ opp l < 6 := by decide

/-- a closed, fully expanded visited set contains everything that reaches one of its chips -/
theorem closed_reach {m : Machine} {sources : List Chip} {sink : Chip} {v : Visited}
    (hc : Closed m sources sink v []) {x y : Chip} (hr : Reach m x y) : v.has y = true → v.has x = true := by
  induction hr with
  | refl => exact fun h => h
  | @hop b l _ hl hk _ ih =>
    intro hy
    apply ih
    rcases hc.done _ hy with ⟨e, he, _⟩ | hex
    · simp at he
    · have hb : InRange m b := chipOk_inRange (linkOk_chipOk hk)
      obtain ⟨o1, o2⟩ := opp_opp l hl
      have hback : step m (step m b l) (opp l) = b := by
        have := step_back m b (opp l) o2 hb
        rw [o1] at this
        exact this
      have := hex.2 l hl (by rw [hback]; exact hk)
      rw [hback] at this
      exact this

/-- **A\* is complete.**  If `a_star` reports the machine disconnected, then no chip of `sources` reaches the
sink over working links between working chips. -/
theorem aStar_complete (m : Machine) (sink hsrc : Chip) (sources : List Chip) (wrap : Bool)
    (hsink : InRange m sink) (h : aStar sink hsrc sources m wrap = .error .disconnected) :
    ∀ s, s ∈ sources → ¬ Reach m s sink := by
  unfold aStar at h
  simp only [bind, Except.bind] at h
  split at h
  · rename_i e hloop
    -- the loop itself can only fail with `fuel`
    simp only [Except.error.injEq] at h
    subst h
    exfalso
    have : ∀ (fuel : Nat) (v : Visited) (hp : Heap) (heur : Chip → Int),
        aStarLoop m heur sources fuel v hp ≠ .error .disconnected := by
      intro fuel
      induction fuel with
      | zero => intro v hp heur hh; simp only [aStarLoop] at hh; split at hh <;> simp [pure, Except.pure] at hh
      | succ n ih =>
        intro v hp heur hh
        simp only [aStarLoop] at hh
        split at hh
        · simp [pure, Except.pure] at hh
        · split at hh
          · simp [pure, Except.pure] at hh
          · exact ih _ _ _ hh
    exact this _ _ _ _ hloop
  · rename_i res hloop
    obtain ⟨sel, v⟩ := res
    simp only at h
    split at h
    · -- no source selected: the search space was exhausted
      have hinit : Closed m sources sink [(sink, none)] [(dist wrap m.w m.h sink hsrc, sink)] := by
        refine ⟨?_, by simp [Visited.has], ?_⟩
        · intro e he; simp at he; subst he; exact ⟨hsink, by simp [Visited.has]⟩
        · intro c hcv
          simp [Visited.has] at hcv
          subst hcv
          exact Or.inl ⟨(dist wrap m.w m.h sink hsrc, sink), by simp, rfl⟩
      have hcl := aStarLoop_closed _ _ _ hinit v hloop
      intro s hs hreach
      have hvs := closed_reach hcl hreach hcl.sink
      rcases hcl.done s hvs with ⟨e, he, _⟩ | hex
      · simp at he
      · have : sources.contains s = true := by simpa using hs
        rw [hex.1] at this
        simp at this
    · exfalso
      split at h
      · cases hr : reconstruct v sink v.length _ with
        | error e =>
          rw [hr] at h
          simp only [Except.error.injEq] at h
          subst h
          have : ∀ (fuel : Nat) (cur : Chip), reconstruct v sink fuel cur ≠ .error .disconnected := by
            intro fuel
            induction fuel with
            | zero => intro cur hh; simp [reconstruct] at hh
            | succ n ih =>
              intro cur hh
              simp only [reconstruct] at hh
              split at hh
              · split at hh
                · simp [pure, Except.pure] at hh
                · split at hh
                  · cases hq : reconstruct v sink n _ with
                    | error e' =>
                      rw [hq] at hh
                      simp only [bind, Except.bind, Except.error.injEq] at hh
                      subst hh
                      exact ih _ hq
                    | ok r' => rw [hq] at hh; simp [bind, Except.bind, pure, Except.pure] at hh
                  · simp at hh
                  · simp at hh
              · simp at hh
              · simp at hh
          exact this _ _ hr
        | ok r => rw [hr] at h; simp [pure, Except.pure] at h
      · simp at h
      · simp at h

end Rig.C03.L
