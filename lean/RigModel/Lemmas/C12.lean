/-
C12 - helper definitions and lemmas for the region tree proofs.
Core Lean only.
-/
import RigModel.Model.C12
set_option linter.unusedSimpArgs false
set_option linter.unusedVariables false

namespace Rig.C12

/-! ### bits -/

theorem testBit_or_bit (m s i : Nat) : (m ||| 1 <<< s).testBit i = (m.testBit i || decide (s = i)) := by
  simp [Nat.testBit_or, Nat.one_shiftLeft, Nat.testBit_two_pow]

theorem and_bit_eq_zero (m s : Nat) : (m &&& 1 <<< s == 0) = !m.testBit s := by
  rw [Nat.one_shiftLeft]
  cases h : m.testBit s
  · simp
    apply Nat.eq_of_testBit_eq
    intro i
    simp [Nat.testBit_and, Nat.testBit_two_pow]
    intro h1 h2; subst h2; simp [h] at h1
  · simp
    intro h0
    have := congrArg (fun n => n.testBit s) h0
    simp [Nat.testBit_and, Nat.testBit_two_pow, h] at this

theorem eq_ffff (m : Nat) (hm : m < 2 ^ 16) : m = 0xffff ↔ ∀ i, i < 16 → m.testBit i = true := by
  have e : (65535 : Nat) = 2 ^ 16 - 1 := by decide
  constructor
  · intro h i hi; subst h
    rw [e, Nat.testBit_two_pow_sub_one]; simpa using hi
  · intro h
    apply Nat.eq_of_testBit_eq
    intro i
    rw [e, Nat.testBit_two_pow_sub_one]
    by_cases hi : i < 16
    · simp [hi, h i hi]
    · simp [hi]
      exact Nat.testBit_lt_two_pow (Nat.lt_of_lt_of_le hm (Nat.pow_le_pow_right (by decide) (by omega)))

theorem subIndex_eq (lv x y : Nat) :
    subIndex lv x y = x / 2 ^ (shift lv) % 4 + 4 * (y / 2 ^ (shift lv) % 4) := by
  have e : (3 : Nat) = 2 ^ 2 - 1 := by decide
  simp only [subIndex, Nat.shiftRight_eq_div_pow, e, Nat.and_two_pow_sub_one_eq_mod]

theorem subIndex_lt (lv x y : Nat) : subIndex lv x y < 16 := by
  rw [subIndex_eq]; omega

theorem code_eq (x0 y0 lv m : Nat) (hy0 : y0 < 256) (hy : y0 % 4 = 0) (hl : lv < 4) (hm : m < 2 ^ 16) :
    (x0 <<< 24 ||| y0 <<< 16 ||| lv <<< 16 ||| m) = x0 * 2 ^ 24 + (y0 + lv) * 2 ^ 16 + m := by
  have e24 : x0 <<< 24 = (x0 <<< 8) <<< 16 := by rw [← Nat.shiftLeft_add]
  have hyl : y0 ||| lv = y0 + lv := by
    have : y0 = (y0 / 4) <<< 2 := by simp [Nat.shiftLeft_eq]; omega
    rw [this, ← Nat.shiftLeft_add_eq_or_of_lt (by simpa using hl)]
  have hk : x0 <<< 8 ||| (y0 + lv) = x0 <<< 8 + (y0 + lv) := by
    rw [← Nat.shiftLeft_add_eq_or_of_lt (by omega)]
  rw [e24, ← Nat.shiftLeft_or_distrib, ← Nat.shiftLeft_or_distrib, Nat.or_assoc, hyl, hk,
    ← Nat.shiftLeft_add_eq_or_of_lt hm]
  simp only [Nat.shiftLeft_eq]
  omega

/-- chip `(x, y)` lies in the square of a node at `(x0, y0)` of level `lv` -/
def inSq (x0 y0 lv x y : Nat) : Prop := x0 ≤ x ∧ x < x0 + scale lv ∧ y0 ≤ y ∧ y < y0 + scale lv

theorem lv_cases {lv : Nat} (h : lv ≤ 3) : lv = 0 ∨ lv = 1 ∨ lv = 2 ∨ lv = 3 := by omega

/-- the word `code | m` emitted by a well-placed node selects exactly the chips of
the node's square whose block bit is set in `m` -/
theorem selects_code (x0 y0 lv m x y : Nat) (hl : lv ≤ 3)
    (hx : x0 % scale lv = 0) (hy : y0 % scale lv = 0) (hx1 : x0 + scale lv ≤ 256)
    (hy1 : y0 + scale lv ≤ 256) (hm : m < 2 ^ 16) :
    selects (x0 <<< 24 ||| y0 <<< 16 ||| lv <<< 16 ||| m) x y = true ↔
      (inSq x0 y0 lv x y ∧ m.testBit (subIndex lv x y) = true) := by
  have hy4 : y0 % 4 = 0 := by
    rcases lv_cases hl with h | h | h | h <;> subst h <;> simp [scale] at hy <;> omega
  have hsc : 0 < scale lv := by unfold scale; exact Nat.pow_pos (by decide)
  rw [code_eq x0 y0 lv m (by omega) hy4 (by omega) hm]
  generalize hr : x0 * 2 ^ 24 + (y0 + lv) * 2 ^ 16 + m = r
  have h1 : wLevel r = lv := by unfold wLevel; omega
  have h2 : wBaseX r = x0 := by unfold wBaseX; omega
  have h3 : wBaseY r = y0 := by unfold wBaseY; omega
  have h4 : ∀ i, i < 16 → r.testBit i = m.testBit i := by
    intro i hi
    have : m = r % 2 ^ 16 := by omega
    rw [this, Nat.testBit_mod_two_pow]; simp [hi]
  have hi : x / wSide r % 4 + 4 * (y / wSide r % 4) < 16 := by omega
  unfold selects
  simp only [h2, h3, h4 _ hi]
  simp only [wSide, h1, subIndex_eq, inSq]
  rcases lv_cases hl with h | h | h | h <;> subst h <;>
    simp only [scale, shift, Nat.reducePow, Nat.reduceSub, Nat.reduceMul, Nat.div_one] at hx hy hx1 hy1 ⊢ <;>
    simp only [Bool.and_eq_true, beq_iff_eq] <;>
    (constructor
     · rintro ⟨⟨a, b⟩, c⟩; exact ⟨by omega, c⟩
     · rintro ⟨a, c⟩; exact ⟨by omega, c⟩)

/-! ### the tree: semantics, invariant, `add_core` -/

theorem getD_set {α} (l : List α) (i j : Nat) (a d : α) :
    (l.set i a).getD j d = if i = j ∧ i < l.length then a else l.getD j d := by
  simp only [List.getD_eq_getElem?_getD, List.getElem?_set]
  by_cases h : i = j
  · subst h; by_cases h2 : i < l.length <;> simp [h2]
  · simp [h]

theorem child_inSq (x0 y0 lv i x y : Nat) (hl : lv < 3) (hx : x0 % scale lv = 0)
    (hy : y0 % scale lv = 0) (hi : i < 16) :
    inSq (x0 + scale lv / 4 * (i % 4)) (y0 + scale lv / 4 * (i / 4)) (lv + 1) x y ↔
      (inSq x0 y0 lv x y ∧ subIndex lv x y = i) := by
  have : lv = 0 ∨ lv = 1 ∨ lv = 2 := by omega
  rcases this with h | h | h <;> subst h <;>
    simp only [inSq, subIndex_eq, scale, shift, Nat.reducePow, Nat.reduceSub, Nat.reduceMul,
      Nat.reduceAdd, Nat.reduceDiv] at hx hy ⊢ <;>
    (constructor <;> intro h <;> omega)

theorem child_align (x0 lv k : Nat) (hl : lv < 3) (hx : x0 % scale lv = 0) (hk : k < 4) :
    (x0 + scale lv / 4 * k) % scale (lv + 1) = 0 ∧
    (x0 + scale lv ≤ 256 → x0 + scale lv / 4 * k + scale (lv + 1) ≤ 256) := by
  have : lv = 0 ∨ lv = 1 ∨ lv = 2 := by omega
  rcases this with h | h | h <;> subst h <;>
    simp only [scale, Nat.reducePow, Nat.reduceSub, Nat.reduceMul, Nat.reduceAdd, Nat.reduceDiv] at hx ⊢ <;>
    omega

theorem leaf_point (x0 y0 x y x' y' : Nat) (hx : x0 % scale 3 = 0) (hy : y0 % scale 3 = 0)
    (h : inSq x0 y0 3 x y) (h' : inSq x0 y0 3 x' y') :
    subIndex 3 x y = subIndex 3 x' y' ↔ (x' = x ∧ y' = y) := by
  simp only [inSq, subIndex_eq, scale, shift, Nat.reducePow, Nat.reduceSub, Nat.reduceMul,
      Nat.reduceAdd, Nat.reduceDiv, Nat.div_one] at *
  constructor <;> intro h <;> omega

def RTree.x0 : RTree → Nat | .mk a _ _ _ _ => a
def RTree.y0 : RTree → Nat | .mk _ a _ _ _ => a
def RTree.lv : RTree → Nat | .mk _ _ a _ _ => a

/-- the set of (chip, core) a node stands for -/
def holds : Nat → RTree → Nat → Nat → Nat → Prop
  | 0, _, _, _, _ => False
  | d + 1, .mk x0 y0 lv ls subs, x, y, p =>
    inSq x0 y0 lv x y ∧ p < 18 ∧
    ((ls.getD p 0).testBit (subIndex lv x y) = true ∨
      ∃ c, subs.getD (subIndex lv x y) none = some c ∧ holds d c x y p)

def NodeOK (d : Nat) (InvC : RTree → Prop) (holdsC : RTree → Nat → Nat → Nat → Prop)
    (x0 y0 lv : Nat) (ls : List Nat) (subs : List (Option RTree)) : Prop :=
  lv + d = 3 ∧ x0 % scale lv = 0 ∧ y0 % scale lv = 0 ∧ x0 + scale lv ≤ 256 ∧ y0 + scale lv ≤ 256 ∧
  ls.length = 18 ∧ (∀ p, ls.getD p 0 < 2 ^ 16) ∧ subs.length = (if lv = 3 then 0 else 16) ∧
  ∀ i c, subs.getD i none = some c →
    c.x0 = x0 + scale lv / 4 * (i % 4) ∧ c.y0 = y0 + scale lv / 4 * (i / 4) ∧ InvC c ∧
    ∀ p, (ls.getD p 0).testBit i = true → ∀ x y, ¬ holdsC c x y p

/-- the tree invariant: well placed, masks 16 bit, a block bit set for core `p`
means the child holds nothing for `p`, and no node below the root is left with
all sixteen bits set -/
def Inv : Nat → RTree → Prop
  | 0, _ => False
  | d + 1, .mk x0 y0 lv ls subs =>
    NodeOK d (Inv d) (holds d) x0 y0 lv ls subs ∧ (lv ≠ 0 → ∀ p, ls.getD p 0 ≠ 0xffff)

theorem Inv_lv : ∀ d t, Inv d t → t.lv + d = 4
  | 0, _, h => by simp [Inv] at h
  | d + 1, .mk x0 y0 lv ls subs, h => by
    have := h.1.1; simp only [RTree.lv]; omega

theorem holds_inSq : ∀ d t x y p, holds d t x y p → inSq t.x0 t.y0 t.lv x y ∧ p < 18
  | 0, _, _, _, _, h => by simp [holds] at h
  | d + 1, .mk x0 y0 lv ls subs, x, y, p, h => ⟨h.1, h.2.1⟩

theorem getD_replicate {α} (n i : Nat) (a : α) : (List.replicate n a).getD i a = a := by
  simp only [List.getD_eq_getElem?_getD, List.getElem?_replicate]; split <;> rfl

theorem new_subs_getD (lv i : Nat) :
    (if lv < 3 then List.replicate 16 (none : Option RTree) else []).getD i none = none := by
  split
  · exact getD_replicate _ _ _
  · rfl

theorem holds_new (d x0 y0 lv x y p) : ¬ holds d (RTree.new x0 y0 lv) x y p := by
  cases d with
  | zero => simp [holds]
  | succ d =>
    simp only [RTree.new, holds, getD_replicate, new_subs_getD]
    rintro ⟨_, _, h | ⟨c, h, _⟩⟩
    · simp at h
    · simp at h

theorem Inv_new (d x0 y0 lv : Nat) (h1 : lv + d = 3) (hx : x0 % scale lv = 0) (hy : y0 % scale lv = 0)
    (hx1 : x0 + scale lv ≤ 256) (hy1 : y0 + scale lv ≤ 256) : Inv (d + 1) (RTree.new x0 y0 lv) := by
  simp only [RTree.new, Inv, NodeOK, getD_replicate, new_subs_getD]
  refine ⟨⟨h1, hx, hy, hx1, hy1, by simp, ?_, ?_, ?_⟩, ?_⟩
  · intro p; decide
  · by_cases h : lv = 3
    · simp [h]
    · have : lv < 3 := by omega
      simp [h, this]
  · intro i c h; simp at h
  · intro _ p; decide


/-- the tail of `add_core`: clear a complete mask below the root and report it -/
def finish (x0 y0 lv : Nat) (ls : List Nat) (subs : List (Option RTree)) (p : Nat) : RTree × Bool :=
  if ls.getD p 0 == 0xffff && lv != 0 then (.mk x0 y0 lv (ls.set p 0) subs, true)
  else (.mk x0 y0 lv ls subs, false)

theorem finish_spec (d x0 y0 lv : Nat) (ls : List Nat) (subs : List (Option RTree)) (p : Nat)
    (hN : NodeOK d (Inv d) (holds d) x0 y0 lv ls subs) (hp : p < 18)
    (hq : lv ≠ 0 → ∀ q, q ≠ p → ls.getD q 0 ≠ 0xffff) :
    Inv (d + 1) (finish x0 y0 lv ls subs p).1 ∧
    (lv = 0 → (finish x0 y0 lv ls subs p).2 = false) ∧
    (finish x0 y0 lv ls subs p).1.x0 = x0 ∧ (finish x0 y0 lv ls subs p).1.y0 = y0 ∧
    (finish x0 y0 lv ls subs p).1.lv = lv ∧
    (∀ x' y' p', (holds (d + 1) (finish x0 y0 lv ls subs p).1 x' y' p' ∨
        ((finish x0 y0 lv ls subs p).2 = true ∧ p' = p ∧ inSq x0 y0 lv x' y')) ↔
        holds (d + 1) (.mk x0 y0 lv ls subs) x' y' p') ∧
    ((finish x0 y0 lv ls subs p).2 = true → ∀ x' y', ¬ holds (d + 1) (finish x0 y0 lv ls subs p).1 x' y' p) := by
  obtain ⟨h1, hx, hy, hx1, hy1, hlen, hlt, hsl, hch⟩ := hN
  unfold finish
  by_cases hc : (ls.getD p 0 == 0xffff && lv != 0) = true
  · rw [if_pos hc]
    simp only [Bool.and_eq_true, beq_iff_eq, bne_iff_ne, ne_eq] at hc
    obtain ⟨hf, hl0⟩ := hc
    have hbits := (eq_ffff _ (hlt p)).1 hf
    have hpl : p < ls.length := by omega
    have hget : ∀ q, (ls.set p 0).getD q 0 = if p = q then 0 else ls.getD q 0 := by
      intro q; rw [getD_set]; by_cases h : p = q
      · subst h; simp [hpl]
      · simp [h]
    refine ⟨⟨⟨h1, hx, hy, hx1, hy1, by simpa using hlen, ?_, hsl, ?_⟩, ?_⟩, ?_, rfl, rfl, rfl, ?_, ?_⟩
    · intro q; rw [hget]; split
      · decide
      · exact hlt q
    · intro i c hic
      obtain ⟨a, b, c1, c2⟩ := hch i c hic
      refine ⟨a, b, c1, ?_⟩
      intro q hqb
      rw [hget] at hqb
      split at hqb
      · simp at hqb
      · exact c2 q hqb
    · intro _ q; rw [hget]; split
      · decide
      · rename_i hne; exact hq hl0 q (fun e => hne e.symm)
    · intro h; exact absurd h hl0
    · intro x' y' p'
      simp only [holds, hget]
      by_cases hpp : p = p'
      · subst hpp
        simp only [if_true, Nat.zero_testBit, Bool.false_eq_true, false_or, true_and]
        constructor
        · rintro (⟨a, b, c⟩ | a)
          · exact ⟨a, b, Or.inl (hbits _ (subIndex_lt _ _ _))⟩
          · exact ⟨a, hp, Or.inl (hbits _ (subIndex_lt _ _ _))⟩
        · rintro ⟨a, _, _⟩; exact Or.inr a
      · simp only [if_neg hpp]
        constructor
        · rintro (h | ⟨_, a, _⟩)
          · exact h
          · exact absurd a.symm hpp
        · intro h; exact Or.inl h
    · intro _ x' y'
      simp only [holds, hget, if_true, Nat.zero_testBit, Bool.false_eq_true, false_or]
      rintro ⟨_, _, c, hc1, hc2⟩
      exact (hch _ c hc1).2.2.2 p (hbits _ (subIndex_lt _ _ _)) x' y' hc2
  · rw [if_neg hc]
    simp only [Bool.and_eq_true, beq_iff_eq, bne_iff_ne, ne_eq, not_and, Decidable.not_not] at hc
    refine ⟨⟨⟨h1, hx, hy, hx1, hy1, hlen, hlt, hsl, hch⟩, ?_⟩, fun _ => rfl, rfl, rfl, rfl, ?_, ?_⟩
    · intro hl0 q
      by_cases hqp : q = p
      · subst hqp; intro hf; exact hl0 (hc hf)
      · exact hq hl0 q hqp
    · intro x' y' p'
      constructor
      · rintro (h | ⟨h, _⟩)
        · exact h
        · simp at h
      · intro h; exact Or.inl h
    · intro h; simp at h

theorem addCore_unfold (d x0 y0 lv : Nat) (ls : List Nat) (subs : List (Option RTree)) (x y p : Nat)
    (hin : inSq x0 y0 lv x y) (hp : p < 18) :
    addCore (d + 1) (.mk x0 y0 lv ls subs) x y p =
      (if lv = 3 then
          .ok (finish x0 y0 lv (ls.set p (ls.getD p 0 ||| (1 <<< subIndex lv x y))) subs p)
        else if (ls.getD p 0).testBit (subIndex lv x y) = false then
          match addCore d (match subs.getD (subIndex lv x y) none with
              | some c => c
              | none => RTree.new (x0 + scale lv / 4 * (subIndex lv x y % 4))
                          (y0 + scale lv / 4 * (subIndex lv x y / 4)) (lv + 1)) x y p with
          | .error e => .error e
          | .ok (c', full) =>
            .ok (finish x0 y0 lv
              (if full then ls.set p (ls.getD p 0 ||| (1 <<< subIndex lv x y)) else ls)
              (subs.set (subIndex lv x y) (some c')) p)
        else .ok (finish x0 y0 lv ls subs p)) := by
  obtain ⟨a, b, c, e⟩ := hin
  have hr : ¬ (p > 17 ∨ x < x0 ∨ x ≥ x0 + scale lv ∨ y < y0 ∨ y ≥ y0 + scale lv) := by omega
  rw [addCore]
  simp only [hr, if_false, and_bit_eq_zero, finish]
  by_cases h3 : lv = 3
  · simp [h3]
    split <;> rfl
  · simp only [h3, beq_iff_eq, if_false]
    cases hb : (ls.getD p 0).testBit (subIndex lv x y)
    · simp
      generalize addCore d _ x y p = r
      cases r with
      | error e => rfl
      | ok v =>
        obtain ⟨c', full⟩ := v
        cases full <;> simp only [if_true, if_false, Bool.false_eq_true] <;> split <;> rfl
    · simp
      split <;> rfl

/-- what `add_core` guarantees -/
def AddPost (d : Nat) (t : RTree) (x y p : Nat) (t' : RTree) (full : Bool) : Prop :=
  Inv d t' ∧ t'.x0 = t.x0 ∧ t'.y0 = t.y0 ∧ t'.lv = t.lv ∧ (t.lv = 0 → full = false) ∧
  (∀ x' y' p', (holds d t' x' y' p' ∨ (full = true ∧ p' = p ∧ inSq t.x0 t.y0 t.lv x' y')) ↔
     (holds d t x' y' p' ∨ (x' = x ∧ y' = y ∧ p' = p))) ∧
  (full = true → ∀ x' y', ¬ holds d t' x' y' p)

theorem post_of_mid (d x0 y0 lv : Nat) (ls : List Nat) (subs : List (Option RTree))
    (ls1 : List Nat) (subs1 : List (Option RTree)) (x y p : Nat)
    (hN1 : NodeOK d (Inv d) (holds d) x0 y0 lv ls1 subs1) (hp : p < 18)
    (hq : lv ≠ 0 → ∀ q, q ≠ p → ls1.getD q 0 ≠ 0xffff)
    (hmid : ∀ x' y' p', holds (d + 1) (.mk x0 y0 lv ls1 subs1) x' y' p' ↔
      (holds (d + 1) (.mk x0 y0 lv ls subs) x' y' p' ∨ (x' = x ∧ y' = y ∧ p' = p))) :
    ∃ t' full, (Except.ok (finish x0 y0 lv ls1 subs1 p) : Except Err (RTree × Bool)) = .ok (t', full) ∧
      AddPost (d + 1) (.mk x0 y0 lv ls subs) x y p t' full := by
  obtain ⟨a, b, c, e, f, g, h⟩ := finish_spec d x0 y0 lv ls1 subs1 p hN1 hp hq
  refine ⟨_, _, rfl, a, c, e, f, b, ?_, h⟩
  intro x' y' p'
  rw [← hmid]
  exact g x' y' p'

theorem addCore_spec : ∀ d t x y p, Inv d t → inSq t.x0 t.y0 t.lv x y → p < 18 →
    ∃ t' full, addCore d t x y p = .ok (t', full) ∧ AddPost d t x y p t' full
  | 0, t, _, _, _, h, _, _ => by simp [Inv] at h
  | d + 1, .mk x0 y0 lv ls subs, x, y, p, hI, hin, hp => by
    simp only [RTree.x0, RTree.y0, RTree.lv] at hin
    obtain ⟨hN, hnf⟩ := hI
    have hN' := hN
    obtain ⟨h1, hx, hy, hx1, hy1, hlen, hlt, hsl, hch⟩ := hN
    rw [addCore_unfold _ _ _ _ _ _ _ _ _ hin hp]
    have hpl : p < ls.length := by omega
    generalize hs : subIndex lv x y = s
    have hs16 : s < 16 := by rw [← hs]; exact subIndex_lt ..
    have hget1 : ∀ q, (ls.set p (ls.getD p 0 ||| 1 <<< s)).getD q 0 =
        if p = q then ls.getD p 0 ||| 1 <<< s else ls.getD q 0 := by
      intro q; rw [getD_set]; by_cases h : p = q
      · subst h; simp [hpl]
      · simp [h]
    have hbitlt : ls.getD p 0 ||| 1 <<< s < 2 ^ 16 :=
      Nat.or_lt_two_pow (hlt p) (by rw [Nat.one_shiftLeft]; exact Nat.pow_lt_pow_right (by decide) hs16)
    have hlt1 : ∀ q, (ls.set p (ls.getD p 0 ||| 1 <<< s)).getD q 0 < 2 ^ 16 := by
      intro q; rw [hget1]; split
      · exact hbitlt
      · exact hlt q
    by_cases h3 : lv = 3
    · -- level 3: set the chip's bit
      rw [if_pos h3]
      subst h3
      have hnil : subs = [] := List.eq_nil_of_length_eq_zero (by simpa using hsl)
      subst hnil
      apply post_of_mid
      · refine ⟨h1, hx, hy, hx1, hy1, by simpa using hlen, hlt1, hsl, ?_⟩
        intro i c hic; simp at hic
      · exact hp
      · intro _ q hqp; rw [hget1, if_neg (fun e => hqp e.symm)]; exact hnf (by decide) q
      · intro x' y' p'
        simp only [holds, hget1, List.getD_nil]
        by_cases hpp : p = p'
        · subst hpp
          simp only [if_true, testBit_or_bit, Bool.or_eq_true, decide_eq_true_eq]
          constructor
          · rintro ⟨a, b, (c | c) | ⟨c, hc, _⟩⟩
            · exact Or.inl ⟨a, b, Or.inl c⟩
            · rw [← hs] at c
              exact Or.inr ⟨((leaf_point x0 y0 x y x' y' hx hy hin a).1 c).1,
                ((leaf_point x0 y0 x y x' y' hx hy hin a).1 c).2, trivial⟩
            · simp at hc
          · rintro (⟨a, b, c | ⟨c, hc, _⟩⟩ | ⟨rfl, rfl, _⟩)
            · exact ⟨a, b, Or.inl (Or.inl c)⟩
            · simp at hc
            · exact ⟨hin, hp, Or.inl (Or.inr hs.symm)⟩
        · simp only [if_neg hpp]
          constructor
          · intro h; exact Or.inl h
          · rintro (h | ⟨_, _, h⟩)
            · exact h
            · exact absurd h.symm hpp
    · rw [if_neg h3]
      have hl3 : lv < 3 := by omega
      have hsl16 : subs.length = 16 := by simpa [h3] using hsl
      by_cases hb : (ls.getD p 0).testBit s = false
      · -- recurse into the child
        rw [if_pos hb]
        have hc0 : ∃ c0, (match subs.getD s none with
              | some c => c
              | none => RTree.new (x0 + scale lv / 4 * (s % 4)) (y0 + scale lv / 4 * (s / 4)) (lv + 1)) = c0 ∧
            Inv d c0 ∧ c0.x0 = x0 + scale lv / 4 * (s % 4) ∧ c0.y0 = y0 + scale lv / 4 * (s / 4) ∧
            (∀ x' y' p', holds d c0 x' y' p' ↔ ∃ c, subs.getD s none = some c ∧ holds d c x' y' p') ∧
            (∀ q, (ls.getD q 0).testBit s = true → ∀ x' y', ¬ holds d c0 x' y' q) := by
          cases hsub : subs.getD s none with
          | some c =>
            obtain ⟨a, b, c1, c2⟩ := hch s c hsub
            exact ⟨c, rfl, c1, a, b,
              fun x' y' p' => ⟨fun h => ⟨c, rfl, h⟩, fun ⟨c', e, h⟩ => by cases e; exact h⟩, c2⟩
          | none =>
            obtain ⟨d', rfl⟩ : ∃ d', d = d' + 1 := ⟨d - 1, by omega⟩
            have ax := child_align x0 lv (s % 4) hl3 hx (by omega)
            have ay := child_align y0 lv (s / 4) hl3 hy (by omega)
            refine ⟨_, rfl, Inv_new d' _ _ _ (by omega) ax.1 ay.1 (ax.2 hx1) (ay.2 hy1), rfl, rfl, ?_, ?_⟩
            · intro x' y' p'; constructor
              · intro h; exact absurd h (holds_new _ _ _ _ _ _ _)
              · rintro ⟨c, e, _⟩; simp at e
            · intro q _ x' y'; exact holds_new _ _ _ _ _ _ _
        obtain ⟨c0, hc0e, hc0I, hc0x, hc0y, hc0h, hc0b⟩ := hc0
        rw [hc0e]
        have hc0lv : c0.lv = lv + 1 := by have := Inv_lv d c0 hc0I; omega
        have hcsq : ∀ x' y', inSq c0.x0 c0.y0 c0.lv x' y' ↔ (inSq x0 y0 lv x' y' ∧ subIndex lv x' y' = s) := by
          intro x' y'; rw [hc0x, hc0y, hc0lv]; exact child_inSq x0 y0 lv s x' y' hl3 hx hy hs16
        obtain ⟨c', fullc, heq, hI', hx', hy', hlv', _, hhold, hnone⟩ :=
          addCore_spec d c0 x y p hc0I ((hcsq x y).2 ⟨hin, hs⟩) hp
        rw [heq]
        simp only []
        have hsub1 : ∀ i, (subs.set s (some c')).getD i none = if s = i then some c' else subs.getD i none := by
          intro i; rw [getD_set]; by_cases h : s = i
          · subst h; simp [hsl16, hs16]
          · simp [h]
        have hls1 : ∀ q i, ((if fullc = true then ls.set p (ls.getD p 0 ||| 1 <<< s) else ls).getD q 0).testBit i =
            ((ls.getD q 0).testBit i || (fullc && decide (p = q) && decide (s = i))) := by
          intro q i
          cases fullc
          · simp
          · simp only [if_true, hget1]
            by_cases hpq : p = q
            · subst hpq; rw [if_pos rfl, testBit_or_bit]; simp
            · simp [hpq]
        have hls1q : ∀ q, q ≠ p → (if fullc = true then ls.set p (ls.getD p 0 ||| 1 <<< s) else ls).getD q 0 = ls.getD q 0 := by
          intro q hqp
          cases fullc
          · simp
          · simp only [if_true, hget1, if_neg (Ne.symm hqp)]
        have hlen1 : (if fullc = true then ls.set p (ls.getD p 0 ||| 1 <<< s) else ls).length = 18 := by
          cases fullc <;> simp [hlen]
        have hlt1' : ∀ q, (if fullc = true then ls.set p (ls.getD p 0 ||| 1 <<< s) else ls).getD q 0 < 2 ^ 16 := by
          intro q; cases fullc
          · simpa using hlt q
          · simpa using hlt1 q
        generalize (if fullc = true then ls.set p (ls.getD p 0 ||| 1 <<< s) else ls) = ls1 at hls1 hls1q hlen1 hlt1' ⊢
        -- holds of the new child in terms of the old tree
        have hchild : ∀ x' y' p', subIndex lv x' y' = s → inSq x0 y0 lv x' y' →
            ((holds d c' x' y' p' ∨ (fullc = true ∧ p' = p)) ↔
              ((∃ c, subs.getD s none = some c ∧ holds d c x' y' p') ∨ (x' = x ∧ y' = y ∧ p' = p))) := by
          intro x' y' p' hs' hin'
          rw [← hc0h, ← hhold]
          constructor
          · rintro (h | ⟨a, b⟩)
            · exact Or.inl h
            · exact Or.inr ⟨a, b, (hcsq x' y').2 ⟨hin', hs'⟩⟩
          · rintro (h | ⟨a, b, _⟩)
            · exact Or.inl h
            · exact Or.inr ⟨a, b⟩
        apply post_of_mid
        · refine ⟨h1, hx, hy, hx1, hy1, hlen1, hlt1', by simpa using hsl, ?_⟩
          intro i c hic
          rw [hsub1] at hic
          by_cases hsi : s = i
          · subst hsi
            rw [if_pos rfl] at hic
            cases hic
            refine ⟨by rw [hx', hc0x], by rw [hy', hc0y], hI', ?_⟩
            intro q hq x' y' hh
            rw [hls1] at hq
            by_cases hqp : p = q
            · subst hqp
              cases fullc with
              | true => exact hnone rfl x' y' hh
              | false =>
                simp only [Bool.false_and, Bool.or_false] at hq
                rw [hb] at hq; exact Bool.noConfusion hq
            · have hq' : (ls.getD q 0).testBit s = true := by simpa [hqp] using hq
              rcases (hhold x' y' q).1 (Or.inl hh) with h | ⟨_, _, h⟩
              · exact hc0b q hq' x' y' h
              · exact hqp h.symm
          · rw [if_neg hsi] at hic
            obtain ⟨a, b, c1, c2⟩ := hch i c hic
            refine ⟨a, b, c1, ?_⟩
            intro q hq
            apply c2 q
            rw [hls1] at hq
            simpa [hsi] using hq
        · exact hp
        · intro hl0 q hqp; rw [hls1q q hqp]; exact hnf hl0 q
        · intro x' y' p'
          simp only [holds, hsub1, hls1]
          by_cases hss : s = subIndex lv x' y'
          · rw [if_pos hss]
            constructor
            · rintro ⟨a, b, h⟩
              have key := hchild x' y' p' hss.symm a
              have : holds d c' x' y' p' ∨ (fullc = true ∧ p' = p) ∨ (ls.getD p' 0).testBit (subIndex lv x' y') = true := by
                rcases h with h | ⟨c, e, h⟩
                · simp only [Bool.or_eq_true, Bool.and_eq_true, decide_eq_true_eq] at h
                  rcases h with h | ⟨⟨h1, h2⟩, _⟩
                  · exact Or.inr (Or.inr h)
                  · exact Or.inr (Or.inl ⟨h1, h2.symm⟩)
                · cases e; exact Or.inl h
              rcases this with h | h | h
              · rcases key.1 (Or.inl h) with ⟨c, e, h⟩ | h
                · exact Or.inl ⟨a, b, Or.inr ⟨c, by rw [← hss]; exact e, h⟩⟩
                · exact Or.inr h
              · rcases key.1 (Or.inr h) with ⟨c, e, h⟩ | h
                · exact Or.inl ⟨a, b, Or.inr ⟨c, by rw [← hss]; exact e, h⟩⟩
                · exact Or.inr h
              · exact Or.inl ⟨a, b, Or.inl h⟩
            · intro h
              have hab : inSq x0 y0 lv x' y' ∧ p' < 18 := by
                rcases h with ⟨a, b, _⟩ | ⟨rfl, rfl, rfl⟩
                · exact ⟨a, b⟩
                · exact ⟨hin, hp⟩
              refine ⟨hab.1, hab.2, ?_⟩
              have key := hchild x' y' p' hss.symm hab.1
              have : (ls.getD p' 0).testBit (subIndex lv x' y') = true ∨
                  (holds d c' x' y' p' ∨ (fullc = true ∧ p' = p)) := by
                rcases h with ⟨_, _, h | ⟨c, e, h⟩⟩ | h
                · exact Or.inl h
                · exact Or.inr (key.2 (Or.inl ⟨c, by rw [hss]; exact e, h⟩))
                · exact Or.inr (key.2 (Or.inr h))
              rcases this with h | h | ⟨h1, h2⟩
              · exact Or.inl (by simp only [Bool.or_eq_true, Bool.and_eq_true, decide_eq_true_eq]; exact Or.inl h)
              · exact Or.inr ⟨c', rfl, h⟩
              · exact Or.inl (by simp only [Bool.or_eq_true, Bool.and_eq_true, decide_eq_true_eq]; exact Or.inr ⟨⟨h1, h2.symm⟩, hss⟩)
          · rw [if_neg hss]
            simp only [hss, decide_false, Bool.and_false, Bool.or_false]
            constructor
            · intro h; exact Or.inl h
            · rintro (h | ⟨rfl, rfl, _⟩)
              · exact h
              · exact absurd hs.symm hss
      · -- block already selected for this core
        rw [if_neg hb]
        have hb' : (ls.getD p 0).testBit s = true := by simpa using hb
        apply post_of_mid
        · exact hN'
        · exact hp
        · intro hl0 q _; exact hnf hl0 q
        · intro x' y' p'
          constructor
          · intro h; exact Or.inl h
          · rintro (h | ⟨rfl, rfl, rfl⟩)
            · exact h
            · simp only [holds]
              exact ⟨hin, hp, Or.inl (by rw [hs]; exact hb')⟩

/-! ### grouping cores by identical block mask -/

theorem dictOr_keys (g : List (Nat × Nat)) (k v : Nat) :
    (dictOr g k v).map Prod.fst = if k ∈ g.map Prod.fst then g.map Prod.fst else g.map Prod.fst ++ [k] := by
  induction g with
  | nil => simp [dictOr]
  | cons a g ih =>
    obtain ⟨k', v'⟩ := a
    simp only [dictOr]
    by_cases h : k' = k
    · subst h; simp
    · simp only [if_neg h, List.map_cons, ih, List.mem_cons]
      have : ¬ k = k' := fun e => h e.symm
      simp only [this, false_or]
      split <;> simp

theorem dictOr_nodup (g : List (Nat × Nat)) (k v : Nat) (h : (g.map Prod.fst).Nodup) :
    ((dictOr g k v).map Prod.fst).Nodup := by
  rw [dictOr_keys]
  split
  · exact h
  · rename_i hk
    rw [List.nodup_append]
    refine ⟨h, by simp, ?_⟩
    intro a ha b hb
    simp at hb; subst hb
    intro e; subst e; exact hk ha

theorem dictOr_mem (g : List (Nat × Nat)) (k v m cm : Nat) (hnd : (g.map Prod.fst).Nodup) :
    (m, cm) ∈ dictOr g k v →
      (m ≠ k ∧ (m, cm) ∈ g) ∨
      (m = k ∧ ∃ cm0, ((k, cm0) ∈ g ∨ (cm0 = 0 ∧ k ∉ g.map Prod.fst)) ∧ cm = cm0 ||| v) := by
  induction g with
  | nil =>
    simp only [dictOr, List.mem_singleton, Prod.mk.injEq]
    rintro ⟨rfl, rfl⟩
    exact Or.inr ⟨rfl, 0, Or.inr ⟨rfl, by simp⟩, rfl⟩
  | cons a g ih =>
    obtain ⟨k', v'⟩ := a
    simp only [List.map_cons, List.nodup_cons] at hnd
    simp only [dictOr]
    by_cases h : k' = k
    · subst h
      simp only [if_true, List.mem_cons, Prod.mk.injEq]
      rintro (⟨rfl, rfl⟩ | hm)
      · exact Or.inr ⟨rfl, v', Or.inl (Or.inl ⟨trivial, rfl⟩), rfl⟩
      · by_cases hmk : m = k'
        · subst hmk
          exact absurd (List.mem_map_of_mem (f := Prod.fst) hm) hnd.1
        · exact Or.inl ⟨hmk, Or.inr hm⟩
    · simp only [if_neg h, List.mem_cons, Prod.mk.injEq]
      rintro (⟨rfl, rfl⟩ | hm)
      · exact Or.inl ⟨h, Or.inl ⟨rfl, rfl⟩⟩
      · rcases ih hnd.2 hm with ⟨a, b⟩ | ⟨a, cm0, b, c⟩
        · exact Or.inl ⟨a, Or.inr b⟩
        · refine Or.inr ⟨a, cm0, ?_, c⟩
          rcases b with b | ⟨b1, b2⟩
          · exact Or.inl (Or.inr b)
          · refine Or.inr ⟨b1, ?_⟩
            simp only [List.map_cons, List.mem_cons, not_or]
            exact ⟨fun e => h e.symm, b2⟩

theorem dictOr_mem_other (g : List (Nat × Nat)) (k v m cm : Nat) (h : (m, cm) ∈ g) (hne : m ≠ k) :
    (m, cm) ∈ dictOr g k v := by
  induction g with
  | nil => simp at h
  | cons a g ih =>
    obtain ⟨k', v'⟩ := a
    simp only [dictOr]
    simp only [List.mem_cons, Prod.mk.injEq] at h
    by_cases hk : k' = k
    · subst hk
      rcases h with ⟨rfl, _⟩ | h
      · exact absurd rfl hne
      · simp only [if_true, List.mem_cons]; exact Or.inr h
    · simp only [if_neg hk, List.mem_cons, Prod.mk.injEq]
      rcases h with h | h
      · exact Or.inl h
      · exact Or.inr (ih h)

theorem dictOr_mem_key (g : List (Nat × Nat)) (k v : Nat) : ∃ cm, (k, cm) ∈ dictOr g k v := by
  induction g with
  | nil => exact ⟨0 ||| v, by simp [dictOr]⟩
  | cons a g ih =>
    obtain ⟨k', v'⟩ := a
    simp only [dictOr]
    by_cases hk : k' = k
    · subst hk; exact ⟨v' ||| v, by simp⟩
    · obtain ⟨cm, h⟩ := ih
      exact ⟨cm, by simp only [if_neg hk, List.mem_cons]; exact Or.inr h⟩

/-- state of the grouping loop after cores `0 .. k-1` of `L` -/
def GroupOK (L : List Nat) (k : Nat) (g : List (Nat × Nat)) : Prop :=
  (g.map Prod.fst).Nodup ∧
  (∀ m cm, (m, cm) ∈ g → m ≠ 0 ∧ (∃ q, cm.testBit q = true) ∧
    ∀ q, cm.testBit q = true ↔ (q < k ∧ L[q]? = some m)) ∧
  (∀ q, q < k → ∀ m, L[q]? = some m → m ≠ 0 → ∃ cm, (m, cm) ∈ g)

theorem groupOK_step (L : List Nat) (k m : Nat) (g : List (Nat × Nat)) (hk : L[k]? = some m)
    (h : GroupOK L k g) : GroupOK L (k + 1) (if m != 0 then dictOr g m (1 <<< k) else g) := by
  obtain ⟨ha, hb, hc⟩ := h
  by_cases hm : m = 0
  · subst hm
    simp only [bne_self_eq_false, Bool.false_eq_true, if_false]
    refine ⟨ha, ?_, ?_⟩
    · intro m cm hmem
      obtain ⟨b1, b2, b3⟩ := hb m cm hmem
      refine ⟨b1, b2, ?_⟩
      intro q; rw [b3]
      constructor
      · rintro ⟨a, b⟩; exact ⟨by omega, b⟩
      · rintro ⟨a, b⟩
        by_cases hqk : q = k
        · subst hqk; rw [hk] at b; cases b; exact absurd rfl b1
        · exact ⟨by omega, b⟩
    · intro q hq m' hm' hne
      by_cases hqk : q = k
      · subst hqk; rw [hk] at hm'; cases hm'; exact absurd rfl hne
      · exact hc q (by omega) m' hm' hne
  · have hmb : (m != 0) = true := by simpa using hm
    rw [if_pos hmb]
    refine ⟨dictOr_nodup g m _ ha, ?_, ?_⟩
    · intro m' cm' hmem
      rcases dictOr_mem g m _ m' cm' ha hmem with ⟨hne, hg⟩ | ⟨rfl, cm0, hcm0, rfl⟩
      · obtain ⟨b1, b2, b3⟩ := hb m' cm' hg
        refine ⟨b1, b2, ?_⟩
        intro q; rw [b3]
        constructor
        · rintro ⟨a, b⟩; exact ⟨by omega, b⟩
        · rintro ⟨a, b⟩
          by_cases hqk : q = k
          · subst hqk; rw [hk] at b; cases b; exact absurd rfl hne
          · exact ⟨by omega, b⟩
      · refine ⟨hm, ⟨k, by rw [testBit_or_bit]; simp⟩, ?_⟩
        intro q
        rw [testBit_or_bit]
        simp only [Bool.or_eq_true, decide_eq_true_eq]
        have hcm0' : cm0.testBit q = true ↔ (q < k ∧ L[q]? = some m') := by
          rcases hcm0 with h | ⟨rfl, hnk⟩
          · exact (hb m' cm0 h).2.2 q
          · simp only [Nat.zero_testBit, Bool.false_eq_true, false_iff]
            rintro ⟨a, b⟩
            obtain ⟨cm, hcm⟩ := hc q a m' b hm
            exact hnk (List.mem_map_of_mem (f := Prod.fst) hcm)
        rw [hcm0']
        constructor
        · rintro (⟨a, b⟩ | rfl)
          · exact ⟨by omega, b⟩
          · exact ⟨by omega, hk⟩
        · rintro ⟨a, b⟩
          by_cases hqk : k = q
          · exact Or.inr hqk
          · exact Or.inl ⟨by omega, b⟩
    · intro q hq m' hm' hne
      by_cases hmm : m' = m
      · subst hmm; exact dictOr_mem_key g m' _
      · have hqk : q ≠ k := by
          intro e; subst e; rw [hk] at hm'; cases hm'; exact hmm rfl
        obtain ⟨cm, hcm⟩ := hc q (by omega) m' hm' hne
        exact ⟨cm, dictOr_mem_other g m _ m' cm hcm hmm⟩

theorem groupCores_spec (L : List Nat) : ∀ (rest : List Nat) (k : Nat) (g : List (Nat × Nat)),
    (∃ pre, L = pre ++ rest ∧ pre.length = k) → GroupOK L k g →
    GroupOK L L.length (groupCores rest k g)
  | [], k, g, ⟨pre, h1, h2⟩, h => by
    simp at h1; subst h1; subst h2; exact h
  | m :: rest, k, g, ⟨pre, h1, h2⟩, h => by
    simp only [groupCores]
    apply groupCores_spec L rest (k + 1)
    · exact ⟨pre ++ [m], by simp [h1], by simp [h2]⟩
    · apply groupOK_step L k m g _ h
      subst h1; subst h2; simp

theorem groupCores_ok (L : List Nat) : GroupOK L L.length (groupCores L 0 []) :=
  groupCores_spec L L 0 [] ⟨[], rfl, rfl⟩ ⟨by simp, by simp, by intro q hq; omega⟩
/-! ### counting selections in the emitted list -/

theorem count_nodup_keys (pred : Nat × Nat → Bool) (k : Nat) : ∀ (g : List (Nat × Nat)),
    (g.map Prod.fst).Nodup → (∀ mc, mc ∈ g → pred mc = true → mc.1 = k) →
    ((∃ mc, mc ∈ g ∧ pred mc = true) → g.countP pred = 1) ∧
    ((¬ ∃ mc, mc ∈ g ∧ pred mc = true) → g.countP pred = 0)
  | [], _, _ => by simp
  | a :: g, hnd, hk => by
    simp only [List.map_cons, List.nodup_cons] at hnd
    have ih := count_nodup_keys pred k g hnd.2 (fun mc h => hk mc (List.mem_cons_of_mem _ h))
    by_cases ha : pred a = true
    · have hno : ¬ ∃ mc, mc ∈ g ∧ pred mc = true := by
        rintro ⟨mc, h1, h2⟩
        have e1 := hk mc (List.mem_cons_of_mem _ h1) h2
        have e2 := hk a (List.mem_cons_self) ha
        exact hnd.1 (by rw [e2, ← e1]; exact List.mem_map_of_mem (f := Prod.fst) h1)
      constructor
      · intro _; rw [List.countP_cons_of_pos ha, ih.2 hno]
      · intro h; exact absurd ⟨a, List.mem_cons_self, ha⟩ h
    · rw [List.countP_cons_of_neg ha]
      constructor
      · rintro ⟨mc, h1, h2⟩
        rcases List.mem_cons.1 h1 with rfl | h1
        · exact absurd h2 ha
        · exact ih.1 ⟨mc, h1, h2⟩
      · intro h
        exact ih.2 (fun ⟨mc, h1, h2⟩ => h ⟨mc, List.mem_cons_of_mem _ h1, h2⟩)

theorem sum_single (f : Nat → Nat) (k : Nat) : ∀ (l : List Nat), l.Nodup →
    (∀ i, i ∈ l → i ≠ k → f i = 0) → (l.map f).sum = if k ∈ l then f k else 0
  | [], _, _ => by simp
  | a :: l, hnd, h0 => by
    simp only [List.nodup_cons] at hnd
    have ih := sum_single f k l hnd.2 (fun i hi => h0 i (List.mem_cons_of_mem _ hi))
    simp only [List.map_cons, List.sum_cons, ih, List.mem_cons]
    by_cases hak : a = k
    · subst hak
      simp [hnd.1]
    · have : ¬ k = a := fun e => hak e.symm
      simp only [this, false_or]
      rw [h0 a List.mem_cons_self hak]; simp

theorem childOrder_nodup : childOrder.Nodup := by decide
theorem childOrder_mem : ∀ i, i < 16 → i ∈ childOrder := by decide


theorem getD_of_getElem? (ls : List Nat) (q m : Nat) (h : ls[q]? = some m) : ls.getD q 0 = m := by
  simp [List.getD_eq_getElem?_getD, h]

theorem getElem?_of_lt (ls : List Nat) (q : Nat) (h : q < ls.length) : ls[q]? = some (ls.getD q 0) := by
  simp [List.getD_eq_getElem?_getD, List.getElem?_eq_getElem h]

/-- the pairs a node emits for itself select core `p` of chip `(x, y)` exactly once
when the chip is in the node's square and its block bit is set for `p`, else never -/
theorem loc_count (x0 y0 lv : Nat) (ls : List Nat) (x y p : Nat) (hl : lv ≤ 3)
    (hx : x0 % scale lv = 0) (hy : y0 % scale lv = 0) (hx1 : x0 + scale lv ≤ 256)
    (hy1 : y0 + scale lv ≤ 256) (hlen : ls.length = 18) (hlt : ∀ q, ls.getD q 0 < 2 ^ 16) :
    ((inSq x0 y0 lv x y ∧ p < 18 ∧ (ls.getD p 0).testBit (subIndex lv x y) = true) →
      countSel ((sortPairs (groupCores ls 0 [])).map fun mc =>
        ((x0 <<< 24 ||| y0 <<< 16 ||| lv <<< 16) ||| mc.1, mc.2)) x y p = 1) ∧
    (¬ (inSq x0 y0 lv x y ∧ p < 18 ∧ (ls.getD p 0).testBit (subIndex lv x y) = true) →
      countSel ((sortPairs (groupCores ls 0 [])).map fun mc =>
        ((x0 <<< 24 ||| y0 <<< 16 ||| lv <<< 16) ||| mc.1, mc.2)) x y p = 0) := by
  have G := groupCores_ok ls
  rw [hlen] at G
  obtain ⟨ga, gb, gc⟩ := G
  generalize hg : groupCores ls 0 [] = g at ga gb gc
  unfold countSel sortPairs
  rw [List.countP_map, (List.mergeSort_perm g pairLe).countP_eq]
  have hm16 : ∀ mc, mc ∈ g → mc.1 < 2 ^ 16 := by
    intro mc hmc
    obtain ⟨_, ⟨q, hq⟩, b3⟩ := gb mc.1 mc.2 hmc
    have := ((b3 q).1 hq).2
    rw [← getD_of_getElem? ls q mc.1 this]; exact hlt q
  have hpred : ∀ mc, mc ∈ g →
      ((((fun pr => sel pr x y p) ∘ fun mc : Nat × Nat =>
          ((x0 <<< 24 ||| y0 <<< 16 ||| lv <<< 16) ||| mc.1, mc.2)) mc) = true ↔
        (inSq x0 y0 lv x y ∧ mc.1.testBit (subIndex lv x y) = true ∧ p < 18 ∧ ls[p]? = some mc.1)) := by
    intro mc hmc
    simp only [Function.comp, sel, Bool.and_eq_true]
    rw [selects_code x0 y0 lv mc.1 x y hl hx hy hx1 hy1 (hm16 mc hmc), (gb mc.1 mc.2 hmc).2.2 p]
    constructor
    · rintro ⟨⟨a, b⟩, c, e⟩; exact ⟨a, b, c, e⟩
    · rintro ⟨a, b, c, e⟩; exact ⟨⟨a, b⟩, c, e⟩
  have key := count_nodup_keys ((fun pr => sel pr x y p) ∘ fun mc : Nat × Nat =>
      ((x0 <<< 24 ||| y0 <<< 16 ||| lv <<< 16) ||| mc.1, mc.2)) (ls.getD p 0) g ga
    (by intro mc hmc hp; exact (getD_of_getElem? ls p mc.1 ((hpred mc hmc).1 hp).2.2.2).symm)
  have hex : (∃ mc, mc ∈ g ∧ ((fun pr => sel pr x y p) ∘ fun mc : Nat × Nat =>
      ((x0 <<< 24 ||| y0 <<< 16 ||| lv <<< 16) ||| mc.1, mc.2)) mc = true) ↔
      (inSq x0 y0 lv x y ∧ p < 18 ∧ (ls.getD p 0).testBit (subIndex lv x y) = true) := by
    constructor
    · rintro ⟨mc, hmc, hp⟩
      obtain ⟨a, b, c, e⟩ := (hpred mc hmc).1 hp
      rw [getD_of_getElem? ls p mc.1 e]
      exact ⟨a, c, b⟩
    · rintro ⟨a, b, c⟩
      have hpe := getElem?_of_lt ls p (by omega)
      have hne : ls.getD p 0 ≠ 0 := by
        intro e; rw [e] at c; simp at c
      obtain ⟨cm, hcm⟩ := gc p b _ hpe hne
      exact ⟨(ls.getD p 0, cm), hcm, (hpred _ hcm).2 ⟨a, c, b, hpe⟩⟩
  rw [← hex]
  exact key

theorem lt_of_getD_some {α} (l : List (Option α)) (i : Nat) (c : α) (h : l.getD i none = some c) :
    i < l.length := by
  by_cases hi : i < l.length
  · exact hi
  · simp [List.getD_eq_getElem?_getD, List.getElem?_eq_none (Nat.le_of_not_lt hi)] at h

theorem countSel_append (a b : List (Nat × Nat)) (x y p : Nat) :
    countSel (a ++ b) x y p = countSel a x y p + countSel b x y p := by
  simp [countSel, List.countP_append]

/-- what one child contributes to the list of its parent -/
def childEmit (d : Nat) (subs : List (Option RTree)) (i : Nat) : List (Nat × Nat) :=
  match subs.getD i none with
  | none => []
  | some c => emit d c

theorem emit_succ (d x0 y0 lv : Nat) (ls : List Nat) (subs : List (Option RTree)) :
    emit (d + 1) (.mk x0 y0 lv ls subs) =
      ((sortPairs (groupCores ls 0 [])).map fun mc =>
        ((x0 <<< 24 ||| y0 <<< 16 ||| lv <<< 16) ||| mc.1, mc.2)) ++
      (if lv < 3 then childOrder.flatMap (childEmit d subs) else []) := by
  simp only [emit]; rfl

theorem emit_count : ∀ d t, Inv d t → ∀ x y p,
    (holds d t x y p → countSel (emit d t) x y p = 1) ∧
    (¬ holds d t x y p → countSel (emit d t) x y p = 0)
  | 0, t, h, _, _, _ => by simp [Inv] at h
  | d + 1, .mk x0 y0 lv ls subs, hI, x, y, p => by
    obtain ⟨⟨h1, hx, hy, hx1, hy1, hlen, hlt, hsl, hch⟩, hnf⟩ := hI
    have hloc := loc_count x0 y0 lv ls x y p (by omega) hx hy hx1 hy1 hlen hlt
    rw [emit_succ, countSel_append]
    generalize hk : subIndex lv x y = k at hloc
    have hk16 : k < 16 := by rw [← hk]; exact subIndex_lt ..
    -- a child that holds the point is the child of the point's block
    have hBin : ∀ i c, subs.getD i none = some c → holds d c x y p →
        lv < 3 ∧ inSq x0 y0 lv x y ∧ k = i ∧ p < 18 := by
      intro i c hic hh
      have hi := lt_of_getD_some subs i c hic
      have hl3 : lv < 3 := by
        by_cases h3 : lv = 3
        · have : subs.length = 0 := by rw [hsl, if_pos h3]
          omega
        · omega
      have hi16 : i < 16 := by
        have : subs.length = 16 := by rw [hsl, if_neg (by omega)]
        omega
      obtain ⟨a, b, c1, _⟩ := hch i c hic
      have hclv : c.lv = lv + 1 := by have := Inv_lv d c c1; omega
      obtain ⟨hsq, hp⟩ := holds_inSq d c x y p hh
      rw [a, b, hclv, child_inSq x0 y0 lv i x y hl3 hx hy hi16] at hsq
      exact ⟨hl3, hsq.1, by rw [← hk]; exact hsq.2, hp⟩
    -- count of one child's list
    have hchild : ∀ i,
        ((∃ c, subs.getD i none = some c ∧ holds d c x y p) → countSel (childEmit d subs i) x y p = 1) ∧
        ((¬ ∃ c, subs.getD i none = some c ∧ holds d c x y p) → countSel (childEmit d subs i) x y p = 0) := by
      intro i
      unfold childEmit
      cases hsub : subs.getD i none with
      | none => simp [countSel]
      | some c =>
        have ih := emit_count d c (hch i c hsub).2.2.1 x y p
        constructor
        · rintro ⟨c', e, h⟩; cases e; exact ih.1 h
        · intro h; exact ih.2 (fun hh => h ⟨c, rfl, hh⟩)
    have hrest :
        countSel (if lv < 3 then childOrder.flatMap (childEmit d subs) else []) x y p =
          countSel (childEmit d subs k) x y p := by
      by_cases hl3 : lv < 3
      · rw [if_pos hl3]
        unfold countSel
        rw [List.countP_flatMap]
        have := sum_single (fun i => List.countP (fun pr => sel pr x y p) (childEmit d subs i)) k childOrder
          childOrder_nodup (by
            intro i _ hik
            apply (hchild i).2
            rintro ⟨c, e, h⟩
            exact hik (hBin i c e h).2.2.1.symm)
        rw [if_pos (childOrder_mem k hk16)] at this
        exact this
      · rw [if_neg hl3]
        have h3 : lv = 3 := by omega
        have hnil : subs = [] := List.eq_nil_of_length_eq_zero (by rw [hsl, if_pos h3])
        subst hnil
        simp [countSel, childEmit]
    rw [hrest]
    simp only [holds, hk]
    constructor
    · rintro ⟨a, b, hbit | hB⟩
      · rw [hloc.1 ⟨a, b, hbit⟩, (hchild k).2]
        rintro ⟨c, e, h⟩
        exact (hch k c e).2.2.2 p hbit x y h
      · by_cases hbit : (ls.getD p 0).testBit k = true
        · obtain ⟨c, e, h⟩ := hB
          exact absurd h ((hch k c e).2.2.2 p hbit x y)
        · rw [hloc.2 (fun h => hbit h.2.2), (hchild k).1 hB]
    · intro hno
      rw [hloc.2 (fun h => hno ⟨h.1, h.2.1, Or.inl h.2.2⟩), (hchild k).2]
      rintro ⟨c, e, h⟩
      obtain ⟨_, a, _, b⟩ := hBin k c e h
      exact hno ⟨a, b, Or.inr ⟨c, e, h⟩⟩
/-! ### every emitted pair selects something; core masks are 18 bit -/

theorem block_point (x0 y0 lv i : Nat) (hl : lv ≤ 3) (hx : x0 % scale lv = 0) (hy : y0 % scale lv = 0)
    (hi : i < 16) : ∃ x y, inSq x0 y0 lv x y ∧ subIndex lv x y = i := by
  refine ⟨x0 + scale lv / 4 * (i % 4), y0 + scale lv / 4 * (i / 4), ?_⟩
  rcases lv_cases hl with h | h | h | h <;> subst h <;>
    simp only [inSq, subIndex_eq, scale, shift, Nat.reducePow, Nat.reduceSub, Nat.reduceMul,
      Nat.reduceAdd, Nat.reduceDiv, Nat.div_one] at hx hy ⊢ <;> omega

theorem emit_props : ∀ d t, Inv d t → ∀ pr, pr ∈ emit d t →
    (∃ x y p, sel pr x y p = true) ∧ pr.2 < 2 ^ 18
  | 0, t, h, _, _ => by simp [Inv] at h
  | d + 1, .mk x0 y0 lv ls subs, hI, pr, hpr => by
    obtain ⟨⟨h1, hx, hy, hx1, hy1, hlen, hlt, hsl, hch⟩, hnf⟩ := hI
    rw [emit_succ, List.mem_append] at hpr
    rcases hpr with hpr | hpr
    · rw [List.mem_map] at hpr
      obtain ⟨⟨m, cm⟩, hmem, rfl⟩ := hpr
      have hmem' : (m, cm) ∈ groupCores ls 0 [] :=
        (List.mergeSort_perm _ pairLe).mem_iff.1 hmem
      have G := groupCores_ok ls
      rw [hlen] at G
      obtain ⟨hm0, ⟨q, hq⟩, hb3⟩ := G.2.1 m cm hmem'
      have hq' := (hb3 q).1 hq
      have hm16 : m < 2 ^ 16 := by rw [← getD_of_getElem? ls q m hq'.2]; exact hlt q
      obtain ⟨i, hi⟩ := Nat.exists_testBit_of_ne_zero hm0
      have hi16 : i < 16 := by
        by_cases h : i < 16
        · exact h
        · have := Nat.testBit_lt_two_pow (Nat.lt_of_lt_of_le hm16 (Nat.pow_le_pow_right (by decide) (Nat.le_of_not_lt h)))
          rw [this] at hi; exact Bool.noConfusion hi
      obtain ⟨x, y, hin, hsub⟩ := block_point x0 y0 lv i (by omega) hx hy hi16
      constructor
      · refine ⟨x, y, q, ?_⟩
        simp only [sel, Bool.and_eq_true]
        exact ⟨(selects_code x0 y0 lv m x y (by omega) hx hy hx1 hy1 hm16).2 ⟨hin, by rw [hsub]; exact hi⟩, hq⟩
      · apply Nat.lt_pow_two_of_testBit
        intro j hj
        cases hc : cm.testBit j with
        | false => rfl
        | true => have := ((hb3 j).1 hc).1; omega
    · by_cases hl3 : lv < 3
      · rw [if_pos hl3, List.mem_flatMap] at hpr
        obtain ⟨i, _, hi⟩ := hpr
        unfold childEmit at hi
        cases hsub : subs.getD i none with
        | none => rw [hsub] at hi; simp at hi
        | some c =>
          rw [hsub] at hi
          exact emit_props d c (hch i c hsub).2.2.1 pr hi
      · rw [if_neg hl3] at hpr; simp at hpr

/-! ### the root and the insertion loop -/

def RootOK (t : RTree) : Prop := Inv 4 t ∧ t.x0 = 0 ∧ t.y0 = 0 ∧ t.lv = 0

/-- the documented domain: chips 0..255 x 0..255, cores 0..17 -/
def InRange (c : Int × Int × Int) : Prop :=
  0 ≤ c.1 ∧ c.1 < 256 ∧ 0 ≤ c.2.1 ∧ c.2.1 < 256 ∧ 0 ≤ c.2.2 ∧ c.2.2 < 18

def toNat3 (c : Int × Int × Int) : Nat × Nat × Nat := (c.1.toNat, c.2.1.toNat, c.2.2.toNat)

theorem rootOK_new : RootOK (RTree.new 0 0 0) :=
  ⟨Inv_new 3 0 0 0 rfl (by decide) (by decide) (by decide) (by decide), rfl, rfl, rfl⟩

theorem addRoot_spec (t : RTree) (c : Int × Int × Int) (ht : RootOK t) (hc : InRange c) :
    ∃ t', addRoot t c.1 c.2.1 c.2.2 = .ok t' ∧ RootOK t' ∧
      ∀ x y p, holds 4 t' x y p ↔ (holds 4 t x y p ∨ (x, y, p) = toNat3 c) := by
  obtain ⟨hI, h0x, h0y, h0l⟩ := ht
  obtain ⟨a1, a2, b1, b2, c1, c2⟩ := hc
  have hin : inSq t.x0 t.y0 t.lv c.1.toNat c.2.1.toNat := by
    rw [h0x, h0y, h0l]; simp only [inSq, scale]; omega
  obtain ⟨t', full, heq, hI', hx', hy', hl', hfull, hhold, _⟩ :=
    addCore_spec 4 t c.1.toNat c.2.1.toNat c.2.2.toNat hI hin (by omega)
  have hf : full = false := hfull h0l
  subst hf
  refine ⟨t', ?_, ⟨hI', by rw [hx', h0x], by rw [hy', h0y], by rw [hl', h0l]⟩, ?_⟩
  · unfold addRoot
    have : ¬ (c.1 < 0 ∨ c.2.1 < 0 ∨ c.2.2 < 0) := by omega
    rw [if_neg this, heq]
  · intro x y p
    have := hhold x y p
    simp only [Bool.false_eq_true, false_and, or_false] at this
    rw [this]
    simp only [toNat3, Prod.mk.injEq]

theorem addRoot_err (t : RTree) (c : Int × Int × Int) (ht : RootOK t) (hc : ¬ InRange c) :
    addRoot t c.1 c.2.1 c.2.2 = .error .valueError := by
  obtain ⟨hI, h0x, h0y, h0l⟩ := ht
  unfold addRoot
  by_cases hneg : c.1 < 0 ∨ c.2.1 < 0 ∨ c.2.2 < 0
  · rw [if_pos hneg]
  · rw [if_neg hneg]
    obtain ⟨x0, y0, lv, ls, subs⟩ := t
    simp only [RTree.x0, RTree.y0, RTree.lv] at h0x h0y h0l
    subst h0x; subst h0y; subst h0l
    rw [addCore]
    have : c.2.2.toNat > 17 ∨ c.1.toNat < 0 ∨ c.1.toNat ≥ 0 + scale 0 ∨ c.2.1.toNat < 0 ∨
        c.2.1.toNat ≥ 0 + scale 0 := by
      simp only [InRange, scale] at hc ⊢; omega
    rw [if_pos this]

theorem foldlM_spec : ∀ (ts : List (Int × Int × Int)) (t0 : RTree), RootOK t0 → (∀ c, c ∈ ts → InRange c) →
    ∃ t, ts.foldlM (fun t c => addRoot t c.1 c.2.1 c.2.2) t0 = .ok t ∧ RootOK t ∧
      ∀ x y p, holds 4 t x y p ↔ (holds 4 t0 x y p ∨ (x, y, p) ∈ ts.map toNat3)
  | [], t0, h0, _ => ⟨t0, rfl, h0, by simp⟩
  | c :: ts, t0, h0, hr => by
    obtain ⟨t1, e1, h1, hh1⟩ := addRoot_spec t0 c h0 (hr c List.mem_cons_self)
    obtain ⟨t, e, h, hh⟩ := foldlM_spec ts t1 h1 (fun c' hc' => hr c' (List.mem_cons_of_mem _ hc'))
    refine ⟨t, ?_, h, ?_⟩
    · rw [List.foldlM_cons, e1]; exact e
    · intro x y p
      rw [hh, hh1, List.map_cons, List.mem_cons, or_assoc]

theorem foldlM_err : ∀ (ts : List (Int × Int × Int)) (t0 : RTree), RootOK t0 → (∃ c, c ∈ ts ∧ ¬ InRange c) →
    ts.foldlM (fun t c => addRoot t c.1 c.2.1 c.2.2) t0 = .error .valueError
  | [], _, _, ⟨c, h, _⟩ => by simp at h
  | c :: ts, t0, h0, hex => by
    rw [List.foldlM_cons]
    by_cases hc : InRange c
    · obtain ⟨t1, e1, h1, _⟩ := addRoot_spec t0 c h0 hc
      rw [e1]
      apply foldlM_err ts t1 h1
      obtain ⟨c', hm, hn⟩ := hex
      rcases List.mem_cons.1 hm with rfl | hm
      · exact absurd hc hn
      · exact ⟨c', hm, hn⟩
    · rw [addRoot_err t0 c h0 hc]; rfl

/-! ### sorting -/

theorem sortPairs_sorted (l : List (Nat × Nat)) :
    (sortPairs l).Pairwise (fun a b => pairLe a b = true) := by
  apply List.pairwise_mergeSort
  · intro a b c h1 h2
    simp only [pairLe, Bool.or_eq_true, Bool.and_eq_true, decide_eq_true_eq, beq_iff_eq] at *
    omega
  · intro a b
    simp only [pairLe, Bool.or_eq_true, Bool.and_eq_true, decide_eq_true_eq, beq_iff_eq]
    omega

theorem strict_of_sorted_nodup (l : List (Nat × Nat))
    (h1 : l.Pairwise (fun a b => pairLe a b = true)) (h2 : l.Nodup) : StrictlyIncreasing l := by
  unfold StrictlyIncreasing
  have := h1.and h2
  refine this.imp ?_
  intro a b ⟨hle, hne⟩
  simp only [pairLe, Bool.or_eq_true, Bool.and_eq_true, decide_eq_true_eq, beq_iff_eq] at hle
  unfold pairLt
  have : a.1 ≠ b.1 ∨ a.2 ≠ b.2 := by
    by_cases h : a.1 = b.1
    · right; intro h'; exact hne (Prod.ext h h')
    · left; exact h
  omega

/-- a list in which every element selects something and nothing is selected twice has no repetition -/
theorem nodup_of_exact (out : List (Nat × Nat))
    (hne : ∀ pr, pr ∈ out → ∃ x y p, sel pr x y p = true)
    (hle : ∀ x y p, countSel out x y p ≤ 1) : out.Nodup := by
  rw [List.nodup_iff_count]
  intro a
  by_cases ha : a ∈ out
  · obtain ⟨x, y, p, hs⟩ := hne a ha
    refine Nat.le_trans ?_ (hle x y p)
    rw [List.count_eq_countP]
    unfold countSel
    apply List.countP_mono_left
    intro pr _ h
    have : pr = a := by simpa using h
    rw [this]; exact hs
  · have : List.count a out = 0 := List.count_eq_zero.2 ha
    omega

end Rig.C12
