/-
C03 - helper lemmas and proofs (copy_and_disconnect_tree).  Core Lean only.
-/
import RigModel.Model.C03
import RigModel.Lemmas.C03AStar
set_option linter.unusedSimpArgs false
set_option linter.unusedVariables false
namespace Rig.C03.L
open Rig.C03 Rig.Gen.C03Links

theorem forestLive_insertNew {m : Machine} {f : Forest} {c : Chip} (hf : ForestLive m f)
    (hc : chipOk m c = true) : ForestLive m (f.insertNew c) := by
  intro n hn
  simp only [Forest.insertNew, List.mem_append, List.mem_singleton] at hn
  rcases hn with hn | rfl
  · exact hf n hn
  · exact ⟨hc, by intro k hk; simp at hk⟩

theorem forestLive_addChild {m : Machine} {f : Forest} {p : Chip} {e : Nat × Chip} (hf : ForestLive m f)
    (he : HopOk m (p, e.1, e.2)) : ForestLive m (f.addChild p e) := by
  intro n hn
  simp only [Forest.addChild, List.mem_map] at hn
  obtain ⟨n0, hn0, rfl⟩ := hn
  have h0 := hf n0 hn0
  split
  · rename_i heq
    have : n0.1 = p := by simpa using heq
    refine ⟨h0.1, ?_⟩
    intro k hk
    simp only [List.mem_append, List.mem_singleton] at hk
    rcases hk with hk | rfl
    · exact h0.2 k hk
    · simp only; rw [this]; exact he
  · exact h0

theorem linksBetween_hop {m : Machine} {p c : Chip} {d : Nat} (h : (linksBetween m p c).contains d = true)
    (hc : chipOk m c = true) : HopOk m (p, d, c) := by
  simp only [linksBetween, List.contains_iff_mem, List.mem_filter, Bool.and_eq_true, beq_iff_eq] at h
  exact ⟨linkOrder_lt d h.1, h.2.2, hc, h.2.1.symm⟩

theorem visit_live {m : Machine} {st st' : CopyState} {np : Option Chip} {dir : Nat} {oldc nn : Chip}
    (hf : ForestLive m st.lookup) (h : st.visit m np dir oldc = .ok (nn, st')) :
    ForestLive m st'.lookup := by
  unfold CopyState.visit at h
  split at h
  · rename_i halive
    split at h
    · simp at h
    · have h1 := forestLive_insertNew hf halive
      split at h
      · simp only [pure, Except.pure, Except.ok.injEq, Prod.mk.injEq] at h
        obtain ⟨_, rfl⟩ := h
        exact h1
      · split at h
        · rename_i p hlb
          simp only [pure, Except.pure, Except.ok.injEq, Prod.mk.injEq] at h
          obtain ⟨_, rfl⟩ := h
          exact forestLive_addChild h1 (linksBetween_hop hlb halive)
        · simp only [pure, Except.pure, Except.ok.injEq, Prod.mk.injEq] at h
          obtain ⟨_, rfl⟩ := h
          exact h1
  · split at h
    · simp at h
    · simp only [pure, Except.pure, Except.ok.injEq, Prod.mk.injEq] at h
      obtain ⟨_, rfl⟩ := h
      exact hf

theorem copyLoop_live {old : Forest} {m : Machine} :
    ∀ (fuel : Nat) (q : List (Option Chip × Nat × Chip)) (st st' : CopyState),
      ForestLive m st.lookup → copyLoop old m fuel q st = .ok st' → ForestLive m st'.lookup := by
  intro fuel
  induction fuel with
  | zero =>
    intro q st st' hf h
    cases q with
    | nil => simp only [copyLoop, pure, Except.pure, Except.ok.injEq] at h; subst h; exact hf
    | cons a q => simp [copyLoop] at h
  | succ fuel ih =>
    intro q st st' hf h
    cases q with
    | nil => simp only [copyLoop, pure, Except.pure, Except.ok.injEq] at h; subst h; exact hf
    | cons a q =>
      obtain ⟨np, dir, oldc⟩ := a
      simp only [copyLoop, bind, Except.bind] at h
      split at h
      · simp at h
      · rename_i res hvis
        obtain ⟨nn, st1⟩ := res
        exact ih _ _ _ (visit_live hf hvis) h

theorem copyAndDisconnect_live (old : Forest) (root : Chip) (m : Machine) (cs : CopyState)
    (h : copyAndDisconnect old root m = .ok cs) : ForestLive m cs.lookup := by
  unfold copyAndDisconnect at h
  exact copyLoop_live _ _ _ _ (by intro n hn; simp at hn) h
end Rig.C03.L
