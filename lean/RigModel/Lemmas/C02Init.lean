/-
C02 - the annealer's initial placement: the placement of the movable vertices is computed on the
machine left by the constraint loop and then merged with the fixed vertices.
-/
import RigModel.Lemmas.C02Loops
set_option linter.unusedSimpArgs false
set_option linter.unusedVariables false

namespace Rig.C02

/-- `initial_placements.update(fixed_vertices)` -/
def mergeP (init fixed : Placement) : Placement := fixed.foldl (fun q (vc : Vtx × Chip) => aset q vc.1 vc.2) init

theorem aget_mergeP : ∀ (fixed init : Placement) (v : Vtx), (keys fixed).Nodup →
    aget (mergeP init fixed) v = match aget fixed v with | some c => some c | none => aget init v := by
  intro fixed
  induction fixed with
  | nil => intro init v _; simp [mergeP, aget]
  | cons hd t ih =>
    obtain ⟨u, cu⟩ := hd
    intro init v hn
    simp only [keys, List.map_cons, List.nodup_cons] at hn
    have := ih (aset init u cu) v hn.2
    simp only [mergeP, List.foldl_cons] at this ⊢
    rw [this]
    by_cases e : u = v
    · subst e
      have hnone : aget t u = none := (aget_none_iff t u).2 hn.1
      simp [aget, hnone, aget_aset_self]
    · simp only [aget, e, if_false]
      cases aget t v with
      | none => simp [aget_aset_ne init cu e]
      | some c => rfl

theorem nodup_mergeP : ∀ (fixed init : Placement), (keys init).Nodup → (keys (mergeP init fixed)).Nodup := by
  intro fixed
  induction fixed with
  | nil => intro init h; simpa [mergeP] using h
  | cons hd t ih =>
    intro init h
    simp only [mergeP, List.foldl_cons]
    exact ih _ (nodup_keys_aset _ _ _ h)

theorem load_merge_le (vr : VR) (p a b : Placement) (c : Chip) (i : Nat) (hnn : NonNegVR vr)
    (h : ∀ v c, aget p v = some c → aget a v = some c ∨ aget b v = some c) :
    load vr p c i ≤ load vr a c i + load vr b c i := by
  induction vr with
  | nil => simp [load]
  | cons hd t ih =>
    obtain ⟨u, du⟩ := hd
    have hd0 : 0 ≤ dem du i := hnn u du (by simp) i
    have := ih (fun v d hv => hnn v d (List.mem_cons_of_mem _ hv))
    simp only [load]
    by_cases hp : aget p u = some c
    · rcases h u c hp with h1 | h1
      · rw [if_pos hp, if_pos h1]; split <;> omega
      · rw [if_pos hp, if_pos h1]; split <;> omega
    · rw [if_neg hp]; split <;> split <;> omega

/-- the two phases compose to the invariant for the merged placement -/
theorem Inv.compose {vr : VR} {m0 m1 m2 : Machine} {rsv : Chip → Nat → Int} {fixed init : Placement}
    (hnn : NonNegVR vr)
    (I1 : Inv vr m0 rsv m1 fixed) (I2 : Inv vr m1 (fun _ _ => 0) m2 init) :
    Inv vr m0 rsv m2 (mergeP init fixed) := by
  have hok : ∀ c, m1.ok c = m0.ok c := I1.ok_eq
  have hget := aget_mergeP fixed init
  refine ⟨I2.w.trans I1.w, I2.h.trans I1.h, I2.dead.trans I1.dead, ?_, ?_, ?_, ?_, ?_, nodup_mergeP _ _ I2.pnodup⟩
  · intro c hc
    rw [I2.len c (by rw [hok]; exact hc), I1.len c hc]
  · intro c hc i
    exact I2.nonneg c (by rw [hok]; exact hc) i
  · intro c hc i hi
    have b1 := I1.bound c hc i hi
    have b2 := I2.bound c (by rw [hok]; exact hc) i (by rw [I1.len c hc]; exact hi)
    have hl := load_merge_le vr (mergeP init fixed) init fixed c i hnn (by
      intro v c' hv
      rw [hget v I1.pnodup] at hv
      cases hx : aget fixed v with
      | none => rw [hx] at hv; exact Or.inl hv
      | some c'' => rw [hx] at hv; exact Or.inr hv)
    omega
  · intro v c hv
    rw [hget v I1.pnodup] at hv
    cases hx : aget fixed v with
    | none => rw [hx] at hv; rw [← hok]; exact I2.pok v c hv
    | some c'' => rw [hx] at hv; injection hv with hv; subst hv; exact I1.pok v _ hx
  · intro v hv
    have hs := (aget_isSome_iff _ _).2 hv
    rw [hget v I1.pnodup] at hs
    cases hx : aget fixed v with
    | none => rw [hx] at hs; exact I2.pvr v ((aget_isSome_iff _ _).1 hs)
    | some c'' => exact I1.pvr v ((aget_isSome_iff _ _).1 (by simp [hx]))

end Rig.C02
