/-
Facts about the run-time support of the translated Python functions (`Gen/PyFun.lean`: `pyRange1`, `pyRange`,
`pyWhile`, `pyIsqrt`) and about `List.foldl`, used by the translator-tie modules (Props/CxxGen.lean).
-/
import RigModel.Gen.PyFun

namespace Rig.PyLoops
open Rig.Gen.PyFun

theorem pyRange1_eq (a b : Int) :
    pyRange1 a b = (List.range (b - a).toNat).map (fun (k : Nat) => a + (k : Int)) := rfl

theorem length_pyRange1 (a b : Int) : (pyRange1 a b).length = (b - a).toNat := by
  simp [pyRange1]

/-- `range(a, b, c)` for a positive step -/
theorem pyRange_pos (a b c : Int) (hc : 0 < c) :
    pyRange a b c = (List.range ((b - a + c - 1) / c).toNat).map (fun (k : Nat) => a + c * (k : Int)) := by
  simp only [pyRange, gt_iff_lt, hc, if_true]

/-- `List.lookup` is `find?` on the key followed by the projection (the generated code uses the former for
`D[key]` / `D.get(key)`, the models the latter) -/
theorem lookup_eq_find? {α β : Type} [BEq α] [LawfulBEq α] (k : α) (l : List (α × β)) :
    l.lookup k = (l.find? (fun e => e.1 == k)).map (·.2) := by
  induction l with
  | nil => rfl
  | cons a t ih =>
    obtain ⟨a1, a2⟩ := a
    simp only [List.lookup, List.find?]
    rw [BEq.comm (a := k)]
    cases h : (a1 == k) <;> simp [ih, h]

/-- a fold whose step only appends to an accumulator is a `flatMap` -/
theorem foldl_append_flatMap {α β : Type} (f : List β → α → List β) (g : α → List β)
    (hf : ∀ o a, f o a = o ++ g a) : ∀ (l : List α) (o : List β), l.foldl f o = o ++ l.flatMap g
  | [], o => by simp
  | a :: t, o => by
    rw [List.foldl_cons, hf, foldl_append_flatMap f g hf t]
    simp [List.flatMap_cons, List.append_assoc]

/-- `pyWhile` with enough fuel: if the loop, started in `s`, reaches a state where the condition fails after
`n` iterations, any fuel `≥ n` gives that state -/
theorem pyWhile_of_iter {σ : Type} (cond : σ → Bool) (body : σ → σ) :
    ∀ (n : Nat) (s : σ), (∀ k < n, cond (body^[k] s) = true) → cond (body^[n] s) = false →
      ∀ fuel, n ≤ fuel → pyWhile cond body fuel s = some (body^[n] s)
  | 0, s, _, hstop, fuel, _ => by
    cases fuel <;> simp [pyWhile, Function.iterate_zero] at hstop ⊢ <;> simp [hstop]
  | n + 1, s, hgo, hstop, fuel, hf => by
    cases fuel with
    | zero => omega
    | succ fuel =>
      have h0 : cond s = true := by simpa using hgo 0 (by omega)
      rw [pyWhile, if_pos h0, Function.iterate_succ_apply]
      apply pyWhile_of_iter cond body n (body s)
      · intro k hk
        have := hgo (k + 1) (by omega)
        rwa [Function.iterate_succ_apply] at this
      · rwa [Function.iterate_succ_apply] at hstop
      · omega

/-- membership is preserved by an injective change of representation (model naturals -> Python ints) -/
theorem contains_map_inj {α β : Type} [BEq α] [LawfulBEq α] [BEq β] [LawfulBEq β] (f : α → β)
    (hf : ∀ a b, f a = f b → a = b) (l : List α) (a : α) : (l.map f).contains (f a) = l.contains a := by
  induction l with
  | nil => rfl
  | cons x t ih =>
    simp only [List.map_cons, List.contains_cons, ih]
    congr 1
    by_cases h : a = x
    · subst h; simp
    · have : f a ≠ f x := fun e => h (hf _ _ e)
      simp [h, this]

end Rig.PyLoops
