/-
C04 - the merge-application invariant: applying a merge that passes the up-check and the
down-check keeps every key on its route.
-/
import RigModel.Lemmas.C04
set_option linter.unusedSimpArgs false
set_option linter.unusedVariables false

namespace Rig.C04

/-! ### definitions used by the statements -/

/-- a key/mask pair (an alias) matches a key -/
def kmMatches (a : KM) (k : W) : Bool := k &&& a.2 == a.1

/-- **UpOk** (what `_refine_upcheck` establishes): no member of the merge intersects an entry
between its own position and the insertion index. -/
def UpOk (T : List Entry) (m : Merge) : Prop :=
  ∀ i ∈ m.entries, ∀ e, T[i]? = some e → ∀ o ∈ (T.take m.ins).drop (i + 1), e.meets o = false

/-- **DownOk** (what `_refine_downcheck` establishes): the merged key/mask intersects no alias of
an entry at or below the insertion index - literally `_get_covered_keys_and_masks` is empty. -/
def DownOk (T : List Entry) (A : Aliases) (m : Merge) : Prop := covered T A m = []

/-- the insertion index splits the table by generality (true on generality-sorted tables) -/
def InsOk (T : List Entry) (m : Merge) : Prop :=
  (∀ e ∈ T.take m.ins, e.gen < generality m.key m.mask) ∧
  (∀ e ∈ T.drop m.ins, generality m.key m.mask ≤ e.gen)

/-- all members of the merge carry one route -/
def SameRoute (T : List Entry) (es : List Nat) : Prop :=
  ∀ a ∈ members T es, ∀ b ∈ members T es, a.route = b.route

/-- **Inv**: the ordered-covering invariant between the (sorted) original table `T0` and the
current table `T` with alias dictionary `A`: every key whose first match in `T0` is `o` has a
first match `e` in `T` with the same route, at least the sources of `o`, and `e` stands (through
its aliases) for a key/mask that matches the key. -/
def Inv (T0 T : List Entry) (A : Aliases) : Prop :=
  ∀ k o, lookup T0 k = some o →
    ∃ e, lookup T k = some e ∧ e.route = o.route ∧ bitSubset o.sources e.sources = true ∧
      ∃ a ∈ alOf A e, kmMatches a k = true

/-! ### bit sets (Nat) -/

theorem bitSubset_refl (a : Nat) : bitSubset a a = true := by simp [bitSubset]

theorem bitSubset_iff {a b : Nat} : bitSubset a b = true ↔ ∀ i, a.testBit i = true → b.testBit i = true := by
  simp only [bitSubset, beq_iff_eq]
  constructor
  · intro h i hi
    have := congrArg (fun x => x.testBit i) h
    simp only [Nat.testBit_and, hi, Bool.true_and] at this
    exact this
  · intro h
    apply Nat.eq_of_testBit_eq
    intro i
    simp only [Nat.testBit_and]
    cases hi : a.testBit i with
    | false => rfl
    | true => simp [h i hi]

theorem bitSubset_trans {a b c : Nat} (h1 : bitSubset a b = true) (h2 : bitSubset b c = true) :
    bitSubset a c = true := by
  rw [bitSubset_iff] at *
  exact fun i hi => h2 i (h1 i hi)

theorem foldl_or_sources_mono (ms : List Entry) (acc : Nat) :
    bitSubset acc (ms.foldl (fun a e => a ||| e.sources) acc) = true := by
  induction ms generalizing acc with
  | nil => exact bitSubset_refl _
  | cons e r ih =>
    refine bitSubset_trans ?_ (ih (acc ||| e.sources))
    rw [bitSubset_iff]; intro i hi; simp [Nat.testBit_or, hi]

theorem sources_subset_allSources {ms : List Entry} {e : Entry} (h : e ∈ ms) :
    bitSubset e.sources (allSources ms) = true := by
  unfold allSources
  generalize (0 : Nat) = acc
  induction ms generalizing acc with
  | nil => cases h
  | cons d r ih =>
    simp only [List.foldl_cons]
    rcases List.mem_cons.mp h with rfl | h
    · refine bitSubset_trans ?_ (foldl_or_sources_mono r _)
      rw [bitSubset_iff]; intro i hi; simp [Nat.testBit_or, hi]
    · exact ih h _

/-! ### merged key/mask covers its members -/

theorem foldl_and_key_bit (ms : List Entry) (acc : W) (i : Nat) :
    (ms.foldl (fun a e => a &&& e.key) acc).getLsbD i = (acc.getLsbD i && ms.all (fun e => e.key.getLsbD i)) := by
  induction ms generalizing acc with
  | nil => simp
  | cons e r ih => simp [ih, Bool.and_assoc]

theorem foldl_and_mask_bit (ms : List Entry) (acc : W) (i : Nat) :
    (ms.foldl (fun a e => a &&& e.mask) acc).getLsbD i = (acc.getLsbD i && ms.all (fun e => e.mask.getLsbD i)) := by
  induction ms generalizing acc with
  | nil => simp
  | cons e r ih => simp [ih, Bool.and_assoc]

theorem foldl_or_key_bit (ms : List Entry) (acc : W) (i : Nat) :
    (ms.foldl (fun a e => a ||| e.key) acc).getLsbD i = (acc.getLsbD i || ms.any (fun e => e.key.getLsbD i)) := by
  induction ms generalizing acc with
  | nil => simp
  | cons e r ih => simp [ih, Bool.or_assoc]

theorem ff_bit : ∀ i, i < 32 → (0xffffffff : W).getLsbD i = true := by decide

theorem merged_covers {ms : List Entry} {e : Entry} {k : W} (he : e ∈ ms) (hm : e.matches k = true) :
    k &&& mergedMask ms = mergedKey ms := by
  rw [matches_iff] at hm
  apply BitVec.eq_of_getLsbD_eq
  intro i hi
  have hbit := congrArg (fun x => x.getLsbD i) hm
  simp only [BitVec.getLsbD_and] at hbit
  simp only [mergedKey, mergedMask, allOnes, allSelected, anyOnes, BitVec.getLsbD_and, BitVec.getLsbD_xor,
    BitVec.getLsbD_not, foldl_and_key_bit, foldl_and_mask_bit, foldl_or_key_bit, hi, decide_true,
    Bool.true_and]
  have hall1 : ms.all (fun e => e.mask.getLsbD i) = true → e.mask.getLsbD i = true :=
    fun h => (List.all_eq_true.mp h) e he
  have hall2 : ms.all (fun e => e.key.getLsbD i) = true → e.key.getLsbD i = true :=
    fun h => (List.all_eq_true.mp h) e he
  have hany : e.key.getLsbD i = true → ms.any (fun e => e.key.getLsbD i) = true :=
    fun h => List.any_eq_true.mpr ⟨e, he, h⟩
  have hff := ff_bit i hi
  have hz : BitVec.getLsbD (0 : W) i = false := by simp
  simp only [hff, hz, Bool.true_and, Bool.false_or]
  generalize hA : (ms.all fun e => BitVec.getLsbD e.mask i) = A at *
  generalize hB : (ms.all fun e => BitVec.getLsbD e.key i) = B at *
  generalize hC : (ms.any fun e => BitVec.getLsbD e.key i) = C at *
  generalize BitVec.getLsbD k i = kb at *
  generalize BitVec.getLsbD e.mask i = mb at *
  generalize BitVec.getLsbD e.key i = eb at *
  cases A <;> cases B <;> cases C <;> cases kb <;> cases mb <;> cases eb <;> simp_all

/-! ### closed form of the table loop of `_Merge.apply` -/

/-- the entries of `l` (which starts at table position `i`) whose position is not in `es` -/
def keepIdx (es : List Nat) : Nat → List Entry → List Entry
  | _, [] => []
  | i, e :: r => (if es.contains i then [] else [e]) ++ keepIdx es (i + 1) r

theorem applyTable_past (ins : Nat) (es : List Nat) (M : Entry) (l : List Entry) (i : Nat)
    (h : ins < i) : applyTable ins es M i l = keepIdx es i l := by
  induction l generalizing i with
  | nil => simp [applyTable, keepIdx]; omega
  | cons e r ih =>
    have h1 : (i == ins) = false := by simp; omega
    simp only [applyTable, keepIdx, h1, ih (i + 1) (by omega)]
    simp

theorem applyTable_eq (ins : Nat) (es : List Nat) (M : Entry) (l : List Entry) (i : Nat)
    (h1 : i ≤ ins) (h2 : ins ≤ i + l.length) :
    applyTable ins es M i l =
      keepIdx es i (l.take (ins - i)) ++ M :: keepIdx es ins (l.drop (ins - i)) := by
  induction l generalizing i with
  | nil =>
    simp only [List.length_nil, Nat.add_zero] at h2
    have : ins = i := by omega
    subst this
    simp [applyTable, keepIdx]
  | cons e r ih =>
    by_cases hi : i = ins
    · subst hi
      simp only [applyTable, beq_self_eq_true, if_true, Nat.sub_self, List.take_zero, List.drop_zero,
        keepIdx, List.nil_append, applyTable_past i es M r (i + 1) (by omega)]
      simp
    · have hlt : i < ins := by omega
      have h3 : (i == ins) = false := by simp; omega
      simp only [List.length_cons] at h2
      have e1 : ins - i = (ins - (i + 1)) + 1 := by omega
      simp only [applyTable, h3, ih (i + 1) (by omega) (by omega)]
      rw [e1, List.take_succ_cons, List.drop_succ_cons]
      simp [keepIdx]

theorem keepIdx_lookup_none (es : List Nat) (k : W) (l : List Entry) (i : Nat)
    (h : ∀ j d, l[j]? = some d → ¬ (i + j) ∈ es → d.matches k = false) :
    lookup (keepIdx es i l) k = none := by
  induction l generalizing i with
  | nil => simp [keepIdx, lookup]
  | cons e r ih =>
    have ih' := ih (i + 1) (fun j d hj hn => h (j + 1) d (by simpa using hj) (by rw [← Nat.add_assoc, Nat.add_right_comm] at *; simpa [Nat.add_comm, Nat.add_left_comm, Nat.add_assoc] using hn))
    simp only [keepIdx]
    by_cases hc : es.contains i = true
    · simp only [hc, if_true, List.nil_append]; exact ih'
    · simp only [hc, if_false, List.cons_append, List.nil_append, Bool.false_eq_true]
      rw [lookup_cons, ih']
      have := h 0 e (by simp) (by simpa using hc)
      simp [this]

theorem keepIdx_lookup_some (es : List Nat) (k : W) (l : List Entry) (i p : Nat) (e : Entry)
    (hp : l[p]? = some e) (hm : e.matches k = true) (hn : ¬ (i + p) ∈ es)
    (h : ∀ j d, j < p → l[j]? = some d → ¬ (i + j) ∈ es → d.matches k = false) :
    lookup (keepIdx es i l) k = some e := by
  induction l generalizing i p with
  | nil => simp at hp
  | cons x r ih =>
    simp only [keepIdx]
    cases p with
    | zero =>
      simp only [List.getElem?_cons_zero, Option.some.injEq] at hp
      subst hp
      have hc : es.contains i = false := by simpa using hn
      simp only [hc, Bool.false_eq_true, if_false, List.cons_append, List.nil_append]
      rw [lookup_cons, if_pos hm]
    | succ p =>
      have ih' := ih (i + 1) p (by simpa using hp) (by rw [Nat.add_assoc, Nat.add_comm 1 p]; exact hn)
        (fun j d hj hd hnn => h (j + 1) d (by omega) (by simpa using hd)
          (by rw [Nat.add_assoc, Nat.add_comm 1 j] at hnn; exact hnn))
      by_cases hc : es.contains i = true
      · simp only [hc, if_true, List.nil_append]; exact ih'
      · simp only [hc, if_false, List.cons_append, List.nil_append, Bool.false_eq_true]
        rw [lookup_cons, ih']
        have := h 0 x (by omega) (by simp) (by simpa using hc)
        simp [this]

theorem lookup_append (a b : List Entry) (k : W) :
    lookup (a ++ b) k = (lookup a k).or (lookup b k) := by
  simp [lookup, List.find?_append]

/-- index form of first-match lookup -/
theorem lookup_some_idx {T : List Entry} {k : W} {e : Entry} (h : lookup T k = some e) :
    ∃ p : Nat, T[p]? = some e ∧ e.matches k = true ∧
      ∀ (j : Nat) (d : Entry), j < p → T[j]? = some d → d.matches k = false := by
  induction T with
  | nil => simp [lookup] at h
  | cons x r ih =>
    rw [lookup_cons] at h
    by_cases hx : x.matches k = true
    · rw [if_pos hx] at h; cases h
      exact ⟨0, by simp, hx, fun j d hj => by omega⟩
    · rw [if_neg hx] at h
      obtain ⟨p, h1, h2, h3⟩ := ih h
      refine ⟨p + 1, by simpa using h1, h2, ?_⟩
      intro j d hj hd
      cases j with
      | zero => simp at hd; subst hd; simpa using hx
      | succ j => exact h3 j d (by omega) (by simpa using hd)

/-! ### the alias dictionary -/

theorem alGet_nil (km : KM) : alGet [] km = none := rfl

theorem alGet_cons (p : KM × List KM) (A : Aliases) (km : KM) :
    alGet (p :: A) km = if p.1 = km then some p.2 else alGet A km := by
  simp only [alGet, List.find?_cons]
  by_cases h : p.1 = km
  · simp [h]
  · have : (p.1 == km) = false := by simpa using h
    simp [this, h]

theorem alGet_erase (A : Aliases) (km km' : KM) :
    alGet (alErase A km') km = if km = km' then none else alGet A km := by
  induction A with
  | nil => simp [alErase, alGet_nil]
  | cons p A ih =>
    simp only [alErase, List.filter_cons] at ih ⊢
    by_cases hp : p.1 = km'
    · have : (p.1 != km') = false := by simp [hp]
      simp only [this, Bool.false_eq_true, if_false, ih, alGet_cons]
      by_cases hk : km = km'
      · simp [hk]
      · have : ¬ p.1 = km := by rw [hp]; exact fun h => hk h.symm
        simp [hk, this]
    · have : (p.1 != km') = true := by simp [hp]
      simp only [this, if_true, alGet_cons, ih]
      by_cases hk : km = km'
      · have : ¬ p.1 = km := by rw [hk]; exact hp
        simp [hk, hp]
      · simp [hk]

theorem alGet_append_single (A : Aliases) (q : KM × List KM) (km : KM) :
    alGet (A ++ [q]) km = match alGet A km with
      | some v => some v
      | none => if q.1 = km then some q.2 else none := by
  induction A with
  | nil => simp [alGet_cons, alGet_nil]
  | cons p A ih =>
    simp only [List.cons_append, alGet_cons]
    by_cases h : p.1 = km
    · simp [h]
    · simp [h, ih]

theorem mem_setUnion (a b : List KM) (x : KM) : x ∈ setUnion a b ↔ x ∈ a ∨ x ∈ b := by
  unfold setUnion
  induction b generalizing a with
  | nil => simp
  | cons y r ih =>
    simp only [List.foldl_cons]
    rw [ih]
    by_cases hc : a.contains y = true
    · simp only [hc, if_true, List.mem_cons]
      have : y ∈ a := by simpa using hc
      constructor
      · rintro (h | h); exact Or.inl h; exact Or.inr (Or.inr h)
      · rintro (h | h | h); exact Or.inl h; exact Or.inl (h ▸ this); exact Or.inr h
    · simp only [hc, if_false, List.mem_cons, List.mem_append, Bool.false_eq_true, List.not_mem_nil,
        or_false]
      constructor
      · rintro ((h | h) | h); exact Or.inl h; exact Or.inr (Or.inl h); exact Or.inr (Or.inr h)
      · rintro (h | h | h); exact Or.inl (Or.inl h); exact Or.inl (Or.inr h); exact Or.inr h

theorem alStep_our_mono (KMm : KM) (st : AlState) (e : Entry) (x : KM) (h : x ∈ st.our) :
    x ∈ (alStep KMm st e).our := by
  simp only [alStep]
  split
  · split
    · exact h
    · simp [mem_setUnion, h]
  · split <;> simp [mem_setUnion, h]

theorem alStep_inDict (KMm : KM) (st : AlState) (e : Entry) (h : (alStep KMm st e).inDict = true) :
    st.inDict = true ∧ e.km ≠ KMm := by
  simp only [alStep] at h
  split at h
  · split at h
    · simp at h
    · rename_i h1 h2; simp at h; exact absurd h h2
  · rename_i h1
    refine ⟨?_, by simpa using h1⟩
    split at h <;> exact h

theorem alStep_dict_sub (KMm : KM) (st : AlState) (e : Entry) (km : KM) (v : List KM)
    (h : alGet (alStep KMm st e).dict km = some v) : alGet st.dict km = some v := by
  simp only [alStep] at h
  split at h
  · split at h <;> exact h
  · split at h
    · simp only [alGet_erase] at h
      split at h
      · cases h
      · exact h
    · exact h

theorem fold_our_mono (KMm : KM) (ms : List Entry) (st : AlState) (x : KM) (h : x ∈ st.our) :
    x ∈ (ms.foldl (alStep KMm) st).our := by
  induction ms generalizing st with
  | nil => exact h
  | cons d r ih => exact ih _ (alStep_our_mono KMm st d x h)

theorem fold_inDict (KMm : KM) (ms : List Entry) (st : AlState)
    (h : (ms.foldl (alStep KMm) st).inDict = true) : st.inDict = true := by
  induction ms generalizing st with
  | nil => exact h
  | cons d r ih => exact (alStep_inDict KMm st d (ih _ h)).1

theorem fold_dict_sub (KMm : KM) (ms : List Entry) (st : AlState) (km : KM) (v : List KM)
    (h : alGet (ms.foldl (alStep KMm) st).dict km = some v) : alGet st.dict km = some v := by
  induction ms generalizing st with
  | nil => exact h
  | cons d r ih => exact alStep_dict_sub KMm st d km v (ih _ h)

theorem kmMatches_km (e : Entry) (k : W) : kmMatches e.km k = e.matches k := rfl

/-- a removed member's alias that matches `k` (or the member itself) ends up in `our_aliases` -/
theorem fold_member_alias (A : Aliases) (KMm : KM) (k : W) (e : Entry) (a : KM)
    (hm : e.matches k = true) (ha : a ∈ alOf A e) (hak : kmMatches a k = true)
    (ms : List Entry) (st : AlState) (he : e ∈ ms)
    (hin : (ms.foldl (alStep KMm) st).inDict = true)
    (hsub : ∀ km v, alGet st.dict km = some v → alGet A km = some v) :
    ∃ a' ∈ (ms.foldl (alStep KMm) st).our, kmMatches a' k = true := by
  induction ms generalizing st with
  | nil => cases he
  | cons d r ih =>
    simp only [List.foldl_cons] at hin ⊢
    rcases List.mem_cons.mp he with rfl | her
    · have h1 := alStep_inDict KMm st e (fold_inDict KMm r _ hin)
      suffices ∃ a' ∈ (alStep KMm st e).our, kmMatches a' k = true by
        obtain ⟨a', h2, h3⟩ := this
        exact ⟨a', fold_our_mono KMm r _ a' h2, h3⟩
      have hne : (e.km == KMm) = false := by simpa using h1.2
      simp only [alStep, hne, Bool.false_eq_true, if_false]
      split
      · rename_i v hv
        have : alOf A e = v := by simp [alOf, hsub _ _ hv]
        exact ⟨a, by simp [mem_setUnion, ← this, ha], hak⟩
      · exact ⟨e.km, by simp [mem_setUnion], by rw [kmMatches_km]; exact hm⟩
    · exact ih (alStep KMm st d) her hin
        (fun km v h => hsub km v (alStep_dict_sub KMm st d km v h))

/-- aliases of the merged entry after `apply` -/
theorem applyAliases_merged (A : Aliases) (KMm : KM) (k : W) (e : Entry) (a : KM) (ms : List Entry)
    (he : e ∈ ms) (hm : e.matches k = true) (ha : a ∈ alOf A e) (hak : kmMatches a k = true)
    (hM : kmMatches KMm k = true) (M : Entry) (hkm : M.km = KMm) :
    ∃ a' ∈ alOf (applyAliases A KMm ms) M, kmMatches a' k = true := by
  simp only [applyAliases, alOf, hkm]
  have hnone : alGet (ms.foldl (alStep KMm) { dict := alErase A KMm, our := [], inDict := true }).dict KMm = none := by
    cases h : alGet (ms.foldl (alStep KMm) { dict := alErase A KMm, our := [], inDict := true }).dict KMm with
    | none => rfl
    | some v =>
      have := fold_dict_sub KMm ms _ KMm v h
      simp [alGet_erase] at this
  split
  · rename_i hin
    rw [alGet_append_single, hnone]
    simp only [if_true, Option.getD_some]
    exact fold_member_alias A KMm k e a hm ha hak ms _ he hin
      (fun km v h => by
        rw [alGet_erase] at h
        split at h
        · cases h
        · exact h)
  · rw [hnone]
    exact ⟨KMm, by simp, hM⟩

/-- aliases of an entry with another key/mask after `apply` -/
theorem applyAliases_other (A : Aliases) (KMm : KM) (k : W) (e : Entry) (a : KM) (ms : List Entry)
    (hne : e.km ≠ KMm) (hm : e.matches k = true) (ha : a ∈ alOf A e) (hak : kmMatches a k = true) :
    ∃ a' ∈ alOf (applyAliases A KMm ms) e, kmMatches a' k = true := by
  have key : ∀ v, alGet (applyAliases A KMm ms) e.km = some v → alGet A e.km = some v := by
    intro v hv
    simp only [applyAliases] at hv
    have h2 : alGet (ms.foldl (alStep KMm) { dict := alErase A KMm, our := [], inDict := true }).dict e.km = some v := by
      split at hv
      · rw [alGet_append_single] at hv
        split at hv
        · rename_i w hw; rw [hw]; exact hv
        · simp only at hv
          split at hv
          · rename_i h; exact absurd h.symm hne
          · cases hv
      · exact hv
    have := fold_dict_sub KMm ms _ e.km v h2
    rw [alGet_erase] at this
    split at this
    · cases this
    · exact this
  cases hv : alGet (applyAliases A KMm ms) e.km with
  | none => exact ⟨e.km, by simp [alOf, hv], by rw [kmMatches_km]; exact hm⟩
  | some v =>
    have := key v hv
    refine ⟨a, ?_, hak⟩
    simp only [alOf, this, Option.getD_some] at ha
    simp [alOf, hv, ha]

/-! ### the invariant is preserved by `_Merge.apply` -/

theorem intersect_of_kmMatches {ka ma : W} {b : KM} {k : W}
    (ha : k &&& ma = ka) (hb : kmMatches b k = true) : intersect ka ma b.1 b.2 = true := by
  simp only [kmMatches, beq_iff_eq] at hb
  simp only [intersect, beq_iff_eq]
  rw [← ha, ← hb, BitVec.and_assoc, BitVec.and_assoc, BitVec.and_comm ma b.2]

theorem mem_members {T : List Entry} {es : List Nat} {p : Nat} {e : Entry}
    (hp : T[p]? = some e) (hpe : p ∈ es) : e ∈ members T es := by
  simp only [members, List.mem_filterMap]
  exact ⟨p, hpe, hp⟩

theorem covered_nil {T : List Entry} {A : Aliases} {m : Merge} (h : covered T A m = []) :
    ∀ d ∈ T.drop m.ins, ∀ a ∈ alOf A d, intersect m.key m.mask a.1 a.2 = false := by
  intro d hd a ha
  simp only [covered, List.flatMap_eq_nil_iff, List.filter_eq_nil_iff] at h
  simpa using h d hd a ha

theorem mem_drop_of_getElem? {T : List Entry} {p n : Nat} {e : Entry} (hp : T[p]? = some e)
    (h : n ≤ p) : e ∈ T.drop n := by
  rw [List.mem_iff_getElem?]
  exact ⟨p - n, by rw [List.getElem?_drop]; rw [show n + (p - n) = p by omega]; exact hp⟩

theorem mem_slice_of_getElem? {T : List Entry} {i j n : Nat} {d : Entry} (hj : T[j]? = some d)
    (h1 : i < j) (h2 : j < n) : d ∈ (T.take n).drop (i + 1) := by
  rw [List.mem_iff_getElem?]
  refine ⟨j - (i + 1), ?_⟩
  rw [List.getElem?_drop, show i + 1 + (j - (i + 1)) = j by omega, List.getElem?_take, if_pos h2]
  exact hj

theorem apply_inv (T0 T : List Entry) (A : Aliases) (es : List Nat)
    (hinv : Inv T0 T A)
    (hins : (mkMerge T es).ins ≤ T.length)
    (hup : UpOk T (mkMerge T es)) (hdown : DownOk T A (mkMerge T es))
    (hio : InsOk T (mkMerge T es)) (hsr : SameRoute T es) :
    Inv T0 (applyMerge T (mkMerge T es) A).1 (applyMerge T (mkMerge T es) A).2 := by
  intro k o ho
  obtain ⟨e, hl, hr, hs, a, ha, hak⟩ := hinv k o ho
  obtain ⟨p, hp, hmk, hfirst⟩ := lookup_some_idx hl
  generalize hm : mkMerge T es = m at *
  have hmkey : m.key = mergedKey (members T es) := by rw [← hm]; rfl
  have hmmask : m.mask = mergedMask (members T es) := by rw [← hm]; rfl
  have hmsrc : m.sources = allSources (members T es) := by rw [← hm]; rfl
  have hmes : m.entries = es := by rw [← hm]; rfl
  -- the table
  have hT : (applyMerge T m A).1 =
      keepIdx es 0 (T.take m.ins) ++ mergedEntry T m :: keepIdx es m.ins (T.drop m.ins) := by
    simp only [applyMerge, hmes]
    rw [applyTable_eq m.ins es _ T 0 (Nat.zero_le _) (by simpa using hins)]
    simp
  have hA : (applyMerge T m A).2 = applyAliases A (m.key, m.mask) (members T es) := by
    simp only [applyMerge, hmes]
  rw [hT, hA]
  have hMkm : (mergedEntry T m).km = (m.key, m.mask) := rfl
  have hMmatch : (mergedEntry T m).matches k = kmMatches (m.key, m.mask) k := rfl
  -- below the insertion index the merged entry cannot match `k`
  have hbelow : m.ins ≤ p → kmMatches (m.key, m.mask) k = false := by
    intro hle
    cases hc : kmMatches (m.key, m.mask) k with
    | false => rfl
    | true =>
      exfalso
      have h1 := covered_nil hdown e (mem_drop_of_getElem? hp hle) a ha
      have h2 : k &&& m.mask = m.key := by simpa [kmMatches] using hc
      rw [intersect_of_kmMatches h2 hak] at h1
      cases h1
  -- a member is covered by the merged entry
  have hcover : p ∈ es → kmMatches (m.key, m.mask) k = true := by
    intro hpe
    simp only [kmMatches, beq_iff_eq, hmkey, hmmask]
    exact merged_covers (mem_members hp hpe) hmk
  by_cases hpe : p ∈ es
  · -- `e` is merged: the merged entry takes over
    have hcov := hcover hpe
    have hpi : p < m.ins := by
      by_cases h : p < m.ins
      · exact h
      · rw [hbelow (by omega)] at hcov; cases hcov
    have hnone : lookup (keepIdx es 0 (T.take m.ins)) k = none := by
      apply keepIdx_lookup_none
      intro j d hj hn
      rw [List.getElem?_take] at hj
      split at hj
      · rename_i hjlt
        simp only [Nat.zero_add] at hn
        rcases Nat.lt_trichotomy j p with h | h | h
        · exact hfirst j d h hj
        · subst h; exact absurd hpe hn
        · have hmeet := hup p (by rw [hmes]; exact hpe) e hp d (mem_slice_of_getElem? hj h hjlt)
          cases hd : d.matches k with
          | false => rfl
          | true => rw [meets_of_matches hmk hd] at hmeet; cases hmeet
      · cases hj
    refine ⟨mergedEntry T m, ?_, ?_, ?_, ?_⟩
    · rw [lookup_append, hnone, lookup_cons, hMmatch, hcov]; rfl
    · -- route
      have hem := mem_members hp hpe
      simp only [mergedEntry, hmes]
      cases hmem : members T es with
      | nil => rw [hmem] at hem; cases hem
      | cons x r =>
        simp only
        rw [← hr]
        exact hsr x (by rw [hmem]; simp) e hem
    · simp only [mergedEntry, hmsrc]
      exact bitSubset_trans hs (sources_subset_allSources (mem_members hp hpe))
    · exact applyAliases_merged A (m.key, m.mask) k e a (members T es) (mem_members hp hpe) hmk ha hak
        hcov _ hMkm
  · -- `e` stays
    have hne : e.km ≠ (m.key, m.mask) := by
      intro heq
      have hMk : kmMatches (m.key, m.mask) k = true := by rw [← heq, kmMatches_km]; exact hmk
      by_cases h : p < m.ins
      · have h1 := hio.1 e (by
          rw [List.mem_iff_getElem?]; exact ⟨p, by rw [List.getElem?_take, if_pos h]; exact hp⟩)
        have h2 : e.gen = generality m.key m.mask := by
          have := congrArg Prod.fst heq; have := congrArg Prod.snd heq
          simp only [Entry.km] at *
          simp only [Entry.gen]; congr
        omega
      · rw [hbelow (by omega)] at hMk; cases hMk
    refine ⟨e, ?_, hr, hs, applyAliases_other A (m.key, m.mask) k e a (members T es) hne hmk ha hak⟩
    by_cases hpi : p < m.ins
    · have : lookup (keepIdx es 0 (T.take m.ins)) k = some e := by
        apply keepIdx_lookup_some es k _ 0 p e
        · rw [List.getElem?_take, if_pos hpi]; exact hp
        · exact hmk
        · simpa using hpe
        · intro j d hj hd _
          rw [List.getElem?_take, if_pos (by omega)] at hd
          exact hfirst j d hj hd
      rw [lookup_append, this]; rfl
    · have h1 : lookup (keepIdx es 0 (T.take m.ins)) k = none := by
        apply keepIdx_lookup_none
        intro j d hj _
        rw [List.getElem?_take] at hj
        split at hj
        · exact hfirst j d (by omega) hj
        · cases hj
      have h2 : lookup (keepIdx es m.ins (T.drop m.ins)) k = some e := by
        apply keepIdx_lookup_some es k _ m.ins (p - m.ins) e
        · rw [List.getElem?_drop, show m.ins + (p - m.ins) = p by omega]; exact hp
        · exact hmk
        · rw [show m.ins + (p - m.ins) = p by omega]; exact hpe
        · intro j d hj hd _
          rw [List.getElem?_drop] at hd
          exact hfirst _ d (by omega) hd
      rw [lookup_append, h1, lookup_cons, hMmatch, hbelow (by omega)]
      simpa using h2

end Rig.C04
