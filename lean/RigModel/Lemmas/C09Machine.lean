/-
C09 helper lemmas, part 2: what the machine specification does with a well-formed fill, and
the effect of the controller's `floodFillOne`, reads, count and start signal on the core states.
-/
import RigModel.Lemmas.C09Fill
set_option linter.unusedSimpArgs false
set_option linter.unusedVariables false

namespace Rig.C09
open Rig.Gen.Load Rig.Gen.Scp

/-- the machine runs a sequence of packets -/
def runP (mc : MCfg) (m : MState) (ps : List Pkt) : MState := ps.foldl (fun m p => (stepP mc m p).1) m

theorem runP_nil (mc : MCfg) (m : MState) : runP mc m [] = m := rfl
theorem runP_cons (mc : MCfg) (m : MState) (p : Pkt) (ps : List Pkt) :
    runP mc m (p :: ps) = runP mc (stepP mc m p).1 ps := rfl
theorem runP_append (mc : MCfg) (m : MState) (ps qs : List Pkt) :
    runP mc m (ps ++ qs) = runP mc (runP mc m ps) qs := by
  simp [runP, List.foldl_append]

theorem sendAll_m (mc : MCfg) (rs : List Req) : ∀ s : Sim,
    (sendAll mc s rs).m = runP mc s.m (rs.map decode) ∧ (sendAll mc s rs).nn = s.nn := by
  induction rs with
  | nil => intro s; exact ⟨rfl, rfl⟩
  | cons r rs ih =>
    intro s
    have := ih (s.send mc r).1
    simp only [sendAll, List.foldl_cons, List.map_cons, runP_cons] at this ⊢
    exact this

/-- core selections accumulate -/
theorem run_ffcs (mc : MCfg) (regs : List (Nat × Nat)) : ∀ m : MState,
    runP mc m (regs.map fun rm => Pkt.ffcs rm.1 rm.2) =
      { m with rx := { m.rx with regs := m.rx.regs ++ regs } } := by
  induction regs with
  | nil => intro m; simp [runP]
  | cons r rs ih =>
    intro m
    simp only [List.map_cons, runP_cons, stepP, ih]
    simp [List.append_assoc]

/-- data packets of a well-formed fill are all accepted -/
theorem run_ffd (mc : MCfg) (pid buf : Nat) (hb : 0 < buf) (hb4 : 4 ∣ buf) :
    ∀ (fuel block addr : Nat) (data : List Nat) (m : MState),
      data.length ≤ fuel → 4 ∣ data.length → m.rx.pid = pid → m.rx.got = block →
      (data ≠ [] → block = 0 ∨ m.rx.next = addr) →
      ∃ nx, runP mc m (ffdPkts pid buf fuel block addr data) =
        { m with rx := { m.rx with got := block + (ffdPkts pid buf fuel block addr data).length,
                                     next := nx, data := m.rx.data ++ data } } := by
  intro fuel
  induction fuel with
  | zero =>
    intro block addr data m h _ _ hg _
    have : data = [] := List.eq_nil_of_length_eq_zero (by omega)
    subst this
    exact ⟨m.rx.next, by simp [ffdPkts, runP, ← hg]⟩
  | succ fuel ih =>
    intro block addr data m h h4 hp hg hn
    unfold ffdPkts
    by_cases hd : data.length > 0
    · simp only [hd, if_true, runP_cons, List.length_cons]
      have hne : data ≠ [] := by intro h0; subst h0; simp at hd
      have hlen : (List.take buf data).length = min buf data.length := List.length_take
      have hcond : pid = m.rx.pid ∧ block = m.rx.got ∧
          (List.take buf data).length = 4 * ((List.take buf data).length / 4 - 1 + 1) ∧
          (m.rx.got = 0 ∨ addr = m.rx.next) := by
        refine ⟨hp.symm, hg.symm, by omega, ?_⟩
        rcases hn hne with h0 | h0
        · left; omega
        · right; exact h0.symm
      have hstep : (stepP mc m (Pkt.ffd pid block ((List.take buf data).length / 4 - 1) addr
          (List.take buf data))).1 =
          { m with rx := { m.rx with got := m.rx.got + 1, next := addr + (List.take buf data).length,
                                       data := m.rx.data ++ List.take buf data } } := by
        simp only [stepP]; rw [if_pos hcond]
      rw [hstep]
      have h4' : 4 ∣ (List.drop buf data).length := by simp only [List.length_drop]; omega
      obtain ⟨nx, hnx⟩ := ih (block + 1) (addr + (List.take buf data).length) (List.drop buf data)
        { m with rx := { m.rx with got := m.rx.got + 1, next := addr + (List.take buf data).length,
                                     data := m.rx.data ++ List.take buf data } }
        (by simp only [List.length_drop]; omega) h4' hp (by simp [hg]) (fun _ => Or.inr rfl)
      refine ⟨nx, ?_⟩
      rw [hnx]
      have ha : block + 1 + (ffdPkts pid buf fuel (block + 1) (addr + (List.take buf data).length)
          (List.drop buf data)).length = block + ((ffdPkts pid buf fuel (block + 1)
          (addr + (List.take buf data).length) (List.drop buf data)).length + 1) := by omega
      simp only [ha, List.append_assoc, List.take_append_drop]
    · have : data = [] := List.eq_nil_of_length_eq_zero (by omega)
      subst this
      exact ⟨m.rx.next, by simp [runP, ← hg]⟩

/-- **a well-formed fill loads exactly the selected cores of the chips that take part**:
after the packets of `fillPkts`, a core holds (wait/run, app id, image) if its chip is a chip of
the machine that did not miss this fill and one of the (region, mask) pairs selects it; every
other core is unchanged; the fill counter advanced by one. -/
theorem run_fill (mc : MCfg) (buf pid base appId flags : Nat) (regs : List (Nat × Nat)) (image : List Nat)
    (hb : 0 < buf) (hb4 : 4 ∣ buf) (hi4 : 4 ∣ image.length) (m : MState) (mid : List Pkt)
    (hmid : ∀ m', runP mc m' mid = m') :
    let m' := runP mc m (.ffs pid ((image.length + buf - 1) / buf) ::
      regs.map (fun rm => Pkt.ffcs rm.1 rm.2) ++ mid ++
      (ffdPkts pid buf image.length 0 base image ++ [.ffe pid appId flags]))
    m'.fills = m.fills + 1 ∧
    ∀ x y p, m'.core x y p =
      if mc.chips.contains (x, y) && !mc.missed m.fills x y && decide (p < 18) && selectsCore regs x y p
      then ⟨if flags % 2 = 1 then stWait else stRun, appId, image⟩ else m.core x y p := by
  intro m'
  have e : m' = runP mc (runP mc (runP mc (stepP mc m (.ffs pid ((image.length + buf - 1) / buf))).1
      (regs.map fun rm => Pkt.ffcs rm.1 rm.2)) (ffdPkts pid buf image.length 0 base image))
      [.ffe pid appId flags] := by
    show runP mc m _ = _
    simp only [List.cons_append, runP_cons, runP_append, hmid]
  rw [e, run_ffcs]
  simp only [stepP]
  obtain ⟨nx, hnx⟩ := run_ffd mc pid buf hb hb4 image.length 0 base image
    { m with rx := { idx := m.fills, pid := pid, nBlocks := (image.length + buf - 1) / buf, got := 0, next := 0,
                     regs := [] ++ regs, data := [], ok := true }, fills := m.fills + 1 }
    (Nat.le_refl _) hi4 rfl rfl (fun _ => Or.inl rfl)
  simp only [List.nil_append] at hnx ⊢
  rw [hnx, ffdPkts_length pid buf hb _ _ _ _ (Nat.le_refl _)]
  simp only [runP, List.foldl_cons, List.foldl_nil, stepP, Nat.zero_add, and_self, if_true, takes, List.nil_append]
  exact ⟨trivial, fun x y p => rfl⟩

/-! ### reads do not change the machine; what the read-back sees -/

theorem stepP_read_m (mc : MCfg) (m : MState) (x y addr len : Nat) :
    (stepP mc m (.read x y addr len)).1 = m := by
  simp only [stepP]
  split
  · rfl
  · split
    · rfl
    · split <;> rfl

def readStep (mc : MCfg) (x y : Nat) (acc : Sim × List Nat) (c : C07.Chunk) : Sim × List Nat :=
  let o := acc.1.send mc { x := x, y := y, p := 0, cmd := cmdRead, arg1 := c.addr, arg2 := c.size,
                           arg3 := c.dt, data := [] }
  (o.1, acc.2 ++ o.2.bytes)

theorem readMem_eq (mc : MCfg) (buf : Nat) (s : Sim) (x y addr len : Nat) :
    readMem mc buf s x y addr len = (C07.read buf addr len).foldl (readStep mc x y) (s, []) := rfl

theorem readStep_m (mc : MCfg) (x y : Nat) (acc : Sim × List Nat) (c : C07.Chunk) :
    (readStep mc x y acc c).1.m = acc.1.m ∧ (readStep mc x y acc c).1.nn = acc.1.nn := by
  constructor
  · simp only [readStep, Sim.send, step, decode_read, stepP_read_m]
  · simp only [readStep, Sim.send]

theorem readMem_fold_m (mc : MCfg) (x y : Nat) (cs : List C07.Chunk) : ∀ acc : Sim × List Nat,
    (cs.foldl (readStep mc x y) acc).1.m = acc.1.m ∧ (cs.foldl (readStep mc x y) acc).1.nn = acc.1.nn := by
  induction cs with
  | nil => intro acc; exact ⟨rfl, rfl⟩
  | cons c cs ih =>
    intro acc
    simp only [List.foldl_cons]
    have h1 := ih (readStep mc x y acc c)
    have h2 := readStep_m mc x y acc c
    exact ⟨h1.1.trans h2.1, h1.2.trans h2.2⟩

theorem readMem_m (mc : MCfg) (buf : Nat) (s : Sim) (x y addr len : Nat) :
    (readMem mc buf s x y addr len).1.m = s.m ∧ (readMem mc buf s x y addr len).1.nn = s.nn := by
  rw [readMem_eq]
  exact readMem_fold_m mc x y _ (s, [])

theorem read4 (buf addr : Nat) (hb : 4 ≤ buf) :
    C07.read buf addr 4 = [{ addr := addr, size := 4, dt := C07.dtype addr 4, data := [] }] := by
  simp [C07.read, C07.readChunks, Nat.min_eq_left hb]

theorem read1 (buf addr : Nat) (hb : 4 ≤ buf) :
    C07.read buf addr 1 = [{ addr := addr, size := 1, dt := C07.dtype addr 1, data := [] }] := by
  have : min 1 buf = 1 := Nat.min_eq_left (by omega)
  simp [C07.read, C07.readChunks, this]

theorem leVal_le32 (w : Nat) (h : w < 4294967296) : leVal (C07.le32 w) = w := by
  simp only [C07.le32, leVal]; omega

/-- `read_vcpu_struct_field("cpu_state", x, y, p)` returns the state of core p of chip (x, y) -/
theorem readCpuState_spec (mc : MCfg) (buf : Nat) (s : Sim) (x y p : Nat) (hb : 4 ≤ buf)
    (hv : ∀ x y, mc.vcpuBase x y < 4294967296) :
    (readCpuState mc buf s x y p).2 = (s.m.core x y p).state ∧
    (readCpuState mc buf s x y p).1.m = s.m ∧ (readCpuState mc buf s x y p).1.nn = s.nn := by
  have hoff : ¬ (svBase + offVcpuBase = svBase + offSdramSys) := by simp [offVcpuBase, offSdramSys]
  have h1 : (readMem mc buf s x y (svBase + offVcpuBase) 4).2 = C07.le32 (mc.vcpuBase x y) := by
    simp only [readMem_eq, readStep, read4 buf _ hb, List.foldl_cons, List.foldl_nil, Sim.send, step, decode_read, stepP,
      hoff, false_and, if_false, and_self, if_true, Reply.bytes, List.nil_append]
  have hm1 := readMem_m mc buf s x y (svBase + offVcpuBase) 4
  have hm2 := readMem_m mc buf (readMem mc buf s x y (svBase + offVcpuBase) 4).1 x y
    (leVal (readMem mc buf s x y (svBase + offVcpuBase) 4).2 + vcpuSize * p + offCpuState) 1
  refine ⟨?_, ?_, ?_⟩
  · simp only [readCpuState, h1, leVal_le32 _ (hv x y)]
    have hc : mc.vcpuBase x y ≤ mc.vcpuBase x y + vcpuSize * p + offCpuState ∧
        (mc.vcpuBase x y + vcpuSize * p + offCpuState - mc.vcpuBase x y) % vcpuSize = offCpuState ∧ True := by
      simp only [vcpuSize, offCpuState]; exact ⟨by omega, by omega, trivial⟩
    have hd : (mc.vcpuBase x y + vcpuSize * p + offCpuState - mc.vcpuBase x y) / vcpuSize = p := by
      simp only [vcpuSize, offCpuState]; omega
    have n4 : ¬ ((1 : Nat) = 4) := by decide
    simp only [readMem_eq, readStep, read1 buf _ hb, List.foldl_cons, List.foldl_nil, Sim.send, step, decode_read, stepP,
      n4, and_false, if_false, Reply.bytes, List.nil_append]
    rw [if_pos hc, hd]
    have hm1' := hm1.1
    rw [readMem_eq] at hm1'
    simp only [leVal, hm1']
    omega
  · simp only [readCpuState]; rw [hm2.1, hm1.1]
  · simp only [readCpuState]; rw [hm2.2, hm1.2]

/-! ### the read-back pass as a pure filter -/

def wantsT (ts : List (Nat × Nat × List Nat)) (x y p : Nat) : Bool :=
  ts.any fun t => t.1 == x && t.2.1 == y && t.2.2.contains p

theorem wants_eq (a : App) (x y p : Nat) : wants a x y p = wantsT a.targets x y p := rfl

def notWaiting (core : Nat → Nat → Nat → Core) (x y p : Nat) : Bool := decide ((core x y p).state ≠ stWait)

def filtTargets (core : Nat → Nat → Nat → Core) : List (Nat × Nat × List Nat) → List (Nat × Nat × List Nat)
  | [] => []
  | (x, y, cs) :: ts =>
    if (cs.filter (notWaiting core x y)).length > 0 then (x, y, cs.filter (notWaiting core x y)) :: filtTargets core ts
    else filtTargets core ts

def filtApps (core : Nat → Nat → Nat → Core) : List App → List App
  | [] => []
  | a :: as =>
    if (filtTargets core a.targets).length > 0 then { a with targets := filtTargets core a.targets } :: filtApps core as
    else filtApps core as

theorem checkCores_spec (mc : MCfg) (buf x y : Nat) (hb : 4 ≤ buf) (hv : ∀ x y, mc.vcpuBase x y < 4294967296) :
    ∀ (ps : List Nat) (s : Sim),
      (checkCores mc buf x y s ps).2 = ps.filter (notWaiting s.m.core x y) ∧
      (checkCores mc buf x y s ps).1.m = s.m ∧ (checkCores mc buf x y s ps).1.nn = s.nn := by
  intro ps
  induction ps with
  | nil => intro s; exact ⟨rfl, rfl, rfl⟩
  | cons p ps ih =>
    intro s
    obtain ⟨h1, h2, h3⟩ := readCpuState_spec mc buf s x y p hb hv
    obtain ⟨i1, i2, i3⟩ := ih (readCpuState mc buf s x y p).1
    simp only [checkCores, i1, i2, i3, h1, h2, h3, List.filter_cons, notWaiting]
    refine ⟨?_, trivial, trivial⟩
    by_cases hw : (s.m.core x y p).state = stWait <;> simp [hw]

theorem checkTargets_spec (mc : MCfg) (buf : Nat) (hb : 4 ≤ buf) (hv : ∀ x y, mc.vcpuBase x y < 4294967296) :
    ∀ (ts : List (Nat × Nat × List Nat)) (s : Sim),
      (checkTargets mc buf s ts).2 = filtTargets s.m.core ts ∧
      (checkTargets mc buf s ts).1.m = s.m ∧ (checkTargets mc buf s ts).1.nn = s.nn := by
  intro ts
  induction ts with
  | nil => intro s; exact ⟨rfl, rfl, rfl⟩
  | cons t ts ih =>
    intro s
    obtain ⟨x, y, cs⟩ := t
    obtain ⟨h1, h2, h3⟩ := checkCores_spec mc buf x y hb hv cs s
    obtain ⟨i1, i2, i3⟩ := ih (checkCores mc buf x y s cs).1
    simp only [checkTargets, filtTargets, i1, i2, i3, h1, h2, h3]
    exact ⟨trivial, trivial, trivial⟩

theorem checkApps_spec (mc : MCfg) (buf : Nat) (hb : 4 ≤ buf) (hv : ∀ x y, mc.vcpuBase x y < 4294967296) :
    ∀ (as : List App) (s : Sim),
      (checkApps mc buf s as).2 = filtApps s.m.core as ∧
      (checkApps mc buf s as).1.m = s.m ∧ (checkApps mc buf s as).1.nn = s.nn := by
  intro as
  induction as with
  | nil => intro s; exact ⟨rfl, rfl, rfl⟩
  | cons a as ih =>
    intro s
    obtain ⟨h1, h2, h3⟩ := checkTargets_spec mc buf hb hv a.targets s
    obtain ⟨i1, i2, i3⟩ := ih (checkTargets mc buf s a.targets).1
    simp only [checkApps, filtApps, i1, i2, i3, h1, h2, h3]
    exact ⟨trivial, trivial, trivial⟩

theorem wantsT_filt (core : Nat → Nat → Nat → Core) (x y p : Nat) : ∀ ts : List (Nat × Nat × List Nat),
    wantsT (filtTargets core ts) x y p = (wantsT ts x y p && notWaiting core x y p) := by
  intro ts
  induction ts with
  | nil => simp [wantsT, filtTargets]
  | cons t ts ih =>
    obtain ⟨x', y', cs⟩ := t
    have hcons : ∀ (t : Nat × Nat × List Nat) l, wantsT (t :: l) x y p =
        ((t.1 == x && t.2.1 == y && t.2.2.contains p) || wantsT l x y p) := by
      intro t l; simp [wantsT]
    simp only [filtTargets]
    by_cases hx : x' = x ∧ y' = y
    · obtain ⟨rfl, rfl⟩ := hx
      split
      · rw [hcons, hcons, ih]
        by_cases hp : p ∈ cs <;> by_cases hn : notWaiting core x' y' p = true <;>
          simp [hp, hn, List.mem_filter]
      · rename_i hlen
        have hnil : cs.filter (notWaiting core x' y') = [] := List.eq_nil_of_length_eq_zero (by omega)
        rw [hcons, ih]
        by_cases hp : p ∈ cs
        · have : notWaiting core x' y' p = false := by
            cases hn : notWaiting core x' y' p with
            | false => rfl
            | true =>
              have : p ∈ cs.filter (notWaiting core x' y') := List.mem_filter.mpr ⟨hp, hn⟩
              rw [hnil] at this; simp at this
          simp [hp, this]
        · simp [hp]
    · have hf : ∀ l : List Nat, ((x' == x && y' == y && l.contains p) = false) := by
        intro l
        by_cases h1 : x' = x
        · have : ¬ y' = y := fun h2 => hx ⟨h1, h2⟩
          simp [this]
        · simp [h1]
      split
      · rw [hcons, hcons, ih]; simp only [hf, Bool.false_or]
      · rw [hcons, ih]; simp only [hf, Bool.false_or]

end Rig.C09
