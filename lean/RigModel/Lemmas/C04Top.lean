/-
C04 - assembling the ordered-covering loop, the sort, and the method chain.
-/
import RigModel.Lemmas.C04Refine
set_option linter.unusedSimpArgs false
set_option linter.unusedVariables false

namespace Rig.C04

/-! ### applying a merge keeps the table sorted and does not lengthen it -/

theorem keepIdx_sublist (es : List Nat) (i : Nat) (l : List Entry) : (keepIdx es i l).Sublist l := by
  induction l generalizing i with
  | nil => exact List.Sublist.slnil
  | cons e r ih =>
    simp only [keepIdx]
    split
    · simpa using (ih (i + 1)).cons e
    · simpa using (ih (i + 1)).cons_cons e

theorem keepIdx_length_lt (es : List Nat) (i : Nat) (l : List Entry) (j : Nat) (hj : j < l.length)
    (hm : i + j ∈ es) : (keepIdx es i l).length < l.length := by
  induction l generalizing i j with
  | nil => simp at hj
  | cons e r ih =>
    simp only [keepIdx]
    cases j with
    | zero =>
      have : es.contains i = true := by simpa using hm
      simp only [this, if_true, List.nil_append, List.length_cons]
      have := (keepIdx_sublist es (i + 1) r).length_le
      omega
    | succ j =>
      have := ih (i + 1) j (by simpa using hj) (by rw [Nat.add_assoc, Nat.add_comm 1 j]; exact hm)
      split <;> simp only [List.nil_append, List.cons_append, List.length_cons] <;> omega

theorem applyMerge_table (T : List Entry) (es : List Nat) (A : Aliases)
    (hins : (mkMerge T es).ins ≤ T.length) :
    (applyMerge T (mkMerge T es) A).1 =
      keepIdx es 0 (T.take (mkMerge T es).ins) ++
        mergedEntry T (mkMerge T es) :: keepIdx es (mkMerge T es).ins (T.drop (mkMerge T es).ins) := by
  simp only [applyMerge, mkMerge_entries]
  rw [applyTable_eq (mkMerge T es).ins es _ T 0 (Nat.zero_le _) (by simpa using hins)]
  simp

theorem applyMerge_length (T : List Entry) (es : List Nat) (A : Aliases)
    (hne : ∃ i ∈ es, i < T.length) : (applyMerge T (mkMerge T es) A).1.length ≤ T.length := by
  have hins := insertionIndex_le T (mkMerge T es).gen
  rw [← mkMerge_ins_eq] at hins
  rw [applyMerge_table T es A hins]
  obtain ⟨i, hi, hlt⟩ := hne
  have h1 := (keepIdx_sublist es 0 (T.take (mkMerge T es).ins)).length_le
  have h2 := (keepIdx_sublist es (mkMerge T es).ins (T.drop (mkMerge T es).ins)).length_le
  simp only [List.length_append, List.length_cons, List.length_take, List.length_drop] at *
  by_cases hc : i < (mkMerge T es).ins
  · have := keepIdx_length_lt es 0 (T.take (mkMerge T es).ins) i (by simp; omega) (by simpa using hi)
    simp only [List.length_take] at this
    omega
  · have := keepIdx_length_lt es (mkMerge T es).ins (T.drop (mkMerge T es).ins) (i - (mkMerge T es).ins)
      (by simp; omega) (by rw [show (mkMerge T es).ins + (i - (mkMerge T es).ins) = i by omega]; exact hi)
    simp only [List.length_drop] at this
    omega

theorem applyMerge_sorted (T : List Entry) (es : List Nat) (A : Aliases) (hs : SortedGen T) :
    SortedGen (applyMerge T (mkMerge T es) A).1 := by
  have hins := insertionIndex_le T (mkMerge T es).gen
  rw [← mkMerge_ins_eq] at hins
  rw [applyMerge_table T es A hins]
  obtain ⟨hlo, hhi⟩ := insertionIndex_spec T (mkMerge T es).gen hs
  rw [← mkMerge_ins_eq] at hlo hhi
  have hM : (mergedEntry T (mkMerge T es)).gen = (mkMerge T es).gen := rfl
  have s1 := keepIdx_sublist es 0 (T.take (mkMerge T es).ins)
  have s2 := keepIdx_sublist es (mkMerge T es).ins (T.drop (mkMerge T es).ins)
  simp only [SortedGen] at *
  rw [List.pairwise_append]
  refine ⟨(hs.sublist (List.take_sublist _ _)).sublist s1, ?_, ?_⟩
  · rw [List.pairwise_cons]
    refine ⟨?_, (hs.sublist (List.drop_sublist _ _)).sublist s2⟩
    intro b hb
    rw [hM]; exact hhi b (s2.subset hb)
  · intro a ha b hb
    have h1 := hlo a (s1.subset ha)
    rcases List.mem_cons.mp hb with rfl | hb
    · rw [hM]; omega
    · have := hhi b (s2.subset hb); omega

/-! ### the `while` loop of `ordered_covering` -/

theorem ocLoop_spec (T0 : List Entry) (fuel : Nat) (T : List Entry) (target : Option Nat)
    (A : Aliases) (hinv : Inv T0 T A) (hs : SortedGen T) (T' : List Entry) (A' : Aliases)
    (h : ocLoop fuel T target A = .ok (T', A')) :
    Inv T0 T' A' ∧ SortedGen T' ∧ T'.length ≤ T.length := by
  induction fuel generalizing T A with
  | zero => simp [ocLoop] at h
  | succ fuel ih =>
    simp only [ocLoop] at h
    split at h
    · split at h
      · cases h
      · rename_i m hb
        split at h
        · cases h; exact ⟨hinv, hs, Nat.le_refl _⟩
        · rename_i hg
          obtain ⟨es, rfl, hv, hsr, hup, hdown, hnd⟩ := bestMerge_spec T A hs m hb (by omega)
          have hins := insertionIndex_le T (mkMerge T es).gen
          rw [← mkMerge_ins_eq] at hins
          have hio : InsOk T (mkMerge T es) := by
            have := insertionIndex_spec T (mkMerge T es).gen hs
            rw [← mkMerge_ins_eq] at this
            exact this
          have hne : ∃ i ∈ es, i < T.length :=
            exists_valid_of_goodness hv (Int.le_refl 0) (by omega)
          obtain ⟨h1, h2, h3⟩ := ih _ _ (apply_inv T0 T A es hinv hins hup hdown hio hsr)
            (applyMerge_sorted T es A hs) h
          exact ⟨h1, h2, Nat.le_trans h3 (applyMerge_length T es A hne)⟩
    · cases h; exact ⟨hinv, hs, Nat.le_refl _⟩

/-! ### the initial sort -/

theorem insertGen_perm (e : Entry) (l : List Entry) : (insertGen e l).Perm (e :: l) := by
  induction l with
  | nil => exact List.Perm.refl _
  | cons x r ih =>
    simp only [insertGen]
    split
    · exact List.Perm.refl _
    · exact (List.Perm.cons x ih).trans (List.Perm.swap e x r)

theorem insertGen_sorted (e : Entry) (l : List Entry) (h : SortedGen l) : SortedGen (insertGen e l) := by
  induction l with
  | nil => simp [insertGen, SortedGen]
  | cons x r ih =>
    simp only [insertGen]
    obtain ⟨hx, hr⟩ := List.pairwise_cons.mp h
    split
    · rename_i hle
      refine List.pairwise_cons.mpr ⟨?_, h⟩
      intro b hb
      rcases List.mem_cons.mp hb with rfl | hb
      · exact hle
      · exact Nat.le_trans hle (hx b hb)
    · rename_i hle
      refine List.pairwise_cons.mpr ⟨?_, ih hr⟩
      intro b hb
      rcases List.mem_cons.mp ((insertGen_perm e r).subset hb) with rfl | hb
      · omega
      · exact hx b hb

theorem sortTable_perm (T : List Entry) : (sortTable T).Perm T := by
  induction T with
  | nil => exact List.Perm.refl _
  | cons e r ih => exact (insertGen_perm e _).trans (List.Perm.cons e ih)

theorem sortTable_sorted (T : List Entry) : SortedGen (sortTable T) := by
  induction T with
  | nil => simp [sortTable, SortedGen]
  | cons e r ih => exact insertGen_sorted e _ ih

theorem sortTable_of_sorted {T : List Entry} (h : SortedGen T) : sortTable T = T := by
  induction T with
  | nil => rfl
  | cons e r ih =>
    obtain ⟨he, hr⟩ := List.pairwise_cons.mp h
    show insertGen e (sortTable r) = e :: r
    rw [ih hr]
    cases r with
    | nil => rfl
    | cons x r' => simp only [insertGen]; rw [if_pos (he x (by simp))]

theorem sortTable_length (T : List Entry) : (sortTable T).length = T.length :=
  (sortTable_perm T).length_eq

theorem orthogonal_lookup_mem {T : List Entry} (ho : Orthogonal T) {k : W} {e : Entry}
    (he : e ∈ T) (hm : e.matches k = true) : lookup T k = some e := by
  induction T with
  | nil => cases he
  | cons x r ih =>
    rw [lookup_cons]
    obtain ⟨hx, hr⟩ := List.pairwise_cons.mp ho
    rcases List.mem_cons.mp he with rfl | her
    · rw [if_pos hm]
    · have : x.matches k = false := by
        cases hxm : x.matches k with
        | false => rfl
        | true => exact absurd ⟨hxm, hm⟩ (hx e her k)
      rw [this]; exact ih hr her

theorem orthogonal_perm {T T' : List Entry} (hp : T'.Perm T) (ho : Orthogonal T) : Orthogonal T' := by
  unfold Orthogonal at *
  exact (hp.symm.pairwise_iff (by
    intro a b h k hk; exact h k ⟨hk.2, hk.1⟩)).mp ho

/-- a `Good` table and its sorted version route every key identically -/
theorem lookup_sortTable {T : List Entry} (hg : Good T) (k : W) : lookup (sortTable T) k = lookup T k := by
  rcases hg with ho | hs
  · have hp : (sortTable T).Perm T := sortTable_perm T
    have ho' := orthogonal_perm hp ho
    cases h : lookup T k with
    | none =>
      rw [lookup_none_iff] at h ⊢
      exact fun d hd => h d (hp.subset hd)
    | some e =>
      obtain ⟨hm, he⟩ := lookup_some_matches h
      exact orthogonal_lookup_mem ho' (hp.symm.subset he) hm
  · rw [sortTable_of_sorted hs]

/-! ### composition with default-route removal, the method chain -/

theorem subset_two_pow {a l : Nat} (h : bitSubset a (2 ^ l) = true) (hne : a ≠ 0) : a = 2 ^ l := by
  rw [bitSubset_iff] at h
  obtain ⟨i, hi⟩ := Nat.exists_testBit_of_ne_zero hne
  have hil : l = i := by simpa [Nat.testBit_two_pow] using h i hi
  subst hil
  apply Nat.eq_of_testBit_eq
  intro j
  rw [Nat.testBit_two_pow]
  by_cases hj : l = j
  · subst hj; simp [hi]
  · cases hb : a.testBit j with
    | false => simp [hj]
    | true => have := h j hb; simp [Nat.testBit_two_pow, hj] at this

/-- `T1` keeps every key of `T` on an entry (first clause of `RouteEquiv` only) -/
def Covers (T T1 : List Entry) : Prop :=
  ∀ k o, lookup T k = some o →
    ∃ e, lookup T1 k = some e ∧ e.route = o.route ∧ bitSubset o.sources e.sources = true

theorem covers_then_equiv {T T1 T2 : List Entry} (hsrc : ∀ e ∈ T, e.sources ≠ 0)
    (h1 : Covers T T1) (h2 : RouteEquiv T1 T2) : RouteEquiv T T2 := by
  intro k o ho
  obtain ⟨e, he, hr, hs⟩ := h1 k o ho
  rcases h2 k e he with ⟨e', h3, h4, h5⟩ | ⟨h3, l, hl, hsl, hrl⟩
  · exact Or.inl ⟨e', h3, by rw [h4, hr], bitSubset_trans hs h5⟩
  · refine Or.inr ⟨h3, l, hl, ?_, by rw [← hr, hrl]⟩
    rw [hsl] at hs
    exact subset_two_pow hs (hsrc o (lookup_some_matches ho).2)

theorem routeEquiv_refl (T : List Entry) : RouteEquiv T T :=
  fun k e he => Or.inl ⟨e, he, rfl, bitSubset_refl _⟩

end Rig.C04
