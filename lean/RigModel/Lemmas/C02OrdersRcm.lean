/-
C02 (companion) - the reverse Cuthill-McKee vertex order: the neighbour table is symmetric, the
depth-first search returns a set closed under neighbours, the connected subgraphs are pairwise
disjoint and cover the vertices, the Cuthill-McKee order of a subgraph is a rearrangement of it.
-/
import RigModel.Lemmas.C02OrdersBfs
import RigModel.Lemmas.C02Basic
import Mathlib.Data.List.Perm.Subperm
import Mathlib.Data.List.Nodup
set_option linter.unusedSimpArgs false
set_option linter.unusedVariables false
set_option linter.unusedSectionVars false

namespace Rig.C02Orders
open Rig.C02 (aget aset keys aget_aset mem_keys_aset)

section generic
variable {α : Type} [DecidableEq α]

/-! ### _get_vertices_neighbours -/

theorem nbrs_nil (x : α) : nbrs ([] : VN α) x = [] := rfl

theorem mem_nbrs_vnAdd (vn : VN α) (a b : α) (w : Int) (x c : α) :
    c ∈ nbrs (vnAdd vn a b w) x ↔ c ∈ nbrs vn x ∨ (x = a ∧ c = b) := by
  unfold nbrs vnAdd
  simp only [aget_aset]
  by_cases h : a = x
  · subst h
    simp only [if_true, Option.getD_some, mem_keys_aset]
    constructor
    · rintro (h | h)
      · exact Or.inr ⟨by trivial, h⟩
      · exact Or.inl h
    · rintro (h | ⟨_, h⟩)
      · exact Or.inr h
      · exact Or.inl h
  · simp only [if_neg h]
    constructor
    · exact Or.inl
    · rintro (h' | ⟨h', _⟩)
      · exact h'
      · exact absurd h'.symm h

/-- the table is symmetric -/
def Sym (vn : VN α) : Prop := ∀ a b, b ∈ nbrs vn a → a ∈ nbrs vn b

/-- every vertex in the table satisfies `V` -/
def Within (V : α → Prop) (vn : VN α) : Prop := ∀ a b, b ∈ nbrs vn a → V a ∧ V b

theorem sym_step (vn : VN α) (a b : α) (w : Int) (h : Sym vn) : Sym (vnAdd (vnAdd vn a b w) b a w) := by
  intro x c hc
  rw [mem_nbrs_vnAdd, mem_nbrs_vnAdd] at hc ⊢
  rcases hc with (hc | ⟨rfl, rfl⟩) | ⟨rfl, rfl⟩
  · exact Or.inl (Or.inl (h _ _ hc))
  · exact Or.inr ⟨rfl, rfl⟩
  · exact Or.inl (Or.inr ⟨rfl, rfl⟩)

theorem within_step (V : α → Prop) (vn : VN α) (a b : α) (w : Int) (h : Within V vn) (ha : V a) (hb : V b) :
    Within V (vnAdd (vnAdd vn a b w) b a w) := by
  intro x c hc
  rw [mem_nbrs_vnAdd, mem_nbrs_vnAdd] at hc
  rcases hc with (hc | ⟨rfl, rfl⟩) | ⟨rfl, rfl⟩
  · exact h _ _ hc
  · exact ⟨ha, hb⟩
  · exact ⟨hb, ha⟩

theorem getVN_inv (P : VN α → Prop) (V : α → Prop)
    (hstep : ∀ vn a b w, P vn → V a → V b → P (vnAdd (vnAdd vn a b w) b a w)) :
    ∀ (nets : List (Net α)) (vn : VN α), (∀ n ∈ nets, V n.src ∧ ∀ s ∈ n.sinks, V s) → P vn →
      P (nets.foldl (fun vn n =>
        if n.weight ≠ 0 then
          n.sinks.foldl (fun vn s => vnAdd (vnAdd vn n.src s n.weight) s n.src n.weight) vn
        else vn) vn) := by
  intro nets
  induction nets with
  | nil => intro vn _ h; exact h
  | cons n rest ih =>
    intro vn hV h
    simp only [List.foldl_cons]
    apply ih _ (fun n' hn' => hV n' (by simp [hn']))
    have hn := hV n (by simp)
    split
    · have inner : ∀ (sinks : List α) (vn : VN α), (∀ s ∈ sinks, V s) → P vn →
          P (sinks.foldl (fun vn s => vnAdd (vnAdd vn n.src s n.weight) s n.src n.weight) vn) := by
        intro sinks
        induction sinks with
        | nil => intro vn _ h; exact h
        | cons s t ih2 =>
          intro vn hs h
          simp only [List.foldl_cons]
          exact ih2 _ (fun s' hs' => hs s' (by simp [hs'])) (hstep _ _ _ _ h hn.1 (hs s (by simp)))
      exact inner _ _ hn.2 h
    · exact h

theorem getVN_sym (nets : List (Net α)) : Sym (getVerticesNeighbours nets) := by
  unfold getVerticesNeighbours
  apply getVN_inv Sym (fun _ => True) (fun vn a b w h _ _ => sym_step vn a b w h) nets []
  · intro n _; exact ⟨trivial, fun _ _ => trivial⟩
  · intro a b h; simp [nbrs_nil] at h

theorem getVN_within (nets : List (Net α)) (V : α → Prop) (hV : ∀ n ∈ nets, V n.src ∧ ∀ s ∈ n.sinks, V s) :
    Within V (getVerticesNeighbours nets) := by
  unfold getVerticesNeighbours
  apply getVN_inv (Within V) V (fun vn a b w h ha hb => within_step V vn a b w h ha hb) nets [] hV
  intro a b h; simp [nbrs_nil] at h

/-! ### _dfs -/

theorem dfsLoop_spec (vn : VN α) (Q : α → Prop) (hQ : ∀ a, Q a → ∀ b ∈ nbrs vn a, Q b) :
    ∀ (fuel : Nat) (st vis r : List α), vis.Nodup →
      (∀ a ∈ vis, ∀ b ∈ nbrs vn a, b ∈ vis ∨ b ∈ st) → (∀ a ∈ vis, Q a) → (∀ a ∈ st, Q a) →
      dfsLoop vn fuel st vis = .ok r →
      r.Nodup ∧ (∀ a ∈ r, ∀ b ∈ nbrs vn a, b ∈ r) ∧ (∀ a ∈ r, Q a) ∧ (∀ a ∈ vis, a ∈ r) ∧ (∀ a ∈ st, a ∈ r) := by
  intro fuel
  induction fuel with
  | zero =>
    intro st vis r hnd hcl hqv hqs h
    cases st with
    | nil =>
      simp only [dfsLoop] at h; injection h with h; subst h
      exact ⟨hnd, fun a ha b hb => (hcl a ha b hb).elim id (fun h => by simp at h), hqv, fun a h => h,
        fun a h => by simp at h⟩
    | cons v t => simp [dfsLoop] at h
  | succ n ih =>
    intro st vis r hnd hcl hqv hqs h
    cases st with
    | nil =>
      simp only [dfsLoop] at h; injection h with h; subst h
      exact ⟨hnd, fun a ha b hb => (hcl a ha b hb).elim id (fun h => by simp at h), hqv, fun a h => h,
        fun a h => by simp at h⟩
    | cons v t =>
      simp only [dfsLoop] at h
      split at h
      · rename_i hv
        obtain ⟨r1, r2, r3, r4, r5⟩ := ih t vis r hnd
          (fun a ha b hb => by
            rcases hcl a ha b hb with h' | h'
            · exact Or.inl h'
            · rcases List.mem_cons.1 h' with rfl | h''
              · exact Or.inl hv
              · exact Or.inr h'')
          hqv (fun a ha => hqs a (by simp [ha])) h
        refine ⟨r1, r2, r3, r4, ?_⟩
        intro a ha
        rcases List.mem_cons.1 ha with rfl | ha'
        · exact r4 _ hv
        · exact r5 _ ha'
      · rename_i hv
        have hqv' : Q v := hqs v (by simp)
        obtain ⟨r1, r2, r3, r4, r5⟩ := ih ((nbrs vn v).reverse ++ t) (vis ++ [v]) r
          (by
            rw [List.nodup_append]
            exact ⟨hnd, by simp, fun a ha b hb e => by
              simp only [List.mem_singleton] at hb; subst hb; subst e; exact hv ha⟩)
          (fun a ha b hb => by
            rcases List.mem_append.1 ha with ha' | ha'
            · rcases hcl a ha' b hb with h' | h'
              · exact Or.inl (List.mem_append_left _ h')
              · rcases List.mem_cons.1 h' with rfl | h''
                · exact Or.inl (by simp)
                · exact Or.inr (List.mem_append_right _ h'')
            · simp only [List.mem_singleton] at ha'; subst ha'
              exact Or.inr (List.mem_append_left _ (List.mem_reverse.2 hb)))
          (fun a ha => by
            rcases List.mem_append.1 ha with ha' | ha'
            · exact hqv a ha'
            · simp only [List.mem_singleton] at ha'; subst ha'; exact hqv')
          (fun a ha => by
            rcases List.mem_append.1 ha with ha' | ha'
            · exact hQ v hqv' a (List.mem_reverse.1 ha')
            · exact hqs a (by simp [ha']))
          h
        refine ⟨r1, r2, r3, fun a ha => r4 a (List.mem_append_left _ ha), ?_⟩
        intro a ha
        rcases List.mem_cons.1 ha with rfl | ha'
        · exact r4 _ (by simp)
        · exact r5 _ (List.mem_append_right _ ha')

theorem dfs_spec (vn : VN α) (Q : α → Prop) (hQ : ∀ a, Q a → ∀ b ∈ nbrs vn a, Q b) (p : α) (hp : Q p)
    (sg : List α) (h : dfs vn p = .ok sg) :
    sg.Nodup ∧ (∀ a ∈ sg, ∀ b ∈ nbrs vn a, b ∈ sg) ∧ (∀ a ∈ sg, Q a) ∧ p ∈ sg := by
  obtain ⟨r1, r2, r3, _, r5⟩ := dfsLoop_spec vn Q hQ _ [p] [] sg (by simp) (by simp) (by simp)
    (by intro a ha; simp at ha; subst ha; exact hp) h
  exact ⟨r1, r2, r3, r5 p (by simp)⟩

/-! ### _get_connected_subgraphs -/

structure SgInv (vn : VN α) (vs0 : List α) (Q : α → Prop) (rem : List α) (acc : List (List α)) : Prop where
  remNodup : rem.Nodup
  nodup : ∀ sg ∈ acc, sg.Nodup
  closed : ∀ sg ∈ acc, ∀ a ∈ sg, ∀ b ∈ nbrs vn a, b ∈ sg
  disj : acc.Pairwise List.Disjoint
  apart : ∀ sg ∈ acc, ∀ a ∈ sg, a ∉ rem
  cover : ∀ v ∈ vs0, v ∈ rem ∨ ∃ sg ∈ acc, v ∈ sg
  q : ∀ sg ∈ acc, ∀ a ∈ sg, Q a
  remq : ∀ a ∈ rem, Q a

theorem subgraphsLoop_spec (vn : VN α) (hsym : Sym vn) (vs0 : List α) (Q : α → Prop)
    (hQ : ∀ a, Q a → ∀ b ∈ nbrs vn a, Q b) :
    ∀ (fuel : Nat) (rem pops : List α) (acc sgs : List (List α)) (pops' : List α),
      SgInv vn vs0 Q rem acc → subgraphsLoop vn fuel rem pops acc = .ok (sgs, pops') →
      SgInv vn vs0 Q [] sgs := by
  intro fuel
  induction fuel with
  | zero =>
    intro rem pops acc sgs pops' I h
    cases rem with
    | nil => simp only [subgraphsLoop] at h; injection h with h; injection h with h1 h2; subst h1; exact I
    | cons r t => simp [subgraphsLoop] at h
  | succ n ih =>
    intro rem pops acc sgs pops' I h
    cases rem with
    | nil => simp only [subgraphsLoop] at h; injection h with h; injection h with h1 h2; subst h1; exact I
    | cons r t =>
      cases pops with
      | nil => simp [subgraphsLoop] at h
      | cons p ps =>
        simp only [subgraphsLoop] at h
        split at h
        · rename_i hp
          cases hd : dfs vn p with
          | error e => simp [hd] at h
          | ok sg =>
            simp only [hd] at h
            obtain ⟨d1, d2, d3, d4⟩ := dfs_spec vn Q hQ p (I.remq p hp) sg hd
            apply ih _ _ _ _ _ _ h
            have hsub : ∀ a, a ∈ ((r :: t).erase p).filter (fun a => !decide (a ∈ sg)) → a ∈ r :: t ∧ a ∉ sg := by
              intro a ha
              simp only [List.mem_filter, Bool.not_eq_true', decide_eq_false_iff_not] at ha
              exact ⟨List.mem_of_mem_erase ha.1, ha.2⟩
            refine ⟨(I.remNodup.sublist List.erase_sublist).filter _, ?_, ?_, ?_, ?_, ?_, ?_, ?_⟩
            · intro s hs
              rcases List.mem_append.1 hs with hs | hs
              · exact I.nodup s hs
              · simp at hs; subst hs; exact d1
            · intro s hs
              rcases List.mem_append.1 hs with hs | hs
              · exact I.closed s hs
              · simp at hs; subst hs; exact d2
            · rw [List.pairwise_append]
              refine ⟨I.disj, by simp, ?_⟩
              intro S hS s hs
              simp only [List.mem_singleton] at hs; rw [hs]
              -- the search started outside the closed set S never enters it
              have hav := dfs_spec vn (fun a => a ∉ S)
                (fun a ha b hb hbS => ha (I.closed S hS b hbS a (hsym a b hb))) p
                (fun hpS => I.apart S hS p hpS hp) sg hd
              intro a haS has
              exact hav.2.2.1 a has haS
            · intro s hs a ha har
              rcases List.mem_append.1 hs with hs | hs
              · exact I.apart s hs a ha (hsub a har).1
              · simp at hs; subst hs; exact (hsub a har).2 ha
            · intro v hv
              rcases I.cover v hv with h' | ⟨s, hs, hvs⟩
              · by_cases hvsg : v ∈ sg
                · exact Or.inr ⟨sg, by simp, hvsg⟩
                · left
                  simp only [List.mem_filter, Bool.not_eq_true', decide_eq_false_iff_not]
                  refine ⟨(List.mem_erase_of_ne ?_).2 h', hvsg⟩
                  intro e; subst e; exact hvsg d4
              · exact Or.inr ⟨s, List.mem_append_left _ hs, hvs⟩
            · intro s hs
              rcases List.mem_append.1 hs with hs | hs
              · exact I.q s hs
              · simp at hs; subst hs; exact d3
            · intro a ha; exact I.remq a (hsub a ha).1
        · simp at h

/-! ### _cuthill_mckee -/

theorem argminFirst_mem (f : α → Int) : ∀ (l : List α) (p : α), argminFirst f l = some p → p ∈ l := by
  intro l
  induction l with
  | nil => intro p h; simp [argminFirst] at h
  | cons a t ih =>
    intro p h
    simp only [argminFirst] at h
    split at h
    · injection h with h; subst h; simp
    · rename_i b hb
      split at h
      · injection h with h; subst h; exact List.mem_cons_of_mem _ (ih _ hb)
      · injection h with h; subst h; simp

theorem insertBy_perm (f : α → Int) (a : α) : ∀ (l : List α), (insertBy f a l).Perm (a :: l) := by
  intro l
  induction l with
  | nil => exact List.Perm.refl _
  | cons b t ih =>
    simp only [insertBy]
    split
    · exact List.Perm.refl _
    · exact ((List.Perm.cons b ih).trans (List.Perm.swap a b t))

theorem sortBy_perm (f : α → Int) : ∀ (l : List α), (sortBy f l).Perm l := by
  intro l
  induction l with
  | nil => exact List.Perm.refl _
  | cons a t ih =>
    simp only [sortBy]
    exact (insertBy_perm f a _).trans (List.Perm.cons a ih)

def CmInv (sg : List α) (s : CmSt α) : Prop :=
  s.order.Nodup ∧ (∀ a, a ∈ s.visited ↔ a ∈ s.order) ∧ (∀ a ∈ s.order, a ∈ sg)

theorem cmStep_inv (vn : VN α) (sg : List α) (s s' : CmSt α) (I : CmInv sg s) (h : cmStep vn sg s = .ok s') :
    CmInv sg s' := by
  unfold cmStep at h
  split at h
  · simp at h
  · rename_i x iters1 _
    dsimp only at h
    split at h
    · simp at h
    · rename_i it iters2 ht
      obtain ⟨_, hit, hm⟩ := takeIter_ok ht
      split at h
      · rename_i hall
        injection h with h; subst h
        simp only [List.all_eq_true, decide_eq_true_eq] at hall
        have hadj : ∀ a, a ∈ it → a ∉ s.visited := by
          intro a ha
          have := (hm a).1 ha
          simp only [List.mem_filter, Bool.not_eq_true', decide_eq_false_iff_not] at this
          exact this.2
        have hsp := sortBy_perm (degree vn) it
        obtain ⟨i1, i2, i3⟩ := I
        refine ⟨?_, ?_, ?_⟩
        · simp only
          rw [List.nodup_append]
          refine ⟨i1, hsp.nodup_iff.2 hit, ?_⟩
          intro a ha b hb e; subst e
          exact hadj a (hsp.mem_iff.1 hb) ((i2 a).2 ha)
        · intro a
          simp only [List.mem_append]
          rw [i2 a, hsp.mem_iff, hm a]
        · intro a ha
          simp only at ha
          rcases List.mem_append.1 ha with ha | ha
          · exact i3 a ha
          · exact hall a (hsp.mem_iff.1 ha)
      · simp at h

theorem cmLoop_spec (vn : VN α) (sg : List α) (hsg : sg.Nodup) :
    ∀ (fuel : Nat) (s : CmSt α) (cm : List α) (iters' : List (List α)), CmInv sg s →
      cmLoop vn sg fuel s = .ok (cm, iters') → cm.Perm sg := by
  have fin : ∀ (s : CmSt α), CmInv sg s → ¬ s.order.length < sg.length → s.order.Perm sg := by
    intro s I hl
    exact (List.subperm_of_subset I.1 I.2.2).perm_of_length_le (by omega)
  intro fuel
  induction fuel with
  | zero =>
    intro s cm iters' I h
    simp only [cmLoop] at h
    split at h
    · simp at h
    · rename_i hl
      injection h with h; injection h with h1 h2; subst h1
      exact fin s I hl
  | succ n ih =>
    intro s cm iters' I h
    simp only [cmLoop] at h
    split at h
    · cases hs : cmStep vn sg s with
      | error e => simp [hs] at h
      | ok s' =>
        simp only [hs] at h
        exact ih s' cm iters' (cmStep_inv vn sg s s' I hs) h
    · rename_i hl
      injection h with h; injection h with h1 h2; subst h1
      exact fin s I hl

theorem cuthillMckee_perm (vn : VN α) (sg : List α) (hsg : sg.Nodup) (iters iters' : List (List α))
    (cm : List α) (h : cuthillMckee vn sg iters = .ok (cm, iters')) : cm.Perm sg := by
  unfold cuthillMckee at h
  split at h
  · simp at h
  · split at h
    · simp at h
    · rename_i it iters2 ht
      obtain ⟨_, _, hm⟩ := takeIter_ok ht
      split at h
      · simp at h
      · rename_i p hp
        have hpsg : p ∈ sg := (hm p).1 (argminFirst_mem _ _ _ hp)
        apply cmLoop_spec vn sg hsg _ _ cm iters' _ h
        refine ⟨by simp, fun a => Iff.rfl, ?_⟩
        intro a ha; simp at ha; subst ha; exact hpsg

/-! ### rcm_vertex_order -/

theorem rcmLoop_perm (vn : VN α) :
    ∀ (sgs : List (List α)) (iters : List (List α)) (out r : List α) (iters' : List (List α)),
      (∀ sg ∈ sgs, sg.Nodup) → rcmLoop vn sgs iters out = .ok (r, iters') → r.Perm (out ++ sgs.flatten) := by
  intro sgs
  induction sgs with
  | nil =>
    intro iters out r iters' _ h
    simp only [rcmLoop] at h
    injection h with h; injection h with h1 h2; subst h1; simp
  | cons sg rest ih =>
    intro iters out r iters' hnd h
    simp only [rcmLoop] at h
    split at h
    · simp at h
    · rename_i cm it2 hc
      have hp := cuthillMckee_perm vn sg (hnd sg (by simp)) _ _ _ hc
      have := ih _ _ _ _ (fun s hs => hnd s (by simp [hs])) h
      refine this.trans ?_
      simp only [List.flatten_cons, List.append_assoc]
      exact List.Perm.append_left _ (List.Perm.append_right _ ((List.reverse_perm cm).trans hp))

/-- **rcm_vertex_order**: whenever it returns, the order has no duplicates, lists every vertex
of `vs` and lists nothing but vertices of `vs` and end points of the nets. -/
theorem rcmVertexOrder_spec (vs : List α) (nets : List (Net α)) (pops : List α) (iters : List (List α))
    (order : List α) (h : rcmVertexOrder vs nets pops iters = .ok order) :
    order.Nodup ∧ (∀ v ∈ vs, v ∈ order) ∧
      (∀ v ∈ order, v ∈ vs ∨ ∃ n ∈ nets, v = n.src ∨ v ∈ n.sinks) := by
  unfold rcmVertexOrder at h
  simp only at h
  split at h
  · simp at h
  · rename_i sgs pops' hs
    split at h
    · simp at h
    · rename_i out iters' hr
      split at h
      · injection h with h; subst h
        let V : α → Prop := fun v => ∃ n ∈ nets, v = n.src ∨ v ∈ n.sinks
        let Q : α → Prop := fun v => v ∈ vs ∨ V v
        have hW : Within V (getVerticesNeighbours nets) :=
          getVN_within nets V (fun n hn => ⟨⟨n, hn, Or.inl rfl⟩, fun s hs => ⟨n, hn, Or.inr hs⟩⟩)
        have hQ : ∀ a, Q a → ∀ b ∈ nbrs (getVerticesNeighbours nets) a, Q b :=
          fun a _ b hb => Or.inr (hW a b hb).2
        have I0 : SgInv (getVerticesNeighbours nets) vs Q (dedupL vs) [] :=
          ⟨nodup_dedupL vs, by simp, by simp, List.Pairwise.nil, by simp,
            fun v hv => Or.inl ((mem_dedupL vs v).2 hv), by simp,
            fun a ha => Or.inl ((mem_dedupL vs a).1 ha)⟩
        have I := subgraphsLoop_spec (getVerticesNeighbours nets) (getVN_sym nets) vs Q hQ _ _ _ _ _ _ I0 hs
        have hp := rcmLoop_perm (getVerticesNeighbours nets) sgs iters [] out iters' I.nodup hr
        simp only [List.nil_append] at hp
        refine ⟨hp.nodup_iff.2 (List.nodup_flatten.2 ⟨I.nodup, I.disj⟩), ?_, ?_⟩
        · intro v hv
          rcases I.cover v hv with h' | ⟨s, hs', hvs⟩
          · simp at h'
          · exact hp.mem_iff.2 (List.mem_flatten.2 ⟨s, hs', hvs⟩)
        · intro v hv
          obtain ⟨s, hs', hvs⟩ := List.mem_flatten.1 (hp.mem_iff.1 hv)
          exact I.q s hs' v hvs
      · simp at h

end generic
end Rig.C02Orders
