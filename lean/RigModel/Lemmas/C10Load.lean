/-
C10 helper lemmas: controller programs against the router specification.
-/
import RigModel.Model.C10
import RigModel.Props.C07
import RigModel.Lemmas.C10Bits
set_option linter.unusedSimpArgs false
set_option linter.unusedVariables false

namespace Rig.C10
open Rig.Gen.Router Rig.Gen.Scp

/-- what a read of `n` bytes at `a` returns -/
def bytesAt (s : Chip) (a n : Nat) : List Nat := (List.range n).map (fun i => s.byte (a + i))

theorem bytesAt_split (s : Chip) (a m n : Nat) (h : m ≤ n) :
    bytesAt s a m ++ bytesAt s (a + m) (n - m) = bytesAt s a n := by
  have : n = m + (n - m) := by omega
  conv => rhs; rw [this]
  simp only [bytesAt, List.range_add, List.map_append, List.map_map]
  congr 1
  apply List.map_congr_left
  intro i _
  simp [Nat.add_assoc]

theorem step_read (pol : Pol) (s : Chip) (x y p : Nat) (c : Rig.C07.Chunk) :
    stepChip pol s (readReq x y p c) = (s, { arg1 := 0, data := bytesAt s c.addr c.size }) := by
  simp [stepChip, readReq, cmdRead, cmdAllocFree, cmdWrite, bytesAt]

theorem step_write (pol : Pol) (s : Chip) (x y p : Nat) (c : Rig.C07.Chunk) :
    stepChip pol s (writeReq x y p c) =
      ({ s with mem := Rig.C07.execWrite s.mem c }, { arg1 := 0, data := [] }) := by
  simp [stepChip, writeReq, cmdAllocFree, cmdWrite, Rig.C07.execWrite]

theorem run_readProg {α : Type} (pol : Pol) (s : Chip) (x y p buf : Nat) (k : List Nat → Prog α) :
    ∀ (cs : List Rig.C07.Chunk) (a n : Nat) (acc : List Nat), Rig.C07.RCovers buf a n cs →
      run pol (readProg x y p cs acc k) s =
        ((run pol (k (acc ++ bytesAt s a n)) s).1, (run pol (k (acc ++ bytesAt s a n)) s).2.1,
         cs.map (readReq x y p) ++ (run pol (k (acc ++ bytesAt s a n)) s).2.2)
  | [], a, n, acc, h => by
    simp only [Rig.C07.RCovers] at h
    subst h
    simp [readProg, bytesAt]
  | c :: cs, a, n, acc, h => by
    simp only [Rig.C07.RCovers] at h
    obtain ⟨ha, _, _, hn, _, hrest⟩ := h
    simp only [readProg, run, step_read]
    rw [run_readProg pol s x y p buf k cs (a + c.size) (n - c.size) _ hrest]
    rw [List.append_assoc, ha, bytesAt_split s a c.size n hn]
    simp

theorem run_writeProg {α : Type} (pol : Pol) (x y p : Nat) (k : Prog α) :
    ∀ (cs : List Rig.C07.Chunk) (s : Chip),
      run pol (writeProg x y p cs k) s =
        ((run pol k { s with mem := cs.foldl Rig.C07.execWrite s.mem }).1,
         (run pol k { s with mem := cs.foldl Rig.C07.execWrite s.mem }).2.1,
         cs.map (writeReq x y p) ++ (run pol k { s with mem := cs.foldl Rig.C07.execWrite s.mem }).2.2)
  | [], s => by simp [writeProg]
  | c :: cs, s => by
    simp only [writeProg, run, step_write]
    rw [run_writeProg pol x y p k cs]
    simp

/-- the 32-bit `sv` field at offset `off` holds `val` (and `sv` is not inside the router copy) -/
def SvWord (s : Chip) (off val : Nat) : Prop :=
  val < 4294967296 ∧
  (svBase + off + 4 ≤ s.copyBase ∨ s.copyBase + 16 * rtrEntries ≤ svBase + off) ∧
  (List.range 4).map (fun i => s.mem (svBase + off + i)) = le32 val

theorem SvWord.bytes {s : Chip} {off val : Nat} (h : SvWord s off val) (s' : Chip)
    (hm : s'.mem = s.mem) (hc : s'.copyBase = s.copyBase) : bytesAt s' (svBase + off) 4 = le32 val := by
  rw [← h.2.2]
  unfold bytesAt
  apply List.map_congr_left
  intro i hi
  have hi' : i < 4 := by simpa using hi
  have hout : ¬ (s'.copyBase ≤ svBase + off + i ∧ svBase + off + i < s'.copyBase + 16 * rtrEntries) := by
    rw [hc]; rcases h.2.1 with h1 | h1 <;> omega
  simp only [Chip.byte, hout, if_false, hm]

theorem run_readSvWord {α : Type} (pol : Pol) (s : Chip) (scpLen x y off val : Nat) (k : Nat → Prog α)
    (hb : 0 < scpLen) (hv : bytesAt s (svBase + off) 4 = le32 val) (hval : val < 4294967296) :
    run pol (readSvWord scpLen x y off k) s =
      ((run pol (k val) s).1, (run pol (k val) s).2.1,
       (Rig.C07.read scpLen (svBase + off) 4).map (readReq x y 0) ++ (run pol (k val) s).2.2) := by
  unfold readSvWord
  rw [run_readProg pol s x y 0 scpLen _ _ _ 4 [] (Rig.C07.read_partition scpLen (svBase + off) 4 hb)]
  simp only [List.nil_append, hv, le32, word32_le32 val hval]

/-! ### packing a table -/

def recordOf (i : Nat) (e : Entry) : List Nat :=
  le16 i ++ le16 0 ++ le32 (routeWord e.route) ++ le32 e.key ++ le32 e.mask

def recordsFrom : Nat → List Entry → List Nat
  | _, [] => []
  | i, e :: es => recordOf i e ++ recordsFrom (i + 1) es

/-- documented domain of a loadable entry -/
def Entry.InRange (e : Entry) : Prop :=
  (∀ r ∈ e.route, r < 24) ∧ e.key < 4294967296 ∧ e.mask < 4294967296

theorem recordOf_length (i : Nat) (e : Entry) : (recordOf i e).length = 16 := by
  simp [recordOf, le16, le32]

theorem packAll_ok : ∀ (es : List Entry) (i : Nat), i + es.length ≤ 65536 → (∀ e ∈ es, e.InRange) →
    packAll i es = .ok (recordsFrom i es)
  | [], i, _, _ => rfl
  | e :: es, i, hi, hr => by
    have he := hr e (by simp)
    have hw : routeWord e.route < 4294967296 := by
      have := routeWord_lt e.route 24 he.1; omega
    simp only [List.length_cons] at hi
    have hi' : i < 65536 := by omega
    simp only [packAll, packEntry, hi', hw, he.2.1, he.2.2, and_self, if_true]
    rw [packAll_ok es (i + 1) (by omega) (fun e' he' => hr e' (by simp [he']))]
    rfl

theorem recordsFrom_length : ∀ (es : List Entry) (i : Nat), (recordsFrom i es).length = 16 * es.length
  | [], _ => rfl
  | e :: es, i => by
    simp only [recordsFrom, List.length_append, recordOf_length, recordsFrom_length es, List.length_cons]
    omega

theorem getD_append_left' (a b : List Nat) (n : Nat) (h : n < a.length) : (a ++ b).getD n 0 = a.getD n 0 := by
  simp only [List.getD_eq_getElem?_getD, List.getElem?_append_left h]
theorem getD_append_right' (a b : List Nat) (n : Nat) (h : a.length ≤ n) :
    (a ++ b).getD n 0 = b.getD (n - a.length) 0 := by
  simp only [List.getD_eq_getElem?_getD, List.getElem?_append_right h]

theorem recordsFrom_getD : ∀ (es : List Entry) (i k : Nat) (e : Entry), es[k]? = some e →
    ∀ j, j < 16 → (recordsFrom i es).getD (16 * k + j) 0 = (recordOf (i + k) e).getD j 0
  | [], _, k, e, h, _, _ => by simp at h
  | e0 :: es, i, 0, e, h, j, hj => by
    simp only [List.getElem?_cons_zero, Option.some.injEq] at h
    subst h
    simp only [recordsFrom, Nat.mul_zero, Nat.zero_add, Nat.add_zero]
    rw [getD_append_left' _ _ _ (by rw [recordOf_length]; exact hj)]
  | e0 :: es, i, k + 1, e, h, j, hj => by
    simp only [List.getElem?_cons_succ] at h
    simp only [recordsFrom]
    rw [getD_append_right' _ _ _ (by rw [recordOf_length]; omega), recordOf_length]
    have : 16 * (k + 1) + j - 16 = 16 * k + j := by omega
    rw [this, recordsFrom_getD es (i + 1) k e h j hj]
    congr 2; omega

/-! ### command words -/

theorem alloc_word (app op : Nat) (ho : op < 256) : (app <<< 8) ||| op = app * 256 + op := by
  rw [← Nat.shiftLeft_add_eq_or_of_lt (by simpa using ho) app, Nat.shiftLeft_eq]

theorem load_word (n app op : Nat) (ha : app < 256) (ho : op < 256) :
    (n <<< 16) ||| (app <<< 8) ||| op = n * 65536 + app * 256 + op := by
  rw [Nat.or_assoc, alloc_word app op ho,
    ← Nat.shiftLeft_add_eq_or_of_lt (show app * 256 + op < 2 ^ 16 by omega) n, Nat.shiftLeft_eq]
  omega

/-! ### router load -/

theorem applyRecs_other : ∀ (recs : List (Nat × Ent)) (rows : Nat → Row) (j : Nat),
    (∀ p ∈ recs, p.1 ≠ j) → applyRecs rows recs j = rows j
  | [], _, _, _ => rfl
  | (idx, e) :: rest, rows, j, h => by
    simp only [applyRecs]
    rw [applyRecs_other rest _ j (fun p hp => h p (by simp [hp]))]
    have : j ≠ idx := fun hj => h (idx, e) (by simp) hj.symm
    simp [this]

theorem applyRecs_hit : ∀ (recs : List (Nat × Ent)) (rows : Nat → Row), (recs.map (·.1)).Nodup →
    ∀ p ∈ recs, applyRecs rows recs p.1 = { rows p.1 with ent := some p.2 }
  | [], _, _, p, hp => by simp at hp
  | (idx, e) :: rest, rows, hnd, p, hp => by
    simp only [List.map_cons, List.nodup_cons] at hnd
    simp only [applyRecs]
    simp only [List.mem_cons] at hp
    rcases hp with rfl | hp
    · rw [applyRecs_other rest _ idx (fun q hq hqe => hnd.1 (List.mem_map.2 ⟨q, hq, hqe⟩))]
      simp
    · rw [applyRecs_hit rest _ hnd.2 p hp]
      have : p.1 ≠ idx := fun h => hnd.1 (List.mem_map.2 ⟨p, hp, h⟩)
      simp [this]

theorem decodeRec_record (f : Nat → Nat) (b app a k : Nat) (e : Entry) (hk : k < 65536) (he : e.InRange)
    (h : ∀ j, j < 16 → f (a + j) = (recordOf k e).getD j 0) :
    decodeRec f b app a =
      (b + k, { route := routeWord e.route, key := e.key, mask := e.mask, app := app, core := 0 }) := by
  have hw : routeWord e.route < 4294967296 := by
    have := routeWord_lt e.route 24 he.1; omega
  have h0 := h 0 (by omega)
  have h1 := h 1 (by omega)
  have h4 := h 4 (by omega)
  have h5 := h 5 (by omega)
  have h6 := h 6 (by omega)
  have h7 := h 7 (by omega)
  have h8 := h 8 (by omega)
  have h9 := h 9 (by omega)
  have h10 := h 10 (by omega)
  have h11 := h 11 (by omega)
  have h12 := h 12 (by omega)
  have h13 := h 13 (by omega)
  have h14 := h 14 (by omega)
  have h15 := h 15 (by omega)
  simp only [recordOf, le16, le32, List.cons_append, List.nil_append, List.getD_cons_zero,
    List.getD_cons_succ, Nat.add_zero] at h0 h1 h4 h5 h6 h7 h8 h9 h10 h11 h12 h13 h14 h15
  simp only [decodeRec, h0, h1, h4, h5, h6, h7, h8, h9, h10, h11, h12, h13, h14, h15,
    word32_le32 _ hw, word32_le32 _ he.2.1, word32_le32 _ he.2.2]
  congr 2
  omega

theorem step_alloc (pol : Pol) (s : Chip) (x y app n : Nat) (ha : app < 256) :
    stepChip pol s (allocReq x y app n) =
      if pol s.rows app n = 0 then (s, { arg1 := 0, data := [] })
      else ({ s with rows := claim s.rows (pol s.rows app n) n app }, { arg1 := pol s.rows app n, data := [] }) := by
  have h1 : (app * 256 + 3) % 256 = 3 := by omega
  have h2 : (app * 256 + 3) / 256 % 256 = app := by omega
  have hw : (app <<< 8) ||| 3 = app * 256 + 3 := alloc_word app 3 (by decide)
  simp [stepChip, allocReq, opAllocRtr, cmdAllocFree, hw, h1, h2]

theorem step_load (pol : Pol) (s : Chip) (x y app n buf base : Nat) (ha : app < 256) (hn : n < 65536) :
    stepChip pol s (loadReq x y app n buf base) =
      ({ s with rows := applyRecs s.rows (loadRecs s.byte buf base app n) }, { arg1 := 0, data := [] }) := by
  have h1 : (n * 65536 + app * 256 + 2) % 256 = 2 := by omega
  have h2 : (n * 65536 + app * 256 + 2) / 256 % 256 = app := by omega
  have h3 : (n * 65536 + app * 256 + 2) / 65536 = n := by omega
  have hw : (n <<< 16) ||| (app <<< 8) ||| 2 = n * 65536 + app * 256 + 2 := load_word n app 2 ha (by decide)
  simp [stepChip, loadReq, opRouterLoad, cmdAllocFree, cmdRouter, cmdWrite, cmdRead, hw, h1, h2, h3]

/-- the router row an entry becomes -/
def entOf (app : Nat) (e : Entry) : Ent :=
  { route := routeWord e.route, key := e.key, mask := e.mask, app := app, core := 0 }

def dfltEntry : Entry := { route := [], key := 0, mask := 0, sources := [] }

/-- the buffer, once written, decodes to the given entries in order at rows `base + k` -/
theorem loadRecs_written (s : Chip) (buf base app : Nat) (entries : List Entry)
    (hr : ∀ e ∈ entries, e.InRange) (hlen : entries.length ≤ 65536)
    (hdis : buf + 16 * entries.length ≤ s.copyBase ∨ s.copyBase + 16 * rtrEntries ≤ buf)
    (hmem : ∀ a, buf ≤ a → a < buf + 16 * entries.length → s.mem a = (recordsFrom 0 entries).getD (a - buf) 0) :
    loadRecs s.byte buf base app entries.length =
      (List.range entries.length).map (fun k => (base + k, entOf app (entries.getD k dfltEntry))) := by
  unfold loadRecs
  apply List.map_congr_left
  intro k hk
  have hk' : k < entries.length := by simpa using hk
  have hsome : entries[k]? = some (entries.getD k dfltEntry) := by
    simp [List.getD_eq_getElem?_getD, List.getElem?_eq_getElem hk']
  have hin : (entries.getD k dfltEntry).InRange := by
    apply hr
    simp [List.getD_eq_getElem?_getD, List.getElem?_eq_getElem hk']
  apply decodeRec_record _ _ _ _ k _ (by omega) hin
  intro j hj
  have hout : ¬ (s.copyBase ≤ buf + 16 * k + j ∧ buf + 16 * k + j < s.copyBase + 16 * rtrEntries) := by
    rcases hdis with h1 | h1 <;> omega
  simp only [Chip.byte, hout, if_false]
  rw [hmem _ (by omega) (by omega)]
  have : buf + 16 * k + j - buf = 16 * k + j := by omega
  rw [this, recordsFrom_getD entries 0 k _ hsome j hj, Nat.zero_add]

/-- the chip after a successful `load_routing_table_entries` -/
def loadedChip (s : Chip) (buf b app : Nat) (entries : List Entry) : Chip :=
  { mem := Rig.C07.writeMem s.mem buf (recordsFrom 0 entries),
    rows := applyRecs (claim s.rows b entries.length app)
      ((List.range entries.length).map (fun k => (b + k, entOf app (entries.getD k dfltEntry)))),
    copyBase := s.copyBase }

theorem load_run {α : Type} (pol : Pol) (s : Chip) (scpLen x y app buf : Nat) (entries : List Entry)
    (k : Prog α) (hb : 0 < scpLen) (ha : app < 256) (hbase : pol s.rows app entries.length ≠ 0)
    (hlen : entries.length < 65536) (hr : ∀ e ∈ entries, e.InRange) (hsv : SvWord s svSdramSys buf)
    (hdis : buf + 16 * entries.length ≤ s.copyBase ∨ s.copyBase + 16 * rtrEntries ≤ buf) :
    run pol (loadEntries scpLen entries x y app k) s =
      ((run pol k (loadedChip s buf (pol s.rows app entries.length) app entries)).1,
       (run pol k (loadedChip s buf (pol s.rows app entries.length) app entries)).2.1,
       allocReq x y app entries.length ::
        ((Rig.C07.read scpLen (svBase + svSdramSys) 4).map (readReq x y 0) ++
         ((Rig.C07.write scpLen buf (recordsFrom 0 entries)).map (writeReq x y 0) ++
          loadReq x y app entries.length buf (pol s.rows app entries.length) ::
            (run pol k (loadedChip s buf (pol s.rows app entries.length) app entries)).2.2))) := by
  unfold loadEntries
  simp only [run, step_alloc pol s x y app _ ha, hbase, if_false]
  have key := fun (k' : Nat → Prog α) =>
    run_readSvWord pol { s with rows := claim s.rows (pol s.rows app entries.length) entries.length app }
      scpLen x y svSdramSys buf k' hb (hsv.bytes _ rfl rfl) hsv.1
  rw [key]
  simp only [packAll_ok entries 0 (by omega) hr]
  rw [run_writeProg]
  simp only [run]
  rw [Rig.C07.write_exact_any_order scpLen buf (recordsFrom 0 entries) s.mem hb _ (fun w h => h) (fun c h => h)]
  rw [step_load pol _ x y app entries.length buf _ ha hlen]
  simp only
  have key2 := fun (base : Nat) =>
    loadRecs_written { s with mem := Rig.C07.writeMem s.mem buf (recordsFrom 0 entries),
                              rows := claim s.rows (pol s.rows app entries.length) entries.length app }
      buf base app entries hr (by omega) hdis (by
        intro a h1 h2
        simp only [Rig.C07.writeMem, recordsFrom_length]
        rw [if_pos ⟨h1, h2⟩])
  rw [key2]
  rfl

theorem loaded_rows_in (s : Chip) (buf b app : Nat) (entries : List Entry) (i : Nat) (hi : i < entries.length) :
    (loadedChip s buf b app entries).rows (b + i) =
      { s.rows (b + i) with owner := some app, ent := some (entOf app (entries.getD i dfltEntry)) } := by
  unfold loadedChip
  simp only
  have hnd : (((List.range entries.length).map (fun k => (b + k, entOf app (entries.getD k dfltEntry)))).map (·.1)).Nodup := by
    simp only [List.map_map]
    rw [List.Nodup, List.pairwise_map]
    refine (List.nodup_range (n := entries.length)).imp ?_
    intro a c h heq
    simp only [Function.comp] at heq
    exact h (by omega)
  have hmem : (b + i, entOf app (entries.getD i dfltEntry)) ∈
      (List.range entries.length).map (fun k => (b + k, entOf app (entries.getD k dfltEntry))) :=
    List.mem_map.2 ⟨i, by simpa using hi, rfl⟩
  rw [applyRecs_hit _ _ hnd _ hmem]
  have : b ≤ b + i ∧ b + i < b + entries.length := ⟨by omega, by omega⟩
  simp [claim, this]

theorem loaded_rows_out (s : Chip) (buf b app : Nat) (entries : List Entry) (j : Nat)
    (hj : ¬ (b ≤ j ∧ j < b + entries.length)) :
    (loadedChip s buf b app entries).rows j = s.rows j := by
  unfold loadedChip
  simp only
  rw [applyRecs_other]
  · simp [claim, hj]
  · intro p hp
    obtain ⟨k, hk, rfl⟩ := List.mem_map.1 hp
    have : k < entries.length := by simpa using hk
    simp only
    omega

/-! ### reading back -/

theorem rowRecord_length (r : Row) : (rowRecord r).length = 16 := by
  unfold rowRecord; split <;> simp [le16, le32]

theorem list16 (l : List Nat) (h : l.length = 16) : (List.range 16).map (fun t => l.getD t 0) = l := by
  apply List.ext_getElem
  · simp [h]
  · intro i h1 h2
    simp only [List.getElem_map, List.getElem_range, List.getD_eq_getElem?_getD, List.getElem?_eq_getElem h2,
      Option.getD_some]

theorem flatten16 (f : Nat → List Nat) (hf : ∀ j, (f j).length = 16) : ∀ n,
    (List.range (16 * n)).map (fun i => (f (i / 16)).getD (i % 16) 0) = ((List.range n).map f).flatten
  | 0 => by simp
  | n + 1 => by
    have e : 16 * (n + 1) = 16 * n + 16 := by omega
    have hs : List.range (n + 1) = List.range n ++ [n] := List.range_succ
    rw [e, List.range_add, List.map_append, flatten16 f hf n, hs, List.map_append,
      List.flatten_append]
    congr 1
    simp only [List.map_map, List.map_cons, List.map_nil, List.flatten_cons, List.flatten_nil, List.append_nil]
    rw [← list16 (f n) (hf n)]
    apply List.map_congr_left
    intro t ht
    have ht' : t < 16 := by simpa using ht
    have e1 : (16 * n + t) / 16 = n := by omega
    have e2 : (16 * n + t) % 16 = t := by omega
    simp only [Function.comp, e1, e2, list16 (f n) (hf n)]

theorem copy_bytes (s : Chip) :
    bytesAt s s.copyBase (16 * rtrEntries) = ((List.range rtrEntries).map (fun j => rowRecord (s.rows j))).flatten := by
  rw [← flatten16 (fun j => rowRecord (s.rows j)) (fun j => rowRecord_length _) rtrEntries]
  unfold bytesAt
  apply List.map_congr_left
  intro i hi
  have hi' : i < 16 * rtrEntries := by simpa using hi
  have hin : s.copyBase ≤ s.copyBase + i ∧ s.copyBase + i < s.copyBase + 16 * rtrEntries := ⟨by omega, by omega⟩
  simp only [Chip.byte, hin, and_self, if_true, Nat.add_sub_cancel_left]

theorem sum_const16 : ∀ n : Nat, (List.map (fun _ => 16) (List.range n)).sum = 16 * n
  | 0 => by simp
  | n + 1 => by
    rw [List.range_succ, List.map_append, List.sum_append, sum_const16 n]
    simp; omega

theorem decodeAll_flatten : ∀ (ps : List (List Nat × Option Dec)) (fuel : Nat),
    (∀ p ∈ ps, p.1.length = 16 ∧ unpackEntry p.1 = some p.2) → ps.length ≤ fuel →
    decodeAll fuel (ps.map (·.1)).flatten = .ok (ps.map (·.2))
  | [], 0, _, _ => rfl
  | [], fuel + 1, _, _ => by simp [decodeAll]
  | p :: ps, 0, _, hf => by simp at hf
  | p :: ps, fuel + 1, h, hf => by
    obtain ⟨hl, hu⟩ := h p (by simp)
    have hpos : (p.1 ++ (ps.map (·.1)).flatten).length > 0 := by simp [hl]; omega
    simp only [decodeAll, List.map_cons, List.flatten_cons, hpos, if_true]
    rw [List.take_left' hl, List.drop_left' hl, hu]
    simp only
    rw [decodeAll_flatten ps fuel (fun r' hr' => h r' (by simp [hr'])) (by simpa using hf)]

/-- what reading back a row gives -/
def decRow (r : Row) : Option Dec :=
  match r.ent with
  | none => none
  | some x => some { routes := routesValues.filter (fun b => (x.route >>> b) &&& 1 = 1),
                     key := x.key, mask := x.mask, app := x.app, core := x.core }

theorem unpack_rowRecord (r : Row) (h : r.Ok) : unpackEntry (rowRecord r) = some (decRow r) := by
  unfold rowRecord decRow
  cases he : r.ent with
  | none => exact unpack_unused r.next r.free
  | some x =>
    simp only [Row.Ok, he] at h
    obtain ⟨hr, hk, hm, ha, hc⟩ := h
    simp only
    rw [unpack_used r.next (x.app + 256 * x.core) x.route x.key x.mask hr hk hm]
    have e1 : (x.app + 256 * x.core) % 256 = x.app := by omega
    have e2 : (x.app + 256 * x.core) / 256 % 16 = x.core := by omega
    rw [e1, e2]

theorem readsAs_decRow (r : Row) : ReadsAs r (decRow r) := by
  unfold ReadsAs decRow
  cases he : r.ent with
  | none => simp
  | some x =>
    simp only
    refine ⟨trivial, trivial, trivial, trivial, ?_, ?_, trivial⟩
    · intro b hb
      rw [mem_routes_filter]
      exact ⟨fun h => h.2, fun h => ⟨hb, h⟩⟩
    · intro b hb
      exact ((mem_routes_filter _ _).1 hb).1

theorem get_run (pol : Pol) (s : Chip) (scpLen x y : Nat) (hb : 0 < scpLen)
    (hsv : SvWord s svRtrCopy s.copyBase) (hrows : ∀ j, j < rtrEntries → (s.rows j).Ok) :
    run pol (getEntries scpLen x y) s =
      (s, .ok ((List.range rtrEntries).map (fun j => decRow (s.rows j))),
       (Rig.C07.read scpLen (svBase + svRtrCopy) 4).map (readReq x y 0) ++
         (Rig.C07.read scpLen s.copyBase (rtrEntries * 16)).map (readReq x y 0)) := by
  unfold getEntries
  rw [run_readSvWord pol s scpLen x y svRtrCopy s.copyBase _ hb (hsv.bytes s rfl rfl) hsv.1]
  rw [run_readProg pol s x y 0 scpLen _ _ _ _ [] (Rig.C07.read_partition scpLen s.copyBase (rtrEntries * 16) hb)]
  have e : rtrEntries * 16 = 16 * rtrEntries := by omega
  simp only [List.nil_append, e, copy_bytes]
  have hfl : (List.map (fun j => rowRecord (s.rows j)) (List.range rtrEntries)) =
      ((List.range rtrEntries).map (fun j => (rowRecord (s.rows j), decRow (s.rows j)))).map (·.1) := by
    simp [List.map_map, Function.comp_def]
  rw [hfl, decodeAll_flatten _ _ (by
      intro p hp
      obtain ⟨j, hj, rfl⟩ := List.mem_map.1 hp
      exact ⟨rowRecord_length _, unpack_rowRecord _ (hrows j (by simpa using hj))⟩) (by
      simp [List.length_flatten, rtrEntries, List.map_map, Function.comp_def, rowRecord_length, sum_const16])]
  simp [run, List.map_map, Function.comp_def]

end Rig.C10
