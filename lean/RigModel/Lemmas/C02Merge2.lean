/-
C02 - induction over the `for same_chip_constraint in constraints` loop.
-/
import RigModel.Lemmas.C02Merge
set_option linter.unusedSimpArgs false
set_option linter.unusedVariables false

namespace Rig.C02

theorem replaceFirst_mem : ∀ (l : List Vtx) (a b : Vtx) (l' : List Vtx), replaceFirst l a b = some l' →
    b ∈ l' ∧ ∀ x ∈ l, x ≠ a → x ∈ l' := by
  intro l
  induction l with
  | nil => intro a b l' h; simp [replaceFirst] at h
  | cons y t ih =>
    intro a b l' h
    simp only [replaceFirst] at h
    split at h
    · rename_i e; simp at h; subst h; subst e
      refine ⟨by simp, fun x hx hne => ?_⟩
      simp only [List.mem_cons] at hx ⊢
      rcases hx with hx | hx
      · exact absurd hx hne
      · exact Or.inr hx
    · simp only [Option.map_eq_some_iff] at h
      obtain ⟨l1, h1, rfl⟩ := h
      obtain ⟨i1, i2⟩ := ih _ _ _ h1
      refine ⟨List.mem_cons_of_mem _ i1, fun x hx hne => ?_⟩
      simp only [List.mem_cons] at hx ⊢
      rcases hx with hx | hx
      · exact Or.inl hx
      · exact Or.inr (i2 x hx hne)

theorem removeRest_mem : ∀ (tl vo removed vo' : List Vtx), removeRest vo tl removed = .ok vo' →
    ∀ x ∈ vo, x ∉ tl → x ∈ vo' := by
  intro tl
  induction tl with
  | nil => intro vo removed vo' h x hx _; simp [removeRest] at h; subst h; exact hx
  | cons v t ih =>
    intro vo removed vo' h x hx hnt
    simp only [List.mem_cons, not_or] at hnt
    simp only [removeRest] at h
    split at h
    · exact ih _ _ _ h x hx hnt.2
    · split at h
      · exact ih _ _ _ h x ((List.mem_erase_of_ne hnt.1).2 hx) hnt.2
      · simp at h

theorem replaceFirst_spec : ∀ (l : List Vtx) (a b : Vtx), l.Nodup → a ∈ l → b ∉ l →
    ∃ l', replaceFirst l a b = some l' ∧ l'.Nodup ∧ ∀ x, x ∈ l' ↔ x = b ∨ (x ∈ l ∧ x ≠ a) := by
  intro l
  induction l with
  | nil => intro a b _ h; simp at h
  | cons y t ih =>
    intro a b hnd ha hb
    simp only [List.nodup_cons] at hnd
    simp only [List.mem_cons, not_or] at hb
    by_cases e : y = a
    · subst e
      refine ⟨b :: t, by simp [replaceFirst], List.nodup_cons.2 ⟨hb.2, hnd.2⟩, fun x => ?_⟩
      simp only [List.mem_cons]
      constructor
      · rintro (h | h)
        · exact Or.inl h
        · exact Or.inr ⟨Or.inr h, fun e => hnd.1 (e ▸ h)⟩
      · rintro (h | ⟨h1 | h1, h2⟩)
        · exact Or.inl h
        · exact absurd h1 h2
        · exact Or.inr h1
    · have ha' : a ∈ t := by
        simp only [List.mem_cons] at ha
        rcases ha with ha | ha
        · exact absurd ha.symm e
        · exact ha
      obtain ⟨l1, h1, h2, h3⟩ := ih a b hnd.2 ha' hb.2
      refine ⟨y :: l1, by simp [replaceFirst, e, h1], List.nodup_cons.2 ⟨?_, h2⟩, fun x => ?_⟩
      · intro hy
        rcases (h3 y).1 hy with h | ⟨h, _⟩
        · exact hb.1 h.symm
        · exact hnd.1 h
      · simp only [List.mem_cons, h3 x]
        constructor
        · rintro (h | h | ⟨h1, h2⟩)
          · subst h; exact Or.inr ⟨Or.inl rfl, e⟩
          · exact Or.inl h
          · exact Or.inr ⟨Or.inr h1, h2⟩
        · rintro (h | ⟨h1 | h1, h2⟩)
          · exact Or.inr (Or.inl h)
          · exact Or.inl h1
          · exact Or.inr (Or.inr ⟨h1, h2⟩)

theorem removeRest_spec : ∀ (tl vo removed : List Vtx), vo.Nodup → (∀ v ∈ tl, v ∈ removed ∨ v ∈ vo) →
    (∀ v ∈ removed, v ∉ vo) →
    ∃ vo', removeRest vo tl removed = .ok vo' ∧ vo'.Nodup ∧ ∀ x, x ∈ vo' ↔ x ∈ vo ∧ x ∉ tl := by
  intro tl
  induction tl with
  | nil => intro vo removed hnd _ _; exact ⟨vo, rfl, hnd, fun x => by simp⟩
  | cons v t ih =>
    intro vo removed hnd hin hrem
    have hin' : ∀ u ∈ t, u ∈ removed ∨ u ∈ vo := fun u hu => hin u (by simp [hu])
    simp only [removeRest]
    split
    · rename_i hv
      obtain ⟨vo', h1, h2, h3⟩ := ih vo removed hnd hin' hrem
      refine ⟨vo', h1, h2, fun x => ?_⟩
      rw [h3 x]
      simp only [List.mem_cons, not_or]
      constructor
      · rintro ⟨a, b⟩; exact ⟨a, fun e => hrem v hv (e ▸ a), b⟩
      · rintro ⟨a, _, b⟩; exact ⟨a, b⟩
    · rename_i hv
      split
      · rename_i hvo
        obtain ⟨vo', h1, h2, h3⟩ := ih (vo.erase v) (v :: removed) (hnd.erase v) (by
            intro u hu
            by_cases e : u = v
            · exact Or.inl (by simp [e])
            · rcases hin' u hu with h | h
              · exact Or.inl (by simp [h])
              · exact Or.inr ((List.mem_erase_of_ne e).2 h)) (by
            intro u hu hm
            rw [hnd.mem_erase_iff] at hm
            simp only [List.mem_cons] at hu
            rcases hu with hu | hu
            · exact hm.1 hu
            · exact hrem u hu hm.2)
        refine ⟨vo', h1, h2, fun x => ?_⟩
        rw [h3 x, hnd.mem_erase_iff]
        simp only [List.mem_cons, not_or]
        constructor
        · rintro ⟨⟨a, b⟩, c⟩; exact ⟨b, a, c⟩
        · rintro ⟨b, a, c⟩; exact ⟨⟨a, b⟩, c⟩
      · rename_i hvo
        rcases hin v (by simp) with h | h
        · exact absurd h hv
        · exact absurd h hvo

structure MInv (i : Nat) (vr : VR) (cs : List Constraint) (subs : List (List Vtx)) : Prop where
  nodup : (keys vr).Nodup
  fv : ∀ v ∈ keys vr, VFresh subs.length v
  fc : ∀ c ∈ cs, CFresh subs.length c
  const : ∀ j, j < i → ∀ ws, cs[j]? = some (.same ws) → ∀ a ∈ ws, ∀ b ∈ ws, a = b

theorem const_of_short {ws : List Vtx} (h : ws.length ≤ 1) : ∀ a ∈ ws, ∀ b ∈ ws, a = b := by
  match ws, h with
  | [], _ => intro a ha; simp at ha
  | [x], _ => intro a ha b hb; simp at ha hb; rw [ha, hb]

structure MergeOut (m : Machine) (vr : VR) (cs : List Constraint) (subs : List (List Vtx))
    (vrf : VR) (csf : List Constraint) (added : List (List Vtx)) : Prop where
  inv : MInv csf.length vrf csf (subs ++ added)
  nonneg : NonNegVR vr → NonNegVR vrf
  back : ∀ q, Feasible vrf csf m q → ∃ p, finaliseFrom subs.length added q = .ok p ∧ Feasible vr cs m p
  order : ∀ vo vo', (∀ v ∈ keys vr, v ∈ vo) → substOrder subs.length added vo = .ok vo' →
    ∀ v ∈ keys vrf, v ∈ vo'
  /-- the rewrite of a vertex order that is a permutation of the vertices cannot fail and yields a
  permutation of the vertices of the merged problem -/
  orderOk : ∀ vo, vo.Nodup → (∀ v, v ∈ vo ↔ v ∈ keys vr) →
    ∃ vo', substOrder subs.length added vo = .ok vo' ∧ vo'.Nodup ∧ ∀ v, v ∈ vo' ↔ v ∈ keys vrf

theorem applySameLoop_spec (m : Machine) : ∀ (n i : Nat) (vr : VR) (cs : List Constraint) (subs : List (List Vtx))
    (vrf : VR) (csf : List Constraint) (subsf : List (List Vtx)),
    MInv i vr cs subs → n + i = cs.length → applySameLoop n i vr cs subs = .ok (vrf, csf, subsf) →
    ∃ added, subsf = subs ++ added ∧ MergeOut m vr cs subs vrf csf added := by
  intro n
  induction n with
  | zero =>
    intro i vr cs subs vrf csf subsf I hlen h
    simp [applySameLoop] at h
    obtain ⟨rfl, rfl, rfl⟩ := h
    refine ⟨[], by simp, ?_, fun h => h, fun q F => ⟨q, rfl, F⟩, ?_, ?_⟩
    · have : i = cs.length := by omega
      subst this; simpa using I
    · intro vo vo' hvo h v hv
      simp [substOrder] at h; subst h; exact hvo v hv
    · intro vo hnd hvo
      exact ⟨vo, rfl, hnd, hvo⟩
  | succ n ih =>
    intro i vr cs subs vrf csf subsf I hlen h
    simp only [applySameLoop] at h
    split at h
    · rename_i vs hget
      split at h
      · -- nothing to merge
        rename_i hshort
        have I' : MInv (i + 1) vr cs subs := by
          refine ⟨I.nodup, I.fv, I.fc, fun j hj ws hws => ?_⟩
          by_cases e : j = i
          · subst e; rw [hget] at hws; injection hws with hws; injection hws with hws
            subst hws; exact const_of_short hshort
          · exact I.const j (by omega) ws hws
        exact ih _ _ _ _ _ _ _ I' (by omega) h
      · rename_i hlong
        split at h
        · simp at h
        · rename_i vr1 tot hpop
          have P := popAll_spec _ _ _ _ _ hpop I.nodup (nodup_dedup vs)
          have hk1 : ∀ v, v ∈ keys vr1 → v ∈ keys vr ∧ v ∉ vs := fun v hv =>
            ⟨((P.keys v).1 hv).1, fun hh => ((P.keys v).1 hv).2 ((mem_dedup vs v).2 hh)⟩
          have hkeys' : keys (vr1 ++ [(Vtx.m subs.length, tot)]) = keys vr1 ++ [Vtx.m subs.length] := by
            simp [keys]
          have I' : MInv (i + 1) (vr1 ++ [(Vtx.m subs.length, tot)])
              (cs.map (rewrite (Vtx.m subs.length) vs)) (subs ++ [vs]) := by
            refine ⟨?_, ?_, ?_, ?_⟩
            · rw [hkeys', List.nodup_append]
              refine ⟨P.nodup, by simp, fun a ha b hb => ?_⟩
              simp at hb; subst hb
              exact (I.fv a (hk1 a ha).1).ne
            · intro v hv
              rw [hkeys'] at hv
              simp only [List.mem_append, List.mem_singleton, List.length_append, List.length_singleton] at hv ⊢
              rcases hv with hv | rfl
              · exact (I.fv v (hk1 v hv).1).mono (by omega)
              · simp [VFresh]
            · intro c hc
              simp only [List.mem_map] at hc
              obtain ⟨c0, hc0, rfl⟩ := hc
              simp only [List.length_append, List.length_singleton]
              exact rewrite_fresh (I.fc c0 hc0)
            · intro j hj ws hws
              rw [List.getElem?_map] at hws
              cases hcj : cs[j]? with
              | none => simp [hcj] at hws
              | some c0 =>
                simp only [hcj, Option.map_some, Option.some.injEq] at hws
                cases c0 with
                | same ws0 =>
                  simp only [rewrite] at hws; injection hws with hws; subst hws
                  intro a ha b hb
                  simp only [List.mem_map] at ha hb
                  obtain ⟨a0, ha0, rfl⟩ := ha
                  obtain ⟨b0, hb0, rfl⟩ := hb
                  by_cases e : j = i
                  · subst e; rw [hget] at hcj; injection hcj with hcj; injection hcj with hcj
                    subst hcj
                    simp [substV, ha0, hb0]
                  · rw [I.const j (by omega) ws0 hcj a0 ha0 b0 hb0]
                | loc v c => simp [rewrite] at hws
                | reserve r a c => simp [rewrite] at hws
                | endpoint v => simp [rewrite] at hws
                | other => simp [rewrite] at hws
          obtain ⟨added', hsub, O⟩ := ih _ _ _ _ _ _ _ I' (by simp; omega) h
          refine ⟨vs :: added', by simp [hsub], ?_, ?_, ?_, ?_, ?_⟩
          · simpa using O.inv
          · intro hnn
            apply O.nonneg
            intro v d hvd i'
            simp only [List.mem_append, List.mem_singleton] at hvd
            rcases hvd with hvd | hvd
            · exact hnn v d (P.sub _ hvd) i'
            · injection hvd with _ e; subst e
              exact P.nonneg hnn (fun i => by simp [dem_nil]) i'
          · intro q F
            have hb := O.back q F
            simp only [List.length_append, List.length_singleton] at hb
            obtain ⟨p', hp', F'⟩ := hb
            obtain ⟨p, hp, Fp⟩ := expand_feasible I.nodup I.fv I.fc (by omega) hpop F'
            refine ⟨p, ?_, Fp⟩
            simp only [finaliseFrom, bind, Except.bind, hp']
            exact hp
          · intro vo vo' hvo hso v hv
            have hord := O.order
            simp only [List.length_append, List.length_singleton] at hord
            simp only [substOrder] at hso
            split at hso
            · simp at hso
            · rename_i v0 tl
              split at hso
              · simp at hso
              · rename_i vo1 hrep
                simp only [bind, Except.bind] at hso
                split at hso
                · simp at hso
                · rename_i vo2 hrem
                  obtain ⟨r1, r2⟩ := replaceFirst_mem _ _ _ _ hrep
                  have hmk : Vtx.m subs.length ∉ v0 :: tl := by
                    intro hin
                    exact (I.fv _ (P.present _ ((mem_dedup _ _).2 hin))).ne rfl
                  simp only [List.mem_cons, not_or] at hmk
                  refine hord vo2 vo' ?_ hso v hv
                  intro u hu
                  rw [hkeys'] at hu
                  simp only [List.mem_append, List.mem_singleton] at hu
                  rcases hu with hu | rfl
                  · obtain ⟨h1, h2⟩ := hk1 u hu
                    simp only [List.mem_cons, not_or] at h2
                    exact removeRest_mem _ _ _ _ hrem u (r2 u (hvo u h1) h2.1) h2.2
                  · exact removeRest_mem _ _ _ _ hrem _ r1 hmk.2
          · intro vo hnd hvo
            have hord := O.orderOk
            simp only [List.length_append, List.length_singleton] at hord
            match vs, hlong, hpop, P, hk1 with
            | [], hlong, _, _, _ => simp at hlong
            | v0 :: tl, hlong, hpop, P, hk1 =>
              have hpres : ∀ v ∈ v0 :: tl, v ∈ keys vr := fun v hv => P.present v ((mem_dedup _ v).2 hv)
              have hfresh : Vtx.m subs.length ∉ vo := fun hm => (I.fv _ ((hvo _).1 hm)).ne rfl
              obtain ⟨vo1, h1, n1, m1⟩ := replaceFirst_spec vo v0 (Vtx.m subs.length) hnd
                ((hvo v0).2 (hpres v0 (by simp))) hfresh
              have hv0 : v0 ≠ Vtx.m subs.length := (I.fv _ (hpres v0 (by simp))).ne
              obtain ⟨vo2, h2, n2, m2⟩ := removeRest_spec tl vo1 [v0] n1 (by
                  intro v hv
                  by_cases e : v = v0
                  · exact Or.inl (by simp [e])
                  · exact Or.inr ((m1 v).2 (Or.inr ⟨(hvo v).2 (hpres v (by simp [hv])), e⟩))) (by
                  intro v hv hm
                  simp only [List.mem_singleton] at hv; subst hv
                  rcases (m1 v).1 hm with h | ⟨_, h⟩
                  · exact hv0 h
                  · exact h rfl)
              obtain ⟨vo', h3, n3, m3⟩ := hord vo2 n2 (by
                intro x
                rw [m2 x, m1 x, hkeys']
                simp only [List.mem_append, List.mem_singleton]
                constructor
                · rintro ⟨h | ⟨h1, h2⟩, h3⟩
                  · exact Or.inr h
                  · left
                    rw [P.keys x]
                    refine ⟨(hvo x).1 h1, fun hd => ?_⟩
                    have := (mem_dedup _ x).1 hd
                    simp only [List.mem_cons] at this
                    rcases this with h | h
                    · exact h2 h
                    · exact h3 h
                · rintro (h | h)
                  · obtain ⟨k1, k2⟩ := hk1 x h
                    simp only [List.mem_cons, not_or] at k2
                    exact ⟨Or.inr ⟨(hvo x).2 k1, k2.1⟩, k2.2⟩
                  · subst h
                    refine ⟨Or.inl rfl, fun hm => ?_⟩
                    exact (I.fv _ (hpres _ (by simp [hm]))).ne rfl)
              refine ⟨vo', ?_, n3, m3⟩
              simp only [substOrder, h1, bind, Except.bind, h2]
              exact h3
    · rename_i hnot
      have I' : MInv (i + 1) vr cs subs := by
        refine ⟨I.nodup, I.fv, I.fc, fun j hj ws hws => ?_⟩
        by_cases e : j = i
        · subst e; exact absurd hws (hnot ws)
        · exact I.const j (by omega) ws hws
      exact ih _ _ _ _ _ _ _ I' (by omega) h

/-- all vertices of the caller are `Vtx.o` -/
def Original (vr : VR) (cs : List Constraint) : Prop :=
  (∀ v ∈ keys vr, VFresh 0 v) ∧ ∀ c ∈ cs, CFresh 0 c

theorem applySame_spec (m : Machine) {vr : VR} {cs : List Constraint} {vrf : VR} {csf : List Constraint}
    {subs : List (List Vtx)} (hn : (keys vr).Nodup) (ho : Original vr cs)
    (h : applySame vr cs = .ok (vrf, csf, subs)) : MergeOut m vr cs [] vrf csf subs := by
  have I : MInv 0 vr cs [] := ⟨hn, ho.1, ho.2, fun j hj => by omega⟩
  obtain ⟨added, e, O⟩ := applySameLoop_spec m _ _ _ _ _ _ _ _ I (by simp) h
  simp at e; subst e; exact O

end Rig.C02
