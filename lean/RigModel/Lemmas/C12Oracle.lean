/-
C12 - the executable oracle of the driver (`exactB`, `nodupB`, `strictB`) decides the
declarative specification (`Exact`, `List.Nodup`, `StrictlyIncreasing`).
Imports single Mathlib modules (injectivity of the pairing function, `List.count`/`Nodup` lemmas).
-/
import RigModel.Model.C12
import Mathlib.Data.Nat.Pairing
import Mathlib.Data.List.Count
import Mathlib.Data.List.Nodup
set_option linter.unusedSimpArgs false
set_option linter.unusedVariables false

namespace Rig.C12

theorem pair_inj (a b c d : Nat) (h : pair a b = pair c d) : a = c ∧ b = d :=
  Nat.pair_eq_pair.1 h

theorem key3_inj : Function.Injective key3 := by
  rintro ⟨a, b, c⟩ ⟨a', b', c'⟩ h
  obtain ⟨h1, h2⟩ := pair_inj _ _ _ _ h
  obtain ⟨h3, h4⟩ := pair_inj _ _ _ _ h1
  simp only at h2 h3 h4
  subst h2 h3 h4
  rfl

/-! sorting naturals -/
theorem sortNat_perm (l : List Nat) : (sortNat l).Perm l := List.mergeSort_perm _ _

theorem sortNat_sorted (l : List Nat) : (sortNat l).Pairwise (fun a b => a ≤ b) := by
  have := List.pairwise_mergeSort (le := fun (a b : Nat) => decide (a ≤ b))
    (by intro a b c; simp only [decide_eq_true_eq]; omega)
    (by intro a b; simp only [Bool.or_eq_true, decide_eq_true_eq]; omega) l
  unfold sortNat; simpa using this

theorem sortNat_eq_iff (a b : List Nat) : sortNat a = sortNat b ↔ a.Perm b := by
  constructor
  · intro h
    exact (sortNat_perm a).symm.trans (h ▸ sortNat_perm b)
  · intro h
    apply List.Perm.eq_of_pairwise (le := fun a b => a ≤ b) _ (sortNat_sorted a) (sortNat_sorted b)
    · exact (sortNat_perm a).trans (h.trans (sortNat_perm b).symm)
    · intro x y _ _ h1 h2; omega

theorem perm_map_key (a b : List (Nat × Nat × Nat)) : (a.map key3).Perm (b.map key3) ↔ a.Perm b := by
  constructor
  · intro h
    rw [List.perm_iff_count]
    intro t
    have := List.perm_iff_count.1 h (key3 t)
    rwa [List.count_map_of_injective _ _ key3_inj, List.count_map_of_injective _ _ key3_inj] at this
  · intro h; exact h.map _

/-! counting in the expansion -/

theorem coresOf_mem (m p : Nat) : p ∈ coresOf m ↔ m.testBit p = true := by
  unfold coresOf
  simp only [List.mem_filter, List.mem_range]
  constructor
  · exact fun h => h.2
  · intro h
    refine ⟨?_, h⟩
    have hge := Nat.ge_two_pow_of_testBit h
    have hm : m ≠ 0 := by
      have : 0 < 2 ^ p := Nat.pow_pos (by decide)
      omega
    have := (Nat.le_log2 hm).2 hge
    omega

theorem coresOf_nodup (m : Nat) : (coresOf m).Nodup :=
  List.Nodup.filter _ List.nodup_range

theorem chipsOf_mem (r x y : Nat) : (x, y) ∈ chipsOf r ↔ selects r x y = true := by
  unfold chipsOf
  simp only [List.mem_filter, List.mem_flatMap, List.mem_map, List.mem_range, Prod.mk.injEq]
  constructor
  · rintro ⟨_, h⟩; exact h
  · intro h
    refine ⟨?_, h⟩
    have hpos : 0 < 4 * wSide r := by
      have : 0 < wSide r := by unfold wSide; exact Nat.pow_pos (by decide)
      omega
    unfold selects at h
    simp only [Bool.and_eq_true, beq_iff_eq] at h
    obtain ⟨⟨h1, h2⟩, _⟩ := h
    refine ⟨x % (4 * wSide r), Nat.mod_lt _ hpos, y % (4 * wSide r), Nat.mod_lt _ hpos, ?_, ?_⟩
    · rw [← h1]; exact Nat.div_add_mod' x (4 * wSide r)
    · rw [← h2]; exact Nat.div_add_mod' y (4 * wSide r)

theorem grid_nodup (bx by' n : Nat) :
    ((List.range n).flatMap fun dx => (List.range n).map fun dy => (bx + dx, by' + dy)).Nodup := by
  rw [List.nodup_flatMap]
  constructor
  · intro dx _
    apply List.Nodup.map _ List.nodup_range
    intro a b h
    simp only [Prod.mk.injEq, true_and] at h
    omega
  · apply List.Pairwise.imp _ List.nodup_range
    intro a b hab
    simp only [Function.onFun, List.disjoint_left, List.mem_map, List.mem_range]
    rintro ⟨x, y⟩ ⟨i, _, hi⟩ ⟨j, _, hj⟩
    simp only [Prod.mk.injEq] at hi hj
    omega

theorem chipsOf_nodup (r : Nat) : (chipsOf r).Nodup :=
  List.Nodup.filter _ (grid_nodup _ _ _)

/-- multiplicity in a product list -/
theorem count_prod (chips : List (Nat × Nat)) (cores : List Nat) (x y p : Nat) :
    List.count (x, y, p) (chips.flatMap fun c => cores.map fun q => (c.1, c.2, q)) =
      List.count (x, y) chips * List.count p cores := by
  induction chips with
  | nil => simp
  | cons c rest ih =>
    rw [List.flatMap_cons, List.count_append, ih, List.count_cons, Nat.add_mul, Nat.add_comm]
    congr 1
    obtain ⟨cx, cy⟩ := c
    by_cases hc : (cx, cy) = (x, y)
    · simp only [Prod.mk.injEq] at hc
      obtain ⟨rfl, rfl⟩ := hc
      simp only [beq_self_eq_true, if_true, Nat.one_mul]
      exact List.count_map_of_injective cores (fun q => (cx, cy, q)) (by intro a b h; simpa using h) p
    · have : ((cx, cy) == (x, y)) = false := by simpa using hc
      rw [this]
      simp only [Bool.false_eq_true, if_false, Nat.zero_mul]
      rw [List.count_eq_zero]
      simp only [List.mem_map, Prod.mk.injEq, not_exists, not_and]
      intro q _ h1 h2
      exact absurd (by rw [h1, h2]) hc

theorem count_pair (pr : Nat × Nat) (x y p : Nat) :
    List.count (x, y, p) ((chipsOf pr.1).flatMap fun c => (coresOf pr.2).map fun q => (c.1, c.2, q)) =
      if sel pr x y p then 1 else 0 := by
  rw [count_prod, (chipsOf_nodup _).count, (coresOf_nodup _).count]
  simp only [chipsOf_mem, coresOf_mem, sel]
  by_cases h1 : selects pr.1 x y = true <;> by_cases h2 : pr.2.testBit p = true <;> simp [h1, h2]

theorem count_expand (out : List (Nat × Nat)) (x y p : Nat) :
    List.count (x, y, p) (expand out) = countSel out x y p := by
  unfold expand countSel
  induction out with
  | nil => simp
  | cons pr rest ih =>
    rw [List.flatMap_cons, List.count_append, ih, count_pair, List.countP_cons]
    omega

theorem exactB_iff' (targets : List (Nat × Nat × Nat)) (out : List (Nat × Nat)) (hnd : targets.Nodup) :
    exactB targets out = true ↔ Exact targets out := by
  unfold exactB
  rw [beq_iff_eq, sortNat_eq_iff, perm_map_key, List.perm_iff_count]
  unfold Exact
  constructor
  · intro h x y p
    rw [← count_expand, h, hnd.count]
  · rintro h ⟨x, y, p⟩
    rw [count_expand, h, hnd.count]


theorem strictNat_iff : ∀ (l : List Nat), l.Pairwise (fun a b => a ≤ b) → (strictNat l = true ↔ l.Nodup)
  | [], _ => by simp [strictNat]
  | [a], _ => by simp [strictNat]
  | a :: b :: rest, h => by
    have h2 := List.pairwise_cons.1 h
    have ih := strictNat_iff (b :: rest) h2.2
    have hb := List.pairwise_cons.1 h2.2
    rw [strictNat, Bool.and_eq_true, decide_eq_true_eq, ih, List.nodup_cons (a := a)]
    constructor
    · rintro ⟨hab, hn⟩
      refine ⟨?_, hn⟩
      intro hm
      rcases List.mem_cons.1 hm with e | hm
      · omega
      · have := hb.1 a hm; omega
    · rintro ⟨hn, hnd⟩
      refine ⟨?_, hnd⟩
      have := h2.1 b List.mem_cons_self
      have : a ≠ b := fun e => hn (e ▸ List.mem_cons_self)
      omega

theorem nodupB_iff' (targets : List (Nat × Nat × Nat)) : nodupB targets = true ↔ targets.Nodup := by
  unfold nodupB
  rw [strictNat_iff _ (sortNat_sorted _), (sortNat_perm _).nodup_iff, List.nodup_map_iff key3_inj]

theorem pairLt_trans (a b c : Nat × Nat) (h1 : pairLt a b) (h2 : pairLt b c) : pairLt a c := by
  unfold pairLt at *; omega

theorem strictB_iff' : ∀ (out : List (Nat × Nat)), strictB out = true ↔ StrictlyIncreasing out
  | [] => by simp [strictB, StrictlyIncreasing]
  | [a] => by simp [strictB, StrictlyIncreasing]
  | a :: b :: rest => by
    have ih := strictB_iff' (b :: rest)
    unfold StrictlyIncreasing at *
    rw [strictB, Bool.and_eq_true, ih, List.pairwise_cons (a := a)]
    have hab : (decide (a.1 < b.1) || (a.1 == b.1 && decide (a.2 < b.2))) = true ↔ pairLt a b := by
      simp [pairLt]
    rw [hab]
    constructor
    · rintro ⟨h1, h2⟩
      refine ⟨?_, h2⟩
      intro c hc
      rcases List.mem_cons.1 hc with e | hc
      · exact e ▸ h1
      · exact pairLt_trans _ _ _ h1 ((List.pairwise_cons.1 h2).1 c hc)
    · rintro ⟨h1, h2⟩
      exact ⟨h1 b List.mem_cons_self, h2⟩

end Rig.C12
