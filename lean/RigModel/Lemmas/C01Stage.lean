/-
C01 (capstone) - bridge lemmas between the stage models for the composed model pipeline
(Model/C01Pipe.lean): placement -> working chips, allocation -> core ranges, exact tables ->
orthogonal tables with sources (the domain of C04's minimiser theorems), `minimise_tables` on the
chip-indexed dict -> per-chip `RouteEquiv` of the final tables.
-/
import RigModel.Model.C01Pipe
import RigModel.Lemmas.C01Pipe
import RigModel.Lemmas.C02Basic
import RigModel.Lemmas.C05
import RigModel.Props.C01
import RigModel.Props.C04
import RigModel.Props.C05
import RigModel.Props.C03
import RigModel.Props.C02
set_option linter.unusedSimpArgs false
set_option linter.unusedVariables false

namespace Rig.C01Pipe.L
open Rig.C01 Rig.C01Pipe
open Rig.C03 (Chip Machine chipOk linkOk Sink)
open Rig.C04 (RouteEquiv minimiseTables minimiseTable Good Method)

/-! ### minimisation: from the chip-indexed dict back to per-chip tables -/

theorem mem_chipsFor {T : Tables} {targets : Chip → Option Nat} {x : Nat × List Entry × Option Nat} :
    x ∈ chipsFor T targets ↔ ∃ ct, T[x.1]? = some ct ∧ x.2.1 = ct.2 ∧ x.2.2 = targets ct.1 := by
  obtain ⟨i, t, tg⟩ := x
  simp only [chipsFor, List.mem_map, Prod.mk.injEq]
  constructor
  · rintro ⟨⟨ct, j⟩, hm, rfl, rfl, rfl⟩
    exact ⟨ct, List.mem_zipIdx_iff_getElem?.1 hm, rfl, rfl⟩
  · rintro ⟨ct, h, rfl, rfl⟩
    exact ⟨(ct, i), List.mem_zipIdx_iff_getElem?.2 h, rfl, rfl, rfl⟩

theorem tableAt_of_mem {T : Tables} (hn : (T.map (·.1)).Nodup) {ct : Chip × List Entry} (h : ct ∈ T) :
    tableAt T ct.1 = ct.2 := by
  have : T.find? (fun p => p.1 == ct.1) = some ct := by
    apply Rig.C01.L.find?_unique h (by simp)
    intro y hy hp
    exact List.inj_on_of_nodup_map hn hy h (by simpa using hp)
  simp [tableAt, this]

theorem tableAt_of_not_mem {T : Tables} {c : Chip} (h : c ∉ T.map (·.1)) : tableAt T c = [] := by
  have : T.find? (fun p => p.1 == c) = none := by
    rw [List.find?_eq_none]
    intro x hx hp
    exact h (List.mem_map.2 ⟨x, hx, by simpa using hp⟩)
  simp [tableAt, this]

theorem routeEquiv_nil (T : List Entry) : RouteEquiv [] T := by
  intro k e he
  simp [Rig.C04.lookup] at he

/-- the tables after `minimise_tables` are per chip RouteEquiv to the tables before -/
theorem final_equiv {T : Tables} (hn : (T.map (·.1)).Nodup)
    (hg : ∀ ct ∈ T, Good ct.2 ∧ ∀ e ∈ ct.2, e.sources ≠ 0)
    {targets : Chip → Option Nat} {methods : List Method} {out : List (Nat × List Entry)}
    (h : minimiseTables (chipsFor T targets) methods = .ok out) (c : Chip) :
    RouteEquiv (tableAt T c) (tableAt (finalTables T out) c) := by
  by_cases hc : c ∈ T.map (·.1)
  · obtain ⟨ct, hct, rfl⟩ := List.mem_map.1 hc
    obtain ⟨i, hi⟩ := List.mem_iff_getElem?.1 hct
    obtain ⟨h1, h2⟩ := Rig.C04.minimiseTables_equiv _ _ _ h
    obtain ⟨T', hT', hout⟩ := h1 (i, ct.2, targets ct.1) (mem_chipsFor.2 ⟨ct, hi, rfl, rfl⟩)
    simp only at hT' hout
    have hre := (Rig.C04.minimiseTable_equiv ct.2 (targets ct.1) methods T' (hg ct hct).1 (hg ct hct).2 hT').1
    rw [tableAt_of_mem hn hct]
    have hA : ∀ y ∈ out, ∀ ct', T[y.1]? = some ct' → ct'.1 = ct.1 → y.2 = T' := by
      intro y hy ct' hy1 hc1
      obtain ⟨_, x', hx', hx1, hm⟩ := h2 y hy
      obtain ⟨ct'', hg1, hg2, hg3⟩ := mem_chipsFor.1 hx'
      rw [hx1, hy1] at hg1
      cases hg1
      have hmem : ct' ∈ T := List.mem_of_getElem? hy1
      have : ct' = ct := List.inj_on_of_nodup_map hn hmem hct hc1
      subst this
      rw [hg2, hg3, hT'] at hm
      cases hm; rfl
    have : tableAt (finalTables T out) ct.1 = T' := by
      unfold tableAt
      cases hf : (finalTables T out).find? (fun p => p.1 == ct.1) with
      | some q =>
        have hq := List.mem_of_find?_eq_some hf
        have hq1 := List.find?_some hf
        simp only [finalTables, List.mem_filterMap, Option.map_eq_some_iff] at hq
        obtain ⟨y, hy, ct', hy1, rfl⟩ := hq
        exact hA y hy ct' hy1 (by simpa using hq1)
      | none =>
        rcases hout with rfl | hout
        · rfl
        · exfalso
          rw [List.find?_eq_none] at hf
          have : (ct.1, T') ∈ finalTables T out := by
            simp only [finalTables, List.mem_filterMap, Option.map_eq_some_iff]
            exact ⟨(i, T'), hout, ct, hi, rfl⟩
          have := hf _ this
          simp at this
    rw [this]
    exact hre
  · rw [tableAt_of_not_mem hc]
    exact routeEquiv_nil _

/-! ### exact tables are in the domain of the minimiser theorems -/

/-- the tables `routing_tree_to_tables` builds for nets with pairwise non-intersecting key/masks are
orthogonal (no key matched by two entries of a chip) and every entry lists a source: the domain of
C04's `minimiseTable_equiv` -/
theorem tables04_good {nets : List PNet} {T10 : Rig.C10.Tables}
    (hex : Rig.C10.TablesExact (Rig.C10.allOccs (nets.map PNet.net10)) T10)
    (hkeys : nets.Pairwise (fun a b => Rig.C04.intersect a.key a.mask b.key b.mask = false)) :
    ((tables04 T10).map (·.1)).Nodup ∧
    ∀ ct ∈ tables04 T10, Good ct.2 ∧ ∀ e ∈ ct.2, e.sources ≠ 0 := by
  obtain ⟨hTn, _, hper⟩ := hex
  constructor
  · have : (tables04 T10).map (·.1) = (T10.map (·.1)).map chipZ := by
      simp [tables04, List.map_map, Function.comp_def]
    rw [this]
    exact List.Nodup.map (fun a b h => Rig.C01.L.chipZ_inj h) hTn
  · intro ct hct
    simp only [tables04, List.mem_map] at hct
    obtain ⟨c10, hc10, rfl⟩ := hct
    obtain ⟨hkm, _, hexact, _⟩ := hper c10 hc10
    have hnet : ∀ e ∈ c10.2, ∃ n ∈ nets, e.key = n.key.toNat ∧ e.mask = n.mask.toNat := by
      intro e he
      obtain ⟨⟨o, ho, hat⟩, _⟩ := hexact e he
      obtain ⟨n, hn, v, hv, rfl⟩ := Rig.C01.L.mem_allOccs.1 ho
      exact ⟨n, hn, hat.2.1.symm, hat.2.2.symm⟩
    constructor
    · left
      simp only [Rig.C04.Orthogonal]
      rw [List.pairwise_map]
      have hp : c10.2.Pairwise (fun a b => (a.key, a.mask) ≠ (b.key, b.mask)) := by
        have := hkm
        rw [List.Nodup, List.pairwise_map] at this
        exact this
      refine hp.imp_of_mem ?_
      intro a b ha hb hne k ⟨hma, hmb⟩
      obtain ⟨n1, hn1, ha1, ha2⟩ := hnet a ha
      obtain ⟨n2, hn2, hb1, hb2⟩ := hnet b hb
      have hk1 : k &&& n1.mask = n1.key := by
        have : k &&& BitVec.ofNat 32 a.mask = BitVec.ofNat 32 a.key := by
          simpa [Rig.C04.Entry.matches, entry04] using hma
        rw [ha1, ha2, Rig.C01.L.ofNat_toNat32, Rig.C01.L.ofNat_toNat32] at this
        exact this
      have hk2 : k &&& n2.mask = n2.key := by
        have : k &&& BitVec.ofNat 32 b.mask = BitVec.ofNat 32 b.key := by
          simpa [Rig.C04.Entry.matches, entry04] using hmb
        rw [hb1, hb2, Rig.C01.L.ofNat_toNat32, Rig.C01.L.ofNat_toNat32] at this
        exact this
      have := Rig.C01.L.net_unique hkeys hn1 hn2 (Rig.C01.L.intersect_of_both hk1 hk2)
      subst this
      exact hne (by rw [ha1, ha2, hb1, hb2])
    · intro e he
      obtain ⟨e10, he10, rfl⟩ := List.mem_map.1 he
      obtain ⟨⟨o, ho, hat⟩, _, _, _, hsrc⟩ := hexact e10 he10
      have h1 := hsrc o ho hat
      have h2 : (srcBits e10.sources).testBit (srcBit (Rig.C10.srcOf o.v.dir)) = true :=
        (Rig.C01.L.srcBits_testBit _ _).2 (List.mem_map_of_mem h1)
      intro h0
      simp only [entry04] at h0
      rw [h0] at h2
      simp at h2

/-! ### placement, allocation, sinks -/

theorem machine3_eq (pb : Problem) : machine3 pb = machineOf02 pb.m2 pb.deadLinks := rfl

/-- C02 => C03: a placed vertex sits on a working chip of the router's machine -/
theorem chipOf_ok {pb : Problem} {p : Rig.C02.Placement}
    (hf : Rig.C02.Feasible (vr02 pb) (cs02 pb) pb.m2 p) {v : Nat} {c : Chip} (h : chipOf p v = some c) :
    chipOk (machine3 pb) c = true := by
  simp only [chipOf, Option.map_eq_some_iff] at h
  obtain ⟨c0, h0, rfl⟩ := h
  have hk : Rig.C02.Vtx.o v ∈ Rig.C02.keys p := (Rig.C02.aget_isSome_iff p _).1 (by simp [h0])
  obtain ⟨c', h1, h2⟩ := placement_bridge (vr02 pb) (cs02 pb) pb.m2 p pb.deadLinks hf _ (hf.onlyVertices _ hk)
  rw [h0] at h1; cases h1
  exact h2

theorem mem_endpoints {cs : List PC} {v r : Nat} : (v, r) ∈ endpoints cs ↔ PC.endpoint v r ∈ cs := by
  simp only [endpoints, List.mem_filterMap]
  constructor
  · rintro ⟨c, hc, h⟩
    cases c <;> simp at h
    obtain ⟨rfl, rfl⟩ := h
    exact hc
  · intro h; exact ⟨_, h, rfl⟩

theorem endpointOf_mem {cs : List PC} {v r : Nat} (h : endpointOf cs v = some r) : PC.endpoint v r ∈ cs := by
  have := Rig.C05.mem_of_lookup h
  exact mem_endpoints.1 (List.mem_reverse.1 this)

theorem mem_devLinks {pb : Problem} {p : Rig.C02.Placement} {v r : Nat} {c : Chip}
    (he : endpointOf pb.cs v = some r) (hr : r < 6) (hc : chipOf p v = some c) : (c, r) ∈ devLinks pb p := by
  simp only [devLinks, List.mem_filterMap]
  exact ⟨(v, r), mem_endpoints.2 (endpointOf_mem he), by simp [he, hc, hr]⟩

theorem devLinks_mem {pb : Problem} {p : Rig.C02.Placement} {d : Chip × Nat} (h : d ∈ devLinks pb p) :
    ∃ v, endpointOf pb.cs v = some d.2 ∧ chipOf p v = some d.1 ∧ d.2 < 6 := by
  simp only [devLinks, List.mem_filterMap] at h
  obtain ⟨vr, _, h⟩ := h
  split at h
  · rename_i r c he hc
    split at h
    · cases h; exact ⟨vr.1, he, hc, by assumption⟩
    · cases h
  · cases h

/-- what `sinkOf` returns -/
theorem sinkOf_spec {pb : Problem} {p : Rig.C02.Placement} {A : Rig.C05.Alloc} {v : Nat} {s : Sink}
    (h : sinkOf pb p A v = some s) :
    s.v = v ∧ chipOf p v = some s.chip ∧
    (s.kind = 2 → endpointOf pb.cs v = some s.a) ∧
    (s.kind = 1 → endpointOf pb.cs v = none ∧ ∃ sl, coresOf A pb.coreRes v = some sl ∧ s.a = sl.start.toNat ∧ s.b = sl.stop.toNat) ∧
    (s.kind = 0 ∨ s.kind = 1 ∨ s.kind = 2) := by
  unfold sinkOf at h
  split at h
  · cases h
  · rename_i c hc
    split at h
    · rename_i r he
      cases h
      exact ⟨rfl, hc, fun _ => he, fun h => by simp at h, Or.inr (Or.inr rfl)⟩
    · rename_i he
      split at h
      · rename_i sl hs
        cases h
        exact ⟨rfl, hc, fun h => by simp at h, fun _ => ⟨he, sl, hs, rfl, rfl⟩, Or.inr (Or.inl rfl)⟩
      · cases h
        exact ⟨rfl, hc, fun h => by simp at h, fun h => by simp at h, Or.inl rfl⟩

theorem sinksOf_mem {pb : Problem} {p : Rig.C02.Placement} {A : Rig.C05.Alloc} :
    ∀ {vs : List Nat} {ss : List Sink}, sinksOf pb p A vs = some ss → ∀ s ∈ ss, ∃ v ∈ vs, sinkOf pb p A v = some s
  | [], ss, h, s, hs => by simp [sinksOf] at h; subst h; simp at hs
  | v :: r, ss, h, s, hs => by
    simp only [sinksOf] at h
    split at h
    · rename_i s0 ss0 h1 h2
      cases h
      rcases List.mem_cons.1 hs with rfl | hs
      · exact ⟨v, by simp, h1⟩
      · obtain ⟨v', hv', h'⟩ := sinksOf_mem h2 s hs
        exact ⟨v', List.mem_cons_of_mem _ hv', h'⟩
    · cases h

theorem coresOf_flat {A : Rig.C05.Alloc} {coreRes v : Nat} {sl : Rig.C05.Slice}
    (h : coresOf A coreRes v = some sl) : (v, coreRes, sl) ∈ Rig.C05.flat A := by
  simp only [coresOf, Option.bind_eq_some_iff] at h
  obtain ⟨va, h1, h2⟩ := h
  simp only [Rig.C05.flat, List.mem_flatMap, List.mem_map]
  exact ⟨(v, va), Rig.C05.mem_of_lookup h1, (coreRes, sl), Rig.C05.mem_of_lookup h2, rfl⟩

theorem pl05_keys (p : Rig.C02.Placement) (hn : (Rig.C02.keys p).Nodup) : ((pl05 p).map (·.1)).Nodup := by
  induction p with
  | nil => simp [pl05]
  | cons vc rest ih =>
    obtain ⟨v, c⟩ := vc
    simp only [Rig.C02.keys, List.map_cons, List.nodup_cons] at hn
    have ih' := ih hn.2
    cases v with
    | m k => simpa [pl05] using ih'
    | o n =>
      simp only [pl05, List.filterMap_cons, List.map_cons, List.nodup_cons]
      refine ⟨?_, ih'⟩
      intro hm
      apply hn.1
      simp only [List.mem_map, List.mem_filterMap] at hm
      obtain ⟨q, ⟨vc, hvc, hq⟩, rfl⟩ := hm
      obtain ⟨v', c'⟩ := vc
      cases v' with
      | m k => simp at hq
      | o n' =>
        simp only [Option.some.injEq] at hq
        subst hq
        exact List.mem_map.2 ⟨_, hvc, rfl⟩

/-! ### the routing stage and the list plumbing -/

theorem wellFormed05 {pb : Problem} (dom : Domain pb) {p : Rig.C02.Placement} (hn : (Rig.C02.keys p).Nodup) :
    Rig.C05.WellFormed (input05 pb p) where
  placementsNodup := pl05_keys p hn
  vrNodup := dom.vrNodup
  resNodup := dom.resNodup
  demandNonneg := dom.demandNonneg
  alignPos := by
    intro c hc r a e
    subst e
    simp only [input05, List.mem_map] at hc
    obtain ⟨pc, hpc, h⟩ := hc
    cases pc <;> simp [PC.to05] at h
    obtain ⟨rfl, rfl⟩ := h
    exact dom.alignPos _ _ hpc

/-- C02 + domain => the device links are dead links -/
theorem devLinks_dead {pb : Problem} (dom : Domain pb) {p : Rig.C02.Placement}
    (hf : Rig.C02.Feasible (vr02 pb) (cs02 pb) pb.m2 p) :
    ∀ d ∈ devLinks pb p, linkOk (machine3 pb) d.1 d.2 = false := by
  intro d hd
  obtain ⟨v, he, hc, _⟩ := devLinks_mem hd
  obtain ⟨c, hloc, hdead⟩ := dom.endpointDead v d.2 (endpointOf_mem he)
  have : Rig.C02.Constraint.loc (.o v) c ∈ cs02 pb := List.mem_map.2 ⟨_, hloc, rfl⟩
  have := hf.location _ _ this
  simp only [chipOf, this, Option.map_some, Option.some.injEq] at hc
  rw [← hc]; exact hdead

/-- C05 + domain => the facts `pipeline_delivery` needs of every sink -/
theorem sink_facts {pb : Problem} (dom : Domain pb) {p : Rig.C02.Placement} {a : List (Rig.C05.Vertex × List Rig.C05.Entry)}
    (hf : Rig.C02.Feasible (vr02 pb) (cs02 pb) pb.m2 p)
    (ha : Rig.C05.allocate (input05 pb p) = .ok a) {v : Nat} {s : Sink}
    (hs : sinkOf pb p (Rig.C05.strip a) v = some s) :
    chipOk (machine3 pb) s.chip = true ∧ (s.kind = 1 → s.b ≤ 18) ∧
    (s.kind = 2 → s.a < 6 ∧ (s.chip, s.a) ∈ devLinks pb p) := by
  obtain ⟨_, hc, h2, h1, _⟩ := sinkOf_spec hs
  refine ⟨chipOf_ok hf hc, ?_, ?_⟩
  · intro hk
    obtain ⟨_, sl, hsl, _, hb⟩ := h1 hk
    have hv := Rig.C05.alloc_sound _ _ (wellFormed05 dom hf.keysNodup) ha
    have := allocation_bridge (input05 pb p) (Rig.C05.strip a) pb.coreRes hv dom.cores18 _ (coresOf_flat hsl) rfl
    simp only at this
    rw [hb]; omega
  · intro hk
    have he := h2 hk
    have hr := dom.endpointIsLink _ _ (endpointOf_mem he)
    exact ⟨hr, mem_devLinks he hr hc⟩

theorem sameSet_mem {a b : List Chip} (h : sameSet a b = true) {x : Chip} (hx : x ∈ a) : x ∈ b := by
  simp only [sameSet, Bool.and_eq_true, List.all_eq_true, List.contains_iff_mem] at h
  exact h.1 x hx

/-- C03: one net -/
theorem routeOne_spec {pb : Problem} (dom : Domain pb) {p : Rig.C02.Placement} {a : List (Rig.C05.Vertex × List Rig.C05.Entry)}
    (hf : Rig.C02.Feasible (vr02 pb) (cs02 pb) pb.m2 p)
    (ha : Rig.C05.allocate (input05 pb p) = .ok a) {radius : Nat} {n : ANet} {o : NetOracle} {q : PNet}
    (h : routeOne pb p (Rig.C05.strip a) radius n o = .ok q) :
    NetOf pb p (Rig.C05.strip a) n q ∧ chipOk (machine3 pb) q.src = true ∧
    Rig.C03.ValidTree (machine3 pb) q.src q.sinks q.tree := by
  unfold routeOne at h
  split at h
  · rename_i src sinks hsrc hsinks
    split at h
    · cases h
    · rename_i hss
      simp only [Bool.not_eq_true', Bool.not_eq_false] at hss
      have hss' : sameSet o.dests (sinks.map (·.chip)) = true := by
        cases hx : sameSet o.dests (sinks.map (·.chip)) with
        | true => rfl
        | false => simp [hx] at hss
      split at h
      · cases h
      · rename_i r hr
        split at h
        · cases h
        · rename_i t ht
          cases h
          have hsrcok := chipOf_ok hf hsrc
          have hd : ∀ d, d ∈ o.dests → chipOk (machine3 pb) d = true := by
            intro d hd
            obtain ⟨s, hs, rfl⟩ := List.mem_map.1 (sameSet_mem hss' hd)
            obtain ⟨v, _, hv⟩ := sinksOf_mem hsinks s hs
            exact (sink_facts dom hf ha hv).1
          obtain ⟨hroot, tr, htr, hvalid⟩ := Rig.C03.routeNet_valid _ _ _ _ _ _ _ _ hsrcok hd hr
          rw [ht] at htr; cases htr
          exact ⟨⟨rfl, rfl, hsrc, hsinks⟩, hsrcok, hvalid⟩
  · cases h

theorem routeAll_spec {pb : Problem} (dom : Domain pb) {p : Rig.C02.Placement} {a : List (Rig.C05.Vertex × List Rig.C05.Entry)}
    (hf : Rig.C02.Feasible (vr02 pb) (cs02 pb) pb.m2 p)
    (ha : Rig.C05.allocate (input05 pb p) = .ok a) {radius : Nat} :
    ∀ {nets : List ANet} {orc : List NetOracle} {pn : List PNet},
      routeAll pb p (Rig.C05.strip a) radius nets orc = .ok pn →
      List.Forall₂ (fun n q => NetOf pb p (Rig.C05.strip a) n q ∧ chipOk (machine3 pb) q.src = true ∧
        Rig.C03.ValidTree (machine3 pb) q.src q.sinks q.tree) nets pn
  | [], _, pn, h => by simp [routeAll] at h; subst h; exact .nil
  | n :: ns, [], pn, h => by simp [routeAll] at h
  | n :: ns, o :: os, pn, h => by
    simp only [routeAll] at h
    split at h
    · cases h
    · rename_i q hq
      split at h
      · cases h
      · rename_i qs hqs
        cases h
        exact .cons (routeOne_spec dom hf ha hq) (routeAll_spec dom hf ha hqs)

theorem forall₂_right {α β : Type} {R : α → β → Prop} : ∀ {as : List α} {bs : List β},
    List.Forall₂ R as bs → ∀ b ∈ bs, ∃ a ∈ as, R a b
  | _, _, .nil, b, hb => by simp at hb
  | _, _, .cons h t, b, hb => by
    rcases List.mem_cons.1 hb with rfl | hb
    · exact ⟨_, by simp, h⟩
    · obtain ⟨a, ha, hr⟩ := forall₂_right t b hb
      exact ⟨a, List.mem_cons_of_mem _ ha, hr⟩

theorem forall₂_imp_mem {α β : Type} {R S : α → β → Prop} : ∀ {as : List α} {bs : List β},
    List.Forall₂ R as bs → (∀ a b, b ∈ bs → R a b → S a b) → List.Forall₂ S as bs
  | _, _, .nil, _ => .nil
  | _, _, .cons h t, hi =>
    .cons (hi _ _ (by simp) h) (forall₂_imp_mem t (fun a b hb => hi a b (List.mem_cons_of_mem _ hb)))

theorem forall₂_keys {R : ANet → PNet → Prop} (hR : ∀ n q, R n q → q.key = n.key ∧ q.mask = n.mask) :
    ∀ {nets : List ANet} {pn : List PNet}, List.Forall₂ R nets pn →
      nets.Pairwise (fun a b => Rig.C04.intersect a.key a.mask b.key b.mask = false) →
      pn.Pairwise (fun a b => Rig.C04.intersect a.key a.mask b.key b.mask = false)
  | _, _, .nil, _ => List.Pairwise.nil
  | n :: ns, q :: qs, .cons h t, hp => by
    rw [List.pairwise_cons] at hp ⊢
    refine ⟨?_, forall₂_keys hR t hp.2⟩
    intro q' hq'
    obtain ⟨n', hn', hr'⟩ := forall₂_right t q' hq'
    have := hp.1 n' hn'
    rw [(hR _ _ h).1, (hR _ _ h).2, (hR _ _ hr').1, (hR _ _ hr').2]
    exact this

/-! ### the placers' well-formedness from the domain -/

theorem original02 (pb : Problem) : Rig.C02.Original (vr02 pb) (cs02 pb) := by
  refine ⟨fun v hv => ?_, fun c hc => ?_⟩
  · simp only [Rig.C02.keys, vr02, List.map_map, List.mem_map, Function.comp] at hv
    obtain ⟨q, _, rfl⟩ := hv
    trivial
  · simp only [cs02, List.mem_map] at hc
    obtain ⟨pc, _, rfl⟩ := hc
    cases pc with
    | loc v c => trivial
    | same vs =>
      intro v hv
      simp only [List.mem_map] at hv
      obtain ⟨n, _, rfl⟩ := hv
      trivial
    | reserve r s a => trivial
    | align r a => trivial
    | endpoint v r => trivial

theorem dem_resVec_nonneg (nres : Nat) (rs : List (Nat × Int)) (h : ∀ rd ∈ rs, 0 ≤ rd.2) (i : Nat) :
    0 ≤ Rig.C02.dem (resVec nres rs) i := by
  simp only [Rig.C02.dem, resVec, List.getD_eq_getElem?_getD, List.getElem?_map]
  cases hx : (List.range nres)[i]? with
  | none => simp
  | some j =>
    simp only [Option.map_some, Option.getD_some]
    cases hl : rs.lookup j with
    | none => simp
    | some x => simpa using h _ (Rig.C05.mem_of_lookup hl)

/-- the C02 well-formedness of the bridged problem follows from the domain (and non-negative chip resources) -/
theorem wf02 {pb : Problem} (dom : Domain pb) (hc : Rig.C02.NonNegCap pb.m2) :
    Rig.C02.WF (vr02 pb) (cs02 pb) pb.m2 where
  nodup := by
    have : Rig.C02.keys (vr02 pb) = (pb.vr.map (·.1)).map Rig.C02.Vtx.o := by
      simp [Rig.C02.keys, vr02, List.map_map, Function.comp_def]
    rw [this]
    exact List.Nodup.map (fun a b h => by injection h) dom.vrNodup
  original := original02 pb
  nonnegVR := by
    intro v d h i
    simp only [vr02, List.mem_map, Prod.mk.injEq] at h
    obtain ⟨q, hq, _, rfl⟩ := h
    exact dem_resVec_nonneg _ _ (dom.demandNonneg q hq) i
  nonnegCap := hc

end Rig.C01Pipe.L
