/-
C03 - helper lemmas and proofs (a_star).  Core Lean only.
-/
import RigModel.Model.C03
set_option linter.unusedSimpArgs false
set_option linter.unusedVariables false
namespace Rig.C03.L
open Rig.C03 Rig.Gen.C03Links

theorem chipOk_inRange {m : Machine} {c : Chip} (h : chipOk m c = true) : InRange m c := by
  simp only [chipOk, Bool.and_eq_true, decide_eq_true_eq] at h
  exact ⟨h.1.1.1.1, h.1.1.1.2, h.1.1.2, h.1.2⟩

theorem linkOk_chipOk {m : Machine} {c : Chip} {l : Nat} (h : linkOk m c l = true) : chipOk m c = true := by
  simp only [linkOk, Bool.and_eq_true] at h
  exact h.1

theorem emod_back (x a b w : Int) (hab : a + b = 0) (h0 : 0 ≤ x) (h1 : x < w) :
    ((x + a) % w + b) % w = x := by
  rw [Int.emod_add_emod]
  have : x + a + b = x := by omega
  rw [this]
  exact Int.emod_eq_of_lt h0 h1

theorem vec_opp (l : Nat) (hl : l < 6) : vec (opp l) = (-(vec l).1, -(vec l).2) := by
  have : l = 0 ∨ l = 1 ∨ l = 2 ∨ l = 3 ∨ l = 4 ∨ l = 5 := by omega
  rcases this with rfl | rfl | rfl | rfl | rfl | rfl <;> decide

theorem step_back (m : Machine) (c : Chip) (l : Nat) (hl : l < 6) (hc : InRange m c) :
    step m (step m c (opp l)) l = c := by
  obtain ⟨h0, h1, h2, h3⟩ := hc
  unfold step
  rw [vec_opp l hl]
  simp only [wrapC]
  apply Prod.ext
  · exact emod_back _ _ _ _ (by omega) h0 h1
  · exact emod_back _ _ _ _ (by omega) h2 h3

inductive VisInv (m : Machine) (sources : List Chip) (sink : Chip) : Visited → Prop
  | base : VisInv m sources sink [(sink, none)]
  | cons {v : Visited} {n : Chip} {l : Nat} {p : Chip} : VisInv m sources sink v → l < 6 →
      linkOk m n l = true → step m n l = p → sources.contains p = false →
      VisInv m sources sink ((n, some (l, p)) :: v)

theorem look_inv {m : Machine} {sources : List Chip} {sink : Chip} {v : Visited}
    (hv : VisInv m sources sink v) {c : Chip} {l : Nat} {p : Chip}
    (h : v.look c = some (some (l, p))) :
    l < 6 ∧ linkOk m c l = true ∧ step m c l = p ∧ sources.contains p = false := by
  induction hv with
  | base =>
    simp only [Visited.look, List.find?] at h
    split at h <;> simp at h
  | @cons v n l' p' _ hl hk hs hp ih =>
    simp only [Visited.look, List.find?] at h
    split at h
    · rename_i heq
      simp only [Option.map_some, Option.some.injEq, Prod.mk.injEq] at h
      have : n = c := by simpa using heq
      subst this
      obtain ⟨rfl, rfl⟩ := h
      exact ⟨hl, hk, hs, hp⟩
    · exact ih h

theorem expand_inv {m : Machine} {sources : List Chip} {sink : Chip} {heur : Chip → Int} {node : Chip}
    (hnode : InRange m node) (hns : sources.contains node = false) {l : Nat} (hl : l < 6)
    (st : Visited × Heap) (hv : VisInv m sources sink st.1) (hh : ∀ e, e ∈ st.2 → InRange m e.2) :
    VisInv m sources sink (expand m heur node st l).1 ∧
      ∀ e, e ∈ (expand m heur node st l).2 → InRange m e.2 := by
  unfold expand
  dsimp only
  split
  · exact ⟨hv, hh⟩
  · split
    · exact ⟨hv, hh⟩
    · rename_i hk _
      have hk' : linkOk m (step m node (opp l)) l = true := by simpa using hk
      refine ⟨VisInv.cons hv hl hk' (step_back m node l hl hnode) hns, ?_⟩
      intro e he
      simp only [List.mem_cons] at he
      rcases he with rfl | he
      · exact chipOk_inRange (linkOk_chipOk hk')
      · exact hh e he

theorem foldl_expand_inv {m : Machine} {sources : List Chip} {sink : Chip} {heur : Chip → Int} {node : Chip}
    (hnode : InRange m node) (hns : sources.contains node = false) :
    ∀ (ls : List Nat), (∀ l, l ∈ ls → l < 6) → ∀ (st : Visited × Heap), VisInv m sources sink st.1 →
      (∀ e, e ∈ st.2 → InRange m e.2) →
      VisInv m sources sink (ls.foldl (expand m heur node) st).1 ∧
        ∀ e, e ∈ (ls.foldl (expand m heur node) st).2 → InRange m e.2 := by
  intro ls
  induction ls with
  | nil => intro _ st hv hh; exact ⟨hv, hh⟩
  | cons l r ih =>
    intro hls st hv hh
    simp only [List.foldl]
    have := expand_inv (heur := heur) hnode hns (hls l (by simp)) st hv hh
    exact ih (fun l' h' => hls l' (by simp [h'])) _ this.1 this.2

theorem heapMin_mem : ∀ (r : Heap) (best : Int × Chip), heapMin best r = best ∨ heapMin best r ∈ r := by
  intro r
  induction r with
  | nil => intro best; exact Or.inl rfl
  | cons x r ih =>
    intro best
    simp only [heapMin]
    split
    · rcases ih x with h | h
      · exact Or.inr (by simp [h])
      · exact Or.inr (by simp [h])
    · rcases ih best with h | h
      · exact Or.inl h
      · exact Or.inr (by simp [h])

theorem popMin_mem {hp hp' : Heap} {mn : Int × Chip} (h : popMin hp = some (mn, hp')) :
    mn ∈ hp ∧ ∀ e, e ∈ hp' → e ∈ hp := by
  cases hp with
  | nil => simp [popMin] at h
  | cons x r =>
    simp only [popMin, Option.some.injEq, Prod.mk.injEq] at h
    obtain ⟨rfl, rfl⟩ := h
    constructor
    · rcases heapMin_mem r x with h | h
      · simp [h]
      · simp [h]
    · intro e he
      exact List.mem_of_mem_erase he

theorem linkOrder_lt : ∀ l, l ∈ linkOrder → l < 6 := by decide

theorem aStarLoop_inv {m : Machine} {sources : List Chip} {sink : Chip} {heur : Chip → Int} :
    ∀ (fuel : Nat) (v : Visited) (hp : Heap), VisInv m sources sink v → (∀ e, e ∈ hp → InRange m e.2) →
      ∀ s v', aStarLoop m heur sources fuel v hp = .ok (some s, v') →
        sources.contains s = true ∧ VisInv m sources sink v' := by
  intro fuel
  induction fuel with
  | zero =>
    intro v hp hv hh s v' h
    simp only [aStarLoop] at h
    split at h <;> simp [pure, Except.pure] at h
  | succ fuel ih =>
    intro v hp hv hh s v' h
    simp only [aStarLoop] at h
    split at h
    · simp [pure, Except.pure] at h
    · rename_i d node hp' hpop
      have hm := popMin_mem hpop
      split at h
      · rename_i hsrc
        simp only [pure, Except.pure, Except.ok.injEq, Prod.mk.injEq, Option.some.injEq] at h
        obtain ⟨rfl, rfl⟩ := h
        exact ⟨hsrc, hv⟩
      · rename_i hsrc
        have hns : sources.contains node = false := by simpa using hsrc
        have hnode : InRange m node := hh _ hm.1
        have := foldl_expand_inv (heur := heur) hnode hns linkOrder linkOrder_lt (v, hp') hv
          (fun e he => hh e (hm.2 e he))
        exact ih _ _ this.1 this.2 s v' h

theorem reconstruct_ok {m : Machine} {sources : List Chip} {sink : Chip} {v : Visited}
    (hv : VisInv m sources sink v) :
    ∀ (fuel : Nat) (cur : Chip) (d : Nat) (prev : Chip) (r : List (Nat × Chip)),
      v.look cur = some (some (d, prev)) → reconstruct v sink fuel cur = .ok r →
      chainTo m sink ((d, cur) :: r) = true ∧ r.all (fun e => !sources.contains e.2) = true := by
  intro fuel
  induction fuel with
  | zero => intro cur d prev r _ h; simp [reconstruct] at h
  | succ fuel ih =>
    intro cur d prev r hl h
    obtain ⟨h1, h2, h3, h4⟩ := look_inv hv hl
    simp only [reconstruct, hl] at h
    split at h
    · rename_i hps
      simp only [pure, Except.pure, Except.ok.injEq] at h
      subst h
      have : prev = sink := by simpa using hps
      subst this
      simp [chainTo, h1, h2, h3]
    · split at h
      · rename_i d' x hl'
        cases hr : reconstruct v sink fuel prev with
        | error e => simp [hr, bind, Except.bind] at h
        | ok r' =>
          simp only [hr, bind, Except.bind, pure, Except.pure, Except.ok.injEq] at h
          subst h
          have := ih prev d' x r' hl' hr
          refine ⟨?_, ?_⟩
          · simp only [chainTo, Bool.and_eq_true, decide_eq_true_eq, beq_iff_eq]
            exact ⟨⟨⟨h1, h2⟩, h3⟩, this.1⟩
          · rw [List.all_cons, Bool.and_eq_true]
            exact ⟨by simp only [h4, Bool.not_false], this.2⟩
      · simp at h
      · simp at h

/-- **A\* path.** -/
theorem aStar_path (m : Machine) (sink hsrc : Chip) (sources : List Chip) (wrap : Bool)
    (path : List (Nat × Chip)) (hsink : InRange m sink)
    (h : aStar sink hsrc sources m wrap = .ok path) : pathOk m sources sink path = true := by
  unfold aStar at h
  simp only [bind, Except.bind] at h
  split at h
  · simp at h
  · rename_i res hloop
    obtain ⟨sel, v⟩ := res
    simp only at h
    split at h
    · simp at h
    · rename_i s
      have hinv := aStarLoop_inv (m := m) (sources := sources) (sink := sink) _ _ _ VisInv.base
        (by intro e he; simp at he; subst he; exact hsink) s v hloop
      split at h
      · rename_i d x hl
        cases hr : reconstruct v sink v.length s with
        | error e => simp [hr] at h
        | ok r =>
          simp only [hr, pure, Except.pure, Except.ok.injEq] at h
          subst h
          have := reconstruct_ok hinv.2 _ _ _ _ _ hl hr
          simp only [pathOk, this.1, this.2, hinv.1, Bool.and_self]
      · simp at h
      · simp at h
end Rig.C03.L
