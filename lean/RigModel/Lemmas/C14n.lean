/-
C14 - `links()` and `cores()` yield every element exactly once.
-/
import RigModel.Lemmas.C14m
namespace Rig.C14
open Rig.Gen.C14
set_option linter.unusedSimpArgs false
set_option linter.unusedVariables false

theorem tag_nodup {γ : Type} (x y : Nat) (l : List γ) (h : l.Nodup) : (l.map fun c => (x, y, c)).Nodup := by
  unfold List.Nodup
  rw [List.pairwise_map]
  exact List.Pairwise.imp (fun hab heq => hab (Prod.mk.inj (Prod.mk.inj heq).2).2) h

theorem flatMap_tag_nodup {γ : Type} (g : ChipInfo → List γ) (l : List ((Nat × Nat) × ChipInfo))
    (hnd : (l.map (·.1)).Nodup) (hg : ∀ e ∈ l, (g e.2).Nodup) :
    (l.flatMap fun e => (g e.2).map fun c => (e.1.1, e.1.2, c)).Nodup := by
  induction l with
  | nil => simp
  | cons e t ih =>
    simp only [List.map_cons, List.nodup_cons] at hnd
    rw [List.flatMap_cons, List.nodup_append]
    refine ⟨tag_nodup _ _ _ (hg e (by simp)), ih hnd.2 (fun e' he' => hg e' (by simp [he'])), ?_⟩
    intro a ha b hb heq
    subst heq
    obtain ⟨c, _, rfl⟩ := List.mem_map.1 ha
    obtain ⟨e', he', hb'⟩ := List.mem_flatMap.1 hb
    obtain ⟨c', _, heq⟩ := List.mem_map.1 hb'
    have h1 : e'.1.1 = e.1.1 := (Prod.mk.inj heq).1
    have h2 : e'.1.2 = e.1.2 := (Prod.mk.inj (Prod.mk.inj heq).2).1
    have : e'.1 = e.1 := Prod.ext h1 h2
    exact hnd.1 (List.mem_map.2 ⟨e', he', this⟩)

/-- `links()` yields every working link once -/
theorem liveLinks_nodup (si : SysInfo) (hnd : (si.chips.map (·.1)).Nodup)
    (hl : ∀ xy ci, (xy, ci) ∈ si.chips → ci.links.Nodup) : si.liveLinks.Nodup :=
  flatMap_tag_nodup (fun ci => ci.links) si.chips hnd (fun e he => hl e.1 e.2 he)

theorem zipIdx_swap_nodup (l : List Nat) : (l.zipIdx.map fun (sp : Nat × Nat) => (sp.2, sp.1)).Nodup := by
  have h : ((l.zipIdx.map fun (sp : Nat × Nat) => (sp.2, sp.1)).map (·.1)).Nodup := by
    rw [List.map_map]
    have : ((fun (x : Nat × Nat) => x.1) ∘ fun (sp : Nat × Nat) => (sp.2, sp.1)) = (·.2) := rfl
    rw [this, List.zipIdx_map_snd]
    exact List.nodup_range'
  unfold List.Nodup at h ⊢
  rw [List.pairwise_map] at h
  exact List.Pairwise.imp (fun hab heq => hab (by rw [heq])) h

/-- `cores()` yields every (core, state) of every record once -/
theorem cores_nodup (si : SysInfo) (hnd : (si.chips.map (·.1)).Nodup) : si.cores.Nodup := by
  have e : si.cores = si.chips.flatMap fun e =>
      (e.2.coreStates.zipIdx.map fun (sp : Nat × Nat) => (sp.2, sp.1)).map fun c => (e.1.1, e.1.2, c) := by
    simp only [SysInfo.cores, List.map_map]
    rfl
  rw [e]
  exact flatMap_tag_nodup (fun ci => ci.coreStates.zipIdx.map fun (sp : Nat × Nat) => (sp.2, sp.1)) si.chips hnd
    (fun e _ => zipIdx_swap_nodup _)

theorem chipView_links_nodup (st : ChipState) : (chipView st).links.Nodup :=
  List.Nodup.sublist List.filter_sublist List.nodup_range

end Rig.C14
