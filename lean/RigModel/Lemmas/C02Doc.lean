/-
C02 - only the two documented errors: under the documented domain no phase of the placers
raises KeyError / IndexError / ValueError.
-/
import RigModel.Lemmas.C02Complete
import RigModel.Lemmas.C02Merge
set_option linter.unusedSimpArgs false
set_option linter.unusedVariables false

namespace Rig.C02

/-- the constraint mentions known vertices only -/
def CKnown (vr : VR) : Constraint → Prop
  | .loc v _ => v ∈ keys vr
  | .same vs => ∀ v ∈ vs, v ∈ keys vr
  | _ => True

def Known (vr : VR) (cs : List Constraint) : Prop := ∀ c ∈ cs, CKnown vr c

/-! ### apply_same_chip_constraints never fails -/

theorem mem_keys_adel_ne (vr : VR) (v u : Vtx) (hu : u ∈ keys vr) (hne : u ≠ v) : u ∈ keys (adel vr v) := by
  induction vr with
  | nil => simp [keys] at hu
  | cons hd t ih =>
    obtain ⟨k, r⟩ := hd
    simp only [keys, List.map_cons, List.mem_cons] at hu
    by_cases hk : k = v
    · subst hk
      simp only [adel, if_true]
      rcases hu with hu | hu
      · exact absurd hu hne
      · exact hu
    · simp only [adel, hk, if_false, keys, List.map_cons, List.mem_cons]
      rcases hu with hu | hu
      · exact Or.inl hu
      · exact Or.inr (ih hu)

theorem popAll_ok : ∀ (l : List Vtx) (vr : VR) (tot : Res), l.Nodup → (∀ v ∈ l, v ∈ keys vr) →
    ∃ out, popAll vr l tot = .ok out := by
  intro l
  induction l with
  | nil => intro vr tot _ _; exact ⟨_, rfl⟩
  | cons v vs ih =>
    intro vr tot hnd hin
    simp only [List.nodup_cons] at hnd
    have hv := (aget_isSome_iff vr v).2 (hin v (by simp))
    cases hx : aget vr v with
    | none => simp [hx] at hv
    | some r =>
      simp only [popAll, hx]
      apply ih _ _ hnd.2
      intro u hu
      exact mem_keys_adel_ne vr v u (hin u (by simp [hu])) (fun e => hnd.1 (e ▸ hu))

theorem popAll_keep : ∀ (l : List Vtx) (vr : VR) (tot : Res) (vr1 : VR) (tot1 : Res),
    popAll vr l tot = .ok (vr1, tot1) → ∀ u ∈ keys vr, u ∉ l → u ∈ keys vr1 := by
  intro l
  induction l with
  | nil => intro vr tot vr1 tot1 h u hu _; simp [popAll] at h; rw [← h.1]; exact hu
  | cons v vs ih =>
    intro vr tot vr1 tot1 h u hu hnl
    simp only [List.mem_cons, not_or] at hnl
    simp only [popAll] at h
    split at h
    · simp at h
    · exact ih _ _ _ _ h u (mem_keys_adel_ne vr v u hu hnl.1) hnl.2

theorem known_rewrite {vr vr1 : VR} {cs : List Constraint} {vs : List Vtx} {mv : Vtx} {tot : Res}
    (hk : Known vr cs) (hkeep : ∀ u ∈ keys vr, u ∉ vs → u ∈ keys vr1) :
    Known (vr1 ++ [(mv, tot)]) (cs.map (rewrite mv vs)) := by
  have hkeys : ∀ u, u ∈ keys (vr1 ++ [(mv, tot)]) ↔ u ∈ keys vr1 ∨ u = mv := by
    intro u; simp [keys]
  have hsub : ∀ w, w ∈ keys vr → substV mv vs w ∈ keys (vr1 ++ [(mv, tot)]) := by
    intro w hw
    rw [hkeys]
    unfold substV
    split
    · exact Or.inr rfl
    · rename_i hn; exact Or.inl (hkeep w hw hn)
  intro c hc
  simp only [List.mem_map] at hc
  obtain ⟨c0, hc0, rfl⟩ := hc
  have := hk c0 hc0
  cases c0 with
  | loc v c => exact hsub v this
  | same ws =>
    intro u hu
    simp only [List.mem_map] at hu
    obtain ⟨w, hw, rfl⟩ := hu
    exact hsub w (this w hw)
  | reserve r a c => trivial
  | endpoint v => trivial
  | other => trivial

theorem reserve_mem_rewrite {cs : List Constraint} {vs : List Vtx} {mv : Vtx} {r : Nat} {a : Int}
    {c : Option Chip} (h : Constraint.reserve r a c ∈ cs.map (rewrite mv vs)) : Constraint.reserve r a c ∈ cs := by
  simp only [List.mem_map] at h
  obtain ⟨c0, hc0, e⟩ := h
  cases c0 <;> simp [rewrite] at e
  obtain ⟨rfl, rfl, rfl⟩ := e
  exact hc0

theorem applySameLoop_dom : ∀ (n i : Nat) (vr : VR) (cs : List Constraint) (subs : List (List Vtx)),
    Known vr cs →
    (∃ out, applySameLoop n i vr cs subs = .ok out) ∧
    ∀ vrf csf subsf, applySameLoop n i vr cs subs = .ok (vrf, csf, subsf) →
      Known vrf csf ∧ ∀ r a c, Constraint.reserve r a c ∈ csf → Constraint.reserve r a c ∈ cs := by
  intro n
  induction n with
  | zero =>
    intro i vr cs subs hk
    refine ⟨⟨_, rfl⟩, fun vrf csf subsf h => ?_⟩
    simp [applySameLoop] at h
    obtain ⟨rfl, rfl, rfl⟩ := h
    exact ⟨hk, fun r a c h => h⟩
  | succ n ih =>
    intro i vr cs subs hk
    simp only [applySameLoop]
    split
    · rename_i vs hget
      split
      · exact ih _ _ _ _ hk
      · have hmem : Constraint.same vs ∈ cs := List.mem_of_getElem? hget
        have hin : ∀ v ∈ dedup vs, v ∈ keys vr := fun v hv => hk _ hmem v ((mem_dedup vs v).1 hv)
        obtain ⟨out, hout⟩ := popAll_ok (dedup vs) vr [] (nodup_dedup vs) hin
        obtain ⟨vr1, tot⟩ := out
        simp only [hout]
        have hk' := known_rewrite (mv := Vtx.m subs.length) (tot := tot) hk
          (fun u hu hn => popAll_keep _ _ _ _ _ hout u hu (fun h => hn ((mem_dedup vs u).1 h)))
        obtain ⟨i1, i2⟩ := ih (i + 1) _ _ (subs ++ [vs]) hk'
        refine ⟨i1, fun vrf csf subsf h => ?_⟩
        obtain ⟨j1, j2⟩ := i2 _ _ _ h
        exact ⟨j1, fun r a c h => reserve_mem_rewrite (j2 r a c h)⟩
    · exact ih _ _ _ _ hk

/-! ### the constraint loop -/

/-- every chip description (also one recorded for a dead chip) lists the machine's `n` resources -/
structure MDom (m : Machine) (n : Nat) : Prop where
  res : m.res.length = n
  exc : ∀ e ∈ m.exc, e.2.length = n

theorem mem_aset {α β : Type} [DecidableEq α] (l : List (α × β)) (a : α) (b : β) :
    ∀ e ∈ aset l a b, e = (a, b) ∨ e ∈ l := by
  induction l with
  | nil => intro e he; simp [aset] at he; exact Or.inl he
  | cons hd t ih =>
    obtain ⟨k, v⟩ := hd
    intro e he
    simp only [aset] at he
    split at he
    · simp only [List.mem_cons] at he
      rcases he with he | he
      · exact Or.inl he
      · exact Or.inr (List.mem_cons_of_mem _ he)
    · simp only [List.mem_cons] at he
      rcases he with he | he
      · exact Or.inr (by simp [he])
      · rcases ih e he with h | h
        · exact Or.inl h
        · exact Or.inr (List.mem_cons_of_mem _ h)

theorem cap_length {m : Machine} {n : Nat} (D : MDom m n) (c : Chip) : (cap m c).length = n := by
  unfold cap
  cases hx : aget m.exc c with
  | none => exact D.res
  | some r => exact D.exc _ (aget_some_mem hx)

theorem MDom.set {m m' : Machine} {n : Nat} {c : Chip} {r : Res} (D : MDom m n) (hr : r.length = n)
    (h : m.set c r = some m') : MDom m' n ∧ ∀ c', m'.ok c' = m.ok c' := by
  unfold Machine.set at h
  split at h
  · rename_i hok
    injection h with h; subst h
    have hokeq : ∀ c', ({ m with exc := aset m.exc c r } : Machine).ok c' = m.ok c' := fun _ => rfl
    refine ⟨⟨D.res, fun e he => ?_⟩, hokeq⟩
    rcases mem_aset _ _ _ e he with rfl | he
    · exact hr
    · exact D.exc e he
  · simp at h

theorem decr_ok : ∀ (a : Res) (r : Nat) (x : Int), r < a.length → ∃ a', decr a r x = some a' := by
  intro a
  induction a with
  | nil => intro r x h; simp at h
  | cons y ys ih =>
    intro r x h
    cases r with
    | zero => exact ⟨_, rfl⟩
    | succ k =>
      obtain ⟨b, hb⟩ := ih k x (by simpa using h)
      exact ⟨y :: b, by simp [decr, hb]⟩

theorem reserveExc_doc (m : Machine) (r : Nat) (amt : Int) :
    ∀ (rest done : List (Chip × Res)) (e : Err), (∀ x ∈ rest, r < x.2.length) →
      reserveExc m r amt done rest = .error e → e = .insufficient := by
  intro rest
  induction rest with
  | nil => intro done e _ h; simp [reserveExc] at h
  | cons hd t ih =>
    obtain ⟨c, res⟩ := hd
    intro done e hx h
    have h1 := hx (c, res) (by simp)
    obtain ⟨res', hres'⟩ := decr_ok res r amt h1
    simp only [reserveExc, hres'] at h
    split at h
    · injection h with h; exact h.symm
    · exact ih _ _ (fun x hx' => hx x (List.mem_cons_of_mem _ hx')) h

theorem excRel_dom {m : Machine} {r : Nat} {amt : Int} {l l' : List (Chip × Res)} (f : ExcRel m r amt l l') :
    ∀ b ∈ l', ∃ a ∈ l, b.1 = a.1 ∧ b.2.length = a.2.length := by
  induction f with
  | nil => intro b hb; simp at hb
  | @cons a b l1 l2 hab _ ih =>
    intro x hx
    simp only [List.mem_cons] at hx
    rcases hx with rfl | hx
    · exact ⟨a, by simp, hab.1, (decr_some hab.2.1).1⟩
    · obtain ⟨y, hy, h1, h2⟩ := ih x hx
      exact ⟨y, List.mem_cons_of_mem _ hy, h1, h2⟩

theorem applyReserve_doc {m : Machine} {n : Nat} (D : MDom m n) {r : Nat} {amt : Int} {at_ : Option Chip}
    (hr : r < n) (hat : ∀ c, at_ = some c → m.ok c = true) :
    (∀ e, applyReserve m r amt at_ = .error e → e = .insufficient) ∧
    ∀ m', applyReserve m r amt at_ = .ok m' → MDom m' n ∧ ∀ c', m'.ok c' = m.ok c' := by
  cases at_ with
  | none =>
    obtain ⟨res', hres'⟩ := decr_ok m.res r amt (by rw [D.res]; exact hr)
    simp only [applyReserve, hres']
    split
    · exact ⟨fun e h => by injection h with h; exact h.symm, fun m' h => by simp at h⟩
    · simp only [bind, Except.bind, pure, Except.pure]
      cases hx : reserveExc m r amt [] m.exc with
      | error e' =>
        refine ⟨fun e h => ?_, fun m' h => by simp at h⟩
        injection h with h; subst h
        exact reserveExc_doc m r amt _ _ _ (fun x hx' => by rw [D.exc x hx']; exact hr) hx
      | ok exc' =>
        refine ⟨fun e h => by simp at h, fun m' h => ?_⟩
        injection h with h; subst h
        obtain ⟨rest', e1, f⟩ := reserveExc_spec m r amt _ _ _ hx
        simp at e1; subst e1
        have hokeq : ∀ c', ({ m with res := res', exc := exc' } : Machine).ok c' = m.ok c' := fun _ => rfl
        refine ⟨⟨?_, fun b hb => ?_⟩, hokeq⟩
        · show res'.length = n
          rw [(decr_some hres').1]; exact D.res
        · obtain ⟨a, ha, h1, h2⟩ := excRel_dom f b hb
          rw [h2]; exact D.exc a ha
  | some c =>
    have hok := hat c rfl
    have hget : m.get c = some (cap m c) := by simp [Machine.get, hok, cap]
    obtain ⟨res', hres'⟩ := decr_ok (cap m c) r amt (by rw [cap_length D]; exact hr)
    have hset : m.set c res' = some { m with exc := aset m.exc c res' } := by simp [Machine.set, hok]
    simp only [applyReserve, hget, hres', hset]
    split
    · exact ⟨fun e h => by injection h with h; exact h.symm, fun m' h => by simp at h⟩
    · refine ⟨fun e h => by simp at h, fun m' h => ?_⟩
      injection h with h; subst h
      exact D.set (by rw [(decr_some hres').1, cap_length D]) hset

theorem prepareLoop_doc {vr : VR} {n : Nat} : ∀ (cs : List Constraint) (m : Machine) (p : Placement),
    Known vr cs → MDom m n →
    (∀ r a at_, Constraint.reserve r a at_ ∈ cs → r < n ∧ ∀ c, at_ = some c → m.ok c = true) →
    ∀ e, prepareLoop vr cs m p = .error e → e = .insufficient ∨ e = .invalidConstraint := by
  intro cs
  induction cs with
  | nil => intro m p _ _ _ e h; simp [prepareLoop] at h
  | cons k cs ih =>
    intro m p hk D hres e h
    have hk' : Known vr cs := fun c hc => hk c (List.mem_cons_of_mem _ hc)
    have hres' : ∀ m' : Machine, (∀ c', m'.ok c' = m.ok c') →
        ∀ r a at_, Constraint.reserve r a at_ ∈ cs → r < n ∧ ∀ c, at_ = some c → m'.ok c = true := by
      intro m' hok r a at_ hmem
      obtain ⟨h1, h2⟩ := hres r a at_ (List.mem_cons_of_mem _ hmem)
      exact ⟨h1, fun c hc => by rw [hok]; exact h2 c hc⟩
    cases k with
    | loc v c =>
      simp only [prepareLoop] at h
      split at h
      · injection h with h; exact Or.inr h.symm
      · rename_i hok
        have hok' : m.ok c = true := by simpa using hok
        have hv := (aget_isSome_iff vr v).2 (hk (.loc v c) (by simp))
        cases hx : aget vr v with
        | none => simp [hx] at hv
        | some d =>
          have hget : m.get c = some (cap m c) := by simp [Machine.get, hok', cap]
          have hset : m.set c (sub (cap m c) d) = some { m with exc := aset m.exc c (sub (cap m c) d) } := by
            simp [Machine.set, hok']
          simp only [hx, hget, hset] at h
          split at h
          · injection h with h; exact Or.inl h.symm
          · obtain ⟨D', hok2⟩ := D.set (by rw [sub_length, cap_length D]) hset
            exact ih _ _ hk' D' (hres' _ hok2) e h
    | reserve r amt at_ =>
      obtain ⟨h1, h2⟩ := hres r amt at_ (by simp)
      obtain ⟨d1, d2⟩ := applyReserve_doc D (amt := amt) h1 h2
      simp only [prepareLoop, bind, Except.bind] at h
      split at h
      · rename_i e' he'
        injection h with h; subst h
        exact Or.inl (d1 _ he')
      · rename_i m1 hm1
        obtain ⟨D', hok2⟩ := d2 _ hm1
        exact ih _ _ hk' D' (hres' _ hok2) e h
    | same vs => simp only [prepareLoop] at h; exact ih _ _ hk' D (hres' _ (fun _ => rfl)) e h
    | endpoint v => simp only [prepareLoop] at h; exact ih _ _ hk' D (hres' _ (fun _ => rfl)) e h
    | other => simp only [prepareLoop] at h; exact ih _ _ hk' D (hres' _ (fun _ => rfl)) e h

/-! ### the placement loops -/

theorem get_of_ok {m : Machine} {c : Chip} (h : m.ok c = true) : m.get c = some (cap m c) := by
  simp [Machine.get, h, cap]

theorem set_of_ok {m : Machine} {c : Chip} (r : Res) (h : m.ok c = true) :
    m.set c r = some { m with exc := aset m.exc c r } := by
  simp [Machine.set, h]

theorem seqLoop_doc (vr : VR) (chips : List Chip) (hne : chips ≠ []) :
    ∀ (vs : List Vtx) (pos : Nat) (m : Machine) (p : Placement) (e : Err),
      (∀ v ∈ vs, v ∈ keys vr) → (∀ c ∈ chips, m.ok c = true) →
      seqLoop vr chips vs pos m p = .error e → e = .insufficient := by
  have hn : 0 < chips.length := List.length_pos_iff.2 hne
  intro vs
  induction vs with
  | nil => intro pos m p e _ _ h; simp [seqLoop] at h
  | cons v vs ih =>
    intro pos m p e hin hok h
    have hin' : ∀ u ∈ vs, u ∈ keys vr := fun u hu => hin u (by simp [hu])
    simp only [seqLoop] at h
    split at h
    · exact ih _ _ _ _ hin' hok h
    · have hv := (aget_isSome_iff vr v).2 (hin v (by simp))
      cases hx : aget vr v with
      | none => simp [hx] at hv
      | some d =>
        simp only [hx] at h
        have hget : ∀ q, m.get (chipAt chips q) ≠ none := by
          intro q; simp [Machine.get, hok _ (chipAt_mem chips q hn)]
        split at h
        · rename_i e' hsc
          injection h with h; subst h
          rcases scan_fail_cases chips m d _ hget _ _ _ hsc with rfl | rfl
          · exact absurd hsc (scan_terminates chips hne m d pos)
          · rfl
        · rename_i pos' c r hsc
          obtain ⟨cur, hg, _, _⟩ := scan_placed _ _ hsc
          obtain ⟨hokc, _⟩ := Machine.get_some hg
          simp only [set_of_ok r hokc] at h
          refine ih _ _ _ _ hin' ?_ h
          exact fun c' hc' => hok c' hc'

theorem randLoop_doc (vr : VR) :
    ∀ (picks : List Chip) (vs : List Vtx) (locs : List Chip) (m : Machine) (p : Placement) (e : Err),
      (∀ v ∈ vs, v ∈ keys vr) → (∀ c ∈ locs, m.ok c = true) →
      randLoop vr picks vs locs m p = .error e → e = .insufficient ∨ e = .badOracle := by
  intro picks
  induction picks with
  | nil =>
    intro vs locs m p e _ _ h
    cases vs with
    | nil => simp [randLoop] at h
    | cons v vs =>
      cases locs with
      | nil => simp [randLoop] at h; exact Or.inl h.symm
      | cons c t => simp [randLoop] at h; exact Or.inr h.symm
  | cons pick picks ih =>
    intro vs locs m p e hin hok h
    cases vs with
    | nil => simp [randLoop] at h
    | cons v vs =>
      simp only [randLoop] at h
      split at h
      · injection h with h; exact Or.inl h.symm
      · split at h
        · injection h with h; exact Or.inr h.symm
        · rename_i hpick
          have hpick' : pick ∈ locs := by simpa using hpick
          have hv := (aget_isSome_iff vr v).2 (hin v (by simp))
          cases hx : aget vr v with
          | none => simp [hx] at hv
          | some d =>
            have hokp := hok pick hpick'
            simp only [hx, get_of_ok hokp] at h
            split at h
            · exact ih _ _ _ _ _ hin (fun c hc => hok c (List.mem_of_mem_erase hc)) h
            · simp only [set_of_ok _ hokp] at h
              refine ih _ _ _ _ _ (fun u hu => hin u (List.mem_cons_of_mem _ hu)) ?_ h
              exact fun c hc => hok c hc

theorem advance_doc {m : Machine} {d : Res} :
    ∀ (locs : List Chip) (cur : Chip), m.ok cur = true → (∀ c ∈ locs, m.ok c = true) →
      (∀ e, advance m d cur locs ≠ .fail e) ∧
      ∀ c rest r, advance m d cur locs = .found c rest r → m.ok c = true ∧ ∀ x ∈ rest, x ∈ locs := by
  intro locs
  induction locs with
  | nil =>
    intro cur hc _
    simp only [advance, get_of_ok hc]
    split
    · exact ⟨fun e h => by simp at h, fun c rest r h => by simp at h⟩
    · refine ⟨fun e h => by simp at h, fun c rest r h => ?_⟩
      injection h with h1 h2 h3; subst h1; subst h2
      exact ⟨hc, fun x hx => hx⟩
  | cons l ls ih =>
    intro cur hc hl
    simp only [advance, get_of_ok hc]
    split
    · obtain ⟨i1, i2⟩ := ih l (hl l (by simp)) (fun c hc' => hl c (by simp [hc']))
      refine ⟨i1, fun c rest r h => ?_⟩
      obtain ⟨j1, j2⟩ := i2 c rest r h
      exact ⟨j1, fun x hx => List.mem_cons_of_mem _ (j2 x hx)⟩
    · refine ⟨fun e h => by simp at h, fun c rest r h => ?_⟩
      injection h with h1 h2 h3; subst h1; subst h2
      exact ⟨hc, fun x hx => hx⟩

theorem initLoop_doc (vr : VR) :
    ∀ (vs : List Vtx) (cur : Chip) (locs : List Chip) (m : Machine) (p : Placement) (e : Err),
      (∀ v ∈ vs, v ∈ keys vr) → m.ok cur = true → (∀ c ∈ locs, m.ok c = true) →
      initLoop vr vs cur locs m p = .error e → e = .insufficient := by
  intro vs
  induction vs with
  | nil => intro cur locs m p e _ _ _ h; simp [initLoop] at h
  | cons v vs ih =>
    intro cur locs m p e hin hc hl h
    have hv := (aget_isSome_iff vr v).2 (hin v (by simp))
    cases hx : aget vr v with
    | none => simp [hx] at hv
    | some d =>
      obtain ⟨a1, a2⟩ := advance_doc (m := m) (d := d) locs cur hc hl
      simp only [initLoop, hx] at h
      split at h
      · rename_i e' he'; exact absurd he' (a1 e')
      · injection h with h; exact h.symm
      · rename_i c locs' r hadv
        obtain ⟨b1, b2⟩ := a2 _ _ _ hadv
        simp only [set_of_ok r b1] at h
        refine ih _ _ _ _ _ (fun u hu => hin u (List.mem_cons_of_mem _ hu)) ?_ ?_ h
        · exact b1
        · exact fun x hx => hl x (b2 x hx)

end Rig.C02
