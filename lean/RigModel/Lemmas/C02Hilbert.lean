/-
C02 - the Hilbert curve generator of hilbert.py visits every point of the 2^L x 2^L square
exactly once (for every level L).
-/
import RigModel.Lemmas.C02Complete2
set_option linter.unusedSimpArgs false
set_option linter.unusedVariables false

namespace Rig.C02

/-- unit vector along an axis -/
def Dir (dx dy : Int) : Prop :=
  (dx = 1 ∧ dy = 0) ∨ (dx = -1 ∧ dy = 0) ∨ (dx = 0 ∧ dy = 1) ∨ (dx = 0 ∧ dy = -1)

def Ang (a : Int) : Prop := a = 1 ∨ a = -1

theorem Ang.neg {a : Int} (h : Ang a) : Ang (-a) := by
  rcases h with rfl | rfl
  · exact Or.inr rfl
  · exact Or.inl (by decide)

theorem Dir.left {dx dy a : Int} (h : Dir dx dy) (ha : Ang a) : Dir (dy * -a) (dx * a) := by
  rcases ha with rfl | rfl <;> rcases h with ⟨rfl, rfl⟩ | ⟨rfl, rfl⟩ | ⟨rfl, rfl⟩ | ⟨rfl, rfl⟩ <;>
    simp [Dir]

theorem Dir.right {dx dy a : Int} (h : Dir dx dy) (ha : Ang a) : Dir (dy * a) (dx * -a) := by
  rcases ha with rfl | rfl <;> rcases h with ⟨rfl, rfl⟩ | ⟨rfl, rfl⟩ | ⟨rfl, rfl⟩ | ⟨rfl, rfl⟩ <;>
    simp [Dir]

/-- the square of side `K` with corner `(x, y)` spanned by the heading `(dx, dy)` and the direction
`(dy * -a, dx * a)` to its left (`a = 1`) / right (`a = -1`) -/
def InSq (x y dx dy a K : Int) (q : Int × Int) : Prop :=
  0 ≤ (q.1 - x) * dx + (q.2 - y) * dy ∧ (q.1 - x) * dx + (q.2 - y) * dy < K ∧
  0 ≤ (q.1 - x) * (dy * -a) + (q.2 - y) * (dx * a) ∧ (q.1 - x) * (dy * -a) + (q.2 - y) * (dx * a) < K

theorem hilbertGen_succ (n : Nat) (a : Int) (x y dx dy : Int) :
    hilbertGen (n + 1) a ⟨x, y, dx, dy⟩ =
      let r1 := hilbertGen n (-a) ⟨x, y, dy * -a, dx * a⟩
      let r2 := hilbertGen n a ⟨r1.2.x + r1.2.dx, r1.2.y + r1.2.dy, r1.2.dy * a, r1.2.dx * -a⟩
      let r3 := hilbertGen n a ⟨r2.2.x + r2.2.dx, r2.2.y + r2.2.dy, r2.2.dx, r2.2.dy⟩
      let r4 := hilbertGen n (-a) ⟨r3.2.x + r3.2.dy * a, r3.2.y + r3.2.dx * -a, r3.2.dy * a, r3.2.dx * -a⟩
      (r1.1 ++ (r1.2.x + r1.2.dx, r1.2.y + r1.2.dy) :: r2.1 ++ (r2.2.x + r2.2.dx, r2.2.y + r2.2.dy) :: r3.1 ++
          (r3.2.x + r3.2.dy * a, r3.2.y + r3.2.dx * -a) :: r4.1,
        ⟨r4.2.x, r4.2.y, r4.2.dy * -a, r4.2.dx * a⟩) := rfl

theorem two_pow_pos (n : Nat) : (1 : Int) ≤ 2 ^ n := by
  induction n with
  | zero => simp
  | succ k ih => rw [Int.pow_succ]; omega

/-- what one call of the generator does -/
structure GenSpec (n : Nat) (a x y dx dy : Int) (r : List (Int × Int) × HS) : Prop where
  fx : r.2.x = x + (2 ^ n - 1) * dx
  fy : r.2.y = y + (2 ^ n - 1) * dy
  fdx : r.2.dx = dx
  fdy : r.2.dy = dy
  nodup : ((x, y) :: r.1).Nodup
  mem : ∀ q, q ∈ (x, y) :: r.1 ↔ InSq x y dx dy a (2 ^ n) q

theorem nodup_append4 {α : Type} {A B C D : List α} (hA : A.Nodup) (hB : B.Nodup) (hC : C.Nodup)
    (hD : D.Nodup) (hAB : ∀ u, u ∈ A → u ∉ B) (hAC : ∀ u, u ∈ A → u ∉ C) (hAD : ∀ u, u ∈ A → u ∉ D)
    (hBC : ∀ u, u ∈ B → u ∉ C) (hBD : ∀ u, u ∈ B → u ∉ D) (hCD : ∀ u, u ∈ C → u ∉ D) :
    (A ++ (B ++ (C ++ D))).Nodup := by
  rw [List.nodup_append]
  refine ⟨hA, ?_, ?_⟩
  · rw [List.nodup_append]
    refine ⟨hB, ?_, ?_⟩
    · rw [List.nodup_append]
      exact ⟨hC, hD, fun u hu v hv e => hCD u hu (e ▸ hv)⟩
    · intro u hu v hv e
      subst e
      rcases List.mem_append.1 hv with h | h
      · exact hBC u hu h
      · exact hBD u hu h
  · intro u hu v hv e
    subst e
    rcases List.mem_append.1 hv with h | h
    · exact hAB u hu h
    · rcases List.mem_append.1 h with h | h
      · exact hAC u hu h
      · exact hAD u hu h

theorem hilbertGen_spec : ∀ (n : Nat) (a x y dx dy : Int), Ang a → Dir dx dy →
    GenSpec n a x y dx dy (hilbertGen n a ⟨x, y, dx, dy⟩) := by
  intro n
  induction n with
  | zero =>
    intro a x y dx dy ha hd
    refine ⟨by simp [hilbertGen], by simp [hilbertGen], rfl, rfl, by simp [hilbertGen], ?_⟩
    intro q
    obtain ⟨qx, qy⟩ := q
    simp only [hilbertGen, List.mem_singleton, Prod.mk.injEq, InSq, Int.pow_zero]
    rcases ha with rfl | rfl <;> rcases hd with ⟨rfl, rfl⟩ | ⟨rfl, rfl⟩ | ⟨rfl, rfl⟩ | ⟨rfl, rfl⟩ <;> omega
  | succ n ih =>
    intro a x y dx dy ha hd
    rw [hilbertGen_succ]
    -- the four recursive calls
    have A := ih (-a) x y (dy * -a) (dx * a) ha.neg (hd.left ha)
    generalize hilbertGen n (-a) ⟨x, y, dy * -a, dx * a⟩ = r1 at A ⊢
    obtain ⟨l1, ⟨x1, y1, dx1, dy1⟩⟩ := r1
    obtain ⟨Ax, Ay, Adx, Ady, And, Amem⟩ := A
    simp only at Ax Ay Adx Ady And Amem
    subst Ax Ay Adx Ady
    simp only
    have B := ih a (x + (2 ^ n - 1) * (dy * -a) + dy * -a) (y + (2 ^ n - 1) * (dx * a) + dx * a)
      (dx * a * a) (dy * -a * -a) ha ((hd.left ha).right ha)
    generalize hilbertGen n a _ = r2 at B ⊢
    obtain ⟨l2, ⟨x2, y2, dx2, dy2⟩⟩ := r2
    obtain ⟨Bx, By, Bdx, Bdy, Bnd, Bmem⟩ := B
    simp only at Bx By Bdx Bdy Bnd Bmem
    subst Bx By Bdx Bdy
    simp only
    have C := ih a (x + (2 ^ n - 1) * (dy * -a) + dy * -a + (2 ^ n - 1) * (dx * a * a) + dx * a * a)
      (y + (2 ^ n - 1) * (dx * a) + dx * a + (2 ^ n - 1) * (dy * -a * -a) + dy * -a * -a)
      (dx * a * a) (dy * -a * -a) ha ((hd.left ha).right ha)
    generalize hilbertGen n a _ = r3 at C ⊢
    obtain ⟨l3, ⟨x3, y3, dx3, dy3⟩⟩ := r3
    obtain ⟨Cx, Cy, Cdx, Cdy, Cnd, Cmem⟩ := C
    simp only at Cx Cy Cdx Cdy Cnd Cmem
    subst Cx Cy Cdx Cdy
    simp only
    have D := ih (-a)
      (x + (2 ^ n - 1) * (dy * -a) + dy * -a + (2 ^ n - 1) * (dx * a * a) + dx * a * a +
        (2 ^ n - 1) * (dx * a * a) + dy * -a * -a * a)
      (y + (2 ^ n - 1) * (dx * a) + dx * a + (2 ^ n - 1) * (dy * -a * -a) + dy * -a * -a +
        (2 ^ n - 1) * (dy * -a * -a) + dx * a * a * -a)
      (dy * -a * -a * a) (dx * a * a * -a) ha.neg (((hd.left ha).right ha).right ha)
    generalize hilbertGen n (-a) _ = r4 at D ⊢
    obtain ⟨l4, ⟨x4, y4, dx4, dy4⟩⟩ := r4
    obtain ⟨Dx, Dy, Ddx, Ddy, Dnd, Dmem⟩ := D
    simp only at Dx Dy Ddx Ddy Dnd Dmem
    subst Dx Dy Ddx Ddy
    simp only
    -- arithmetic, case by case
    have hK := two_pow_pos n
    have hK2 : (2 : Int) ^ (n + 1) = 2 * 2 ^ n := by rw [Int.pow_succ]; omega
    generalize (2 : Int) ^ n = K at *
    have hsplit : ∀ (p1 p2 p3 : Int × Int),
        (x, y) :: (l1 ++ p1 :: l2 ++ p2 :: l3 ++ p3 :: l4) =
          ((x, y) :: l1) ++ ((p1 :: l2) ++ ((p2 :: l3) ++ (p3 :: l4))) := by
      intro p1 p2 p3; simp
    simp only [InSq] at Amem Bmem Cmem Dmem
    refine ⟨?_, ?_, ?_, ?_, ?_, ?_⟩ <;> simp only [hK2]
    · rcases ha with rfl | rfl <;> rcases hd with ⟨rfl, rfl⟩ | ⟨rfl, rfl⟩ | ⟨rfl, rfl⟩ | ⟨rfl, rfl⟩ <;> omega
    · rcases ha with rfl | rfl <;> rcases hd with ⟨rfl, rfl⟩ | ⟨rfl, rfl⟩ | ⟨rfl, rfl⟩ | ⟨rfl, rfl⟩ <;> omega
    · rcases ha with rfl | rfl <;> rcases hd with ⟨rfl, rfl⟩ | ⟨rfl, rfl⟩ | ⟨rfl, rfl⟩ | ⟨rfl, rfl⟩ <;> omega
    · rcases ha with rfl | rfl <;> rcases hd with ⟨rfl, rfl⟩ | ⟨rfl, rfl⟩ | ⟨rfl, rfl⟩ | ⟨rfl, rfl⟩ <;> omega
    · rw [hsplit]
      apply nodup_append4 And Bnd Cnd Dnd
      all_goals
        intro u hu hv
        obtain ⟨ux, uy⟩ := u
        first
          | rw [Amem] at hu
          | rw [Bmem] at hu
          | rw [Cmem] at hu
        first
          | rw [Bmem] at hv
          | rw [Cmem] at hv
          | rw [Dmem] at hv
        simp only at hu hv
        rcases ha with rfl | rfl <;> rcases hd with ⟨rfl, rfl⟩ | ⟨rfl, rfl⟩ | ⟨rfl, rfl⟩ | ⟨rfl, rfl⟩ <;> omega
    · intro q
      rw [hsplit]
      simp only [List.mem_append]
      rw [Amem, Bmem, Cmem, Dmem]
      obtain ⟨qx, qy⟩ := q
      simp only [InSq]
      rcases ha with rfl | rfl <;> rcases hd with ⟨rfl, rfl⟩ | ⟨rfl, rfl⟩ | ⟨rfl, rfl⟩ | ⟨rfl, rfl⟩ <;> omega

/-! ### `hilbert(level)` and `hilbert_chip_order` -/

theorem hilbertPts_spec (L : Nat) :
    (hilbertPts L).Nodup ∧
    ∀ q : Int × Int, q ∈ hilbertPts L ↔ 0 ≤ q.1 ∧ q.1 < 2 ^ L ∧ 0 ≤ q.2 ∧ q.2 < 2 ^ L := by
  have S := hilbertGen_spec L 1 0 0 1 0 (Or.inl rfl) (Or.inl ⟨rfl, rfl⟩)
  refine ⟨S.nodup, fun q => ?_⟩
  unfold hilbertPts
  rw [S.mem q]
  obtain ⟨qx, qy⟩ := q
  simp only [InSq]
  generalize (2 : Int) ^ L = K
  omega

theorem le_two_pow_clog2 (n : Nat) : n ≤ 2 ^ clog2 n := by
  unfold clog2
  split
  · rename_i h; simp; omega
  · have := Nat.lt_log2_self (n := n - 1)
    omega

theorem hilbertChips_mem (w h : Nat) (c : Chip) :
    c ∈ hilbertChips w h ↔ c.1 < 2 ^ clog2 (max w h) ∧ c.2 < 2 ^ clog2 (max w h) := by
  obtain ⟨cx, cy⟩ := c
  unfold hilbertChips
  generalize clog2 (max w h) = L
  have hp : ((2 ^ L : Nat) : Int) = (2 : Int) ^ L := by rw [Int.natCast_pow]; rfl
  simp only [List.mem_filterMap]
  constructor
  · rintro ⟨q, hq, hf⟩
    obtain ⟨qx, qy⟩ := q
    have := ((hilbertPts_spec L).2 (qx, qy)).1 hq
    simp only at this hf
    split at hf
    · injection hf with hf; injection hf with h1 h2
      subst h1; subst h2
      omega
    · simp at hf
  · rintro ⟨h1, h2⟩
    refine ⟨((cx : Int), (cy : Int)), ((hilbertPts_spec L).2 _).2 ?_, ?_⟩
    · simp only; omega
    · simp

theorem hilbertChips_nodup (w h : Nat) : (hilbertChips w h).Nodup := by
  unfold hilbertChips List.Nodup
  rw [List.pairwise_filterMap]
  apply List.Pairwise.imp _ (hilbertPts_spec (clog2 (max w h))).1
  intro a b hab c hc c' hc' e
  subst e
  obtain ⟨ax, ay⟩ := a
  obtain ⟨bx, yb⟩ := b
  simp only at hc hc'
  split at hc <;> simp at hc
  split at hc' <;> simp at hc'
  apply hab
  rw [← hc] at hc'
  simp only [Prod.mk.injEq] at hc' ⊢
  omega

/-- the Hilbert chip order lists every chip of a `w x h` machine exactly once -/
theorem hilbertChips_cover (w h : Nat) :
    (hilbertChips w h).Nodup ∧ ∀ x y, x < w → y < h → (x, y) ∈ hilbertChips w h := by
  refine ⟨hilbertChips_nodup w h, fun x y hx hy => ?_⟩
  rw [hilbertChips_mem]
  have := le_two_pow_clog2 (max w h)
  simp only
  omega

end Rig.C02
