/-
C08 helper lemmas: the shape of the tree (paths and identifiers), the structural invariant
(every child key is non-empty and names fields of the parent node), sets of tags.
-/
import RigModel.Lemmas.C08Key
set_option linter.unusedSimpArgs false
set_option linter.unusedVariables false

namespace Rig.C08

/-! ### shape: what no update of a `_Field` object changes -/

def shape (es : List Entry) : List (Path × Ident) := es.map fun e => (e.path, e.ident)

theorem mem_shape {es : List Entry} {p : Path} {i : Ident} :
    (p, i) ∈ shape es ↔ ∃ e ∈ es, e.path = p ∧ e.ident = i := by
  simp only [shape, List.mem_map, Prod.mk.injEq]

theorem shape_modifyFirst (pm : Entry → Bool) (f : Field → Field) (es : List Entry) :
    shape (modifyFirst pm f es) = shape es := by
  induction es with
  | nil => rfl
  | cons e es ih =>
    rw [modifyFirst_cons]
    split
    · simp [shape]
    · simp only [shape, List.map_cons] at ih ⊢
      rw [ih]

theorem shape_modifyField (es : List Entry) (i : Ident) (fv : Reqs) (f : Field → Field) :
    shape (modifyField es i fv f) = shape es := shape_modifyFirst _ _ _

/-- an element of a list with the same shape has a counterpart -/
theorem exists_of_shape_eq {es es' : List Entry} (h : shape es' = shape es) {x' : Entry} (hx : x' ∈ es') :
    ∃ x ∈ es, x.path = x'.path ∧ x.ident = x'.ident := by
  have : (x'.path, x'.ident) ∈ shape es := h ▸ mem_shape.mpr ⟨x', hx, rfl, rfl⟩
  exact mem_shape.mp this

/-! ### the structural invariant -/

/-- every key along the path is non-empty and names only fields of the node it leaves -/
def PathOK (sh : List (Path × Ident)) (q : Path) : Prop :=
  ∀ n (h : n < q.length), q[n] ≠ [] ∧ ∀ iv ∈ q[n], (q.take n, iv.1) ∈ sh

/-- **structure of the tree**: a child key is a non-empty tuple of (identifier, value) pairs whose identifiers
are fields of the parent node (so every inner node holds at least one field) -/
def Struct (es : List Entry) : Prop := ∀ pi ∈ shape es, PathOK (shape es) pi.1

theorem PathOK.mono {sh sh' : List (Path × Ident)} {q : Path} (hs : ∀ x ∈ sh, x ∈ sh') (h : PathOK sh q) :
    PathOK sh' q := fun n hn => ⟨(h n hn).1, fun iv hiv => hs _ ((h n hn).2 iv hiv)⟩

theorem pathOK_snoc {sh : List (Path × Ident)} {p : Path} {k : Reqs} (hp : PathOK sh p) (hk : k ≠ [])
    (hin : ∀ iv ∈ k, (p, iv.1) ∈ sh) : PathOK sh (p ++ [k]) := by
  intro n hn
  by_cases h : n < p.length
  · rw [List.getElem_append_left h, List.take_append_of_le_length (by omega)]
    exact hp n h
  · have hn' : n = p.length := by simp at hn; omega
    subst hn'
    simp only [List.getElem_append_right (Nat.le_refl _), Nat.sub_self, List.getElem_cons_zero,
      List.take_left']
    exact ⟨hk, hin⟩

theorem struct_of_shape_eq {es es' : List Entry} (h : shape es' = shape es) (hs : Struct es) : Struct es' := by
  unfold Struct; rw [h]; exact hs

theorem struct_of_mem_iff {es es' : List Entry} (h : ∀ x, x ∈ shape es' ↔ x ∈ shape es) (hs : Struct es) :
    Struct es' := fun pi hpi => (hs pi ((h pi).mp hpi)).mono (fun x hx => (h x).mpr hx)

theorem struct_cons {es : List Entry} {e : Entry} (hs : Struct es) (he : PathOK (shape es) e.path) :
    Struct (e :: es) := by
  intro pi hpi
  have hsub : ∀ x ∈ shape es, x ∈ shape (e :: es) := fun x hx => List.mem_cons_of_mem _ hx
  simp only [shape, List.map_cons, List.mem_cons] at hpi
  rcases hpi with rfl | hpi
  · exact he.mono hsub
  · exact (hs pi hpi).mono hsub

/-- the descent of `_Tree.add_field` only follows keys made of fields of the node it leaves -/
theorem descend_pathOK {es : List Entry} {ident : Ident} : ∀ (fuel : Nat) (p : Path) (rem : Reqs) (q : Path),
    descend es ident fuel p rem = .ok q → PathOK (shape es) p → PathOK (shape es) q := by
  intro fuel
  induction fuel with
  | zero => intro p rem q h; simp [descend] at h
  | succ n ih =>
    intro p rem q h hp
    unfold descend at h
    split at h
    · simp at h
    · split at h
      · simp only [Except.ok.injEq] at h
        exact h ▸ hp
      · simp only at h
        split at h
        · simp at h
        · rename_i hne
          refine ih _ _ q h (pathOK_snoc hp ?_ ?_)
          · intro h0; apply hne; simp [h0]
          · intro iv hiv
            simp only [List.mem_filterMap, Option.map_eq_some_iff] at hiv
            obtain ⟨i, hi, v, _, rfl⟩ := hiv
            simp only [nodeIdents, List.mem_map, List.mem_filter, beq_iff_eq] at hi
            obtain ⟨y, ⟨hy, hyp⟩, hyi⟩ := hi
            exact mem_shape.mpr ⟨y, hy, hyp, hyi⟩

/-- under the structural invariant every requirement of a field names a field that is present with it -/
theorem parent_exists {es : List Entry} (hs : Struct es) (hsc : ∀ e ∈ es, compatible e.reqs e.reqs)
    {e : Entry} (he : e ∈ es) {iv : Ident × Nat} (hiv : iv ∈ e.reqs) :
    ∃ y ∈ es, y.ident = iv.1 ∧ y.enabled e.reqs = true := by
  simp only [Entry.reqs, List.mem_flatten] at hiv
  obtain ⟨k, hk, hivk⟩ := hiv
  obtain ⟨n, hn, rfl⟩ := List.getElem_of_mem hk
  have := (hs (e.path, e.ident) (mem_shape.mpr ⟨e, he, rfl, rfl⟩) n hn).2 iv hivk
  obtain ⟨y, hy, hyp, hyi⟩ := mem_shape.mp this
  refine ⟨y, hy, hyi, ?_⟩
  rw [enabled_iff]
  intro jw hjw
  refine lookup_of_mem_selfCompat (hsc e he) ?_
  simp only [Entry.reqs, hyp, List.mem_flatten] at hjw ⊢
  obtain ⟨k', hk', hjw'⟩ := hjw
  exact ⟨k', List.mem_of_mem_take hk', hjw'⟩

/-! ### sets of tags -/

theorem mem_insertSorted {t x : String} {l : List String} : x ∈ insertSorted t l ↔ x = t ∨ x ∈ l := by
  induction l with
  | nil => simp [insertSorted]
  | cons y ys ih =>
    unfold insertSorted
    split
    · simp
    · split
      · rename_i h
        have : t = y := by simpa using h
        subst this
        simp
      · simp only [List.mem_cons, ih]
        constructor
        · rintro (h | h | h)
          · exact Or.inr (Or.inl h)
          · exact Or.inl h
          · exact Or.inr (Or.inr h)
        · rintro (h | h | h)
          · exact Or.inr (Or.inl h)
          · exact Or.inl h
          · exact Or.inr (Or.inr h)

theorem mem_tagUnion {x : String} {a b : List String} : x ∈ tagUnion a b ↔ x ∈ a ∨ x ∈ b := by
  unfold tagUnion
  induction b generalizing a with
  | nil => simp
  | cons t ts ih =>
    simp only [List.foldl_cons, ih, mem_insertSorted, List.mem_cons]
    constructor
    · rintro ((h | h) | h)
      · exact Or.inr (Or.inl h)
      · exact Or.inl h
      · exact Or.inr (Or.inr h)
    · rintro (h | h | h)
      · exact Or.inl (Or.inr h)
      · exact Or.inl (Or.inl h)
      · exact Or.inr h

/-! ### `modifyFirst` when at most one element matches -/

theorem mem_modifyFirst_exact {pm : Entry → Bool} {f : Field → Field} {es : List Entry}
    (hp : es.Pairwise fun a b => ¬ (pm a = true ∧ pm b = true)) {x' : Entry} (h : x' ∈ modifyFirst pm f es) :
    ∃ x ∈ es, (pm x = true ∧ x' = x.upd f) ∨ (pm x = false ∧ x' = x) := by
  induction es with
  | nil => simp [modifyFirst] at h
  | cons e es ih =>
    rw [List.pairwise_cons] at hp
    rw [modifyFirst_cons] at h
    split at h
    · rename_i hpe
      rcases List.mem_cons.mp h with h | h
      · exact ⟨e, List.mem_cons_self, Or.inl ⟨hpe, h⟩⟩
      · refine ⟨x', List.mem_cons_of_mem _ h, Or.inr ⟨?_, rfl⟩⟩
        have := hp.1 x' h
        cases hx : pm x' with
        | false => rfl
        | true => exact absurd ⟨hpe, hx⟩ this
    · rename_i hpe
      rcases List.mem_cons.mp h with h | h
      · exact ⟨e, List.mem_cons_self, Or.inr ⟨by simpa using hpe, h⟩⟩
      · obtain ⟨x, hx, hr⟩ := ih hp.2 h
        exact ⟨x, List.mem_cons_of_mem _ hx, hr⟩

/-- the element that matches is really updated -/
theorem upd_mem_modifyFirst {pm : Entry → Bool} {f : Field → Field} {es : List Entry}
    (hp : es.Pairwise fun a b => ¬ (pm a = true ∧ pm b = true)) {x : Entry} (hx : x ∈ es) :
    (if pm x then x.upd f else x) ∈ modifyFirst pm f es := by
  induction es with
  | nil => simp at hx
  | cons e es ih =>
    rw [List.pairwise_cons] at hp
    rw [modifyFirst_cons]
    rcases List.mem_cons.mp hx with rfl | hx
    · split <;> exact List.mem_cons_self
    · split
      · rename_i hpe
        have := hp.1 x hx
        cases hpx : pm x with
        | false => simp; exact Or.inr hx
        | true => exact absurd ⟨hpe, hpx⟩ this
      · exact List.mem_cons_of_mem _ (ih hp.2 hx)

/-- among fields that can be present together at most one has a given name -/
theorem unique_pairwise_match {es : List Entry} (hu : SpecUnique es) (i : Ident) (fv : Reqs) :
    es.Pairwise fun a b => ¬ ((a.ident == i && a.enabled fv) = true ∧ (b.ident == i && b.enabled fv) = true) := by
  refine hu.imp ?_
  intro a b hab ⟨ha, hb⟩
  simp only [Bool.and_eq_true, beq_iff_eq] at ha hb
  exact hab (compatible_of_enabled ha.2 hb.2) (ha.1.trans hb.1.symm)

end Rig.C08
