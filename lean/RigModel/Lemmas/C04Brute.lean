/-
C04 - the exhaustive oracle `routeEquivBrute` decides `RouteEquiv`.
-/
import RigModel.Lemmas.C04Apply
set_option linter.unusedSimpArgs false
set_option linter.unusedVariables false

namespace Rig.C04

theorem defaultRoutedB_iff (e : Entry) : defaultRoutedB e = true ↔ DefaultRouted e := by
  simp only [defaultRoutedB, DefaultRouted, List.any_eq_true, List.mem_range, Bool.and_eq_true, beq_iff_eq]

theorem keyOkB_iff (T T' : List Entry) (k : W) : keyOkB T T' k = true ↔ KeyOk T T' k := by
  simp only [keyOkB, KeyOk]
  cases h1 : lookup T k with
  | none => simp
  | some e =>
    cases h2 : lookup T' k with
    | none =>
      simp only [defaultRoutedB_iff]
      constructor
      · intro h e' he'; cases he'; exact Or.inr ⟨by first | rfl | trivial, h⟩
      · intro h
        rcases h e rfl with ⟨e', h3, _⟩ | ⟨_, h3⟩
        · cases h3
        · exact h3
    | some e' =>
      simp only [Bool.and_eq_true, beq_iff_eq]
      constructor
      · intro h x hx; cases hx; exact Or.inl ⟨e', rfl, h.1, h.2⟩
      · intro h
        rcases h e rfl with ⟨x, h3, h4, h5⟩ | ⟨h3, _⟩
        · cases h3; exact ⟨h4, h5⟩
        · cases h3

theorem foldl_or_mask_bit (ms : List Entry) (acc : W) (i : Nat) :
    (ms.foldl (fun a e => a ||| e.mask) acc).getLsbD i = (acc.getLsbD i || ms.any (fun e => e.mask.getLsbD i)) := by
  induction ms generalizing acc with
  | nil => simp
  | cons e r ih => simp [ih, Bool.or_assoc]

/-- keys that agree on every bit some entry looks at are matched by the same entries -/
theorem matches_congr {Ts : List Entry} {k k' : W}
    (h : ∀ i, i < 32 → (Ts.any fun e => e.mask.getLsbD i) = true → k.getLsbD i = k'.getLsbD i)
    {e : Entry} (he : e ∈ Ts) : e.matches k = e.matches k' := by
  have : k &&& e.mask = k' &&& e.mask := by
    apply BitVec.eq_of_getLsbD_eq
    intro i hi
    simp only [BitVec.getLsbD_and]
    cases hm : e.mask.getLsbD i with
    | false => simp
    | true => rw [h i hi (List.any_eq_true.mpr ⟨e, he, hm⟩)]
  simp only [Entry.matches, this]

theorem lookup_congr {T : List Entry} {k k' : W} (h : ∀ e ∈ T, e.matches k = e.matches k') :
    lookup T k = lookup T k' := by
  induction T with
  | nil => rfl
  | cons x r ih =>
    rw [lookup_cons, lookup_cons, h x (by simp), ih (fun e he => h e (by simp [he]))]

theorem getLsbD_bit (b i : Nat) : (1#32 <<< b).getLsbD i = (decide (i < 32) && decide (i = b)) := by
  simp only [BitVec.getLsbD_shiftLeft, BitVec.getLsbD_one]
  by_cases h1 : i < 32 <;> by_cases h2 : i = b <;> simp [h1, h2] <;> omega

theorem set_bit_get (k : W) (b i : Nat) (hi : i < 32) :
    (k ||| (1#32 <<< b)).getLsbD i = (k.getLsbD i || decide (i = b)) := by
  rw [BitVec.getLsbD_or, getLsbD_bit]; simp [hi]

theorem clr_bit_get (k : W) (b i : Nat) (hi : i < 32) :
    (k &&& ~~~(1#32 <<< b)).getLsbD i = (k.getLsbD i && !decide (i = b)) := by
  rw [BitVec.getLsbD_and, BitVec.getLsbD_not, getLsbD_bit]; simp [hi]

theorem mem_keysOver (base : W) (bits : List Nat) (k : W)
    (h : ∀ i, i < 32 → i ∉ bits → k.getLsbD i = base.getLsbD i) : k ∈ keysOver base bits := by
  induction bits generalizing k with
  | nil =>
    simp only [keysOver, List.mem_singleton]
    exact BitVec.eq_of_getLsbD_eq (fun i hi => h i hi (by simp))
  | cons b bs ih =>
    simp only [keysOver, List.mem_flatMap, List.mem_cons, List.not_mem_nil, or_false]
    cases hb : base.getLsbD b with
    | true =>
      refine ⟨k ||| (1#32 <<< b), ?_, ?_⟩
      · apply ih
        intro i hi hnb
        rw [set_bit_get _ _ _ hi]
        by_cases hib : i = b
        · subst hib; simp [hb]
        · simp only [hib, decide_false, Bool.or_false]
          exact h i hi (by simp [hib, hnb])
      · cases hk : k.getLsbD b with
        | false =>
          left
          apply BitVec.eq_of_getLsbD_eq
          intro i hi
          rw [clr_bit_get _ _ _ hi, set_bit_get _ _ _ hi]
          by_cases hib : i = b
          · subst hib; simp [hk]
          · simp [hib]
        | true =>
          right
          apply BitVec.eq_of_getLsbD_eq
          intro i hi
          rw [set_bit_get _ _ _ hi, set_bit_get _ _ _ hi]
          by_cases hib : i = b
          · subst hib; simp [hk]
          · simp [hib]
    | false =>
      refine ⟨k &&& ~~~(1#32 <<< b), ?_, ?_⟩
      · apply ih
        intro i hi hnb
        rw [clr_bit_get _ _ _ hi]
        by_cases hib : i = b
        · subst hib; simp [hb]
        · simp only [hib, decide_false, Bool.not_false, Bool.and_true]
          exact h i hi (by simp [hib, hnb])
      · cases hk : k.getLsbD b with
        | false =>
          left
          apply BitVec.eq_of_getLsbD_eq
          intro i hi
          rw [clr_bit_get _ _ _ hi, clr_bit_get _ _ _ hi]
          by_cases hib : i = b
          · subst hib; simp [hk]
          · simp [hib]
        | true =>
          right
          apply BitVec.eq_of_getLsbD_eq
          intro i hi
          rw [set_bit_get _ _ _ hi, clr_bit_get _ _ _ hi]
          by_cases hib : i = b
          · subst hib; simp [hk]
          · simp [hib]

/-- **routeEquivBrute_iff.** The oracle run by the check on the implementation's tables is
sound and complete for the specification: it returns no failing key exactly when
`RouteEquiv T T'` holds (over all 2^32 keys). -/
theorem routeEquivBrute_none_iff (T T' : List Entry) :
    routeEquivBrute T T' = none ↔ RouteEquiv T T' := by
  constructor
  · intro hb k
    simp only [routeEquivBrute, List.find?_eq_none, Bool.not_eq_true, Bool.not_eq_false'] at hb
    have hb' : ∀ k', k' ∈ keysOver (baseKey (T ++ T')) (varyingBits (T ++ T')) → KeyOk T T' k' :=
      fun k' hk' => (keyOkB_iff T T' k').mp (by simpa using hb k' hk')
    generalize hTs : T ++ T' = Ts at hb'
    have hT : ∀ e ∈ T, e ∈ Ts := fun e he => by rw [← hTs]; simp [he]
    have hT' : ∀ e ∈ T', e ∈ Ts := fun e he => by rw [← hTs]; simp [he]
    -- bits of the four folds
    have bMA : ∀ i, i < 32 → (Ts.foldl (fun a e => a &&& e.mask) (0xffffffff : W)).getLsbD i = Ts.all (fun e => e.mask.getLsbD i) := by
      intro i hi; rw [foldl_and_mask_bit, ff_bit i hi, Bool.true_and]
    have bKA : ∀ i, i < 32 → (Ts.foldl (fun a e => a &&& e.key) (0xffffffff : W)).getLsbD i = Ts.all (fun e => e.key.getLsbD i) := by
      intro i hi; rw [foldl_and_key_bit, ff_bit i hi, Bool.true_and]
    have bMO : ∀ i, (Ts.foldl (fun a e => a ||| e.mask) (0 : W)).getLsbD i = Ts.any (fun e => e.mask.getLsbD i) := by
      intro i; rw [foldl_or_mask_bit]; simp
    have bKO : ∀ i, (Ts.foldl (fun a e => a ||| e.key) (0 : W)).getLsbD i = Ts.any (fun e => e.key.getLsbD i) := by
      intro i; rw [foldl_or_key_bit]; simp
    -- is some fixed position violated by k ?
    by_cases hfix : ∃ i, i < 32 ∧ Ts.all (fun e => e.mask.getLsbD i) = true ∧
        (Ts.all (fun e => e.key.getLsbD i) = Ts.any (fun e => e.key.getLsbD i)) ∧
        k.getLsbD i ≠ Ts.all (fun e => e.key.getLsbD i)
    · -- no entry matches k
      obtain ⟨i, hi, hma, hka, hk⟩ := hfix
      have hno : ∀ e ∈ Ts, e.matches k = false := by
        intro e he
        cases hm : e.matches k with
        | false => rfl
        | true =>
          exfalso
          rw [matches_iff] at hm
          have hbit := congrArg (fun x => x.getLsbD i) hm
          simp only [BitVec.getLsbD_and, (List.all_eq_true.mp hma) e he, Bool.and_true] at hbit
          apply hk
          rw [hbit]
          cases hall : Ts.all (fun e => e.key.getLsbD i) with
          | true => exact (List.all_eq_true.mp hall) e he
          | false =>
            rw [hall] at hka
            cases hek : e.key.getLsbD i with
            | false => rfl
            | true =>
              have : Ts.any (fun e => e.key.getLsbD i) = true := List.any_eq_true.mpr ⟨e, he, hek⟩
              rw [this] at hka; cases hka
      intro o ho
      have := lookup_none_iff.mpr (fun d hd => hno d (hT d hd))
      rw [this] at ho; cases ho
    · -- k agrees with the base on every fixed position: move to the enumerated key
      let V : W := (Ts.foldl (fun a e => a ||| e.mask) (0 : W)) &&&
        ~~~((Ts.foldl (fun a e => a &&& e.mask) (0xffffffff : W)) &&&
          ~~~((Ts.foldl (fun a e => a &&& e.key) (0xffffffff : W)) ^^^ (Ts.foldl (fun a e => a ||| e.key) (0 : W))))
      let k' : W := (k &&& V) ||| (baseKey Ts &&& ~~~V)
      have hVbit : ∀ i, i < 32 → V.getLsbD i =
          (Ts.any (fun e => e.mask.getLsbD i) && !(Ts.all (fun e => e.mask.getLsbD i) &&
            (Ts.all (fun e => e.key.getLsbD i) == Ts.any (fun e => e.key.getLsbD i)))) := by
        intro i hi
        simp only [V, BitVec.getLsbD_and, BitVec.getLsbD_not, BitVec.getLsbD_xor, bMA i hi, bKA i hi, bMO, bKO,
          hi, decide_true, Bool.true_and]
        cases Ts.any (fun e => e.mask.getLsbD i) <;> cases Ts.all (fun e => e.mask.getLsbD i) <;>
          cases Ts.all (fun e => e.key.getLsbD i) <;> cases Ts.any (fun e => e.key.getLsbD i) <;> rfl
      have hmem : k' ∈ keysOver (baseKey Ts) (varyingBits Ts) := by
        apply mem_keysOver
        intro i hi hn
        have hV : V.getLsbD i = false := by
          rw [hVbit i hi]
          simp only [varyingBits, List.mem_filter, List.mem_range, not_and, Bool.not_eq_true] at hn
          have := hn hi
          rw [bMO, bMA i hi, bKA i hi, bKO] at this
          exact this
        simp only [k', BitVec.getLsbD_or, BitVec.getLsbD_and, BitVec.getLsbD_not, hV, hi, decide_true]
        simp
      have hagree : ∀ i, i < 32 → (Ts.any fun e => e.mask.getLsbD i) = true → k.getLsbD i = k'.getLsbD i := by
        intro i hi hany
        simp only [k', BitVec.getLsbD_or, BitVec.getLsbD_and, BitVec.getLsbD_not, hi, decide_true, Bool.true_and]
        cases hV : V.getLsbD i with
        | true => simp
        | false =>
          simp only [Bool.and_false, Bool.not_false, Bool.and_true, Bool.false_or]
          rw [hVbit i hi, hany, Bool.true_and] at hV
          simp only [Bool.not_eq_false', Bool.and_eq_true, beq_iff_eq] at hV
          have hne : Ts.isEmpty = false := by
            cases Ts with
            | nil => simp at hany
            | cons => rfl
          simp only [baseKey, hne, Bool.false_eq_true, if_false, BitVec.getLsbD_and, bMA i hi, bKA i hi, hV.1,
            Bool.true_and]
          by_cases hk : k.getLsbD i = Ts.all (fun e => e.key.getLsbD i)
          · exact hk
          · exact absurd ⟨i, hi, hV.1, hV.2, hk⟩ hfix
      have hl1 : lookup T k = lookup T k' := lookup_congr (fun e he => matches_congr hagree (hT e he))
      have hl2 : lookup T' k = lookup T' k' := lookup_congr (fun e he => matches_congr hagree (hT' e he))
      have := hb' k' hmem
      simp only [KeyOk, hl1, hl2] at this ⊢
      exact this
  · intro h
    simp only [routeEquivBrute, List.find?_eq_none, Bool.not_eq_true, Bool.not_eq_false']
    intro k _
    simpa using (keyOkB_iff T T' k).mpr (h k)

end Rig.C04
