import RigModel.Lemmas.C14d
namespace Rig.C14
open Rig.Gen.C14
set_option linter.unusedSimpArgs false

theorem leVal_le32 (n : Nat) (h : n < 4294967296) : leVal (le32 n) = n := by
  simp only [le32, leVal]; omega

/-- the machine holds the chain `blocks` (in list order) for reads of `size + 16` bytes -/
def ChainIn (rd : Rd) (size : Nat) : List IoBlock → Prop
  | [] => True
  | b :: bs =>
    b.addr ≠ 0 ∧ b.len < 4294967296 ∧ chainNext bs < 4294967296 ∧
    rd b.addr (size + 16) = blockBytes b (chainNext bs) ∧ ChainIn rd size bs

theorem blockBytes_parts (b : IoBlock) (next : Nat) :
    ((blockBytes b next).take 16).length = 16 ∧ (blockBytes b next).take 4 = le32 next ∧
    ((blockBytes b next).drop 12).take 4 = le32 b.len ∧ (blockBytes b next).drop 16 = b.data := by
  simp [blockBytes, le32]

theorem chainNext_cons (b : IoBlock) (bs : List IoBlock) : chainNext (b :: bs) = b.addr := rfl

theorem iobufLoop_spec (rd : Rd) (size : Nat) (blocks : List IoBlock) :
    ∀ (fuel : Nat) (acc : List Nat), ChainIn rd size blocks → blocks.length < fuel →
      iobufLoop rd size fuel (chainNext blocks) acc = .ok (acc ++ chainText blocks) := by
  induction blocks with
  | nil =>
    intro fuel acc _ hf
    cases fuel with
    | zero => omega
    | succ n => simp [iobufLoop, chainNext, chainText]
  | cons b bs ih =>
    intro fuel acc hc hf
    obtain ⟨ha, hl, hn, hrd, hrest⟩ := hc
    cases fuel with
    | zero => simp at hf
    | succ n =>
      obtain ⟨p1, p2, p3, p4⟩ := blockBytes_parts b (chainNext bs)
      simp only [iobufLoop, chainNext_cons, ha, if_false, hrd, p1, p2, p3, p4, ne_eq, not_true,
        leVal_le32 _ hn, leVal_le32 _ hl]
      rw [ih n _ hrest (by simp at hf; omega)]
      simp [chainText, List.append_assoc]

theorem readInt_le32 (rd : Rd) (a v : Nat) (hv : v < 4294967296) (h : rd a 4 = le32 v) : readInt rd a 4 = .ok v := by
  simp only [readInt, h, leVal_le32 v hv]
  simp [le32]

/-- `get_iobuf_bytes` end to end -/
theorem iobufBytes_spec (rd : Rd) (size vbase p fuel : Nat) (blocks : List IoBlock)
    (hs : size < 4294967296) (hvb : vbase < 4294967296)
    (h1 : rd (SV_BASE + SV_IOBUF_SIZE_OFF) SV_IOBUF_SIZE_SIZE = le32 size)
    (h2 : rd (SV_BASE + SV_VCPU_BASE_OFF) SV_VCPU_BASE_SIZE = le32 vbase)
    (h3 : rd (vbase + VCPU_SIZE * p + 88) 4 = le32 (chainNext blocks))
    (hn : chainNext blocks < 4294967296)
    (hc : ChainIn rd size blocks) (hf : blocks.length < fuel) :
    iobufBytes rd p fuel = .ok (chainText blocks) := by
  have e1 := readInt_le32 rd _ size hs h1
  have e2 := readInt_le32 rd _ vbase hvb h2
  have e3 := readInt_le32 rd _ _ hn h3
  have hoff : vcpuFieldOff "iobuf" = some 88 := by decide
  simp only [iobufBytes, vcpuAddr, SV_IOBUF_SIZE_SIZE, SV_VCPU_BASE_SIZE, e1, e2, hoff, bind, Except.bind, pure,
    Except.pure, e3]
  rw [iobufLoop_spec rd size blocks fuel [] hc hf]
  simp

end Rig.C14
