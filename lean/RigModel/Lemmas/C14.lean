/-
C14 - helper lemmas (bit arithmetic, memory reads, P2P column loop) and the long proofs
referenced from RigModel/Props/C14.lean.
-/
import RigModel.Model.C14
set_option linter.unusedSimpArgs false
set_option linter.unusedVariables false

namespace Rig.C14
open Rig.Gen.C14


theorem and_1f (x : Nat) : x &&& 0x1F = x % 32 := Nat.and_two_pow_sub_one_eq_mod x 5
theorem and_ff (x : Nat) : x &&& 0xFF = x % 256 := Nat.and_two_pow_sub_one_eq_mod x 8
theorem and_7ff (x : Nat) : x &&& 0x7FF = x % 2048 := Nat.and_two_pow_sub_one_eq_mod x 11
theorem and_1 (x : Nat) : x &&& 1 = x % 2 := Nat.and_two_pow_sub_one_eq_mod x 1
theorem and_7 (x : Nat) : x &&& 7 = x % 8 := Nat.and_two_pow_sub_one_eq_mod x 3

theorem and_pow_ne_zero (x i : Nat) : (x &&& 2 ^ i != 0) = x.testBit i := by
  cases hb : x.testBit i
  · have : x &&& 2 ^ i = 0 := by
      apply Nat.eq_of_testBit_eq
      intro j
      rw [Nat.testBit_and, Nat.testBit_two_pow, Nat.zero_testBit]
      by_cases hj : i = j
      · subst hj; simp [hb]
      · simp [hj]
    simp [this]
  · have : x &&& 2 ^ i ≠ 0 := by
      intro h0
      have := congrArg (fun v => Nat.testBit v i) h0
      simp [Nat.testBit_and, Nat.testBit_two_pow, hb] at this
    simp [this]

theorem and_bit25 (x : Nat) : (x &&& (1 <<< 25) != 0) = decide (x / 33554432 % 2 = 1) := by
  rw [Nat.one_shiftLeft, and_pow_ne_zero, Nat.testBit_eq_decide_div_mod_eq]

theorem linkBit_le (ls : List Nat) (l : Nat) : linkBit ls l ≤ 1 := by
  unfold linkBit; split <;> omega

theorem linkBit_ne (ls : List Nat) (l : Nat) : (linkBit ls l != 0) = decide (l ∈ ls) := by
  unfold linkBit; split <;> simp [*]

theorem chipinfo_roundtrip_lem (c : ChipState) (h : c.WF) : decodeInfo (infoReply c) = .ok (chipView c) := by
  obtain ⟨hc, hl, hv, hsd, hsr, hr, h0, h1, h2, h3, hx, hy⟩ := h
  have hlen : ¬ (c.states ++ [c.ethY, c.ethX, c.ip0, c.ip1, c.ip2, c.ip3]).length < 24 := by
    simp [hl]
  have htake : (c.states ++ [c.ethY, c.ethX, c.ip0, c.ip1, c.ip2, c.ip3]).take 18 = c.states := by
    rw [← hl]; simp
  have hd18 : (c.states ++ [c.ethY, c.ethX, c.ip0, c.ip1, c.ip2, c.ip3]).drop 18 =
      [c.ethY, c.ethX, c.ip0, c.ip1, c.ip2, c.ip3] := by
    rw [← hl]; simp
  have hd20 : (c.states ++ [c.ethY, c.ethX, c.ip0, c.ip1, c.ip2, c.ip3]).drop 20 =
      [c.ip0, c.ip1, c.ip2, c.ip3] := by
    have : (20 : Nat) = 18 + 2 := rfl
    rw [this, ← List.drop_drop, hd18]; rfl
  have hall : c.states.all validState = true := by
    rw [List.all_eq_true]; exact hv
  have b0 := linkBit_le c.links 0
  have b1 := linkBit_le c.links 1
  have b2 := linkBit_le c.links 2
  have b3 := linkBit_le c.links 3
  have b4 := linkBit_le c.links 4
  have b5 := linkBit_le c.links 5
  have n0 := linkBit_ne c.links 0
  have n1 := linkBit_ne c.links 1
  have n2 := linkBit_ne c.links 2
  have n3 := linkBit_ne c.links 3
  have n4 := linkBit_ne c.links 4
  have n5 := linkBit_ne c.links 5
  simp only [decodeInfo, infoReply, hlen, htake, hd18, hd20, hall, if_false, Bool.not_true,
    and_1f, and_ff, and_7ff, and_1, and_bit25, Nat.shiftRight_eq_div_pow, chipView, LINK_VALUES]
  generalize linkBit c.links 0 = l0 at *
  generalize linkBit c.links 1 = l1 at *
  generalize linkBit c.links 2 = l2 at *
  generalize linkBit c.links 3 = l3 at *
  generalize linkBit c.links 4 = l4 at *
  generalize linkBit c.links 5 = l5 at *
  have hrange : List.range 6 = [0, 1, 2, 3, 4, 5] := by decide
  generalize hA : (c.cores + 256 * l0 + 512 * l1 + 1024 * l2 + 2048 * l3 + 4096 * l4 + 8192 * l5 + 16384 * c.rtr +
                if c.ethUp = true then 33554432 else 0) = A
  have hE : (if c.ethUp = true then 33554432 else 0) = (if c.ethUp = true then 1 else 0) * 33554432 := by
    split <;> rfl
  have hEb : (if c.ethUp = true then 1 else 0) ≤ 1 := by split <;> omega
  have hEd : decide ((if c.ethUp = true then 1 else 0) = 1) = c.ethUp := by cases c.ethUp <;> simp
  rw [hE] at hA
  generalize (if c.ethUp = true then 1 else 0) = e at *
  have a1 : A % 32 = c.cores := by omega
  have a2 : A / 2 ^ 14 % 2048 = c.rtr := by omega
  have a3 : A / 33554432 % 2 = e := by omega
  have k0 : A / 2 ^ (8 + 0) % 2 = l0 := by omega
  have k1 : A / 2 ^ (8 + 1) % 2 = l1 := by omega
  have k2 : A / 2 ^ (8 + 2) % 2 = l2 := by omega
  have k3 : A / 2 ^ (8 + 3) % 2 = l3 := by omega
  have k4 : A / 2 ^ (8 + 4) % 2 = l4 := by omega
  have k5 : A / 2 ^ (8 + 5) % 2 = l5 := by omega
  have i0 : leVal (List.take 4 [c.ip0, c.ip1, c.ip2, c.ip3]) / 2 ^ 0 % 256 = c.ip0 := by
    simp only [List.take, leVal]; omega
  have i1 : leVal (List.take 4 [c.ip0, c.ip1, c.ip2, c.ip3]) / 2 ^ 8 % 256 = c.ip1 := by
    simp only [List.take, leVal]; omega
  have i2 : leVal (List.take 4 [c.ip0, c.ip1, c.ip2, c.ip3]) / 2 ^ 16 % 256 = c.ip2 := by
    simp only [List.take, leVal]; omega
  have i3 : leVal (List.take 4 [c.ip0, c.ip1, c.ip2, c.ip3]) / 2 ^ 24 % 256 = c.ip3 := by
    simp only [List.take, leVal]; omega
  have e0 : leVal (List.take 2 [c.ethY, c.ethX, c.ip0, c.ip1, c.ip2, c.ip3]) / 2 ^ 8 % 256 = c.ethX := by
    simp only [List.take, leVal]; omega
  have e1 : leVal (List.take 2 [c.ethY, c.ethX, c.ip0, c.ip1, c.ip2, c.ip3]) % 256 = c.ethY := by
    simp only [List.take, leVal]; omega
  simp only [a1, a2, a3, hEd, hrange, List.filter_cons, List.filter_nil, k0, k1, k2, k3, k4, k5, n0, n1, n2, n3, n4, n5,
    List.map_cons, List.map_nil, i0, i1, i2, i3, e0, e1, Bool.false_eq_true, if_false]


theorem readMem_add (mem : Nat → Nat) (a m n : Nat) :
    readMem mem a (m + n) = readMem mem a m ++ readMem mem (a + m) n := by
  simp only [readMem, List.range_add, List.map_append, List.map_map]
  congr 1
  apply List.map_congr_left
  intro i _
  simp [Nat.add_assoc]

theorem readMem_length (mem : Nat → Nat) (a n : Nat) : (readMem mem a n).length = n := by
  simp [readMem]

theorem readMem_four (mem : Nat → Nat) (a : Nat) :
    readMem mem a 4 = [mem a, mem (a + 1), mem (a + 2), mem (a + 3)] := rfl

theorem p2pWord_lt (f : Nat → Nat → Nat) (hf : ∀ x y, f x y < 8) (c k : Nat) : p2pWord f c k < 16777216 := by
  unfold p2pWord
  have := hf c (8 * k); have := hf c (8 * k + 1); have := hf c (8 * k + 2); have := hf c (8 * k + 3)
  have := hf c (8 * k + 4); have := hf c (8 * k + 5); have := hf c (8 * k + 6); have := hf c (8 * k + 7)
  omega

theorem p2pMem_word (f : Nat → Nat → Nat) (hf : ∀ x y, f x y < 8) (c k : Nat) (hk : k < 32) :
    leVal (readMem (p2pMem f) (SPINNAKER_RTR_P2P + 128 * c + 4 * k) 4) = p2pWord f c k := by
  have hW := p2pWord_lt f hf c k
  have hb : ∀ j, j < 4 → p2pMem f (SPINNAKER_RTR_P2P + 128 * c + 4 * k + j) = p2pWord f c k / 256 ^ j % 256 := by
    intro j hj
    simp only [p2pMem]
    have e1 : (SPINNAKER_RTR_P2P + 128 * c + 4 * k + j - SPINNAKER_RTR_P2P) / 128 = c := by omega
    have e2 : (SPINNAKER_RTR_P2P + 128 * c + 4 * k + j - SPINNAKER_RTR_P2P) % 128 / 4 = k := by omega
    have e3 : (SPINNAKER_RTR_P2P + 128 * c + 4 * k + j - SPINNAKER_RTR_P2P) % 4 = j := by omega
    rw [e1, e2, e3]
  rw [readMem_four]
  have h0 := hb 0 (by omega)
  have h1 := hb 1 (by omega)
  have h2 := hb 2 (by omega)
  have h3 := hb 3 (by omega)
  simp only [Nat.add_zero] at h0
  rw [h0, h1, h2, h3]
  simp only [leVal]
  generalize p2pWord f c k = W at *
  omega

theorem p2pWord_entry (f : Nat → Nat → Nat) (hf : ∀ x y, f x y < 8) (c k e : Nat) (he : e < 8) :
    (p2pWord f c k >>> (3 * e)) &&& 7 = f c (8 * k + e) := by
  rw [and_7, Nat.shiftRight_eq_div_pow]
  unfold p2pWord
  have := hf c (8 * k); have := hf c (8 * k + 1); have := hf c (8 * k + 2); have := hf c (8 * k + 3)
  have := hf c (8 * k + 4); have := hf c (8 * k + 5); have := hf c (8 * k + 6); have := hf c (8 * k + 7)
  have : e = 0 ∨ e = 1 ∨ e = 2 ∨ e = 3 ∨ e = 4 ∨ e = 5 ∨ e = 6 ∨ e = 7 := by omega
  rcases this with rfl | rfl | rfl | rfl | rfl | rfl | rfl | rfl <;> simp only [Nat.mul_zero, Nat.add_zero, Nat.reduceMul, Nat.reducePow] <;> omega


theorem wordEntries_spec (f : Nat → Nat → Nat) (hf : ∀ x y, f x y < 8) (c k n : Nat) (hn : n ≤ 8) :
    wordEntries (p2pWord f c k) (8 * k) n = (List.range n).map fun e => (8 * k + e, f c (8 * k + e)) := by
  unfold wordEntries
  apply List.map_congr_left
  intro e he
  rw [List.mem_range] at he
  rw [p2pWord_entry f hf c k e (by omega)]

theorem colLoop_done (fuel : Nat) (raw : List Nat) (row h : Nat) (hr : h ≤ row) :
    colLoop fuel raw row h = .ok [] := by
  cases fuel with
  | zero => rfl
  | succ n =>
    have : ¬ row < h := by omega
    simp [colLoop, this]

/-- rows `8k ..` of column `c` -/
def colRows (f : Nat → Nat → Nat) (c k h : Nat) : List (Nat × Nat) :=
  (List.range (h - 8 * k)).map fun i => (8 * k + i, f c (8 * k + i))

theorem colLoop_spec (f : Nat → Nat → Nat) (hf : ∀ x y, f x y < 8) (c h : Nat) (hh : h ≤ 255) :
    ∀ (fuel k : Nat), (h + 7) / 8 ≤ fuel + k →
      colLoop fuel (readMem (p2pMem f) (SPINNAKER_RTR_P2P + 128 * c + 4 * k) (4 * ((h + 7) / 8 - k))) (8 * k) h
        = .ok (colRows f c k h) := by
  intro fuel
  induction fuel with
  | zero =>
    intro k hk
    have : h - 8 * k = 0 := by omega
    simp [colLoop, colRows, this]
  | succ n ih =>
    intro k hk
    by_cases hlt : 8 * k < h
    · have hK : (h + 7) / 8 - k = 1 + ((h + 7) / 8 - (k + 1)) := by omega
      have hk32 : k < 32 := by omega
      rw [hK, Nat.mul_add, readMem_add]
      have htake : List.take 4 (readMem (p2pMem f) (SPINNAKER_RTR_P2P + 128 * c + 4 * k) (4 * 1) ++
          readMem (p2pMem f) (SPINNAKER_RTR_P2P + 128 * c + 4 * k + 4 * 1) (4 * ((h + 7) / 8 - (k + 1)))) =
          readMem (p2pMem f) (SPINNAKER_RTR_P2P + 128 * c + 4 * k) 4 := by
        rw [List.take_left']; rw [readMem_length]
      have hdrop : List.drop 4 (readMem (p2pMem f) (SPINNAKER_RTR_P2P + 128 * c + 4 * k) (4 * 1) ++
          readMem (p2pMem f) (SPINNAKER_RTR_P2P + 128 * c + 4 * k + 4 * 1) (4 * ((h + 7) / 8 - (k + 1)))) =
          readMem (p2pMem f) (SPINNAKER_RTR_P2P + 128 * c + 4 * (k + 1)) (4 * ((h + 7) / 8 - (k + 1))) := by
        rw [List.drop_left']
        · congr 1
        · rw [readMem_length]
      simp only [colLoop, hlt, if_true, htake, hdrop, readMem_length, ne_eq, not_true, if_false,
        p2pMem_word f hf c k hk32]
      by_cases h8 : 8 ≤ h - 8 * k
      · have hmin : min 8 (h - 8 * k) = 8 := by omega
        rw [hmin, show 8 * k + 8 = 8 * (k + 1) by omega, ih (k + 1) (by omega)]
        simp only [wordEntries_spec f hf c k 8 (by omega), colRows]
        have : h - 8 * k = 8 + (h - 8 * (k + 1)) := by omega
        rw [this, List.range_add, List.map_append, List.map_map]
        congr 2
        apply List.map_congr_left
        intro i _
        have e : 8 * (k + 1) + i = 8 * k + (8 + i) := by omega
        simp only [Function.comp, e]
      · have hmin : min 8 (h - 8 * k) = h - 8 * k := by omega
        rw [hmin, colLoop_done _ _ _ _ (by omega)]
        simp only [wordEntries_spec f hf c k (h - 8 * k) (by omega), colRows, List.append_nil]
    · have : h - 8 * k = 0 := by omega
      simp [colLoop, hlt, colRows, this]


/-- what the table must contain: entry of every (x, y) inside the dimensions, column by column -/
def p2pSpecTable (f : Nat → Nat → Nat) (cols : List Nat) (h : Nat) : List ((Nat × Nat) × Nat) :=
  cols.flatMap fun c => (List.range h).map fun r => ((c, r), f c r)

/-- the P2P table region: 256 column blocks of 128 bytes -/
def P2P_REGION : Nat := 32768

theorem p2pCols_spec (f : Nat → Nat → Nat) (hf : ∀ x y, f x y < 8) (rd : Rd) (h : Nat) (hh : h ≤ 255)
    (hrd : ∀ a n, SPINNAKER_RTR_P2P ≤ a → a + n ≤ SPINNAKER_RTR_P2P + P2P_REGION →
      rd a n = readMem (p2pMem f) a n) (cols : List Nat) (hc : ∀ c ∈ cols, c < 256) :
    p2pCols rd (((h + 7) / 8) * 4) h cols = .ok (p2pSpecTable f cols h) := by
  induction cols with
  | nil => rfl
  | cons c cs ih =>
    have hc256 := hc c (by simp)
    have ih := ih (fun c' hc' => hc c' (by simp [hc']))
    have haddr : SPINNAKER_RTR_P2P + ((256 * c) / 8) * 4 = SPINNAKER_RTR_P2P + 128 * c + 4 * 0 := by omega
    have hlen : ((h + 7) / 8) * 4 = 4 * ((h + 7) / 8 - 0) := by omega
    have hcol := colLoop_spec f hf c h hh h 0 (by omega)
    simp only [p2pCols, ih]
    rw [hrd _ _ (by omega) (by unfold P2P_REGION; omega), haddr, hlen, Nat.mul_zero] at *
    rw [hcol]
    simp only [colRows, p2pSpecTable, List.flatMap_cons, Nat.mul_zero, Nat.sub_zero, Nat.zero_add, List.map_map]
    rfl

theorem p2p_roundtrip_dims_lem (f : Nat → Nat → Nat) (hf : ∀ x y, f x y < 8) (rd : Rd) (w h : Nat)
    (hw : w ≤ 255) (hh : h ≤ 255)
    (hrd : ∀ a n, SPINNAKER_RTR_P2P ≤ a → a + n ≤ SPINNAKER_RTR_P2P + P2P_REGION →
      rd a n = readMem (p2pMem f) a n) :
    p2pTableOfDims rd (w * 256 + h) = .ok (p2pSpecTable f (List.range w) h) := by
  have e1 : ((w * 256 + h) >>> 8) &&& 0xFF = w := by
    rw [and_ff, Nat.shiftRight_eq_div_pow]; omega
  have e2 : ((w * 256 + h) >>> 0) &&& 0xFF = h := by
    rw [and_ff, Nat.shiftRight_eq_div_pow]; omega
  simp only [p2pTableOfDims, e1, e2]
  exact p2pCols_spec f hf rd h hh hrd (List.range w) (fun c hc => by rw [List.mem_range] at hc; omega)


end Rig.C14
