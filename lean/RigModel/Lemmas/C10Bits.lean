/-
C10 helper lemmas: route words, 16-byte records.
-/
import RigModel.Model.C10
set_option linter.unusedSimpArgs false
set_option linter.unusedVariables false

namespace Rig.C10
open Rig.Gen.Router

theorem foldl_or_testBit (rs : List Nat) (w b : Nat) :
    (rs.foldl (fun w r => w ||| (1 <<< r)) w).testBit b = (w.testBit b || decide (b ∈ rs)) := by
  induction rs generalizing w with
  | nil => simp
  | cons r rs ih =>
    simp only [List.foldl_cons, ih, Nat.testBit_or, Nat.testBit_shiftLeft, List.mem_cons]
    by_cases h : b = r
    · subst h; simp
    · have h' : ¬ r = b := fun e => h e.symm
      by_cases h2 : b ≥ r
      · have : b - r ≠ 0 := by omega
        have h1 : Nat.testBit 1 (b - r) = false := by
          cases hb : Nat.testBit 1 (b - r) with
          | false => rfl
          | true => exact absurd (Nat.testBit_one_eq_true_iff_self_eq_zero.mp hb) this
        simp [h, h2, h1]
      · simp [h, h2]

/-- **Route word.** bit `b` of the packed route word is set exactly when `b` is in the route set -/
theorem routeWord_testBit (rs : List Nat) (b : Nat) : (routeWord rs).testBit b = true ↔ b ∈ rs := by
  unfold routeWord
  rw [foldl_or_testBit]
  simp

theorem routeWord_lt (rs : List Nat) (n : Nat) (h : ∀ r ∈ rs, r < n) : routeWord rs < 2 ^ n := by
  apply Nat.lt_pow_two_of_testBit
  intro i hi
  cases hb : (routeWord rs).testBit i with
  | false => rfl
  | true =>
    have := h i ((routeWord_testBit rs i).mp hb)
    omega

theorem and_hi_zero (w : Nat) (h : w < 2 ^ 24) : w &&& 0xff000000 = 0 := by
  apply Nat.eq_of_testBit_eq
  intro i
  simp only [Nat.testBit_and, Nat.zero_testBit]
  by_cases hi : i < 24
  · have : ∀ j, j < 24 → (0xff000000 : Nat).testBit j = false := by decide
    rw [this i hi]; simp
  · have : w.testBit i = false :=
      Nat.testBit_lt_two_pow (Nat.lt_of_lt_of_le h (Nat.pow_le_pow_right (by decide) (by omega)))
    rw [this]; simp

theorem shr_and_one (w r : Nat) : ((w >>> r) &&& 1 = 1) ↔ w.testBit r = true := by
  rw [Nat.testBit_eq_decide_div_mod_eq, Nat.shiftRight_eq_div_pow, Nat.and_one_is_mod]
  simp

theorem word32_le32 (a : Nat) (h : a < 4294967296) :
    word32 (a % 256) (a / 256 % 256) (a / 65536 % 256) (a / 16777216 % 256) = a := by
  unfold word32; omega

theorem and_ff (x : Nat) : x &&& 0xff = x % 256 := Nat.and_two_pow_sub_one_eq_mod x 8
theorem and_f (x : Nat) : x &&& 0x0f = x % 16 := Nat.and_two_pow_sub_one_eq_mod x 4

/-- a record with a route word below 2^24 decodes to a used row -/
theorem unpack_used (nx fr w k m : Nat) (hw : w < 2 ^ 24) (hk : k < 4294967296) (hm : m < 4294967296) :
    unpackEntry (le16 nx ++ le16 fr ++ le32 w ++ le32 k ++ le32 m) =
      some (some { routes := routesValues.filter (fun r => (w >>> r) &&& 1 = 1), key := k, mask := m,
                   app := fr % 256, core := fr / 256 % 16 }) := by
  have hw' : w < 4294967296 := by omega
  simp only [le16, le32, List.cons_append, List.nil_append, unpackEntry, word32_le32 w hw',
    word32_le32 k hk, word32_le32 m hm, and_hi_zero w hw, and_ff, and_f, Nat.shiftRight_eq_div_pow]
  have e1 : (fr % 256 + 256 * (fr / 256 % 256)) % 256 = fr % 256 := by omega
  have e2 : (fr % 256 + 256 * (fr / 256 % 256)) / 2 ^ 8 % 16 = fr / 256 % 16 := by omega
  simp [e1, e2]

/-- the record of an unused row decodes to `None` -/
theorem unpack_unused (nx fr : Nat) :
    unpackEntry (le16 nx ++ le16 fr ++ le32 0xff000000 ++ le32 0xffffffff ++ le32 0) = some none := by
  simp [le16, le32, unpackEntry, word32]

theorem mem_routes_filter (w r : Nat) :
    r ∈ routesValues.filter (fun r => (w >>> r) &&& 1 = 1) ↔ r < 24 ∧ w.testBit r = true := by
  have : routesValues = List.range 24 := by decide
  rw [this]
  simp [List.mem_filter, shr_and_one]

end Rig.C10
