/-
C09 helper lemmas, part 5: send_signal / count_cores_in_state / wait_for_cores_to_reach_state
(Model/C09Sig.lean) against the machine specification.
-/
import RigModel.Model.C09Sig
import RigModel.Lemmas.C09Loop
set_option linter.unusedSimpArgs false
set_option linter.unusedVariables false

namespace Rig.C09Sig
open Rig.C09 Rig.Gen.Load Rig.Gen.LoadSig Rig.Gen.Scp

/-- `(signal << 16) | 0xff00 | app_id` as arithmetic -/
theorem signal_arg2 (sig appId : Nat) (ha : appId < 256) :
    ((sig <<< 16) ||| 0xff00 ||| appId) = sig * 65536 + 65280 + appId := by
  simp only [Nat.shiftLeft_eq]
  rw [orAdd (sig * 2^16) 0xff00 16 (by decide) ⟨sig, Nat.mul_comm _ _⟩,
    orAdd _ appId 8 ha ⟨sig * 256 + 255, by omega⟩]

/-- every state of the enumeration fits the 4-bit state field of the count request -/
theorem appStates_lt : ∀ e ∈ appStates, e.2 < 16 := by decide

theorem resolve_states_lt (a : Arg) (st : Nat) (h : resolve appStates a = .ok st) : st < 16 := by
  cases a with
  | name s =>
    simp only [resolve] at h
    split at h
    · rename_i e he
      cases h
      exact appStates_lt e (List.mem_of_find?_eq_some he)
    · cases h
  | val n =>
    simp only [resolve] at h
    split at h
    · rename_i hany
      cases h
      simp only [List.any_eq_true, beq_iff_eq] at hany
      obtain ⟨e, he, rfl⟩ := hany
      exact appStates_lt e he
    · cases h

/-- the count one state yields on the machine -/
def cnt1 (mc : MCfg) (core : Nat → Nat → Nat → Core) (st appId : Nat) : Nat :=
  (allCores mc.chips).countP fun c => matchesApp (core c.1 c.2.1 c.2.2) st appId

theorem cnt_cons (mc : MCfg) (core : Nat → Nat → Nat → Core) (st : Nat) (sts : List Nat) (appId : Nat) :
    cnt mc core (st :: sts) appId = cnt1 mc core st appId + cnt mc core sts appId := by
  simp [cnt, cnt1]

theorem send_countReq (mc : MCfg) (s : Sim) (st appId : Nat) (hs : st < 16) (ha : appId < 256) :
    s.send mc (countReq st appId) =
      ({ s with trace := (countReq st appId, Reply.count (cnt1 mc s.m.core st appId)) :: s.trace },
       Reply.count (cnt1 mc s.m.core st appId)) := by
  simp only [Sim.send, step, decode_count st appId hs ha, stepP, if_true, cnt1]

theorem countOne_ok (mc : MCfg) (s : Sim) (a : Arg) (st appId : Nat) (ha : appId < 256)
    (hr : resolve appStates a = .ok st) :
    countOne mc s a appId =
      ({ s with trace := (countReq st appId, Reply.count (cnt1 mc s.m.core st appId)) :: s.trace },
       .ok (cnt1 mc s.m.core st appId)) := by
  simp only [countOne, hr, send_countReq mc s st appId (resolve_states_lt a st hr) ha]

theorem countOne_err (mc : MCfg) (s : Sim) (a : Arg) (appId : Nat) (e : Err)
    (hr : resolve appStates a = .error e) : countOne mc s a appId = (s, .error e) := by
  simp only [countOne, hr]

/-- the trace entries the polls of the states `sts` add (newest first) -/
def countEntries (mc : MCfg) (core : Nat → Nat → Nat → Core) (sts : List Nat) (appId : Nat) : List (Req × Reply) :=
  (sts.map fun st => (countReq st appId, Reply.count (cnt1 mc core st appId))).reverse

theorem countMany_ok (mc : MCfg) (appId : Nat) (ha : appId < 256) :
    ∀ (l : List Arg) (sts : List Nat), List.Forall₂ (fun a st => resolve appStates a = .ok st) l sts →
      ∀ (s : Sim) (acc : Nat),
        countMany mc appId s l acc =
          ({ s with trace := countEntries mc s.m.core sts appId ++ s.trace },
           .ok (acc + cnt mc s.m.core sts appId)) := by
  intro l sts h
  induction h with
  | nil => intro s acc; simp [countMany, countEntries, cnt]
  | @cons a st l sts' hr _ ih =>
    intro s acc
    simp only [countMany, countOne_ok mc s a st appId ha hr]
    rw [ih]
    simp only [cnt_cons, countEntries, List.map_cons, List.reverse_cons, List.append_assoc,
      List.singleton_append, Nat.add_assoc]

/-- an invalid state after a valid prefix: `ValueError`, with exactly the requests of the prefix sent -/
theorem countMany_err (mc : MCfg) (appId : Nat) (ha : appId < 256) :
    ∀ (pre : List Arg) (sts : List Nat), List.Forall₂ (fun a st => resolve appStates a = .ok st) pre sts →
      ∀ (a : Arg) (e : Err) (post : List Arg), resolve appStates a = .error e → ∀ (s : Sim) (acc : Nat),
        countMany mc appId s (pre ++ a :: post) acc =
          ({ s with trace := countEntries mc s.m.core sts appId ++ s.trace }, .error e) := by
  intro pre sts h
  induction h with
  | nil => intro a e post he s acc; simp [countMany, countOne_err mc s a appId e he, countEntries]
  | @cons a0 st l sts' hr _ ih =>
    intro a e post he s acc
    simp only [List.cons_append, countMany, countOne_ok mc s a0 st appId ha hr]
    rw [ih a e post he]
    simp only [countEntries, List.map_cons, List.reverse_cons, List.append_assoc, List.singleton_append]

/-- the state argument resolves to the states `sts` (every listed state is a member of `AppState`) -/
inductive Resolved : StateArg → List Nat → Prop where
  | one (a : Arg) (st : Nat) : resolve appStates a = .ok st → Resolved (.one a) [st]
  | many (l : List Arg) (sts : List Nat) :
      List.Forall₂ (fun a st => resolve appStates a = .ok st) l sts → Resolved (.many l) sts

theorem countCores_ok (mc : MCfg) (s : Sim) (st : StateArg) (sts : List Nat) (appId : Nat) (ha : appId < 256)
    (hr : Resolved st sts) :
    countCores mc s st appId =
      ({ s with trace := countEntries mc s.m.core sts appId ++ s.trace }, .ok (cnt mc s.m.core sts appId)) := by
  cases hr with
  | one a st h =>
    simp only [countCores, countOne_ok mc s a st appId ha h, countEntries, cnt, cnt1, List.map_cons, List.map_nil,
      List.reverse_cons, List.reverse_nil, List.nil_append, List.singleton_append, List.sum_cons, List.sum_nil,
      Nat.add_zero]
  | many l sts h =>
    simp only [countCores, countMany_ok mc appId ha l sts h s 0, Nat.zero_add]

/-! ### the poll loop -/

theorem coresAt_succ (env : Env) (core : Nat → Nat → Nat → Core) (k : Nat) :
    coresAt env core (k + 1) = env.evolve k (coresAt env core k) := rfl

/-- the loop, started at poll `k` in the machine state of that time, stops at the first poll `j`
that `stops` - if there is one within the fuel -/
theorem waitLoop_stop (mc : MCfg) (env : Env) (st : StateArg) (sts : List Nat) (target appId : Nat)
    (timeout : Option Nat) (ha : appId < 256) (hr : Resolved st sts) (core0 : Nat → Nat → Nat → Core) :
    ∀ (fuel k j : Nat) (s : Sim), s.m.core = coresAt env core0 k → k ≤ j → j < k + fuel →
      (∀ i, k ≤ i → i < j → stops env.clock timeout target i (cnt mc (coresAt env core0 i) sts appId) = false) →
      stops env.clock timeout target j (cnt mc (coresAt env core0 j) sts appId) = true →
      let o := waitLoop mc env st target appId (timeout.map fun t => env.clock 0 + t) fuel k s
      o.2.1 = .done (cnt mc (coresAt env core0 j) sts appId) ∧ o.2.2 = j ∧
        o.1.m.core = coresAt env core0 j ∧ o.1.nn = s.nn := by
  intro fuel
  induction fuel with
  | zero => intro k j s _ h1 h2; omega
  | succ fuel ih =>
    intro k j s hs hkj hj hbefore hstop
    simp only [waitLoop, countCores_ok mc s st sts appId ha hr, hs]
    by_cases hjk : j = k
    · subst hjk
      simp only [stops, Bool.or_eq_true, decide_eq_true_eq] at hstop
      by_cases hge : target ≤ cnt mc (coresAt env core0 j) sts appId
      · simp only [ge_iff_le, hge, if_true]
        exact ⟨trivial, trivial, hs, trivial⟩
      · simp only [ge_iff_le, hge, if_false]
        rcases hstop with h | h
        · exact absurd h hge
        · cases timeout with
          | none => simp at h
          | some t =>
            simp only [decide_eq_true_eq] at h
            simp only [Option.map_some, gt_iff_lt, h, if_true]
            exact ⟨trivial, trivial, hs, trivial⟩
    · have hk := hbefore k (Nat.le_refl _) (by omega)
      simp only [stops, Bool.or_eq_false_iff, decide_eq_false_iff_not] at hk
      simp only [ge_iff_le, hk.1, if_false]
      have hnext := ih (k + 1) j
        (sleep env k { s with trace := countEntries mc (coresAt env core0 k) sts appId ++ s.trace })
        (by simp only [sleep, hs, coresAt_succ]) (by omega) (by omega)
        (fun i h1 h2 => hbefore i (by omega) h2) hstop
      cases timeout with
      | none => exact hnext
      | some t =>
        have hc : ¬ env.clock (k + 1) > env.clock 0 + t := by simpa using hk.2
        simp only [Option.map_some, hc, if_false]
        exact hnext

/-- ... and runs out of fuel when no poll within the fuel stops -/
theorem waitLoop_nostop (mc : MCfg) (env : Env) (st : StateArg) (sts : List Nat) (target appId : Nat)
    (timeout : Option Nat) (ha : appId < 256) (hr : Resolved st sts) (core0 : Nat → Nat → Nat → Core) :
    ∀ (fuel k : Nat) (s : Sim), s.m.core = coresAt env core0 k →
      (∀ i, k ≤ i → i < k + fuel →
        stops env.clock timeout target i (cnt mc (coresAt env core0 i) sts appId) = false) →
      let o := waitLoop mc env st target appId (timeout.map fun t => env.clock 0 + t) fuel k s
      o.2.1 = .outOfFuel ∧ o.2.2 = k + fuel := by
  intro fuel
  induction fuel with
  | zero => intro k s _ _; exact ⟨rfl, rfl⟩
  | succ fuel ih =>
    intro k s hs hno
    simp only [waitLoop, countCores_ok mc s st sts appId ha hr, hs]
    have hk := hno k (Nat.le_refl _) (by omega)
    simp only [stops, Bool.or_eq_false_iff, decide_eq_false_iff_not] at hk
    simp only [ge_iff_le, hk.1, if_false]
    have hnext := ih (k + 1)
      (sleep env k { s with trace := countEntries mc (coresAt env core0 k) sts appId ++ s.trace })
      (by simp only [sleep, hs, coresAt_succ]) (fun i h1 h2 => hno i (by omega) (by omega))
    have e : k + 1 + fuel = k + (fuel + 1) := by omega
    rw [e] at hnext
    cases timeout with
    | none => exact hnext
    | some t =>
      have hc : ¬ env.clock (k + 1) > env.clock 0 + t := by simpa using hk.2
      simp only [Option.map_some, hc, if_false]
      exact hnext

/-- a Boolean predicate on the naturals that holds somewhere below `n` has a least witness -/
theorem least_below (P : Nat → Bool) : ∀ n, (∃ j, j < n ∧ P j = true) →
    ∃ j, j < n ∧ P j = true ∧ ∀ i, i < j → P i = false := by
  intro n
  induction n with
  | zero => rintro ⟨j, h, _⟩; omega
  | succ n ih =>
    rintro ⟨j, hj, hp⟩
    by_cases hex : ∃ j, j < n ∧ P j = true
    · obtain ⟨j', h1, h2, h3⟩ := ih hex
      exact ⟨j', by omega, h2, h3⟩
    · have hjn : j = n := by
        by_contra hne
        exact hex ⟨j, by omega, hp⟩
      subst hjn
      refine ⟨j, hj, hp, fun i hi => ?_⟩
      cases h : P i with
      | false => rfl
      | true => exact absurd ⟨i, hi, h⟩ hex

end Rig.C09Sig
