/-
C20 - helper lemmas: struct packing and default replacement.
-/
import RigModel.Model.C20
set_option linter.unusedSimpArgs false
set_option linter.unusedVariables false

namespace Rig.C20

/-- field `f` occupies byte `i` -/
def covers (f : Field) (i : Nat) : Prop := f.offset ≤ i ∧ i < f.offset + packWidth f.pack

instance (f : Field) (i : Nat) : Decidable (covers f i) := by unfold covers; infer_instance

/-- the bytes `struct.pack` produces: byte `j` of the two's complement little-endian value -/
def valueBytes (pc : String) (v : Int) : List Nat := (List.range (packWidth pc)).map (leByte v)

theorem lb0 (v : Int) : leByte v 0 = (v % 256).toNat := by simp [leByte]
theorem lb1 (v : Int) : leByte v 1 = (v / 256 % 256).toNat := by simp [leByte]
theorem lb2 (v : Int) : leByte v 2 = (v / 65536 % 256).toNat := by simp [leByte]
theorem lb3 (v : Int) : leByte v 3 = (v / 16777216 % 256).toNat := by simp [leByte]
theorem r1 : List.range 1 = [0] := by decide
theorem r2 : List.range 2 = [0, 1] := by decide
theorem r4 : List.range 4 = [0, 1, 2, 3] := by decide

theorem packB (v : Int) (h : 0 ≤ v ∧ v < 256) : leBytes 1 v.toNat = (List.range 1).map (leByte v) := by
  simp only [r1, List.map_cons, List.map_nil, lb0, leBytes]
  congr 1; omega
theorem packb (v : Int) (h : -128 ≤ v ∧ v < 128) : leBytes 1 (v % 256).toNat = (List.range 1).map (leByte v) := by
  simp only [r1, List.map_cons, List.map_nil, lb0, leBytes]
  congr 1; omega
theorem packH (v : Int) (h : 0 ≤ v ∧ v < 65536) : leBytes 2 v.toNat = (List.range 2).map (leByte v) := by
  simp only [r2, List.map_cons, List.map_nil, lb0, lb1, leBytes]
  congr 1
  · omega
  · congr 1; omega
theorem packI (v : Int) (h : 0 ≤ v ∧ v < 4294967296) : leBytes 4 v.toNat = (List.range 4).map (leByte v) := by
  simp only [r4, List.map_cons, List.map_nil, lb0, lb1, lb2, lb3, leBytes]
  congr 1
  · omega
  congr 1
  · omega
  congr 1
  · omega
  congr 1
  omega

theorem packValue_spec (pc : String) (v : Int) (h : valueFits pc v = true) :
    packValue pc v = .ok (valueBytes pc v) := by
  unfold valueFits at h
  unfold packValue valueBytes packWidth
  have n1 : ¬ ("b" = "B") := by decide
  have n2 : ¬ ("H" = "B") := by decide
  have n3 : ¬ ("H" = "b") := by decide
  have n4 : ¬ ("I" = "B") := by decide
  have n5 : ¬ ("I" = "b") := by decide
  have n6 : ¬ ("I" = "H") := by decide
  by_cases h1 : pc = "B"
  · subst h1
    simp only [if_true, decide_eq_true_eq] at h ⊢
    simp only [h, and_self, if_true, packB v h]
  · by_cases h2 : pc = "b"
    · subst h2
      simp only [n1, if_true, if_false, decide_eq_true_eq] at h ⊢
      simp only [h, and_self, if_true, packb v h]
    · by_cases h3 : pc = "H"
      · subst h3
        simp only [n2, n3, if_true, if_false, decide_eq_true_eq] at h ⊢
        simp only [h, and_self, if_true, packH v h]
      · by_cases h4 : pc = "I"
        · subst h4
          simp only [n4, n5, n6, if_true, if_false, decide_eq_true_eq] at h ⊢
          simp only [h, and_self, if_true, packI v h]
        · simp [h1, h2, h3, h4] at h

theorem valueBytes_length (pc : String) (v : Int) : (valueBytes pc v).length = packWidth pc := by
  simp [valueBytes]

theorem valueBytes_get (pc : String) (v : Int) (j : Nat) (h : j < packWidth pc) :
    (valueBytes pc v)[j]? = some (leByte v j) := by
  simp [valueBytes, List.getElem?_map, List.getElem?_range h]

/-! ### slice assignment -/

theorem splice_length (data p : List Nat) (a : Nat) (h : a + p.length ≤ data.length) :
    (splice data a (p.length + a) p).length = data.length := by
  simp only [splice, List.length_append, List.length_take, List.length_drop]; omega

theorem splice_get (data p : List Nat) (a i : Nat) (h : a + p.length ≤ data.length) :
    (splice data a (p.length + a) p)[i]? =
      if a ≤ i ∧ i < a + p.length then p[i - a]? else data[i]? := by
  have hm : max a (p.length + a) = p.length + a := by omega
  have hl : (data.take a).length = a := by rw [List.length_take]; omega
  simp only [splice, hm, List.append_assoc]
  rw [List.getElem?_append]
  by_cases h1 : i < a
  · have : ¬ (a ≤ i ∧ i < a + p.length) := by omega
    simp only [hl, h1, if_true, this, if_false, List.getElem?_take]
  · simp only [hl, h1, if_false]
    rw [List.getElem?_append]
    by_cases h2 : i - a < p.length
    · have : a ≤ i ∧ i < a + p.length := by omega
      simp only [h2, if_true, this, and_self]
    · have : ¬ (a ≤ i ∧ i < a + p.length) := by omega
      simp only [h2, if_false, this, List.getElem?_drop]
      congr 1; omega

/-! ### the packing loop -/

/-- no two fields of the list overlap -/
def Disjoint (fs : List Field) : Prop :=
  fs.Pairwise (fun f g => f.offset + packWidth f.pack ≤ g.offset ∨ g.offset + packWidth g.pack ≤ f.offset)

theorem find_covers (fs : List Field) (hd : Disjoint fs) (f : Field) (hf : f ∈ fs) (i : Nat)
    (hc : covers f i) : ∃ g, fs.find? (fun g => decide (covers g i)) = some g ∧
      g.offset = f.offset ∧ g.default = f.default := by
  induction fs with
  | nil => cases hf
  | cons g r ih =>
    rw [Disjoint, List.pairwise_cons] at hd
    by_cases hg : covers g i
    · refine ⟨g, by simp [List.find?, hg], ?_⟩
      rcases List.mem_cons.mp hf with rfl | hr
      · exact ⟨rfl, rfl⟩
      · have := hd.1 f hr
        unfold covers at hc hg
        omega
    · rcases List.mem_cons.mp hf with rfl | hr
      · exact absurd hc hg
      · obtain ⟨g', h1, h2⟩ := ih hd.2 hr
        exact ⟨g', by simp [List.find?, hg, h1], h2⟩

theorem packLoop_spec (fs : List Field) : ∀ (data : List Nat),
    (∀ f ∈ fs, valueFits f.pack f.default = true ∧ f.offset + packWidth f.pack ≤ data.length) →
    Disjoint fs →
    ∃ out, packLoop data fs = .ok out ∧ out.length = data.length ∧
      ∀ i, out[i]? = match fs.find? (fun g => decide (covers g i)) with
        | some f => (if i < data.length then some (leByte f.default (i - f.offset)) else none)
        | none => data[i]? := by
  induction fs with
  | nil => intro data _ _; exact ⟨data, rfl, rfl, fun i => rfl⟩
  | cons f r ih =>
    intro data hv hd
    rw [Disjoint, List.pairwise_cons] at hd
    obtain ⟨hfit, hin⟩ := hv f (List.mem_cons_self ..)
    have hp := packValue_spec f.pack f.default hfit
    have hpl := valueBytes_length f.pack f.default
    have hin' : f.offset + (valueBytes f.pack f.default).length ≤ data.length := by omega
    have hlen := splice_length data (valueBytes f.pack f.default) f.offset hin'
    obtain ⟨out, ho, hol, hget⟩ := ih (splice data f.offset ((valueBytes f.pack f.default).length + f.offset)
      (valueBytes f.pack f.default))
      (fun g hg => ⟨(hv g (List.mem_cons_of_mem _ hg)).1, by rw [hlen]; exact (hv g (List.mem_cons_of_mem _ hg)).2⟩)
      hd.2
    refine ⟨out, by simp only [packLoop, packStep, hp, ho], by omega, ?_⟩
    intro i
    rw [hget i]
    by_cases hc : covers f i
    · -- no later field covers `i`
      have hnone : r.find? (fun g => decide (covers g i)) = none := by
        rw [List.find?_eq_none]
        intro g hg
        have := hd.1 g hg
        simp only [decide_eq_true_eq]
        unfold covers at hc ⊢
        omega
      have hc' : f.offset ≤ i ∧ i < f.offset + (valueBytes f.pack f.default).length := by
        rw [hpl]; exact hc
      have hi : i < data.length := by unfold covers at hc; omega
      simp only [hnone, List.find?, hc, decide_true, splice_get _ _ _ _ hin', hc', and_self, if_true, hi]
      exact valueBytes_get _ _ _ (by unfold covers at hc; omega)
    · have hc' : ¬ (f.offset ≤ i ∧ i < f.offset + (valueBytes f.pack f.default).length) := by
        rw [hpl]; exact hc
      simp only [List.find?, hc, decide_false, hlen]
      split
      · rfl
      · simp only [splice_get _ _ _ _ hin', hc', if_false]

/-! ### replacing defaults -/

def upd (k : String) (v : Int) (f : Field) : Field := if f.name = k then { f with default := v } else f

/-- the field after a sequence of assignments `d` -/
def applyDict (d : Dict) (f : Field) : Field :=
  match dictGet d f.name with
  | some v => { f with default := v }
  | none => f

def DistinctNames (fs : List Field) : Prop := fs.Pairwise (fun f g => f.name ≠ g.name)

theorem upd_name (k : String) (v : Int) (f : Field) : (upd k v f).name = f.name := by
  unfold upd; split <;> rfl

theorem applyDict_name (d : Dict) (f : Field) : (applyDict d f).name = f.name := by
  unfold applyDict; split <;> rfl

theorem map_upd_id (r : List Field) (k : String) (v : Int) (h : ∀ g ∈ r, g.name ≠ k) :
    r.map (upd k v) = r := by
  induction r with
  | nil => rfl
  | cons g r ih =>
    have hg : g.name ≠ k := h g (List.mem_cons_self ..)
    rw [List.map_cons, ih (fun x hx => h x (List.mem_cons_of_mem _ hx))]
    simp [upd, hg]

theorem setDefault_map (fs : List Field) (k : String) (v : Int) (hk : ∃ f ∈ fs, f.name = k)
    (nd : DistinctNames fs) : setDefault fs k v = some (fs.map (upd k v)) := by
  induction fs with
  | nil => obtain ⟨f, hf, _⟩ := hk; cases hf
  | cons f r ih =>
    rw [DistinctNames, List.pairwise_cons] at nd
    by_cases hf : f.name = k
    · have : r.map (upd k v) = r := map_upd_id r k v (fun g hg => by
        have := nd.1 g hg; rw [hf] at this; exact fun e => this e.symm)
      simp [setDefault, hf, upd, this]
    · have hk' : ∃ g ∈ r, g.name = k := by
        obtain ⟨g, hg, hn⟩ := hk
        rcases List.mem_cons.mp hg with rfl | hr
        · exact absurd hn hf
        · exact ⟨g, hr, hn⟩
      simp [setDefault, hf, ih hk' nd.2, upd]

theorem distinct_map (fs : List Field) (g : Field → Field) (hg : ∀ f, (g f).name = f.name)
    (nd : DistinctNames fs) : DistinctNames (fs.map g) := by
  unfold DistinctNames at *
  rw [List.pairwise_map]
  simpa [hg] using nd

theorem updateDefaults_map (d : Dict) : ∀ (fs : List Field),
    (∀ p ∈ d, ∃ f ∈ fs, f.name = p.1) → DistinctNames fs →
    updateDefaults fs d = .ok (fs.map (applyDict d)) := by
  induction d with
  | nil =>
    intro fs _ _
    have : fs.map (applyDict []) = fs := by
      rw [List.map_congr_left (g := id) (fun f _ => by simp [applyDict, dictGet])]; simp
    simp [updateDefaults, this]
  | cons p r ih =>
    intro fs hk nd
    obtain ⟨k, v⟩ := p
    have hs := setDefault_map fs k v (hk (k, v) (List.mem_cons_self ..)) nd
    have hk' : ∀ q ∈ r, ∃ f ∈ fs.map (upd k v), f.name = q.1 := by
      intro q hq
      obtain ⟨f, hf, hn⟩ := hk q (List.mem_cons_of_mem _ hq)
      exact ⟨upd k v f, List.mem_map_of_mem hf, by rw [upd_name]; exact hn⟩
    simp only [updateDefaults, hs, ih _ hk' (distinct_map fs _ (upd_name k v) nd), List.map_map]
    congr 1
    apply List.map_congr_left
    intro f _
    simp only [Function.comp, applyDict, upd_name, dictGet]
    cases dictGet r f.name with
    | some x => simp only [upd]; split <;> rfl
    | none =>
      simp only [upd]
      by_cases e : f.name = k
      · simp [e]
      · have e' : ¬ k = f.name := fun h => e h.symm
        simp [e, e']

end Rig.C20
