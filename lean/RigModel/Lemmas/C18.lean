/-
C18 - helper lemmas: insertion-ordered dicts, the decorator's dictionary, the stack discipline of `exec`.
-/
import RigModel.Model.C18
set_option linter.unusedSimpArgs false
set_option linter.unusedVariables false

namespace Rig.C18

theorem dget_dset (d : Dict) (k k' : String) (v : Val) :
    dget (dset d k v) k' = if k = k' then some v else dget d k' := by
  induction d with
  | nil => simp [dset, dget]
  | cons hd t ih =>
    obtain ⟨a, b⟩ := hd
    by_cases hak : a = k
    · subst hak
      simp only [dset, if_true, dget]
      by_cases h : a = k' <;> simp [h]
    · simp only [dset, hak, if_false, dget, ih]
      by_cases h : a = k'
      · subst h
        have : ¬ k = a := fun e => hak e.symm
        simp [this]
      · simp [h]

theorem dget_dupdate (u : Dict) : ∀ (d : Dict) (k : String),
    dget (dupdate d u) k = (match dgetLast u k with | some v => some v | none => dget d k) := by
  induction u with
  | nil => intro d k; simp [dupdate, dgetLast]
  | cons hd t ih =>
    intro d k
    obtain ⟨a, b⟩ := hd
    simp only [dupdate, ih, dgetLast, dget_dset]
    cases dgetLast t k with
    | some w => rfl
    | none => by_cases h : a = k <;> simp [h]

theorem dget_merged (s : List Dict) (k : String) : dget (merged s) k = ctxLookup s k := by
  induction s with
  | nil => simp [merged, ctxLookup, dget]
  | cons c older ih =>
    simp only [merged, ctxLookup, dget_dupdate, ih]
    cases dgetLast c k <;> rfl

theorem dhas_eq (d : Dict) (k : String) : dhas d k = (dget d k).isSome := rfl

theorem dget_applyCtx (ctx : Dict) : ∀ (nk : Dict) (k : String),
    dget (applyCtx nk ctx) k =
      (match dget nk k with
       | none => none
       | some d => (match dgetLast ctx k with | some v => some v | none => some d)) := by
  induction ctx with
  | nil => intro nk k; simp only [applyCtx, dgetLast]; cases dget nk k <;> rfl
  | cons hd rest ih =>
    intro nk k
    obtain ⟨n, v⟩ := hd
    simp only [applyCtx, ih, dgetLast]
    by_cases hn : n = k
    · subst hn
      cases hd : dget nk n with
      | none => simp [dhas_eq, hd]
      | some d =>
        simp only [dhas_eq, hd, Option.isSome_some, if_true, dget_dset]
        cases dgetLast rest n <;> simp
    · by_cases hh : dhas nk n = true
      · simp only [hh, if_true, dget_dset, hn, if_false]
        cases h1 : dget nk k <;> cases h2 : dgetLast rest k <;> simp_all
      · simp only [hh, if_false, hn]
        cases h1 : dget nk k <;> cases h2 : dgetLast rest k <;> simp_all

/-! ### keys are never duplicated by assignment -/

theorem keys_dset (d : Dict) (k : String) (v : Val) :
    keys (dset d k v) = if k ∈ keys d then keys d else keys d ++ [k] := by
  induction d with
  | nil => simp [dset, keys]
  | cons hd t ih =>
    obtain ⟨a, b⟩ := hd
    by_cases hak : a = k
    · subst hak; simp [dset, keys]
    · have hka : ¬ k = a := fun e => hak e.symm
      simp only [keys] at ih
      simp only [dset, hak, if_false, keys, List.map_cons, ih, List.mem_cons, hka, false_or]
      split <;> simp_all

theorem nodup_dset (d : Dict) (k : String) (v : Val) (h : (keys d).Nodup) : (keys (dset d k v)).Nodup := by
  rw [keys_dset]
  split
  · exact h
  · rename_i hk
    exact List.nodup_append.mpr ⟨h, (by simp), by
      intro a ha b hb; simp at hb; subst hb; intro e; subst e; exact hk ha⟩

theorem nodup_dupdate (u : Dict) : ∀ d : Dict, (keys d).Nodup → (keys (dupdate d u)).Nodup := by
  induction u with
  | nil => intro d h; exact h
  | cons hd t ih => intro d h; obtain ⟨a, b⟩ := hd; exact ih _ (nodup_dset d a b h)

theorem keys_applyCtx (ctx : Dict) : ∀ nk : Dict, keys (applyCtx nk ctx) = keys nk := by
  induction ctx with
  | nil => intro nk; rfl
  | cons hd rest ih =>
    intro nk
    obtain ⟨n, v⟩ := hd
    simp only [applyCtx, ih]
    split
    · rename_i hh
      rw [keys_dset]
      have : n ∈ keys nk := by
        simp only [dhas_eq] at hh
        clear ih
        induction nk with
        | nil => simp [dget] at hh
        | cons h2 t2 ih2 =>
          obtain ⟨a, b⟩ := h2
          by_cases e : a = n
          · simp [keys, e]
          · simp only [dget, e, if_false] at hh
            simp only [keys, List.map_cons, List.mem_cons]
            right; exact ih2 hh
      simp [this]
    · rfl

theorem nodup_newKwargs (s : Sig) (nPos : Nat) (kw : Dict) (stack : List Dict) :
    (keys (newKwargs s nPos kw stack)).Nodup := by
  unfold newKwargs baseKwargs dictOf
  apply nodup_dupdate
  rw [keys_applyCtx]
  apply nodup_dupdate
  apply nodup_dupdate
  simp [keys]

theorem dget_of_mem (d : Dict) (h : (keys d).Nodup) (k : String) (v : Val) (hm : (k, v) ∈ d) :
    dget d k = some v := by
  induction d with
  | nil => simp at hm
  | cons hd t ih =>
    obtain ⟨a, b⟩ := hd
    simp only [keys, List.map_cons, List.nodup_cons] at h
    simp only [List.mem_cons, Prod.mk.injEq] at hm
    rcases hm with ⟨e1, e2⟩ | hm
    · subst e1; subst e2; simp [dget]
    · have hne : ¬ a = k := by
        intro e; subst e
        exact h.1 (List.mem_map.mpr ⟨(a, v), hm, rfl⟩)
      simp only [dget, hne, if_false]
      exact ih h.2 hm

theorem mem_of_dget (d : Dict) (k : String) (v : Val) (h : dget d k = some v) : (k, v) ∈ d := by
  induction d with
  | nil => simp [dget] at h
  | cons hd t ih =>
    obtain ⟨a, b⟩ := hd
    by_cases e : a = k
    · subst e; simp only [dget, if_true, Option.some.injEq] at h; subst h; simp
    · simp only [dget, e, if_false] at h
      exact List.mem_cons_of_mem _ (ih h)

theorem dgetLast_eq_dget (d : Dict) (h : (keys d).Nodup) (k : String) : dgetLast d k = dget d k := by
  induction d with
  | nil => rfl
  | cons hd t ih =>
    obtain ⟨a, b⟩ := hd
    simp only [keys, List.map_cons, List.nodup_cons] at h
    simp only [dgetLast, dget, ih h.2]
    by_cases e : a = k
    · subst e
      have : dget t a = none := by
        cases hg : dget t a with
        | none => rfl
        | some w => exact absurd (List.mem_map.mpr ⟨(a, w), mem_of_dget t a w hg, rfl⟩) h.1
      simp [this]
    · simp only [e, if_false]
      cases dget t k <;> rfl

/-! ### defaults -/

theorem dgetLast_none_of_not_mem (d : Dict) (k : String) (h : k ∉ keys d) : dgetLast d k = none := by
  induction d with
  | nil => rfl
  | cons hd t ih =>
    obtain ⟨a, b⟩ := hd
    simp only [keys, List.map_cons, List.mem_cons, not_or] at h
    have : ¬ a = k := fun e => h.1 e.symm
    simp only [dgetLast, ih h.2, this, if_false]

theorem keys_zip_subset (a : List String) : ∀ (b : List Val) (k : String), k ∈ keys (a.zip b) → k ∈ a := by
  induction a with
  | nil => intro b k h; simp [keys] at h
  | cons x t ih =>
    intro b k h
    cases b with
    | nil => simp [keys] at h
    | cons y bt =>
      simp only [List.zip_cons_cons, keys, List.map_cons, List.mem_cons] at h
      rcases h with h | h
      · simp [h]
      · exact List.mem_cons_of_mem _ (ih bt k h)

theorem nodup_keys_zip (a : List String) : ∀ (b : List Val), a.Nodup → (keys (a.zip b)).Nodup := by
  induction a with
  | nil => intro b _; simp [keys]
  | cons x t ih =>
    intro b h
    cases b with
    | nil => simp [keys]
    | cons y bt =>
      simp only [List.nodup_cons] at h
      simp only [List.zip_cons_cons, keys, List.map_cons, List.nodup_cons]
      exact ⟨fun hm => h.1 (keys_zip_subset t bt x hm), ih bt h.2⟩

theorem wf_parts (s : Sig) (h : s.wf = true) :
    s.argNames.Nodup ∧ (keys s.kwOnly).Nodup ∧ (∀ k ∈ keys s.kwOnly, k ∉ s.argNames) := by
  simp only [Sig.wf, Bool.and_eq_true, decide_eq_true_eq, List.all_eq_true, Bool.not_eq_true',
    List.contains_eq_mem, decide_eq_false_iff_not] at h
  exact ⟨h.1.1.1.1.2, h.1.1.1.2, fun k hk => h.1.1.2 k hk⟩

/-! ### the `Required` scan -/

theorem firstRequired_none (d : Dict) : firstRequired d = none ↔ ∀ kv ∈ d, kv.2 ≠ Val.required := by
  induction d with
  | nil => simp [firstRequired]
  | cons hd t ih =>
    obtain ⟨a, b⟩ := hd
    by_cases e : b = Val.required
    · simp [firstRequired, e]
    · simp [firstRequired, e, ih]

theorem firstRequired_some (d : Dict) (k : String) (h : firstRequired d = some k) : (k, Val.required) ∈ d := by
  induction d with
  | nil => simp [firstRequired] at h
  | cons hd t ih =>
    obtain ⟨a, b⟩ := hd
    by_cases e : b = Val.required
    · simp only [firstRequired, e, if_true, Option.some.injEq] at h; subst h; subst e; simp
    · simp only [firstRequired, e, if_false] at h
      exact List.mem_cons_of_mem _ (ih h)

/-! ### the stack discipline -/

/-- running any program can only change the newest context (by `update_current_context`) -/
theorem exec_stack (E : Env) (p : Prog) : ∀ (top : Dict) (rest : List Dict),
    ∃ top', (exec E (top :: rest) p).stack = top' :: rest := by
  induction p with
  | done => intro top rest; exact ⟨top, rfl⟩
  | raise => intro top rest; exact ⟨top, rfl⟩
  | call id m pos kw caught fails next ih =>
    intro top rest
    simp only [exec]
    split
    · exact ⟨top, rfl⟩
    · exact ih top rest
  | update kv next ih =>
    intro top rest
    simp only [exec, updTop]
    exact ih _ rest
  | block id ctx body cb next ihb ihc ihn =>
    intro top rest
    obtain ⟨c', hc⟩ := ihb (dictOf ctx) (top :: rest)
    obtain ⟨c'', hc2⟩ := ihc c' (top :: rest)
    simp only [exec, hc, hc2, List.tail_cons]
    split
    · exact ⟨top, rfl⟩
    · exact ihn top rest
  | app id pos kw sf body cb next ihb ihc ihn =>
    intro top rest
    simp only [exec]
    split
    · exact ⟨top, rfl⟩
    · split
      · exact ⟨top, rfl⟩
      · rename_i bound _
        obtain ⟨c', hc⟩ := ihb [("app_id", (dget bound "app_id").getD Val.none)] (top :: rest)
        obtain ⟨c'', hc2⟩ := ihc c' (top :: rest)
        simp only [hc]
        split
        · simp only [List.tail_cons]
          split
          · exact ⟨top, rfl⟩
          · exact ihn top rest
        · simp only [hc2, List.tail_cons]
          split
          · exact ⟨top, rfl⟩
          · exact ihn top rest
  | attempt body next ihb ihn =>
    intro top rest
    obtain ⟨c', hc⟩ := ihb top rest
    simp only [exec, hc]
    exact ihn c' rest

/-- `update_current_context` does not occur at the level of this statement sequence
(it may occur inside nested blocks and their callbacks, where it acts on the block's own context) -/
def noTopUpdate : Prog → Bool
  | .done => true
  | .raise => true
  | .call _ _ _ _ _ _ next => noTopUpdate next
  | .update _ _ => false
  | .block _ _ _ _ next => noTopUpdate next
  | .app _ _ _ _ _ _ next => noTopUpdate next
  | .attempt body next => noTopUpdate body && noTopUpdate next

theorem exec_stack_same (E : Env) (p : Prog) : ∀ (top : Dict) (rest : List Dict),
    noTopUpdate p = true → (exec E (top :: rest) p).stack = top :: rest := by
  induction p with
  | done => intro top rest _; rfl
  | raise => intro top rest _; rfl
  | call id m pos kw caught fails next ih =>
    intro top rest h
    simp only [noTopUpdate] at h
    simp only [exec]
    split
    · rfl
    · exact ih top rest h
  | update kv next ih => intro top rest h; simp [noTopUpdate] at h
  | block id ctx body cb next ihb ihc ihn =>
    intro top rest h
    simp only [noTopUpdate] at h
    obtain ⟨c', hc⟩ := exec_stack E body (dictOf ctx) (top :: rest)
    obtain ⟨c'', hc2⟩ := exec_stack E cb c' (top :: rest)
    simp only [exec, hc, hc2, List.tail_cons]
    split
    · rfl
    · exact ihn top rest h
  | app id pos kw sf body cb next ihb ihc ihn =>
    intro top rest h
    simp only [noTopUpdate] at h
    simp only [exec]
    split
    · rfl
    · split
      · rfl
      · rename_i bound _
        obtain ⟨c', hc⟩ := exec_stack E body [("app_id", (dget bound "app_id").getD Val.none)] (top :: rest)
        obtain ⟨c'', hc2⟩ := exec_stack E cb c' (top :: rest)
        simp only [hc]
        split
        · simp only [List.tail_cons]
          split
          · rfl
          · exact ihn top rest h
        · simp only [hc2, List.tail_cons]
          split
          · rfl
          · exact ihn top rest h
  | attempt body next ihb ihn =>
    intro top rest h
    simp only [noTopUpdate, Bool.and_eq_true] at h
    simp only [exec, ihb top rest h.1]
    exact ihn top rest h.2

end Rig.C18
