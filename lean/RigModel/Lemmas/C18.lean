/-
C18 - helper lemmas: insertion-ordered dicts, the decorator's dictionary, the stack discipline of `exec`.
-/
import RigModel.Model.C18
set_option linter.unusedSimpArgs false
set_option linter.unusedVariables false

namespace Rig.C18

theorem dget_dset (d : Dict) (k k' : String) (v : Val) :
    dget (dset d k v) k' = if k = k' then some v else dget d k' := by
  induction d with
  | nil => simp [dset, dget]
  | cons hd t ih =>
    obtain ⟨a, b⟩ := hd
    by_cases hak : a = k
    · subst hak
      simp only [dset, if_true, dget]
      by_cases h : a = k' <;> simp [h]
    · simp only [dset, hak, if_false, dget, ih]
      by_cases h : a = k'
      · subst h
        have : ¬ k = a := fun e => hak e.symm
        simp [this]
      · simp [h]

theorem dget_dupdate (u : Dict) : ∀ (d : Dict) (k : String),
    dget (dupdate d u) k = (match dgetLast u k with | some v => some v | none => dget d k) := by
  induction u with
  | nil => intro d k; simp [dupdate, dgetLast]
  | cons hd t ih =>
    intro d k
    obtain ⟨a, b⟩ := hd
    simp only [dupdate, ih, dgetLast, dget_dset]
    cases dgetLast t k with
    | some w => rfl
    | none => by_cases h : a = k <;> simp [h]

theorem dget_merged (s : List Dict) (k : String) : dget (merged s) k = ctxLookup s k := by
  induction s with
  | nil => simp [merged, ctxLookup, dget]
  | cons c older ih =>
    simp only [merged, ctxLookup, dget_dupdate, ih]
    cases dgetLast c k <;> rfl

theorem dhas_eq (d : Dict) (k : String) : dhas d k = (dget d k).isSome := rfl

theorem dget_applyCtx (ctx : Dict) : ∀ (nk : Dict) (k : String),
    dget (applyCtx nk ctx) k =
      (match dget nk k with
       | none => none
       | some d => (match dgetLast ctx k with | some v => some v | none => some d)) := by
  induction ctx with
  | nil => intro nk k; simp only [applyCtx, dgetLast]; cases dget nk k <;> rfl
  | cons hd rest ih =>
    intro nk k
    obtain ⟨n, v⟩ := hd
    simp only [applyCtx, ih, dgetLast]
    by_cases hn : n = k
    · subst hn
      cases hd : dget nk n with
      | none => simp [dhas_eq, hd]
      | some d =>
        simp only [dhas_eq, hd, Option.isSome_some, if_true, dget_dset]
        cases dgetLast rest n <;> simp
    · by_cases hh : dhas nk n = true
      · simp only [hh, if_true, dget_dset, hn, if_false]
        cases h1 : dget nk k <;> cases h2 : dgetLast rest k <;> simp_all
      · simp only [hh, if_false, hn]
        cases h1 : dget nk k <;> cases h2 : dgetLast rest k <;> simp_all

/-! ### keys are never duplicated by assignment -/

theorem keys_dset (d : Dict) (k : String) (v : Val) :
    keys (dset d k v) = if k ∈ keys d then keys d else keys d ++ [k] := by
  induction d with
  | nil => simp [dset, keys]
  | cons hd t ih =>
    obtain ⟨a, b⟩ := hd
    by_cases hak : a = k
    · subst hak; simp [dset, keys]
    · have hka : ¬ k = a := fun e => hak e.symm
      simp only [keys] at ih
      simp only [dset, hak, if_false, keys, List.map_cons, ih, List.mem_cons, hka, false_or]
      split <;> simp_all

theorem nodup_dset (d : Dict) (k : String) (v : Val) (h : (keys d).Nodup) : (keys (dset d k v)).Nodup := by
  rw [keys_dset]
  split
  · exact h
  · rename_i hk
    exact List.nodup_append.mpr ⟨h, (by simp), by
      intro a ha b hb; simp at hb; subst hb; intro e; subst e; exact hk ha⟩

theorem nodup_dupdate (u : Dict) : ∀ d : Dict, (keys d).Nodup → (keys (dupdate d u)).Nodup := by
  induction u with
  | nil => intro d h; exact h
  | cons hd t ih => intro d h; obtain ⟨a, b⟩ := hd; exact ih _ (nodup_dset d a b h)

theorem keys_applyCtx (ctx : Dict) : ∀ nk : Dict, keys (applyCtx nk ctx) = keys nk := by
  induction ctx with
  | nil => intro nk; rfl
  | cons hd rest ih =>
    intro nk
    obtain ⟨n, v⟩ := hd
    simp only [applyCtx, ih]
    split
    · rename_i hh
      rw [keys_dset]
      have : n ∈ keys nk := by
        simp only [dhas_eq] at hh
        clear ih
        induction nk with
        | nil => simp [dget] at hh
        | cons h2 t2 ih2 =>
          obtain ⟨a, b⟩ := h2
          by_cases e : a = n
          · simp [keys, e]
          · simp only [dget, e, if_false] at hh
            simp only [keys, List.map_cons, List.mem_cons]
            right; exact ih2 hh
      simp [this]
    · rfl

theorem nodup_newKwargs (s : Sig) (nPos : Nat) (kw : Dict) (stack : List Dict) :
    (keys (newKwargs s nPos kw stack)).Nodup := by
  unfold newKwargs baseKwargs dictOf
  apply nodup_dupdate
  rw [keys_applyCtx]
  apply nodup_dupdate
  apply nodup_dupdate
  simp [keys]

theorem dget_of_mem (d : Dict) (h : (keys d).Nodup) (k : String) (v : Val) (hm : (k, v) ∈ d) :
    dget d k = some v := by
  induction d with
  | nil => simp at hm
  | cons hd t ih =>
    obtain ⟨a, b⟩ := hd
    simp only [keys, List.map_cons, List.nodup_cons] at h
    simp only [List.mem_cons, Prod.mk.injEq] at hm
    rcases hm with ⟨e1, e2⟩ | hm
    · subst e1; subst e2; simp [dget]
    · have hne : ¬ a = k := by
        intro e; subst e
        exact h.1 (List.mem_map.mpr ⟨(a, v), hm, rfl⟩)
      simp only [dget, hne, if_false]
      exact ih h.2 hm

theorem mem_of_dget (d : Dict) (k : String) (v : Val) (h : dget d k = some v) : (k, v) ∈ d := by
  induction d with
  | nil => simp [dget] at h
  | cons hd t ih =>
    obtain ⟨a, b⟩ := hd
    by_cases e : a = k
    · subst e; simp only [dget, if_true, Option.some.injEq] at h; subst h; simp
    · simp only [dget, e, if_false] at h
      exact List.mem_cons_of_mem _ (ih h)

theorem dgetLast_eq_dget (d : Dict) (h : (keys d).Nodup) (k : String) : dgetLast d k = dget d k := by
  induction d with
  | nil => rfl
  | cons hd t ih =>
    obtain ⟨a, b⟩ := hd
    simp only [keys, List.map_cons, List.nodup_cons] at h
    simp only [dgetLast, dget, ih h.2]
    by_cases e : a = k
    · subst e
      have : dget t a = none := by
        cases hg : dget t a with
        | none => rfl
        | some w => exact absurd (List.mem_map.mpr ⟨(a, w), mem_of_dget t a w hg, rfl⟩) h.1
      simp [this]
    · simp only [e, if_false]
      cases dget t k <;> rfl

/-! ### defaults -/

theorem dgetLast_none_of_not_mem (d : Dict) (k : String) (h : k ∉ keys d) : dgetLast d k = none := by
  induction d with
  | nil => rfl
  | cons hd t ih =>
    obtain ⟨a, b⟩ := hd
    simp only [keys, List.map_cons, List.mem_cons, not_or] at h
    have : ¬ a = k := fun e => h.1 e.symm
    simp only [dgetLast, ih h.2, this, if_false]

theorem keys_zip_subset (a : List String) : ∀ (b : List Val) (k : String), k ∈ keys (a.zip b) → k ∈ a := by
  induction a with
  | nil => intro b k h; simp [keys] at h
  | cons x t ih =>
    intro b k h
    cases b with
    | nil => simp [keys] at h
    | cons y bt =>
      simp only [List.zip_cons_cons, keys, List.map_cons, List.mem_cons] at h
      rcases h with h | h
      · simp [h]
      · exact List.mem_cons_of_mem _ (ih bt k h)

theorem nodup_keys_zip (a : List String) : ∀ (b : List Val), a.Nodup → (keys (a.zip b)).Nodup := by
  induction a with
  | nil => intro b _; simp [keys]
  | cons x t ih =>
    intro b h
    cases b with
    | nil => simp [keys]
    | cons y bt =>
      simp only [List.nodup_cons] at h
      simp only [List.zip_cons_cons, keys, List.map_cons, List.nodup_cons]
      exact ⟨fun hm => h.1 (keys_zip_subset t bt x hm), ih bt h.2⟩

theorem wf_parts (s : Sig) (h : s.wf = true) :
    s.argNames.Nodup ∧ (keys s.kwOnly).Nodup ∧ (∀ k ∈ keys s.kwOnly, k ∉ s.argNames) := by
  simp only [Sig.wf, Bool.and_eq_true, decide_eq_true_eq, List.all_eq_true, Bool.not_eq_true',
    List.contains_eq_mem, decide_eq_false_iff_not] at h
  exact ⟨h.1.1.1.1.2, h.1.1.1.2, fun k hk => h.1.1.2 k hk⟩

/-! ### the `Required` scan -/

theorem firstRequired_none (d : Dict) : firstRequired d = none ↔ ∀ kv ∈ d, kv.2 ≠ Val.required := by
  induction d with
  | nil => simp [firstRequired]
  | cons hd t ih =>
    obtain ⟨a, b⟩ := hd
    by_cases e : b = Val.required
    · simp [firstRequired, e]
    · simp [firstRequired, e, ih]

theorem firstRequired_some (d : Dict) (k : String) (h : firstRequired d = some k) : (k, Val.required) ∈ d := by
  induction d with
  | nil => simp [firstRequired] at h
  | cons hd t ih =>
    obtain ⟨a, b⟩ := hd
    by_cases e : b = Val.required
    · simp only [firstRequired, e, if_true, Option.some.injEq] at h; subst h; subst e; simp
    · simp only [firstRequired, e, if_false] at h
      exact List.mem_cons_of_mem _ (ih h)

/-! ### the stack discipline -/

theorem orElse_stack (st : Bool) (h : Heap) (s : List Nat) (r : Res) (hr : r.stack = s) :
    (orElse st h s r).stack = s := by
  unfold orElse; split <;> simp [hr]

theorem orElse_touched (st : Bool) (h : Heap) (s : List Nat) (r : Res) (i : Nat)
    (hi : i ∈ (orElse st h s r).touched) : i ∈ r.touched := by
  unfold orElse at hi; split at hi
  · simp at hi
  · exact hi

theorem orElse_heap (st : Bool) (h h0 : Heap) (s : List Nat) (r : Res) (i : Nat)
    (h1 : hget h i = hget h0 i) (h2 : i ∉ r.touched → hget r.heap i = hget h0 i)
    (hi : i ∉ (orElse st h s r).touched) : hget (orElse st h s r).heap i = hget h0 i := by
  unfold orElse at hi ⊢; split
  · exact h1
  · rename_i hst; simp only [hst] at hi; exact h2 hi

/-- **every statement sequence leaves the stack of context objects exactly as it found it** - whatever
objects are entered (fresh, already active, left before), whatever raises, whatever the callbacks do -/
theorem exec_stack (E : Env) (p : Prog) : ∀ (h : Heap) (s : List Nat), (exec E h s p).stack = s := by
  induction p with
  | done => intro h s; rfl
  | raise => intro h s; rfl
  | call id m pos kw caught fails next ih =>
    intro h s
    simp only [exec]
    exact orElse_stack _ _ _ _ (ih h s)
  | update kv next ih =>
    intro h s
    cases s with
    | nil => simp only [exec]; exact ih h []
    | cons o t => simp only [exec]; exact ih _ _
  | new o ctx next ih => intro h s; simp only [exec]; exact ih _ _
  | newApp id o pos kw next ih =>
    intro h s
    simp only [exec]
    split
    · rfl
    · split
      · rfl
      · exact ih _ _
  | enter id o sf body cb next ihb ihc ihn =>
    intro h s
    simp only [exec]
    split
    · rfl
    · have hb := ihb h (o :: s)
      have hc : ∀ sk, (orElse sk (exec E h (o :: s) body).heap (exec E h (o :: s) body).stack
          (exec E (exec E h (o :: s) body).heap (exec E h (o :: s) body).stack cb)).stack = o :: s := by
        intro sk; rw [hb]; exact orElse_stack _ _ _ _ (ihc _ _)
      simp only [hc, List.tail_cons]
      exact orElse_stack _ _ _ _ (ihn _ _)
  | attempt body next ihb ihn =>
    intro h s
    simp only [exec, ihb]
    exact ihn _ _

theorem hget_hset (h : Heap) (o i : Nat) (v : Obj) : hget (hset h o v) i = if o = i then some v else hget h i := rfl

/-- objects that are neither created nor updated on the way are what they were -/
theorem exec_heap (E : Env) (p : Prog) : ∀ (h : Heap) (s : List Nat) (i : Nat),
    i ∉ (exec E h s p).touched → hget (exec E h s p).heap i = hget h i := by
  induction p with
  | done => intro h s i _; rfl
  | raise => intro h s i _; rfl
  | call id m pos kw caught fails next ih =>
    intro h s i hi
    simp only [exec] at hi ⊢
    exact orElse_heap _ _ _ _ _ _ rfl (ih h s i) hi
  | update kv next ih =>
    intro h s i hi
    cases s with
    | nil => simp only [exec] at hi ⊢; exact ih h [] i hi
    | cons o t =>
      simp only [exec, List.mem_cons, not_or] at hi ⊢
      rw [ih _ _ i hi.2, hget_hset, if_neg (fun e => hi.1 e.symm)]
  | new o ctx next ih =>
    intro h s i hi
    simp only [exec, List.mem_cons, not_or] at hi ⊢
    rw [ih _ _ i hi.2, hget_hset, if_neg (fun e => hi.1 e.symm)]
  | newApp id o pos kw next ih =>
    intro h s i hi
    simp only [exec] at hi ⊢
    cases hf : findSig E.sigs E.cls "application" with
    | none => rfl
    | some sg =>
      simp only [hf] at hi ⊢
      cases hr : (resolve sg pos.length kw (frames h s) >>= bind sg pos) with
      | error e => rfl
      | ok bound =>
        simp only [hr, List.mem_cons, not_or] at hi ⊢
        rw [ih _ _ i hi.2, hget_hset, if_neg (fun e => hi.1 e.symm)]
  | enter id o sf body cb next ihb ihc ihn =>
    intro h s i hi
    simp only [exec] at hi ⊢
    split
    · rfl
    · rename_i ob ho
      simp only [ho, List.mem_append, not_or] at hi
      obtain ⟨⟨hib, hic⟩, hin⟩ := hi
      have hb := ihb h (o :: s) i hib
      have hc := orElse_heap _ _ h _ _ i hb (fun hx => (ihc _ _ i hx).trans hb) hic
      exact orElse_heap _ _ h _ _ i hc (fun hx => (ihn _ _ i hx).trans hc) hin
  | attempt body next ihb ihn =>
    intro h s i hi
    simp only [exec, List.mem_append, not_or] at hi ⊢
    rw [ihn _ _ i hi.2]
    exact ihb h s i hi.1

theorem frames_congr (h h' : Heap) (s : List Nat) (hs : ∀ i ∈ s, hget h' i = hget h i) :
    frames h' s = frames h s := by
  unfold frames
  apply List.map_congr_left
  intro i hi
  simp only [argsOf, hs i hi]

/-- the arguments in force under a stack none of whose objects was created or updated are what they were -/
theorem exec_inForce (E : Env) (p : Prog) (h : Heap) (s s0 : List Nat)
    (hd : ∀ i ∈ (exec E h s p).touched, i ∉ s0) :
    frames (exec E h s p).heap s0 = frames h s0 :=
  frames_congr _ _ _ (fun i hi => exec_heap E p h s i (fun ht => hd i ht hi))

/-- `update_current_context` does not occur at the level of this statement sequence
(it may occur inside nested blocks and their callbacks, where it acts on the object entered there) -/
def noTopUpdate : Prog → Bool
  | .done => true
  | .raise => true
  | .call _ _ _ _ _ _ next => noTopUpdate next
  | .update _ _ => false
  | .new _ _ next => noTopUpdate next
  | .newApp _ _ _ _ next => noTopUpdate next
  | .enter _ _ _ _ _ next => noTopUpdate next
  | .attempt body next => noTopUpdate body && noTopUpdate next

/-- the object names a program creates or enters, at any depth -/
def oidsOf : Prog → List Nat
  | .done => []
  | .raise => []
  | .call _ _ _ _ _ _ next => oidsOf next
  | .update _ next => oidsOf next
  | .new o _ next => o :: oidsOf next
  | .newApp _ o _ _ next => o :: oidsOf next
  | .enter _ o _ body cb next => o :: (oidsOf body ++ oidsOf cb ++ oidsOf next)
  | .attempt body next => oidsOf body ++ oidsOf next

/-- static bound: only objects the program names can be created or updated, and the object on top
at the start only by an `update_current_context` at the program's own level -/
theorem touched_subset (E : Env) (p : Prog) : ∀ (h : Heap) (s : List Nat) (i : Nat),
    i ∈ (exec E h s p).touched → i ∈ oidsOf p ∨ (noTopUpdate p = false ∧ s.head? = some i) := by
  induction p with
  | done => intro h s i hi; simp [exec] at hi
  | raise => intro h s i hi; simp [exec] at hi
  | call id m pos kw caught fails next ih =>
    intro h s i hi
    simp only [exec] at hi
    simpa [oidsOf, noTopUpdate] using ih h s i (orElse_touched _ _ _ _ _ hi)
  | update kv next ih =>
    intro h s i hi
    cases s with
    | nil =>
      simp only [exec] at hi
      rcases ih h [] i hi with h1 | h1
      · exact Or.inl (by simpa [oidsOf] using h1)
      · simp at h1
    | cons o t =>
      simp only [exec, List.mem_cons] at hi
      rcases hi with hi | hi
      · exact Or.inr ⟨rfl, by simp [hi]⟩
      · rcases ih _ _ i hi with h1 | h1
        · exact Or.inl (by simpa [oidsOf] using h1)
        · exact Or.inr ⟨rfl, h1.2⟩
  | new o ctx next ih =>
    intro h s i hi
    simp only [exec, List.mem_cons] at hi
    rcases hi with hi | hi
    · exact Or.inl (by simp [oidsOf, hi])
    · rcases ih _ _ i hi with h1 | h1
      · exact Or.inl (by simp [oidsOf, h1])
      · exact Or.inr (by simpa [noTopUpdate] using h1)
  | newApp id o pos kw next ih =>
    intro h s i hi
    simp only [exec] at hi
    split at hi
    · simp at hi
    · split at hi
      · simp at hi
      · simp only [List.mem_cons] at hi
        rcases hi with hi | hi
        · exact Or.inl (by simp [oidsOf, hi])
        · rcases ih _ _ i hi with h1 | h1
          · exact Or.inl (by simp [oidsOf, h1])
          · exact Or.inr (by simpa [noTopUpdate] using h1)
  | enter id o sf body cb next ihb ihc ihn =>
    intro h s i hi
    have hb := exec_stack E body h (o :: s)
    have hc : ∀ sk, (orElse sk (exec E h (o :: s) body).heap (exec E h (o :: s) body).stack
        (exec E (exec E h (o :: s) body).heap (exec E h (o :: s) body).stack cb)).stack = o :: s := by
      intro sk; rw [hb]; exact orElse_stack _ _ _ _ (exec_stack E cb _ _)
    simp only [exec] at hi
    split at hi
    · simp at hi
    · simp only [hc, List.tail_cons, List.mem_append] at hi
      rcases hi with (hi | hi) | hi
      · rcases ihb _ _ i hi with h1 | h1
        · exact Or.inl (by simp [oidsOf, h1])
        · exact Or.inl (by have := h1.2; simp at this; simp [oidsOf, this])
      · have hi' := orElse_touched _ _ _ _ _ hi
        rw [hb] at hi'
        rcases ihc _ _ i hi' with h1 | h1
        · exact Or.inl (by simp [oidsOf, h1])
        · exact Or.inl (by have := h1.2; simp at this; simp [oidsOf, this])
      · have hi' := orElse_touched _ _ _ _ _ hi
        rcases ihn _ _ i hi' with h1 | h1
        · exact Or.inl (by simp [oidsOf, h1])
        · exact Or.inr ⟨by simpa [noTopUpdate] using h1.1, h1.2⟩
  | attempt body next ihb ihn =>
    intro h s i hi
    simp only [exec, List.mem_append] at hi
    rcases hi with hi | hi
    · rcases ihb h s i hi with h1 | h1
      · exact Or.inl (by simp [oidsOf, h1])
      · exact Or.inr ⟨by simp [noTopUpdate, h1.1], h1.2⟩
    · rw [exec_stack] at hi
      rcases ihn _ s i hi with h1 | h1
      · exact Or.inl (by simp [oidsOf, h1])
      · exact Or.inr ⟨by simp [noTopUpdate, h1.1], h1.2⟩

end Rig.C18
