/-
C02 - the placement loops (sequential scan, random placer, initial placement of the
annealer) preserve the resource invariant; assembly of `Feasible` for the flat problem.
-/
import RigModel.Lemmas.C02Flat
set_option linter.unusedSimpArgs false
set_option linter.unusedVariables false

namespace Rig.C02

/-! ### facts about the placements recorded by the constraint loop -/

theorem prepare_p (vr : VR) :
    ∀ (cs : List Constraint) (m : Machine) (p : Placement) (m' : Machine) (p' : Placement),
      prepareLoop vr cs m p = .ok (m', p') →
      (∀ v, (aget p v).isSome → (aget p' v).isSome) ∧
      (∀ v c, aget p' v = some c → aget p v = some c ∨ Constraint.loc v c ∈ cs) ∧
      (∀ v c, Constraint.loc v c ∈ cs → (aget p' v).isSome) := by
  intro cs
  induction cs with
  | nil =>
    intro m p m' p' h
    simp [prepareLoop] at h; obtain ⟨rfl, rfl⟩ := h
    exact ⟨fun v h => h, fun v c h => Or.inl h, fun v c h => by simp at h⟩
  | cons k cs ih =>
    intro m p m' p' h
    cases k with
    | loc v c =>
      simp only [prepareLoop] at h
      split at h
      · simp at h
      · split at h
        · simp at h
        · split at h
          · simp at h
          · split at h
            · simp at h
            · split at h
              · simp at h
              · obtain ⟨h1, h2, h3⟩ := ih _ _ _ _ h
                refine ⟨fun u hu => h1 u ?_, fun u cu hu => ?_, fun u cu hu => ?_⟩
                · rw [aget_aset]; split <;> simp [hu]
                · rcases h2 u cu hu with h | h
                  · rw [aget_aset] at h
                    split at h
                    · rename_i e; subst e; simp at h; subst h; right; simp
                    · left; exact h
                  · right; exact List.mem_cons_of_mem _ h
                · simp only [List.mem_cons] at hu
                  rcases hu with hu | hu
                  · injection hu with e1 e2; subst e1; subst e2
                    exact h1 u (by simp [aget_aset_self])
                  · exact h3 u cu hu
    | reserve r amt at_ =>
      simp only [prepareLoop, bind, Except.bind] at h
      split at h
      · simp at h
      · obtain ⟨h1, h2, h3⟩ := ih _ _ _ _ h
        refine ⟨h1, fun u cu hu => ?_, fun u cu hu => ?_⟩
        · rcases h2 u cu hu with h | h
          · left; exact h
          · right; exact List.mem_cons_of_mem _ h
        · simp only [List.mem_cons] at hu
          rcases hu with hu | hu
          · cases hu
          · exact h3 u cu hu
    | same vs =>
      simp only [prepareLoop] at h
      obtain ⟨h1, h2, h3⟩ := ih _ _ _ _ h
      refine ⟨h1, fun u cu hu => ?_, fun u cu hu => ?_⟩
      · rcases h2 u cu hu with h | h
        · left; exact h
        · right; exact List.mem_cons_of_mem _ h
      · simp only [List.mem_cons] at hu
        rcases hu with hu | hu
        · cases hu
        · exact h3 u cu hu
    | endpoint v =>
      simp only [prepareLoop] at h
      obtain ⟨h1, h2, h3⟩ := ih _ _ _ _ h
      refine ⟨h1, fun u cu hu => ?_, fun u cu hu => ?_⟩
      · rcases h2 u cu hu with h | h
        · left; exact h
        · right; exact List.mem_cons_of_mem _ h
      · simp only [List.mem_cons] at hu
        rcases hu with hu | hu
        · cases hu
        · exact h3 u cu hu
    | other =>
      simp only [prepareLoop] at h
      obtain ⟨h1, h2, h3⟩ := ih _ _ _ _ h
      refine ⟨h1, fun u cu hu => ?_, fun u cu hu => ?_⟩
      · rcases h2 u cu hu with h | h
        · left; exact h
        · right; exact List.mem_cons_of_mem _ h
      · simp only [List.mem_cons] at hu
        rcases hu with hu | hu
        · cases hu
        · exact h3 u cu hu

/-- a group is never pinned to two different chips -/
def LocConsistent (cs : List Constraint) : Prop :=
  ∀ v c c', Constraint.loc v c ∈ cs → Constraint.loc v c' ∈ cs → c = c'

theorem prepare_loc {vr : VR} {cs : List Constraint} {m m' : Machine} {p' : Placement}
    (h : prepareLoop vr cs m [] = .ok (m', p')) (hc : LocConsistent cs) :
    ∀ v c, Constraint.loc v c ∈ cs → aget p' v = some c := by
  intro v c hv
  obtain ⟨_, h2, h3⟩ := prepare_p vr cs m [] m' p' h
  have := h3 v c hv
  cases hp : aget p' v with
  | none => simp [hp] at this
  | some c' =>
    rcases h2 v c' hp with h | h
    · simp [aget] at h
    · rw [hc v c c' hv h]

/-! ### sequential scan -/

theorem scan_placed {chips : List Chip} {m : Machine} {d : Res} {last : Chip} :
    ∀ (fuel pos : Nat) {pos' : Nat} {c : Chip} {r : Res},
      scan chips m d last fuel pos = .placed pos' c r →
      ∃ cur, m.get c = some cur ∧ r = sub cur d ∧ over r = false := by
  intro fuel
  induction fuel with
  | zero => intro pos pos' c r h; simp [scan] at h
  | succ n ih =>
    intro pos pos' c r h
    simp only [scan] at h
    split at h
    · simp at h
    · rename_i cur hg
      split at h
      · rename_i ho
        injection h with h1 h2 h3
        subst h2; subst h3
        exact ⟨cur, hg, rfl, by simpa using ho⟩
      · split at h
        · simp at h
        · exact ih _ h

structure LoopOut (vr : VR) (m0 : Machine) (rsv : Chip → Nat → Int) (p : Placement) (vs : List Vtx)
    (pf : Placement) : Prop where
  inv : ∃ mf, Inv vr m0 rsv mf pf
  mono : ∀ v c, aget p v = some c → aget pf v = some c
  all : ∀ v ∈ vs, (aget pf v).isSome

theorem seqLoop_inv {vr m0 rsv} (hn : (keys vr).Nodup) (hnn : NonNegVR vr) (chips : List Chip) :
    ∀ (vs : List Vtx) (pos : Nat) (m : Machine) (p pf : Placement),
      Inv vr m0 rsv m p → seqLoop vr chips vs pos m p = .ok pf → LoopOut vr m0 rsv p vs pf := by
  intro vs
  induction vs with
  | nil =>
    intro pos m p pf I h
    simp [seqLoop] at h; subst h
    exact ⟨⟨m, I⟩, fun v c h => h, fun v h => by simp at h⟩
  | cons v vs ih =>
    intro pos m p pf I h
    simp only [seqLoop] at h
    split at h
    · rename_i hs
      obtain ⟨i1, i2, i3⟩ := ih _ _ _ _ I h
      refine ⟨i1, i2, fun u hu => ?_⟩
      simp only [List.mem_cons] at hu
      rcases hu with rfl | hu
      · cases hp : aget p u with
        | none => simp [hp] at hs
        | some c => simp [i2 u c hp]
      · exact i3 u hu
    · rename_i hs
      split at h
      · simp at h
      · rename_i d hv
        split at h
        · simp at h
        · rename_i pos' c r hsc
          split at h
          · simp at h
          · rename_i m1 hset
            obtain ⟨cur, hg, hr, ho⟩ := scan_placed _ _ hsc
            subst hr
            have I1 := I.place hn hnn hv hg ho hset
            obtain ⟨i1, i2, i3⟩ := ih _ _ _ _ I1 h
            have hnone : aget p v = none := by
              cases hp : aget p v with
              | none => rfl
              | some x => simp [hp] at hs
            refine ⟨i1, fun u cu hu => i2 u cu ?_, fun u hu => ?_⟩
            · rw [aget_aset]; split
              · rename_i e; subst e; rw [hnone] at hu; simp at hu
              · exact hu
            · simp only [List.mem_cons] at hu
              rcases hu with rfl | hu
              · simp [i2 u c (aget_aset_self p u c)]
              · exact i3 u hu

/-! ### random placer -/

theorem randLoop_inv {vr m0 rsv} (hn : (keys vr).Nodup) (hnn : NonNegVR vr) :
    ∀ (picks : List Chip) (vs : List Vtx) (locs : List Chip) (m : Machine) (p pf : Placement),
      Inv vr m0 rsv m p → (∀ v ∈ vs, aget p v = none) → vs.Nodup →
      randLoop vr picks vs locs m p = .ok pf → LoopOut vr m0 rsv p vs pf := by
  intro picks
  induction picks with
  | nil =>
    intro vs locs m p pf I hfree hnd h
    cases vs with
    | nil =>
      simp [randLoop] at h; subst h
      exact ⟨⟨m, I⟩, fun v c h => h, fun v h => by simp at h⟩
    | cons v vs => cases locs <;> simp [randLoop] at h
  | cons pick picks ih =>
    intro vs locs m p pf I hfree hnd h
    cases vs with
    | nil =>
      simp [randLoop] at h; subst h
      exact ⟨⟨m, I⟩, fun v c h => h, fun v h => by simp at h⟩
    | cons v vs =>
      simp only [randLoop] at h
      split at h
      · simp at h
      · split at h
        · simp at h
        · split at h
          · simp at h
          · rename_i d hv
            split at h
            · simp at h
            · rename_i cur hg
              split at h
              · exact ih _ _ _ _ _ I hfree hnd h
              · rename_i ho
                split at h
                · simp at h
                · rename_i m1 hset
                  have I1 := I.place hn hnn hv hg (by simpa using ho) hset
                  have hnone : aget p v = none := hfree v (by simp)
                  simp only [List.nodup_cons] at hnd
                  have hfree' : ∀ u ∈ vs, aget (aset p v pick) u = none := by
                    intro u hu
                    rw [aget_aset]; split
                    · rename_i e; subst e; exact absurd hu hnd.1
                    · exact hfree u (List.mem_cons_of_mem _ hu)
                  obtain ⟨i1, i2, i3⟩ := ih _ _ _ _ _ I1 hfree' hnd.2 h
                  refine ⟨i1, fun u cu hu => i2 u cu ?_, fun u hu => ?_⟩
                  · rw [aget_aset]; split
                    · rename_i e; subst e; rw [hnone] at hu; simp at hu
                    · exact hu
                  · simp only [List.mem_cons] at hu
                    rcases hu with rfl | hu
                    · simp [i2 u pick (aget_aset_self p u pick)]
                    · exact i3 u hu

/-! ### initial placement of the annealer -/

theorem advance_found {m : Machine} {d : Res} :
    ∀ (locs : List Chip) (cur : Chip) {c : Chip} {rest : List Chip} {r : Res},
      advance m d cur locs = .found c rest r →
      ∃ free, m.get c = some free ∧ r = sub free d ∧ over r = false := by
  intro locs
  induction locs with
  | nil =>
    intro cur c rest r h
    simp only [advance] at h
    split at h
    · simp at h
    · rename_i free hg
      split at h
      · simp at h
      · rename_i ho
        injection h with h1 h2 h3; subst h1; subst h3
        exact ⟨free, hg, rfl, by simpa using ho⟩
  | cons l ls ih =>
    intro cur c rest r h
    simp only [advance] at h
    split at h
    · simp at h
    · rename_i free hg
      split at h
      · exact ih _ h
      · rename_i ho
        injection h with h1 h2 h3; subst h1; subst h3
        exact ⟨free, hg, rfl, by simpa using ho⟩

theorem initLoop_inv {vr m0 rsv} (hn : (keys vr).Nodup) (hnn : NonNegVR vr) :
    ∀ (vs : List Vtx) (cur : Chip) (locs : List Chip) (m : Machine) (p : Placement) (mf : Machine) (pf : Placement),
      Inv vr m0 rsv m p → initLoop vr vs cur locs m p = .ok (mf, pf) →
      Inv vr m0 rsv mf pf ∧ (∀ v ∈ vs, (aget pf v).isSome) ∧
      (∀ v, (aget p v).isSome → (aget pf v).isSome) := by
  intro vs
  induction vs with
  | nil =>
    intro cur locs m p mf pf I h
    simp [initLoop] at h; obtain ⟨rfl, rfl⟩ := h
    exact ⟨I, fun v h => by simp at h, fun v h => h⟩
  | cons v vs ih =>
    intro cur locs m p mf pf I h
    simp only [initLoop] at h
    split at h
    · simp at h
    · rename_i d hv
      split at h
      · simp at h
      · simp at h
      · rename_i c locs' r hadv
        split at h
        · simp at h
        · rename_i m1 hset
          obtain ⟨free, hg, hr, ho⟩ := advance_found _ _ hadv
          subst hr
          have I1 := I.place hn hnn hv hg ho hset
          obtain ⟨i1, i2, i3⟩ := ih _ _ _ _ _ _ I1 h
          refine ⟨i1, fun u hu => ?_, fun u hu => i3 u ?_⟩
          · simp only [List.mem_cons] at hu
            rcases hu with rfl | hu
            · exact i3 u (by simp [aget_aset_self])
            · exact i2 u hu
          · rw [aget_aset]; split <;> simp [hu]

/-! ### assembly -/

/-- every same-chip constraint left after merging lists one vertex only -/
def SameTrivial (cs : List Constraint) : Prop :=
  ∀ vs, Constraint.same vs ∈ cs → ∀ a ∈ vs, ∀ b ∈ vs, a = b

theorem feasible_of_inv {vr : VR} {cs : List Constraint} {m0 mf : Machine} {pf : Placement}
    (I : Inv vr m0 (fun c i => reserved cs c i) mf pf)
    (hall : ∀ v ∈ keys vr, (aget pf v).isSome)
    (hloc : ∀ v c, Constraint.loc v c ∈ cs → aget pf v = some c)
    (hsame : SameTrivial cs) : Feasible vr cs m0 pf where
  keysNodup := I.pnodup
  placed := by
    intro v hv
    have := hall v hv
    cases hp : aget pf v with
    | none => simp [hp] at this
    | some c => exact ⟨c, rfl, I.pok v c hp⟩
  onlyVertices := I.pvr
  capacity := by
    intro c hc i hi
    have := I.bound c hc i hi
    have := I.nonneg c hc i
    omega
  location := hloc
  sameChip := by
    intro vs hvs a ha b hb
    rw [hsame vs hvs a ha b hb]

end Rig.C02
