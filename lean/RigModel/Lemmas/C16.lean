/-
C16 - helper lemmas: truncation, clamping, dyadic comparison (bridge to ℚ).
-/
import Mathlib.Tactic.Linarith
import Mathlib.Tactic.Positivity
import Mathlib.Tactic.Ring
import Mathlib.Tactic.FieldSimp
import Mathlib.Algebra.Order.Field.Power
import Mathlib.Data.Rat.Cast.Order
import RigModel.Model.C16
set_option linter.unusedSimpArgs false
set_option linter.unusedVariables false

namespace Rig.C16

theorem den_pos (k : Int) : 0 < den k := by
  unfold den; split
  · decide
  · positivity

theorem maxV_nonneg (f : Fmt) : 0 ≤ f.maxV := by
  unfold Fmt.maxV
  have h1 : (0 : Int) < 2 ^ (f.bits - 1) := by positivity
  have h2 : (0 : Int) < 2 ^ f.bits := by positivity
  split <;> omega

theorem minV_nonpos (f : Fmt) : f.minV ≤ 0 := by
  have := maxV_nonneg f
  unfold Fmt.minV; split <;> omega

/-- `Int.tdiv` is truncation toward zero -/
theorem tdiv_isTrunc (n d : Int) (hd : 0 < d) : IsTrunc (Int.tdiv n d) n d := by
  have e := Int.mul_tdiv_add_tmod n d
  have hlt := Int.tmod_lt_of_pos n hd
  constructor
  · intro hn
    have h0 := Int.tmod_nonneg d hn
    constructor <;> nlinarith
  · intro hn
    have h0 : n.tmod d ≤ 0 := by
      have := Int.tmod_nonneg d (show 0 ≤ -n by omega)
      rw [Int.neg_tmod] at this; omega
    have h1 : -d < n.tmod d := by
      have := Int.tmod_lt_of_pos (-n) hd
      rw [Int.neg_tmod] at this; omega
    constructor <;> nlinarith

theorem isTrunc_unique {t t' n d : Int} (hd : 0 < d) (h : IsTrunc t n d) (h' : IsTrunc t' n d) : t = t' := by
  obtain ⟨a, b⟩ := h
  obtain ⟨a', b'⟩ := h'
  rcases lt_or_ge n 0 with hn | hn
  · obtain ⟨x1, x2⟩ := b hn
    obtain ⟨y1, y2⟩ := b' hn
    have : t - 1 < t' := by nlinarith
    have : t' - 1 < t := by nlinarith
    omega
  · obtain ⟨x1, x2⟩ := a hn
    obtain ⟨y1, y2⟩ := a' hn
    have : t < t' + 1 := by nlinarith
    have : t' < t + 1 := by nlinarith
    omega

/-- truncation is monotone: `n/d ≤ n'/d'` gives `t ≤ t'` -/
theorem isTrunc_mono {t t' n d n' d' : Int} (hd : 0 < d) (hd' : 0 < d')
    (hle : n * d' ≤ n' * d) (h : IsTrunc t n d) (h' : IsTrunc t' n' d') : t ≤ t' := by
  obtain ⟨a, b⟩ := h
  obtain ⟨a', b'⟩ := h'
  rcases lt_or_ge n 0 with hn | hn <;> rcases lt_or_ge n' 0 with hn' | hn'
  · obtain ⟨x1, x2⟩ := b hn
    obtain ⟨y1, y2⟩ := b' hn'
    -- (t-1) d < n, n' ≤ t' d'
    have : (t - 1) * (d * d') < t' * (d * d') := by nlinarith
    have : t - 1 < t' := by nlinarith [Int.mul_pos hd hd']
    omega
  · obtain ⟨x1, x2⟩ := b hn
    obtain ⟨y1, y2⟩ := a' hn'
    have : t - 1 < 0 := by nlinarith
    have : 0 < t' + 1 := by nlinarith
    omega
  · exfalso
    have h1 : 0 ≤ n * d' := Int.mul_nonneg hn (Int.le_of_lt hd')
    have h2 : n' * d < 0 := by nlinarith
    omega
  · obtain ⟨x1, x2⟩ := a hn
    obtain ⟨y1, y2⟩ := a' hn'
    have : t * (d * d') < (t' + 1) * (d * d') := by nlinarith
    have : t < t' + 1 := by nlinarith [Int.mul_pos hd hd']
    omega


/-! ### bridge to ℚ -/

/-- the rational a dyadic pair denotes -/
def Dy.toRat (d : Dy) : ℚ := d.m * (2 : ℚ) ^ d.e

theorem pow_toNat_cast {k : Int} (hk : 0 ≤ k) : (((2 : Int) ^ k.toNat : Int) : ℚ) = (2 : ℚ) ^ k := by
  have : ((k.toNat : Int)) = k := Int.toNat_of_nonneg hk
  push_cast
  rw [← zpow_natCast, this]

theorem num_den_rat (m k : Int) : (num m k : ℚ) = m * (2 : ℚ) ^ k * (den k : ℚ) := by
  unfold num den
  split
  · rename_i hk
    push_cast
    rw [← zpow_natCast, Int.toNat_of_nonneg hk]; ring
  · rename_i hk
    have hk' : 0 ≤ -k := by omega
    rw [pow_toNat_cast hk', zpow_neg]
    have : (2 : ℚ) ^ k ≠ 0 := by positivity
    field_simp

theorem den_pos_rat (k : Int) : (0 : ℚ) < (den k : ℚ) := by
  exact_mod_cast den_pos k

theorem le_iff_toRat (a b : Dy) : Dy.le a b ↔ a.toRat ≤ b.toRat := by
  unfold Dy.le Dy.toRat
  simp only
  have ha : 0 ≤ a.e - min a.e b.e := by omega
  have hb : 0 ≤ b.e - min a.e b.e := by omega
  rw [← @Int.cast_le ℚ]
  push_cast
  have e1 := pow_toNat_cast ha
  have e2 := pow_toNat_cast hb
  push_cast at e1 e2
  rw [e1, e2, zpow_sub₀ (by norm_num), zpow_sub₀ (by norm_num)]
  have hp : (0 : ℚ) < (2 : ℚ) ^ (min a.e b.e) := by positivity
  rw [← mul_div_assoc, ← mul_div_assoc, div_le_div_iff_of_pos_right hp]

/-- comparison of the scaled values by cross-multiplication = comparison of the doubles -/
theorem cross_iff_le (a b : Dy) (f : Int) :
    num a.m (a.e + f) * den (b.e + f) ≤ num b.m (b.e + f) * den (a.e + f) ↔ Dy.le a b := by
  rw [le_iff_toRat, ← @Int.cast_le ℚ]
  push_cast
  rw [num_den_rat, num_den_rat]
  have h1 := den_pos_rat (a.e + f)
  have h2 := den_pos_rat (b.e + f)
  unfold Dy.toRat
  rw [zpow_add₀ (by norm_num), zpow_add₀ (by norm_num)]
  have hf : (0 : ℚ) < (2 : ℚ) ^ f := by positivity
  have hpos : (0 : ℚ) < (2 : ℚ) ^ f * den (a.e + f) * den (b.e + f) := by positivity
  constructor
  · intro h
    by_contra hc
    rw [not_le] at hc
    have := mul_lt_mul_of_pos_right hc hpos
    nlinarith
  · intro h
    have := mul_le_mul_of_nonneg_right h (le_of_lt hpos)
    nlinarith

theorem magLt_iff (m k : Int) (b : Nat) :
    magLt m k b = true ↔ (|(m : ℚ)|) * (2 : ℚ) ^ k < (2 : ℚ) ^ (b : ℤ) := by
  have habs : ((m.natAbs : ℕ) : ℚ) = |(m : ℚ)| := by
    rw [← Int.cast_abs, Int.abs_eq_natAbs]; simp
  unfold magLt
  split
  · rename_i hk
    rw [decide_eq_true_iff, ← @Nat.cast_lt ℚ]
    push_cast
    rw [habs, ← zpow_natCast (2 : ℚ) k.toNat, Int.toNat_of_nonneg hk, zpow_natCast]
  · rename_i hk
    have hk' : 0 ≤ -k := by omega
    rw [decide_eq_true_iff, ← @Nat.cast_lt ℚ]
    push_cast
    rw [habs, pow_add, ← zpow_natCast (2 : ℚ) (-k).toNat, Int.toNat_of_nonneg hk', zpow_neg, zpow_natCast]
    have hp : (0 : ℚ) < (2 : ℚ) ^ k := by positivity
    rw [← div_eq_mul_inv, lt_div_iff₀ hp]

theorem rne_zero (k : Int) : rne k 0 = k := by
  unfold rne; simp

theorem round53_small (k : Int) (h : k.natAbs < 2 ^ 53) : round53 k = ⟨k, 0⟩ := by
  unfold round53
  have : bitLen k.natAbs - 53 = 0 := by
    unfold bitLen
    split
    · rfl
    · rename_i hne
      have := (Nat.log2_lt hne).mpr h
      omega
  simp only [this, rne_zero, Int.natCast_zero]

end Rig.C16
