/-
C16 - helper lemmas: truncation, clamping, dyadic comparison (bridge to ℚ).
-/
import Mathlib.Tactic.Linarith
import Mathlib.Tactic.Positivity
import Mathlib.Tactic.Ring
import Mathlib.Tactic.FieldSimp
import Mathlib.Algebra.Order.Field.Power
import Mathlib.Data.Rat.Cast.Order
import RigModel.Lemmas.C16Rne
set_option linter.unusedSimpArgs false
set_option linter.unusedVariables false

namespace Rig.C16

theorem den_pos (k : Int) : 0 < den k := by
  unfold den; split
  · decide
  · positivity

theorem maxV_nonneg (f : Fmt) : 0 ≤ f.maxV := by
  unfold Fmt.maxV
  have h1 : (0 : Int) < 2 ^ (f.bits - 1) := by positivity
  have h2 : (0 : Int) < 2 ^ f.bits := by positivity
  split <;> omega

theorem minV_nonpos (f : Fmt) : f.minV ≤ 0 := by
  have := maxV_nonneg f
  unfold Fmt.minV; split <;> omega

/-- `Int.tdiv` is truncation toward zero -/
theorem tdiv_isTrunc (n d : Int) (hd : 0 < d) : IsTrunc (Int.tdiv n d) n d := by
  have e := Int.mul_tdiv_add_tmod n d
  have hlt := Int.tmod_lt_of_pos n hd
  constructor
  · intro hn
    have h0 := Int.tmod_nonneg d hn
    constructor <;> nlinarith
  · intro hn
    have h0 : n.tmod d ≤ 0 := by
      have := Int.tmod_nonneg d (show 0 ≤ -n by omega)
      rw [Int.neg_tmod] at this; omega
    have h1 : -d < n.tmod d := by
      have := Int.tmod_lt_of_pos (-n) hd
      rw [Int.neg_tmod] at this; omega
    constructor <;> nlinarith

theorem isTrunc_unique {t t' n d : Int} (hd : 0 < d) (h : IsTrunc t n d) (h' : IsTrunc t' n d) : t = t' := by
  obtain ⟨a, b⟩ := h
  obtain ⟨a', b'⟩ := h'
  rcases lt_or_ge n 0 with hn | hn
  · obtain ⟨x1, x2⟩ := b hn
    obtain ⟨y1, y2⟩ := b' hn
    have : t - 1 < t' := by nlinarith
    have : t' - 1 < t := by nlinarith
    omega
  · obtain ⟨x1, x2⟩ := a hn
    obtain ⟨y1, y2⟩ := a' hn
    have : t < t' + 1 := by nlinarith
    have : t' < t + 1 := by nlinarith
    omega

/-- truncation is monotone: `n/d ≤ n'/d'` gives `t ≤ t'` -/
theorem isTrunc_mono {t t' n d n' d' : Int} (hd : 0 < d) (hd' : 0 < d')
    (hle : n * d' ≤ n' * d) (h : IsTrunc t n d) (h' : IsTrunc t' n' d') : t ≤ t' := by
  obtain ⟨a, b⟩ := h
  obtain ⟨a', b'⟩ := h'
  rcases lt_or_ge n 0 with hn | hn <;> rcases lt_or_ge n' 0 with hn' | hn'
  · obtain ⟨x1, x2⟩ := b hn
    obtain ⟨y1, y2⟩ := b' hn'
    -- (t-1) d < n, n' ≤ t' d'
    have : (t - 1) * (d * d') < t' * (d * d') := by nlinarith
    have : t - 1 < t' := by nlinarith [Int.mul_pos hd hd']
    omega
  · obtain ⟨x1, x2⟩ := b hn
    obtain ⟨y1, y2⟩ := a' hn'
    have : t - 1 < 0 := by nlinarith
    have : 0 < t' + 1 := by nlinarith
    omega
  · exfalso
    have h1 : 0 ≤ n * d' := Int.mul_nonneg hn (Int.le_of_lt hd')
    have h2 : n' * d < 0 := by nlinarith
    omega
  · obtain ⟨x1, x2⟩ := a hn
    obtain ⟨y1, y2⟩ := a' hn'
    have : t * (d * d') < (t' + 1) * (d * d') := by nlinarith
    have : t < t' + 1 := by nlinarith [Int.mul_pos hd hd']
    omega


/-! ### bridge to ℚ -/

/-- the rational a dyadic pair denotes -/
def Dy.toRat (d : Dy) : ℚ := d.m * (2 : ℚ) ^ d.e

theorem pow_toNat_cast {k : Int} (hk : 0 ≤ k) : (((2 : Int) ^ k.toNat : Int) : ℚ) = (2 : ℚ) ^ k := by
  have : ((k.toNat : Int)) = k := Int.toNat_of_nonneg hk
  push_cast
  rw [← zpow_natCast, this]

theorem num_den_rat (m k : Int) : (num m k : ℚ) = m * (2 : ℚ) ^ k * (den k : ℚ) := by
  unfold num den
  split
  · rename_i hk
    push_cast
    rw [← zpow_natCast, Int.toNat_of_nonneg hk]; ring
  · rename_i hk
    have hk' : 0 ≤ -k := by omega
    rw [pow_toNat_cast hk', zpow_neg]
    have : (2 : ℚ) ^ k ≠ 0 := by positivity
    field_simp

theorem den_pos_rat (k : Int) : (0 : ℚ) < (den k : ℚ) := by
  exact_mod_cast den_pos k

theorem le_iff_toRat (a b : Dy) : Dy.le a b ↔ a.toRat ≤ b.toRat := by
  unfold Dy.le Dy.toRat
  simp only
  have ha : 0 ≤ a.e - min a.e b.e := by omega
  have hb : 0 ≤ b.e - min a.e b.e := by omega
  rw [← @Int.cast_le ℚ]
  push_cast
  have e1 := pow_toNat_cast ha
  have e2 := pow_toNat_cast hb
  push_cast at e1 e2
  rw [e1, e2, zpow_sub₀ (by norm_num), zpow_sub₀ (by norm_num)]
  have hp : (0 : ℚ) < (2 : ℚ) ^ (min a.e b.e) := by positivity
  rw [← mul_div_assoc, ← mul_div_assoc, div_le_div_iff_of_pos_right hp]

/-- comparison of the scaled values by cross-multiplication = comparison of the doubles -/
theorem cross_iff_le (a b : Dy) (f : Int) :
    num a.m (a.e + f) * den (b.e + f) ≤ num b.m (b.e + f) * den (a.e + f) ↔ Dy.le a b := by
  rw [le_iff_toRat, ← @Int.cast_le ℚ]
  push_cast
  rw [num_den_rat, num_den_rat]
  have h1 := den_pos_rat (a.e + f)
  have h2 := den_pos_rat (b.e + f)
  unfold Dy.toRat
  rw [zpow_add₀ (by norm_num), zpow_add₀ (by norm_num)]
  have hf : (0 : ℚ) < (2 : ℚ) ^ f := by positivity
  have hpos : (0 : ℚ) < (2 : ℚ) ^ f * den (a.e + f) * den (b.e + f) := by positivity
  constructor
  · intro h
    by_contra hc
    rw [not_le] at hc
    have := mul_lt_mul_of_pos_right hc hpos
    nlinarith
  · intro h
    have := mul_le_mul_of_nonneg_right h (le_of_lt hpos)
    nlinarith

theorem magLt_iff (m k : Int) (b : Nat) :
    magLt m k b = true ↔ (|(m : ℚ)|) * (2 : ℚ) ^ k < (2 : ℚ) ^ (b : ℤ) := by
  have habs : ((m.natAbs : ℕ) : ℚ) = |(m : ℚ)| := by
    rw [← Int.cast_abs, Int.abs_eq_natAbs]; simp
  unfold magLt
  split
  · rename_i hk
    rw [decide_eq_true_iff, ← @Nat.cast_lt ℚ]
    push_cast
    rw [habs, ← zpow_natCast (2 : ℚ) k.toNat, Int.toNat_of_nonneg hk, zpow_natCast]
  · rename_i hk
    have hk' : 0 ≤ -k := by omega
    rw [decide_eq_true_iff, ← @Nat.cast_lt ℚ]
    push_cast
    rw [habs, pow_add, ← zpow_natCast (2 : ℚ) (-k).toNat, Int.toNat_of_nonneg hk', zpow_neg, zpow_natCast]
    have hp : (0 : ℚ) < (2 : ℚ) ^ k := by positivity
    rw [← div_eq_mul_inv, lt_div_iff₀ hp]

theorem round53_small (k : Int) (h : k.natAbs < 2 ^ 53) : round53 k = ⟨k, 0⟩ := by
  unfold round53
  have : bitLen k.natAbs - 53 = 0 := by
    unfold bitLen
    split
    · rfl
    · rename_i hne
      have := (Nat.log2_lt hne).mpr h
      omega
  simp only [this, rne_zero, Int.natCast_zero]

/-! ### definitions used in the statements of Props/C16.lean, and helper lemmas -/
open Rig.Gen.TypeCasts

/-- the clamp used by the code -/
def clamp (fmt : Fmt) (t : Int) : Int := max (min fmt.maxV t) fmt.minV

/-- the exact scaled value lies in the finite range of doubles -/
def FiniteScaled (fmt : Fmt) (v : Dy) : Prop := magLt v.m (v.e + fmt.frac) 1024 = true

/-- the format is one `float_to_fp` accepts -/
def Fmt.Ok (fmt : Fmt) : Prop := ¬ (fmt.signed = true ∧ fmt.bits = 0) ∧ fmt.frac < 1024

theorem fp_ok_inv {fmt : Fmt} {v : Dy} {r : Int} (h : floatToFp fmt v = .ok r) :
    fmt.Ok ∧ FiniteScaled fmt v ∧ r = clamp fmt (truncScaled v.m (v.e + fmt.frac)) := by
  unfold floatToFp at h
  split at h
  · cases h
  · split at h
    · cases h
    · split at h
      · cases h
      · rename_i a b c
        injection h with h
        refine ⟨⟨?_, by omega⟩, ?_, h.symm⟩
        · intro ⟨x, y⟩; simp [x, y] at a
        · unfold FiniteScaled; simpa using c

theorem clamp_spec (fmt : Fmt) (v : Dy) (t : Int)
    (ht : IsTrunc t (scaledNum fmt v) (scaledDen fmt v)) : SpecFp fmt v (clamp fmt t) := by
  have hd : 0 < scaledDen fmt v := den_pos _
  have hM := maxV_nonneg fmt
  have hm := minV_nonpos fmt
  obtain ⟨a, b⟩ := ht
  unfold SpecFp clamp
  simp only
  generalize scaledNum fmt v = n at *
  generalize scaledDen fmt v = d at *
  generalize fmt.maxV = M at *
  generalize fmt.minV = m at *
  split
  · rename_i h
    have hn : 0 ≤ n := by nlinarith
    obtain ⟨x1, x2⟩ := a hn
    have : M + 1 < t + 1 := by nlinarith
    omega
  · split
    · rename_i h1 h
      have hn : n < 0 := by nlinarith
      obtain ⟨x1, x2⟩ := b hn
      have : t - 1 < m - 1 := by nlinarith
      omega
    · rename_i h1 h2
      rw [not_le] at h1 h2
      have : m ≤ t ∧ t ≤ M := by
        rcases lt_or_ge n 0 with hn | hn
        · obtain ⟨x1, x2⟩ := b hn
          have : m - 1 < t := by nlinarith
          have : t - 1 < 0 := by nlinarith
          omega
        · obtain ⟨x1, x2⟩ := a hn
          have : t < M + 1 := by nlinarith
          have : 0 < t + 1 := by nlinarith
          omega
      have e : max (min M t) m = t := by omega
      rw [e]; exact ⟨a, b⟩

/-- `2.0**(-n_frac)` exists, and `k` and `k * 2^-frac` are finite as doubles (no overflow in `fp_to_float`) -/
def InverseDomain (fmt : Fmt) (k : Int) : Prop :=
  -1024 < fmt.frac ∧ magLt k 0 1024 = true ∧ magLt k (-fmt.frac) 1024 = true

theorem tdiv_one' (a : Int) : a.tdiv 1 = a := by simp

instance (f : Fmt) : Decidable f.Ok := by unfold Fmt.Ok; infer_instance
instance (f : Fmt) (k : Int) : Decidable (InverseDomain f k) := by unfold InverseDomain; infer_instance

/-- integer value of a dyadic bound with non-negative exponent -/
def Dy.intVal (b : Dy) : Int := b.m * 2 ^ b.e.toNat

theorem num_den_int (b : Dy) (hb : 0 ≤ b.e) : num b.m b.e = b.intVal ∧ den b.e = 1 := by
  unfold num den Dy.intVal; simp [hb]

theorem le_int_iff (d b : Dy) (hb : 0 ≤ b.e) : Dy.le d b ↔ num d.m d.e ≤ b.intVal * den d.e := by
  have := cross_iff_le d b 0
  simp only [Int.add_zero] at this
  rw [(num_den_int b hb).1, (num_den_int b hb).2, Int.mul_one] at this
  exact this.symm

theorem int_le_iff (d b : Dy) (hb : 0 ≤ b.e) : Dy.le b d ↔ b.intVal * den d.e ≤ num d.m d.e := by
  have := cross_iff_le b d 0
  simp only [Int.add_zero] at this
  rw [(num_den_int b hb).1, (num_den_int b hb).2, Int.mul_one] at this
  exact this.symm

theorem int_le_int (a b : Dy) (ha : 0 ≤ a.e) (hb : 0 ≤ b.e) : Dy.le a b ↔ a.intVal ≤ b.intVal := by
  rw [le_int_iff a b hb, (num_den_int a ha).1, (num_den_int a ha).2, Int.mul_one]

theorem trunc_int (b : Dy) (hb : 0 ≤ b.e) : truncScaled b.m b.e = b.intVal := by
  unfold truncScaled; rw [(num_den_int b hb).1, (num_den_int b hb).2]; simp

/-- clipping between integer bounds then truncating = truncating then clamping -/
theorem clip_trunc (d lo hi : Dy) (hlo : 0 ≤ lo.e) (hhi : 0 ≤ hi.e)
    (hL0 : lo.intVal ≤ 0) (hH0 : 0 ≤ hi.intVal) :
    truncScaled (minD (maxD d lo) hi).m (minD (maxD d lo) hi).e
      = max (min hi.intVal (truncScaled d.m d.e)) lo.intVal := by
  have hd := den_pos d.e
  have ht := tdiv_isTrunc (num d.m d.e) (den d.e) hd
  obtain ⟨a, b⟩ := ht
  have hlh : Dy.le lo hi := (int_le_int lo hi hlo hhi).mpr (by omega)
  unfold maxD
  by_cases h1 : Dy.le d lo
  · simp only [h1, if_true]
    unfold minD; simp only [hlh, if_true]
    rw [trunc_int lo hlo]
    rw [le_int_iff d lo hlo] at h1
    have : truncScaled d.m d.e ≤ lo.intVal := by
      unfold truncScaled
      rcases lt_or_ge (num d.m d.e) 0 with hn | hn
      · obtain ⟨x1, x2⟩ := b hn
        have : (num d.m d.e).tdiv (den d.e) - 1 < lo.intVal := by nlinarith
        omega
      · obtain ⟨x1, x2⟩ := a hn
        nlinarith
    omega
  · simp only [h1, if_false]
    unfold minD
    rw [le_int_iff d lo hlo, not_le] at h1
    have hge : lo.intVal ≤ truncScaled d.m d.e := by
      unfold truncScaled
      rcases lt_or_ge (num d.m d.e) 0 with hn | hn
      · obtain ⟨x1, x2⟩ := b hn
        have : lo.intVal < (num d.m d.e).tdiv (den d.e) := by nlinarith
        omega
      · obtain ⟨x1, x2⟩ := a hn
        have : 0 < (num d.m d.e).tdiv (den d.e) + 1 := by nlinarith
        omega
    by_cases h2 : Dy.le d hi
    · simp only [h2, if_true]
      rw [le_int_iff d hi hhi] at h2
      have : truncScaled d.m d.e ≤ hi.intVal := by
        unfold truncScaled
        rcases lt_or_ge (num d.m d.e) 0 with hn | hn
        · obtain ⟨x1, x2⟩ := b hn
          have : (num d.m d.e).tdiv (den d.e) - 1 < 0 := by nlinarith
          omega
        · obtain ⟨x1, x2⟩ := a hn
          nlinarith
      omega
    · simp only [h2, if_false]
      rw [trunc_int hi hhi]
      rw [le_int_iff d hi hhi, not_le] at h2
      have : hi.intVal ≤ truncScaled d.m d.e := by
        unfold truncScaled
        have hn : 0 ≤ num d.m d.e := by nlinarith
        obtain ⟨x1, x2⟩ := a hn
        have : hi.intVal < (num d.m d.e).tdiv (den d.e) + 1 := by nlinarith
        omega
      omega

/-- the clip bounds of the array converter as doubles: exact at the lower end; at the upper end
exact for 8/16/32 bits and rounded UP by one for 64 bits -/
theorem np_bounds (fmt : Fmt) (hb : npBits.contains fmt.bits = true) :
    0 ≤ (round53 fmt.minV).e ∧ 0 ≤ (round53 fmt.maxV).e ∧ (round53 fmt.minV).intVal = fmt.minV ∧
    (if fmt.bits = 64 then (round53 fmt.maxV).intVal = fmt.maxV + 1
      else (round53 fmt.maxV).intVal = fmt.maxV) := by
  obtain ⟨s, b, f⟩ := fmt
  have hb' : b = 8 ∨ b = 16 ∨ b = 32 ∨ b = 64 := by
    have : npBits = [8, 16, 32, 64] := by decide
    rw [this] at hb; simpa using hb
  have e1 : Fmt.maxV ⟨s, b, f⟩ = Fmt.maxV ⟨s, b, 0⟩ := rfl
  have e2 : Fmt.minV ⟨s, b, f⟩ = Fmt.minV ⟨s, b, 0⟩ := rfl
  rw [e1, e2]
  show _ ∧ _ ∧ _ ∧ (if b = 64 then _ else _)
  rcases hb' with rfl | rfl | rfl | rfl <;> cases s <;> decide +kernel

/-- a double: 53-bit significand -/
def IsDouble (v : Dy) : Prop := v.m.natAbs ≤ 2 ^ 53
instance (v : Dy) : Decidable (IsDouble v) := by unfold IsDouble; infer_instance

theorem isTrunc_zero {m D : Int} (h : |m| < D) : IsTrunc 0 m D := by
  have := abs_lt.mp h
  constructor <;> intro _ <;> constructor <;> omega

theorem rne_abs_le (m : Int) (s : Nat) : |rne m s| ≤ |m| + 1 := by
  unfold rne
  simp only
  have hD : (0 : Int) < 2 ^ s := by positivity
  generalize (2 : Int) ^ s = D at *
  have h1 : m / D * D ≤ m := Int.ediv_mul_le m (by omega)
  have h2 : m < (m / D + 1) * D := Int.lt_ediv_add_one_mul_self m hD
  have hq : |m / D| ≤ |m| := by
    rw [abs_le]
    rcases lt_or_ge m 0 with hm | hm
    · rw [abs_of_neg hm]; constructor <;> nlinarith
    · rw [abs_of_nonneg hm]; constructor <;> nlinarith
  have hq1 : |m / D + 1| ≤ |m| + 1 := by
    have := abs_add_le (m / D) 1
    simp at this; omega
  split
  · omega
  · split
    · exact hq1
    · split
      · omega
      · exact hq1

theorem pow1074 : (2 : Int) ^ 53 + 1 < 2 ^ 1074 := by
  have : (2 : Int) ^ 1074 = 2 ^ 54 * 2 ^ 1020 := by rw [← pow_add]
  have h : (1 : Int) ≤ 2 ^ 1020 := one_le_pow₀ (by norm_num)
  rw [this]
  generalize (2 : Int) ^ 1020 = X at h
  norm_num
  omega

/-- the scaled double used by the array path truncates to the same integer as the exact
scaled value (underflow rounds to something still below 1 in magnitude) -/
theorem toDouble_trunc (m k : Int) (hfin : magLt m k 1024 = true) (hm : m.natAbs ≤ 2 ^ 53) :
    ∃ d, toDouble m k = .fin d ∧ truncScaled d.m d.e = truncScaled m k := by
  unfold toDouble
  by_cases h0 : m = 0
  · refine ⟨⟨0, 0⟩, by simp [h0], ?_⟩
    subst h0; unfold truncScaled num; simp
  · simp only [h0, if_false, hfin, Bool.not_true]
    by_cases hk : -1074 ≤ k
    · exact ⟨⟨m, k⟩, by simp [hk], rfl⟩
    · refine ⟨⟨rne m (-1074 - k).toNat, -1074⟩, by simp [hk], ?_⟩
      have habs : |m| ≤ 2 ^ 53 := by
        rw [Int.abs_eq_natAbs]; exact_mod_cast hm
      have hr := rne_abs_le m (-1074 - k).toNat
      have e1 : truncScaled (rne m (-1074 - k).toNat) (-1074) = 0 := by
        unfold truncScaled
        refine isTrunc_unique (den_pos _) (tdiv_isTrunc _ _ (den_pos _)) (isTrunc_zero ?_)
        have : num (rne m (-1074 - k).toNat) (-1074) = rne m (-1074 - k).toNat := by unfold num; simp
        rw [this]
        have : den (-1074) = 2 ^ 1074 := by unfold den; simp
        rw [this]
        have := pow1074; omega
      have e2 : truncScaled m k = 0 := by
        unfold truncScaled
        refine isTrunc_unique (den_pos _) (tdiv_isTrunc _ _ (den_pos _)) (isTrunc_zero ?_)
        have hk' : ¬ (0 ≤ k) := by omega
        have : num m k = m := by unfold num; simp [hk']
        rw [this]
        have : den k = 2 ^ (-k).toNat := by unfold den; simp [hk']
        rw [this]
        have h1 : (2 : Int) ^ 1074 ≤ 2 ^ (-k).toNat := pow_le_pow_right₀ (by norm_num) (by omega)
        have := pow1074; omega
      rw [e1, e2]

/-- the part of `NumpyFloatToFixConverter.__call__` after the scaling -/
def npBody (rep : Bool) (fmt : Fmt) (x : FloatR) : Cast :=
  let hi := round53 fmt.maxV
  let saturated := rep && x.ge hi
  let c := clipF x (round53 fmt.minV) hi
  let c := if saturated then ⟨0, 0⟩ else c
  let t := truncScaled c.m c.e
  let cast := if fmt.minV ≤ t ∧ t ≤ fmt.maxV then Cast.val t else Cast.unspecified
  if saturated then .val fmt.maxV else cast

theorem npBody_pinned (fmt : Fmt) (d : Dy) (hb : npBits.contains fmt.bits = true)
    (hle : fmt.bits = 64 → truncScaled d.m d.e ≤ fmt.maxV) :
    npBody false fmt (.fin d) = .val (clamp fmt (truncScaled d.m d.e)) := by
  obtain ⟨b1, b2, b3, b4⟩ := np_bounds fmt hb
  have hM := maxV_nonneg fmt
  have hm := minV_nonpos fmt
  unfold npBody
  simp only [Bool.false_and, Bool.false_eq_true, if_false, clipF]
  rw [clip_trunc d _ _ b1 b2 (by omega) (by split at b4 <;> omega), b3]
  unfold clamp
  generalize truncScaled d.m d.e = t at *
  split at b4
  · rename_i h64
    have := hle h64
    rw [b4]
    have e : max (min (fmt.maxV + 1) t) fmt.minV = max (min fmt.maxV t) fmt.minV := by omega
    rw [e, if_pos (by omega)]
  · rw [b4, if_pos (by omega)]

theorem npBody_repaired (fmt : Fmt) (d : Dy) (hb : npBits.contains fmt.bits = true) :
    npBody true fmt (.fin d) = .val (clamp fmt (truncScaled d.m d.e)) := by
  obtain ⟨b1, b2, b3, b4⟩ := np_bounds fmt hb
  have hM := maxV_nonneg fmt
  have hm := minV_nonpos fmt
  have hH : fmt.maxV ≤ (round53 fmt.maxV).intVal ∧ (round53 fmt.maxV).intVal ≤ fmt.maxV + 1 := by
    split at b4 <;> omega
  have hd := den_pos d.e
  obtain ⟨a, b⟩ := tdiv_isTrunc (num d.m d.e) (den d.e) hd
  unfold npBody
  simp only [Bool.true_and, FloatR.ge, clipF]
  by_cases hs : Dy.le (round53 fmt.maxV) d
  · simp only [hs, decide_true, if_true]
    rw [int_le_iff d _ b2] at hs
    have hn : 0 ≤ num d.m d.e := by nlinarith
    obtain ⟨x1, x2⟩ := a hn
    have : (round53 fmt.maxV).intVal < truncScaled d.m d.e + 1 := by unfold truncScaled; nlinarith
    unfold clamp
    have e : max (min fmt.maxV (truncScaled d.m d.e)) fmt.minV = fmt.maxV := by omega
    rw [e]
  · simp only [hs, decide_false, Bool.false_eq_true, if_false]
    rw [clip_trunc d _ _ b1 b2 (by omega) (by omega), b3]
    rw [int_le_iff d _ b2, not_le] at hs
    have hlt : truncScaled d.m d.e < (round53 fmt.maxV).intVal := by
      unfold truncScaled
      rcases lt_or_ge (num d.m d.e) 0 with hn | hn
      · obtain ⟨x1, x2⟩ := b hn
        have : (num d.m d.e).tdiv (den d.e) - 1 < 0 := by nlinarith
        have hpos : 0 < (round53 fmt.maxV).intVal := by
          by_contra hc
          have : (round53 fmt.maxV).intVal * den d.e ≤ 0 := by nlinarith
          have h0 : fmt.maxV = 0 := by omega
          -- maxV = 0 is impossible for the widths in npBits
          obtain ⟨s, bb, f⟩ := fmt
          have hb' : bb = 8 ∨ bb = 16 ∨ bb = 32 ∨ bb = 64 := by
            have : npBits = [8, 16, 32, 64] := by decide
            rw [this] at hb; simpa using hb
          rcases hb' with rfl | rfl | rfl | rfl <;> cases s <;> simp [Fmt.maxV] at h0
        omega
      · obtain ⟨x1, x2⟩ := a hn
        nlinarith
    unfold clamp
    generalize truncScaled d.m d.e = t at *
    have e : max (min (round53 fmt.maxV).intVal t) fmt.minV = max (min fmt.maxV t) fmt.minV := by omega
    rw [e, if_pos (by omega)]

theorem npBody_pinned_overflow (fmt : Fmt) (d : Dy) (hb : npBits.contains fmt.bits = true)
    (h64 : fmt.bits = 64) (hgt : fmt.maxV < truncScaled d.m d.e) :
    npBody false fmt (.fin d) = .unspecified := by
  obtain ⟨b1, b2, b3, b4⟩ := np_bounds fmt hb
  have hM := maxV_nonneg fmt
  have hm := minV_nonpos fmt
  rw [if_pos h64] at b4
  unfold npBody
  simp only [Bool.false_and, Bool.false_eq_true, if_false, clipF]
  rw [clip_trunc d _ _ b1 b2 (by omega) (by omega), b3, b4]
  generalize truncScaled d.m d.e = t at *
  have e : max (min (fmt.maxV + 1) t) fmt.minV = fmt.maxV + 1 := by omega
  rw [e, if_neg (by omega)]

/-- hypotheses of the array theorems: an accepted width, `2.0**n_frac` exists and is not 0.0,
the scaled value is finite, the input is a double -/
structure ArrayDomain (fmt : Fmt) (v : Dy) : Prop where
  width : npBits.contains fmt.bits = true
  fracHi : fmt.frac < 1024
  fracLo : -1074 ≤ fmt.frac
  finite : FiniteScaled fmt v
  double : IsDouble v

theorem ArrayDomain.fmtOk {fmt : Fmt} {v : Dy} (h : ArrayDomain fmt v) : fmt.Ok := by
  refine ⟨?_, h.fracHi⟩
  intro ⟨_, h0⟩
  have := h.width
  rw [h0] at this
  revert this; decide

theorem np_unfold (rep : Bool) (fmt : Fmt) (v : Dy) (h : ArrayDomain fmt v) :
    npFloatToFixG rep fmt v = .ok (npBody rep fmt (toDouble v.m (v.e + fmt.frac))) := by
  have a : ¬ (1024 ≤ fmt.frac) := by have := h.fracHi; omega
  have b : ¬ (fmt.frac < -1074) := by have := h.fracLo; omega
  unfold npFloatToFixG npBody pow2f
  simp only [h.width, Bool.not_true, Bool.false_eq_true, if_false, a, b, bind, Except.bind, pure,
    Except.pure, mulScale]
  rfl

instance (fmt : Fmt) (v : Dy) : Decidable (FiniteScaled fmt v) := by unfold FiniteScaled; infer_instance
example : ArrayDomain ⟨true, 16, 5⟩ ⟨-12345, -7⟩ ∧ (⟨true, 16, 5⟩ : Fmt).bits ≠ 64 :=
  ⟨⟨by decide, by decide, by decide, by decide +kernel, by decide⟩, by decide⟩
example : ArrayDomain ⟨true, 64, 0⟩ ⟨1, 100⟩ ∧
    (⟨true, 64, 0⟩ : Fmt).maxV < truncScaled 1 (100 + 0) :=
  ⟨⟨by decide, by decide, by decide, by decide +kernel, by decide⟩, by decide +kernel⟩

/-- `validate_fp_params` accepts the format (and the width is inside the modelled domain) -/
structure FixOk (fmt : Fmt) : Prop where
  bits1 : 1 ≤ fmt.bits
  frac0 : 0 ≤ fmt.frac
  fracLe : (if fmt.signed then 1 else 0) + fmt.frac ≤ fmt.bits
  bitsLe : fmt.bits < 1024 + (if fmt.signed then 1 else 0)

def nInt (fmt : Fmt) : Nat := if fmt.signed then fmt.bits - 1 else fmt.bits

/-- the float bound `((1 << n_int) - 1)` converted to a double: never below the integer, at most
one above, exact up to 53 bits -/
theorem bound_facts (n : Nat) :
    0 ≤ (round53 (2 ^ n - 1)).e ∧ 2 ^ n - 1 ≤ (round53 (2 ^ n - 1)).intVal ∧
    (round53 (2 ^ n - 1)).intVal ≤ 2 ^ n ∧ (n ≤ 53 → (round53 (2 ^ n - 1)).intVal = 2 ^ n - 1) := by
  have hv : (round53 (2 ^ n - 1)).intVal = round53Val (2 ^ n - 1) := rfl
  rw [hv, round53Val_pow_pred, round53_e]
  refine ⟨by positivity, ?_, ?_, ?_⟩
  · split <;> omega
  · split <;> omega
  · intro h; rw [if_pos h]

def shift (d : Dy) (f : Int) : Dy := ⟨d.m, d.e + f⟩

theorem shift_toRat (d : Dy) (f : Int) : (shift d f).toRat = d.toRat * (2 : ℚ) ^ f := by
  unfold shift Dy.toRat; simp only; rw [zpow_add₀ (by norm_num)]; ring

theorem shift_le (a b : Dy) (f : Int) : Dy.le (shift a f) (shift b f) ↔ Dy.le a b := by
  rw [le_iff_toRat, le_iff_toRat, shift_toRat, shift_toRat]
  have : (0 : ℚ) < (2 : ℚ) ^ f := by positivity
  exact mul_le_mul_iff_of_pos_right this

theorem shift_clip (v lo hi : Dy) (f : Int) :
    shift (minD (maxD v lo) hi) f = minD (maxD (shift v f) (shift lo f)) (shift hi f) := by
  unfold maxD
  by_cases h1 : Dy.le v lo
  · have h1' := (shift_le v lo f).mpr h1
    simp only [h1, h1', if_true]
    unfold minD
    by_cases h2 : Dy.le lo hi
    · have h2' := (shift_le lo hi f).mpr h2
      simp only [h2, h2', if_true]
    · have h2' : ¬ Dy.le (shift lo f) (shift hi f) := fun h => h2 ((shift_le lo hi f).mp h)
      simp only [h2, h2', if_false]
  · have h1' : ¬ Dy.le (shift v f) (shift lo f) := fun h => h1 ((shift_le v lo f).mp h)
    simp only [h1, h1', if_false]
    unfold minD
    by_cases h2 : Dy.le v hi
    · have h2' := (shift_le v hi f).mpr h2
      simp only [h2, h2', if_true]
    · have h2' : ¬ Dy.le (shift v f) (shift hi f) := fun h => h2 ((shift_le v hi f).mp h)
      simp only [h2, h2', if_false]

theorem maxV_eq (fmt : Fmt) (h : 1 ≤ fmt.bits) : fmt.maxV = 2 ^ nInt fmt - 1 ∧ fmt.minV = (if fmt.signed then -(2 ^ nInt fmt) else 0) := by
  unfold Fmt.minV Fmt.maxV nInt
  cases fmt.signed <;> simp

/-- the truncated, clipped, scaled value computed by the deprecated converter -/
theorem fix_core (fmt : Fmt) (v : Dy) (h : FixOk fmt) :
    let lo : Dy := Dy.ofInt (if fmt.signed then -(2 ^ (nInt fmt - fmt.frac.toNat)) else 0)
    let r := round53 (2 ^ nInt fmt - 1)
    let hi : Dy := ⟨r.m, r.e - fmt.frac⟩
    let c := clipF (.fin v) lo hi
    truncScaled c.m (c.e + fmt.frac) =
      max (min r.intVal (truncScaled v.m (v.e + fmt.frac))) fmt.minV ∧
    (c.m < 0 → truncScaled c.m (c.e + fmt.frac) ≤ 0) ∧ (0 ≤ c.m → 0 ≤ truncScaled c.m (c.e + fmt.frac)) := by
  intro lo r hi c
  obtain ⟨f1, f2, f3, f4⟩ := bound_facts (nInt fmt)
  have hr : r = round53 (2 ^ nInt fmt - 1) := rfl
  rw [← hr] at f1 f2 f3 f4
  have hfr := h.frac0
  have hfn : fmt.frac.toNat ≤ nInt fmt := by
    have h1 := h.fracLe; have h2 := h.bits1; unfold nInt
    cases hs : fmt.signed <;> simp [hs] at h1 ⊢ <;> omega
  obtain ⟨e1, e2⟩ := maxV_eq fmt h.bits1
  have hsc : shift c fmt.frac = minD (maxD (shift v fmt.frac) (shift lo fmt.frac)) (shift hi fmt.frac) :=
    shift_clip v lo hi fmt.frac
  have hhi : shift hi fmt.frac = r := by
    unfold shift; simp only [hi]
    have : r.e - fmt.frac + fmt.frac = r.e := by omega
    rw [this]
  have hlo1 : 0 ≤ (shift lo fmt.frac).e := by
    have : (shift lo fmt.frac).e = 0 + fmt.frac := rfl
    omega
  have hlo2 : (shift lo fmt.frac).intVal = fmt.minV := by
    rw [e2]
    unfold Dy.intVal shift
    simp only [lo, Dy.ofInt, Int.zero_add]
    split
    · have : (2 : Int) ^ nInt fmt = 2 ^ (nInt fmt - fmt.frac.toNat) * 2 ^ fmt.frac.toNat := by
        rw [← pow_add]; congr 1; omega
      rw [this]; ring
    · simp
  have hm := minV_nonpos fmt
  have hM := maxV_nonneg fmt
  have ct := clip_trunc (shift v fmt.frac) (shift lo fmt.frac) (shift hi fmt.frac) hlo1
    (by rw [hhi]; exact f1) (by omega) (by rw [hhi]; omega)
  rw [← hsc, hhi, hlo2] at ct
  have hd := den_pos (c.e + fmt.frac)
  obtain ⟨a, b⟩ := tdiv_isTrunc (num c.m (c.e + fmt.frac)) (den (c.e + fmt.frac)) hd
  refine ⟨ct, ?_, ?_⟩
  · intro hc
    have hneg : num c.m (c.e + fmt.frac) < 0 := by
      unfold num; split
      · have : (0 : Int) < 2 ^ (c.e + fmt.frac).toNat := by positivity
        nlinarith
      · exact hc
    obtain ⟨x1, x2⟩ := b hneg
    unfold truncScaled
    have : (num c.m (c.e + fmt.frac)).tdiv (den (c.e + fmt.frac)) - 1 < 0 := by nlinarith
    omega
  · intro hc
    have hnn : 0 ≤ num c.m (c.e + fmt.frac) := by
      unfold num; split
      · positivity
      · exact hc
    obtain ⟨x1, x2⟩ := a hnn
    unfold truncScaled
    have : 0 < (num c.m (c.e + fmt.frac)).tdiv (den (c.e + fmt.frac)) + 1 := by nlinarith
    omega

theorem validate_ok (fmt : Fmt) (h : FixOk fmt) :
    validate fmt = .ok ((if fmt.signed then -(2 ^ (nInt fmt - fmt.frac.toNat)) else 0),
      ⟨(round53 (2 ^ nInt fmt - 1)).m, (round53 (2 ^ nInt fmt - 1)).e - fmt.frac⟩) := by
  have a : ¬ (fmt.bits < 1) := by have := h.bits1; omega
  have b : ¬ ((if fmt.signed then (1 : Int) else 0) + fmt.frac > fmt.bits ∨ fmt.frac < 0) := by
    have := h.fracLe; have := h.frac0; omega
  have c : ¬ (1024 ≤ (if fmt.signed then fmt.bits - 1 else fmt.bits)) := by
    have := h.bitsLe; split at this <;> simp_all <;> omega
  unfold validate nInt
  simp only [a, b, c, if_false]

/-- value computed by the deprecated converter, in closed form: for either code variant the
result is `fp % 2^bits` with `fp ≡ t (mod 2^bits)`, `t` the clipped truncated scaled value -/
theorem fix_closed (rep : Bool) (fmt : Fmt) (v : Dy) (h : FixOk fmt) :
    let H := (round53 (2 ^ nInt fmt - 1)).intVal
    let t := max (min H (truncScaled v.m (v.e + fmt.frac))) fmt.minV
    floatToFixG rep fmt v = .ok ((if rep then min t fmt.maxV else t) % 2 ^ fmt.bits) := by
  intro H t
  have hcore := fix_core fmt v h
  dsimp only at hcore
  obtain ⟨c1, c2, c3⟩ := hcore
  obtain ⟨f1, f2, f3, f4⟩ := bound_facts (nInt fmt)
  obtain ⟨e1, e2⟩ := maxV_eq fmt h.bits1
  have hm := minV_nonpos fmt
  have hM := maxV_nonneg fmt
  have hpow : (2 : Int) ^ nInt fmt ≤ 2 ^ fmt.bits :=
    pow_le_pow_right₀ (by norm_num) (by unfold nInt; split <;> omega)
  have hpow2 : (2 : Int) ^ (fmt.bits + 1) = 2 * 2 ^ fmt.bits := by rw [pow_succ]; ring
  have hmin : -(2 ^ fmt.bits) ≤ fmt.minV := by rw [e2]; split <;> omega
  have hfp : (2 : Int) ^ (fmt.bits - (if fmt.signed then 1 else 0)) - 1 = fmt.maxV := by
    rw [e1]; unfold nInt; cases fmt.signed <;> simp
  unfold floatToFixG
  rw [validate_ok fmt h]
  simp only [bind, Except.bind, hfp]
  generalize hc : clipF (FloatR.fin v)
    (Dy.ofInt (if fmt.signed = true then -2 ^ (nInt fmt - fmt.frac.toNat) else 0))
    ⟨(round53 (2 ^ nInt fmt - 1)).m, (round53 (2 ^ nInt fmt - 1)).e - fmt.frac⟩ = c at c1 c2 c3
  generalize htt : truncScaled c.m (c.e + fmt.frac) = tt at c1 c2 c3
  have htt' : tt = t := c1
  rw [htt'] at c2 c3
  simp only [htt']
  by_cases hneg : c.m < 0
  · have hle := c2 hneg
    simp only [hneg, if_true]
    have hasrt : (0 ≤ 2 ^ fmt.bits + t ∧ 2 ^ fmt.bits + t < 2 ^ (fmt.bits + 1)) := by
      constructor <;> omega
    rw [if_neg (not_not.mpr hasrt)]
    simp only [pure, Except.pure]
    rw [Int.add_emod_left]
    cases rep
    · simp
    · have : min t fmt.maxV = t := by omega
      simp [this]
  · have hge := c3 (by omega)
    simp only [hneg, if_false]
    cases rep
    · have hasrt : (0 ≤ t ∧ t < 2 ^ (fmt.bits + 1)) := by constructor <;> omega
      simp only [Bool.false_eq_true, if_false]
      rw [if_neg (not_not.mpr hasrt)]
      rfl
    · have hasrt : (0 ≤ min t fmt.maxV ∧ min t fmt.maxV < 2 ^ (fmt.bits + 1)) := by
        constructor <;> omega
      simp only [if_true]
      rw [if_neg (not_not.mpr hasrt)]
      rfl

theorem FixOk.fmtOk {fmt : Fmt} (h : FixOk fmt) : fmt.Ok := by
  refine ⟨?_, ?_⟩
  · intro ⟨_, h0⟩; have := h.bits1; omega
  · have hh := h.fracLe; have hb := h.bitsLe
    cases hs : fmt.signed <;> simp [hs] at hh hb <;> omega

/-- the exact scaled value `v * 2^n_frac` as a rational number -/
def scaledRat (fmt : Fmt) (v : Dy) : ℚ := v.toRat * (2 : ℚ) ^ fmt.frac

theorem scaledNum_rat (fmt : Fmt) (v : Dy) :
    (scaledNum fmt v : ℚ) = scaledRat fmt v * (scaledDen fmt v : ℚ) := by
  unfold scaledNum scaledDen scaledRat Dy.toRat
  rw [num_den_rat, zpow_add₀ (by norm_num)]; ring

theorem cast_cmp_le (a n d : Int) (x : ℚ) (hd : 0 < d) (hn : (n : ℚ) = x * d) :
    a * d ≤ n ↔ (a : ℚ) ≤ x := by
  have hd' : (0 : ℚ) < d := by exact_mod_cast hd
  rw [← @Int.cast_le ℚ]; push_cast; rw [hn]
  exact mul_le_mul_iff_of_pos_right hd'

theorem cast_cmp_le' (a n d : Int) (x : ℚ) (hd : 0 < d) (hn : (n : ℚ) = x * d) :
    n ≤ a * d ↔ x ≤ (a : ℚ) := by
  have hd' : (0 : ℚ) < d := by exact_mod_cast hd
  rw [← @Int.cast_le ℚ]; push_cast; rw [hn]
  exact mul_le_mul_iff_of_pos_right hd'

theorem cast_cmp_lt (a n d : Int) (x : ℚ) (hd : 0 < d) (hn : (n : ℚ) = x * d) :
    a * d < n ↔ (a : ℚ) < x := by
  have := cast_cmp_le' a n d x hd hn
  rw [← not_le, this, not_le]

theorem cast_cmp_lt' (a n d : Int) (x : ℚ) (hd : 0 < d) (hn : (n : ℚ) = x * d) :
    n < a * d ↔ x < (a : ℚ) := by
  have := cast_cmp_le a n d x hd hn
  rw [← not_le, this, not_le]

end Rig.C16
