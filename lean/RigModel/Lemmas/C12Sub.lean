/-
C12 - a tree constructed directly as `RegionCoreTree(base_x, base_y, level)`: the insertion loop
with every `add_core` return value (`buildTraceAt`).  Core Lean only.
-/
import RigModel.Lemmas.C12
set_option linter.unusedSimpArgs false
set_option linter.unusedVariables false

namespace Rig.C12

/-- the cores for which some `add_core` of the run returned `True` -/
def fullCores (ts : List (Int × Int × Int)) (bs : List Bool) : List Nat :=
  ((ts.zip bs).filter fun cb => cb.2).map fun cb => cb.1.2.2.toNat

/-- the step function of `buildTraceAt` -/
def traceStep (d : Nat) (st : RTree × List Bool) (c : Int × Int × Int) : Except Err (RTree × List Bool) :=
  if c.1 < 0 ∨ c.2.1 < 0 ∨ c.2.2 < 0 then .error .valueError
  else match addCore d st.1 c.1.toNat c.2.1.toNat c.2.2.toNat with
    | .error e => .error e
    | .ok (t', b) => .ok (t', st.2 ++ [b])

theorem buildTraceAt_eq (x0 y0 lv : Nat) (ts : List (Int × Int × Int)) :
    buildTraceAt x0 y0 lv ts = ts.foldlM (traceStep (4 - lv)) (RTree.new x0 y0 lv, []) := rfl

theorem trace_spec (d x0 y0 lv : Nat) : ∀ (ts : List (Int × Int × Int)) (t0 : RTree) (bs0 : List Bool),
    Inv d t0 → t0.x0 = x0 → t0.y0 = y0 → t0.lv = lv →
    (∀ c, c ∈ ts → InRange c ∧ inSq x0 y0 lv c.1.toNat c.2.1.toNat) →
    ∃ t bs, ts.foldlM (traceStep d) (t0, bs0) = .ok (t, bs0 ++ bs) ∧ bs.length = ts.length ∧
      Inv d t ∧ t.x0 = x0 ∧ t.y0 = y0 ∧ t.lv = lv ∧ (lv = 0 → ∀ b, b ∈ bs → b = false) ∧
      ∀ x y p, (holds d t x y p ∨ (p ∈ fullCores ts bs ∧ inSq x0 y0 lv x y)) ↔
        (holds d t0 x y p ∨ (x, y, p) ∈ ts.map toNat3)
  | [], t0, bs0, hI, h1, h2, h3, _ => ⟨t0, [], by rw [List.foldlM_nil, List.append_nil]; rfl, rfl, hI, h1, h2, h3, by simp, by simp [fullCores]⟩
  | c :: ts, t0, bs0, hI, h1, h2, h3, hr => by
    obtain ⟨hc, hin⟩ := hr c List.mem_cons_self
    obtain ⟨a1, a2, b1, b2, c1, c2⟩ := hc
    obtain ⟨t1, full, heq, hI1, hx1, hy1, hl1, hfull, hhold, hnone⟩ :=
      addCore_spec d t0 c.1.toNat c.2.1.toNat c.2.2.toNat hI (by rw [h1, h2, h3]; exact hin) (by omega)
    obtain ⟨t, bs, e, hlen, hIt, g1, g2, g3, g0, hh⟩ := trace_spec d x0 y0 lv ts t1 (bs0 ++ [full]) hI1
      (by rw [hx1, h1]) (by rw [hy1, h2]) (by rw [hl1, h3]) (fun c' hc' => hr c' (List.mem_cons_of_mem _ hc'))
    refine ⟨t, full :: bs, ?_, by simp [hlen], hIt, g1, g2, g3, ?_, ?_⟩
    · rw [List.foldlM_cons]
      have hneg : ¬ (c.1 < 0 ∨ c.2.1 < 0 ∨ c.2.2 < 0) := by omega
      have : traceStep d (t0, bs0) c = .ok (t1, bs0 ++ [full]) := by
        simp only [traceStep, if_neg hneg, heq]
      rw [this]
      simp only [List.append_assoc, List.singleton_append] at e
      exact e
    · intro hl0 b hb
      rcases List.mem_cons.1 hb with rfl | hb
      · exact hfull (by rw [h3]; exact hl0)
      · exact g0 hl0 b hb
    · intro x y p
      have hfc : p ∈ fullCores (c :: ts) (full :: bs) ↔
          ((full = true ∧ p = c.2.2.toNat) ∨ p ∈ fullCores ts bs) := by
        simp only [fullCores, List.zip_cons_cons, List.filter_cons]
        cases full <;> simp
      have h' := hhold x y p
      rw [h1, h2, h3] at h'
      have hh' := hh x y p
      rw [hfc, List.map_cons, List.mem_cons]
      simp only [toNat3, Prod.mk.injEq]
      constructor
      · rintro (h | ⟨(⟨hf, rfl⟩ | h), hsq⟩)
        · rcases hh'.1 (Or.inl h) with h | h
          · rcases h'.1 (Or.inl h) with h | h
            · exact Or.inl h
            · exact Or.inr (Or.inl h)
          · exact Or.inr (Or.inr h)
        · rcases h'.1 (Or.inr ⟨hf, rfl, hsq⟩) with h | h
          · exact Or.inl h
          · exact Or.inr (Or.inl h)
        · rcases hh'.1 (Or.inr ⟨h, hsq⟩) with h | h
          · rcases h'.1 (Or.inl h) with h | h
            · exact Or.inl h
            · exact Or.inr (Or.inl h)
          · exact Or.inr (Or.inr h)
      · intro h
        have h1' : holds d t1 x y p ∨ (full = true ∧ p = c.2.2.toNat ∧ inSq x0 y0 lv x y) ∨
            (x, y, p) ∈ ts.map toNat3 := by
          rcases h with h | h | h
          · rcases h'.2 (Or.inl h) with h | h
            · exact Or.inl h
            · exact Or.inr (Or.inl h)
          · rcases h'.2 (Or.inr h) with h | h
            · exact Or.inl h
            · exact Or.inr (Or.inl h)
          · exact Or.inr (Or.inr h)
        rcases h1' with h | ⟨hf, hp, hsq⟩ | h
        · rcases hh'.2 (Or.inl h) with h | ⟨h, hsq⟩
          · exact Or.inl h
          · exact Or.inr ⟨Or.inr h, hsq⟩
        · exact Or.inr ⟨Or.inl ⟨hf, hp⟩, hsq⟩
        · rcases hh'.2 (Or.inr h) with h | ⟨h, hsq⟩
          · exact Or.inl h
          · exact Or.inr ⟨Or.inr h, hsq⟩

end Rig.C12
