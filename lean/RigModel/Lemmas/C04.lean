/-
C04 - helper lemmas: bitwise facts, first-match lookup, default-route removal.
-/
import RigModel.Model.C04
set_option linter.unusedSimpArgs false
set_option linter.unusedVariables false

namespace Rig.C04

/-! ### matching and intersection -/

theorem matches_iff (e : Entry) (k : W) : e.matches k = true ↔ k &&& e.mask = e.key := by
  simp [Entry.matches]

/-- soundness of `intersect`: two key/mask pairs that match a common key intersect
(no well-formedness needed) -/
theorem meets_of_matches {a b : Entry} {k : W} (ha : a.matches k = true) (hb : b.matches k = true) :
    a.meets b = true := by
  rw [matches_iff] at ha hb
  simp only [Entry.meets, intersect, beq_iff_eq]
  rw [← ha, ← hb, BitVec.and_assoc, BitVec.and_assoc, BitVec.and_comm a.mask b.mask]

theorem lookup_cons (e : Entry) (T : List Entry) (k : W) :
    lookup (e :: T) k = if e.matches k then some e else lookup T k := by
  simp only [lookup, List.find?_cons]
  cases e.matches k <;> rfl

theorem lookup_none_iff {T : List Entry} {k : W} :
    lookup T k = none ↔ ∀ d ∈ T, d.matches k = false := by
  simp [lookup, List.find?_eq_none]

theorem lookup_some_matches {T : List Entry} {k : W} {e : Entry} (h : lookup T k = some e) :
    e.matches k = true ∧ e ∈ T := by
  simp only [lookup] at h
  exact ⟨by simpa using List.find?_some h, List.mem_of_find?_eq_some h⟩

/-! ### default routing -/

theorem single_some {s i : Nat} (h : single s = some i) : s = 2 ^ i ∧ i < 25 := by
  simp only [single] at h
  have h1 := List.find?_some h
  have h2 := List.mem_of_find?_eq_some h
  simp at h1 h2
  exact ⟨h1, h2⟩

theorem defaultableHead_sound {e : Entry} (h : defaultableHead e = true) : DefaultRouted e := by
  simp only [defaultableHead] at h
  split at h
  · rename_i source sink hs hr
    simp only [Bool.and_eq_true, decide_eq_true_eq, beq_iff_eq, bne_iff_ne] at h
    obtain ⟨⟨_, h1, h2⟩, h3⟩ := h
    exact ⟨source, h1, (single_some hs).1, by rw [h3]; exact (single_some hr).1⟩
  · cases h

/-! ### rdLoop -/

theorem rdLoop_sublist (check : Bool) (T : List Entry) : (rdLoop check T).Sublist T := by
  induction T with
  | nil => exact List.Sublist.slnil
  | cons e rest ih =>
    simp only [rdLoop]
    split
    · exact ih.cons _
    · exact ih.cons_cons _

theorem rdLoop_length (check : Bool) (T : List Entry) : (rdLoop check T).length ≤ T.length :=
  (rdLoop_sublist check T).length_le

theorem orthogonal_tail {e : Entry} {T : List Entry} (h : Orthogonal (e :: T)) : Orthogonal T :=
  (List.pairwise_cons.mp h).2

theorem rdLoop_keyOk (check : Bool) (T : List Entry) (h : check = true ∨ Orthogonal T) (k : W) :
    KeyOk T (rdLoop check T) k := by
  induction T with
  | nil => intro e he; simp [lookup] at he
  | cons e rest ih =>
    have ih := ih (h.imp id orthogonal_tail)
    intro o ho
    rw [lookup_cons] at ho
    simp only [rdLoop]
    by_cases hd : isDefaultable e rest check = true
    · rw [if_pos hd]
      by_cases hm : e.matches k = true
      · rw [if_pos hm] at ho
        cases ho
        right
        simp only [isDefaultable, Bool.and_eq_true] at hd
        refine ⟨?_, defaultableHead_sound hd.1⟩
        rw [lookup_none_iff]
        intro d hdm
        have hdr : d ∈ rest := (rdLoop_sublist check rest).subset hdm
        cases hmd : d.matches k with
        | false => rfl
        | true =>
          exfalso
          rcases h with hc | horth
          · subst hc
            have := hd.2
            simp only [Bool.not_true, Bool.false_or, Bool.not_eq_true', List.any_eq_false] at this
            exact this d hdr (meets_of_matches hm hmd)
          · exact (List.pairwise_cons.mp horth).1 d hdr k ⟨hm, hmd⟩
      · rw [if_neg hm] at ho
        exact ih o ho
    · rw [if_neg hd]
      by_cases hm : e.matches k = true
      · rw [if_pos hm] at ho
        cases ho
        left
        refine ⟨e, ?_, rfl, by simp [bitSubset]⟩
        rw [lookup_cons, if_pos hm]
      · rw [if_neg hm] at ho
        rcases ih o ho with ⟨e', h1, h2, h3⟩ | ⟨h1, h2⟩
        · left; exact ⟨e', by rw [lookup_cons, if_neg hm]; exact h1, h2, h3⟩
        · right; exact ⟨by rw [lookup_cons, if_neg hm]; exact h1, h2⟩

theorem allSameMask_spec {T : List Entry} (h : allSameMask T = true) :
    ∀ a ∈ T, ∀ b ∈ T, a.mask = b.mask := by
  cases T with
  | nil => simp [allSameMask] at h
  | cons e r =>
    simp only [allSameMask, List.all_eq_true, beq_iff_eq] at h
    have : ∀ a ∈ e :: r, a.mask = e.mask := by
      intro a ha
      rcases List.mem_cons.mp ha with rfl | ha
      · rfl
      · exact h a ha
    intro a ha b hb
    rw [this a ha, this b hb]

theorem shortcut_orthogonal {T : List Entry} (h : noAliasShortcut T = true) : Orthogonal T := by
  simp only [noAliasShortcut, Bool.and_eq_true, keysDistinct, decide_eq_true_eq] at h
  obtain ⟨hm, hk⟩ := h
  have hm := allSameMask_spec hm
  rw [List.Nodup, List.pairwise_map] at hk
  refine List.Pairwise.imp_of_mem ?_ hk
  intro a b ha hb hne k ⟨h1, h2⟩
  rw [matches_iff] at h1 h2
  apply hne
  rw [← h1, ← h2, hm a ha b hb]

theorem removeDefaultTable_keyOk (T : List Entry) (k : W) : KeyOk T (removeDefaultTable T true) k := by
  simp only [removeDefaultTable, if_true]
  by_cases hs : noAliasShortcut T = true
  · rw [if_pos hs]; exact rdLoop_keyOk false T (Or.inr (shortcut_orthogonal hs)) k
  · rw [if_neg hs]; exact rdLoop_keyOk true T (Or.inl rfl) k

end Rig.C04
