/-
Facts about the dict / set support of the `do`-subset (`Gen/PyFunTables.lean`) and the abstraction
`nestOf` from the model's flat, insertion-ordered slot list (Model/C10: one association list keyed by
(chip, key, mask)) to Python's `route_sets` (a defaultdict of OrderedDicts), used by Props/C10Gen.lean.
-/
import RigModel.Model.C10
import RigModel.Gen.PyFunTables
import RigModel.Lemmas.C05Dict
import RigModel.Lemmas.C10Trees
set_option linter.unusedSimpArgs false
set_option linter.unusedVariables false
set_option linter.unusedSectionVars false

namespace Rig.C10
open Rig.Gen.PyFun Rig.PyDict

section generic
variable {κ α : Type} [BEq κ] [LawfulBEq κ]

theorem getD_touch (d : List (κ × α)) (k k' : κ) (dflt : α) :
    pyDictGetD (pyDictTouch d k dflt) k' dflt = pyDictGetD d k' dflt := by
  unfold pyDictTouch
  split
  · rfl
  · simp only [pyDictGetD, List.lookup_append]
    cases h : d.lookup k' with
    | some v => simp
    | none =>
      simp only [Option.none_or, List.lookup]
      cases (k' == k) <;> rfl

theorem pyDictSet_append_of_none (d e : List (κ × α)) (k : κ) (v : α) (h : d.lookup k = none) :
    pyDictSet (d ++ e) k v = d ++ pyDictSet e k v := by
  induction d with
  | nil => rfl
  | cons a t ih =>
    obtain ⟨a1, a2⟩ := a
    simp only [List.lookup] at h
    cases hk : (k == a1)
    · rw [hk] at h
      have : (a1 == k) = false := by rw [BEq.comm]; exact hk
      simp only [List.cons_append, pyDictSet, this, Bool.false_eq_true, if_false, ih h]
    · rw [hk] at h; simp at h

theorem pyDictSet_touch (d : List (κ × α)) (k : κ) (dflt v : α) :
    pyDictSet (pyDictTouch d k dflt) k v = pyDictSet d k v := by
  unfold pyDictTouch
  split
  · rfl
  · rename_i h
    have hn : d.lookup k = none := by
      cases h' : d.lookup k with
      | none => rfl
      | some x => rw [h'] at h; simp at h
    rw [pyDictSet_append_of_none d _ k v hn, pyDictSet_of_lookup_none d k v hn]
    simp [pyDictSet]

theorem pyDictMod_touch (d : List (κ × α)) (k : κ) (dflt : α) (f : α → α) :
    pyDictMod (pyDictTouch d k dflt) k dflt f = pyDictMod d k dflt f := by
  unfold pyDictMod
  rw [getD_touch, pyDictSet_touch]

theorem touch_of_isSome (d : List (κ × α)) (k : κ) (dflt : α) (h : (d.lookup k).isSome = true) :
    pyDictTouch d k dflt = d := by
  unfold pyDictTouch; simp [h]

theorem touch_touch (d : List (κ × α)) (k : κ) (dflt : α) :
    pyDictTouch (pyDictTouch d k dflt) k dflt = pyDictTouch d k dflt := by
  apply touch_of_isSome
  unfold pyDictTouch
  split
  · assumption
  · simp [List.lookup_append, List.lookup]

/-- on unique keys a store under a present key changes that item only -/
theorem pyDictSet_map (d : List (κ × α)) (k : κ) (v : α) (hk : (d.lookup k).isSome = true)
    (hn : (d.map (·.1)).Nodup) :
    pyDictSet d k v = d.map (fun kv => if kv.1 == k then (kv.1, v) else kv) := by
  induction d with
  | nil => simp at hk
  | cons a t ih =>
    obtain ⟨a1, a2⟩ := a
    simp only [List.map_cons, List.nodup_cons] at hn
    simp only [pyDictSet, List.map_cons]
    by_cases h1 : (a1 == k) = true
    · have e1 : a1 = k := eq_of_beq h1
      subst e1
      simp only [h1, if_true]
      congr 1
      symm
      rw [List.map_congr_left]
      · exact List.map_id _
      · intro kv hkv
        have : kv.1 ≠ a1 := fun e => hn.1 (e ▸ List.mem_map_of_mem hkv)
        simp [this]
    · have h1' : (a1 == k) = false := by simpa using h1
      simp only [h1', Bool.false_eq_true, if_false]
      congr 1
      apply ih _ hn.2
      simp only [List.lookup] at hk
      have : (k == a1) = false := by rw [BEq.comm]; exact h1'
      rw [this] at hk
      exact hk

end generic

/-- the item of a slot in its chip's OrderedDict: `(key, mask) -> InOutPair(ins, outs)` -/
def Slot.item (s : Slot) : (Nat × Nat) × (List (Option Nat) × List Nat) := ((s.key, s.mask), (s.ins, s.outs))

/-- the OrderedDict of chip `c` -/
def itemsOf (st : List Slot) (c : ChipXY) : List ((Nat × Nat) × (List (Option Nat) × List Nat)) :=
  (st.filter (fun s => s.chip == c)).map Slot.item

/-- Python's `route_sets` for the model's slot list -/
def nestOf (st : List Slot) : List (ChipXY × List ((Nat × Nat) × (List (Option Nat) × List Nat))) :=
  (chipsOf st).map (fun c => (c, itemsOf st c))

theorem mem_chipsOf (st : List Slot) (c : ChipXY) : c ∈ chipsOf st ↔ ∃ s ∈ st, s.chip = c := by
  simp [chipsOf, mem_firsts]

theorem lookup_map_self {β : Type} (l : List ChipXY) (f : ChipXY → β) (c : ChipXY) :
    (l.map (fun c => (c, f c))).lookup c = if c ∈ l then some (f c) else none := by
  induction l with
  | nil => simp
  | cons a t ih =>
    simp only [List.map_cons, List.lookup, List.mem_cons]
    by_cases h : c = a
    · subst h; simp
    · have : (c == a) = false := by simpa using h
      simp [this, ih, h]

theorem lookup_nestOf (st : List Slot) (c : ChipXY) :
    (nestOf st).lookup c = if c ∈ chipsOf st then some (itemsOf st c) else none := by
  unfold nestOf; exact lookup_map_self _ _ c

theorem itemsOf_nil_of_not_mem (st : List Slot) (c : ChipXY) (h : c ∉ chipsOf st) : itemsOf st c = [] := by
  unfold itemsOf
  rw [List.map_eq_nil_iff, List.filter_eq_nil_iff]
  intro s hs hc
  exact h ((mem_chipsOf st c).2 ⟨s, hs, by simpa using hc⟩)

theorem getD_nestOf (st : List Slot) (c : ChipXY) : pyDictGetD (nestOf st) c [] = itemsOf st c := by
  unfold pyDictGetD
  rw [lookup_nestOf]
  split
  · rfl
  · rename_i h; simp [itemsOf_nil_of_not_mem st c h]

theorem lookup_itemsOf (st : List Slot) (c : ChipXY) (k m : Nat) :
    (itemsOf st c).lookup (k, m) = (st.find? (fun s => s.at c k m)).map (fun s => (s.ins, s.outs)) := by
  induction st with
  | nil => rfl
  | cons s t ih =>
    unfold itemsOf at *
    simp only [List.filter_cons, List.find?_cons]
    by_cases hc : (s.chip == c) = true
    · simp only [hc, if_true, List.map_cons, List.lookup, Slot.item]
      by_cases hk : ((k, m) == (s.key, s.mask)) = true
      · have : s.at c k m = true := by
          simp only [Slot.at, hc, Bool.true_and]
          have e := eq_of_beq hk
          simp only [Prod.mk.injEq] at e
          simp [e.1, e.2]
        simp [hk, this]
      · have hk' : ((k, m) == (s.key, s.mask)) = false := by simpa using hk
        have : s.at c k m = false := by
          simp only [Slot.at, hc, Bool.true_and]
          cases h1 : (s.key == k) <;> cases h2 : (s.mask == m) <;> simp
          have e1 := eq_of_beq h1; have e2 := eq_of_beq h2
          subst e1; subst e2; simp at hk'
        simp only [hk', this, ih]
    · have hc' : (s.chip == c) = false := by simpa using hc
      have : s.at c k m = false := by simp [Slot.at, hc']
      simp only [hc', Bool.false_eq_true, if_false, this, ih]

theorem keys_nestOf (st : List Slot) : (nestOf st).map (·.1) = chipsOf st := by
  simp [nestOf, List.map_map, Function.comp_def]

theorem nodup_keys_nestOf (st : List Slot) : ((nestOf st).map (·.1)).Nodup := by
  rw [keys_nestOf]; exact nodup_firsts _

/-- a store under a chip that is present changes that chip's dict only -/
theorem set_nestOf (st : List Slot) (c : ChipXY) (v) (hc : c ∈ chipsOf st) :
    pyDictSet (nestOf st) c v = (chipsOf st).map (fun c' => (c', if c' = c then v else itemsOf st c')) := by
  rw [pyDictSet_map _ _ _ (by rw [lookup_nestOf, if_pos hc]; rfl) (nodup_keys_nestOf st)]
  simp only [nestOf, List.map_map, Function.comp_def]
  apply List.map_congr_left
  intro c' _
  by_cases h : c' = c
  · subst h; simp
  · have : (c' == c) = false := by simpa using h
    simp [this, h]

/-! ### the merge: an existing route set gets one more source -/

/-- the model's update of the slots at `(c, k, m)`, for any change `g` of the sources -/
def updWith (c : ChipXY) (k m : Nat) (g : List (Option Nat) → List (Option Nat)) (s : Slot) : Slot :=
  if s.at c k m then { s with ins := g s.ins } else s

theorem updWith_chip (c k m g s) : (updWith c k m g s).chip = s.chip := by unfold updWith; split <;> rfl

theorem itemsOf_map_updWith (st : List Slot) (c c' : ChipXY) (k m : Nat) (g) :
    itemsOf (st.map (updWith c k m g)) c' =
      if c' = c then pyDictAdj (itemsOf st c) (k, m) (fun v => (g v.1, v.2)) else itemsOf st c' := by
  induction st with
  | nil => simp [itemsOf, pyDictAdj]
  | cons s t ih =>
    unfold itemsOf at *
    simp only [List.map_cons, List.filter_cons, updWith_chip]
    by_cases h : c' = c
    · subst h
      simp only [if_true] at ih ⊢
      by_cases hc : (s.chip == c') = true
      · simp only [hc, if_true, List.map_cons, ih, pyDictAdj]
        congr 1
        unfold updWith Slot.at
        simp only [hc, Bool.true_and, Slot.item]
        cases h1 : (s.key == k) <;> cases h2 : (s.mask == m) <;>
          simp_all [Slot.item]
      · have hc' : (s.chip == c') = false := by simpa using hc
        simp only [hc', Bool.false_eq_true, if_false, ih]
    · simp only [h, if_false] at ih ⊢
      by_cases hc : (s.chip == c') = true
      · have e : s.chip = c' := eq_of_beq hc
        have hne : (s.chip == c) = false := by
          have : s.chip ≠ c := fun x => h (e ▸ x)
          simpa using this
        have : updWith c k m g s = s := by simp [updWith, Slot.at, hne]
        simp only [hc, if_true, List.map_cons, ih, this]
      · have hc' : (s.chip == c') = false := by simpa using hc
        simp only [hc', Bool.false_eq_true, if_false, ih]

theorem chipsOf_map_updWith (st : List Slot) (c k m g) : chipsOf (st.map (updWith c k m g)) = chipsOf st := by
  unfold chipsOf
  rw [List.map_map]
  congr 1
  apply List.map_congr_left
  intro s _
  exact updWith_chip c k m g s

theorem merge_nestOf (st : List Slot) (c : ChipXY) (k m : Nat) (g) (hc : c ∈ chipsOf st) :
    pyDictMod (nestOf st) c []
        (fun d => pyDictAdj d (k, m) (fun v => (g v.1, v.2))) = nestOf (st.map (updWith c k m g)) := by
  unfold pyDictMod
  rw [getD_nestOf, set_nestOf st c _ hc]
  conv => rhs; unfold nestOf
  rw [chipsOf_map_updWith]
  apply List.map_congr_left
  intro c' _
  rw [itemsOf_map_updWith]

/-! ### a new route set -/

theorem firsts_append_singleton (l : List ChipXY) (c : ChipXY) :
    firsts (l ++ [c]) = if c ∈ l then firsts l else firsts l ++ [c] := by
  induction l with
  | nil => simp [firsts]
  | cons a t ih =>
    simp only [List.cons_append, firsts, ih, List.mem_cons]
    by_cases h1 : c ∈ t
    · simp [h1]
    · simp only [h1, if_false, or_false, List.filter_append]
      by_cases h2 : c = a
      · subst h2; simp [firsts]
      · have : (c != a) = true := by simpa using h2
        simp [h2, this, firsts]

theorem chipsOf_append (st : List Slot) (n : Slot) :
    chipsOf (st ++ [n]) = if n.chip ∈ chipsOf st then chipsOf st else chipsOf st ++ [n.chip] := by
  unfold chipsOf
  rw [List.map_append, List.map_singleton, firsts_append_singleton]
  simp only [mem_firsts]

theorem itemsOf_append (st : List Slot) (n : Slot) (c' : ChipXY) :
    itemsOf (st ++ [n]) c' = if c' = n.chip then itemsOf st c' ++ [n.item] else itemsOf st c' := by
  unfold itemsOf
  rw [List.filter_append, List.map_append]
  by_cases h : c' = n.chip
  · subst h; simp
  · have : (n.chip == c') = false := by
      have : n.chip ≠ c' := fun x => h x.symm
      simpa using this
    simp [List.filter_cons, this, h]

theorem insert_nestOf (st : List Slot) (c : ChipXY) (k m : Nat) (ins : List (Option Nat)) (outs : List Nat)
    (hnone : st.find? (fun s => s.at c k m) = none) :
    pyDictMod (nestOf st) c [] (fun d => pyDictSet d (k, m) (ins, outs)) =
      nestOf (st ++ [{ chip := c, key := k, mask := m, ins := ins, outs := outs }]) := by
  have hl : (itemsOf st c).lookup (k, m) = none := by rw [lookup_itemsOf, hnone]; rfl
  unfold pyDictMod
  rw [getD_nestOf]
  beta_reduce
  rw [pyDictSet_of_lookup_none _ _ _ hl]
  conv => rhs; unfold nestOf
  rw [chipsOf_append]
  by_cases hc : c ∈ chipsOf st
  · simp only [hc, if_true]
    rw [set_nestOf st c _ hc]
    apply List.map_congr_left
    intro c' _
    rw [itemsOf_append]
    by_cases h : c' = c
    · subst h; simp [Slot.item]
    · simp [h]
  · simp only [hc, if_false, List.map_append, List.map_singleton]
    rw [pyDictSet_of_lookup_none _ _ _ (by rw [lookup_nestOf, if_neg hc])]
    congr 1
    · unfold nestOf
      apply List.map_congr_left
      intro c' hc'
      rw [itemsOf_append]
      have : c' ≠ c := fun e => hc (e ▸ hc')
      simp [this]
    · rw [itemsOf_append]
      simp [Slot.item]

end Rig.C10
