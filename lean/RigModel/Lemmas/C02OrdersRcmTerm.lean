/-
C02 (companion) - TERMINATION of the reverse Cuthill-McKee order functions: the fuel the model
gives to the three `while` loops of rcm.py (`_dfs`, `_get_connected_subgraphs`, `_cuthill_mckee`)
is never used up.

* `_dfs`: every pop either discards an already visited vertex or pushes the inner dictionary of a
  vertex that is visited for the first time; the measure `len(to_visit) + sum of the sizes of the
  inner dictionaries of the unvisited vertices` falls with every iteration, and starts at
  `1 + sum of all sizes` = `dfsFuel`.
* `_get_connected_subgraphs`: every iteration removes at least the popped vertex.
* `_cuthill_mckee`: THE loop that does not terminate on a disconnected graph (the docstring warns).
  Every subgraph handed to it by `rcm_vertex_order` is the depth-first closure of one vertex in a
  SYMMETRIC table, hence connected; while `len(cm_order) < len(vertices)` the next layer is then
  non-empty (otherwise the visited set would be closed under neighbours and contain the whole
  subgraph), so `cm_order` grows by at least one vertex per iteration: at most `len(vertices)`
  iterations.
The same invariant shows that the two Python errors the model of `_cuthill_mckee` can raise
(`KeyError` for a vertex outside the subgraph, `ValueError` for `min()` of an empty set) never
occur inside `rcm_vertex_order`.
-/
import RigModel.Lemmas.C02OrdersRcm
import Mathlib.Logic.Relation
set_option linter.unusedSimpArgs false
set_option linter.unusedVariables false
set_option linter.unusedSectionVars false

namespace Rig.C02Orders
open Rig.C02 (aget aset keys)

section generic
variable {α : Type} [DecidableEq α]

/-! ### `_dfs` -/

/-- pushes still possible: the sizes of the inner dictionaries of the vertices not yet visited -/
def dfsW (vn : VN α) (vis : List α) : Nat :=
  (vn.map fun e => if e.1 ∈ vis then 0 else e.2.length).sum

theorem dfsW_nil (vn : VN α) : 1 + dfsW vn [] = dfsFuel vn := by
  simp [dfsW, dfsFuel]

theorem dfsW_mono (vis : List α) (v : α) : ∀ (vn : VN α), dfsW vn (vis ++ [v]) ≤ dfsW vn vis := by
  intro vn
  induction vn with
  | nil => simp [dfsW]
  | cons e rest ih =>
    simp only [dfsW, List.map_cons, List.sum_cons] at ih ⊢
    by_cases h1 : e.1 ∈ vis
    · have h2 : e.1 ∈ vis ++ [v] := List.mem_append_left _ h1
      simp only [h1, h2, if_true]; omega
    · by_cases h2 : e.1 ∈ vis ++ [v]
      · simp only [h1, h2, if_true, if_false]; omega
      · simp only [h1, h2, if_false]; omega

theorem dfsW_visit (vis : List α) (v : α) (hv : v ∉ vis) :
    ∀ (vn : VN α), dfsW vn (vis ++ [v]) + (nbrs vn v).length ≤ dfsW vn vis := by
  intro vn
  induction vn with
  | nil => simp [dfsW, nbrs, aget, keys]
  | cons e rest ih =>
    obtain ⟨k, inner⟩ := e
    have hm := dfsW_mono vis v rest
    simp only [dfsW, List.map_cons, List.sum_cons] at ih hm ⊢
    by_cases hk : k = v
    · subst hk
      have h2 : k ∈ vis ++ [k] := by simp
      have hn : (nbrs ((k, inner) :: rest) k).length = inner.length := by
        simp [nbrs, aget, keys]
      rw [hn]
      simp only [hv, h2, if_true, if_false]
      omega
    · have hn : nbrs ((k, inner) :: rest) v = nbrs rest v := by
        simp [nbrs, aget, hk]
      rw [hn]
      have hiff : k ∈ vis ++ [v] ↔ k ∈ vis := by simp [hk]
      by_cases h1 : k ∈ vis
      · have h2 := hiff.2 h1
        simp only [h1, h2, if_true]; omega
      · have h2 : ¬ k ∈ vis ++ [v] := fun h => h1 (hiff.1 h)
        simp only [h1, h2, if_false]; omega

/-- **`_dfs` terminates**: with `len(to_visit) + (sizes of the inner dictionaries of the unvisited
vertices)` steps the loop reaches the empty stack -/
theorem dfsLoop_ok (vn : VN α) :
    ∀ (fuel : Nat) (st vis : List α), st.length + dfsW vn vis ≤ fuel → ∃ r, dfsLoop vn fuel st vis = .ok r := by
  intro fuel
  induction fuel with
  | zero =>
    intro st vis h
    cases st with
    | nil => exact ⟨vis, by simp [dfsLoop]⟩
    | cons v t => simp at h
  | succ n ih =>
    intro st vis h
    cases st with
    | nil => exact ⟨vis, by simp [dfsLoop]⟩
    | cons v t =>
      simp only [dfsLoop]
      simp only [List.length_cons] at h
      split
      · exact ih t vis (by omega)
      · rename_i hv
        apply ih
        have := dfsW_visit vis v hv vn
        simp only [List.length_append, List.length_reverse]
        omega

theorem dfs_ok (vn : VN α) (p : α) : ∃ sg, dfs vn p = .ok sg := by
  unfold dfs
  apply dfsLoop_ok
  have := dfsW_nil vn
  simp only [List.length_singleton]
  omega

/-! ### connectivity of what `_dfs` returns -/

/-- `b` can be reached from `a` through the neighbour table -/
abbrev Reach (vn : VN α) : α → α → Prop := Relation.ReflTransGen (fun x y => y ∈ nbrs vn x)

/-- what `_cuthill_mckee` needs of its argument: a non-empty duplicate-free set of vertices, closed
under neighbours, any two of which are connected -/
structure Conn (vn : VN α) (sg : List α) : Prop where
  nodup : sg.Nodup
  closed : ∀ a ∈ sg, ∀ b ∈ nbrs vn a, b ∈ sg
  conn : ∀ a ∈ sg, ∀ b ∈ sg, Reach vn a b
  ne : sg ≠ []

theorem dfs_conn (vn : VN α) (hsym : Sym vn) (p : α) (sg : List α) (h : dfs vn p = .ok sg) : Conn vn sg := by
  obtain ⟨d1, d2, d3, d4⟩ := dfs_spec vn (Reach vn p) (fun a ha b hb => ha.tail hb) p
    Relation.ReflTransGen.refl sg h
  have hs : ∀ a b, Reach vn a b → Reach vn b a := by
    intro a b hr
    induction hr with
    | refl => exact Relation.ReflTransGen.refl
    | tail _ hstep ih => exact Relation.ReflTransGen.head (hsym _ _ hstep) ih
  refine ⟨d1, d2, fun a ha b hb => ?_, fun e => by rw [e] at d4; simp at d4⟩
  exact (hs _ _ (d3 a ha)).trans (d3 b hb)

/-! ### `_get_connected_subgraphs` -/

theorem subgraphsLoop_no_fuel (vn : VN α) :
    ∀ (fuel : Nat) (rem pops : List α) (acc : List (List α)), rem.length ≤ fuel →
      subgraphsLoop vn fuel rem pops acc ≠ .error .fuel := by
  intro fuel
  induction fuel with
  | zero =>
    intro rem pops acc h
    cases rem with
    | nil => simp [subgraphsLoop]
    | cons r t => simp at h
  | succ n ih =>
    intro rem pops acc h
    cases rem with
    | nil => simp [subgraphsLoop]
    | cons r t =>
      cases pops with
      | nil => simp [subgraphsLoop]
      | cons p ps =>
        simp only [subgraphsLoop]
        split
        · rename_i hp
          obtain ⟨sg, hsg⟩ := dfs_ok vn p
          simp only [hsg]
          apply ih
          have h1 := List.length_filter_le (fun a => !decide (a ∈ sg)) ((r :: t).erase p)
          have h2 := List.length_erase_of_mem hp
          simp only [List.length_cons] at h h2
          omega
        · simp

theorem subgraphsLoop_conn (vn : VN α) (hsym : Sym vn) :
    ∀ (fuel : Nat) (rem pops : List α) (acc sgs : List (List α)) (pops' : List α),
      (∀ sg ∈ acc, Conn vn sg) → subgraphsLoop vn fuel rem pops acc = .ok (sgs, pops') →
      ∀ sg ∈ sgs, Conn vn sg := by
  intro fuel
  induction fuel with
  | zero =>
    intro rem pops acc sgs pops' I h
    cases rem with
    | nil => simp only [subgraphsLoop] at h; injection h with h; injection h with h1 h2; subst h1; exact I
    | cons r t => simp [subgraphsLoop] at h
  | succ n ih =>
    intro rem pops acc sgs pops' I h
    cases rem with
    | nil => simp only [subgraphsLoop] at h; injection h with h; injection h with h1 h2; subst h1; exact I
    | cons r t =>
      cases pops with
      | nil => simp [subgraphsLoop] at h
      | cons p ps =>
        simp only [subgraphsLoop] at h
        split at h
        · cases hd : dfs vn p with
          | error e => simp [hd] at h
          | ok sg =>
            simp only [hd] at h
            apply ih _ _ _ _ _ _ h
            intro s hs
            rcases List.mem_append.1 hs with hs | hs
            · exact I s hs
            · simp at hs; subst hs; exact dfs_conn vn hsym p _ hd
        · simp at h

/-! ### `_cuthill_mckee` -/

/-- the next layer: `adjacent` after `difference_update(visited)` -/
def cmAdj (vn : VN α) (s : CmSt α) : List α :=
  (dedupL (s.prev.flatMap (nbrs vn))).filter (fun a => !decide (a ∈ s.visited))

theorem mem_cmAdj (vn : VN α) (s : CmSt α) (b : α) :
    b ∈ cmAdj vn s ↔ (∃ a ∈ s.prev, b ∈ nbrs vn a) ∧ b ∉ s.visited := by
  simp [cmAdj, mem_dedupL, List.mem_flatMap]

theorem cmStep_ok_elim (vn : VN α) (sg : List α) (s s' : CmSt α) (h : cmStep vn sg s = .ok s') :
    ∃ it iters2, it.Nodup ∧ (∀ a, a ∈ it ↔ a ∈ cmAdj vn s) ∧
      s' = { visited := s.visited ++ cmAdj vn s, order := s.order ++ sortBy (degree vn) it,
             prev := cmAdj vn s, iters := iters2 } := by
  unfold cmStep at h
  split at h
  · simp at h
  · rename_i x iters1 _
    dsimp only at h
    split at h
    · simp at h
    · rename_i it iters2 ht
      obtain ⟨_, hit, hm⟩ := takeIter_ok ht
      split at h
      · injection h with h
        exact ⟨it, iters2, hit, hm, h.symm⟩
      · simp at h

theorem takeIter_error (s : List α) (its : List (List α)) (e' : OErr) (he : takeIter s its = .error e') :
    e' = .badOracle := by
  cases its with
  | nil => simp [takeIter] at he; exact he.symm
  | cons i r =>
    simp only [takeIter] at he
    split at he
    · simp at he
    · injection he with he; exact he.symm

/-- the only errors of one iteration: an impossible oracle, or a vertex of the next layer outside
the subgraph -/
theorem cmStep_error (vn : VN α) (sg : List α) (s : CmSt α) (e : OErr) (h : cmStep vn sg s = .error e) :
    e = .badOracle ∨ (e = .keyError ∧ ∃ a ∈ cmAdj vn s, a ∉ sg) := by
  unfold cmStep at h
  split at h
  · rename_i e' he
    injection h with h; subst h
    exact Or.inl (takeIter_error _ _ _ he)
  · rename_i x iters1 _
    dsimp only at h
    split at h
    · rename_i e' he
      injection h with h; subst h
      exact Or.inl (takeIter_error _ _ _ he)
    · rename_i it iters2 ht
      obtain ⟨_, hit, hm⟩ := takeIter_ok ht
      split at h
      · simp at h
      · rename_i hall
        injection h with h
        right
        refine ⟨h.symm, ?_⟩
        simp only [List.all_eq_true, decide_eq_true_eq, not_forall] at hall
        obtain ⟨a, ha, hna⟩ := hall
        exact ⟨a, (hm a).1 ha, hna⟩

/-- the loop invariant of `_cuthill_mckee` that carries termination: the visited set is closed
under neighbours except through the last layer -/
structure CmInv2 (vn : VN α) (sg : List α) (s : CmSt α) : Prop where
  base : CmInv sg s
  prevSub : ∀ a ∈ s.prev, a ∈ s.visited
  closed : ∀ a ∈ s.visited, a ∉ s.prev → ∀ b ∈ nbrs vn a, b ∈ s.visited
  start : ∃ a, a ∈ s.visited

theorem cmStep_inv2 (vn : VN α) (sg : List α) (s s' : CmSt α) (I : CmInv2 vn sg s)
    (h : cmStep vn sg s = .ok s') : CmInv2 vn sg s' := by
  have hb := cmStep_inv vn sg s s' I.base h
  obtain ⟨it, iters2, hit, hm, rfl⟩ := cmStep_ok_elim vn sg s s' h
  refine ⟨hb, ?_, ?_, ?_⟩
  · intro a ha; exact List.mem_append_right _ ha
  · intro a ha hna b hb'
    simp only at ha hna ⊢
    have hav : a ∈ s.visited := by
      rcases List.mem_append.1 ha with h' | h'
      · exact h'
      · exact absurd h' hna
    by_cases hbv : b ∈ s.visited
    · exact List.mem_append_left _ hbv
    · by_cases hap : a ∈ s.prev
      · exact List.mem_append_right _ ((mem_cmAdj vn s b).2 ⟨⟨a, hap, hb'⟩, hbv⟩)
      · exact absurd (I.closed a hav hap b hb') hbv
  · obtain ⟨a, ha⟩ := I.start
    exact ⟨a, List.mem_append_left _ ha⟩

/-- in a connected subgraph the next layer is non-empty as long as a vertex is missing -/
theorem cmAdj_ne_nil (vn : VN α) (sg : List α) (hc : Conn vn sg) (s : CmSt α) (I : CmInv2 vn sg s)
    (hl : s.order.length < sg.length) : cmAdj vn s ≠ [] := by
  intro hadj
  have hcl : ∀ a ∈ s.visited, ∀ b ∈ nbrs vn a, b ∈ s.visited := by
    intro a ha b hb
    by_cases hap : a ∈ s.prev
    · by_cases hbv : b ∈ s.visited
      · exact hbv
      · have : b ∈ cmAdj vn s := (mem_cmAdj vn s b).2 ⟨⟨a, hap, hb⟩, hbv⟩
        rw [hadj] at this; simp at this
    · exact I.closed a ha hap b hb
  obtain ⟨p0, hp0⟩ := I.start
  have hp0sg : p0 ∈ sg := I.base.2.2 p0 ((I.base.2.1 p0).1 hp0)
  have hall : ∀ b, Reach vn p0 b → b ∈ s.visited := by
    intro b hr
    induction hr with
    | refl => exact hp0
    | tail _ hstep ih => exact hcl _ ih _ hstep
  have hsub : sg ⊆ s.order := fun b hb => (I.base.2.1 b).1 (hall b (hc.conn p0 hp0sg b hb))
  have := (List.subperm_of_subset hc.nodup hsub).length_le
  omega

theorem cmAdj_sub (vn : VN α) (sg : List α) (hc : Conn vn sg) (s : CmSt α) (I : CmInv2 vn sg s) :
    ∀ a ∈ cmAdj vn s, a ∈ sg := by
  intro b hb
  obtain ⟨⟨a, hap, hab⟩, _⟩ := (mem_cmAdj vn s b).1 hb
  exact hc.closed a (I.base.2.2 a ((I.base.2.1 a).1 (I.prevSub a hap))) b hab

/-- **`_cuthill_mckee` terminates on a connected subgraph** (and raises neither `KeyError` nor
`ValueError`): the loop needs at most `len(vertices) - len(cm_order)` further iterations -/
theorem cmLoop_total (vn : VN α) (sg : List α) (hc : Conn vn sg) :
    ∀ (fuel : Nat) (s : CmSt α), CmInv2 vn sg s → sg.length ≤ s.order.length + fuel →
      ∀ e, cmLoop vn sg fuel s = .error e → e = .badOracle := by
  intro fuel
  induction fuel with
  | zero =>
    intro s I hf e h
    simp only [cmLoop] at h
    split at h
    · omega
    · simp at h
  | succ n ih =>
    intro s I hf e h
    simp only [cmLoop] at h
    split at h
    · rename_i hl
      cases hs : cmStep vn sg s with
      | error e' =>
        simp only [hs] at h
        injection h with h; subst h
        rcases cmStep_error vn sg s _ hs with h' | ⟨_, a, ha, hna⟩
        · exact h'
        · exact absurd (cmAdj_sub vn sg hc s I a ha) hna
      | ok s' =>
        simp only [hs] at h
        refine ih s' (cmStep_inv2 vn sg s s' I hs) ?_ e h
        obtain ⟨it, iters2, hit, hm, rfl⟩ := cmStep_ok_elim vn sg s s' hs
        have hne := cmAdj_ne_nil vn sg hc s I hl
        have hit1 : 1 ≤ it.length := by
          cases hca : cmAdj vn s with
          | nil => exact absurd hca hne
          | cons a t =>
            have : a ∈ it := (hm a).2 (by rw [hca]; simp)
            exact List.length_pos_of_mem this
        have := (sortBy_perm (degree vn) it).length_eq
        simp only [List.length_append]
        omega
    · simp at h

theorem cuthillMckee_total (vn : VN α) (sg : List α) (hc : Conn vn sg) (iters : List (List α)) :
    ∀ e, cuthillMckee vn sg iters = .error e → e = .badOracle := by
  intro e h
  have tk := @takeIter_error α _
  unfold cuthillMckee at h
  split at h
  · rename_i e' he
    injection h with h; subst h; exact tk _ _ _ he
  · split at h
    · rename_i e' he
      injection h with h; subst h; exact tk _ _ _ he
    · rename_i it iters2 ht
      obtain ⟨_, _, hm⟩ := takeIter_ok ht
      split at h
      · -- `min()` of an empty set: impossible, the subgraph is not empty
        rename_i hnone
        exfalso
        cases hsg : sg with
        | nil => exact hc.ne hsg
        | cons a t =>
          have ha : a ∈ it := (hm a).2 (by rw [hsg]; simp)
          cases hit : it with
          | nil => rw [hit] at ha; simp at ha
          | cons b u =>
            rw [hit] at hnone
            simp only [argminFirst] at hnone
            split at hnone
            · simp at hnone
            · split at hnone <;> simp at hnone
      · rename_i p hp
        have hpsg : p ∈ sg := (hm p).1 (argminFirst_mem _ _ _ hp)
        refine cmLoop_total vn sg hc _ _ ?_ (by simp) e h
        refine ⟨⟨by simp, fun a => Iff.rfl, ?_⟩, fun a ha => ha, ?_, ⟨p, by simp⟩⟩
        · intro a ha; simp at ha; subst ha; exact hpsg
        · intro a ha hna; exact absurd ha hna

/-! ### `rcm_vertex_order` -/

theorem rcmLoop_total (vn : VN α) :
    ∀ (sgs : List (List α)) (iters : List (List α)) (out : List α), (∀ sg ∈ sgs, Conn vn sg) →
      ∀ e, rcmLoop vn sgs iters out = .error e → e = .badOracle := by
  intro sgs
  induction sgs with
  | nil => intro iters out _ e h; simp [rcmLoop] at h
  | cons sg rest ih =>
    intro iters out hc e h
    simp only [rcmLoop] at h
    split at h
    · rename_i e' he
      injection h with h; subst h
      exact cuthillMckee_total vn sg (hc sg (by simp)) iters _ he
    · exact ih _ _ (fun s hs => hc s (by simp [hs])) e h

/-- the only way `_get_connected_subgraphs` fails in the model is an impossible `pop` -/
theorem subgraphsLoop_total (vn : VN α) :
    ∀ (fuel : Nat) (rem pops : List α) (acc : List (List α)), rem.length ≤ fuel →
      ∀ e, subgraphsLoop vn fuel rem pops acc = .error e → e = .badOracle := by
  intro fuel
  induction fuel with
  | zero =>
    intro rem pops acc h e he
    cases rem with
    | nil => simp [subgraphsLoop] at he
    | cons r t => simp at h
  | succ n ih =>
    intro rem pops acc h e he
    cases rem with
    | nil => simp [subgraphsLoop] at he
    | cons r t =>
      cases pops with
      | nil => simp only [subgraphsLoop] at he; injection he with he; exact he.symm
      | cons p ps =>
        simp only [subgraphsLoop] at he
        split at he
        · rename_i hp
          obtain ⟨sg, hsg⟩ := dfs_ok vn p
          simp only [hsg] at he
          refine ih _ _ _ ?_ e he
          have h1 := List.length_filter_le (fun a => !decide (a ∈ sg)) ((r :: t).erase p)
          have h2 := List.length_erase_of_mem hp
          simp only [List.length_cons] at h h2
          omega
        · injection he with he; exact he.symm

/-- **`rcm_vertex_order` terminates and raises no Python error**: for every netlist and every
outcome of the set iterations / `pop`s the model returns an order, or rejects the oracle streams as
impossible; it never runs out of fuel and never reaches `KeyError` / `ValueError`. -/
theorem rcmVertexOrder_total (vs : List α) (nets : List (Net α)) (pops : List α) (iters : List (List α)) :
    ∀ e, rcmVertexOrder vs nets pops iters = .error e → e = .badOracle := by
  intro e h
  unfold rcmVertexOrder at h
  simp only at h
  split at h
  · rename_i e' he
    injection h with h; subst h
    exact subgraphsLoop_total _ _ _ _ _ (Nat.le_refl _) _ he
  · rename_i sgs pops' hs
    have hconn := subgraphsLoop_conn (getVerticesNeighbours nets) (getVN_sym nets) _ _ _ _ _ _
      (by simp) hs
    split at h
    · rename_i e' he
      injection h with h; subst h
      exact rcmLoop_total _ _ _ _ hconn _ he
    · split at h
      · simp at h
      · injection h with h; exact h.symm

end generic
end Rig.C02Orders
