/-
C06 x C07 - `SCPConnection.read` / `write` through the burst state machine
(helper lemmas for `read_through_burst` / `write_through_burst` in `RigModel.Props.C06`).
-/
import RigModel.Lemmas.C06
import RigModel.Props.C07
set_option linter.unusedSimpArgs false
set_option linter.unusedVariables false

namespace Rig.C06
open Rig.Gen.Scp

theorem ext_chunkTimeouts (chunks : List C07.Chunk) :
    (fun i => (chunkTimeouts chunks)[i]?) = ext (chunkTimeouts chunks) := rfl

theorem chunkTimeouts_length (chunks : List C07.Chunk) : (chunkTimeouts chunks).length = chunks.length := by
  simp [chunkTimeouts]

/-- the chunks whose callback was called, in order -/
def doneChunks (chunks : List C07.Chunk) (evs : List Ev) : List C07.Chunk :=
  evs.filterMap (fun e => match e with | .callback c _ => chunks[c]? | _ => none)

theorem mem_doneChunks {chunks : List C07.Chunk} {evs : List Ev} {ch : C07.Chunk} :
    ch ∈ doneChunks chunks evs ↔ ∃ c i, Ev.callback c i ∈ evs ∧ chunks[c]? = some ch := by
  simp only [doneChunks, List.mem_filterMap]
  constructor
  · rintro ⟨e, he, h⟩
    cases e with
    | send => simp at h
    | callback c i => exact ⟨c, i, he, h⟩
  · rintro ⟨c, i, he, h⟩
    exact ⟨_, he, h⟩

/-- when every callback gets the bytes the machine holds for its chunk, no slice assignment fails
and the buffer is the fold of C07's `placeReply` over the completed chunks -/
theorem assembleRead_fold (chunks : List C07.Chunk) (payload : Nat → List Nat) (base : Nat) (m : C07.Mem) :
    ∀ (evs : List Ev) (buffer : C07.Mem),
      (∀ c i, Ev.callback c i ∈ evs → ∃ ch, chunks[c]? = some ch ∧ payload i = C07.readMem m ch.addr ch.size) →
      assembleRead chunks payload base evs buffer =
        some ((doneChunks chunks evs).foldl (C07.placeReply m base) buffer) := by
  intro evs
  induction evs with
  | nil => intro buffer _; rfl
  | cons e evs ih =>
    intro buffer h
    have h' : ∀ c i, Ev.callback c i ∈ evs →
        ∃ ch, chunks[c]? = some ch ∧ payload i = C07.readMem m ch.addr ch.size :=
      fun c i hm => h c i (List.mem_cons_of_mem _ hm)
    cases e with
    | send s c k t =>
      simp only [assembleRead, doneChunks, List.filterMap_cons]
      exact ih buffer h'
    | callback c i =>
      obtain ⟨ch, hch, hp⟩ := h c i (List.mem_cons_self ..)
      have hl : (payload i).length = ch.size := by rw [hp]; simp [C07.readMem]
      simp only [assembleRead, hch, storeReply, hl, if_true, doneChunks, List.filterMap_cons, List.foldl_cons]
      rw [hp]
      exact ih _ h'

/-- a callback is only ever called for a command of the burst -/
theorem callback_lt {cfg : Cfg} {l : List Int} {clock : Nat → Int} (wf : WF cfg) {s0 : Nat}
    {batches : List (List Dgram)} {st : St} {evs : List Ev} {res : Res}
    (hrun : run cfg (ext l) clock (St.init s0) batches = (st, evs, res)) {c i : Nat}
    (hm : Ev.callback c i ∈ evs) : c < l.length := by
  have hI := (run_top wf hrun).1
  have h1 : c ∈ cmds evs st.pend st.outs := by
    simp only [cmds, List.append_assoc]
    exact List.mem_append_left _ (mem_calledOf.mpr ⟨i, hm⟩)
  have := (hI.cover c).mp h1
  have := hI.next_le
  omega

end Rig.C06
