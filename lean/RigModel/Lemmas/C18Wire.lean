/-
C18 - soundness of the symbolic wire rules (`absWire`) for the concrete ones (`wire`):
whatever the values, the stack and the passing style, every request pattern `wire`
yields is described by a symbolic request of `absWire` - each known field is the
value of an expression over the parameters of the method the caller invoked.

Generic in the signature table and in the per-method rules (`bodyOf`); the only
facts about the decorator used are `precedence` (explicit keyword arguments win)
and the shape of Python's binding (`bind`).
-/
import RigModel.Props.C18
set_option linter.unusedSimpArgs false
set_option linter.unusedVariables false

namespace Rig.C18

/-- the symbolic environment is right about the bound parameters: wherever it knows
an expression, the parameter's value is that expression's value at the caller's parameters -/
def EnvSound (env : AEnv) (b0 b : Dict) : Prop :=
  ∀ n e, env n = some e → lookupV b n = evalEx b0 e

theorem envSound_env0 (b : Dict) : EnvSound env0 b b := by
  intro n e h
  simp only [env0, Option.some.injEq] at h
  subst h
  rfl

theorem subst_sound (env : AEnv) (b0 b : Dict) (h : EnvSound env b0 b) (x e : Ex)
    (hx : subst env x = some e) : evalEx b x = evalEx b0 e := by
  cases x with
  | ref n => exact h n e hx
  | lit v => simp only [subst, Option.some.injEq] at hx; subst hx; rfl
  | dyn => simp only [subst, Option.some.injEq] at hx; subst hx; rfl
  | mask n =>
    simp only [subst] at hx
    split at hx
    · rename_i m heq
      simp only [Option.some.injEq] at hx
      subst hx
      have := h n _ heq
      simp only [evalEx] at this ⊢
      rw [this]
    · cases hx
  | first n =>
    simp only [subst] at hx
    split at hx
    · rename_i m heq
      simp only [Option.some.injEq] at hx
      subst hx
      have := h n _ heq
      simp only [evalEx] at this ⊢
      rw [this]
    · cases hx

/-- Python's binding: a parameter bound positionally has the positional value, any other name
the value in `new_kwargs` -/
theorem dget_zip_append (g : Ex → Val) (nk : Dict) (n : String) :
    ∀ (names : List String) (pos : List Ex),
    dget (names.zip (pos.map g) ++ nk) n =
      (match zipFind names pos n with
       | some x => some (g x)
       | none => dget nk n) := by
  intro names
  induction names with
  | nil => intro pos; simp [zipFind]
  | cons k ks ih =>
    intro pos
    cases pos with
    | nil => simp [zipFind]
    | cons x xs =>
      simp only [List.map_cons, List.zip_cons_cons, List.cons_append, dget, zipFind]
      by_cases hk : k = n
      · simp [hk]
      · simp only [hk, if_false]
        exact ih xs

theorem dgetLast_evalKw (b : Dict) (n : String) :
    ∀ kw : List (String × Ex), dgetLast (evalKw b kw) n = (kwLast kw n).map (evalEx b) := by
  intro kw
  induction kw with
  | nil => rfl
  | cons hd t ih =>
    obtain ⟨k, e⟩ := hd
    simp only [evalKw, dgetLast, kwLast, ih]
    cases kwLast t n with
    | some w => rfl
    | none =>
      simp only [Option.map_none]
      by_cases hk : k = n <;> simp [hk]

/-- the symbolic `resolve` + `bind` of an inner call is right about the callee's parameters:
positional arguments by position, keyword arguments by `precedence`, everything else unknown -/
theorem absEnv_sound (s : Sig) (env : AEnv) (b0 b : Dict) (stack : List Dict) (pos : List Ex)
    (kw : List (String × Ex)) (nk b' : Dict) (h : EnvSound env b0 b)
    (hr : resolve s pos.length (evalKw b kw) stack = .ok nk)
    (hb : bind s (pos.map (evalEx b)) nk = .ok b') :
    EnvSound (absEnv s env pos kw) b0 b' := by
  have hb' : b' = (s.argNames.drop 1).zip (pos.map (evalEx b)) ++ nk := by
    unfold bind at hb
    split at hb
    · cases hb
    · split at hb
      · cases hb
      · split at hb
        · cases hb
        · cases hb; rfl
  have hnk := (accepted_complete s _ _ stack nk hr).1
  intro n e he
  simp only [absEnv] at he
  simp only [lookupV, hb', dget_zip_append]
  cases hz : zipFind (s.argNames.drop 1) pos n with
  | some x =>
    simp only [hz] at he
    simp only [Option.getD_some]
    exact subst_sound env b0 b h x e he
  | none =>
    simp only [hz] at he
    cases hk : kwLast kw n with
    | none => simp [hk] at he
    | some x =>
      simp only [hk, Option.bind_some] at he
      simp only [hnk, precedence, dgetLast_evalKw, hk, Option.map_some, Option.getD_some]
      exact subst_sound env b0 b h x e he

/-- a symbolic request describes a concrete pattern: same kind, every known field is the value of
its expression at the caller's parameters, and it carries an application id / board mask iff the
symbolic one does -/
def APat.Describes (ap : APat) (b0 : Dict) (pt : Pat) : Prop :=
  pt.kind = ap.kind ∧
  (∀ e, ap.a = some e → pt.a = evalEx b0 e) ∧
  (∀ e, ap.b = some e → pt.b = evalEx b0 e) ∧
  (∀ e, ap.c = some e → pt.c = evalEx b0 e) ∧
  (ap.extra = none ↔ pt.extra = none) ∧
  (∀ e, ap.extra = some (some e) → pt.extra = some (evalEx b0 e))

private theorem describes_mk (env : AEnv) (b0 b : Dict) (h : EnvSound env b0 b) (k : PKind)
    (x y p : Ex) (ex : Option Ex) :
    (APat.mk k (subst env x) (subst env y) (subst env p) (ex.map (subst env))).Describes b0
      ⟨k, evalEx b x, evalEx b y, evalEx b p, ex.map (evalEx b)⟩ := by
  refine ⟨rfl, fun e he => subst_sound env b0 b h x e he, fun e he => subst_sound env b0 b h y e he,
    fun e he => subst_sound env b0 b h p e he, ?_, ?_⟩
  · cases ex <;> simp
  · intro e he
    cases ex with
    | none => simp at he
    | some x' =>
      simp only [Option.map_some, Option.some.injEq] at he ⊢
      exact subst_sound env b0 b h x' e he

/-- **Soundness of the symbolic rules**, for any table of method bodies (`bodyOf`, `genBody`). -/
theorem absWireB_sound (body : String → String → List Op) (sigs : List Sig) (cls : String) :
    ∀ (fuel : Nat) (m : String) (env : AEnv) (b0 b : Dict) (stack : List Dict),
    EnvSound env b0 b → ∀ pt ∈ wireB body sigs cls fuel m b stack,
      ∃ ap ∈ absWireB body sigs cls fuel m env, ap.Describes b0 pt := by
  intro fuel
  induction fuel with
  | zero => intro m env b0 b stack _ pt hpt; simp [wireB] at hpt
  | succ fuel ih =>
    intro m env b0 b stack h pt hpt
    simp only [wireB, List.mem_flatMap] at hpt
    obtain ⟨op, hop, hpt⟩ := hpt
    simp only [absWireB, List.mem_flatMap]
    cases op with
    | scp x y p app =>
      simp only [List.mem_singleton] at hpt
      subst hpt
      exact ⟨_, ⟨_, hop, List.mem_singleton.mpr rfl⟩, describes_mk env b0 b h .scp x y p app⟩
    | mem x y p =>
      simp only [List.mem_singleton] at hpt
      subst hpt
      exact ⟨_, ⟨_, hop, List.mem_singleton.mpr rfl⟩, describes_mk env b0 b h .mem x y p none⟩
    | bmp c f bd mk =>
      simp only [List.mem_singleton] at hpt
      subst hpt
      exact ⟨_, ⟨_, hop, List.mem_singleton.mpr rfl⟩, describes_mk env b0 b h .bmp c f bd mk⟩
    | unknown w =>
      simp only [List.mem_singleton] at hpt
      subst hpt
      refine ⟨_, ⟨_, hop, List.mem_singleton.mpr rfl⟩, rfl, ?_, ?_, ?_, ?_, ?_⟩ <;> simp
    | call m' pos kw =>
      simp only [List.length_map] at hpt
      cases hf : findSig sigs cls m' with
      | none => simp [hf] at hpt
      | some s =>
        simp only [hf] at hpt
        cases hr : resolve s pos.length (evalKw b kw) stack with
        | error e => simp [hr] at hpt
        | ok nk =>
          simp only [hr] at hpt
          cases hb : bind s (pos.map (evalEx b)) nk with
          | error e => simp [hb] at hpt
          | ok b' =>
            simp only [hb] at hpt
            obtain ⟨ap, hap, hd⟩ := ih m' (absEnv s env pos kw) b0 b' stack
              (absEnv_sound s env b0 b stack pos kw nk b' h hr hb) pt hpt
            exact ⟨ap, ⟨_, hop, by simp only [hf]; exact hap⟩, hd⟩

/-- the hand-written transcription's instance -/
theorem absWire_sound (sigs : List Sig) (cls : String) :
    ∀ (fuel : Nat) (m : String) (env : AEnv) (b0 b : Dict) (stack : List Dict),
    EnvSound env b0 b → ∀ pt ∈ wire sigs cls fuel m b stack,
      ∃ ap ∈ absWire sigs cls fuel m env, ap.Describes b0 pt :=
  absWireB_sound bodyOf sigs cls

end Rig.C18
