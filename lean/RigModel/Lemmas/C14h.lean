/-
C14 - the full status-block theorem: per-field lookups on the unpacked vcpu struct, then the
renaming / enum conversion / version split of `get_processor_status`.
-/
import RigModel.Lemmas.C14g
namespace Rig.C14
open Rig.Gen.C14
set_option linter.unusedSimpArgs false

/-- the unpacked vcpu struct as an association list, in file order -/
def fieldList (a0 a1 a2 a3 a4 a5 a6 a7 a8 a9 a10 a11 a12 a13 a14 a15 a16 a17 a18 a19 a20 a21 a22 : Nat)
    (nm : List Nat) (a24 a25 a26 a27 a28 a29 a30 : Nat) : List (String × FieldVal) :=
  [("r0", .int a0), ("r1", .int a1), ("r2", .int a2), ("r3", .int a3), ("r4", .int a4), ("r5", .int a5),
   ("r6", .int a6), ("r7", .int a7), ("psr", .int a8), ("sp", .int a9), ("lr", .int a10), ("rt_code", .int a11),
   ("phys_cpu", .int a12), ("cpu_state", .int a13), ("app_id", .int a14), ("mbox_ap_msg", .int a15),
   ("mbox_mp_msg", .int a16), ("mbox_ap_cmd", .int a17), ("mbox_mp_cmd", .int a18), ("sw_count", .int a19),
   ("sw_file", .int a20), ("sw_line", .int a21), ("time", .int a22), ("app_name", .str nm), ("iobuf", .int a24),
   ("sw_ver", .int a25), ("__PAD", .int a26), ("user0", .int a27), ("user1", .int a28), ("user2", .int a29),
   ("user3", .int a30)]

section
variable (a0 a1 a2 a3 a4 a5 a6 a7 a8 a9 a10 a11 a12 a13 a14 a15 a16 a17 a18 a19 a20 a21 a22 : Nat)
    (nm : List Nat) (a24 a25 a26 a27 a28 a29 a30 : Nat)

local notation "FL" => fieldList a0 a1 a2 a3 a4 a5 a6 a7 a8 a9 a10 a11 a12 a13 a14 a15 a16 a17 a18 a19 a20 a21 a22 nm a24 a25 a26 a27 a28 a29 a30

theorem fl_r0 : getInt FL "r0" = .ok a0 := by
  simp [getInt, fieldList, List.lookup]
theorem fl_r1 : getInt FL "r1" = .ok a1 := by
  simp [getInt, fieldList, List.lookup]
theorem fl_r2 : getInt FL "r2" = .ok a2 := by
  simp [getInt, fieldList, List.lookup]
theorem fl_r3 : getInt FL "r3" = .ok a3 := by
  simp [getInt, fieldList, List.lookup]
theorem fl_r4 : getInt FL "r4" = .ok a4 := by
  simp [getInt, fieldList, List.lookup]
theorem fl_r5 : getInt FL "r5" = .ok a5 := by
  simp [getInt, fieldList, List.lookup]
theorem fl_r6 : getInt FL "r6" = .ok a6 := by
  simp [getInt, fieldList, List.lookup]
theorem fl_r7 : getInt FL "r7" = .ok a7 := by
  simp [getInt, fieldList, List.lookup]
theorem fl_psr : getInt FL "psr" = .ok a8 := by
  simp [getInt, fieldList, List.lookup]
theorem fl_sp : getInt FL "sp" = .ok a9 := by
  simp [getInt, fieldList, List.lookup]
theorem fl_lr : getInt FL "lr" = .ok a10 := by
  simp [getInt, fieldList, List.lookup]
theorem fl_rt_code : getInt FL "rt_code" = .ok a11 := by
  simp [getInt, fieldList, List.lookup]
theorem fl_phys_cpu : getInt FL "phys_cpu" = .ok a12 := by
  simp [getInt, fieldList, List.lookup]
theorem fl_cpu_state : getInt FL "cpu_state" = .ok a13 := by
  simp [getInt, fieldList, List.lookup]
theorem fl_app_id : getInt FL "app_id" = .ok a14 := by
  simp [getInt, fieldList, List.lookup]
theorem fl_mbox_ap_msg : getInt FL "mbox_ap_msg" = .ok a15 := by
  simp [getInt, fieldList, List.lookup]
theorem fl_mbox_mp_msg : getInt FL "mbox_mp_msg" = .ok a16 := by
  simp [getInt, fieldList, List.lookup]
theorem fl_mbox_ap_cmd : getInt FL "mbox_ap_cmd" = .ok a17 := by
  simp [getInt, fieldList, List.lookup]
theorem fl_mbox_mp_cmd : getInt FL "mbox_mp_cmd" = .ok a18 := by
  simp [getInt, fieldList, List.lookup]
theorem fl_sw_count : getInt FL "sw_count" = .ok a19 := by
  simp [getInt, fieldList, List.lookup]
theorem fl_sw_file : getInt FL "sw_file" = .ok a20 := by
  simp [getInt, fieldList, List.lookup]
theorem fl_sw_line : getInt FL "sw_line" = .ok a21 := by
  simp [getInt, fieldList, List.lookup]
theorem fl_time : getInt FL "time" = .ok a22 := by
  simp [getInt, fieldList, List.lookup]
theorem fl_app_name : getStr FL "app_name" = .ok nm := by
  simp [getStr, fieldList, List.lookup]
theorem fl_iobuf : getInt FL "iobuf" = .ok a24 := by
  simp [getInt, fieldList, List.lookup]
theorem fl_sw_ver : getInt FL "sw_ver" = .ok a25 := by
  simp [getInt, fieldList, List.lookup]
theorem fl_pad : getInt FL "__PAD" = .ok a26 := by
  simp [getInt, fieldList, List.lookup]
theorem fl_user0 : getInt FL "user0" = .ok a27 := by
  simp [getInt, fieldList, List.lookup]
theorem fl_user1 : getInt FL "user1" = .ok a28 := by
  simp [getInt, fieldList, List.lookup]
theorem fl_user2 : getInt FL "user2" = .ok a29 := by
  simp [getInt, fieldList, List.lookup]
theorem fl_user3 : getInt FL "user3" = .ok a30 := by
  simp [getInt, fieldList, List.lookup]

/-- the straight-line part of `get_processor_status` on an unpacked field list -/
theorem decodeStatus_fieldList (data : List Nat)
    (hu : unpackFields data VCPU_FIELDS = .ok FL)
    (hname : (strip0 nm).any (· ≥ 128) = false) (hcpu : validState a13 = true)
    (hrt : RTE_VALUES.contains a11 = true) :
    decodeStatus data = .ok
      { registers := [a0, a1, a2, a3, a4, a5, a6, a7], psr := a8, sp := a9, lr := a10, rtCode := a11,
        physCpu := a12, cpuState := a13, mboxApMsg := a15, mboxMpMsg := a16, mboxApCmd := a17, mboxMpCmd := a18,
        swCount := a19, swFile := a20, swLine := a21, time := a22, appName := strip0 nm, iobuf := a24,
        appId := a14, version := ((a25 >>> 16) &&& 0xFF, (a25 >>> 8) &&& 0xFF, (a25 >>> 0) &&& 0xFF),
        userVars := [a27, a28, a29, a30] } := by
  unfold decodeStatus
  rw [hu]
  simp only [bind, Except.bind, List.mapM_cons, List.mapM_nil, fl_r0, fl_r1, fl_r2, fl_r3, fl_r4, fl_r5, fl_r6,
    fl_r7, pure, Except.pure]
  simp only [fl_user0, fl_user1, fl_user2, fl_user3, fl_app_name, hname, Bool.false_eq_true, if_false,
    fl_cpu_state, hcpu, Bool.not_true, fl_rt_code, hrt, fl_sw_ver, fl_pad]
  simp only [fl_psr, fl_sp, fl_lr, fl_phys_cpu, fl_mbox_ap_msg, fl_mbox_mp_msg, fl_mbox_ap_cmd, fl_mbox_mp_cmd,
    fl_sw_count, fl_sw_file, fl_sw_line, fl_time, fl_iobuf, fl_app_id]
end

/-- a status record whose fields fit their widths in the vcpu block (one-byte fields are
unconstrained in the `Nat` model: `leVal [b] = b`) -/
def Status.WF (s : Status) : Prop :=
  s.registers.length = 8 ∧ (∀ r ∈ s.registers, r < 4294967296) ∧
  s.userVars.length = 4 ∧ (∀ r ∈ s.userVars, r < 4294967296) ∧
  s.psr < 4294967296 ∧ s.sp < 4294967296 ∧ s.lr < 4294967296 ∧
  validState s.cpuState = true ∧ RTE_VALUES.contains s.rtCode = true ∧
  s.mboxApMsg < 4294967296 ∧ s.mboxMpMsg < 4294967296 ∧ s.swCount < 65536 ∧
  s.swFile < 4294967296 ∧ s.swLine < 4294967296 ∧ s.time < 4294967296 ∧ s.iobuf < 4294967296 ∧
  s.version.1 < 256 ∧ s.version.2.1 < 256 ∧ s.version.2.2 < 256

theorem list8 (l : List Nat) (h : l.length = 8) : ∃ a b c d e f g i, l = [a, b, c, d, e, f, g, i] := by
  match l, h with
  | [a, b, c, d, e, f, g, i], _ => exact ⟨a, b, c, d, e, f, g, i, rfl⟩

theorem list4 (l : List Nat) (h : l.length = 4) : ∃ a b c d, l = [a, b, c, d] := by
  match l, h with
  | [a, b, c, d], _ => exact ⟨a, b, c, d, rfl⟩

theorem swver_split (p mi ma top : Nat) (hp : p < 256) (hmi : mi < 256) (hma : ma < 256) :
    ((leVal [p, mi, ma, top] >>> 16) &&& 0xFF, (leVal [p, mi, ma, top] >>> 8) &&& 0xFF,
      (leVal [p, mi, ma, top] >>> 0) &&& 0xFF) = (ma, mi, p) := by
  simp only [leVal, and_ff, Nat.shiftRight_eq_div_pow, Prod.mk.injEq]
  refine ⟨?_, ?_, ?_⟩ <;> omega

/-- **Status block (full).** -/
theorem status_block_lem (s : Status) (swTop : Nat) (name16 pad : List Nat) (hwf : s.WF)
    (hn : name16.length = 16) (hp : pad.length = 16) (hname : strip0 name16 = s.appName)
    (hascii : ∀ b ∈ s.appName, b < 128) :
    decodeStatus (statusBytes s swTop name16 pad) = .ok s := by
  obtain ⟨hr8, hrb, hu4, hub, hpsr, hsp, hlr, hcpu, hrt, hap, hmp, hsc, hsf, hsl, hti, hio, hv1, hv2, hv3⟩ := hwf
  obtain ⟨r0, r1, r2, r3, r4, r5, r6, r7, hr⟩ := list8 _ hr8
  obtain ⟨u0, u1, u2, u3, hu⟩ := list4 _ hu4
  have hun := unpackFields_statusBytes r0 r1 r2 r3 r4 r5 r6 r7 u0 u1 u2 u3 s swTop name16 pad hn hp hr hu
  have hany : (strip0 name16).any (· ≥ 128) = false := by
    rw [hname, List.any_eq_false]
    intro b hb
    have := hascii b hb
    simp only [ge_iff_le, decide_eq_true_eq]; omega
  have h := decodeStatus_fieldList _ _ _ _ _ _ _ _ _ _ _ _ _ _ _ _ _ _ _ _ _ _ _ _ _ _ _ _ _ _ _
    (statusBytes s swTop name16 pad) hun hany (by rw [leVal_one]; exact hcpu) (by rw [leVal_one]; exact hrt)
  rw [h]
  have b := fun r (h : r ∈ s.registers) => leVal_le32 r (hrb r h)
  have c := fun r (h : r ∈ s.userVars) => leVal_le32 r (hub r h)
  rw [hr] at b
  rw [hu] at c
  rw [swver_split _ _ _ _ hv3 hv2 hv1, hname]
  simp only [leVal_one, leVal_le32 _ hpsr, leVal_le32 _ hsp, leVal_le32 _ hlr, leVal_le32 _ hap, leVal_le32 _ hmp,
    leVal_le16 _ hsc, leVal_le32 _ hsf, leVal_le32 _ hsl, leVal_le32 _ hti, leVal_le32 _ hio,
    b r0 (by simp), b r1 (by simp), b r2 (by simp), b r3 (by simp), b r4 (by simp), b r5 (by simp), b r6 (by simp),
    b r7 (by simp), c u0 (by simp), c u1 (by simp), c u2 (by simp), c u3 (by simp), ← hr, ← hu]

/-- `get_processor_status` end to end: vcpu block of core `p` at `sv.vcpu_base + 128 p` -/
theorem processorStatus_spec (rd : Rd) (vbase p : Nat) (s : Status) (swTop : Nat) (name16 pad : List Nat)
    (hvb : vbase < 4294967296)
    (h1 : rd (SV_BASE + SV_VCPU_BASE_OFF) SV_VCPU_BASE_SIZE = le32 vbase)
    (h2 : rd (vbase + VCPU_SIZE * p) VCPU_SIZE = statusBytes s swTop name16 pad)
    (hwf : s.WF) (hn : name16.length = 16) (hp : pad.length = 16) (hname : strip0 name16 = s.appName)
    (hascii : ∀ b ∈ s.appName, b < 128) :
    processorStatus rd p = .ok s := by
  have e1 := readInt_le32 rd _ vbase hvb h1
  simp only [processorStatus, vcpuAddr, SV_VCPU_BASE_SIZE, e1, bind, Except.bind, pure, Except.pure, h2]
  exact status_block_lem s swTop name16 pad hwf hn hp hname hascii

end Rig.C14
