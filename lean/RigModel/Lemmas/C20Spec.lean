/-
C20 - helper lemmas: the model meets the executable specification `specOK`.
-/
import RigModel.Lemmas.C20
import RigModel.Lemmas.C20Pack
set_option linter.unusedSimpArgs false
set_option linter.unusedVariables false

namespace Rig.C20

/-- the field carrying the value this call must configure -/
def setExpected (c : Call) (opts : Dict) (f : Field) : Field :=
  { f with default := expectedDefault c opts f }

/-- every key of `d` names a field -/
def KeysNamed (fs : List Field) (d : Dict) : Prop := ∀ p ∈ d, ∃ f ∈ fs, f.name = p.1

theorem finalFields_spec (c : Call) (opts : Dict) (nd : DistinctNames c.svFields)
    (h1 : KeysNamed c.svFields opts) (h2 : KeysNamed c.svFields (timeOpts c.t1 c.t2)) :
    finalFields c opts = .ok (c.svFields.map (setExpected c opts)) := by
  have e1 := updateDefaults_map opts c.svFields h1 nd
  have h2' : ∀ p ∈ timeOpts c.t1 c.t2, ∃ f ∈ c.svFields.map (applyDict opts), f.name = p.1 := by
    intro p hp
    obtain ⟨f, hf, hn⟩ := h2 p hp
    exact ⟨applyDict opts f, List.mem_map_of_mem hf, by rw [applyDict_name]; exact hn⟩
  have e2 := updateDefaults_map (timeOpts c.t1 c.t2) _ h2'
    (distinct_map _ _ (applyDict_name opts) nd)
  simp only [finalFields, e1, e2, List.map_map]
  congr 1
  apply List.map_congr_left
  intro f _
  rcases ho : dictGet opts f.name with _ | x
  · have ha : applyDict opts f = f := by simp [applyDict, ho]
    rcases ht : dictGet (timeOpts c.t1 c.t2) f.name with _ | y
    · simp [Function.comp, setExpected, expectedDefault, ha, applyDict, ho, ht]
    · simp [Function.comp, setExpected, expectedDefault, ha, applyDict, ho, ht]
  · have ha : applyDict opts f = { f with default := x } := by simp [applyDict, ho]
    rcases ht : dictGet (timeOpts c.t1 c.t2) f.name with _ | y
    · simp [Function.comp, setExpected, expectedDefault, ha, applyDict, ho, ht]
    · simp [Function.comp, setExpected, expectedDefault, ha, applyDict, ho, ht]

theorem structPack_spec (size : Nat) (fs : List Field)
    (hin : ∀ f ∈ fs, f.offset + packWidth f.pack ≤ size) (hd : Disjoint fs)
    (hv : ∀ f ∈ fs, valueFits f.pack f.default = true) :
    ∃ packed, structPack size fs = .ok packed ∧ packed.length = size ∧
      (∀ f ∈ fs, ∀ j, j < packWidth f.pack → packed[f.offset + j]? = some (leByte f.default j)) ∧
      (∀ i, i < size → (∀ f ∈ fs, ¬ covers f i) → packed[i]? = some 0) := by
  obtain ⟨out, ho, hl, hget⟩ := packLoop_spec fs (List.replicate size 0)
    (fun f hf => ⟨hv f hf, by rw [List.length_replicate]; exact hin f hf⟩) hd
  rw [List.length_replicate] at hl
  refine ⟨out, ho, hl, ?_, ?_⟩
  · intro f hf j hj
    obtain ⟨g, hg, ho', hdf⟩ := find_covers fs hd f hf (f.offset + j) ⟨by omega, by omega⟩
    have := hin f hf
    rw [hget, hg]
    simp only [List.length_replicate, ho', hdf]
    rw [if_pos (by omega)]
    congr 2; omega
  · intro i hi hnc
    have hnone : fs.find? (fun g => decide (covers g i)) = none := by
      rw [List.find?_eq_none]
      intro g hg
      simpa using hnc g hg
    rw [hget, hnone]
    simp [List.getElem?_replicate, hi]

theorem tableOK_parts (size : Nat) (fs : List Field) (h : tableOK size fs = true) :
    (∀ f ∈ fs, 0 < packWidth f.pack ∧ f.offset + packWidth f.pack ≤ size) ∧ Disjoint fs ∧
    DistinctNames fs := by
  simp only [tableOK, Bool.and_eq_true, List.all_eq_true, decide_eq_true_eq] at h
  exact ⟨h.1.1, h.1.2, h.2⟩

theorem optsValid_parts (c : Call) (opts : Dict) (h : optsValid c opts = true) :
    KeysNamed c.svFields opts ∧ KeysNamed c.svFields (timeOpts c.t1 c.t2) ∧
    ∀ f ∈ c.svFields, valueFits f.pack (expectedDefault c opts f) = true := by
  simp only [optsValid, Bool.and_eq_true, List.all_eq_true, List.any_eq_true, decide_eq_true_eq,
    List.mem_append] at h
  exact ⟨fun p hp => h.1 p (Or.inl hp), fun p hp => h.1 p (Or.inr hp), h.2⟩

theorem configOK_packed (c : Call) (opts : Dict) (packed : List Nat) (hl : packed.length = c.svSize)
    (h128 : 128 ≤ c.svSize)
    (hfield : ∀ f ∈ c.svFields, ∀ j, j < packWidth f.pack →
      packed[f.offset + j]? = some (leByte (expectedDefault c opts f) j))
    (hzero : ∀ i, i < c.svSize → (∀ f ∈ c.svFields, ¬ covers f i) → packed[i]? = some 0) :
    configOK c opts (packed.take 128) = true := by
  simp only [configOK, Bool.and_eq_true, List.all_eq_true, List.mem_range, Bool.or_eq_true,
    decide_eq_true_eq, beq_iff_eq, List.any_eq_true, List.length_take]
  refine ⟨⟨by omega, ?_⟩, ?_⟩
  · intro f hf j hj
    by_cases h : 128 ≤ f.offset + j
    · left; exact h
    · right
      rw [List.getElem?_take, if_pos (by omega)]
      exact hfield f hf j hj
  · intro i hi
    by_cases h : ∃ f ∈ c.svFields, covers f i
    · left
      obtain ⟨f, hf, hc⟩ := h
      exact ⟨f, hf, hc⟩
    · right
      rw [List.getElem?_take, if_pos hi]
      exact hzero i (by omega) (fun f hf hc => h ⟨f, hf, hc⟩)

theorem boot_meets_spec_aux (c : Call) (opts : Dict) (hd : c.InDomain) (hv : optsValid c opts = true) :
    (bootCore c opts).result = .ok (c.svFields.map (setExpected c opts)) ∧
    specOK c opts (sends (bootCore c opts).events) (c.svFields.map (setExpected c opts)) = true := by
  obtain ⟨hdi, htab, h128⟩ := hd
  obtain ⟨hin, hdisj, hnames⟩ := tableOK_parts _ _ htab
  obtain ⟨hk1, hk2, hfit⟩ := optsValid_parts c opts hv
  have hf := finalFields_spec c opts hnames hk1 hk2
  have hdisj' : Disjoint (c.svFields.map (setExpected c opts)) := by
    unfold Disjoint at *
    rw [List.pairwise_map]
    simpa [setExpected] using hdisj
  obtain ⟨packed, hp, hl, hfield, hzero⟩ := structPack_spec c.svSize (c.svFields.map (setExpected c opts))
    (by intro f' hf'
        obtain ⟨f, hfm, rfl⟩ := List.mem_map.mp hf'
        exact (hin f hfm).2)
    hdisj'
    (by intro f' hf'
        obtain ⟨f, hfm, rfl⟩ := List.mem_map.mp hf'
        exact hfit f hfm)
  obtain ⟨hr, hs, _⟩ := bootCore_ok c opts hdi _ packed hf hp (by omega)
  refine ⟨hr, ?_⟩
  obtain ⟨h4, h512, hlt⟩ := hdi
  have hpl : 128 ≤ packed.length := by omega
  have a := bootImage_length c.image packed h512 hpl
  have b := bootImage_take c.image packed h512
  have d := bootImage_drop c.image packed h512 hpl
  have e := bootImage_config c.image packed h512 hpl
  have hshape := shapeOK_bootDatagrams (bootImage c.image packed) (by omega) (by omega)
  have hcfg := configOK_packed c opts packed hl h128
    (fun f hfm j hj => hfield (setExpected c opts f) (List.mem_map_of_mem hfm) j hj)
    (fun i hi hnc => hzero i hi (by
      intro f' hf'
      obtain ⟨f, hfm, rfl⟩ := List.mem_map.mp hf'
      exact hnc f hfm))
  have hret : returnedOK c opts (c.svFields.map (setExpected c opts)) = true := by
    unfold returnedOK
    exact beq_self_eq_true (List.map (setExpected c opts) c.svFields)
  simp only [specOK, hs, reassemble_bootDatagrams, hshape, e, hcfg, imageOK, a, b, d, hret,
    beq_self_eq_true, Bool.and_self]

end Rig.C20
