/-
C03 - helper lemmas and proofs (longest_dimension_first, ner_net: hop geometry).  Core Lean only.
-/
import RigModel.Model.C03
set_option linter.unusedSimpArgs false
set_option linter.unusedVariables false
namespace Rig.C03.L
open Rig.C03 Rig.Gen.C03Links

def lastChip (s : Chip) : List (Nat × Chip) → Chip
  | [] => s
  | (_, c) :: r => lastChip c r

theorem hopsFrom_append (m : Machine) : ∀ (a b : List (Nat × Chip)) (s : Chip),
    hopsFrom m s (a ++ b) = (hopsFrom m s a && hopsFrom m (lastChip s a) b) := by
  intro a
  induction a with
  | nil => intro b s; simp [hopsFrom, lastChip]
  | cons e r ih =>
    intro b s
    obtain ⟨d, c⟩ := e
    simp only [List.cons_append, hopsFrom, lastChip, ih, Bool.and_assoc]

theorem walk_hops (m : Machine) (dir : Nat) (dx dy : Int) (hdir : dir < 6) (hv : vec dir = (dx, dy)) :
    ∀ (n : Nat) (pos : Chip), hopsFrom m pos (walk m.w m.h dir dx dy n pos) = true := by
  intro n
  induction n with
  | zero => intro pos; simp [walk, hopsFrom]
  | succ n ih =>
    intro pos
    simp only [walk, hopsFrom, Bool.and_eq_true, decide_eq_true_eq, beq_iff_eq]
    refine ⟨⟨hdir, ?_⟩, ih _⟩
    simp only [step, hv]

theorem lastChip_walk (w h : Nat) (dir : Nat) (dx dy : Int) : ∀ (n : Nat) (pos : Chip),
    lastChip pos (walk w h dir dx dy n pos) = walkEnd w h dx dy n pos := by
  intro n
  induction n with
  | zero => intro pos; simp [walk, walkEnd, lastChip]
  | succ n ih => intro pos; simp only [walk, walkEnd, lastChip, ih]

theorem fromVec_unit (dim : Nat) (mag : Int) (dir : Nat) (h : fromVec (dimDelta dim mag) = some dir) :
    dir < 6 ∧ vec dir = dimDelta dim mag := by
  have hc : dimDelta dim mag = (1, 0) ∨ dimDelta dim mag = (-1, 0) ∨ dimDelta dim mag = (0, 1) ∨
      dimDelta dim mag = (0, -1) ∨ dimDelta dim mag = (-1, -1) ∨ dimDelta dim mag = (1, 1) := by
    unfold dimDelta
    split <;> split <;> simp
  rcases hc with hc | hc | hc | hc | hc | hc <;> rw [hc] at h ⊢
  · have : fromVec (1, 0) = some 0 := by decide
    rw [this] at h; cases h; exact ⟨by decide, by decide⟩
  · have : fromVec (-1, 0) = some 3 := by decide
    rw [this] at h; cases h; exact ⟨by decide, by decide⟩
  · have : fromVec (0, 1) = some 2 := by decide
    rw [this] at h; cases h; exact ⟨by decide, by decide⟩
  · have : fromVec (0, -1) = some 5 := by decide
    rw [this] at h; cases h; exact ⟨by decide, by decide⟩
  · have : fromVec (-1, -1) = some 4 := by decide
    rw [this] at h; cases h; exact ⟨by decide, by decide⟩
  · have : fromVec (1, 1) = some 1 := by decide
    rw [this] at h; cases h; exact ⟨by decide, by decide⟩

theorem ldfGo_hops (m : Machine) : ∀ (items : List (Nat × Int)) (pos : Chip) (out : List (Nat × Chip)),
    ldfGo m.w m.h items pos = .ok out → hopsFrom m pos out = true := by
  intro items
  induction items with
  | nil => intro pos out h; simp only [ldfGo, pure, Except.pure, Except.ok.injEq] at h; subst h; rfl
  | cons it rest ih =>
    intro pos out h
    obtain ⟨dim, mag⟩ := it
    simp only [ldfGo] at h
    split at h
    · simp only [pure, Except.pure, Except.ok.injEq] at h; subst h; rfl
    · split at h
      · simp at h
      · rename_i dir hfv
        obtain ⟨hd, hvec⟩ := fromVec_unit dim mag dir hfv
        cases hr : ldfGo m.w m.h rest (walkEnd m.w m.h (dimDelta dim mag).1 (dimDelta dim mag).2 mag.natAbs pos) with
        | error e => simp [hr, bind, Except.bind] at h
        | ok r =>
          simp only [hr, bind, Except.bind, pure, Except.pure, Except.ok.injEq] at h
          subst h
          rw [hopsFrom_append, lastChip_walk, Bool.and_eq_true]
          exact ⟨walk_hops m dir _ _ hd hvec _ _, ih _ _ hr⟩

theorem ldf_hops (m : Machine) (v : V3) (start : Chip) (t t' : Tape) (p : List (Nat × Chip))
    (h : ldf v start m.w m.h t = .ok (p, t')) : hopsFrom m start p = true := by
  unfold ldf at h
  simp only [bind, Except.bind] at h
  split at h
  · simp at h
  · split at h
    · simp at h
    · split at h
      · simp at h
      · split at h
        · simp at h
        · rename_i out hgo
          simp only [pure, Except.pure, Except.ok.injEq, Prod.mk.injEq] at h
          obtain ⟨rfl, _⟩ := h
          exact ldfGo_hops m _ _ _ hgo

theorem forestHops_insertNew {m : Machine} {f : Forest} {c : Chip} (hf : ForestHops m f) :
    ForestHops m (f.insertNew c) := by
  intro n hn
  simp only [Forest.insertNew, List.mem_append, List.mem_singleton] at hn
  rcases hn with hn | rfl
  · exact hf n hn
  · intro k hk; simp at hk

theorem forestHops_addChild {m : Machine} {f : Forest} {p : Chip} {e : Nat × Chip} (hf : ForestHops m f)
    (he : e.1 < 6 ∧ e.2 = step m p e.1) : ForestHops m (f.addChild p e) := by
  intro n hn
  simp only [Forest.addChild, List.mem_map] at hn
  obtain ⟨n0, hn0, rfl⟩ := hn
  have h0 := hf n0 hn0
  split
  · rename_i heq
    have : n0.1 = p := by simpa using heq
    intro k hk
    simp only [List.mem_append, List.mem_singleton] at hk
    rcases hk with hk | rfl
    · exact h0 k hk
    · simp only; rw [this]; exact he
  · exact h0

theorem attachChain_hops (m : Machine) : ∀ (path : List (Nat × Chip)) (f : Forest) (last : Chip) (f' : Forest),
    ForestHops m f → hopsFrom m last path = true → attachChain path f last = .ok f' → ForestHops m f' := by
  intro path
  induction path with
  | nil => intro f last f' hf _ h; simp only [attachChain, pure, Except.pure, Except.ok.injEq] at h; subst h; exact hf
  | cons e r ih =>
    intro f last f' hf hh h
    obtain ⟨d, c⟩ := e
    simp only [attachChain] at h
    simp only [hopsFrom, Bool.and_eq_true, decide_eq_true_eq, beq_iff_eq] at hh
    split at h
    · simp at h
    · exact ih _ _ _ (forestHops_addChild (forestHops_insertNew hf) ⟨hh.1.1, hh.1.2⟩) hh.2 h

theorem truncateLdf_hops (m : Machine) (route : Forest) : ∀ (path : List (Nat × Chip)) (s nb : Chip)
    (rest : List (Nat × Chip)), hopsFrom m s path = true → truncateLdf route path = some (nb, rest) →
    hopsFrom m nb rest = true := by
  intro path
  induction path with
  | nil => intro s nb rest _ h; simp [truncateLdf] at h
  | cons e r ih =>
    intro s nb rest hh h
    obtain ⟨d, c⟩ := e
    simp only [hopsFrom, Bool.and_eq_true] at hh
    simp only [truncateLdf] at h
    split at h
    · rename_i res hres
      simp only [Option.some.injEq] at h
      subst h
      exact ih c _ _ hh.2 hres
    · split at h
      · simp only [Option.some.injEq, Prod.mk.injEq] at h
        obtain ⟨rfl, rfl⟩ := h
        exact hh.2
      · simp at h

theorem nerAttach_hops (m : Machine) (route : Forest) (nb : Chip) (v : V3) (t : Tape) (st' : Forest × Tape)
    (hf : ForestHops m route) (h : nerAttach route m.w m.h nb v t = .ok st') : ForestHops m st'.1 := by
  unfold nerAttach at h
  simp only [bind, Except.bind] at h
  split at h
  · simp at h
  · rename_i pt hldf
    obtain ⟨path, t2⟩ := pt
    simp only at h
    have hp := ldf_hops m _ _ _ _ _ hldf
    split at h
    · simp at h
    · rename_i route' hatt
      simp only [pure, Except.pure, Except.ok.injEq] at h
      subst h
      simp only
      cases htr : truncateLdf route path with
      | none =>
        rw [htr] at hatt
        simp only [Option.getD] at hatt
        exact attachChain_hops m _ _ _ _ hf hp hatt
      | some res =>
        obtain ⟨nb', rest⟩ := res
        rw [htr] at hatt
        simp only [Option.getD] at hatt
        exact attachChain_hops m _ _ _ _ hf (truncateLdf_hops m _ _ _ _ _ hp htr) hatt

theorem nerDest_hops (m : Machine) (src : Chip) (wrap : Bool) (radius : Nat) (hexes : List Chip)
    (st st' : Forest × Tape) (dest : Chip) (hf : ForestHops m st.1)
    (h : nerDest src m.w m.h wrap radius hexes st dest = .ok st') : ForestHops m st'.1 := by
  unfold nerDest at h
  cases wrap
  · simp only [Bool.false_eq_true, if_false, bind, Except.bind, pure, Except.pure] at h
    exact nerAttach_hops m _ _ _ _ _ hf h
  · simp only [if_true, bind, Except.bind] at h
    split at h
    · simp at h
    · exact nerAttach_hops m _ _ _ _ _ hf h

theorem foldlM_inv {α σ : Type} {f : σ → α → Except Err σ} {P : σ → Prop}
    (hstep : ∀ s a s', P s → f s a = .ok s' → P s') :
    ∀ (l : List α) (s s' : σ), P s → l.foldlM f s = .ok s' → P s' := by
  intro l
  induction l with
  | nil => intro s s' hs h; simp only [List.foldlM, pure, Except.pure, Except.ok.injEq] at h; subst h; exact hs
  | cons a r ih =>
    intro s s' hs h
    simp only [List.foldlM, bind, Except.bind] at h
    split at h
    · simp at h
    · rename_i s1 h1
      exact ih _ _ (hstep _ _ _ hs h1) h

theorem nerNet_hops (m : Machine) (src : Chip) (dests : List Chip) (wrap : Bool) (radius : Nat) (t t' : Tape)
    (f : Forest) (h : nerNet src dests m.w m.h wrap radius t = .ok (f, t')) : ForestHops m f := by
  unfold nerNet at h
  exact foldlM_inv (P := fun st => ForestHops m st.1)
    (fun s a s' hs hh => nerDest_hops m src wrap radius _ s s' a hs hh) _ _ _
    (by intro n hn; simp at hn; subst hn; intro k hk; simp at hk) h
end Rig.C03.L
