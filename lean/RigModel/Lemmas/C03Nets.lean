/-
C03 - all nets of one `route()` call: the loop body is run per net, only the oracle tape is threaded.
Core Lean only.
-/
import RigModel.Model.C03
import Mathlib.Data.List.Forall2
set_option linter.unusedSimpArgs false
set_option linter.unusedVariables false
namespace Rig.C03

/-- the tape each net of the call starts with: the tape of the call minus the draws of the nets before it -/
def tapes (m : Machine) : List NetIn → Tape → List Tape
  | [], _ => []
  | n :: rest, t => t :: tapes m rest (tapeAfter m n t)

namespace L

theorem routeNets_forall2 {m : Machine} {legacy : Bool} : ∀ (nets : List NetIn) (t : Tape) (rs : List Result),
    routeNets m legacy nets t = .ok rs ↔
    List.Forall₂ (fun (nt : NetIn × Tape) r =>
      routeNet m nt.1.src nt.1.dests nt.1.radius nt.2 nt.1.order nt.1.sinks legacy = .ok r)
      (nets.zip (tapes m nets t)) rs := by
  intro nets
  induction nets with
  | nil =>
    intro t rs
    simp only [routeNets, tapes, List.zip_nil_left, pure, Except.pure, Except.ok.injEq]
    constructor
    · intro h; subst h; exact List.Forall₂.nil
    · intro h; cases h; rfl
  | cons n rest ih =>
    intro t rs
    simp only [routeNets, tapes, List.zip_cons_cons, bind, Except.bind]
    constructor
    · intro h
      split at h
      · simp at h
      · rename_i r hr
        split at h
        · simp at h
        · rename_i rs' hrs
          simp only [pure, Except.pure, Except.ok.injEq] at h
          subst h
          exact List.Forall₂.cons hr ((ih _ _).1 hrs)
    · intro h
      cases h with
      | cons hr hrest =>
        simp only at hr
        rw [hr]
        simp only [(ih _ _).2 hrest, pure, Except.pure]

theorem routeNetsRun_eq {m : Machine} {legacy : Bool} : ∀ (nets : List NetIn) (t : Tape),
    routeNets m legacy nets t =
      (match routeNetsRun m legacy nets t with
       | (rs, none) => .ok rs
       | (_, some e) => .error e) := by
  intro nets
  induction nets with
  | nil => intro t; rfl
  | cons n rest ih =>
    intro t
    simp only [routeNets, routeNetsRun, bind, Except.bind]
    cases hr : routeNet m n.src n.dests n.radius t n.order n.sinks legacy with
    | error e => rfl
    | ok r =>
      simp only
      rw [ih]
      rcases hrun : routeNetsRun m legacy rest (tapeAfter m n t) with ⟨rs, _ | e⟩ <;> rfl

/-- a failing call fails with the error of one of its nets (run on that net's tape) -/
theorem routeNets_error {m : Machine} {legacy : Bool} : ∀ (nets : List NetIn) (t : Tape) (e : Err),
    routeNets m legacy nets t = .error e →
    ∃ n t', n ∈ nets ∧ routeNet m n.src n.dests n.radius t' n.order n.sinks legacy = .error e := by
  intro nets
  induction nets with
  | nil => intro t e h; simp [routeNets, pure, Except.pure] at h
  | cons n rest ih =>
    intro t e h
    simp only [routeNets, bind, Except.bind] at h
    split at h
    · rename_i e' he
      simp only [Except.error.injEq] at h
      subst h
      exact ⟨n, t, by simp, he⟩
    · split at h
      · rename_i e' he
        simp only [Except.error.injEq] at h
        subst h
        obtain ⟨n', t', hn', h'⟩ := ih _ _ he
        exact ⟨n', t', by simp [hn'], h'⟩
      · simp [pure, Except.pure] at h

end L
end Rig.C03
