/-
C14 - end-to-end composition: P2P table memory + per-chip `info` replies of a machine state
-> `get_system_info` -> well-formed description -> `build_machine` / `build_core_constraints`.
-/
import RigModel.Lemmas.C14h
namespace Rig.C14
open Rig.Gen.C14
set_option linter.unusedSimpArgs false
set_option linter.unusedVariables false

/-! ### keys of the table the specification serves are distinct -/

theorem p2pSpecTable_keys (f : Nat → Nat → Nat) (cols : List Nat) (h : Nat) :
    (p2pSpecTable f cols h).map (·.1) = cols.flatMap fun c => (List.range h).map fun r => (c, r) := by
  induction cols with
  | nil => rfl
  | cons c cs ih =>
    simp only [p2pSpecTable, List.flatMap_cons, List.map_append, List.map_map] at ih ⊢
    rw [ih]
    rfl

theorem col_keys_nodup (c h : Nat) : ((List.range h).map fun r => (c, r)).Nodup := by
  unfold List.Nodup
  rw [List.pairwise_map]
  exact List.Pairwise.imp (fun hab heq => hab (Prod.mk.inj heq).2) List.nodup_range

theorem grid_keys_nodup (cols : List Nat) (h : Nat) (hc : cols.Nodup) :
    (cols.flatMap fun c => (List.range h).map fun r => (c, r)).Nodup := by
  induction cols with
  | nil => simp
  | cons c cs ih =>
    rw [List.nodup_cons] at hc
    rw [List.flatMap_cons, List.nodup_append]
    refine ⟨col_keys_nodup c h, ih hc.2, ?_⟩
    intro a ha b hb heq
    subst heq
    simp only [List.mem_map, List.mem_range] at ha
    simp only [List.mem_flatMap, List.mem_map, List.mem_range] at hb
    obtain ⟨r, _, rfl⟩ := ha
    obtain ⟨c', hc', r', _, heq⟩ := hb
    have : c' = c := (Prod.mk.inj heq).1
    subst this
    exact hc.1 hc'

/-- **The keys of the P2P table read from the specification's memory are distinct.** -/
theorem p2pSpecTable_nodup (f : Nat → Nat → Nat) (w h : Nat) :
    ((p2pSpecTable f (List.range w) h).map (·.1)).Nodup := by
  rw [p2pSpecTable_keys]
  exact grid_keys_nodup _ h List.nodup_range

/-! ### the description's keys are a sublist of the table's keys -/

theorem describedChips_keys_sublist (answering : Nat × Nat → Option ChipState)
    (table : List ((Nat × Nat) × Nat)) :
    ((describedChips answering table).map (·.1)).Sublist (table.map (·.1)) := by
  induction table with
  | nil => exact List.Sublist.slnil
  | cons e t ih =>
    simp only [describedChips, List.filterMap_cons, List.map_cons] at ih ⊢
    by_cases hr : (e.2 != P2P_NONE) = true
    · simp only [hr, if_true]
      cases ha : answering e.1 with
      | none => simp only [Option.map_none]; exact List.Sublist.cons _ ih
      | some st => simp only [Option.map_some, List.map_cons]; exact List.Sublist.cons_cons _ ih
    · simp only [hr, if_false]
      exact List.Sublist.cons _ ih

theorem describedChips_nodup (answering : Nat × Nat → Option ChipState)
    (table : List ((Nat × Nat) × Nat)) (hnd : (table.map (·.1)).Nodup) :
    ((describedChips answering table).map (·.1)).Nodup :=
  List.Nodup.sublist (describedChips_keys_sublist answering table) hnd


/-! ### the machine state and what probing it returns -/

/-- the machine specification's hypotheses on a machine state and on the memory / replies it serves -/
structure MachineState.Serves (m : MachineState) (rd : Rd) : Prop where
  dimW : m.dimW ≤ 255
  dimH : m.dimH ≤ 255
  entries : ∀ e ∈ m.p2p, e.2 < 8
  chipsWF : ∀ xy st, m.chips.lookup xy = some st → st.WF
  dims : rd (SV_BASE + SV_P2P_DIMS_OFF) SV_P2P_DIMS_SIZE = le16 (m.dimW * 256 + m.dimH)
  table : ∀ a n, SPINNAKER_RTR_P2P ≤ a → a + n ≤ SPINNAKER_RTR_P2P + P2P_REGION →
    rd a n = readMem (p2pMem m.entry) a n

/-- the replies of the machine's chips to `info` -/
def MachineState.probe (m : MachineState) : Nat × Nat → Option InfoReply :=
  fun xy => (m.chips.lookup xy).map infoReply

/-- the table the specification's memory holds -/
def MachineState.table (m : MachineState) : List ((Nat × Nat) × Nat) :=
  p2pSpecTable m.entry (List.range m.dimW) m.dimH

/-- what `get_system_info` must return -/
def MachineState.sysInfo (m : MachineState) : SysInfo :=
  { width := maxList ((liveEntries m.table).map (·.1.1)) + 1,
    height := maxList ((liveEntries m.table).map (·.1.2)) + 1,
    chips := describedChips (fun xy => m.chips.lookup xy) m.table }

theorem lookup_mem_snd {α β : Type} [BEq α] [LawfulBEq α] (l : List (α × β)) (k : α) (v : β)
    (h : l.lookup k = some v) : (k, v) ∈ l := by
  induction l with
  | nil => cases h
  | cons e t ih =>
    obtain ⟨k', v'⟩ := e
    by_cases hk : k = k'
    · subst hk
      simp only [List.lookup, beq_self_eq_true, Option.some.injEq] at h
      subst h; simp
    · have : (k == k') = false := by simpa using hk
      simp only [List.lookup, this] at h
      exact List.mem_cons_of_mem _ (ih h)

theorem entry_lt (m : MachineState) (he : ∀ e ∈ m.p2p, e.2 < 8) (x y : Nat) : m.entry x y < 8 := by
  unfold MachineState.entry
  cases hl : m.p2p.lookup (x, y) with
  | none => simp only [Option.getD_none]; decide
  | some r => exact he _ (lookup_mem_snd _ _ _ hl)

theorem mem_table (m : MachineState) (xy : Nat × Nat) (r : Nat) :
    (xy, r) ∈ m.table ↔ xy.1 < m.dimW ∧ xy.2 < m.dimH ∧ r = m.entry xy.1 xy.2 := by
  obtain ⟨x, y⟩ := xy
  simp only [MachineState.table, p2pSpecTable, List.mem_flatMap, List.mem_map, List.mem_range, Prod.mk.injEq]
  constructor
  · rintro ⟨c, hc, r', hr', ⟨rfl, rfl⟩, rfl⟩
    exact ⟨hc, hr', rfl⟩
  · rintro ⟨hx, hy, rfl⟩
    exact ⟨x, hx, y, hy, ⟨rfl, rfl⟩, rfl⟩

theorem listed_iff (m : MachineState) (xy : Nat × Nat) :
    m.listed xy = true ↔ ∃ r, (xy, r) ∈ m.table ∧ r ≠ P2P_NONE := by
  simp only [MachineState.listed, Bool.and_eq_true, decide_eq_true_eq, bne_iff_ne, ne_eq, mem_table]
  constructor
  · rintro ⟨⟨hx, hy⟩, hne⟩
    exact ⟨_, ⟨hx, hy, rfl⟩, hne⟩
  · rintro ⟨r, ⟨hx, hy, rfl⟩, hne⟩
    exact ⟨⟨hx, hy⟩, hne⟩

theorem live_ne_nil (m : MachineState) (hl : ∃ xy, m.listed xy = true) : liveEntries m.table ≠ [] := by
  obtain ⟨xy, h⟩ := hl
  obtain ⟨r, hmem, hne⟩ := (listed_iff m xy).1 h
  intro h0
  have : (xy, r) ∈ liveEntries m.table := by
    simp only [liveEntries, List.mem_filter]
    exact ⟨hmem, by simpa using hne⟩
  rw [h0] at this
  cases this

/-- **`get_system_info` on the machine specification (exact value).** -/
theorem getSystemInfo_spec (m : MachineState) (rd : Rd) (hs : m.Serves rd) (hl : ∃ xy, m.listed xy = true) :
    getSystemInfo rd m.probe = .ok m.sysInfo := by
  have hdim : readInt rd (SV_BASE + SV_P2P_DIMS_OFF) SV_P2P_DIMS_SIZE = .ok (m.dimW * 256 + m.dimH) := by
    have e : leVal (le16 (m.dimW * 256 + m.dimH)) = m.dimW * 256 + m.dimH := by
      have := hs.dimW; have := hs.dimH
      simp only [le16, leVal]; omega
    simp only [readInt, hs.dims, e]
    rfl
  have htab : p2pTable rd = .ok m.table := by
    simp only [p2pTable, hdim, bind, Except.bind]
    exact p2p_roundtrip_dims_lem m.entry (entry_lt m hs.entries) rd m.dimW m.dimH hs.dimW hs.dimH hs.table
  simp only [getSystemInfo, htab]
  exact systemInfo_spec (fun xy => m.chips.lookup xy) hs.chipsWF m.table (live_ne_nil m hl)

/-- membership in the returned description -/
theorem mem_sysInfo (m : MachineState) (xy : Nat × Nat) (ci : ChipInfo) :
    (xy, ci) ∈ m.sysInfo.chips ↔ ∃ st, m.listed xy = true ∧ m.chips.lookup xy = some st ∧ ci = chipView st := by
  simp only [MachineState.sysInfo, mem_describedChips, listed_iff]
  constructor
  · rintro ⟨r, st, hmem, hne, ha, rfl⟩
    exact ⟨st, ⟨r, hmem, hne⟩, ha, rfl⟩
  · rintro ⟨st, ⟨r, hmem, hne⟩, ha, rfl⟩
    exact ⟨r, st, hmem, hne, ha, rfl⟩

/-- **the returned description is well formed** (distinct keys inside the extent) -/
theorem sysInfo_WF (m : MachineState) (hl : ∃ xy, m.listed xy = true) : m.sysInfo.WF := by
  refine ⟨describedChips_nodup (fun xy => m.chips.lookup xy) m.table
    (p2pSpecTable_nodup m.entry m.dimW m.dimH), ?_⟩
  intro xy ci hmem
  change (xy, ci) ∈ describedChips (fun xy => m.chips.lookup xy) m.table at hmem
  obtain ⟨r, st, hmem', hne, _, _⟩ := (mem_describedChips _ _ xy ci).1 hmem
  exact (extent_spec m.table (live_ne_nil m hl)).1 xy r hmem' hne

theorem sysInfo_extent (m : MachineState) (hl : ∃ xy, m.listed xy = true) :
    (∀ xy, m.listed xy = true → xy.1 < m.sysInfo.width ∧ xy.2 < m.sysInfo.height) ∧
    (∃ xy, m.listed xy = true ∧ xy.1 + 1 = m.sysInfo.width) ∧
    (∃ xy, m.listed xy = true ∧ xy.2 + 1 = m.sysInfo.height) := by
  obtain ⟨h1, ⟨e1, he1, hw⟩, ⟨e2, he2, hh⟩⟩ := extent_spec m.table (live_ne_nil m hl)
  have hlive : ∀ e, e ∈ liveEntries m.table → m.listed e.1 = true := by
    intro e he
    simp only [liveEntries, List.mem_filter, bne_iff_ne, ne_eq] at he
    exact (listed_iff m e.1).2 ⟨e.2, he.1, he.2⟩
  refine ⟨?_, ⟨e1.1, hlive e1 he1, hw⟩, ⟨e2.1, hlive e2 he2, hh⟩⟩
  intro xy hxy
  obtain ⟨r, hmem, hne⟩ := (listed_iff m xy).1 hxy
  exact h1 xy r hmem hne

theorem chipView_states_len (st : ChipState) (h : st.WF) : (chipView st).coreStates.length ≤ 18 := by
  have := h.2.1
  simp only [chipView, List.length_take]; omega

theorem busy_chipView (st : ChipState) (p : Nat) : busy (chipView st) p = st.busyCore p := by
  simp only [busy, chipView, ChipState.busyCore, List.getElem?_take]
  by_cases hp : p < st.cores
  · simp [hp]
  · simp [hp]

theorem mem_chipView_links (st : ChipState) (l : Nat) : l ∈ (chipView st).links ↔ l < 6 ∧ l ∈ st.links := by
  simp only [chipView, List.mem_filter, List.mem_range, decide_eq_true_eq]


/-- every reservation is global or names a described chip -/
theorem coreConstraints_chip (si : SysInfo) (r : Reservation) (hr : r ∈ coreConstraints si) (c : Nat × Nat)
    (hc : r.chip = some c) : ∃ ci, (c, ci) ∈ si.chips := by
  rw [coreConstraints_eq, List.mem_append] at hr
  rcases hr with hr | hr
  · have := minimalRes_chip _ _ _ r hr
    rw [this] at hc; cases hc
  · obtain ⟨e, he, hr'⟩ := List.mem_flatMap.1 hr
    have := minimalRes_chip _ _ _ r hr'
    rw [this] at hc
    cases hc
    exact ⟨e.2, he⟩

/-- the statement of `probe_to_machine_exact` about a description `si` -/
def MachineState.MachineExact (m : MachineState) (si : SysInfo) : Prop :=
  si.WF ∧
  (buildMachine si).width = si.width ∧ (buildMachine si).height = si.height ∧
  (∀ xy, m.listed xy = true → xy.1 < si.width ∧ xy.2 < si.height) ∧
  (∃ xy, m.listed xy = true ∧ xy.1 + 1 = si.width) ∧ (∃ xy, m.listed xy = true ∧ xy.2 + 1 = si.height) ∧
  (∀ x y, (buildMachine si).chipOk (x, y) = true ↔
    m.listed (x, y) = true ∧ (m.chips.lookup (x, y)).isSome = true) ∧
  (∀ x y l, l < 6 → ((buildMachine si).linkOk x y l = true ↔
    ∃ st, m.listed (x, y) = true ∧ m.chips.lookup (x, y) = some st ∧ l ∈ st.links)) ∧
  (∀ xy st, m.listed xy = true → m.chips.lookup xy = some st →
    (buildMachine si).resources xy = (st.cores, st.sdram, st.sram) ∧
    ∀ p, coverCount (coreConstraints si) xy p = if st.busyCore p = true then 1 else 0) ∧
  (∀ r ∈ coreConstraints si, ∀ c, r.chip = some c →
    m.listed c = true ∧ (m.chips.lookup c).isSome = true)

theorem machineExact_sysInfo (m : MachineState) (hwf : ∀ xy st, m.chips.lookup xy = some st → st.WF)
    (hl : ∃ xy, m.listed xy = true) : m.MachineExact m.sysInfo := by
  have hWF := sysInfo_WF m hl
  obtain ⟨_, _, hchip, hlink, hres⟩ :
      (buildMachine m.sysInfo).width = m.sysInfo.width ∧ (buildMachine m.sysInfo).height = m.sysInfo.height ∧
      (∀ x y, (buildMachine m.sysInfo).chipOk (x, y) = true ↔ ∃ ci, ((x, y), ci) ∈ m.sysInfo.chips) ∧
      (∀ x y l, l < 6 → ((buildMachine m.sysInfo).linkOk x y l = true ↔
        ∃ ci, ((x, y), ci) ∈ m.sysInfo.chips ∧ l ∈ ci.links)) ∧
      (∀ xy ci, (xy, ci) ∈ m.sysInfo.chips →
        (buildMachine m.sysInfo).resources xy = (ci.numCores, ci.sdram, ci.sram)) :=
    ⟨rfl, rfl, buildMachine_chip _ hWF, buildMachine_link _ hWF, buildMachine_resources _ hWF⟩
  obtain ⟨e1, e2, e3⟩ := sysInfo_extent m hl
  have h18 : ∀ xy ci, (xy, ci) ∈ m.sysInfo.chips → ci.coreStates.length ≤ 18 := by
    intro xy ci hmem
    obtain ⟨st, _, hst, rfl⟩ := (mem_sysInfo m xy ci).1 hmem
    exact chipView_states_len st (hwf xy st hst)
  refine ⟨hWF, rfl, rfl, e1, e2, e3, ?_, ?_, ?_, ?_⟩
  · intro x y
    rw [hchip]
    constructor
    · rintro ⟨ci, hci⟩
      obtain ⟨st, h1, h2, _⟩ := (mem_sysInfo m _ ci).1 hci
      exact ⟨h1, by rw [h2]; rfl⟩
    · rintro ⟨h1, h2⟩
      cases hst : m.chips.lookup (x, y) with
      | none => rw [hst] at h2; cases h2
      | some st => exact ⟨chipView st, (mem_sysInfo m _ _).2 ⟨st, h1, hst, rfl⟩⟩
  · intro x y l hl6
    rw [hlink x y l hl6]
    constructor
    · rintro ⟨ci, hci, hlm⟩
      obtain ⟨st, h1, h2, rfl⟩ := (mem_sysInfo m _ ci).1 hci
      exact ⟨st, h1, h2, ((mem_chipView_links st l).1 hlm).2⟩
    · rintro ⟨st, h1, h2, hlm⟩
      exact ⟨chipView st, (mem_sysInfo m _ _).2 ⟨st, h1, h2, rfl⟩, (mem_chipView_links st l).2 ⟨hl6, hlm⟩⟩
  · intro xy st h1 h2
    have hmem : (xy, chipView st) ∈ m.sysInfo.chips := (mem_sysInfo m _ _).2 ⟨st, h1, h2, rfl⟩
    refine ⟨hres xy _ hmem, ?_⟩
    intro p
    rw [reservations_partition_lem m.sysInfo hWF.1 h18 xy _ hmem p, busy_chipView]
  · intro r hr c hc
    obtain ⟨ci, hci⟩ := coreConstraints_chip _ r hr c hc
    obtain ⟨st, h1, h2, _⟩ := (mem_sysInfo m _ ci).1 hci
    exact ⟨h1, by rw [h2]; rfl⟩

end Rig.C14
