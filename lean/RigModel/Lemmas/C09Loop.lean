/-
C09 helper lemmas, part 4: the `while unloaded != {} and tries <= n_tries` loop.
-/
import RigModel.Lemmas.C09Load
set_option linter.unusedSimpArgs false
set_option linter.unusedVariables false

namespace Rig.C09
open Rig.Gen.Load Rig.Gen.Scp

/-- loop invariant at the head of the retry loop -/
def LI (c : Ctl) (apps : List App) (m0 : MState) (s : Sim) (unl : List App) : Prop :=
  Inv apps c.appId m0 s.m ∧ SubList unl apps ∧ Tracks apps c.appId s.m unl

/-- what is recorded about every (re-)sent map: it is part of the request and names exactly the
requested cores that did not hold their binary in a state reached during this load -/
def SentOK (c : Ctl) (apps : List App) (m0 : MState) (l : List App) : Prop :=
  SubList l apps ∧ ∃ m, Inv apps c.appId m0 m ∧ Tracks apps c.appId m l

theorem send_count (mc : MCfg) (c : Ctl) (s : Sim) (ha : c.appId < 256) :
    s.send mc (countReq stWait c.appId) =
      ({ s with trace := (countReq stWait c.appId, Reply.count ((allCores mc.chips).countP fun k =>
          matchesApp (s.m.core k.1 k.2.1 k.2.2) stWait c.appId)) :: s.trace },
       Reply.count ((allCores mc.chips).countP fun k => matchesApp (s.m.core k.1 k.2.1 k.2.2) stWait c.appId)) := by
  simp only [Sim.send, step, decode_count stWait c.appId (by decide) ha, stepP, if_true]

theorem loadLoop_spec (mc : MCfg) (c : Ctl) (apps : List App) (hv : Valid mc c apps) (m0 : MState)
    (hpre : PreClean m0 apps c.appId) :
    ∀ (fuel : Nat) (s : Sim) (tries : Nat) (unl : List App) (sent : List (List App)),
      LI c apps m0 s unl → (∀ l ∈ sent, SentOK c apps m0 l) →
      let r := loadLoop mc c (coreCount apps) fuel s tries unl sent
      LI c apps m0 r.1 r.2.1 ∧ (∀ l ∈ r.2.2, SentOK c apps m0 l) ∧
      r.2.2.length ≤ sent.length + fuel ∧
      (r.2.1 ≠ [] → tries + fuel = c.nTries + 1 → r.2.2.length = sent.length + fuel) := by
  intro fuel
  induction fuel with
  | zero =>
    intro s tries unl sent hli hsent
    simp only [loadLoop]
    exact ⟨hli, hsent, Nat.le_refl _, fun _ _ => rfl⟩
  | succ fuel ih =>
    intro s tries unl sent hli hsent
    obtain ⟨hinv, hsub, htr⟩ := hli
    rw [loadLoop]
    by_cases hcond : unl ≠ [] ∧ tries ≤ c.nTries
    · rw [if_pos hcond]
      -- one attempt
      have hstep := floodFill_step mc c apps hv unl hsub s
      have hinv1 : Inv apps c.appId m0 (floodFill mc c true s unl).m := hinv.step hv hstep
      have hsent' : ∀ l ∈ sent ++ [unl], SentOK c apps m0 l := by
        intro l hl
        rcases List.mem_append.mp hl with h | h
        · exact hsent l h
        · simp only [List.mem_singleton] at h; subst h
          exact ⟨hsub, s.m, hinv, htr⟩
      -- the read-back continuation, from any simulator state with the same machine
      have hcheck : ∀ s2 : Sim, s2.m = (floodFill mc c true s unl).m →
          let r := loadLoop mc c (coreCount apps) fuel (checkApps mc c.buf s2 unl).1 (tries + 1)
            (checkApps mc c.buf s2 unl).2 (sent ++ [unl])
          LI c apps m0 r.1 r.2.1 ∧ (∀ l ∈ r.2.2, SentOK c apps m0 l) ∧
          r.2.2.length ≤ sent.length + (fuel + 1) ∧
          (r.2.1 ≠ [] → tries + (fuel + 1) = c.nTries + 1 → r.2.2.length = sent.length + (fuel + 1)) := by
        intro s2 hs2
        obtain ⟨c1, c2, _⟩ := checkApps_spec mc c.buf hv.hb hv.hv unl s2
        have hinv2 : Inv apps c.appId m0 (checkApps mc c.buf s2 unl).1.m := by rw [c2, hs2]; exact hinv1
        have hstep2 : FillStep apps c.appId s.m (checkApps mc c.buf s2 unl).1.m := by rw [c2, hs2]; exact hstep
        have hf := tracks_filt hv hpre hinv2 hstep2 hsub htr
        rw [c2, ← c1] at hf
        have := ih (checkApps mc c.buf s2 unl).1 (tries + 1) (checkApps mc c.buf s2 unl).2 (sent ++ [unl])
          ⟨hinv2, hf.1, by rw [c2]; exact hf.2⟩ hsent'
        simp only [List.length_append, List.length_singleton] at this
        refine ⟨this.1, this.2.1, by omega, fun h1 h2 => ?_⟩
        have := this.2.2.2 h1 (by omega)
        omega
      by_cases huc : c.useCount = true
      · simp only [huc, if_true, send_count mc c _ hv.happ]
        split
        · -- the count shortcut succeeded
          rename_i hcnt
          have hall := count_full hv hpre hinv1 hcnt
          have := ih { (floodFill mc c true s unl) with
              trace := (countReq stWait c.appId, Reply.count ((allCores mc.chips).countP fun k =>
                matchesApp ((floodFill mc c true s unl).m.core k.1 k.2.1 k.2.2) stWait c.appId)) ::
                  (floodFill mc c true s unl).trace }
            (tries + 1) [] (sent ++ [unl])
            ⟨hinv1, fun u hu => absurd hu (by simp), fun a ha x y p hw => by
              constructor
              · intro hne; exact absurd (hall a ha x y p hw) hne
              · rintro ⟨u, hu, _⟩; exact absurd hu (by simp)⟩ hsent'
          simp only [List.length_append, List.length_singleton] at this
          refine ⟨this.1, this.2.1, by omega, fun h1 h2 => ?_⟩
          have := this.2.2.2 h1 (by omega)
          omega
        · exact hcheck _ rfl
      · have huc' : c.useCount = false := by simpa using huc
        simp only [huc', Bool.false_eq_true, if_false]
        exact hcheck _ rfl
    · rw [if_neg hcond]
      refine ⟨⟨hinv, hsub, htr⟩, hsent, Nat.le_add_right _ _, fun h1 h2 => ?_⟩
      exfalso
      apply hcond
      exact ⟨h1, by omega⟩

end Rig.C09
